(* C19 - heap model of the wordlist family's data ownership.

   The Python objects that matter for "who can see whose changes" are the row
   lists (wl._data[k], or D[k] of a caller's dictionary) and the header object
   (wl.header/_header/columns/_alias*, or D[0]).  They live in a heap of
   mutable lists; an object (dictionary or wordlist) is a header location and
   an ordered list  id |-> row location.  Cells and names are immutable values
   (integers: the harness interns Python values by deep equality).

   Modelled code: lingpy/basic/parser.py  QLCParser.__init__ (dictionary and
   wordlist branches, lines 59-80, 108-139), __setitem__ (249-260),
   _add_entries (314-392); the caller's own list operations on a dictionary.

   No proofs in this file. *)
From Coq Require Import ZArith List Bool Arith.
Import ListNotations.

Definition loc := nat.
Definition heap := list (list Z).

Definition hget (h : heap) (l : loc) : list Z := nth l h [].

Fixpoint hset (h : heap) (l : loc) (v : list Z) : heap :=
  match h, l with
  | [], _ => []
  | _ :: t, O => v :: t
  | x :: t, S l' => x :: hset t l' v
  end.

Definition halloc (h : heap) (v : list Z) : loc * heap := (length h, h ++ [v]).

Inductive kind := KDict | KWl.

(* o_strkeys: the rows of a caller's dictionary are stored under numeric STRING keys ('1', '2');
   o_stale: what wl._meta holds under such keys - references (id |-> location) to row lists of
   the dictionary the object (or an ancestor) was built from.  QLCParser.__init__ (176-180)
   stores every non-int key of its input in _meta, uncopied; it never writes through them,
   but a construction FROM this object reads them (see eff_rows). *)
Record obj := mkObj { o_kind : kind; o_hdr : loc; o_rows : list (Z * loc);
                      o_strkeys : bool; o_stale : list (Z * loc) }.

Record state := mkState { st_heap : heap; st_objs : list obj }.

Definition empty_state : state := mkState [] [].

(* ------------------------------------------------------------------ *)
(* small list helpers *)

Fixpoint memz (x : Z) (l : list Z) : bool :=
  match l with [] => false | y :: t => Z.eqb x y || memz x t end.

Fixpoint nodupz (l : list Z) : bool :=
  match l with [] => true | x :: t => negb (memz x t) && nodupz t end.

Fixpoint index_of (x : Z) (l : list Z) : option nat :=
  match l with
  | [] => None
  | y :: t => if Z.eqb x y then Some O else option_map S (index_of x t)
  end.

Fixpoint find_row (rows : list (Z * loc)) (id : Z) : option loc :=
  match rows with
  | [] => None
  | (k, l) :: t => if Z.eqb k id then Some l else find_row t id
  end.

Fixpoint set_nth (l : list Z) (i : nat) (v : Z) : option (list Z) :=
  match l, i with
  | [], _ => None
  | _ :: t, O => Some (v :: t)
  | x :: t, S j => option_map (cons x) (set_nth t j v)
  end.

Fixpoint map_opt {A B} (f : A -> option B) (l : list A) : option (list B) :=
  match l with
  | [] => Some []
  | x :: t => match f x, map_opt f t with
              | Some y, Some r => Some (y :: r)
              | _, _ => None
              end
  end.

(* ------------------------------------------------------------------ *)
(* constructors: QLCParser.__init__ *)

(* every row is copied into a fresh list ([cell for cell in v]) *)
Fixpoint copy_rows (h : heap) (rows : list (Z * loc)) : heap * list (Z * loc) :=
  match rows with
  | [] => (h, [])
  | (id, l) :: t =>
      let (l', h') := halloc h (hget h l) in
      let (h'', t') := copy_rows h' t in
      (h'', (id, l') :: t')
  end.

(* a mutant constructor for the non-vacuity examples: rows taken by reference
   (the behaviour of the dictionary branch before the repair F1) *)
Definition share_rows (h : heap) (rows : list (Z * loc)) : heap * list (Z * loc) := (h, rows).

Fixpoint alloc_rows (h : heap) (rows : list (Z * list Z)) : heap * list (Z * loc) :=
  match rows with
  | [] => (h, [])
  | (id, v) :: t =>
      let (l', h') := halloc h v in
      let (h'', t') := alloc_rows h' t in
      (h'', (id, l') :: t')
  end.

(* construction is rejected (ValueError) when the header has duplicate names
   (the header dictionary is then shorter than the rows), when some row has not
   as many cells as the header, or when a required column (row/col of the
   Wordlist class) is missing *)
(* the rows a construction from object o reads: input_data = copies of o._data, then
   input_data.update(o._meta): a numeric-string key '9' of _meta comes later in the
   comprehension  {int(k): ... for k in input_data}  and replaces the row with id 9 *)
Definition eff_rows (o : obj) : list (Z * loc) :=
  map (fun r => (fst r, match find_row (o_stale o) (fst r) with Some l' => l' | None => snd r end)) (o_rows o).

(* the _meta references the new object gets *)
Definition stale_of (o : obj) : list (Z * loc) :=
  match o_kind o with
  | KDict => if o_strkeys o then o_rows o else []
  | KWl => o_stale o
  end.

Definition cons_ok (h : heap) (o : obj) (req : list Z) : bool :=
  let hdr := hget h (o_hdr o) in
  nodupz hdr
  && forallb (fun r => Nat.eqb (length (hget h (snd r))) (length hdr)) (eff_rows o)
  && forallb (fun n => memz n hdr) req.

Definition cons_with (cp : heap -> list (Z * loc) -> heap * list (Z * loc))
           (s : state) (src : nat) (req : list Z) : state * bool :=
  match nth_error (st_objs s) src with
  | None => (s, true)
  | Some o =>
      let h := st_heap s in
      if cons_ok h o req then
        let (lh, h1) := halloc h (hget h (o_hdr o)) in
        let (h2, rows') := cp h1 (eff_rows o) in
        (mkState h2 (st_objs s ++ [mkObj KWl lh rows' false (stale_of o)]), false)
      else (s, true)
  end.

Definition cons_obj := cons_with copy_rows.

Definition new_dict (s : state) (hdr : list Z) (rows : list (Z * list Z)) (strkeys : bool) : state * bool :=
  let (lh, h1) := halloc (st_heap s) hdr in
  let (h2, rows') := alloc_rows h1 rows in
  (mkState h2 (st_objs s ++ [mkObj KDict lh rows' strkeys []]), false).

(* ------------------------------------------------------------------ *)
(* _add_entries *)

Inductive source :=
| SCols (cols : list Z)            (* source='a' or 'a,b': cells of these columns are the argument *)
| SDict (vals : list (Z * Z)).     (* source={id: value}: the value of the row's id is the argument *)

Fixpoint assocz (k : Z) (l : list (Z * Z)) : option Z :=
  match l with
  | [] => None
  | (a, b) :: t => if Z.eqb a k then Some b else assocz k t
  end.

Inductive amode := MAppend | MOverride (idx : nat).

(* the argument handed to the user function for one row; None = the lookup raises *)
Definition arg_of (src : source) (idxs : list nat) (id : Z) (row : list Z) : option (list Z) :=
  match src with
  | SCols _ => map_opt (fun i => nth_error row i) idxs
  | SDict vals => option_map (fun v => [v]) (assocz id vals)
  end.

(* the loop  for key in self: _apply(...)  ; stops at the first row that raises,
   leaving the rows before it updated *)
Fixpoint apply_rows (h : heap) (rows : list (Z * loc)) (src : source) (idxs : list nat)
         (f : list Z -> option Z) (m : amode) : heap * bool :=
  match rows with
  | [] => (h, false)
  | (id, l) :: t =>
      let row := hget h l in
      match arg_of src idxs id row with
      | None => (h, true)
      | Some a =>
          match f a with
          | None => (h, true)
          | Some res =>
              match m with
              | MAppend => apply_rows (hset h l (row ++ [res])) t src idxs f m
              | MOverride i =>
                  match set_nth row i res with
                  | None => (h, true)
                  | Some row' => apply_rows (hset h l row') t src idxs f m
                  end
              end
          end
      end
  end.

(* answer = what util.confirm returns when the column exists and override=False *)
Definition add_entries (s : state) (tgt : nat) (entry : Z) (src : source)
           (f : list Z -> option Z) (override answer : bool) : state * bool :=
  match nth_error (st_objs s) tgt with
  | None => (s, true)
  | Some o =>
      match o_kind o with
      | KDict => (s, true)
      | KWl =>
          let h := st_heap s in
          let hdr := hget h (o_hdr o) in
          let mode :=
            match index_of entry hdr with
            | None => Some MAppend                       (* also when override=True: re-called with override=False *)
            | Some i => if override || answer then Some (MOverride i) else None
            end in
          match mode with
          | None => (s, false)                            (* column exists, user declined: nothing happens *)
          | Some m =>
              let hdr' := match m with MAppend => hdr ++ [entry] | MOverride _ => hdr end in
              let h1 := match m with MAppend => hset h (o_hdr o) hdr' | MOverride _ => h end in
              let idxs := match src with
                          | SCols cols => map_opt (fun c => index_of c hdr') cols
                          | SDict _ => Some []
                          end in
              match idxs with
              | None => (mkState h1 (st_objs s), true)    (* KeyError after the header was extended *)
              | Some ix =>
                  let (h2, r) := apply_rows h1 (o_rows o) src ix f m in
                  (mkState h2 (st_objs s), r)
              end
          end
      end
  end.

(* __setitem__: wl[id, col] = v ; nothing changes when it raises *)
Definition set_item (s : state) (tgt : nat) (id col v : Z) : state * bool :=
  match nth_error (st_objs s) tgt with
  | None => (s, true)
  | Some o =>
      match o_kind o with
      | KDict => (s, true)
      | KWl =>
          let h := st_heap s in
          match find_row (o_rows o) id, index_of col (hget h (o_hdr o)) with
          | Some l, Some i =>
              match set_nth (hget h l) i v with
              | Some row' => (mkState (hset h l row') (st_objs s), false)
              | None => (s, true)
              end
          | _, _ => (s, true)
          end
      end
  end.

(* ------------------------------------------------------------------ *)
(* what the caller does with the own dictionary *)

Definition dict_set (s : state) (tgt : nat) (id : Z) (i : nat) (v : Z) : state * bool :=
  match nth_error (st_objs s) tgt with
  | None => (s, true)
  | Some o =>
      match o_kind o with
      | KWl => (s, true)
      | KDict =>
          let h := st_heap s in
          match find_row (o_rows o) id with
          | Some l =>
              match set_nth (hget h l) i v with
              | Some row' => (mkState (hset h l row') (st_objs s), false)
              | None => (s, true)
              end
          | None => (s, true)
          end
      end
  end.

Definition dict_append (s : state) (tgt : nat) (id : Z) (v : Z) : state * bool :=
  match nth_error (st_objs s) tgt with
  | None => (s, true)
  | Some o =>
      match o_kind o with
      | KWl => (s, true)
      | KDict =>
          let h := st_heap s in
          match find_row (o_rows o) id with
          | Some l => (mkState (hset h l (hget h l ++ [v])) (st_objs s), false)
          | None => (s, true)
          end
      end
  end.

Definition dict_hdr_append (s : state) (tgt : nat) (name : Z) : state * bool :=
  match nth_error (st_objs s) tgt with
  | None => (s, true)
  | Some o =>
      match o_kind o with
      | KWl => (s, true)
      | KDict =>
          let h := st_heap s in
          (mkState (hset h (o_hdr o) (hget h (o_hdr o) ++ [name])) (st_objs s), false)
      end
  end.

(* ------------------------------------------------------------------ *)
(* operations and histories *)

Inductive op :=
| ONewDict (hdr : list Z) (rows : list (Z * list Z)) (strkeys : bool)
| OCons (src : nat) (req : list Z)
| OAdd (tgt : nat) (entry : Z) (src : source) (f : list Z -> option Z) (override answer : bool)
| OSet (tgt : nat) (id col v : Z)
| ODSet (tgt : nat) (id : Z) (i : nat) (v : Z)
| ODApp (tgt : nat) (id : Z) (v : Z)
| ODHdr (tgt : nat) (name : Z).

Definition exec (o : op) (s : state) : state * bool :=
  match o with
  | ONewDict hdr rows sk => new_dict s hdr rows sk
  | OCons src req => cons_obj s src req
  | OAdd tgt e src f ov an => add_entries s tgt e src f ov an
  | OSet tgt id col v => set_item s tgt id col v
  | ODSet tgt id i v => dict_set s tgt id i v
  | ODApp tgt id v => dict_append s tgt id v
  | ODHdr tgt n => dict_hdr_append s tgt n
  end.

(* the object an operation may write to; constructors write to fresh locations only *)
Definition target (o : op) : option nat :=
  match o with
  | ONewDict _ _ _ => None
  | OCons _ _ => None
  | OAdd tgt _ _ _ _ _ => Some tgt
  | OSet tgt _ _ _ => Some tgt
  | ODSet tgt _ _ _ => Some tgt
  | ODApp tgt _ _ => Some tgt
  | ODHdr tgt _ => Some tgt
  end.

(* a history; an operation that raises leaves its (possibly partial) effect and
   the history goes on, as in an interactive session *)
Fixpoint run (ops : list op) (s : state) : state :=
  match ops with
  | [] => s
  | o :: t => run t (fst (exec o s))
  end.

(* one harness step = a short list of operations (an analysis is observed as a
   construction followed by column additions/assignments on the new object);
   it stops at the first operation that raises *)
Fixpoint run_macro (ops : list op) (s : state) : state * bool :=
  match ops with
  | [] => (s, false)
  | o :: t => let (s', r) := exec o s in if r then (s', true) else run_macro t s'
  end.

(* ------------------------------------------------------------------ *)
(* observation *)

(* what a caller can read from object k: header names and (id, cells) in row order *)
Definition view_obj (h : heap) (o : obj) : list Z * list (Z * list Z) :=
  (hget h (o_hdr o), map (fun r => (fst r, hget h (snd r))) (o_rows o)).

Definition view (s : state) (k : nat) : option (list Z * list (Z * list Z)) :=
  option_map (view_obj (st_heap s)) (nth_error (st_objs s) k).

Definition obj_locs (o : obj) : list loc := o_hdr o :: map snd (o_rows o).

(* what a construction from o would copy *)
Definition eff_view_obj (h : heap) (o : obj) : list Z * list (Z * list Z) :=
  (hget h (o_hdr o), map (fun r => (fst r, hget h (snd r))) (eff_rows o)).

Definition all_locs (s : state) : list loc := flat_map obj_locs (st_objs s).
