(* C13 - the <dst> and <scorer> blocks: what is read back is the decimal rounding of what was saved. *)
From Coq Require Import QArith ZArith List Bool Lia.
From LV Require Import Wordlist.SerializeStr Wordlist.SerializeStrProofs Wordlist.SerializeNum
  Wordlist.SerializeNumProofs Wordlist.Serialize Wordlist.SerializeProofs.
Import ListNotations.
Local Open Scope Z_scope.

Lemma show_fixed_shape : forall n x, exists a b,
  show_fixed n x = (if qneg x then [45] else []) ++ a ++ 46 :: b
  /\ Forall (fun c => is_digit c = true) a /\ Forall (fun c => is_digit c = true) b /\ a <> [].
Proof.
  intros n x. unfold show_fixed.
  remember (pad0 (S n) (show_nat (scaled n x))) as ds eqn:Hds.
  pose proof (scaled_nonneg n x) as K.
  assert (FD : Forall (fun c => is_digit c = true) ds) by (rewrite Hds; apply pad0_digits, show_nat_digits, K).
  pose proof (pad0_length (S n) (show_nat (scaled n x))) as LEN. rewrite <- Hds in LEN.
  remember (length ds - n)%nat as ip eqn:Hip.
  exists (firstn ip ds), (skipn ip ds). split; [reflexivity|].
  split; [apply Forall_firstn, FD|]. split; [apply Forall_skipn, FD|].
  intros E. apply (f_equal (@length Z)) in E. rewrite firstn_length in E. cbn [length] in E. lia.
Qed.

Lemma show_fixed_item : forall n x, item_ok (show_fixed n x).
Proof.
  intros n x. destruct (show_fixed_shape n x) as [a [b [E [FA [FB NA]]]]]. rewrite E. split.
  - destruct (qneg x); cbn [app]; [discriminate|]. destruct a; [congruence|discriminate].
  - apply nospace_app; [destruct (qneg x); reflexivity|].
    apply nospace_app; [apply digits_nospace, FA|]. apply nospace_cons; [reflexivity|apply digits_nospace, FB].
Qed.

Lemma show_fixed_notab : forall n x, ~ In 9 (show_fixed n x).
Proof. intros n x. destruct (show_fixed_item n x) as [_ H]. apply nospace_not_in; [exact H|reflexivity]. Qed.

Lemma strip_lead32 : forall s, strip (32 :: s) = strip s.
Proof. intros s. unfold strip. cbn [lstrip]. change (is_space 32) with true. reflexivity. Qed.

Lemma dst_name_length : forall t, length (dst_name t) = 10%nat \/ length (dst_name t) = 11%nat.
Proof.
  intros t. unfold dst_name. rewrite firstn_length, app_length, repeat_length. lia.
Qed.

Lemma skipn_dst_name : forall t body,
  skipn 11 (dst_name t ++ 32 :: body) = body \/ skipn 11 (dst_name t ++ 32 :: body) = 32 :: body.
Proof.
  intros t body. rewrite skipn_app.
  destruct (dst_name_length t) as [L|L]; rewrite L.
  - left. rewrite skipn_all2 by lia. reflexivity.
  - right. rewrite skipn_all2 by lia. reflexivity.
Qed.

Lemma fixed_items : forall n row, Forall item_ok (map (show_fixed n) row).
Proof.
  intros n row. apply (Forall_map_item (show_fixed n) (fun _ => True)); [intros; apply show_fixed_item|apply Forall_True].
Qed.

Lemma all_some_map2 : forall {A B} (f : str -> option B) (g : A -> str) (h : A -> B) l,
  (forall x, f (g x) = Some (h x)) -> all_some (map f (map g l)) = Some (map h l).
Proof.
  intros A B f g h l H. induction l as [|x l IH]; cbn [map all_some]; [reflexivity|].
  rewrite H, IH. reflexivity.
Qed.

(* one line of a <dst> block: whatever the taxon name, the numbers read back are the four-decimal
   roundings of the numbers saved *)
Theorem dst_row_roundtrip : forall taxon row, row <> [] ->
  read_dst_row (dst_line taxon row) = Some (map r4 row).
Proof.
  intros taxon row NE. unfold read_dst_row, dst_line.
  remember (join [32] (map (show_fixed 4) row)) as body eqn:Hb.
  assert (CL : field_clean body) by (rewrite Hb; apply join_items_clean, fixed_items).
  assert (BN : body <> []).
  { rewrite Hb. destruct row as [|x r]; [congruence|]. cbn [map].
    destruct (join_ends (map (show_fixed 4) r) (show_fixed 4 x)) as [J _]; [apply show_fixed_item|apply fixed_items|exact J]. }
  assert (ST : strip (skipn 11 (dst_name taxon ++ 32 :: body)) = body).
  { destruct CL as [_ [_ S]].
    destruct (skipn_dst_name taxon body) as [E|E]; rewrite E; [|rewrite strip_lead32]; apply strip_stripped, S. }
  rewrite ST.
  assert (GOAL : all_some (map parse_decQ (split_ws body)) = Some (map r4 row)).
  { rewrite Hb, split_ws_join by apply fixed_items. apply all_some_map2. intros; apply parse_show_fixed. }
  destruct body as [|c t]; [congruence|exact GOAL].
Qed.

(* one line of a <scorer> block *)
Theorem scorer_line_roundtrip : forall c row, ~ In 9 c ->
  read_scorer_line (scorer_line c row) = Some (c, map r2 row).
Proof.
  intros c row NT. unfold read_scorer_line, scorer_line.
  rewrite split_join; [|discriminate|].
  - rewrite (all_some_map2 parse_decQ (show_fixed 2) r2); [reflexivity|intros; apply parse_show_fixed].
  - constructor; [exact NT|]. apply Forall_forall. intros s I. apply in_map_iff in I. destruct I as [x [<- _]].
    apply show_fixed_notab.
Qed.

(* ------------------------------------------------------------------ *)
(* whole blocks *)
Lemma lstrip_in : forall s c, In c s -> is_space c = false -> In c (lstrip s).
Proof.
  induction s as [|x s IH]; intros c I H; [destruct I|].
  cbn [lstrip]. destruct (is_space x) eqn:E; [|exact I].
  destruct I as [->|I]; [congruence|]. apply IH; assumption.
Qed.

Lemma strip_in : forall s c, In c s -> is_space c = false -> In c (strip s).
Proof.
  intros s c I H. unfold strip, rstrip. apply -> in_rev. apply lstrip_in; [|exact H].
  apply -> in_rev. apply lstrip_in; assumption.
Qed.

Definition nonblank (l : str) : bool := negb (nullb (strip l)).
Lemma nonblank_in : forall s c, In c s -> is_space c = false -> nonblank s = true.
Proof.
  intros s c I H. unfold nonblank. pose proof (strip_in s c I H) as J. destruct (strip s); [destruct J|reflexivity].
Qed.

Definition hashb (t : str) : bool := match t with c :: _ => c =? 35 | [] => false end.

Lemma map_snd_combine_eq : forall {A B} (a : list A) (b : list B), length a = length b -> map snd (combine a b) = b.
Proof.
  intros A B. induction a as [|x a IH]; intros b L; destruct b as [|y b]; cbn [length] in L; try discriminate L; [reflexivity|].
  cbn [combine map snd]. rewrite IH by lia. reflexivity.
Qed.

Lemma dst_line_nonblank : forall t row, row <> [] -> nonblank (dst_line t row) = true.
Proof.
  intros t row NE. unfold dst_line. destruct row as [|x r]; [congruence|]. cbn [map].
  destruct (join_ends (map (show_fixed 4) r) (show_fixed 4 x)) as [J1 [J2 _]]; [apply show_fixed_item|apply fixed_items|].
  destruct (join [32] (show_fixed 4 x :: map (show_fixed 4) r)) as [|c b] eqn:E; [congruence|].
  cbn [hd] in J2. apply (nonblank_in _ c); [|exact J2].
  apply in_or_app. right. right. left. reflexivity.
Qed.

Lemma dst_line_nohash : forall t row, hashb t = false -> hashb (dst_line t row) = false.
Proof.
  intros t row H. unfold dst_line, dst_name. destruct t as [|c t']; [reflexivity|].
  cbn [app firstn hashb] in *. exact H.
Qed.

(* a whole <dst> block: every distance read back is the four-decimal rounding of the one saved *)
Theorem dst_block_roundtrip : forall taxa m,
  length taxa = length m -> Forall (fun t => hashb t = false) taxa -> Forall (fun r => r <> []) m ->
  read_dst_lines (dst_lines taxa m) = Some (map (map r4) m).
Proof.
  intros taxa m L FT FM. unfold read_dst_lines, dst_lines.
  set (lines := map (fun p : str * list Q => dst_line (fst p) (snd p)) (combine taxa m)).
  assert (ROWS : Forall (fun p : str * list Q => hashb (fst p) = false /\ snd p <> []) (combine taxa m)).
  { apply Forall_forall. intros [t r] I. cbn [fst snd]. split.
    - rewrite Forall_forall in FT. apply FT. eapply in_combine_l; eauto.
    - rewrite Forall_forall in FM. apply FM. eapply in_combine_r; eauto. }
  assert (NB : filter (fun l => negb (nullb (strip l))) ((32 :: show_nat (Z.of_nat (length taxa))) :: lines)
               = (32 :: show_nat (Z.of_nat (length taxa))) :: lines).
  { apply filter_all. cbn [forallb]. apply andb_true_iff. split.
    - pose proof (show_nat_nonempty (Z.of_nat (length taxa))) as NE.
      pose proof (show_nat_digits (Z.of_nat (length taxa)) ltac:(lia)) as FD.
      destruct (show_nat (Z.of_nat (length taxa))) as [|c r] eqn:E; [congruence|]. inversion FD; subst.
      apply (nonblank_in _ c); [right; left; reflexivity|apply digit_not_space; assumption].
    - apply forallb_forall. intros l I. unfold lines in I. apply in_map_iff in I. destruct I as [p [<- I]].
      rewrite Forall_forall in ROWS. destruct (ROWS p I) as [_ NE]. apply dst_line_nonblank, NE. }
  rewrite NB.
  assert (NH : filter (fun l => negb (match l with c :: _ => c =? 35 | [] => false end)) lines = lines).
  { apply filter_all. apply forallb_forall. intros l I. unfold lines in I. apply in_map_iff in I. destruct I as [p [<- I]].
    rewrite Forall_forall in ROWS. destruct (ROWS p I) as [H _].
    change (negb (hashb (dst_line (fst p) (snd p))) = true). rewrite dst_line_nohash by exact H. reflexivity. }
  rewrite NH. unfold lines. rewrite <- (map_snd_combine_eq taxa m L) at 2.
  clear NB NH lines. induction (combine taxa m) as [|p rest IH]; [reflexivity|].
  inversion ROWS as [|? ? [_ NE] Hr]; subst. cbn [map all_some].
  rewrite dst_row_roundtrip by exact NE. rewrite IH by exact Hr. reflexivity.
Qed.

Lemma scorer_line_has_tab : forall c row, row <> [] -> existsb (Z.eqb 9) (scorer_line c row) = true.
Proof.
  intros c row NE. unfold scorer_line. destruct row as [|x r]; [congruence|]. cbn [map].
  rewrite join_cons2. apply existsb_exists. exists 9. split; [|reflexivity].
  apply in_or_app. right. left. reflexivity.
Qed.

(* a whole <scorer> block (at least two symbols: a one-line block is not recognised by read_scorer) *)
Theorem scorer_block_roundtrip : forall chars m,
  (2 <= length chars)%nat -> length chars = length m ->
  Forall (fun c => ~ In 9 c) chars -> Forall (fun r => r <> []) m ->
  read_scorer_lines (scorer_lines chars m) = Some (combine chars (map (map r2) m)).
Proof.
  intros chars m L2 L FC FM. unfold read_scorer_lines, scorer_lines.
  assert (ROWS : Forall (fun p : str * list Q => ~ In 9 (fst p) /\ snd p <> []) (combine chars m)).
  { apply Forall_forall. intros [t r] I. cbn [fst snd]. split.
    - rewrite Forall_forall in FC. apply FC. eapply in_combine_l; eauto.
    - rewrite Forall_forall in FM. apply FM. eapply in_combine_r; eauto. }
  destruct chars as [|c1 [|c2 chars]]; cbn [length] in L2; try lia.
  destruct m as [|rw1 [|rw2 m]]; cbn [length] in L; try lia.
  cbn [combine map]. cbn [combine] in ROWS.
  inversion ROWS as [|? ? [T1 N1] R2]; subst. inversion R2 as [|? ? [T2 N2] R3]; subst. cbn [fst snd] in *.
  cbn [existsb]. rewrite (scorer_line_has_tab c1 rw1 N1). cbn [orb].
  assert (NN : forall c r, r <> [] -> negb (nullb (scorer_line c r)) = true).
  { intros c r NE. pose proof (scorer_line_has_tab c r NE) as E. destruct (scorer_line c r); [discriminate E|reflexivity]. }
  cbn [filter]. rewrite (NN c1 rw1 N1), (NN c2 rw2 N2). cbn [map all_some].
  rewrite (scorer_line_roundtrip c1 rw1 T1), (scorer_line_roundtrip c2 rw2 T2). cbn [option_map].
  match goal with |- context [all_some ?X] =>
    assert (REST : all_some X = Some (combine chars (map (map r2) m))) end.
  { assert (LL : length chars = length m) by lia. clear L L2 ROWS R2 FC FM.
    revert m LL R3. induction chars as [|c chars IH]; intros m LL R3; destruct m as [|r m]; cbn [length] in LL; try discriminate LL; [reflexivity|].
    cbn [combine map] in *. inversion R3 as [|? ? [T N] R4]; subst. cbn [fst snd] in *.
    cbn [filter]. rewrite (NN c r N). cbn [map all_some]. rewrite (scorer_line_roundtrip c r T). cbn [option_map].
    rewrite IH; [reflexivity|lia|exact R4]. }
  rewrite REST. reflexivity.
Qed.

(* the <dst> block as read_qlc stores it, for a square matrix *)
Theorem dst_file_roundtrip : forall taxa m,
  length taxa = length m -> Forall (fun t => hashb t = false) taxa -> Forall (fun r => length r = length m) m ->
  read_dst_block (dst_lines taxa m) = Some (sym_upper (map (map r4) m)).
Proof.
  intros taxa m L FT SQ. unfold read_dst_block.
  rewrite dst_block_roundtrip; [|exact L|exact FT|].
  - assert (E : existsb (fun r : list Q => (length (map (map r4) m) <? length r)%nat) (map (map r4) m) = false).
    { destruct (existsb (fun r : list Q => (length (map (map r4) m) <? length r)%nat) (map (map r4) m)) eqn:E; [|reflexivity].
      apply existsb_exists in E. destruct E as [r [I E]]. apply in_map_iff in I. destruct I as [r0 [<- I]].
      rewrite Forall_forall in SQ. specialize (SQ r0 I). rewrite !map_length in E. apply Nat.ltb_lt in E. lia. }
    rewrite E. reflexivity.
  - apply Forall_forall. intros r I. rewrite Forall_forall in SQ. specialize (SQ r I).
    destruct m as [|a m']; [destruct I|]. cbn [length] in SQ. destruct r; [discriminate SQ|discriminate].
Qed.
