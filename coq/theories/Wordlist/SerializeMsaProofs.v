(* C13 - proofs about the <msa> blocks and the alignment state. *)
From Coq Require Import ZArith List Bool Lia Arith Permutation.
From LV Require Import Wordlist.SerializeStr Wordlist.SerializeStrProofs Wordlist.SerializeNum Wordlist.SerializeNumProofs
  Wordlist.Serialize Wordlist.SerializeProofs Wordlist.SerializeMsa.
Import ListNotations.
Local Open Scope Z_scope.

(* ------------------------------------------------------------------ *)
(* x.strip().rstrip('.') *)
Definition norm (x : str) : str := rstrip_c 46 (strip x).

Lemma rev_repeat : forall {A} (x : A) k, rev (repeat x k) = repeat x k.
Proof.
  intros A x. induction k as [|k IH]; [reflexivity|].
  cbn [repeat rev]. rewrite IH. symmetry. apply repeat_cons.
Qed.

Lemma lstrip_c_repeat : forall x k rest, lstrip_c x (repeat x k ++ rest) = lstrip_c x rest.
Proof.
  intros x. induction k as [|k IH]; intros rest; [reflexivity|].
  cbn [repeat app lstrip_c]. rewrite Z.eqb_refl. apply IH.
Qed.

Lemma lstrip_c_keep : forall x s, (s = [] \/ hd 0 s <> x) -> lstrip_c x s = s.
Proof.
  intros x s H. destruct s as [|c r]; [reflexivity|]. cbn [lstrip_c]. destruct H as [H|H]; [discriminate H|].
  cbn [hd] in H. destruct (c =? x) eqn:E; [apply Z.eqb_eq in E; congruence|reflexivity].
Qed.

Lemma hd_rev_last : forall (s : str), hd 0 (rev s) = last s 0.
Proof.
  intros s. destruct s as [|c r] using rev_ind; [reflexivity|].
  rewrite rev_app_distr, last_last. reflexivity.
Qed.

(* trailing dots (the padding of names) are stripped; a string that does not end in '.' is kept *)
Lemma rstrip_dots : forall s k, (s = [] \/ last s 0 <> 46) -> rstrip_c 46 (s ++ repeat 46 k) = s.
Proof.
  intros s k H. unfold rstrip_c. rewrite rev_app_distr, rev_repeat, lstrip_c_repeat.
  rewrite lstrip_c_keep; [apply rev_involutive|].
  destruct H as [->|H]; [left; reflexivity|]. right. rewrite hd_rev_last. exact H.
Qed.

Lemma rstrip_keep : forall s, (s = [] \/ last s 0 <> 46) -> rstrip_c 46 s = s.
Proof. intros s H. rewrite <- (app_nil_r s) at 1. apply (rstrip_dots s 0 H). Qed.

Lemma last_app_repeat : forall (s : str) x k d, (0 < k)%nat -> last (s ++ repeat x k) d = x.
Proof.
  intros s x k d H. destruct k as [|k]; [lia|].
  rewrite <- rev_repeat. cbn [repeat rev]. rewrite rev_repeat, app_assoc. apply last_last.
Qed.

Lemma hd_app : forall (s t : str) d, s <> [] -> hd d (s ++ t) = hd d s.
Proof. intros s t d H. destruct s; [congruence|reflexivity]. Qed.

Lemma strippedb_ljust : forall s k, strippedb s = true -> strippedb (s ++ repeat 46 k) = true.
Proof.
  intros s k H. destruct k as [|k]; [rewrite app_nil_r; exact H|].
  apply strippedb_ends.
  - destruct s; discriminate.
  - destruct s as [|c r]; [reflexivity|]. cbn [app hd]. unfold strippedb in H.
    apply andb_true_iff in H. destruct H as [H _]. apply negb_true_iff in H. exact H.
  - rewrite last_app_repeat by lia. reflexivity.
Qed.

Lemma norm_ljust : forall w t, strippedb t = true -> (t = [] \/ last t 0 <> 46) -> norm (ljust w t) = t.
Proof.
  intros w t S L. unfold norm, ljust. rewrite strip_stripped by (apply strippedb_ljust, S).
  apply rstrip_dots, L.
Qed.

Lemma norm_keep : forall s, strippedb s = true -> (s = [] \/ last s 0 <> 46) -> norm s = s.
Proof. intros s S L. unfold norm. rewrite strip_stripped by exact S. apply rstrip_keep, L. Qed.

Lemma norm_show_int : forall z, norm (show_int z) = show_int z.
Proof.
  intros z. apply norm_keep; [apply strippedb_nospace, show_int_nospace|].
  right. pose proof (last_in (show_int z) 0 (show_int_nonempty z)) as I.
  destruct (show_int_chars _ _ I) as [E|E]; [rewrite E; discriminate|].
  unfold is_digit in E. lia.
Qed.

Definition seg_ok (s : str) : Prop := item_ok s /\ last s 0 <> 46.
Lemma seg_okb_ok : forall s, seg_okb s = true -> seg_ok s.
Proof.
  intros s H. unfold seg_okb in H. apply andb_true_iff in H. destruct H as [H1 H2].
  split; [apply item_okb_ok, H1|]. apply negb_true_iff in H2. lia.
Qed.
Lemma norm_seg : forall s, seg_ok s -> norm s = s.
Proof. intros s [[_ N] L]. apply norm_keep; [apply strippedb_nospace, N|right; exact L]. Qed.

(* a line "a TAB b TAB cells" splits into a, b and the cells *)
Lemma split_line3 : forall (a b : str) (cells : list str),
  ~ In 9 a -> ~ In 9 b -> cells <> [] -> Forall (fun c => ~ In 9 c) cells ->
  split_on 9 (a ++ 9 :: b ++ 9 :: join [9] cells) = a :: b :: cells.
Proof.
  intros a b cells Ha Hb NE F.
  rewrite split_on_app_sep by exact Ha. rewrite split_on_app_sep by exact Hb.
  rewrite split_join by assumption. reflexivity.
Qed.

Lemma ljust_notab : forall w t, ~ In 9 t -> ~ In 9 (ljust w t).
Proof.
  intros w t H I. unfold ljust in I. apply in_app_or in I. destruct I as [I|I]; [exact (H I)|].
  apply repeat_spec in I. discriminate I.
Qed.

(* ------------------------------------------------------------------ *)
(* the LOCAL line *)
Lemma norm_star : norm s_star = s_star. Proof. reflexivity. Qed.
Lemma norm_dot : norm s_dot = []. Proof. reflexivity. Qed.
Lemma norm_plus : norm s_plus = s_plus. Proof. reflexivity. Qed.
Lemma norm_gap : norm s_gap = s_gap. Proof. reflexivity. Qed.

Lemma stars_cells : forall (P : nat -> bool) k j,
  stars_from j (map norm (map (fun i => if P i then s_star else s_dot) (seq j k))) = filter P (seq j k).
Proof.
  intros P. induction k as [|k IH]; intros j; [reflexivity|].
  cbn [seq map stars_from filter]. destruct (P j).
  - rewrite norm_star. change (str_eqb s_star s_star) with true. cbv iota. rewrite IH. reflexivity.
  - rewrite norm_dot. change (str_eqb [] s_star) with false. cbv iota. apply IH.
Qed.

Lemma incr_from_gt : forall l lo x, incr_fromb lo l = true -> In x l -> (lo <= x)%nat.
Proof.
  induction l as [|a r IH]; intros lo x H I; [destruct I|].
  cbn [incr_fromb] in H. apply andb_true_iff in H. destruct H as [H1 H2]. apply Nat.leb_le in H1.
  destruct I as [<-|I]; [exact H1|]. specialize (IH (S a) x H2 I). lia.
Qed.

Lemma existsb_eqb_false : forall i l, ~ In i l -> existsb (Nat.eqb i) l = false.
Proof.
  intros i l H. destruct (existsb (Nat.eqb i) l) eqn:E; [|reflexivity].
  apply existsb_exists in E. destruct E as [x [I E]]. apply Nat.eqb_eq in E. subst. contradiction.
Qed.

Lemma filter_none : forall (P : nat -> bool) l, (forall x, In x l -> P x = false) -> filter P l = [].
Proof.
  intros P. induction l as [|x l IH]; intros H; [reflexivity|].
  cbn [filter]. rewrite (H x (or_introl eq_refl)). apply IH. intros y I. apply H. right. exact I.
Qed.

(* a strictly increasing list of positions below lo + k is what filtering the positions gives back *)
Lemma filter_sorted : forall l lo k, incr_fromb lo l = true -> forallb (fun i => (i <? lo + k)%nat) l = true ->
  filter (fun i => existsb (Nat.eqb i) l) (seq lo k) = l.
Proof.
  induction l as [|a r IH]; intros lo k H B.
  - apply filter_none. intros; reflexivity.
  - cbn [incr_fromb] in H. apply andb_true_iff in H. destruct H as [H1 H2]. apply Nat.leb_le in H1.
    cbn [forallb] in B. apply andb_true_iff in B. destruct B as [B1 B2]. apply Nat.ltb_lt in B1.
    replace k with ((a - lo) + S (lo + k - a - 1))%nat by lia.
    rewrite seq_app, filter_app. replace (lo + (a - lo))%nat with a by lia. cbn [seq filter].
    assert (F1 : filter (fun i => existsb (Nat.eqb i) (a :: r)) (seq lo (a - lo)) = []).
    { apply filter_none. intros x I. apply in_seq in I. apply existsb_eqb_false.
      intros [E|I2]; [lia|]. pose proof (incr_from_gt r (S a) x H2 I2). lia. }
    rewrite F1. cbn [app existsb]. rewrite Nat.eqb_refl. cbn [orb]. f_equal.
    transitivity (filter (fun i => existsb (Nat.eqb i) r) (seq (S a) (lo + k - a - 1))).
    + apply filter_ext_in. intros x I. apply in_seq in I. cbn [existsb].
      assert (Nat.eqb x a = false) as -> by (apply Nat.eqb_neq; lia). reflexivity.
    + apply IH; [exact H2|].
      rewrite forallb_forall in B2. apply forallb_forall. intros x I. specialize (B2 x I).
      apply Nat.ltb_lt in B2. apply Nat.ltb_lt. lia.
Qed.

Theorem local_roundtrip : forall n local, incr_fromb 0 local = true -> forallb (fun i => (i <? n)%nat) local = true ->
  stars_from 0 (map norm (local_cells n local)) = local.
Proof.
  intros n local H B. unfold local_cells. rewrite stars_cells. apply filter_sorted; [exact H|exact B].
Qed.

(* ------------------------------------------------------------------ *)
(* the CROSSED line *)
Fixpoint spec_cells (lo n : nat) (swaps : list (nat * nat * nat)) : list str :=
  match swaps with
  | [] => repeat s_dot (n - lo)
  | (a, _, _) :: r => repeat s_dot (a - lo) ++ s_plus :: s_gap :: s_plus :: spec_cells (S (S (S a))) n r
  end.

Lemma upd_app : forall {A} (p : list A) x y rest, upd (length p) x (p ++ y :: rest) = p ++ x :: rest.
Proof. intros A. induction p as [|z p IH]; intros x y rest; [reflexivity|]. cbn [length app upd]. rewrite IH. reflexivity. Qed.

Lemma swap_fold : forall swaps lo n (prefix : list str), length prefix = lo -> swaps_okb lo n swaps = true ->
  fold_left (fun tmp s => let '(a, b, c) := s in upd c s_plus (upd b s_gap (upd a s_plus tmp)))
            swaps (prefix ++ repeat s_dot (n - lo))
  = prefix ++ spec_cells lo n swaps.
Proof.
  induction swaps as [|[[a b] c] r IH]; intros lo n prefix L H; [reflexivity|].
  cbn [swaps_okb] in H.
  repeat (apply andb_true_iff in H; let H' := fresh "K" in destruct H as [H H']).
  apply Nat.leb_le in H. apply Nat.eqb_eq in K2. apply Nat.eqb_eq in K1. apply Nat.ltb_lt in K0. subst b c.
  cbn [fold_left spec_cells].
  replace (n - lo)%nat with ((a - lo) + (3 + (n - S (S (S a)))))%nat by lia.
  rewrite repeat_app. cbn [repeat plus].
  set (P := prefix ++ repeat s_dot (a - lo)).
  assert (LP : length P = a) by (unfold P; rewrite app_length, repeat_length; lia).
  rewrite app_assoc. fold P.
  rewrite <- LP at 1. rewrite upd_app.
  replace (P ++ s_plus :: s_dot :: s_dot :: repeat s_dot (n - S (S (S a))))
    with ((P ++ [s_plus]) ++ s_dot :: s_dot :: repeat s_dot (n - S (S (S a)))) by (rewrite <- app_assoc; reflexivity).
  replace (S a) with (length (P ++ [s_plus])) at 1 by (rewrite app_length; cbn [length]; lia).
  rewrite upd_app.
  replace ((P ++ [s_plus]) ++ s_gap :: s_dot :: repeat s_dot (n - S (S (S a))))
    with ((P ++ [s_plus; s_gap]) ++ s_dot :: repeat s_dot (n - S (S (S a)))) by (rewrite <- !app_assoc; reflexivity).
  replace (S (S a)) with (length (P ++ [s_plus; s_gap])) at 1 by (rewrite app_length; cbn [length]; lia).
  rewrite upd_app.
  replace ((P ++ [s_plus; s_gap]) ++ s_plus :: repeat s_dot (n - S (S (S a))))
    with ((P ++ [s_plus; s_gap; s_plus]) ++ repeat s_dot (n - S (S (S a)))) by (rewrite <- !app_assoc; reflexivity).
  rewrite IH; [|rewrite app_length; cbn [length]; lia|exact K].
  unfold P. rewrite <- !app_assoc. reflexivity.
Qed.

Lemma swap_cells_spec : forall n swaps, swaps_okb 0 n swaps = true -> swap_cells n swaps = spec_cells 0 n swaps.
Proof.
  intros n swaps H. unfold swap_cells.
  pose proof (swap_fold swaps 0%nat n [] eq_refl H) as E. cbn [app] in E. rewrite Nat.sub_0_r in E. exact E.
Qed.

Lemma parse_dots : forall k j rest, parse_swaps j (map norm (repeat s_dot k) ++ rest) = parse_swaps (j + k) rest.
Proof.
  induction k as [|k IH]; intros j rest; [rewrite Nat.add_0_r; reflexivity|].
  cbn [repeat map app parse_swaps]. rewrite norm_dot. change (str_eqb [] s_plus) with false. cbv iota.
  rewrite IH. f_equal. lia.
Qed.

Lemma parse_spec : forall swaps lo n, swaps_okb lo n swaps = true ->
  parse_swaps lo (map norm (spec_cells lo n swaps)) = Some swaps.
Proof.
  induction swaps as [|[[a b] c] r IH]; intros lo n H.
  - cbn [spec_cells]. rewrite <- (app_nil_r (map norm _)). rewrite parse_dots. reflexivity.
  - cbn [swaps_okb] in H.
    repeat (apply andb_true_iff in H; let H' := fresh "K" in destruct H as [H H']).
    apply Nat.leb_le in H. apply Nat.eqb_eq in K2. apply Nat.eqb_eq in K1. subst b c.
    cbn [spec_cells]. rewrite map_app, parse_dots. replace (lo + (a - lo))%nat with a by lia.
    cbn [map parse_swaps]. rewrite norm_plus. change (str_eqb s_plus s_plus) with true. cbv iota.
    rewrite (IH _ _ K). reflexivity.
Qed.

Theorem swaps_roundtrip : forall n swaps, swaps_okb 0 n swaps = true ->
  parse_swaps 0 (map norm (swap_cells n swaps)) = Some swaps.
Proof. intros n swaps H. rewrite swap_cells_spec by exact H. apply parse_spec, H. Qed.
