(* C13 - proofs about the <msa> blocks and the alignment state. *)
From Coq Require Import ZArith List Bool Lia Arith Permutation.
From LV Require Import Wordlist.SerializeStr Wordlist.SerializeStrProofs Wordlist.SerializeNum Wordlist.SerializeNumProofs
  Wordlist.Serialize Wordlist.SerializeProofs Wordlist.SerializeMsa.
Import ListNotations.
Local Open Scope Z_scope.

(* ------------------------------------------------------------------ *)
(* x.strip().rstrip('.') *)
Definition norm (x : str) : str := rstrip_c 46 (strip x).

Lemma rev_repeat : forall {A} (x : A) k, rev (repeat x k) = repeat x k.
Proof.
  intros A x. induction k as [|k IH]; [reflexivity|].
  cbn [repeat rev]. rewrite IH. symmetry. apply repeat_cons.
Qed.

Lemma lstrip_c_repeat : forall x k rest, lstrip_c x (repeat x k ++ rest) = lstrip_c x rest.
Proof.
  intros x. induction k as [|k IH]; intros rest; [reflexivity|].
  cbn [repeat app lstrip_c]. rewrite Z.eqb_refl. apply IH.
Qed.

Lemma lstrip_c_keep : forall x s, (s = [] \/ hd 0 s <> x) -> lstrip_c x s = s.
Proof.
  intros x s H. destruct s as [|c r]; [reflexivity|]. cbn [lstrip_c]. destruct H as [H|H]; [discriminate H|].
  cbn [hd] in H. destruct (c =? x) eqn:E; [apply Z.eqb_eq in E; congruence|reflexivity].
Qed.

Lemma hd_rev_last : forall (s : str), hd 0 (rev s) = last s 0.
Proof.
  intros s. destruct s as [|c r] using rev_ind; [reflexivity|].
  rewrite rev_app_distr, last_last. reflexivity.
Qed.

(* trailing dots (the padding of names) are stripped; a string that does not end in '.' is kept *)
Lemma rstrip_dots : forall s k, (s = [] \/ last s 0 <> 46) -> rstrip_c 46 (s ++ repeat 46 k) = s.
Proof.
  intros s k H. unfold rstrip_c. rewrite rev_app_distr, rev_repeat, lstrip_c_repeat.
  rewrite lstrip_c_keep; [apply rev_involutive|].
  destruct H as [->|H]; [left; reflexivity|]. right. rewrite hd_rev_last. exact H.
Qed.

Lemma rstrip_keep : forall s, (s = [] \/ last s 0 <> 46) -> rstrip_c 46 s = s.
Proof. intros s H. rewrite <- (app_nil_r s) at 1. apply (rstrip_dots s 0 H). Qed.

Lemma last_app_repeat : forall (s : str) x k d, (0 < k)%nat -> last (s ++ repeat x k) d = x.
Proof.
  intros s x k d H. destruct k as [|k]; [lia|].
  rewrite <- rev_repeat. cbn [repeat rev]. rewrite rev_repeat, app_assoc. apply last_last.
Qed.

Lemma hd_app : forall (s t : str) d, s <> [] -> hd d (s ++ t) = hd d s.
Proof. intros s t d H. destruct s; [congruence|reflexivity]. Qed.

Lemma strippedb_ljust : forall s k, strippedb s = true -> strippedb (s ++ repeat 46 k) = true.
Proof.
  intros s k H. destruct k as [|k]; [rewrite app_nil_r; exact H|].
  apply strippedb_ends.
  - destruct s; discriminate.
  - destruct s as [|c r]; [reflexivity|]. cbn [app hd]. unfold strippedb in H.
    apply andb_true_iff in H. destruct H as [H _]. apply negb_true_iff in H. exact H.
  - rewrite last_app_repeat by lia. reflexivity.
Qed.

Lemma norm_ljust : forall w t, strippedb t = true -> (t = [] \/ last t 0 <> 46) -> norm (ljust w t) = t.
Proof.
  intros w t S L. unfold norm, ljust. rewrite strip_stripped by (apply strippedb_ljust, S).
  apply rstrip_dots, L.
Qed.

Lemma norm_keep : forall s, strippedb s = true -> (s = [] \/ last s 0 <> 46) -> norm s = s.
Proof. intros s S L. unfold norm. rewrite strip_stripped by exact S. apply rstrip_keep, L. Qed.

Lemma norm_show_int : forall z, norm (show_int z) = show_int z.
Proof.
  intros z. apply norm_keep; [apply strippedb_nospace, show_int_nospace|].
  right. pose proof (last_in (show_int z) 0 (show_int_nonempty z)) as I.
  destruct (show_int_chars _ _ I) as [E|E]; [rewrite E; discriminate|].
  unfold is_digit in E. lia.
Qed.

Definition seg_ok (s : str) : Prop := item_ok s /\ last s 0 <> 46.
Lemma seg_okb_ok : forall s, seg_okb s = true -> seg_ok s.
Proof.
  intros s H. unfold seg_okb in H. apply andb_true_iff in H. destruct H as [H1 H2].
  split; [apply item_okb_ok, H1|]. apply negb_true_iff in H2. lia.
Qed.
Lemma norm_seg : forall s, seg_ok s -> norm s = s.
Proof. intros s [[_ N] L]. apply norm_keep; [apply strippedb_nospace, N|right; exact L]. Qed.

(* a line "a TAB b TAB cells" splits into a, b and the cells *)
Lemma split_line3 : forall (a b : str) (cells : list str),
  ~ In 9 a -> ~ In 9 b -> cells <> [] -> Forall (fun c => ~ In 9 c) cells ->
  split_on 9 (a ++ 9 :: b ++ 9 :: join [9] cells) = a :: b :: cells.
Proof.
  intros a b cells Ha Hb NE F.
  rewrite split_on_app_sep by exact Ha. rewrite split_on_app_sep by exact Hb.
  rewrite split_join by assumption. reflexivity.
Qed.

Lemma ljust_notab : forall w t, ~ In 9 t -> ~ In 9 (ljust w t).
Proof.
  intros w t H I. unfold ljust in I. apply in_app_or in I. destruct I as [I|I]; [exact (H I)|].
  apply repeat_spec in I. discriminate I.
Qed.

(* ------------------------------------------------------------------ *)
(* the LOCAL line *)
Lemma norm_star : norm s_star = s_star. Proof. reflexivity. Qed.
Lemma norm_dot : norm s_dot = []. Proof. reflexivity. Qed.
Lemma norm_plus : norm s_plus = s_plus. Proof. reflexivity. Qed.
Lemma norm_gap : norm s_gap = s_gap. Proof. reflexivity. Qed.

Lemma stars_cells : forall (P : nat -> bool) k j,
  stars_from j (map norm (map (fun i => if P i then s_star else s_dot) (seq j k))) = filter P (seq j k).
Proof.
  intros P. induction k as [|k IH]; intros j; [reflexivity|].
  cbn [seq map stars_from filter]. destruct (P j).
  - rewrite norm_star. change (str_eqb s_star s_star) with true. cbv iota. rewrite IH. reflexivity.
  - rewrite norm_dot. change (str_eqb [] s_star) with false. cbv iota. apply IH.
Qed.

Lemma incr_from_gt : forall l lo x, incr_fromb lo l = true -> In x l -> (lo <= x)%nat.
Proof.
  induction l as [|a r IH]; intros lo x H I; [destruct I|].
  cbn [incr_fromb] in H. apply andb_true_iff in H. destruct H as [H1 H2]. apply Nat.leb_le in H1.
  destruct I as [<-|I]; [exact H1|]. specialize (IH (S a) x H2 I). lia.
Qed.

Lemma existsb_eqb_false : forall i l, ~ In i l -> existsb (Nat.eqb i) l = false.
Proof.
  intros i l H. destruct (existsb (Nat.eqb i) l) eqn:E; [|reflexivity].
  apply existsb_exists in E. destruct E as [x [I E]]. apply Nat.eqb_eq in E. subst. contradiction.
Qed.

Lemma filter_none : forall (P : nat -> bool) l, (forall x, In x l -> P x = false) -> filter P l = [].
Proof.
  intros P. induction l as [|x l IH]; intros H; [reflexivity|].
  cbn [filter]. rewrite (H x (or_introl eq_refl)). apply IH. intros y I. apply H. right. exact I.
Qed.

(* a strictly increasing list of positions below lo + k is what filtering the positions gives back *)
Lemma filter_sorted : forall l lo k, incr_fromb lo l = true -> forallb (fun i => (i <? lo + k)%nat) l = true ->
  filter (fun i => existsb (Nat.eqb i) l) (seq lo k) = l.
Proof.
  induction l as [|a r IH]; intros lo k H B.
  - apply filter_none. intros; reflexivity.
  - cbn [incr_fromb] in H. apply andb_true_iff in H. destruct H as [H1 H2]. apply Nat.leb_le in H1.
    cbn [forallb] in B. apply andb_true_iff in B. destruct B as [B1 B2]. apply Nat.ltb_lt in B1.
    replace k with ((a - lo) + S (lo + k - a - 1))%nat by lia.
    rewrite seq_app, filter_app. replace (lo + (a - lo))%nat with a by lia. cbn [seq filter].
    assert (F1 : filter (fun i => existsb (Nat.eqb i) (a :: r)) (seq lo (a - lo)) = []).
    { apply filter_none. intros x I. apply in_seq in I. apply existsb_eqb_false.
      intros [E|I2]; [lia|]. pose proof (incr_from_gt r (S a) x H2 I2). lia. }
    rewrite F1. cbn [app existsb]. rewrite Nat.eqb_refl. cbn [orb]. f_equal.
    transitivity (filter (fun i => existsb (Nat.eqb i) r) (seq (S a) (lo + k - a - 1))).
    + apply filter_ext_in. intros x I. apply in_seq in I. cbn [existsb].
      assert (Nat.eqb x a = false) as -> by (apply Nat.eqb_neq; lia). reflexivity.
    + apply IH; [exact H2|].
      rewrite forallb_forall in B2. apply forallb_forall. intros x I. specialize (B2 x I).
      apply Nat.ltb_lt in B2. apply Nat.ltb_lt. lia.
Qed.

Theorem local_roundtrip : forall n local, incr_fromb 0 local = true -> forallb (fun i => (i <? n)%nat) local = true ->
  stars_from 0 (map norm (local_cells n local)) = local.
Proof.
  intros n local H B. unfold local_cells. rewrite stars_cells. apply filter_sorted; [exact H|exact B].
Qed.

(* ------------------------------------------------------------------ *)
(* the CROSSED line *)
Fixpoint spec_cells (lo n : nat) (swaps : list (nat * nat * nat)) : list str :=
  match swaps with
  | [] => repeat s_dot (n - lo)
  | (a, _, _) :: r => repeat s_dot (a - lo) ++ s_plus :: s_gap :: s_plus :: spec_cells (S (S (S a))) n r
  end.

Lemma upd_app : forall {A} (p : list A) x y rest, upd (length p) x (p ++ y :: rest) = p ++ x :: rest.
Proof. intros A. induction p as [|z p IH]; intros x y rest; [reflexivity|]. cbn [length app upd]. rewrite IH. reflexivity. Qed.

Lemma upd3 : forall (P : list str) a rest, length P = a ->
  upd (S (S a)) s_plus (upd (S a) s_gap (upd a s_plus (P ++ s_dot :: s_dot :: s_dot :: rest)))
  = P ++ s_plus :: s_gap :: s_plus :: rest.
Proof.
  intros P a rest L. subst a. induction P as [|x P IH]; [reflexivity|].
  cbn [length app upd]. f_equal. exact IH.
Qed.

Lemma swap_fold : forall swaps lo n (prefix : list str), length prefix = lo -> swaps_okb lo n swaps = true ->
  fold_left (fun tmp s => let '(a, b, c) := s in upd c s_plus (upd b s_gap (upd a s_plus tmp)))
            swaps (prefix ++ repeat s_dot (n - lo))
  = prefix ++ spec_cells lo n swaps.
Proof.
  induction swaps as [|[[a b] c] r IH]; intros lo n prefix L H; [reflexivity|].
  cbn [swaps_okb] in H.
  repeat (apply andb_true_iff in H; let H' := fresh "K" in destruct H as [H H']).
  apply Nat.leb_le in H. apply Nat.eqb_eq in K2. apply Nat.eqb_eq in K1. apply Nat.ltb_lt in K0. subst b c.
  cbn [fold_left spec_cells].
  replace (n - lo)%nat with ((a - lo) + (3 + (n - S (S (S a)))))%nat by lia.
  rewrite repeat_app. cbn [repeat plus].
  set (P := prefix ++ repeat s_dot (a - lo)).
  assert (LP : length P = a) by (unfold P; rewrite app_length, repeat_length; lia).
  rewrite app_assoc. fold P.
  rewrite (upd3 P a _ LP).
  replace (P ++ s_plus :: s_gap :: s_plus :: repeat s_dot (n - S (S (S a))))
    with ((P ++ [s_plus; s_gap; s_plus]) ++ repeat s_dot (n - S (S (S a)))) by (rewrite <- !app_assoc; reflexivity).
  rewrite IH; [|rewrite app_length; cbn [length]; lia|exact K].
  unfold P. rewrite <- !app_assoc. reflexivity.
Qed.

Lemma swap_cells_spec : forall n swaps, swaps_okb 0 n swaps = true -> swap_cells n swaps = spec_cells 0 n swaps.
Proof.
  intros n swaps H. unfold swap_cells.
  pose proof (swap_fold swaps 0%nat n [] eq_refl H) as E. cbn [app] in E. rewrite Nat.sub_0_r in E. exact E.
Qed.

Lemma parse_dots : forall k j rest, parse_swaps j (map norm (repeat s_dot k) ++ rest) = parse_swaps (j + k) rest.
Proof.
  induction k as [|k IH]; intros j rest; [rewrite Nat.add_0_r; reflexivity|].
  cbn [repeat map app parse_swaps]. rewrite norm_dot. change (str_eqb [] s_plus) with false. cbv iota.
  rewrite IH. f_equal. lia.
Qed.

Lemma parse_spec : forall swaps lo n, swaps_okb lo n swaps = true ->
  parse_swaps lo (map norm (spec_cells lo n swaps)) = Some swaps.
Proof.
  induction swaps as [|[[a b] c] r IH]; intros lo n H.
  - cbn [spec_cells]. rewrite <- (app_nil_r (map norm _)). rewrite parse_dots. reflexivity.
  - cbn [swaps_okb] in H.
    repeat (apply andb_true_iff in H; let H' := fresh "K" in destruct H as [H H']).
    apply Nat.leb_le in H. apply Nat.eqb_eq in K2. apply Nat.eqb_eq in K1. subst b c.
    cbn [spec_cells]. rewrite map_app, parse_dots. replace (lo + (a - lo))%nat with a by lia.
    cbn [map parse_swaps]. rewrite norm_plus. change (str_eqb s_plus s_plus) with true. cbv iota.
    rewrite (IH _ _ K). reflexivity.
Qed.

Theorem swaps_roundtrip : forall n swaps, swaps_okb 0 n swaps = true ->
  parse_swaps 0 (map norm (swap_cells n swaps)) = Some swaps.
Proof. intros n swaps H. rewrite swap_cells_spec by exact H. apply parse_spec, H. Qed.

(* ------------------------------------------------------------------ *)
(* annotation lines and rows *)
Lemma cells_norm : forall l, msa_cells l = map norm (split_on 9 l).
Proof. reflexivity. Qed.

Lemma ann_cells : forall w name cells,
  strippedb name = true -> last name 0 <> 46 -> ~ In 9 name -> cells <> [] -> Forall (fun c => ~ In 9 c) cells ->
  msa_cells (ann_line w name cells) = s_zero :: name :: map norm cells.
Proof.
  intros w name cells S L T NE F. rewrite cells_norm. unfold ann_line.
  rewrite split_line3; [|intros [E|[]]; discriminate E|apply ljust_notab, T|exact NE|exact F].
  cbn [map]. rewrite norm_ljust by (try exact S; right; exact L). reflexivity.
Qed.

Lemma list2msa_columnid : forall vals rest a, list2msa ((s_zero :: s_COLUMNID :: vals) :: rest) a = list2msa rest a.
Proof. reflexivity. Qed.
Lemma list2msa_local : forall vals rest a,
  list2msa ((s_zero :: s_LOCAL :: vals) :: rest) a
  = list2msa rest (mk_msa_read (r_ids a) (r_taxa a) (r_alm a) (r_seqs a) (stars_from 0 vals) (r_swaps a) (r_cons a)).
Proof. reflexivity. Qed.
Lemma list2msa_crossed : forall vals rest a,
  list2msa ((s_zero :: s_CROSSED :: vals) :: rest) a
  = match parse_swaps 0 vals with
    | Some sw => list2msa rest (mk_msa_read (r_ids a) (r_taxa a) (r_alm a) (r_seqs a) (r_local a) sw (r_cons a))
    | None => Err
    end.
Proof. reflexivity. Qed.

Definition taxon_ok (t : str) : Prop := clean_strb t = true /\ last t 0 <> 46.
Lemma taxon_okb_ok : forall t, taxon_okb t = true -> taxon_ok t.
Proof.
  intros t H. unfold taxon_okb in H. apply andb_true_iff in H. destruct H as [H1 H2].
  split; [exact H1|]. apply negb_true_iff in H2. lia.
Qed.

Lemma seg_notab : forall s, seg_ok s -> ~ In 9 s.
Proof. intros s [[_ N] _]. apply nospace_not_in; [exact N|reflexivity]. Qed.

Lemma row_cells : forall w id t row, taxon_ok t -> row <> [] -> Forall seg_ok row ->
  msa_cells (msa_row_line w id t row) = show_int id :: t :: row.
Proof.
  intros w id t row [C L] NE F. rewrite cells_norm. unfold msa_row_line.
  destruct (clean_strb_clean t C) as [[T9 [_ TS]] _].
  rewrite split_line3.
  - cbn [map]. rewrite norm_show_int, norm_ljust by (try exact TS; right; exact L). f_equal. f_equal.
    rewrite <- (map_id row) at 2. apply map_ext_in. intros s I. rewrite Forall_forall in F. apply norm_seg, F, I.
  - apply nospace_not_in; [apply show_int_nospace|reflexivity].
  - apply ljust_notab, T9.
  - exact NE.
  - eapply Forall_impl; [|exact F]. apply seg_notab.
Qed.

Lemma int_not_kw : forall id, id <> 0 -> mem_str (show_int id) kw_list = false.
Proof.
  intros id NZ. destruct (mem_str (show_int id) kw_list) eqn:E; [|reflexivity].
  apply mem_str_In in E. unfold kw_list in E. cbn [In] in E.
  assert (forall c r, show_int id = c :: r -> c = 45 \/ is_digit c = true) as HC.
  { intros c r Eq. apply (show_int_chars id). rewrite Eq. left. reflexivity. }
  destruct E as [E|[E|[E|[E|[E|[E|[]]]]]]].
  - exfalso. apply NZ. pose proof (parse_show_int id) as P. rewrite <- E in P. vm_compute in P. congruence.
  - symmetry in E. destruct (HC _ _ E) as [X|X]; discriminate X.
  - symmetry in E. destruct (HC _ _ E) as [X|X]; discriminate X.
  - symmetry in E. destruct (HC _ _ E) as [X|X]; discriminate X.
  - symmetry in E. destruct (HC _ _ E) as [X|X]; discriminate X.
  - symmetry in E. destruct (HC _ _ E) as [X|X]; discriminate X.
Qed.

Definition row_ok (p : Z * str * list str) : Prop :=
  fst (fst p) <> 0 /\ taxon_ok (snd (fst p)) /\ snd p <> [] /\ Forall seg_ok (snd p).

Lemma rows_fold : forall w rows a, Forall row_ok rows ->
  list2msa (map (fun p => msa_cells (msa_row_of w p)) rows) a
  = Ok (mk_msa_read (r_ids a ++ map (fun p => fst (fst p)) rows) (r_taxa a ++ map (fun p => snd (fst p)) rows)
                    (r_alm a ++ map (fun p => snd p) rows) (r_seqs a ++ map (fun p => degap (snd p)) rows)
                    (r_local a) (r_swaps a) (r_cons a)).
Proof.
  intros w. induction rows as [|[[id t] row] rest IH]; intros a F.
  - cbn [map list2msa]. rewrite !app_nil_r. destruct a; reflexivity.
  - inversion F as [|? ? [NZ [TO [NE FS]]] Fr]; subst. cbn [fst snd] in *.
    cbn [map]. unfold msa_row_of at 1. cbn [fst snd]. rewrite row_cells by assumption.
    cbn [list2msa]. rewrite int_not_kw by exact NZ. rewrite parse_show_int.
    rewrite IH by exact Fr. cbn [r_ids r_taxa r_alm r_seqs r_local r_swaps r_cons].
    destruct TO as [_ TL]. rewrite rstrip_keep by (right; exact TL).
    rewrite <- !app_assoc. reflexivity.
Qed.

(* ------------------------------------------------------------------ *)
(* zip3 *)
Lemma zip3_length : forall {A B C} (a : list A) (b : list B) (c : list C),
  length a = length c -> length b = length c -> length (zip3 a b c) = length c.
Proof.
  intros A B C. induction a as [|x a IH]; intros b c La Lb; destruct b as [|y b]; destruct c as [|z c];
    cbn [length] in *; try discriminate; [reflexivity|]. cbn [zip3 length]. rewrite IH by lia. reflexivity.
Qed.
Lemma zip3_unzip : forall {A B C} (a : list A) (b : list B) (c : list C),
  length a = length c -> length b = length c ->
  map (fun p => fst (fst p)) (zip3 a b c) = a /\ map (fun p => snd (fst p)) (zip3 a b c) = b
  /\ map (fun p => snd p) (zip3 a b c) = c.
Proof.
  intros A B C. induction a as [|x a IH]; intros b c La Lb; destruct b as [|y b]; destruct c as [|z c];
    cbn [length] in *; try discriminate; [repeat split|].
  destruct (IH b c ltac:(lia) ltac:(lia)) as [E1 [E2 E3]]. cbn [zip3 map fst snd]. rewrite E1, E2, E3. repeat split.
Qed.
Lemma zip3_in : forall {A B C} (a : list A) (b : list B) (c : list C) x y z,
  In (x, y, z) (zip3 a b c) -> In x a /\ In y b /\ In z c.
Proof.
  intros A B C. induction a as [|x0 a IH]; intros b c x y z I; destruct b as [|y0 b]; destruct c as [|z0 c];
    cbn [zip3] in I; try (destruct I; fail).
  destruct I as [E|I]; [inversion E; subst; repeat split; left; reflexivity|].
  destruct (IH _ _ _ _ _ I) as [I1 [I2 I3]]. repeat split; right; assumption.
Qed.

Lemma last_In : forall {A} (l : list A) d, l <> [] -> In (last l d) l.
Proof.
  intros A l d H. destruct (@exists_last _ l H) as [l' [x E]]. rewrite E, last_last.
  apply in_or_app. right. left. reflexivity.
Qed.

Definition cons_seg_ok (s : str) : Prop := seg_ok s /\ ~ In 34 s /\ ~ In 62 s /\ merge_cell s = s.
Lemma cons_seg_okb_ok : forall s, cons_seg_okb s = true -> cons_seg_ok s.
Proof.
  intros s H. unfold cons_seg_okb in H. apply andb_true_iff in H. destruct H as [H H3].
  apply andb_true_iff in H. destruct H as [H1 H2]. apply negb_true_iff in H2, H3.
  split; [apply seg_okb_ok, H1|].
  assert (forall x, (x = 34 \/ x = 62) -> ~ In x s) as N.
  { intros x Hx I. assert (existsb (fun c => (c =? 34) || (c =? 62)) s = true) as E; [|congruence].
    apply existsb_exists. exists x. split; [exact I|]. destruct Hx as [-> | ->]; reflexivity. }
  split; [apply N; left; reflexivity|]. split; [apply N; right; reflexivity|].
  unfold merge_cell. rewrite H3. reflexivity.
Qed.

(* the guard, unpacked *)
Record msa_ok (m : msa) (n : nat) : Prop := {
  mo_ids : length (m_ids m) = length (m_alm m);
  mo_taxa : length (m_taxa m) = length (m_alm m);
  mo_rows : m_alm m <> [];
  mo_n : (1 <= n)%nat;
  mo_alm : Forall (fun r => length r = n /\ Forall seg_ok r) (m_alm m);
  mo_tax : Forall taxon_ok (m_taxa m);
  mo_nz : Forall (fun i => i <> 0) (m_ids m);
  mo_local : incr_fromb 0 (m_local m) = true /\ forallb (fun i => (i <? n)%nat) (m_local m) = true;
  mo_swaps : swaps_okb 0 n (m_swaps m) = true;
  mo_cons : match m_cons m with None => True | Some c => (1 <= length c <= n)%nat /\ Forall cons_seg_ok c end }.

Lemma msa_okb_ok : forall m, msa_okb m = true -> msa_ok m (length (hd [] (m_alm m))).
Proof.
  intros m H. unfold msa_okb in H.
  repeat (apply andb_true_iff in H; let H' := fresh "K" in destruct H as [H H']).
  constructor.
  - apply Nat.eqb_eq, H.
  - apply Nat.eqb_eq, K8.
  - apply nullb_nonnil, K7.
  - apply Nat.leb_le, K6.
  - apply Forall_forall. intros r I. rewrite forallb_forall in K5. specialize (K5 r I).
    apply andb_true_iff in K5. destruct K5 as [L S]. split; [apply Nat.eqb_eq, L|].
    apply Forall_forall. intros s Is. rewrite forallb_forall in S. apply seg_okb_ok, S, Is.
  - apply Forall_forall. intros t I. rewrite forallb_forall in K4. apply taxon_okb_ok, K4, I.
  - apply Forall_forall. intros i I. rewrite forallb_forall in K3. specialize (K3 i I).
    apply negb_true_iff in K3. lia.
  - split; assumption.
  - exact K0.
  - destruct (m_cons m) as [c|]; [|exact I].
    apply andb_true_iff in K. destruct K as [L F]. apply andb_true_iff in L. destruct L as [L1 L2].
    apply Nat.leb_le in L1, L2. split; [lia|].
    apply Forall_forall. intros s Is. rewrite forallb_forall in F. apply cons_seg_okb_ok, F, Is.
Qed.

Lemma msa_n_eq : forall m n, msa_ok m n -> msa_n m = n.
Proof.
  intros m n OK. unfold msa_n. rewrite zip3_length by (try apply (mo_ids _ _ OK); apply (mo_taxa _ _ OK)).
  rewrite firstn_all.
  pose proof (last_In (m_alm m) [] (mo_rows _ _ OK)) as I.
  pose proof (mo_alm _ _ OK) as F. rewrite Forall_forall in F. destruct (F _ I) as [L _]. exact L.
Qed.

Lemma rows_ok_zip : forall m n, msa_ok m n -> Forall row_ok (zip3 (m_ids m) (m_taxa m) (m_alm m)).
Proof.
  intros m n OK. apply Forall_forall. intros [[id t] row] I. destruct (zip3_in _ _ _ _ _ _ I) as [I1 [I2 I3]].
  pose proof (mo_nz _ _ OK) as F1. pose proof (mo_tax _ _ OK) as F2. pose proof (mo_alm _ _ OK) as F3.
  rewrite Forall_forall in F1, F2, F3. destruct (F3 row I3) as [L S].
  split; [apply F1, I1|]. split; [apply F2, I2|]. split; [|exact S].
  cbn [snd]. pose proof (mo_n _ _ OK). destruct row; [cbn [length] in L; lia|discriminate].
Qed.

Lemma filter_comments : forall stamp rest, Forall (fun l => starts 35 l = true) stamp ->
  filter (fun l => negb (starts 35 l)) (stamp ++ rest) = filter (fun l => negb (starts 35 l)) rest.
Proof.
  induction stamp as [|l r IH]; intros rest F; [reflexivity|].
  inversion F as [|? ? Hl Hr]; subst. cbn [app filter]. rewrite Hl. cbn [negb]. apply IH, Hr.
Qed.

Lemma row_line_nocomment : forall w p, starts 35 (msa_row_of w p) = false.
Proof.
  intros w p. unfold msa_row_of, msa_row_line.
  pose proof (show_int_nonempty (fst (fst p))) as NE.
  destruct (show_int (fst (fst p))) as [|c r] eqn:E; [congruence|].
  cbn [app starts].
  assert (In c (show_int (fst (fst p)))) as I by (rewrite E; left; reflexivity).
  destruct (show_int_chars _ _ I) as [->|D]; [reflexivity|]. unfold is_digit in D. lia.
Qed.

Lemma filter_rows : forall w rows,
  filter (fun l => negb (starts 35 l)) (map (msa_row_of w) rows) = map (msa_row_of w) rows.
Proof.
  intros w rows. apply filter_all. apply forallb_forall. intros l I. apply in_map_iff in I.
  destruct I as [p [<- _]]. rewrite row_line_nocomment. reflexivity.
Qed.

Lemma show_nat_notab : forall z, 0 <= z -> ~ In 9 (show_nat z).
Proof. intros z H. apply digits_no; [apply show_nat_digits, H|lia]. Qed.

Lemma upd_length : forall {A} (i : nat) (x : A) l, length (upd i x l) = length l.
Proof.
  intros A i x l. revert i. induction l as [|y l IH]; intros i; [destruct i; reflexivity|].
  destruct i; cbn [upd length]; [reflexivity|rewrite IH; reflexivity].
Qed.

Lemma swap_cells_length : forall n swaps, length (swap_cells n swaps) = n.
Proof.
  intros n swaps. unfold swap_cells. generalize (repeat_length s_dot n). generalize (repeat s_dot n).
  induction swaps as [|[[a b] c] r IH]; intros l L; [exact L|]. cbn [fold_left]. apply IH.
  rewrite !upd_length. exact L.
Qed.

Lemma spec_cells_notab : forall swaps lo n, Forall (fun c : str => ~ In 9 c) (spec_cells lo n swaps).
Proof.
  induction swaps as [|[[a b] c] r IH]; intros lo n; cbn [spec_cells].
  - apply Forall_forall. intros x I. apply repeat_spec in I. subst. intros [E|[]]; discriminate E.
  - apply Forall_app. split.
    + apply Forall_forall. intros x I. apply repeat_spec in I. subst. intros [E|[]]; discriminate E.
    + repeat (constructor; [intros [E|[]]; discriminate E|]). apply IH.
Qed.

(* ------------------------------------------------------------------ *)
Lemma list2msa_consensus : forall vals rest a,
  list2msa ((s_zero :: s_CONSENSUS :: vals) :: rest) a
  = list2msa rest (mk_msa_read (r_ids a) (r_taxa a) (r_alm a) (r_seqs a) (r_local a) (r_swaps a) (Some (rstrip_empty vals))).
Proof. reflexivity. Qed.

Lemma lstrip_empty_repeat : forall k r, lstrip_empty (repeat [] k ++ r) = lstrip_empty r.
Proof. induction k as [|k IH]; intros r; [reflexivity|]. cbn [repeat app lstrip_empty nullb]. apply IH. Qed.

(* the padding cells are dropped, the consensus itself (non-empty segments) is kept *)
Lemma rstrip_empty_pad : forall (c : list str) k, Forall (fun s => s <> []) c -> rstrip_empty (c ++ repeat [] k) = c.
Proof.
  intros c k F. unfold rstrip_empty. rewrite rev_app_distr, rev_repeat, lstrip_empty_repeat.
  destruct c as [|x c'] using rev_ind; [reflexivity|].
  rewrite rev_app_distr. cbn [rev app lstrip_empty].
  apply Forall_app in F. destruct F as [_ F]. inversion F as [|? ? Hx _]; subst.
  destruct x; [congruence|]. cbn [nullb]. cbn [rev]. rewrite rev_involutive. reflexivity.
Qed.

Lemma const_notab : forall (name : str), forallb (fun c => negb (c =? 9)) name = true -> ~ In 9 name.
Proof. intros name H I. rewrite forallb_forall in H. specialize (H 9 I). discriminate H. Qed.

(* ONE BLOCK: what _list2msa makes of the lines msa2str wrote *)
Theorem msa_body_roundtrip : forall stamp m, msa_okb m = true -> Forall (fun l => starts 35 l = true) stamp ->
  read_msa_body (msa_body stamp m) = Ok (expected_read m).
Proof.
  intros stamp m H FS. pose proof (msa_okb_ok m H) as OK. set (n := length (hd [] (m_alm m))) in *.
  pose proof (mo_n _ _ OK) as N1.
  unfold read_msa_body, msa_lines, msa_body. rewrite (msa_n_eq m n OK).
  set (w := fmt_width (m_taxa m)).
  set (rows := zip3 (m_ids m) (m_taxa m) (m_alm m)).
  set (col := ann_line w s_COLUMNID (map (fun i => show_nat (Z.of_nat (S i))) (seq 0 n))).
  set (Lp := if nullb (m_local m) then [] else [ann_line w s_LOCAL (local_cells n (m_local m))]).
  set (Sp := if nullb (m_swaps m) then [] else [ann_line w s_CROSSED (swap_cells n (m_swaps m))]).
  set (Cp := match m_cons m with
             | Some (x :: c) => [ann_line w s_CONSENSUS (cons_cells n (x :: c))]
             | _ => []
             end).
  assert (BODY : forall X : list str, match stamp ++ [35] :: X with [] => [[]] | _ :: _ => stamp ++ [35] :: X end = stamp ++ [35] :: X).
  { intros X. destruct stamp; reflexivity. }
  rewrite BODY. rewrite filter_comments by exact FS.
  assert (NC : forall nm cells, starts 35 (ann_line w nm cells) = false) by reflexivity.
  assert (FL : filter (fun l => negb (starts 35 l)) Lp = Lp).
  { unfold Lp. destruct (nullb (m_local m)); [reflexivity|]. cbn [filter]. rewrite NC. reflexivity. }
  assert (FSp : filter (fun l => negb (starts 35 l)) Sp = Sp).
  { unfold Sp. destruct (nullb (m_swaps m)); [reflexivity|]. cbn [filter]. rewrite NC. reflexivity. }
  assert (FC : filter (fun l => negb (starts 35 l)) Cp = Cp).
  { unfold Cp. destruct (m_cons m) as [[|x c]|]; reflexivity. }
  cbn [filter]. change (starts 35 [35]) with true. cbn [negb].
  unfold col at 1. rewrite NC. cbn [negb]. fold col.
  rewrite !filter_app, FL, FSp, FC. cbn [filter]. change (starts 35 [35]) with true. cbn [negb].
  rewrite filter_rows.
  (* the COLUMNID line *)
  assert (COL : msa_cells col = s_zero :: s_COLUMNID :: map norm (map (fun i => show_nat (Z.of_nat (S i))) (seq 0 n))).
  { unfold col. apply ann_cells; [reflexivity|discriminate|apply const_notab; reflexivity| |].
    - destruct n; [lia|discriminate].
    - apply Forall_forall. intros c I. apply in_map_iff in I. destruct I as [i [<- _]]. apply show_nat_notab. lia. }
  cbn [map]. rewrite COL, list2msa_columnid. rewrite !map_app.
  (* the LOCAL line *)
  set (a1 := mk_msa_read [] [] [] [] (m_local m) [] None).
  assert (STL : forall rest, list2msa (map msa_cells Lp ++ rest) msa_read0 = list2msa rest a1).
  { intros rest. unfold Lp, a1. destruct (nullb (m_local m)) eqn:EL.
    - destruct (m_local m); [reflexivity|discriminate EL].
    - cbn [map app]. rewrite ann_cells; [|reflexivity|discriminate|apply const_notab; reflexivity| |].
      + rewrite list2msa_local. rewrite local_roundtrip by (destruct (mo_local _ _ OK); assumption). reflexivity.
      + unfold local_cells. destruct n; [lia|discriminate].
      + apply Forall_forall. intros c I. unfold local_cells in I. apply in_map_iff in I. destruct I as [i [<- _]].
        destruct (existsb (Nat.eqb i) (m_local m)); intros [E|[]]; discriminate E. }
  (* the CROSSED line *)
  set (a2 := mk_msa_read [] [] [] [] (m_local m) (m_swaps m) None).
  assert (STS : forall rest, list2msa (map msa_cells Sp ++ rest) a1 = list2msa rest a2).
  { intros rest. unfold Sp, a1, a2. destruct (nullb (m_swaps m)) eqn:ES.
    - destruct (m_swaps m); [reflexivity|discriminate ES].
    - cbn [map app]. rewrite ann_cells; [|reflexivity|discriminate|apply const_notab; reflexivity| |].
      + rewrite list2msa_crossed, swaps_roundtrip by apply (mo_swaps _ _ OK). reflexivity.
      + intros E. pose proof (swap_cells_length n (m_swaps m)) as SWL. rewrite E in SWL. cbn [length] in SWL. lia.
      + rewrite swap_cells_spec by apply (mo_swaps _ _ OK). apply spec_cells_notab. }
  (* the CONSENSUS line *)
  set (a3 := mk_msa_read [] [] [] [] (m_local m) (m_swaps m) (m_cons m)).
  assert (STC : forall rest, list2msa (map msa_cells Cp ++ rest) a2 = list2msa rest a3).
  { intros rest. unfold Cp, a2, a3. pose proof (mo_cons _ _ OK) as MC.
    destruct (m_cons m) as [c|]; [|reflexivity]. destruct MC as [LC FCo].
    destruct c as [|x c]; [cbn [length] in LC; lia|].
    assert (MC : map merge_cell (x :: c) = x :: c).
    { rewrite <- (map_id (x :: c)) at 2. apply map_ext_in. intros s I. rewrite Forall_forall in FCo.
      destruct (FCo s I) as [_ [_ [_ E]]]. exact E. }
    assert (NE : Forall (fun s : str => s <> []) (x :: c)).
    { eapply Forall_impl; [|exact FCo]. intros s [[[E _] _] _]. exact E. }
    assert (NM : map norm (x :: c) = x :: c).
    { rewrite <- (map_id (x :: c)) at 2. apply map_ext_in. intros s I. rewrite Forall_forall in FCo.
      destruct (FCo s I) as [SO _]. apply norm_seg, SO. }
    cbn [map app]. unfold cons_cells. rewrite MC.
    rewrite ann_cells; [|reflexivity|discriminate|apply const_notab; reflexivity|discriminate|].
    + rewrite list2msa_consensus. cbn [r_ids r_taxa r_alm r_seqs r_local r_swaps].
      rewrite map_app, NM.
      assert (map norm (repeat [] (n - length (x :: c))) = repeat [] (n - length (x :: c))) as ->.
      { induction (n - length (x :: c))%nat as [|j IHj]; [reflexivity|]. cbn [repeat map]. rewrite IHj. reflexivity. }
      rewrite rstrip_empty_pad by exact NE. reflexivity.
    + apply Forall_app. split.
      * eapply Forall_impl; [|exact FCo]. intros s [SO _]. apply seg_notab, SO.
      * apply Forall_forall. intros s I. apply repeat_spec in I. subst. intros []. }
  (* the rows *)
  destruct (zip3_unzip (m_ids m) (m_taxa m) (m_alm m) (mo_ids _ _ OK) (mo_taxa _ _ OK)) as [U1 [U2 U3]].
  pose proof (rows_ok_zip m n OK) as RO. fold rows in RO, U1, U2, U3.
  rewrite STL, STS, STC. rewrite map_map. rewrite rows_fold by exact RO.
  unfold a3. cbn [r_ids r_taxa r_alm r_seqs r_local r_swaps r_cons app].
  assert (map (fun p : Z * str * list str => degap (snd p)) rows = map degap (m_alm m)) as ->
    by (rewrite <- U3, map_map; reflexivity).
  rewrite U1, U2, U3. reflexivity.
Qed.

(* ------------------------------------------------------------------ *)
(* the block header and the block scanner *)
Lemma take_until_app : forall c p r, ~ In c p -> take_until c (p ++ c :: r) = Some p.
Proof.
  intros c. induction p as [|x p IH]; intros r H.
  - cbn [app take_until]. rewrite Z.eqb_refl. reflexivity.
  - cbn [app take_until]. destruct (x =? c) eqn:E; [apply Z.eqb_eq in E; exfalso; apply H; left; exact E|].
    rewrite IH by (intros I; apply H; right; exact I). reflexivity.
Qed.

Definition ref_ok (ref : str) : Prop := ~ In 62 ref /\ ~ In 34 ref.

Lemma not_in_app : forall (x : Z) a b, ~ In x a -> ~ In x b -> ~ In x (a ++ b).
Proof. intros x a b Ha Hb I. apply in_app_or in I. tauto. Qed.

Lemma show_int_no : forall z x, x <> 45 -> is_digit x = false -> ~ In x (show_int z).
Proof. intros z x N D I. destruct (show_int_chars _ _ I) as [E|E]; [exact (N E)|congruence]. Qed.

Lemma attr_no : forall x k v, ~ In x k -> ~ In x v -> x <> 61 -> x <> 34 -> ~ In x (attr k v).
Proof.
  intros x k v Hk Hv N1 N2. unfold attr. apply not_in_app; [exact Hk|].
  intros [E|[E|I]]; [congruence|congruence|]. apply in_app_or in I. destruct I as [I|[E|[]]]; [exact (Hv I)|congruence].
Qed.

Lemma join_no_sep : forall x (sep : str) xs, Forall (fun f => ~ In x f) xs -> ~ In x sep -> ~ In x (join sep xs).
Proof.
  intros x sep. induction xs as [|f r IH]; intros F N I; [destruct I|].
  inversion F as [|? ? Hf Hr]; subst. destruct r as [|g r'].
  - exact (Hf I).
  - rewrite join_cons2 in I. apply in_app_or in I. destruct I as [I|I]; [exact (Hf I)|].
    apply in_app_or in I. destruct I as [I|I]; [exact (N I)|exact (IH Hr N I)].
Qed.

(* the attribute scanner on name=QUOTE value QUOTE *)
Lemma split_at_app : forall c v rest, ~ In c v -> split_at c (v ++ c :: rest) = Some (v, rest).
Proof.
  intros c. induction v as [|x v IH]; intros rest H.
  - cbn [app split_at]. rewrite Z.eqb_refl. reflexivity.
  - cbn [app split_at]. destruct (x =? c) eqn:E; [apply Z.eqb_eq in E; exfalso; apply H; left; exact E|].
    rewrite IH by (intros I; apply H; right; exact I). reflexivity.
Qed.

Lemma match_here_key : forall v rest k' acc, nospace k' -> ~ In 61 k' -> ~ In 34 v ->
  match_here acc (k' ++ 61 :: 34 :: v ++ 34 :: rest) = Some (rev acc ++ k', v, rest).
Proof.
  intros v rest. induction k' as [|c k' IH]; intros acc NS N61 NV.
  - cbn [app match_here]. change (61 =? 61) with true. change (is_quote 34) with true. cbv iota.
    rewrite split_at_app by exact NV. rewrite app_nil_r. reflexivity.
  - cbn [app match_here].
    assert (c =? 61 = false) as -> by (apply Z.eqb_neq; intros E; apply N61; left; exact E).
    cbv iota.
    assert (is_space c = false) as -> by (eapply nospace_in; [exact NS|left; reflexivity]).
    rewrite IH.
    + cbn [rev]. rewrite <- app_assoc. reflexivity.
    + unfold nospace in *. cbn [forallb] in NS. apply andb_true_iff in NS. destruct NS as [_ NS]. exact NS.
    + intros I. apply N61. right. exact I.
    + exact NV.
Qed.

Lemma match_attr : forall k v rest, k <> [] -> nospace k -> ~ In 61 k -> ~ In 34 v ->
  match_start (attr k v ++ rest) = Some (k, v, rest).
Proof.
  intros k v rest NE NS N61 NV. destruct k as [|c k']; [congruence|].
  unfold attr. rewrite <- !app_assoc. cbn [app]. rewrite <- !app_assoc. cbn [app match_start].
  assert (is_space c = false) as -> by (eapply nospace_in; [exact NS|left; reflexivity]).
  rewrite (match_here_key v rest k' [c]).
  - reflexivity.
  - unfold nospace in *. cbn [forallb] in NS. apply andb_true_iff in NS. destruct NS as [_ NS]. exact NS.
  - intros I. apply N61. right. exact I.
  - exact NV.
Qed.

Lemma findall_skip : forall p rest, findall_attrs (length p) (p ++ rest) = findall_attrs 0 rest.
Proof. induction p as [|x p IH]; intros rest; [reflexivity|]. cbn [length app findall_attrs]. apply IH. Qed.

Lemma findall_space : forall s, findall_attrs 0 (32 :: s) = findall_attrs 0 s.
Proof. reflexivity. Qed.

Lemma findall_attr : forall k v rest, k <> [] -> nospace k -> ~ In 61 k -> ~ In 34 v ->
  findall_attrs 0 (attr k v ++ rest) = (k, v) :: findall_attrs 0 rest.
Proof.
  intros k v rest NE NS N61 NV. pose proof (match_attr k v rest NE NS N61 NV) as M.
  destruct (attr k v) as [|c a'] eqn:E.
  - unfold attr in E. destruct k; [congruence|discriminate E].
  - cbn [app] in *. cbn [findall_attrs]. rewrite M. rewrite app_length.
    replace (length a' + length rest - length rest)%nat with (length a') by lia.
    rewrite findall_skip. reflexivity.
Qed.

Definition keys_of (ref : str) (k : Z) (m : msa) : list (str * str) :=
  (s_idk, show_int k) :: (s_refk, ref)
  :: match m_cons m with Some c => [(s_consensus, join [32] c)] | None => [] end.

Lemma skipn_app_length : forall {A} (p r : list A), skipn (length p) (p ++ r) = r.
Proof. intros A. induction p as [|x p IH]; intros r; [reflexivity|]. cbn [length app skipn]. apply IH. Qed.

Lemma header_parse : forall ref k m n, msa_ok m n -> ref_ok ref ->
  block_dtype (msa_header ref k m) = Some s_msa
  /\ block_keys (msa_header ref k m) = Some (keys_of ref k m).
Proof.
  intros ref k m n OK [R62 R34]. unfold msa_header.
  assert (MSA32 : ~ In 32 s_msa) by (intros I; unfold s_msa in I; cbn [In] in I; repeat (destruct I as [I|I]; [discriminate I|]); exact I).
  assert (MSA62 : ~ In 62 s_msa) by (intros I; unfold s_msa in I; cbn [In] in I; repeat (destruct I as [I|I]; [discriminate I|]); exact I).
  assert (CONS : match m_cons m with
                 | Some c => ~ In 62 (join [32] c) /\ ~ In 34 (join [32] c)
                 | None => True end).
  { pose proof (mo_cons _ _ OK) as MC. destruct (m_cons m) as [c|]; [|exact I]. destruct MC as [_ F]. split.
    - apply join_no_sep; [|intros [E|[]]; discriminate E]. eapply Forall_impl; [|exact F]. intros s [_ [_ [X _]]]. exact X.
    - apply join_no_sep; [|intros [E|[]]; discriminate E]. eapply Forall_impl; [|exact F]. intros s [_ [X _]]. exact X. }
  assert (IDK : ~ In 62 s_idk /\ ~ In 61 s_idk /\ nospace s_idk) by (repeat split; try reflexivity; intros [X|[X|[]]]; discriminate X).
  assert (REFK : ~ In 62 s_refk /\ ~ In 61 s_refk /\ nospace s_refk) by (repeat split; try reflexivity; intros [X|[X|[X|[]]]]; discriminate X).
  assert (CONK : ~ In 62 s_consensus /\ ~ In 61 s_consensus /\ nospace s_consensus).
  { repeat split; try reflexivity; intros I; unfold s_consensus in I; cbn [In] in I; repeat (destruct I as [I|I]; [discriminate I|]); exact I. }
  assert (N62 : ~ In 62 (msa_tag ref k m)).
  { unfold msa_tag, cons_attr. apply not_in_app; [exact MSA62|].
    intros [X|I]; [discriminate X|]. apply in_app_or in I. destruct I as [I|[X|I]]; [|discriminate X|].
    - revert I. apply attr_no; [apply IDK|apply show_int_no; [lia|reflexivity]|lia|lia].
    - apply in_app_or in I. destruct I as [I|I].
      + revert I. apply attr_no; [apply REFK|exact R62|lia|lia].
      + destruct (m_cons m) as [c|]; [|destruct I]. destruct I as [X|I]; [discriminate X|].
        revert I. apply attr_no; [apply CONK|apply CONS|lia|lia]. }
  unfold block_dtype, block_keys. rewrite take_until_app by exact N62.
  assert (M32 : memc 32 (msa_tag ref k m) = true).
  { unfold memc. apply existsb_exists. exists 32. split; [|reflexivity].
    unfold msa_tag. apply in_or_app. right. left. reflexivity. }
  rewrite M32.
  assert (HD : hd [] (split_on 32 (msa_tag ref k m)) = s_msa).
  { unfold msa_tag. rewrite split_on_app_sep by exact MSA32. reflexivity. }
  rewrite HD. split; [reflexivity|]. f_equal.
  unfold msa_tag. rewrite skipn_app_length. rewrite findall_space.
  rewrite findall_attr; [|discriminate|apply IDK|apply IDK|apply show_int_no; [lia|reflexivity]].
  cbn [app]. rewrite findall_space.
  rewrite findall_attr; [|discriminate|apply REFK|apply REFK|exact R34].
  unfold keys_of, cons_attr. destruct (m_cons m) as [c|]; [|reflexivity].
  rewrite findall_space. rewrite <- (app_nil_r (attr s_consensus (join [32] c))).
  rewrite findall_attr; [reflexivity|discriminate|apply CONK|apply CONK|apply CONS].
Qed.

Lemma keys_lookup : forall ref k m,
  assoc_last s_idk (keys_of ref k m) = Some (show_int k) /\ assoc_last s_refk (keys_of ref k m) = Some ref.
Proof. intros ref k m. unfold keys_of. destruct (m_cons m); split; reflexivity. Qed.

Lemma prefixb_refl_app : forall p r, prefixb p (p ++ r) = true.
Proof. induction p as [|x p IH]; intros r; [reflexivity|]. cbn [app prefixb]. rewrite Z.eqb_refl. apply IH. Qed.

Lemma prefixb_lt : forall p l, starts 60 l = false -> prefixb (60 :: p) l = false.
Proof.
  intros p l H. destruct l as [|c r]; [reflexivity|]. cbn [prefixb]. cbn [starts] in H.
  rewrite Z.eqb_sym. rewrite H. reflexivity.
Qed.

(* inside an open block every line is collected until the closing tag *)
Lemma scan_block_body : forall body h dt acc d b mt close,
  Forall (fun l => starts 60 l = false) body -> prefixb ([60; 47] ++ dt ++ [62]) close = true ->
  fold_left read_step (body ++ [close]) (mk_racc false (Some (h, dt, acc)) d b mt)
  = mk_racc false None d (mk_block h dt (rev acc ++ body) :: b) mt.
Proof.
  induction body as [|l body IH]; intros h dt acc d b mt close F P.
  - cbn [app fold_left]. unfold read_step. cbn [ra_err ra_open ra_data ra_blocks ra_meta]. rewrite P.
    rewrite app_nil_r. reflexivity.
  - inversion F as [|? ? Hl Hr]; subst. cbn [app fold_left].
    unfold read_step at 2. cbn [ra_err ra_open ra_data ra_blocks ra_meta].
    change ([60; 47] ++ dt ++ [62]) with (60 :: (47 :: dt ++ [62])). rewrite (prefixb_lt _ l Hl).
    rewrite IH by assumption. cbn [rev]. rewrite <- app_assoc. reflexivity.
Qed.

Lemma msa_body_no_lt : forall stamp m, Forall (fun l => starts 35 l = true) stamp ->
  Forall (fun l => starts 60 l = false) (msa_body stamp m).
Proof.
  intros stamp m FS. unfold msa_body.
  assert (A : forall w nm cells, starts 60 (ann_line w nm cells) = false) by reflexivity.
  apply Forall_app. split.
  - eapply Forall_impl; [|exact FS]. intros l H. destruct l as [|c r]; [reflexivity|]. cbn [starts] in *.
    apply Z.eqb_eq in H. subst. reflexivity.
  - constructor; [reflexivity|]. constructor; [apply A|]. constructor; [reflexivity|].
    repeat (apply Forall_app; split).
    + destruct (nullb (m_local m)); [constructor|]. constructor; [apply A|constructor].
    + destruct (nullb (m_swaps m)); [constructor|]. constructor; [apply A|constructor].
    + destruct (m_cons m) as [[|x c]|]; try constructor; [apply A|constructor].
    + constructor; [reflexivity|]. apply Forall_forall. intros l I. apply in_map_iff in I. destruct I as [p [<- _]].
      unfold msa_row_of, msa_row_line.
      pose proof (show_int_nonempty (fst (fst p))) as NE.
      destruct (show_int (fst (fst p))) as [|c r] eqn:E; [congruence|]. cbn [app starts].
      assert (In c (show_int (fst (fst p)))) as I by (rewrite E; left; reflexivity).
      destruct (show_int_chars _ _ I) as [->|D]; [reflexivity|]. unfold is_digit in D. lia.
Qed.

Definition entry_ok (e : Z * list str * msa) : Prop :=
  msa_okb (snd e) = true /\ Forall (fun l => starts 35 l = true) (snd (fst e)).
Definition blk_of (ref : str) (e : Z * list str * msa) : block :=
  mk_block (msa_header ref (fst (fst e)) (snd e)) s_msa (msa_body (snd (fst e)) (snd e)).

Lemma scan_one_block : forall ref e a, ref_ok ref -> entry_ok e -> good a ->
  fold_left read_step (msa_block ref e) a
  = mk_racc false None (ra_data a) (blk_of ref e :: ra_blocks a) (ra_meta a).
Proof.
  intros ref [[k stamp] m] a RO [OK FS] [G1 G2]. cbn [fst snd] in *.
  unfold msa_block. cbn [fold_left].
  rewrite (read_step_skip a [35]) by (try (split; assumption); reflexivity).
  destruct (header_parse ref k m _ (msa_okb_ok m OK) RO) as [HD HK].
  assert (ST : read_step a (msa_header ref k m)
               = mk_racc false (Some (msa_header ref k m, s_msa, [])) (ra_data a) (ra_blocks a) (ra_meta a)).
  { unfold read_step. rewrite G1, G2, HD, HK. reflexivity. }
  rewrite ST.
  rewrite scan_block_body; [reflexivity|apply msa_body_no_lt, FS|reflexivity].
Qed.

Lemma scan_blocks : forall ref ms a, ref_ok ref -> Forall entry_ok ms -> good a ->
  fold_left read_step (concat (map (msa_block ref) ms)) a
  = mk_racc false None (ra_data a) (rev (map (blk_of ref) ms) ++ ra_blocks a) (ra_meta a).
Proof.
  intros ref. induction ms as [|e ms IH]; intros a RO F G.
  - cbn [map concat fold_left rev app]. destruct a as [er o d b mt]. destruct G as [G1 G2]. cbn in *. subst. reflexivity.
  - inversion F as [|? ? He Hr]; subst. cbn [map concat]. rewrite fold_left_app.
    rewrite scan_one_block by assumption. rewrite IH; [|exact RO|exact Hr|split; reflexivity].
    cbn [ra_data ra_blocks ra_meta map rev]. rewrite <- app_assoc. reflexivity.
Qed.

Lemma scan_section : forall ref ms, ref_ok ref -> Forall entry_ok ms ->
  scan (msa_section ref ms) = mk_racc false None [] (rev (map (blk_of ref) ms)) [].
Proof.
  intros ref ms RO F. unfold scan, msa_section. cbn [fold_left].
  rewrite (read_step_skip racc0 []) by (try (split; reflexivity); reflexivity).
  rewrite (read_step_skip racc0 (s_msa_ref ++ ref)) by (try (split; reflexivity); reflexivity).
  rewrite scan_blocks; [|exact RO|exact F|split; reflexivity].
  cbn [racc0 ra_data ra_blocks ra_meta]. rewrite app_nil_r. reflexivity.
Qed.

Lemma read_msas_cons : forall b rest keys K R k m ms,
  b_dtype b = s_msa -> block_keys (b_head b) = Some keys ->
  assoc_last s_idk keys = Some K -> assoc_last s_refk keys = Some R -> parse_int K = Some k ->
  read_msa_body (b_body b) = Ok m -> read_msas rest = Ok ms ->
  read_msas (b :: rest) = Ok ((R, k, m) :: ms).
Proof.
  intros b rest keys K R k m ms H1 H2 A1 A2 H3 H4 H5. cbn [read_msas]. rewrite H1.
  change (str_eqb s_msa s_msa) with true. cbv iota. rewrite H2, A1, A2, H3, H4, H5. reflexivity.
Qed.

Lemma read_msas_blocks : forall ref ms, ref_ok ref -> Forall entry_ok ms ->
  read_msas (map (blk_of ref) ms) = Ok (map (fun e => (ref, fst (fst e), expected_read (snd e))) ms).
Proof.
  intros ref. induction ms as [|[[k stamp] m] ms IH]; intros RO F; [reflexivity|].
  inversion F as [|? ? [OK FS] Hr]; subst. cbn [fst snd] in *.
  destruct (header_parse ref k m _ (msa_okb_ok m OK) RO) as [_ HK].
  destruct (keys_lookup ref k m) as [A1 A2].
  cbn [map fst snd].
  apply (read_msas_cons _ _ (keys_of ref k m) (show_int k) ref k (expected_read m)).
  - reflexivity.
  - exact HK.
  - exact A1.
  - exact A2.
  - apply parse_show_int.
  - apply msa_body_roundtrip; assumption.
  - apply IH; assumption.
Qed.

(* THE MSA SECTION: every cognate set comes back from its block - ids, taxa, aligned rows, plain
   segments, LOCAL and CROSSED annotations - and the section leaves the reader ready for the data *)
Theorem msa_section_roundtrip : forall ref ms, ref_ok ref -> Forall entry_ok ms ->
  closed_pre (msa_section ref ms)
  /\ read_msa_section (msa_section ref ms)
     = Ok (map (fun e => (ref, fst (fst e), expected_read (snd e))) ms).
Proof.
  intros ref ms RO F. pose proof (scan_section ref ms RO F) as S. split.
  - unfold closed_pre, good. rewrite S. repeat split.
  - unfold read_msa_section, read_raw. rewrite S. cbn [ra_err ra_open ra_data ra_blocks ra_meta rev].
    rewrite rev_involutive. apply read_msas_blocks; assumption.
Qed.

(* ------------------------------------------------------------------ *)
(* the state add_alignments rebuilds from the columns is not affected by the reordering of the rows:
   the words of one doculect are taken in id order (246780d), and the ids are distinct *)
Lemma insert_id_comm : forall (x y : row) l, fst x <> fst y ->
  insert_by id_leb x (insert_by id_leb y l) = insert_by id_leb y (insert_by id_leb x l).
Proof.
  intros x y l N. induction l as [|z l IH].
  - cbn [insert_by]. unfold id_leb. destruct (fst x <=? fst y) eqn:E1; destruct (fst y <=? fst x) eqn:E2; try reflexivity; lia.
  - cbn [insert_by]. unfold id_leb in *.
    destruct (fst y <=? fst z) eqn:Ey; destruct (fst x <=? fst z) eqn:Ex; cbn [insert_by]; unfold id_leb.
    + destruct (fst x <=? fst y) eqn:E1; destruct (fst y <=? fst x) eqn:E2; rewrite ?Ex, ?Ey; try reflexivity; lia.
    + assert (fst x <=? fst y = false) as -> by lia. assert (fst y <=? fst x = true) as E by lia.
      rewrite Ex, Ey. reflexivity.
    + assert (fst y <=? fst x = false) as -> by lia. rewrite Ex, Ey. reflexivity.
    + rewrite Ex, Ey. f_equal. exact IH.
Qed.

Lemma isort_id_perm : forall l l' : list row, Permutation l l' -> NoDup (map fst l) ->
  isort id_leb l = isort id_leb l'.
Proof.
  intros l l' P. induction P as [|x l l' P IH|x y l|l l' l'' P1 IH1 P2 IH2]; intros ND.
  - reflexivity.
  - rewrite !isort_cons. cbn [map] in ND. inversion ND; subst. rewrite IH by assumption. reflexivity.
  - rewrite !isort_cons. cbn [map] in ND. inversion ND as [|? ? N1 _]; subst.
    apply insert_id_comm. intros E. apply N1. left. symmetry. exact E.
  - rewrite IH1 by exact ND. apply IH2. eapply Permutation_NoDup; [apply Permutation_map, P1|exact ND].
Qed.

Lemma filter_perm : forall {A} (p : A -> bool) l l', Permutation l l' -> Permutation (filter p l) (filter p l').
Proof.
  intros A p l l' P. induction P as [|x l l' P IH|x y l|l l' l'' P1 IH1 P2 IH2].
  - apply Permutation_refl.
  - cbn [filter]. destruct (p x); [apply perm_skip|]; exact IH.
  - cbn [filter]. destruct (p x); destruct (p y); try apply Permutation_refl. apply perm_swap.
  - eapply perm_trans; eassumption.
Qed.

Lemma NoDup_map_filter : forall (p : row -> bool) l, NoDup (map fst l) -> NoDup (map fst (filter p l)).
Proof.
  intros p. induction l as [|x l IH]; intros ND; [constructor|].
  cbn [map] in ND. inversion ND as [|? ? N1 N2]; subst. cbn [filter]. destruct (p x); [|apply IH, N2].
  cbn [map]. constructor; [|apply IH, N2].
  intros I. apply N1. apply in_map_iff in I. destruct I as [y [E Iy]]. apply filter_In in Iy. destruct Iy as [Iy _].
  rewrite <- E. apply in_map, Iy.
Qed.

Theorem selc_sorted : forall tbl w ref k t, wl_ok tbl w ->
  isort id_leb (selc (wl_cols w) ref (sorted_rows w) k t) = isort id_leb (selc (wl_cols w) ref (wl_rows w) k t).
Proof.
  intros tbl w ref k t OK. unfold selc. apply isort_id_perm.
  - apply filter_perm, sorted_rows_perm.
  - apply NoDup_map_filter.
    eapply Permutation_NoDup; [apply Permutation_sym, Permutation_map, sorted_rows_perm|apply (ok_ids_nodup _ _ OK)].
Qed.

Lemma rebuild_ext : forall cols (S1 S2 : Z -> str -> list row) taxa cogids,
  (forall k t, isort id_leb (S1 k t) = isort id_leb (S2 k t)) -> rebuild cols S1 taxa cogids = rebuild cols S2 taxa cogids.
Proof.
  intros cols S1 S2 taxa cogids H. unfold rebuild.
  apply flat_map_ext. intros k. unfold rebuild_one, members.
  rewrite (flat_map_ext (fun t => isort id_leb (S1 k t)) (fun t => isort id_leb (S2 k t))) by (intros t; apply H).
  reflexivity.
Qed.

(* THE ALIGNMENT STATE: what Alignments.add_alignments rebuilds from the columns of the object read back
   is what it rebuilds from the columns of the object saved, for any list of doculects and cognate ids -
   also for cognate sets that span several concepts inside one doculect *)
Theorem alignments_state_roundtrip : forall tbl w ref taxa cogids,
  wl_okb tbl w = true ->
  alignments_state (wl_cols w) ref taxa cogids (sorted_rows w)
  = alignments_state (wl_cols w) ref taxa cogids (wl_rows w).
Proof.
  intros tbl w ref taxa cogids H. unfold alignments_state. apply rebuild_ext.
  intros k t. apply (selc_sorted tbl). apply wl_okb_ok, H.
Qed.

(* the blocks of a written file are the blocks of its meta section *)
Lemma written_blocks : forall pretty pre stamp w ls, write pretty pre stamp w = Ok ls ->
  closed_pre pre -> Forall skipline stamp ->
  exists data, read_raw ls = Ok (data, rev (ra_blocks (scan pre)), rev (ra_meta (scan pre))).
Proof.
  intros pretty pre stamp w ls W CP FS. unfold write in W.
  destruct (match index_of s_CONCEPT (map upper (wl_cols w)) with
            | Some i => (i, VNone) | None => (0%nat, VStr []) end) as [idx init].
  destruct (match index_of s_CONCEPT (map upper (wl_cols w)) with
            | Some i => sortableb i (wl_rows w) | None => true end); [|discriminate W].
  inversion W as [E]. clear W E. eexists. apply scan_written.
  - destruct pretty; repeat constructor.
  - exact CP.
  - destruct pretty; repeat constructor.
  - apply header_dataline.
  - exact FS.
Qed.

(* AN ALIGNED WORDLIST WRITTEN WITH ITS ALIGNMENTS: the rows and every cognate set come back *)
Theorem aligned_file_roundtrip : forall tbl pretty stamp w ref ms,
  wl_okb tbl w = true -> ref_ok ref -> Forall entry_ok ms -> Forall skipline stamp ->
  exists ls, write pretty (msa_section ref ms) stamp w = Ok ls
    /\ read tbl ls = Ok (mk_wl (wl_cols w) (sorted_rows w))
    /\ read_msa_section ls = Ok (map (fun e => (ref, fst (fst e), expected_read (snd e))) ms).
Proof.
  intros tbl pretty stamp w ref ms H RO F FS.
  destruct (msa_section_roundtrip ref ms RO F) as [CP RS].
  destruct (file_roundtrip tbl pretty (msa_section ref ms) stamp w H CP FS) as [ls [W R]].
  exists ls. split; [exact W|]. split; [exact R|].
  destruct (written_blocks _ _ _ _ _ W CP FS) as [data RR].
  unfold read_msa_section in *. rewrite RR.
  unfold read_raw in RS. destruct CP as [[G1 G2] _]. rewrite G1, G2 in RS. exact RS.
Qed.

(* ------------------------------------------------------------------ *)
(* alignments for several reference columns: one section per column *)
Definition section_ok (p : str * list (Z * list str * msa)) : Prop := ref_ok (fst p) /\ Forall entry_ok (snd p).
Definition blks_of (l : list (str * list (Z * list str * msa))) : list block :=
  concat (map (fun p => map (blk_of (fst p)) (snd p)) l).
Definition expected_sections (l : list (str * list (Z * list str * msa))) : list (str * Z * msa_read) :=
  concat (map (fun p => map (fun e => (fst p, fst (fst e), expected_read (snd e))) (snd p)) l).

Lemma scan_section_from : forall ref ms a, ref_ok ref -> Forall entry_ok ms -> good a ->
  fold_left read_step (msa_section ref ms) a
  = mk_racc false None (ra_data a) (rev (map (blk_of ref) ms) ++ ra_blocks a) (ra_meta a).
Proof.
  intros ref ms a RO F G. unfold msa_section. cbn [fold_left].
  rewrite (read_step_skip a []) by (try exact G; reflexivity).
  rewrite (read_step_skip a (s_msa_ref ++ ref)) by (try exact G; reflexivity).
  apply scan_blocks; assumption.
Qed.

Lemma scan_sections : forall l a, Forall section_ok l -> good a ->
  fold_left read_step (msa_sections l) a
  = mk_racc false None (ra_data a) (rev (blks_of l) ++ ra_blocks a) (ra_meta a).
Proof.
  induction l as [|[ref ms] l IH]; intros a F G.
  - cbn. destruct a as [er o d b mt]. destruct G as [G1 G2]. cbn in *. subst. reflexivity.
  - inversion F as [|? ? [RO FE] Fr]; subst. cbn [fst snd] in *.
    unfold msa_sections, blks_of. cbn [map concat fst snd]. rewrite fold_left_app.
    rewrite scan_section_from by assumption.
    fold (msa_sections l). rewrite IH; [|exact Fr|split; reflexivity].
    cbn [ra_data ra_blocks ra_meta]. fold (blks_of l). rewrite rev_app_distr, <- app_assoc. reflexivity.
Qed.

Lemma read_msas_blocks_app : forall ref ms rest R, ref_ok ref -> Forall entry_ok ms -> read_msas rest = Ok R ->
  read_msas (map (blk_of ref) ms ++ rest)
  = Ok (map (fun e => (ref, fst (fst e), expected_read (snd e))) ms ++ R).
Proof.
  intros ref. induction ms as [|[[k stamp] m] ms IH]; intros rest R RO F HR; [exact HR|].
  inversion F as [|? ? [OK FS] Hr]; subst. cbn [fst snd] in *.
  destruct (header_parse ref k m _ (msa_okb_ok m OK) RO) as [_ HK].
  destruct (keys_lookup ref k m) as [A1 A2].
  cbn [map app fst snd].
  apply (read_msas_cons _ _ (keys_of ref k m) (show_int k) ref k (expected_read m)).
  - reflexivity.
  - exact HK.
  - exact A1.
  - exact A2.
  - apply parse_show_int.
  - apply msa_body_roundtrip; assumption.
  - apply IH; assumption.
Qed.

Lemma read_msas_sections : forall l, Forall section_ok l -> read_msas (blks_of l) = Ok (expected_sections l).
Proof.
  induction l as [|[ref ms] l IH]; intros F; [reflexivity|].
  inversion F as [|? ? [RO FE] Fr]; subst. cbn [fst snd] in *.
  unfold blks_of, expected_sections. cbn [map concat fst snd].
  apply read_msas_blocks_app; [exact RO|exact FE|]. apply IH, Fr.
Qed.

(* SEVERAL REFERENCE COLUMNS: every cognate set of every column comes back under its column and id *)
Theorem msa_sections_roundtrip : forall l, Forall section_ok l ->
  closed_pre (msa_sections l) /\ read_msa_section (msa_sections l) = Ok (expected_sections l).
Proof.
  intros l F.
  assert (S : scan (msa_sections l) = mk_racc false None [] (rev (blks_of l)) []).
  { unfold scan. rewrite scan_sections; [|exact F|split; reflexivity]. cbn [racc0 ra_data ra_blocks ra_meta].
    rewrite app_nil_r. reflexivity. }
  split.
  - unfold closed_pre, good. rewrite S. repeat split.
  - unfold read_msa_section, read_raw. rewrite S. cbn [ra_err ra_open ra_data ra_blocks ra_meta rev].
    rewrite rev_involutive. apply read_msas_sections, F.
Qed.

Theorem aligned_file_roundtrip_refs : forall tbl pretty stamp w l,
  wl_okb tbl w = true -> Forall section_ok l -> Forall skipline stamp ->
  exists ls, write pretty (msa_sections l) stamp w = Ok ls
    /\ read tbl ls = Ok (mk_wl (wl_cols w) (sorted_rows w))
    /\ read_msa_section ls = Ok (expected_sections l).
Proof.
  intros tbl pretty stamp w l H F FS.
  destruct (msa_sections_roundtrip l F) as [CP RS].
  destruct (file_roundtrip tbl pretty (msa_sections l) stamp w H CP FS) as [ls [W R]].
  exists ls. split; [exact W|]. split; [exact R|].
  destruct (written_blocks _ _ _ _ _ W CP FS) as [data RR].
  unfold read_msa_section in *. rewrite RR.
  unfold read_raw in RS. destruct CP as [[G1 G2] _]. rewrite G1, G2 in RS. exact RS.
Qed.
