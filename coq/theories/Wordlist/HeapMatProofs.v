(* C19, second half - flat_cluster (all methods, 'ward' included) writes to fresh
   locations only and its result is a function of the matrix content; any such
   function gives the same answer when called again. *)
From Coq Require Import QArith List Bool Arith Lia.
From LV Require Import Common.Cases Cluster.Flat Cluster.FlatQ Wordlist.HeapMat.
Import ListNotations.
Local Open Scope nat_scope.

Lemma qset_length : forall h l v, length (qset h l v) = length h.
Proof.
  induction h as [|x t IH]; intros l v; destruct l as [|l']; cbn [qset length]; auto.
Qed.

Lemma qget_qset_same : forall h l v, l < length h -> qget (qset h l v) l = v.
Proof.
  unfold qget. induction h as [|x t IH]; intros l v Hl; cbn [length] in Hl; [lia|].
  destruct l as [|l']; cbn [qset nth]; [reflexivity|]. apply IH. lia.
Qed.

Lemma qget_qset_other : forall h l l' v, l <> l' -> qget (qset h l v) l' = qget h l'.
Proof.
  unfold qget. induction h as [|x t IH]; intros l l' v Hn; destruct l as [|l0]; destruct l' as [|l1];
    cbn [qset nth]; try reflexivity; try congruence.
  apply IH. congruence.
Qed.

Lemma write_rows_length : forall m rows h, length (write_rows h m rows) = length h.
Proof.
  induction m as [|l tm IH]; intros rows h; destruct rows as [|r tr]; cbn [write_rows]; auto.
  rewrite IH. apply qset_length.
Qed.

Lemma write_rows_other : forall m rows h l, ~ In l m -> qget (write_rows h m rows) l = qget h l.
Proof.
  induction m as [|l0 tm IH]; intros rows h l Hn; destruct rows as [|r tr]; cbn [write_rows]; auto.
  rewrite IH by (intro Hc; apply Hn; right; exact Hc).
  apply qget_qset_other. intro Hc. apply Hn. left. exact Hc.
Qed.

Lemma write_rows_view : forall m rows h,
  NoDup m -> Forall (fun l => l < length h) m -> length rows = length m ->
  mview (write_rows h m rows) m = rows.
Proof.
  induction m as [|l tm IH]; intros rows h Hnd Hall Hlen; destruct rows as [|r tr]; cbn [length] in Hlen; try lia.
  - reflexivity.
  - inversion Hnd as [|x y Hni Hnd']; subst. inversion Hall as [|x y Hl Hall']; subst.
    cbn [write_rows]. unfold mview. cbn [map]. f_equal.
    + rewrite write_rows_other by exact Hni. apply qget_qset_same. exact Hl.
    + apply IH; [exact Hnd'| |lia]. rewrite qset_length. exact Hall'.
Qed.

Lemma mview_alloc : forall v h, mview (h ++ v) (seq (length h) (length v)) = v.
Proof.
  induction v as [|a t IH]; intros h; [reflexivity|].
  cbn [length seq]. unfold mview. cbn [map]. f_equal.
  - unfold qget. apply nth_middle.
  - replace (h ++ a :: t) with ((h ++ [a]) ++ t) by (rewrite <- app_assoc; reflexivity).
    replace (S (length h)) with (length (h ++ [a])) by (rewrite app_length; cbn [length]; lia).
    apply IH.
Qed.

Lemma ward_matrix_length : forall x, length (ward_matrix x) = length x.
Proof. intros x. unfold ward_matrix. rewrite map_length, seq_length. reflexivity. Qed.

Lemma mview_length : forall h m, length (mview h m) = length m.
Proof. intros. unfold mview. apply map_length. Qed.

Lemma mview_ext : forall h h' m, (forall l, In l m -> qget h' l = qget h l) -> mview h' m = mview h m.
Proof. intros h h' m H. unfold mview. apply map_ext_in. exact H. Qed.

(* what flat_cluster_h returns, and what it leaves *)
Theorem flat_cluster_h_spec : forall ward meth thr h m,
  let r := flat_cluster_h ward meth thr h m in
  fst r = flat_cluster (if ward then Upgma else meth) thr
                       (if ward then ward_matrix (mview h m) else mview h m)
  /\ length h <= length (snd r)
  /\ forall l, l < length h -> qget (snd r) l = qget h l.
Proof.
  intros ward meth thr h m. unfold flat_cluster_h. destruct ward; cbn zeta.
  - unfold alloc_mat. cbn [fst snd].
    set (v := mview h m). set (m1 := seq (length h) (length v)).
    assert (Hv : mview (h ++ v) m1 = v) by apply mview_alloc.
    rewrite Hv. split; [|split].
    + f_equal. apply write_rows_view.
      * apply seq_NoDup.
      * rewrite Forall_forall. intros l Hl. unfold m1 in Hl. rewrite in_seq in Hl. rewrite app_length. lia.
      * rewrite ward_matrix_length. unfold m1. rewrite seq_length. reflexivity.
    + rewrite write_rows_length, app_length. lia.
    + intros l Hl. rewrite write_rows_other.
      * unfold qget. apply app_nth1. exact Hl.
      * unfold m1. rewrite in_seq. lia.
  - cbn [fst snd]. split; [reflexivity|]. split; [lia|]. intros; reflexivity.
Qed.

(* cluster_pure: every location that existed before the call holds what it held,
   in particular the caller's matrix reads the same - for every method, 'ward' included *)
Theorem cluster_pure : forall ward meth thr h m,
  wfm h m ->
  mview (snd (flat_cluster_h ward meth thr h m)) m = mview h m
  /\ forall l, l < length h -> qget (snd (flat_cluster_h ward meth thr h m)) l = qget h l.
Proof.
  intros ward meth thr h m Hw. destruct (flat_cluster_h_spec ward meth thr h m) as (_ & _ & Hold).
  split; [|exact Hold]. apply mview_ext. intros l Hl. apply Hold.
  unfold wfm in Hw. rewrite Forall_forall in Hw. apply Hw. exact Hl.
Qed.

Lemma flat_cluster_h_preserves : forall ward meth thr, preserves (flat_cluster_h ward meth thr).
Proof.
  intros ward meth thr h m. destruct (flat_cluster_h_spec ward meth thr h m) as (_ & Hlen & Hold). split; assumption.
Qed.

Lemma flat_cluster_h_extensional : forall ward meth thr, extensional (flat_cluster_h ward meth thr).
Proof.
  intros ward meth thr h h' m E.
  destruct (flat_cluster_h_spec ward meth thr h m) as (H1 & _).
  destruct (flat_cluster_h_spec ward meth thr h' m) as (H2 & _).
  rewrite H1, H2, E. reflexivity.
Qed.

(* "leaves the matrix unchanged, so calling twice gives the same answer", for any
   function of a matrix object *)
Theorem pure_twice : forall (R : Type) (F : heap_fun R),
  preserves F -> extensional F ->
  forall h m, wfm h m -> fst (F (snd (F h m)) m) = fst (F h m).
Proof.
  intros R F Hp He h m Hw. apply He. destruct (Hp h m) as [_ Hold].
  apply mview_ext. intros l Hl. apply Hold.
  unfold wfm in Hw. rewrite Forall_forall in Hw. apply Hw. exact Hl.
Qed.

(* and the matrix is still unchanged after the second call *)
Theorem pure_twice_matrix : forall (R : Type) (F : heap_fun R),
  preserves F ->
  forall h m, wfm h m -> mview (snd (F (snd (F h m)) m)) m = mview h m.
Proof.
  intros R F Hp h m Hw. destruct (Hp h m) as [Hlen Hold]. destruct (Hp (snd (F h m)) m) as [_ Hold2].
  unfold wfm in Hw. rewrite Forall_forall in Hw.
  apply mview_ext. intros l Hl. specialize (Hw l Hl). rewrite Hold2 by lia. apply Hold. exact Hw.
Qed.

Theorem cluster_idempotent : forall ward meth thr h m,
  wfm h m ->
  fst (flat_cluster_h ward meth thr (snd (flat_cluster_h ward meth thr h m)) m)
  = fst (flat_cluster_h ward meth thr h m).
Proof.
  intros ward meth thr. apply pure_twice; [apply flat_cluster_h_preserves|apply flat_cluster_h_extensional].
Qed.

(* the pre-repair code fails both statements: d = 3/4, threshold 1/2:
   d^2 = 9/16 > 1/2 (two clusters), d^4 = 81/256 <= 1/2 (one cluster) *)
Definition ex_heap : qheap := [[0; 3#4]; [3#4; 0]]%Q.
Definition ex_mat : list nat := [0; 1].

Lemma inplace_changes_matrix :
  mview (snd (flat_cluster_inplace true Upgma (1#2) ex_heap ex_mat)) ex_mat <> mview ex_heap ex_mat.
Proof. vm_compute. discriminate. Qed.

Lemma inplace_not_idempotent :
  fst (flat_cluster_inplace true Upgma (1#2) (snd (flat_cluster_inplace true Upgma (1#2) ex_heap ex_mat)) ex_mat)
  <> fst (flat_cluster_inplace true Upgma (1#2) ex_heap ex_mat).
Proof. vm_compute. discriminate. Qed.

(* ------------------------------------------------------------------ *)
(* every modelled matrix function writes to fresh locations only and its result
   depends on the content of the matrix only *)

Theorem mfun_preserves : forall f, preserves (mfun_run f).
Proof.
  intros f h m. destruct f as [ward meth thr|lm thr| |]; unfold mfun_run.
  - destruct (flat_cluster_h ward meth thr h m) as [r h'] eqn:E. cbn [snd].
    destruct (flat_cluster_h_spec ward meth thr h m) as (_ & Hlen & Hold). rewrite E in Hlen, Hold. cbn [snd] in Hlen, Hold.
    split; assumption.
  - cbn [snd]. split; [lia|reflexivity].
  - cbn [snd]. split; [lia|reflexivity].
  - unfold alloc_mat. cbn [snd]. set (v := mview h m).
    assert (Hfresh : forall rows l, l < length h ->
              qget (write_rows (h ++ v) (seq (length h) (length v)) rows) l = qget h l).
    { intros rows l Hl. rewrite write_rows_other; [unfold qget; apply app_nth1; exact Hl|]. rewrite in_seq. lia. }
    destruct (length v) as [|[|[|k]]] eqn:Ev; (split; [rewrite ?write_rows_length, app_length; lia|]).
    + intros l Hl. unfold qget. apply app_nth1. exact Hl.
    + intros l Hl. unfold qget. apply app_nth1. exact Hl.
    + intros l Hl. unfold qget. apply app_nth1. exact Hl.
    + intros l Hl. apply Hfresh. exact Hl.
Qed.

Theorem mfun_extensional : forall f, extensional (mfun_run f).
Proof.
  intros f h h' m E. destruct f as [ward meth thr|lm thr| |]; unfold mfun_run.
  - pose proof (flat_cluster_h_extensional ward meth thr h h' m E) as H.
    destruct (flat_cluster_h ward meth thr h m) as [r1 h1]. destruct (flat_cluster_h ward meth thr h' m) as [r2 h2].
    cbn [fst] in *. rewrite H. reflexivity.
  - cbn [fst]. rewrite E. reflexivity.
  - cbn [fst]. rewrite E. reflexivity.
  - unfold alloc_mat. cbn [fst]. rewrite E. reflexivity.
Qed.

(* cluster_pure / idempotent for all of them *)
Theorem mfun_pure_twice : forall f h m,
  wfm h m ->
  mview (snd (mfun_run f h m)) m = mview h m
  /\ fst (mfun_run f (snd (mfun_run f h m)) m) = fst (mfun_run f h m)
  /\ mview (snd (mfun_run f (snd (mfun_run f h m)) m)) m = mview h m.
Proof.
  intros f h m Hw. split; [|split].
  - destruct (mfun_preserves f h m) as [_ Hold]. apply mview_ext. intros l Hl. apply Hold.
    unfold wfm in Hw. rewrite Forall_forall in Hw. apply Hw. exact Hl.
  - apply pure_twice; [apply mfun_preserves|apply mfun_extensional|exact Hw].
  - apply pure_twice_matrix; [apply mfun_preserves|exact Hw].
Qed.

(* the working copy of _neighbor is what makes this true: without it the caller's
   matrix holds the scores afterwards and the second tree differs *)
Definition nj_heap : qheap := [[0; 3#4; 7#8]; [3#4; 0; 5#4]; [7#8; 5#4; 0]]%Q.
Definition nj_mat : list nat := [0; 1; 2].

Lemma neighbor_inplace_not_pure :
  mview (snd (neighbor_inplace nj_heap nj_mat)) nj_mat <> mview nj_heap nj_mat
  /\ fst (neighbor_inplace (snd (neighbor_inplace nj_heap nj_mat)) nj_mat) <> fst (neighbor_inplace nj_heap nj_mat).
Proof. split; vm_compute; discriminate. Qed.

Lemma neighbor_copy_is_written :
  snd (mfun_run MNeighbor nj_heap nj_mat) <> nj_heap
  /\ mview (snd (mfun_run MNeighbor nj_heap nj_mat)) nj_mat = mview nj_heap nj_mat.
Proof. split; vm_compute; [discriminate|reflexivity]. Qed.
