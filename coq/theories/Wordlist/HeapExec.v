(* C19 - correspondence cases and boolean checkers.

   History cases: the harness runs a seeded history of constructions and
   operations on real lingpy objects and, after every step, records a snapshot:
   for every object its header names, columns, rows (id, cells) and the identity
   (id()) of the header object and of every row list, renamed to first-occurrence
   numbers.  [heap_case_code] replays the same history in the model and compares
   snapshot by snapshot (bit 0), and runs two checkers on the *implementation's*
   snapshots: no two objects share a location (bit 1), and a step changes nothing
   but the object it was applied to (bit 2).

   Purity cases: a clustering / tree function called twice on the same matrix
   object; matrix content before, after the first and after the second call, and
   both results (bit 0: flat_cluster against the model; bit 3: matrix unchanged;
   bit 4: same answer). *)
From Coq Require Import QArith ZArith List Bool Arith.
From LV Require Import Common.Cases Cluster.Flat Cluster.FlatQ Wordlist.Heap Wordlist.HeapMat.
Import ListNotations.
Local Open Scope nat_scope.

(* ------------------------------------------------------------------ *)
(* user functions of add_entries as finite tables; a missing key = the function raises *)

Definition zlist_eqb : list Z -> list Z -> bool := list_eqb Z.eqb.

Fixpoint tab_lookup (t : list (list Z * Z)) (a : list Z) : option Z :=
  match t with
  | [] => None
  | (k, v) :: r => if zlist_eqb k a then Some v else tab_lookup r a
  end.

Definition tabf (t : list (list Z * Z)) : list Z -> option Z := tab_lookup t.

(* lambda x: x *)
Definition idf : list Z -> option Z := fun a => match a with [x] => Some x | _ => None end.

(* ------------------------------------------------------------------ *)
(* snapshots *)

Record sobj := mkSobj {
  so_dict : bool;                          (* a caller's dictionary (true) or a wordlist object *)
  so_hloc : nat;                           (* header object *)
  so_hdr : list Z;                         (* names in index order *)
  so_cols : list Z;                        (* wl.columns (the dictionary's header again) *)
  so_rows : list (Z * nat * list Z);       (* id, row object, cells - in iteration order *)
  so_strkeys : bool;                       (* dictionary: the rows sit under numeric string keys *)
  so_stale : list (Z * nat)                (* wordlist: _meta entries under numeric string keys that are
                                              row lists of another object: id, that row object *)
}.

Definition snapshot := list sobj.

Definition sobj_locs (o : sobj) : list nat := so_hloc o :: map (fun r => snd (fst r)) (so_rows o).
Definition snap_locs (s : snapshot) : list nat := flat_map sobj_locs s.

Fixpoint first_index (x : nat) (l : list nat) : nat :=
  match l with
  | [] => 0
  | y :: t => if Nat.eqb x y then 0 else S (first_index x t)
  end.

Definition snap_of_state (s : state) : snapshot :=
  let all := all_locs s in
  let h := st_heap s in
  map (fun o => mkSobj (match o_kind o with KDict => true | KWl => false end)
                       (first_index (o_hdr o) all)
                       (hget h (o_hdr o)) (hget h (o_hdr o))
                       (map (fun r => (fst r, first_index (snd r) all, hget h (snd r))) (o_rows o))
                       (o_strkeys o)
                       (map (fun r => (fst r, first_index (snd r) all)) (o_stale o)))
      (st_objs s).

(* content of an object: everything but the location numbers *)
Definition row_content_eqb (a b : Z * nat * list Z) : bool :=
  Z.eqb (fst (fst a)) (fst (fst b)) && zlist_eqb (snd a) (snd b).

Definition sobj_content_eqb (a b : sobj) : bool :=
  Bool.eqb (so_dict a) (so_dict b) && zlist_eqb (so_hdr a) (so_hdr b) && zlist_eqb (so_cols a) (so_cols b)
  && list_eqb row_content_eqb (so_rows a) (so_rows b).

Definition row_eqb (a b : Z * nat * list Z) : bool :=
  row_content_eqb a b && Nat.eqb (snd (fst a)) (snd (fst b)).

Definition sobj_eqb (a b : sobj) : bool :=
  sobj_content_eqb a b && Nat.eqb (so_hloc a) (so_hloc b) && list_eqb row_eqb (so_rows a) (so_rows b)
  && Bool.eqb (so_strkeys a) (so_strkeys b)
  && list_eqb (pair_eqb Z.eqb Nat.eqb) (so_stale a) (so_stale b).

Definition snapshot_eqb : snapshot -> snapshot -> bool := list_eqb sobj_eqb.

(* ------------------------------------------------------------------ *)
(* checkers, run on the implementation's snapshots *)

Fixpoint memn (x : nat) (l : list nat) : bool :=
  match l with [] => false | y :: t => Nat.eqb x y || memn x t end.

Fixpoint nodupn (l : list nat) : bool :=
  match l with [] => true | x :: t => negb (memn x t) && nodupn t end.

(* no header object and no row list is reachable from two places *)
Definition sepb (s : snapshot) : bool := nodupn (snap_locs s).

(* objects that existed before the step, other than its target, read the same afterwards *)
Fixpoint frame_from (k : nat) (tgt : option nat) (before after : snapshot) : bool :=
  match before, after with
  | [], _ => true
  | _ :: _, [] => false
  | b :: tb, a :: ta =>
      ((match tgt with Some t => Nat.eqb t k | None => false end) || sobj_content_eqb b a)
      && frame_from (S k) tgt tb ta
  end.

Definition frameb (tgt : option nat) (before after : snapshot) : bool := frame_from 0 tgt before after.

(* ------------------------------------------------------------------ *)
(* history cases *)

Record hstep := mkStep {
  hs_ops : list op;            (* the step in model operations *)
  hs_tgt : option nat;         (* the object the call was made on (None: a construction) *)
  hs_raised : bool;            (* implementation: the call raised *)
  hs_args_same : bool;         (* implementation: every caller-owned argument of the call (source
                                  dictionary of add_entries, assigned value, ...) is deep-equal to what it
                                  was before, and every dictionary still has its keys, its meta entries
                                  and the very list objects it was built with *)
  hs_snap : snapshot           (* implementation: all objects after the step *)
}.

Record heap_case := { hc_steps : list hstep }.

Fixpoint hist_code (steps : list hstep) (s : state) (prev : snapshot) : nat :=
  match steps with
  | [] => 0
  | st :: t =>
      let (s', r) := run_macro (hs_ops st) s in
      let c := bit 0 (Bool.eqb r (hs_raised st) && snapshot_eqb (snap_of_state s') (hs_snap st))
               + bit 1 (sepb (hs_snap st))
               + bit 2 (frameb (hs_tgt st) prev (hs_snap st) && hs_args_same st) in
      match c with
      | O => hist_code t s' (hs_snap st)
      | _ => c            (* the first step that fails decides the code *)
      end
  end.

Definition heap_case_code (c : heap_case) : nat := hist_code (hc_steps c) empty_state [].

(* ------------------------------------------------------------------ *)
(* purity cases *)

Definition qrow_eqb (a b : list Q) : bool := list_eqb Qeq_bool a b.
Definition mat_eqb (a b : mat) : bool := list_eqb qrow_eqb a b.

Record pure_case := {
  pc_flat : bool;              (* the call is flat_cluster: compared with the model *)
  pc_low : nat;                (* 1: cython/_cluster.flat_cluster with pc_meth, 2: with a method name it does
                                  not know ('ward'): compared with low_flat; 0: neither *)
  pc_ward : bool;
  pc_meth : method;
  pc_thr : Q;
  pc_before : mat;             (* matrix content before the first call *)
  pc_after1 : mat;             (* ... after the first call *)
  pc_after2 : mat;             (* ... after the second call *)
  pc_taxa0 : list Z;           (* the taxa argument before / after the calls *)
  pc_taxa2 : list Z;
  pc_res1 : list Z;            (* canonical rendering of the two results *)
  pc_res2 : list Z;
  pc_out1 : clusters;          (* flat_cluster only: the two results *)
  pc_out2 : clusters
}.

Definition pureb (c : pure_case) : bool :=
  mat_eqb (pc_before c) (pc_after1 c) && mat_eqb (pc_before c) (pc_after2 c)
  && zlist_eqb (pc_taxa0 c) (pc_taxa2 c).

Definition sameb_res (c : pure_case) : bool := zlist_eqb (pc_res1 c) (pc_res2 c).

Definition pure_model_ok (c : pure_case) : bool :=
  if pc_flat c then
    let h := pc_before c in
    let m := seq 0 (length h) in
    let (r1, h1) := flat_cluster_h (pc_ward c) (pc_meth c) (pc_thr c) h m in
    let (r2, h2) := flat_cluster_h (pc_ward c) (pc_meth c) (pc_thr c) h1 m in
    clusters_eqb r1 (pc_out1 c) && clusters_eqb r2 (pc_out2 c)
    && mat_eqb (mview h1 m) (pc_after1 c) && mat_eqb (mview h2 m) (pc_after2 c)
  else match pc_low c with
  | 0 => true
  | k =>
    let f := mfun_run (MLowFlat (match k with 1 => LKnown (pc_meth c) | _ => LOther end) (pc_thr c)) in
    let h := pc_before c in
    let m := seq 0 (length h) in
    let (r1, h1) := f h m in
    let (r2, h2) := f h1 m in
    match r1, r2 with
    | RClusters c1, RClusters c2 =>
        clusters_eqb c1 (pc_out1 c) && clusters_eqb c2 (pc_out2 c)
        && mat_eqb (mview h1 m) (pc_after1 c) && mat_eqb (mview h2 m) (pc_after2 c)
    | _, _ => false
    end
  end.

Definition pure_case_code (c : pure_case) : nat :=
  bit 0 (pure_model_ok c) + bit 3 (pureb c) + bit 4 (sameb_res c).
