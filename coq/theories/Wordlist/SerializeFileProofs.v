(* C13 - the <dst> and <scorer> blocks inside the written file: sections, the file reader, and the whole
   meta part (MSA sections, distances, scorers) of a file. *)
From Coq Require Import QArith ZArith List Bool Lia Permutation.
From LV Require Import Wordlist.SerializeStr Wordlist.SerializeStrProofs Wordlist.SerializeNum Wordlist.SerializeNumProofs
  Wordlist.Serialize Wordlist.SerializeProofs Wordlist.SerializeBlockProofs Wordlist.SerializeMsa Wordlist.SerializeMsaProofs.
Import ListNotations.
Local Open Scope Z_scope.

Definition frame (a : racc) (bs : list block) : racc :=
  mk_racc false None (ra_data a) (bs ++ ra_blocks a) (ra_meta a).

(* ---- <dst> ---- *)
Definition taxon_line_ok (t : str) : Prop := hashb t = false /\ starts 60 t = false.

Lemma dst_line_no_lt : forall t row, starts 60 t = false -> starts 60 (dst_line t row) = false.
Proof.
  intros t row H. unfold dst_line, dst_name. destruct t as [|c t']; [reflexivity|].
  cbn [app firstn starts] in *. exact H.
Qed.

Lemma dst_section_from : forall taxa m a, Forall (fun t => starts 60 t = false) taxa -> good a ->
  fold_left read_step (dst_section taxa m) a = frame a [mk_block s_dst_open s_dst (dst_lines taxa m)].
Proof.
  intros taxa m a F [G1 G2]. unfold dst_section. cbn [fold_left].
  rewrite (read_step_skip a []) by (try (split; assumption); reflexivity).
  rewrite (read_step_skip a s_distances) by (try (split; assumption); reflexivity).
  assert (ST : read_step a s_dst_open = mk_racc false (Some (s_dst_open, s_dst, [])) (ra_data a) (ra_blocks a) (ra_meta a)).
  { unfold read_step. rewrite G1, G2. reflexivity. }
  rewrite ST. rewrite scan_block_body; [reflexivity| |reflexivity].
  unfold dst_lines. constructor; [reflexivity|].
  apply Forall_forall. intros l I. apply in_map_iff in I. destruct I as [[t r] [<- I]]. cbn [fst snd].
  apply dst_line_no_lt. rewrite Forall_forall in F. apply F. eapply in_combine_l; eauto.
Qed.

(* ---- <scorer id=...> ---- *)
Definition sid_ok (id : str) : Prop := ~ In 62 id /\ ~ In 34 id.
Definition char_ok (c : str) : Prop := c <> [] /\ starts 60 c = false /\ ~ In 9 c.

Lemma scorer_tag_parse : forall id, sid_ok id ->
  block_dtype (scorer_tag id) = Some s_scorer /\ block_keys (scorer_tag id) = Some [(s_idk, id)].
Proof.
  intros id [R62 R34]. unfold scorer_tag.
  assert (S32 : ~ In 32 s_scorer) by (intros I; unfold s_scorer in I; cbn [In] in I; repeat (destruct I as [I|I]; [discriminate I|]); exact I).
  assert (S62 : ~ In 62 s_scorer) by (intros I; unfold s_scorer in I; cbn [In] in I; repeat (destruct I as [I|I]; [discriminate I|]); exact I).
  assert (IDK : ~ In 62 s_idk /\ ~ In 61 s_idk /\ nospace s_idk) by (repeat split; try reflexivity; intros [X|[X|[]]]; discriminate X).
  assert (N62 : ~ In 62 (s_scorer ++ 32 :: attr s_idk id)).
  { apply not_in_app; [exact S62|]. intros [X|I]; [discriminate X|]. revert I. apply attr_no; [apply IDK|exact R62|lia|lia]. }
  unfold block_dtype, block_keys. rewrite take_until_app by exact N62.
  assert (M32 : memc 32 (s_scorer ++ 32 :: attr s_idk id) = true).
  { unfold memc. apply existsb_exists. exists 32. split; [|reflexivity]. apply in_or_app. right. left. reflexivity. }
  rewrite M32.
  assert (HD : hd [] (split_on 32 (s_scorer ++ 32 :: attr s_idk id)) = s_scorer) by (rewrite split_on_app_sep by exact S32; reflexivity).
  rewrite HD. split; [reflexivity|]. f_equal.
  rewrite skipn_app_length, findall_space. rewrite <- (app_nil_r (attr s_idk id)).
  rewrite findall_attr; [reflexivity|discriminate|apply IDK|apply IDK|exact R34].
Qed.

Lemma scorer_line_no_lt : forall c row, char_ok c -> starts 60 (scorer_line c row) = false.
Proof.
  intros c row [NE [H _]]. destruct c as [|x c']; [congruence|].
  destruct (join_head [9] x c' (map (show_fixed 2) row)) as [t' J].
  assert (E : scorer_line (x :: c') row = x :: t') by exact J.
  rewrite E. exact H.
Qed.

Definition scorer_ok (e : str * list str * list (list Q)) : Prop :=
  sid_ok (fst (fst e)) /\ Forall char_ok (snd (fst e))
  /\ (2 <= length (snd (fst e)))%nat /\ length (snd (fst e)) = length (snd e) /\ Forall (fun r => r <> []) (snd e).
Definition sblk_of (e : str * list str * list (list Q)) : block :=
  mk_block (scorer_tag (fst (fst e))) s_scorer (scorer_lines (snd (fst e)) (snd e)).

Lemma scorer_block_from : forall e a, scorer_ok e -> good a ->
  fold_left read_step (scorer_block e) a = frame a [sblk_of e].
Proof.
  intros [[id chars] m] a [SI [FC _]] [G1 G2]. cbn [fst snd] in *. unfold scorer_block. cbn [fst snd fold_left].
  destruct (scorer_tag_parse id SI) as [HD HK].
  assert (ST : read_step a (scorer_tag id)
               = mk_racc false (Some (scorer_tag id, s_scorer, [])) (ra_data a) (ra_blocks a) (ra_meta a)).
  { unfold read_step. rewrite G1, G2, HD, HK. reflexivity. }
  rewrite ST.
  change (scorer_lines chars m ++ [s_scorer_close; []]) with (scorer_lines chars m ++ [s_scorer_close] ++ [[]]).
  rewrite app_assoc, fold_left_app. rewrite scan_block_body; [| |reflexivity].
  - cbn [fold_left]. rewrite read_step_skip; [reflexivity|split; reflexivity|reflexivity].
  - unfold scorer_lines. apply Forall_forall. intros l I. apply in_map_iff in I. destruct I as [[c r] [<- I]]. cbn [fst snd].
    apply scorer_line_no_lt. rewrite Forall_forall in FC. apply FC. eapply in_combine_l; eauto.
Qed.

Lemma scorer_blocks_from : forall l a, Forall scorer_ok l -> good a ->
  fold_left read_step (concat (map scorer_block l)) a = frame a (rev (map sblk_of l)).
Proof.
  induction l as [|e l IH]; intros a F G.
  - cbn. destruct a as [er o d b mt]. destruct G as [G1 G2]. cbn in *. subst. reflexivity.
  - inversion F as [|? ? He Hr]; subst. cbn [map concat]. rewrite fold_left_app.
    rewrite scorer_block_from by assumption. rewrite IH; [|exact Hr|split; reflexivity].
    unfold frame. cbn [ra_data ra_blocks ra_meta map rev app]. rewrite <- app_assoc. reflexivity.
Qed.

Lemma scorer_section_from : forall l a, Forall scorer_ok l -> good a ->
  fold_left read_step (scorer_section l) a = frame a (rev (map sblk_of l)).
Proof.
  intros l a F G. destruct l as [|e l'].
  - cbn. destruct a as [er o d b mt]. destruct G as [G1 G2]. cbn in *. subst. reflexivity.
  - unfold scorer_section. cbn [fold_left].
    rewrite (read_step_skip a []) by (try exact G; reflexivity).
    rewrite (read_step_skip a s_scorer_hd) by (try exact G; reflexivity).
    apply scorer_blocks_from; assumption.
Qed.

(* ---- reading the blocks back ---- *)
Lemma chars_notab : forall chars, Forall char_ok chars -> Forall (fun c => ~ In 9 c) chars.
Proof. intros chars F. eapply Forall_impl; [|exact F]. intros c [_ [_ H]]. exact H. Qed.

Lemma read_scorers_cons : forall b rest keys i t ts,
  b_dtype b = s_scorer -> block_keys (b_head b) = Some keys -> assoc_last s_idk keys = Some i ->
  read_scorer_lines (b_body b) = Some t -> read_scorers rest = Ok ts ->
  read_scorers (b :: rest) = Ok ((i, t) :: ts).
Proof.
  intros b rest keys i t ts H1 H2 H3 H4 H5. cbn [read_scorers]. rewrite H1.
  change (str_eqb s_scorer s_scorer) with true. cbv iota. rewrite H2, H4, H5, H3. reflexivity.
Qed.

Lemma read_scorers_blocks : forall l rest R, Forall scorer_ok l -> read_scorers rest = Ok R ->
  read_scorers (map sblk_of l ++ rest)
  = Ok (map (fun e => (fst (fst e), combine (snd (fst e)) (map (map r2) (snd e)))) l ++ R).
Proof.
  induction l as [|[[id chars] m] l IH]; intros rest R F HR; [exact HR|].
  inversion F as [|? ? [SI [FC [L2 [LE NE]]]] Fr]; subst. cbn [fst snd] in *.
  destruct (scorer_tag_parse id SI) as [_ HK].
  cbn [map app fst snd].
  apply (read_scorers_cons _ _ [(s_idk, id)]).
  - reflexivity.
  - exact HK.
  - reflexivity.
  - apply scorer_block_roundtrip; [exact L2|exact LE|apply chars_notab, FC|exact NE].
  - apply IH; assumption.
Qed.

Lemma read_scorers_skip : forall b rest, str_eqb (b_dtype b) s_scorer = false -> read_scorers (b :: rest) = read_scorers rest.
Proof. intros b rest H. cbn [read_scorers]. rewrite H. reflexivity. Qed.
Lemma read_distances_skip : forall b rest last, str_eqb (b_dtype b) s_dst = false ->
  read_distances (b :: rest) last = read_distances rest last.
Proof. intros b rest last H. cbn [read_distances]. rewrite H. reflexivity. Qed.
Lemma read_msas_skip : forall b rest, str_eqb (b_dtype b) s_msa = false -> read_msas (b :: rest) = read_msas rest.
Proof. intros b rest H. cbn [read_msas]. rewrite H. reflexivity. Qed.

(* ---- THE WHOLE META PART: MSA sections, then the distances, then the scorers ---- *)
Definition dst_ok (d : list str * list (list Q)) : Prop :=
  length (fst d) = length (snd d) /\ Forall taxon_line_ok (fst d) /\ Forall (fun r => length r = length (snd d)) (snd d).
Definition meta_blocks l (dst : option (list str * list (list Q))) sc : list block :=
  blks_of l ++ (match dst with Some (taxa, m) => [mk_block s_dst_open s_dst (dst_lines taxa m)] | None => [] end)
  ++ map sblk_of sc.

Lemma scan_meta_part : forall l dst sc, Forall section_ok l ->
  match dst with Some d => dst_ok d | None => True end -> Forall scorer_ok sc ->
  scan (meta_part l dst sc) = mk_racc false None [] (rev (meta_blocks l dst sc)) [].
Proof.
  intros l dst sc FL FD FS. unfold scan, meta_part, meta_blocks.
  rewrite fold_left_app, scan_sections by (try exact FL; split; reflexivity).
  rewrite fold_left_app.
  destruct dst as [[taxa m]|].
  - destruct FD as [_ [FT _]]. cbn [fst snd] in FT.
    rewrite dst_section_from; [|eapply Forall_impl; [|exact FT]; intros t [_ H]; exact H|split; reflexivity].
    rewrite scorer_section_from; [|exact FS|split; reflexivity].
    unfold frame. cbn [racc0 ra_data ra_blocks ra_meta]. rewrite app_nil_r.
    rewrite !rev_app_distr. cbn [rev app]. rewrite <- !app_assoc. reflexivity.
  - cbn [fold_left]. rewrite scorer_section_from; [|exact FS|split; reflexivity].
    unfold frame. cbn [racc0 ra_data ra_blocks ra_meta app]. rewrite app_nil_r.
    rewrite !rev_app_distr. reflexivity.
Qed.

Lemma msa_blocks_dtype : forall l b, In b (blks_of l) -> b_dtype b = s_msa.
Proof.
  intros l b I. unfold blks_of in I. apply in_concat in I. destruct I as [x [Ix Ib]].
  apply in_map_iff in Ix. destruct Ix as [p [<- _]]. apply in_map_iff in Ib. destruct Ib as [e [<- _]]. reflexivity.
Qed.

Lemma skip_front : forall {A} (f : list block -> A) (bs rest : list block),
  (forall b r, In b bs -> f (b :: r) = f r) -> f (bs ++ rest) = f rest.
Proof.
  intros A f. induction bs as [|b bs IH]; intros rest H; [reflexivity|].
  cbn [app]. rewrite H by (left; reflexivity). apply IH. intros b' r I. apply H. right. exact I.
Qed.

Theorem meta_part_roundtrip : forall l dst sc, Forall section_ok l ->
  match dst with Some d => dst_ok d | None => True end -> Forall scorer_ok sc ->
  closed_pre (meta_part l dst sc)
  /\ (let bs := meta_blocks l dst sc in
      read_msas bs = Ok (expected_sections l)
      /\ read_distances bs None
         = Ok (match dst with Some (taxa, m) => Some (sym_upper (map (map r4) m)) | None => None end)
      /\ read_scorers bs
         = Ok (map (fun e => (fst (fst e), combine (snd (fst e)) (map (map r2) (snd e)))) sc)).
Proof.
  intros l dst sc FL FD FS. pose proof (scan_meta_part l dst sc FL FD FS) as S. split.
  - unfold closed_pre, good. rewrite S. repeat split.
  - cbv zeta. unfold meta_blocks. split; [|split].
    + (* msa: the dst and scorer blocks are skipped *)
      assert (TAIL : read_msas ((match dst with Some (taxa, m) => [mk_block s_dst_open s_dst (dst_lines taxa m)] | None => [] end)
                                ++ map sblk_of sc) = Ok []).
      { destruct dst as [[taxa m]|]; cbn [app]; [rewrite read_msas_skip by reflexivity|];
          (rewrite <- (app_nil_r (map sblk_of sc)); rewrite (skip_front read_msas); [reflexivity|];
           intros b r I; apply in_map_iff in I; destruct I as [e [<- _]]; apply read_msas_skip; reflexivity). }
      clear S. revert TAIL. generalize ((match dst with Some (taxa, m) => [mk_block s_dst_open s_dst (dst_lines taxa m)] | None => [] end) ++ map sblk_of sc).
      intros rest TAIL.
      rewrite <- (app_nil_r (expected_sections l)).
      clear FD FS. revert FL. induction l as [|[ref ms] l IH]; intros FL; [exact TAIL|].
      inversion FL as [|? ? [RO FE] Fr]; subst. cbn [fst snd] in *.
      unfold blks_of, expected_sections. cbn [map concat fst snd]. rewrite <- !app_assoc.
      apply read_msas_blocks_app; [exact RO|exact FE|]. apply IH, Fr.
    + rewrite (skip_front (fun bs => read_distances bs None)) by
        (intros b r I; apply read_distances_skip; rewrite (msa_blocks_dtype l b I); reflexivity).
      destruct dst as [[taxa m]|].
      * destruct FD as [LE [FT SQ]]. cbn [fst snd] in *. cbn [app read_distances b_dtype b_body].
        change (str_eqb s_dst s_dst) with true. cbv iota.
        rewrite dst_file_roundtrip; [|exact LE|eapply Forall_impl; [|exact FT]; intros t [H _]; exact H|exact SQ].
        rewrite <- (app_nil_r (map sblk_of sc)).
        rewrite (skip_front (fun bs => read_distances bs (Some (sym_upper (map (map r4) m))))); [reflexivity|].
        intros b r I. apply in_map_iff in I. destruct I as [e [<- _]]. apply read_distances_skip. reflexivity.
      * cbn [app]. rewrite <- (app_nil_r (map sblk_of sc)).
        rewrite (skip_front (fun bs => read_distances bs None)); [reflexivity|].
        intros b r I. apply in_map_iff in I. destruct I as [e [<- _]]. apply read_distances_skip. reflexivity.
    + rewrite (skip_front read_scorers) by
        (intros b r I; apply read_scorers_skip; rewrite (msa_blocks_dtype l b I); reflexivity).
      assert (SC : read_scorers (map sblk_of sc) = Ok (map (fun e => (fst (fst e), combine (snd (fst e)) (map (map r2) (snd e)))) sc)).
      { rewrite <- (app_nil_r (map sblk_of sc)). rewrite (read_scorers_blocks sc [] [] FS eq_refl). rewrite app_nil_r. reflexivity. }
      destruct dst as [[taxa m]|]; cbn [app]; [rewrite read_scorers_skip by reflexivity|]; exact SC.
Qed.

(* THE WHOLE FILE: rows, cognate sets of every reference column, distances (four decimals, upper triangle
   mirrored as read_qlc stores it) and scoring functions (two decimals) *)
Theorem full_file_roundtrip : forall tbl pretty stamp w l dst sc,
  wl_okb tbl w = true -> Forall section_ok l ->
  match dst with Some d => dst_ok d | None => True end -> Forall scorer_ok sc -> Forall skipline stamp ->
  exists ls blocks,
    write pretty (meta_part l dst sc) stamp w = Ok ls
    /\ read tbl ls = Ok (mk_wl (wl_cols w) (sorted_rows w))
    /\ (exists data meta, read_raw ls = Ok (data, blocks, meta))
    /\ read_msas blocks = Ok (expected_sections l)
    /\ read_distances blocks None
       = Ok (match dst with Some (taxa, m) => Some (sym_upper (map (map r4) m)) | None => None end)
    /\ read_scorers blocks = Ok (map (fun e => (fst (fst e), combine (snd (fst e)) (map (map r2) (snd e)))) sc).
Proof.
  intros tbl pretty stamp w l dst sc H FL FD FS FST.
  destruct (meta_part_roundtrip l dst sc FL FD FS) as [CP [R1 [R2 R3]]].
  destruct (file_roundtrip tbl pretty (meta_part l dst sc) stamp w H CP FST) as [ls [W R]].
  destruct (written_blocks _ _ _ _ _ W CP FST) as [data RR].
  rewrite (scan_meta_part l dst sc FL FD FS) in RR. cbn [ra_blocks ra_meta] in RR. rewrite rev_involutive in RR.
  exists ls, (meta_blocks l dst sc). split; [exact W|]. split; [exact R|].
  split; [exists data, (rev []); exact RR|]. split; [exact R1|]. split; [exact R2|exact R3].
Qed.
