(* C13 - the <msa> blocks of an aligned wordlist and the alignment state of an Alignments object.
     lingpy.convert.strings.msa2str(msa, wordlist=True)   (as called by basic.ops.wl2qlc for every cognate set)
     lingpy.read.qlc.read_qlc (dtype == 'msa') + _list2msa(header=False, ids=True)
     lingpy.align.sca.Alignments.add_alignments           (the state rebuilt from the columns)
   Strings are lists of code points.  Model only. *)
From Coq Require Import QArith ZArith List Bool.
From LV Require Import Wordlist.SerializeStr Wordlist.SerializeNum Wordlist.Serialize.
Import ListNotations.
Local Open Scope Z_scope.

Definition s_COLUMNID : str := [67; 79; 76; 85; 77; 78; 73; 68].
Definition s_LOCAL : str := [76; 79; 67; 65; 76].
Definition s_CROSSED : str := [67; 82; 79; 83; 83; 69; 68].
Definition s_SWAPS : str := [83; 87; 65; 80; 83].
Definition s_CONSENSUS : str := [67; 79; 78; 83; 69; 78; 83; 85; 83].
Definition s_consensus : str := [99; 111; 110; 115; 101; 110; 115; 117; 115].
Definition s_MERGE : str := [77; 69; 82; 71; 69].
Definition s_COMPLEX : str := [67; 79; 77; 80; 76; 69; 88].
Definition s_msa : str := [109; 115; 97].
Definition s_msa_close : str := [60; 47; 109; 115; 97; 62].                       (* </msa> *)
Definition s_msa_open : str := [60; 109; 115; 97; 32; 105; 100; 61; 34].         (* <msa id=QUOTE *)
Definition s_ref_attr : str := [34; 32; 114; 101; 102; 61; 34].                  (* QUOTE ref=QUOTE *)
Definition s_cons_attr : str := [34; 32; 99; 111; 110; 115; 101; 110; 115; 117; 115; 61; 34].
Definition s_tag_end : str := [34; 62].                                          (* QUOTE> *)
Definition s_msa_ref : str := [35; 32; 77; 83; 65; 32; 114; 101; 102; 101; 114; 101; 110; 99; 101; 58; 32].
Definition s_idk : str := [105; 100].
Definition s_refk : str := [114; 101; 102].
Definition s_zero : str := [48].
Definition s_gap : str := [45].
Definition s_plus : str := [43].
Definition s_star : str := [42].
Definition s_dot : str := [46].

(* one cognate set as the object holds it (what msa2str reads) *)
Record msa := mk_msa {
  m_ids : list Z;
  m_taxa : list str;
  m_alm : list (list str);                 (* aligned rows *)
  m_local : list nat;                      (* msa['local'] (absent = []) *)
  m_swaps : list (nat * nat * nat);        (* msa['swaps'] (absent = []) *)
  m_cons : option (list str) }.            (* msa['consensus'] (None = key absent) *)

(* ---- writer: msa2str(msa, wordlist=True) ---- *)
Definition ljust (w : nat) (s : str) : str := s ++ repeat 46 (w - length s).
(* formatter = max(len(t) for t in msa['taxa'] + ['COLUMNID']) *)
Definition fmt_width (taxa : list str) : nat := fold_right Nat.max 8%nat (map (@length Z) taxa).
(* '0\t' + NAME.ljust(w, '.') + '\t' + '\t'.join(cells) *)
Definition ann_line (w : nat) (name : str) (cells : list str) : str :=
  s_zero ++ 9 :: ljust w name ++ 9 :: join [9] cells.
(* '{0}\t{1}'.format(id, taxon.ljust(w, '.')) + '\t' + '\t'.join(row) *)
Definition msa_row_line (w : nat) (id : Z) (taxon : str) (row : list str) : str :=
  show_int id ++ 9 :: ljust w taxon ++ 9 :: join [9] row.

Definition msa_row_of (w : nat) (p : Z * str * list str) : str :=
  msa_row_line w (fst (fst p)) (snd (fst p)) (snd p).

Fixpoint upd {A} (i : nat) (x : A) (l : list A) : list A :=
  match l, i with
  | [], _ => []
  | _ :: r, O => x :: r
  | y :: r, S i' => y :: upd i' x r
  end.
Definition local_cells (n : nat) (local : list nat) : list str :=
  map (fun i => if existsb (Nat.eqb i) local then s_star else s_dot) (seq 0 n).
(* tmp = n * ['.']; for a, b, c in swaps: tmp[a] = '+'; tmp[b] = '-'; tmp[c] = '+' *)
Definition swap_cells (n : nat) (swaps : list (nat * nat * nat)) : list str :=
  fold_left (fun tmp s => let '(a, b, c) := s in upd c s_plus (upd b s_gap (upd a s_plus tmp)))
            swaps (repeat s_dot n).
(* mergeit with the identity merger: cell i receives item i; a cell longer than one character loses its '-';
   cells beyond the consensus stay empty (a consensus longer than the alignment raises KeyError: not modelled) *)
Definition merge_cell (s : str) : str :=
  if existsb (Z.eqb 45) s && (1 <? length s)%nat then filter (fun c => negb (c =? 45)) s else s.
Definition cons_cells (n : nat) (c : list str) : list str := map merge_cell c ++ repeat [] (n - length c).

Fixpoint zip3 {A B C} (a : list A) (b : list B) (c : list C) : list (A * B * C) :=
  match a, b, c with
  | x :: a', y :: b', z :: c' => (x, y, z) :: zip3 a' b' c'
  | _, _, _ => []
  end.

(* number of columns: len(c) of the last row written *)
Definition msa_n (m : msa) : nat := length (last (firstn (length (zip3 (m_ids m) (m_taxa m) (m_alm m))) (m_alm m)) []).
Definition same_lengthb (rows : list (list str)) : bool :=
  match rows with [] => true | r :: rest => forallb (fun x => (length x =? length r)%nat) rest end.

(* the text of one block (rows of different lengths, swap / consensus positions out of range: not modelled) *)
Definition msa_body (stamp : list str) (m : msa) : list str :=
  let w := fmt_width (m_taxa m) in
  let n := msa_n m in
  stamp ++ [35] :: ann_line w s_COLUMNID (map (fun i => show_nat (Z.of_nat (S i))) (seq 0 n)) :: [35]
  :: (if nullb (m_local m) then [] else [ann_line w s_LOCAL (local_cells n (m_local m))])
  ++ (if nullb (m_swaps m) then [] else [ann_line w s_CROSSED (swap_cells n (m_swaps m))])
  ++ (match m_cons m with
      | Some (x :: c) => [ann_line w s_CONSENSUS (cons_cells n (x :: c))]
      | _ => []
      end)
  ++ [35] :: map (msa_row_of w) (zip3 (m_ids m) (m_taxa m) (m_alm m)).

(* wl2qlc: a '#' line, the <msa id=.. ref=..> line (with a consensus attribute when the key is there), msa2str, </msa> *)
Definition attr (k v : str) : str := k ++ 61 :: 34 :: v ++ [34].                 (* k=QUOTE v QUOTE *)
Definition cons_attr (m : msa) : str :=
  match m_cons m with Some c => 32 :: attr s_consensus (join [32] c) | None => [] end.
(* what stands between '<' and '>' *)
Definition msa_tag (ref : str) (k : Z) (m : msa) : str :=
  s_msa ++ 32 :: attr s_idk (show_int k) ++ 32 :: attr s_refk ref ++ cons_attr m.
Definition msa_header (ref : str) (k : Z) (m : msa) : str := 60 :: msa_tag ref k m ++ [62].
Definition msa_block (ref : str) (e : Z * list str * msa) : list str :=
  let '(k, stamp, m) := e in [35] :: msa_header ref k m :: msa_body stamp m ++ [s_msa_close].
(* an empty line, the line '# MSA reference: {0}', the blocks *)
Definition msa_section (ref : str) (ms : list (Z * list str * msa)) : list str :=
  [] :: (s_msa_ref ++ ref) :: concat (map (msa_block ref) ms).

(* wl2qlc: for ref in msapairs: the section of that reference column *)
Definition msa_sections (l : list (str * list (Z * list str * msa))) : list str :=
  concat (map (fun p => msa_section (fst p) (snd p)) l).

(* ---- reader ---- *)
Record msa_read := mk_msa_read {
  r_ids : list Z;
  r_taxa : list str;
  r_alm : list (list str);
  r_seqs : list (list str);               (* the rows without '-' *)
  r_local : list nat;
  r_swaps : list (nat * nat * nat);
  r_cons : option (list str) }.
Definition msa_read0 : msa_read := mk_msa_read [] [] [] [] [] [] None.

Definition degap (row : list str) : list str := filter (fun s => negb (str_eqb s s_gap)) row.
(* [x.strip().rstrip('.') for x in l.split('\t')] *)
Definition msa_cells (l : str) : list str := map (fun x => rstrip_c 46 (strip x)) (split_on 9 l).
Definition kw_list : list str := [s_zero; s_LOCAL; s_CROSSED; s_SWAPS; s_MERGE; s_COMPLEX].

Fixpoint stars_from (j : nat) (cells : list str) : list nat :=
  match cells with
  | [] => []
  | x :: r => if str_eqb x s_star then j :: stars_from (S j) r else stars_from (S j) r
  end.
(* the while loop over the swap line; None = pop from an empty list *)
Fixpoint parse_swaps (j : nat) (cells : list str) : option (list (nat * nat * nat)) :=
  match cells with
  | [] => Some []
  | x :: r =>
      if str_eqb x s_plus then
        match r with
        | _ :: _ :: r' => option_map (cons (j, S j, S (S j))) (parse_swaps (S (S (S j))) r')
        | _ => None
        end
      else parse_swaps (S j) r
  end.

(* while values and values[-1] == '': values = values[:-1] *)
Fixpoint lstrip_empty (l : list str) : list str :=
  match l with [] => [] | x :: r => if nullb x then lstrip_empty r else l end.
Definition rstrip_empty (l : list str) : list str := rev (lstrip_empty (rev l)).

(* _list2msa(lines, header=False, ids=True); string ids and the MERGE / COMPLEX lines are not modelled *)
Fixpoint list2msa (lines : list (list str)) (a : msa_read) : res msa_read :=
  match lines with
  | [] => Ok a
  | line :: rest =>
      match line with
      | [] => Err
      | h :: tl1 =>
          if mem_str h kw_list then
            match tl1 with
            | [] => Err                                             (* line[idx]: IndexError *)
            | k :: vals =>
                if str_eqb k s_LOCAL then
                  list2msa rest (mk_msa_read (r_ids a) (r_taxa a) (r_alm a) (r_seqs a) (stars_from 0 vals) (r_swaps a) (r_cons a))
                else if str_eqb k s_CROSSED || str_eqb k s_SWAPS then
                  match parse_swaps 0 vals with
                  | Some sw => list2msa rest (mk_msa_read (r_ids a) (r_taxa a) (r_alm a) (r_seqs a) (r_local a) sw (r_cons a))
                  | None => Err
                  end
                else if str_eqb k s_COMPLEX || str_eqb k s_MERGE then list2msa rest a
                else if str_eqb (lower k) s_consensus then
                  (* values = line[idx+1:]; the CONSENSUS line loses the empty cells msa2str padded it with (1c54340) *)
                  list2msa rest (mk_msa_read (r_ids a) (r_taxa a) (r_alm a) (r_seqs a) (r_local a) (r_swaps a)
                                             (Some (if str_eqb k s_CONSENSUS then rstrip_empty vals else vals)))
                else list2msa rest a                                (* d[line[idx].lower()] = ...: 'columnid' etc. *)
            end
          else
            match parse_int h, tl1 with
            | Some id, t :: vals =>
                list2msa rest (mk_msa_read (r_ids a ++ [id]) (r_taxa a ++ [rstrip_c 46 t]) (r_alm a ++ [vals])
                                           (r_seqs a ++ [degap vals]) (r_local a) (r_swaps a) (r_cons a))
            | _, _ => Err
            end
      end
  end.

(* the lines of one block as read_qlc hands them to _list2msa: comment lines dropped, an empty block is one empty line *)
Definition msa_lines (body : list str) : list (list str) :=
  map msa_cells (filter (fun l => negb (starts 35 l)) (match body with [] => [[]] | _ => body end)).
Definition read_msa_body (body : list str) : res msa_read := list2msa (msa_lines body) msa_read0.

(* meta['msa'][ref][int(id)] for every <msa> block, in file order *)
Fixpoint read_msas (blocks : list block) : res (list (str * Z * msa_read)) :=
  match blocks with
  | [] => Ok []
  | b :: rest =>
      if str_eqb (b_dtype b) s_msa then
        match block_keys (b_head b) with
        | Some keys =>
            match assoc_last s_idk keys with
            | Some idv =>
                match parse_int idv, read_msa_body (b_body b), read_msas rest with
                | Some k, Ok m, Ok ms =>
                    Ok ((match assoc_last s_refk keys with Some r => r | None => c_cogid end, k, m) :: ms)
                | _, _, _ => Err
                end
            | None => Err
            end
        | None => Err
        end
      else read_msas rest
  end.
Definition read_msa_section (lines : list str) : res (list (str * Z * msa_read)) :=
  match read_raw lines with
  | Ok (_, blocks, _) => read_msas blocks
  | Err => Err
  end.

(* the guard of C13_msa_roundtrip *)
Definition seg_okb (s : str) : bool := item_okb s && negb (last s 0 =? 46).
(* a consensus segment also goes into the tag (no quote, no '>') and through mergeit (no '-' inside a longer cell) *)
Definition cons_seg_okb (s : str) : bool :=
  seg_okb s && negb (existsb (fun c => (c =? 34) || (c =? 62)) s)
  && negb (existsb (Z.eqb 45) s && (1 <? length s)%nat).
Definition taxon_okb (t : str) : bool := clean_strb t && negb (last t 0 =? 46).
Fixpoint incr_fromb (lo : nat) (l : list nat) : bool :=
  match l with [] => true | x :: r => (lo <=? x)%nat && incr_fromb (S x) r end.
Fixpoint swaps_okb (lo n : nat) (l : list (nat * nat * nat)) : bool :=
  match l with
  | [] => true
  | (a, b, c) :: r => (lo <=? a)%nat && (b =? S a)%nat && (c =? S (S a))%nat && (c <? n)%nat && swaps_okb (S c) n r
  end.
Definition msa_okb (m : msa) : bool :=
  let n := length (hd [] (m_alm m)) in
  (length (m_ids m) =? length (m_alm m))%nat && (length (m_taxa m) =? length (m_alm m))%nat
  && negb (nullb (m_alm m)) && (1 <=? n)%nat
  && forallb (fun r => (length r =? n)%nat && forallb seg_okb r) (m_alm m)
  && forallb taxon_okb (m_taxa m) && forallb (fun i => negb (i =? 0)) (m_ids m)
  && incr_fromb 0 (m_local m) && forallb (fun i => (i <? n)%nat) (m_local m)
  && swaps_okb 0 n (m_swaps m)
  && match m_cons m with
     | None => true
     | Some c => (1 <=? length c)%nat && (length c <=? n)%nat && forallb cons_seg_okb c
                 (* a non-empty consensus, not longer than the alignment (msa2str raises on a longer one) *)
     end.

(* what a block must come back as *)
Definition expected_read (m : msa) : msa_read :=
  mk_msa_read (m_ids m) (m_taxa m) (m_alm m) (map degap (m_alm m)) (m_local m) (m_swaps m) (m_cons m).

(* ---- the state Alignments.add_alignments rebuilds from the columns ---- *)
Fixpoint nodup_nat (l : list nat) : list nat :=
  match l with [] => [] | x :: r => if existsb (Nat.eqb x) r then nodup_nat r else x :: nodup_nat r end.
(* read.qlc.normalize_alignment: rows that ALL consist of one cell are taken for unsegmented strings and split at
   blanks (a blank-free segment stays one cell); the rows are padded with '-' to the longest; the columns that are all
   gaps are deleted *)
Definition pad_row (n : nat) (r : list str) : list str := r ++ repeat s_gap (n - length r).
Definition split_single_cells (rows : list (list str)) : list (list str) :=
  if forallb (fun r => (length r =? 1)%nat) rows then map (fun r => split_on 32 (hd [] r)) rows else rows.
Definition normalize_alignment (rows0 : list (list str)) : list (list str) :=
  let rows := split_single_cells rows0 in
  let n := fold_right Nat.max O (map (@length str) rows) in
  let padded := if (1 <? length (nodup_nat (map (@length str) rows)))%nat then map (pad_row n) rows else rows in
  let keep := filter (fun j => negb (forallb (fun r => str_eqb (nth j r []) s_gap) padded)) (seq 0 n) in
  map (fun r => map (fun j => nth j r []) keep) padded.

Definition cell_int (v : cell) : option Z := match v with VInt z => Some z | _ => None end.
Definition cell_strs (v : cell) : list str := match v with VList l => l | VStr s => split_on 32 s | _ => [] end.
(* the rows of cognate set k in doculect t, in _data order: etd[k][cols.index(t)] *)
Definition selc (cols : list str) (ref : str) (rows : list row) (k : Z) (t : str) : list row :=
  filter (fun r => match cell_int (get_col cols ref r) with Some z => z =? k | None => false end
                   && cell_is t (get_col cols s_doculect r)) rows.

Section Rebuild.
  Variable cols : list str.
  Variable Sel : Z -> str -> list row.
  Variable taxa : list str.                (* self.cols *)

  Definition alm_source (r : row) : list str :=
    match index_of c_alignment cols with
    | Some _ => cell_strs (get_col cols c_alignment r)
    | None => cell_strs (get_col cols c_tokens r)
    end.
  (* tmp = the cells of etd[k] in doculect order; seqids += sorted(t)  (246780d: the words of one doculect in id order) *)
  Definition members (k : Z) : list row := flat_map (fun t => isort id_leb (Sel k t)) taxa.
  Definition doculect_of (r : row) : str := match get_col cols s_doculect r with VStr s => s | _ => [] end.
  (* None: fewer than two words, or the key 0 *)
  Definition rebuild_one (k : Z) : option msa_read :=
    let ms := members k in
    if (k =? 0) || (length ms <? 2)%nat then None
    else Some (mk_msa_read (map fst ms) (map doculect_of ms)
                           (normalize_alignment (map alm_source ms))
                           (map (fun r => degap (alm_source r)) ms) [] [] None).
  Definition rebuild (cogids : list Z) : list (Z * msa_read) :=
    flat_map (fun k => match rebuild_one k with Some m => [(k, m)] | None => [] end) cogids.
End Rebuild.

Definition alignments_state (cols : list str) (ref : str) (taxa : list str) (cogids : list Z) (rows : list row)
  : list (Z * msa_read) :=
  rebuild cols (selc cols ref rows) taxa cogids.

(* ------------------------------------------------------------------ *)
(* the <dst> and <scorer> blocks inside the file (wl2qlc after the MSA sections; read_qlc) *)
Definition s_dst : str := [100; 115; 116].
Definition s_scorer : str := [115; 99; 111; 114; 101; 114].
Definition s_dst_open : str := [60; 100; 115; 116; 62].                          (* <dst> *)
Definition s_dst_close : str := [60; 47; 100; 115; 116; 62].                     (* </dst> *)
Definition s_distances : str := [35; 32; 68; 73; 83; 84; 65; 78; 67; 69; 83].    (* # DISTANCES *)
Definition s_scorer_hd : str := [35; 32; 83; 67; 79; 82; 69; 82].                (* # SCORER *)
Definition s_scorer_close : str := [60; 47; 115; 99; 111; 114; 101; 114; 62].    (* </scorer> *)
Definition s_basic : str := [98; 97; 115; 105; 99].

(* an empty line, '# DISTANCES', '<dst>', matrix2dst(...), '</dst>' *)
Definition dst_section (taxa : list str) (m : list (list Q)) : list str :=
  [] :: s_distances :: s_dst_open :: dst_lines taxa m ++ [s_dst_close].
(* per scorer: the tag with its id, scorer2str(...), '</scorer>', an empty line *)
Definition scorer_tag (id : str) : str := 60 :: (s_scorer ++ 32 :: attr s_idk id) ++ [62].
Definition scorer_block (e : str * list str * list (list Q)) : list str :=
  scorer_tag (fst (fst e)) :: scorer_lines (snd (fst e)) (snd e) ++ [s_scorer_close; []].
Definition scorer_section (l : list (str * list str * list (list Q))) : list str :=
  match l with
  | [] => []
  | _ :: _ => [] :: s_scorer_hd :: concat (map scorer_block l)
  end.

(* meta['distances']: the last <dst> block; meta['scorer'][id] for every <scorer> block *)
Fixpoint read_distances (blocks : list block) (last : option (list (list Q))) : res (option (list (list Q))) :=
  match blocks with
  | [] => Ok last
  | b :: rest =>
      if str_eqb (b_dtype b) s_dst then
        match read_dst_block (b_body b) with
        | Some m => read_distances rest (Some m)
        | None => Err
        end
      else read_distances rest last
  end.
Fixpoint read_scorers (blocks : list block) : res (list (str * list (str * list Q))) :=
  match blocks with
  | [] => Ok []
  | b :: rest =>
      if str_eqb (b_dtype b) s_scorer then
        match block_keys (b_head b), read_scorer_lines (b_body b), read_scorers rest with
        | Some keys, Some t, Ok ts =>
            Ok ((match assoc_last s_idk keys with Some i => i | None => s_basic end, t) :: ts)
        | _, _, _ => Err
        end
      else read_scorers rest
  end.

(* the meta part of a file as wl2qlc orders it: MSA sections, distances, scorers *)
Definition meta_part (l : list (str * list (Z * list str * msa))) (dst : option (list str * list (list Q)))
                     (sc : list (str * list str * list (list Q))) : list str :=
  msa_sections l ++ (match dst with Some (taxa, m) => dst_section taxa m | None => [] end) ++ scorer_section sc.
