(* The accessors of Wordlist / QLCParserWithRowsAndCols (get_list, get_dict,
   get_entries, get_etymdict, iter_rows, len, wl[id, column]) and add_entries,
   over the state built in Rows.v / Index.v.  Model only.

   Every accessor returns cells: an id i is returned as [Atom i], the integer
   0 that marks an empty slot as [Atom 0]. *)
From Coq Require Import ZArith List Bool String.
From LV Require Import Wordlist.Rows Wordlist.Index.
Import ListNotations.
Local Open Scope Z_scope.

Definition POISON : cell := Atom (-1000000).   (* a lookup that Python would answer with an exception *)

(* self[id] / self[id][k] *)
Definition row_of (D : list row) (id : Z) : option (list cell) :=
  match find (fun r => fst r =? id) D with Some r => Some (snd r) | None => None end.
Definition cell_at (D : list row) (id : Z) (k : nat) : cell :=
  match row_of D id with Some cs => nth k cs POISON | None => POISON end.
Definition key_at (D : list row) (id : Z) (k : nat) : Z :=
  match cell_at D id k with Atom z => z | Multi _ => -1000000 end.

(* what is reported for the id in an array slot: the id itself (entry=''),
   or the cell of that row in column k, or 0 for an empty slot *)
Definition ent (D : list row) (e : option nat) (id : Z) : cell :=
  match e with
  | None => Atom id
  | Some k => if id =? 0 then Atom 0 else cell_at D id k
  end.

Definition nonzero (l : list Z) : list Z := filter (fun i => negb (i =? 0)) l.
Definition sel_rows (A : list (list Z)) (is : list nat) : list (list Z) := map (fun i => nth i A []) is.
Definition column (A : list (list Z)) (j : nat) : list Z := map (fun r => nth j r 0) A.

Section Views.
  Variables (D : list row) (ri ci : nat) (X : index).

  (* get_list(row=c, entry=e, flat=False).  None: ValueError / KeyError *)
  Definition block_of (c : Z) : option (list (list Z)) :=
    if zmem c (x_rows X) then
      match zget (x_idx X) c with
      | Some is => Some (sel_rows (x_array X) is)
      | None => None
      end
    else None.
  Definition get_list_row (c : Z) (e : option nat) : option (list (list cell)) :=
    option_map (map (map (ent D e))) (block_of c).
  (* flat=True: [.. for i in data.flatten() if i != 0] *)
  Definition get_list_row_flat (c : Z) (e : option nat) : option (list cell) :=
    option_map (fun b => map (ent D e) (nonzero (List.concat b))) (block_of c).

  (* get_list(col=l, ...): data = self._array[:, self.cols.index(col)] *)
  Definition col_of (l : Z) : option (list Z) :=
    if zmem l (x_cols X) then option_map (column (x_array X)) (index_of l (x_cols X)) else None.
  Definition get_list_col (l : Z) (e : option nat) : option (list cell) :=
    option_map (map (ent D e)) (col_of l).
  Definition get_list_col_flat (l : Z) (e : option nat) : option (list cell) :=
    option_map (fun c => map (ent D e) (nonzero c)) (col_of l).

  (* get_dict(row=c, entry=e): self._dict[c], values mapped through the entry *)
  Definition get_dict_row (c : Z) (e : option nat) : option (list (Z * list cell)) :=
    if zmem c (x_rows X) then
      option_map (map (fun lv => (fst lv, map (ent D e) (snd lv)))) (zget (x_dict X) c)
    else None.

  (* get_dict(col=l, entry=e): ids of the array column grouped by the concept
     cell of their row, in order of first occurrence *)
  Definition get_dict_col (l : Z) (e : option nat) : option (list (Z * list cell)) :=
    option_map (fun c =>
      map (fun kv => (fst kv, map (ent D e) (snd kv)))
          (fold_left (fun d id => ld_add d (key_at D id ri) id) (nonzero c) []))
      (col_of l).

  (* get_entries(entry) *)
  Definition get_entries (k : nat) : list (list cell) := map (map (ent D (Some k))) (x_array X).

  (* iter_rows: one list per row, the id followed by the requested cells *)
  Definition iter_rows (es : list nat) : list (Z * list cell) :=
    map (fun r => (fst r, map (fun k => nth k (snd r) POISON) es)) D.

  Definition wl_len : nat := List.length D.

  (* get_etymdict(ref): cognate id -> one slot per column of cols; the slot is
     0 ([] here) or the list of ids *)
  Definition cogs_of (c : cell) : list Z := match c with Atom z => [z] | Multi l => l end.
  Definition etym := list (Z * list (list Z)).
  Fixpoint upd {A} (j : nat) (x : A) (l : list A) : list A :=
    match l, j with
    | [], _ => []
    | _ :: t, O => x :: t
    | y :: t, S j' => y :: upd j' x t
    end.
  Definition etym_add (w : nat) (E : etym) (cog : Z) (j : nat) (id : Z) : etym :=
    let v := match zget E cog with Some v => v | None => repeat [] w end in
    zset E cog (upd j (nth j v [] ++ [id]) v).
  Definition get_etymdict (ref : nat) : etym :=
    fold_left (fun E r =>
      match index_of (key_at D (fst r) ci) (x_cols X) with
      | None => E                         (* ValueError; shown not to happen *)
      | Some j => fold_left (fun E cog => etym_add (List.length (x_cols X)) E cog j (fst r))
                            (cogs_of (nth ref (snd r) POISON)) E
      end) D [].
  Definition get_etymdict_entry (ref : nat) (e : option nat) : list (Z * list (list cell)) :=
    map (fun kv => (fst kv, map (map (ent D e)) (snd kv))) (get_etymdict ref).
End Views.

(* ---------------------------------------------- vocabulary of the theorems *)
(* the name in column k of a row (concept: k = _rowIdx, language: k = _colIdx) *)
Definition rkey (k : nat) (r : row) : Z :=
  match nth k (snd r) POISON with Atom z => z | Multi _ => -1000000 end.
Definition mkp (ri ci : nat) (r : row) : prow :=
  {| pid := fst r; pconc := rkey ri r; plang := rkey ci r; pcells := snd r |}.
(* what an accessor reports for a row: its id (entry='') or its cell in column k *)
Definition ent_row (e : option nat) (r : row) : cell :=
  match e with None => Atom (fst r) | Some k => nth k (snd r) POISON end.
Definition etym_slot (E : etym) (cog : Z) (j : nat) : list Z :=
  match zget E cog with Some v => nth j v [] | None => [] end.
(* the cognate ids a row carries in column ref *)
Definition carried (ref : nat) (r : row) : list Z := cogs_of (nth ref (snd r) POISON).
(* distinct values in order of first occurrence (the key order of a Python dict filled in that order) *)
Definition first_occ (l : list Z) : list Z :=
  fold_left (fun acc x => if zmem x acc then acc else acc ++ [x]) l [].

Definition is_nil {A} (l : list A) : bool := match l with [] => true | _ => false end.
(* the rows of one cell (concept c, language l), in row order *)
Definition cellrows (D : list row) (ri ci : nat) (c l : Z) : list row :=
  filter (fun r => (rkey ri r =? c) && (rkey ci r =? l)) D.

(* the number of array lines of a concept: the size of its fullest cell *)
Definition height_of (D : list row) (ri ci : nat) (cols : list Z) (c : Z) : nat :=
  fold_right Nat.max O (map (fun l => List.length (cellrows D ri ci c l)) cols).

(* ------------------------------------------------------ the whole object *)
(* the names of the two dimensions (_row_name, _col_name: alias-resolved) and _meta *)
Record dims := { d_rown : string; d_coln : string; d_meta : list (string * cell) }.

Record wl := {
  w_names : names;
  w_ri : nat; w_ci : nat;           (* _rowIdx, _colIdx *)
  w_data : list row;                (* _data *)
  w_index : index;
  w_dims : dims
}.

(* Wordlist(dict, row=row, col=col): None when the constructor raises or the
   input is outside the model (names that are not non-empty strings).  [meta]:
   the non-integer keys of the dictionary (a list of names is a Multi cell).
   Wordlist.__init__ finally stores the language list under _alias['taxa']
   unless the metadata already has that key. *)
Definition build_gen (t : conf) (K : keys) (hdr : list string) (d : list row)
           (row col : string) (meta : list (string * cell)) : option wl :=
  match init_names t hdr with
  | None => None
  | Some n =>
      match resolve_item n row, resolve_item n col with
      | Some ri, Some ci =>
          let data := keep_rows d in
          match data with
          | [] => None
          | _ =>
            match to_prows (List.length (n_header n)) ri ci data with
            | None => None
            | Some P =>
                let X := build_index K P in
                let meta' := match sget (n_alias n) "taxa" with
                             | Some nm => if smem meta nm then meta else meta ++ [(nm, Multi (x_cols X))]
                             | None => meta
                             end in
                Some {| w_names := n; w_ri := ri; w_ci := ci; w_data := data; w_index := X;
                        w_dims := {| d_rown := match sget (n_alias n) row with Some x => x | None => row end;
                                     d_coln := match sget (n_alias n) col with Some x => x | None => col end;
                                     d_meta := meta' |} |}
            end
          end
      | _, _ => None
      end
  end.

(* Wordlist(file): read_qlc delivers the lower-cased header and the rows as
   strings; QLCParser.__init__ converts every column with the class of its
   header name; everything else is the dictionary constructor *)
Definition load_file (t : conf) (kinds : list ((string * list string) * kind)) (K : keys)
           (hdr : list string) (d : list (Z * list raw)) (row col : string) (meta : list (string * cell))
  : option wl :=
  match convert_rows (read_kinds kinds) hdr d with
  | Some typed => build_gen t K hdr typed row col meta
  | None => None
  end.

Definition build (t : conf) (K : keys) (hdr : list string) (d : list row) : option wl :=
  build_gen t K hdr d "concept" "doculect" [].

(* add_entries(entry, source, f, override) with a single source column.
   [Some None] is not produced; None = raises, or the interactive "override?"
   question would be asked (outside the model). *)
Definition app_col (f : cell -> cell) (src : nat) (d : list row) : list row :=
  map (fun r => (fst r, snd r ++ [f (nth src (snd r) POISON)])) d.
Definition set_col (f : cell -> cell) (src tgt : nat) (d : list row) : list row :=
  map (fun r => (fst r, upd tgt (f (nth src (snd r) POISON)) (snd r))) d.

Definition add_entries (w : wl) (entry source : string) (f : cell -> cell) (override : bool) : option wl :=
  if String.eqb entry "" then None else
  let n := w_names w in
  (* "if lentry not in self._header and override" / "if lentry in self._header and not override":
     the lower-cased name is looked up among all reachable spellings *)
  let in_header := smem (n_hdr n) (lower entry) in
  let override := if negb in_header && override then false else override in
  if in_header && negb override then None                    (* confirm(...) *)
  else if override then
    match sget (n_hdr n) source, sget (n_hdr n) (lower entry) with
    | Some src, Some tgt =>
        Some {| w_names := n; w_ri := w_ri w; w_ci := w_ci w;
                w_data := set_col f src tgt (w_data w); w_index := w_index w; w_dims := w_dims w |}
    | _, _ => None
    end
  else
    match add_name n entry with
    | None => None
    | Some (n', _) =>
        match sget (n_hdr n') source with
        | None => None
        | Some src => Some {| w_names := n'; w_ri := w_ri w; w_ci := w_ci w;
                              w_data := app_col f src (w_data w); w_index := w_index w; w_dims := w_dims w |}
        end
    end.

(* wl[id, name] = v  (__setitem__): KeyError when the id or the name is unknown *)
Definition set_cell (w : wl) (id : Z) (s : string) (v : cell) : option wl :=
  match resolve_item (w_names w) s, row_of (w_data w) id with
  | Some k, Some _ =>
      Some {| w_names := w_names w; w_ri := w_ri w; w_ci := w_ci w;
              w_data := map (fun r => if fst r =? id then (fst r, upd k v (snd r)) else r) (w_data w);
              w_index := w_index w; w_dims := w_dims w |}
  | _, _ => None
  end.

(* name-level accessors: the entry argument is a string looked up in _header;
   '' selects the ids *)
Definition entry_arg (w : wl) (s : string) : option (option nat) :=
  if String.eqb s "" then Some None
  else match resolve_hdr (w_names w) s with Some k => Some (Some k) | None => None end.

(* wl[id, s] for every row, in row order; None when the lookup yields None *)
Definition getitem_col (w : wl) (s : string) : option (list cell) :=
  match resolve_item (w_names w) s with
  | Some k => Some (map (fun r => nth k (snd r) POISON) (w_data w))
  | None => None
  end.

(* attribute access wl.<s> (__getattr__): a column alias wins over metadata:
   the row dimension gives rows, the column dimension cols, any other column
   its entry table; only then the metadata; else AttributeError *)
Inductive attr_res :=
| AList (l : list Z)                 (* a flat list of names (rows, cols, or a metadata list) *)
| ATable (t : list (list cell))      (* get_entries *)
| AAtom (z : Z)                      (* a metadata string / number *)
| AErr.                              (* AttributeError *)

Definition get_attr (w : wl) (s : string) : attr_res :=
  let meta_or_err := match sget (d_meta (w_dims w)) s with
                     | Some (Multi l) => AList l
                     | Some (Atom z) => AAtom z
                     | None => AErr
                     end in
  match sget (n_alias (w_names w)) s with
  | Some n =>
      if String.eqb n (d_rown (w_dims w)) then AList (x_rows (w_index w))
      else if String.eqb n (d_coln (w_dims w)) then AList (x_cols (w_index w))
      else match sget (n_hdr (w_names w)) n with
           | Some k => ATable (get_entries (w_data w) (w_index w) k)
           | None => meta_or_err
           end
  | None => meta_or_err
  end.

(* get_list(s=v, flat=True) with a keyword s other than row, col: the keyword is resolved through the aliases
   to one of the two dimensions; None: ValueError *)
Definition kw_list (w : wl) (s : string) (v : Z) : option (list cell) :=
  match sget (n_alias (w_names w)) s with
  | Some n =>
      if String.eqb n (d_coln (w_dims w)) then get_list_col_flat (w_data w) (w_index w) v None
      else if String.eqb n (d_rown (w_dims w)) then get_list_row_flat (w_data w) (w_index w) v None
      else None
  | None => None
  end.
