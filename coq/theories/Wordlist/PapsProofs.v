(* C17, presence/absence patterns: get_paps marks a language present exactly
   when it has a word in the set, missing exactly when it has no word for the
   set's (single) concept, absent otherwise. *)
From Coq Require Import ZArith List Bool Lia Arith.
From LV Require Import Wordlist.Rows Wordlist.RowsProofs Wordlist.Index Wordlist.IndexProofs
     Wordlist.Views Wordlist.ViewsProofs Wordlist.Paps.
Import ListNotations.
Local Open Scope Z_scope.

(* ------------------------------------------------------------ zdedup *)
Lemma zdedup_In l x : In x (zdedup l) <-> In x l.
Proof.
  induction l as [|a t IH]; cbn [zdedup]; [tauto|].
  destruct (zmem a t) eqn:E.
  - rewrite IH. cbn [In]. split; [auto|]. intros [->|H]; [apply zmem_In; exact E|exact H].
  - cbn [In]. rewrite IH. tauto.
Qed.

Lemma zdedup_NoDup l : NoDup (zdedup l).
Proof.
  induction l as [|a t IH]; cbn [zdedup]; [constructor|].
  destruct (zmem a t) eqn:E; [exact IH|]. constructor; [|exact IH].
  rewrite zdedup_In. intros H. apply zmem_In in H. congruence.
Qed.

Definition single (l : list Z) : option Z := match zdedup l with [m] => Some m | _ => None end.

Lemma single_spec l m : single l = Some m <-> (In m l /\ forall x, In x l -> x = m).
Proof.
  unfold single. pose proof (zdedup_In l) as I. pose proof (zdedup_NoDup l) as N.
  destruct (zdedup l) as [|a [|b t]].
  - split; [discriminate|]. intros [H _]. apply I in H. destruct H.
  - split.
    + intros H. inversion H. subst a. split; [apply I; left; reflexivity|].
      intros x Hx. apply I in Hx. destruct Hx as [->|[]]. reflexivity.
    + intros [H1 H2]. f_equal. apply H2. apply I. left. reflexivity.
  - split; [discriminate|]. intros [_ H2]. exfalso.
    assert (a = m) by (apply H2, I; left; reflexivity).
    assert (b = m) by (apply H2, I; right; left; reflexivity).
    subst. inversion N as [|? ? Hn _]. apply Hn. left. reflexivity.
Qed.

Lemma single_ext l1 l2 : (forall x, In x l1 <-> In x l2) -> single l1 = single l2.
Proof.
  intros E. destruct (single l1) as [m|] eqn:E1.
  - symmetry. apply single_spec. apply single_spec in E1. destruct E1 as [H1 H2].
    split; [apply E; exact H1|]. intros x Hx. apply H2, E. exact Hx.
  - destruct (single l2) as [m|] eqn:E2; [|reflexivity].
    apply single_spec in E2. destruct E2 as [H1 H2].
    assert (C : single l1 = Some m).
    { apply single_spec. split; [apply E; exact H1|]. intros x Hx. apply H2, E. exact Hx. }
    congruence.
Qed.

(* ------------------------------------------------------------ sums *)
Lemma zsum_nonneg l : (forall x, In x l -> 0 <= x) -> 0 <= zsum l.
Proof.
  induction l as [|a t IH]; intros H; cbn [zsum fold_right]; [lia|].
  fold (zsum t). specialize (H a (or_introl eq_refl)) as Ha. specialize (IH (fun x Hx => H x (or_intror Hx))). lia.
Qed.

Lemma zsum_pos_nil l : (forall x, In x l -> 0 < x) -> (zsum l =? 0) = is_nil l.
Proof.
  intros H. destruct l as [|a t]; [reflexivity|]. cbn [is_nil zsum fold_right]. fold (zsum t).
  apply Z.eqb_neq. pose proof (H a (or_introl eq_refl)).
  pose proof (zsum_nonneg t (fun x Hx => Z.lt_le_incl _ _ (H x (or_intror Hx)))). lia.
Qed.

Lemma zsum_app a b : zsum (a ++ b) = zsum a + zsum b.
Proof. induction a as [|x t IH]; cbn [app zsum fold_right]; [reflexivity|]. fold (zsum (t ++ b)) (zsum t). rewrite IH. lia. Qed.

Lemma zsum_pad (S : list Z) m : (length S <= m)%nat -> zsum (map (fun k => nth k S 0) (seq 0 m)) = zsum S.
Proof.
  intros L. replace m with (length S + (m - length S))%nat by lia.
  rewrite seq_app, map_app, zsum_app, map_nth_seq. cbn [plus].
  assert (G : forall n a, (length S <= a)%nat -> zsum (map (fun k => nth k S 0) (seq a n)) = 0).
  { induction n as [|n IHn]; intros a La; [reflexivity|]. cbn [seq map zsum fold_right].
    fold (zsum (map (fun k => nth k S 0) (seq (Datatypes.S a) n))). rewrite (nth_overflow S 0 La), IHn by lia. reflexivity. }
  rewrite G by lia. lia.
Qed.

Lemma combine_map {A B C} (g : A -> B) (h : A -> C) (l : list A) :
  combine (map g l) (map h l) = map (fun x => (g x, h x)) l.
Proof. induction l as [|a t IH]; [reflexivity|]. cbn [map combine]. rewrite IH. reflexivity. Qed.

Lemma map_nth_seq_Z (l : list Z) : map (fun j => nth j l 0) (seq 0 (length l)) = l.
Proof. apply map_nth_seq. Qed.

Lemma is_nil_app {A} (a b : list A) : is_nil (a ++ b) = is_nil a && is_nil b.
Proof. destruct a; reflexivity. Qed.
Lemma is_nil_map {A B} (f : A -> B) (l : list A) : is_nil (map f l) = is_nil l.
Proof. destruct l; reflexivity. Qed.

Lemma all_some_snd_map {A B C} (f : A * B -> option C) (g : A * B -> C) (E : list (A * B)) :
  (forall kv, In kv E -> f kv = Some (g kv)) ->
  all_some_snd (map (fun kv => (fst kv, f kv)) E) = Some (map (fun kv => (fst kv, g kv)) E).
Proof.
  induction E as [|kv t IH]; intros H; [reflexivity|]. cbn [map all_some_snd].
  rewrite (H kv (or_introl eq_refl)). rewrite IH by (intros x Hx; apply H; right; exact Hx). reflexivity.
Qed.

Lemma spec_is_nil D ci ref cog l :
  is_nil (etym_spec D ci ref cog l) = negb (existsb (fun r => (rkey ci r =? l) && zmem cog (carried ref r)) D).
Proof.
  unfold etym_spec. induction D as [|r t IH]; [reflexivity|]. cbn [flat_map existsb].
  rewrite is_nil_app, negb_orb, IH. f_equal.
  destruct (rkey ci r =? l); cbn [andb]; [|reflexivity].
  destruct (zmem cog (carried ref r)) eqn:E.
  - apply zmem_In in E. apply (count_occ_In Z.eq_dec) in E.
    destruct (count_occ Z.eq_dec (carried ref r) cog); [lia|reflexivity].
  - assert (N : ~ In cog (carried ref r)) by (intros H; apply zmem_In in H; congruence).
    apply (count_occ_not_In Z.eq_dec) in N. rewrite N. reflexivity.
Qed.

Lemma spec_In D ci ref cog l id : In id (etym_spec D ci ref cog l) <->
  exists r, In r D /\ fst r = id /\ rkey ci r = l /\ In cog (carried ref r).
Proof.
  unfold etym_spec. rewrite in_flat_map. split.
  - intros [r [Hr Hin]]. destruct (rkey ci r =? l) eqn:E; [|destruct Hin].
    apply Z.eqb_eq in E. pose proof (repeat_spec _ _ _ Hin) as Ei. exists r. repeat split; auto.
    apply (count_occ_In Z.eq_dec). destruct (count_occ Z.eq_dec (carried ref r) cog); [destruct Hin|lia].
  - intros [r [Hr [E1 [E2 Hc]]]]. exists r. split; [exact Hr|]. rewrite E2, Z.eqb_refl.
    apply (count_occ_In Z.eq_dec) in Hc. destruct (count_occ Z.eq_dec (carried ref r) cog); [lia|]. left. exact E1.
Qed.


(* -------------------------------------------------------------- paps *)
Section PapsWF.
  Variables (K : keys) (D : list row) (ri ci : nat).
  Hypothesis ids_distinct : NoDup (map fst D).
  Hypothesis ids_pos : forall r, In r D -> 0 < fst r.
  Hypothesis langs_inj : key_inj K (map (rkey ci) D).

  Let P := map (mkp ri ci) D.
  Let X := build_index K P.

  (* the line of a cognate set in the etymological dictionary *)
  Lemma etym_line ref cog slots : In (cog, slots) (get_etymdict D ci X ref) ->
    slots = map (etym_spec D ci ref cog) (x_cols X).
  Proof.
    intros Hin.
    pose proof (etymdict_width K D ri ci ids_distinct langs_inj ref cog slots Hin) as W. fold P X in W.
    pose proof (In_dget_NoDup Z.eqb Zeqb_spec _ _ _ (etymdict_NoDup D ci X ref) Hin) as Zg.
    apply (nth_ext _ _ [] []); [rewrite map_length; exact W|].
    intros j Hj. rewrite W in Hj.
    destruct (nth_error (x_cols X) j) as [l|] eqn:El; [|apply nth_error_None in El; lia].
    pose proof (etymdict_exact K D ri ci ids_distinct langs_inj ref cog j l El) as S. fold P X in S.
    unfold etym_slot, zget in S. rewrite Zg in S. rewrite S.
    symmetry. apply nth_error_nth. rewrite nth_error_map, El. reflexivity.
  Qed.

  Lemma meanings_In ref cog x :
    In x (map (fun id => key_at D id ri) (List.concat (map (etym_spec D ci ref cog) (x_cols X)))) <->
    In x (map (rkey ri) (filter (fun r => zmem cog (carried ref r)) D)).
  Proof.
    rewrite !in_map_iff. split.
    - intros [id [E Hin]]. apply in_concat in Hin. destruct Hin as [lst [H1 H2]].
      apply in_map_iff in H1. destruct H1 as [l [<- Hl]]. apply spec_In in H2.
      destruct H2 as [r [Hr [E1 [E2 Hc]]]]. exists r. subst id. rewrite (key_at_In D r ri ids_distinct Hr) in E.
      split; [exact E|]. apply filter_In. split; [exact Hr|apply zmem_In; exact Hc].
    - intros [r [E Hr]]. apply filter_In in Hr. destruct Hr as [Hr Hc]. apply zmem_In in Hc.
      exists (fst r). rewrite (key_at_In D r ri ids_distinct Hr). split; [exact E|].
      apply in_concat. exists (etym_spec D ci ref cog (rkey ci r)). split.
      + apply in_map. apply (cols_spec K D ri ci). exists r. auto.
      + apply spec_In. exists r. auto.
  Qed.

  (* missed[m]: the languages without a word for concept m *)
  Lemma missed_spec m : In m (x_rows X) ->
    missed X m = Some (map (fun l => is_nil (cellrows D ri ci m l)) (x_cols X)).
  Proof.
    intros Hm. destruct (idx_of_row K D ri ci m Hm) as [is His]. fold P X in His.
    destruct (block_lines K P m is His) as [d [Hd Hb]]. fold X in Hb.
    unfold missed, block_of. rewrite (proj2 (zmem_In m (x_rows X)) Hm), His. cbn [option_map]. f_equal.
    unfold sel_rows. rewrite Hb.
    rewrite <- (map_nth_seq_Z (x_cols X)) at 2. rewrite map_map.
    apply map_ext_in. intros j Hj. apply in_seq in Hj.
    destruct (nth_error (x_cols X) j) as [l|] eqn:El; [|apply nth_error_None in El; lia].
    rewrite (nth_error_nth _ _ 0 El).
    rewrite (column_grid (fun k l => slot P (m, k) l) _ _ _ _ El).
    unfold slot. cbn [fst snd].
    pose proof (dict_entry D ri ci m d Hd l) as Elk. fold P in Elk.
    rewrite zsum_pad by (rewrite <- Elk; apply maxlen_ge).
    rewrite zsum_pos_nil.
    - unfold P. rewrite cellset_cellrows. apply is_nil_map.
    - intros x Hx. apply cellset_In in Hx. destruct Hx as [r' [R1 [R2 _]]]. unfold P in R1.
      apply in_map_iff in R1. destruct R1 as [r [<- Hr]]. cbn in R2. subst x. exact (ids_pos r Hr).
  Qed.

  Definition pa (s : list Z) : pap := match s with _ :: _ => Present | [] => Absent end.

  Lemma pap_vec_single slots :
    pap_vec D X ri slots =
    match single (map (fun id => key_at D id ri) (List.concat slots)) with
    | Some m => if truthyZ m
                then option_map (fun ms => map (fun sm => match fst sm with
                                                          | _ :: _ => Present
                                                          | [] => if (snd sm : bool) then Missing else Absent
                                                          end) (combine slots ms)) (missed X m)
                else Some (map pa slots)
    | None => Some (map pa slots)
    end.
  Proof.
    unfold pap_vec, single, pa.
    destruct (zdedup (map (fun id => key_at D id ri) (List.concat slots))) as [|a [|b t]]; reflexivity.
  Qed.

  Lemma pap_decl3_single ref cog l :
    pap_decl3 D ri ci ref cog l =
    if existsb (fun r => (rkey ci r =? l) && zmem cog (carried ref r)) D then Present
    else match single (map (rkey ri) (filter (fun r => zmem cog (carried ref r)) D)) with
         | Some m => if truthyZ m && is_nil (cellrows D ri ci m l) then Missing else Absent
         | None => Absent
         end.
  Proof.
    unfold pap_decl3, single.
    destruct (zdedup (map (rkey ri) (filter (fun r => zmem cog (carried ref r)) D))) as [|a [|b t]]; reflexivity.
  Qed.

  Lemma pap_vec_spec ref cog slots : In (cog, slots) (get_etymdict D ci X ref) ->
    pap_vec D X ri slots = Some (map (pap_decl3 D ri ci ref cog) (x_cols X)).
  Proof.
    intros Hin. rewrite (etym_line ref cog slots Hin). rewrite pap_vec_single.
    rewrite (single_ext _ _ (meanings_In ref cog)).
    assert (Epa : forall l, pa (etym_spec D ci ref cog l) =
                 if existsb (fun r => (rkey ci r =? l) && zmem cog (carried ref r)) D then Present else Absent).
    { intros l. pose proof (spec_is_nil D ci ref cog l) as E. unfold pa.
      destruct (etym_spec D ci ref cog l); cbn [is_nil] in E;
        destruct (existsb (fun r => (rkey ci r =? l) && zmem cog (carried ref r)) D); cbn in E; congruence. }
    destruct (single (map (rkey ri) (filter (fun r => zmem cog (carried ref r)) D))) as [m|] eqn:Es.
    - destruct (truthyZ m) eqn:Et.
      + assert (Hm : In m (x_rows X)).
        { apply single_spec in Es. destruct Es as [Hm _]. apply in_map_iff in Hm. destruct Hm as [r [E Hr]].
          apply filter_In in Hr. apply (rows_spec K D ri ci). exists r. split; [apply Hr|exact E]. }
        rewrite (missed_spec m Hm). cbn [option_map]. f_equal. rewrite combine_map, map_map.
        apply map_ext. intros l. cbn [fst snd]. rewrite pap_decl3_single, Es, Et. cbn [andb].
        pose proof (spec_is_nil D ci ref cog l) as E.
        destruct (etym_spec D ci ref cog l); cbn [is_nil] in E;
          destruct (existsb (fun r => (rkey ci r =? l) && zmem cog (carried ref r)) D); cbn in E; try congruence; reflexivity.
      + f_equal. rewrite map_map. apply map_ext. intros l. rewrite pap_decl3_single, Es, Et, Epa. reflexivity.
    - f_equal. rewrite map_map. apply map_ext. intros l. rewrite pap_decl3_single, Es, Epa. reflexivity.
  Qed.

  (* get_paps(ref) (meanings read from the concept column): one pattern per
     cognate id of the etymological dictionary, and the pattern is the
     declarative one *)
  Theorem paps_exact ref :
    get_paps D ci X ref ri =
    Some (map (fun kv => (fst kv, map (pap_decl3 D ri ci ref (fst kv)) (x_cols X))) (get_etymdict D ci X ref)).
  Proof.
    unfold get_paps.
    apply (all_some_snd_map (fun kv => pap_vec D X ri (snd kv))
                            (fun kv => map (pap_decl3 D ri ci ref (fst kv)) (x_cols X))).
    intros [cog slots] Hin. cbn [fst snd]. apply (pap_vec_spec ref cog slots Hin).
  Qed.
End PapsWF.

(* for any well-formed wordlist (after the constructor, after add_entries) *)
Theorem wf_paps_exact K w ref : wf K w -> key_inj K (map (rkey (w_ci w)) (w_data w)) ->
  get_paps (w_data w) (w_ci w) (w_index w) ref (w_ri w) =
  Some (map (fun kv => (fst kv, map (pap_decl3 (w_data w) (w_ri w) (w_ci w) ref (fst kv)) (x_cols (w_index w))))
            (get_etymdict (w_data w) (w_ci w) (w_index w) ref)).
Proof.
  intros W I. rewrite (wf_index K w W).
  exact (paps_exact K (w_data w) (w_ri w) (w_ci w) (wf_ids K w W) (wf_pos K w W) I ref).
Qed.
