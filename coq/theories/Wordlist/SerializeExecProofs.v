(* C13 - what the boolean checkers that run on the implementation's output mean. *)
From Coq Require Import QArith ZArith List Bool Lia Permutation.
From LV Require Import Common.Cases Wordlist.SerializeStr Wordlist.SerializeStrProofs Wordlist.SerializeNum
  Wordlist.SerializeNumProofs Wordlist.Serialize Wordlist.SerializeProofs Wordlist.SerializeMsa Wordlist.SerializeExec.
Import ListNotations.
Local Open Scope Z_scope.

Lemma strs_eqb_eq : forall a b, strs_eqb a b = true <-> a = b.
Proof.
  induction a as [|x a IH]; destruct b as [|y b]; cbn [strs_eqb]; try (split; [discriminate|discriminate]).
  - split; reflexivity.
  - rewrite andb_true_iff, str_eqb_eq, IH. split; [intros [-> ->]; reflexivity|intros E; inversion E; auto].
Qed.

Lemma dec_eqb_eq : forall a b, dec_eqb a b = true <-> a = b.
Proof.
  intros [n1 i1 f1] [n2 i2 f2]. unfold dec_eqb. cbn [d_neg d_int d_frac].
  rewrite !andb_true_iff, eqb_true_iff, Z.eqb_eq, str_eqb_eq.
  split; [intros [[-> ->] ->]; reflexivity|intros E; inversion E; auto].
Qed.

Lemma decs_eqb_eq : forall a b, decs_eqb a b = true <-> a = b.
Proof.
  induction a as [|x a IH]; destruct b as [|y b]; cbn [decs_eqb]; try (split; [discriminate|discriminate]).
  - split; reflexivity.
  - rewrite andb_true_iff, dec_eqb_eq, IH. split; [intros [-> ->]; reflexivity|intros E; inversion E; auto].
Qed.

Definition empty_list (v : cell) : Prop := v = VList [] \/ v = VInts [] \/ v = VFloats [].

(* two cells the checker calls equal are the same value of the same type (floats: the same number;
   an empty list has no item type) *)
Theorem cell_eqb_sound : forall a b, cell_eqb a b = true ->
  a = b \/ (exists x y, a = VFloat x /\ b = VFloat y /\ (x == y)%Q) \/ (empty_list a /\ empty_list b).
Proof.
  intros a b H. unfold empty_list.
  destruct a as [|z|s|l|l|l|q], b as [|z'|s'|l'|l'|l'|q']; cbn [cell_eqb] in H; try discriminate H;
  lazymatch type of H with
  | (_ =? _) = true => left; apply Z.eqb_eq in H; subst; reflexivity
  | str_eqb _ _ = true => left; apply str_eqb_eq in H; subst; reflexivity
  | strs_eqb _ _ = true => left; apply strs_eqb_eq in H; subst; reflexivity
  | decs_eqb _ _ = true => left; apply decs_eqb_eq in H; subst; reflexivity
  | Qeq_bool _ _ = true => right; left; eexists; eexists; split; [reflexivity|]; split; [reflexivity|]; apply Qeq_bool_iff, H
  | true = true => left; reflexivity
  | _ => destruct l; try discriminate H; try (destruct l'; try discriminate H);
         first [ right; right; split; solve [auto]
               | left; apply strs_eqb_eq in H; rewrite H; reflexivity
               | left; apply str_eqb_eq in H; rewrite H; reflexivity
               | left; apply decs_eqb_eq in H; rewrite H; reflexivity ]
  end.
Qed.

Lemma cells_eqb_Forall2 : forall a b, cells_eqb a b = true -> Forall2 (fun x y => cell_eqb x y = true) a b.
Proof.
  induction a as [|x a IH]; destruct b as [|y b]; cbn [cells_eqb]; intros H; try discriminate H; [constructor|].
  apply andb_true_iff in H. destruct H as [H1 H2]. constructor; auto.
Qed.

(* same_objectb: the columns are the same, the row ids are the same set, and every row is found
   under its id with cell-wise equal contents *)
Theorem same_objectb_sound : forall w loaded, same_objectb w loaded = true ->
  exists w', loaded = Ok w' /\ wl_cols w' = wl_cols w /\ length (wl_rows w') = length (wl_rows w)
    /\ NoDup (map fst (wl_rows w'))
    /\ forall r, In r (wl_rows w) -> exists cells, lookup_row (fst r) (wl_rows w') = Some cells
                                   /\ Forall2 (fun x y => cell_eqb x y = true) (snd r) cells.
Proof.
  intros w loaded H. destruct loaded as [w'|]; [|discriminate H]. exists w'. split; [reflexivity|].
  unfold same_objectb in H.
  apply andb_true_iff in H. destruct H as [H H4]. apply andb_true_iff in H. destruct H as [H H3].
  apply andb_true_iff in H. destruct H as [H1 H2].
  apply strs_eqb_eq in H1. apply Nat.eqb_eq in H2.
  split; [symmetry; exact H1|]. split; [symmetry; exact H2|]. split; [apply znodupb_NoDup, H3|].
  intros r I. rewrite forallb_forall in H4. specialize (H4 r I).
  destruct (lookup_row (fst r) (wl_rows w')) as [cells|]; [|discriminate H4].
  exists cells. split; [reflexivity|apply cells_eqb_Forall2, H4].
Qed.

(* ... and the checker accepts the object the model predicts: it never rejects the right answer *)
Lemma cell_eqb_refl : forall a, cell_eqb a a = true.
Proof.
  destruct a as [|z|s|l|l|l|q]; cbn [cell_eqb].
  - reflexivity.
  - apply Z.eqb_refl.
  - apply str_eqb_refl.
  - destruct l; apply strs_eqb_eq; reflexivity.
  - destruct l; apply str_eqb_refl.
  - destruct l; apply decs_eqb_eq; reflexivity.
  - apply Qeq_bool_iff. reflexivity.
Qed.

Lemma cells_eqb_refl : forall a, cells_eqb a a = true.
Proof. induction a as [|x a IH]; cbn [cells_eqb]; [reflexivity|]. rewrite cell_eqb_refl, IH. reflexivity. Qed.

Lemma NoDup_znodupb : forall l, NoDup l -> znodupb l = true.
Proof.
  induction l as [|x l IH]; intros ND; [reflexivity|]. inversion ND as [|? ? N1 N2]; subst.
  cbn [znodupb]. rewrite IH by exact N2. rewrite andb_true_r. apply negb_true_iff.
  destruct (existsb (Z.eqb x) l) eqn:E; [|reflexivity].
  apply existsb_exists in E. destruct E as [y [I E]]. apply Z.eqb_eq in E. subst. contradiction.
Qed.

Lemma lookup_row_in : forall rows r, NoDup (map fst rows) -> In r rows -> lookup_row (fst r) rows = Some (snd r).
Proof.
  induction rows as [|a rows IH]; intros r ND I; [destruct I|].
  cbn [map] in ND. inversion ND as [|? ? N1 N2]; subst. cbn [lookup_row].
  destruct I as [->|I]; [rewrite Z.eqb_refl; reflexivity|].
  destruct (fst a =? fst r) eqn:E.
  - apply Z.eqb_eq in E. exfalso. apply N1. rewrite E. apply in_map, I.
  - apply IH; assumption.
Qed.

Theorem same_objectb_model : forall tbl w, wl_okb tbl w = true ->
  same_objectb w (Ok (mk_wl (wl_cols w) (sorted_rows w))) = true.
Proof.
  intros tbl w H. pose proof (wl_okb_ok tbl w H) as OK. pose proof (ok_ids_nodup _ _ OK) as ND.
  pose proof (sorted_rows_perm w) as Pm.
  unfold same_objectb. cbn [wl_cols wl_rows].
  repeat (apply andb_true_iff; split).
  - apply strs_eqb_eq. reflexivity.
  - apply Nat.eqb_eq. symmetry. apply Permutation_length, Pm.
  - apply NoDup_znodupb. eapply Permutation_NoDup; [apply Permutation_sym, Permutation_map, Pm|exact ND].
  - apply forallb_forall. intros r I. rewrite sorted_rows_lookup by exact ND.
    rewrite lookup_row_in by assumption. apply cells_eqb_refl.
Qed.

(* the save / load checker as a whole: whenever the object is inside the guard, the file the model
   writes is read back (by the model) to an object the checker accepts *)
Theorem roundtrip_checker_complete : forall tbl pretty pre stamp w,
  wl_okb tbl w = true -> closed_pre pre -> Forall skipline stamp ->
  exists ls, write pretty pre stamp w = Ok ls /\ same_objectb w (read tbl ls) = true.
Proof.
  intros tbl pretty pre stamp w H CP FS.
  destruct (file_roundtrip tbl pretty pre stamp w H CP FS) as [ls [W R]].
  exists ls. split; [exact W|]. rewrite R. apply (same_objectb_model tbl), H.
Qed.

(* ------------------------------------------------------------------ *)
(* the <msa> checker: two states the checker calls equal are equal *)
Lemma opt_eqb_eq : forall {A} (eqb : A -> A -> bool), (forall x y, eqb x y = true <-> x = y) ->
  forall a b, opt_eqb eqb a b = true -> a = b.
Proof.
  intros A eqb H a b E. destruct a, b; cbn [opt_eqb] in E; try discriminate E; [|reflexivity].
  apply H in E. subst. reflexivity.
Qed.

Lemma swap_eqb_eq : forall a b : nat * nat * nat,
  Nat.eqb (fst (fst a)) (fst (fst b)) && Nat.eqb (snd (fst a)) (snd (fst b)) && Nat.eqb (snd a) (snd b) = true <-> a = b.
Proof.
  intros [[a1 a2] a3] [[b1 b2] b3]. cbn [fst snd]. rewrite !andb_true_iff, !Nat.eqb_eq.
  split; [intros [[-> ->] ->]; reflexivity|intros E; inversion E; auto].
Qed.

Theorem msa_read_eqb_eq : forall a b, msa_read_eqb a b = true -> a = b.
Proof.
  intros [i1 t1 a1 s1 l1 w1 c1] [i2 t2 a2 s2 l2 w2 c2] H. unfold msa_read_eqb, msa_core_eqb in H.
  cbn [r_ids r_taxa r_alm r_seqs r_local r_swaps r_cons] in H.
  repeat (apply andb_true_iff in H; let H' := fresh "K" in destruct H as [H H']).
  apply str_eqb_eq in H. apply strs_eqb_eq in K4.
  apply (list_eqb_spec strs_eqb strs_eqb_eq) in K3. apply (list_eqb_spec strs_eqb strs_eqb_eq) in K2.
  apply (list_eqb_spec Nat.eqb Nat.eqb_eq) in K1. apply (list_eqb_spec _ swap_eqb_eq) in K0.
  apply (opt_eqb_eq strs_eqb strs_eqb_eq) in K. subst. reflexivity.
Qed.

Theorem msa_state_eqb_eq : forall a b, state_eqb msa_read_eqb a b = true -> a = b.
Proof.
  induction a as [|[k m] a IH]; destruct b as [|[k' m'] b]; unfold state_eqb; cbn [list_eqb]; intros H; try discriminate H; [reflexivity|].
  apply andb_true_iff in H. destruct H as [H1 H2]. cbn [fst snd] in H1. apply andb_true_iff in H1. destruct H1 as [E1 E2].
  apply Z.eqb_eq in E1. apply msa_read_eqb_eq in E2. subst. f_equal. apply IH. exact H2.
Qed.

Theorem msa_triples_eqb_eq : forall a b, triples_eqb a b = true -> a = b.
Proof.
  induction a as [|[[r k] m] a IH]; destruct b as [|[[r' k'] m'] b]; unfold triples_eqb; cbn [list_eqb]; intros H; try discriminate H; [reflexivity|].
  apply andb_true_iff in H. destruct H as [H1 H2]. cbn [fst snd] in H1.
  apply andb_true_iff in H1. destruct H1 as [H1 E3]. apply andb_true_iff in H1. destruct H1 as [E1 E2].
  apply str_eqb_eq in E1. apply Z.eqb_eq in E2. apply msa_read_eqb_eq in E3. subst. f_equal. apply IH. exact H2.
Qed.
