(* lingpy.basic.ops.renumber: string identifiers -> integers.  Model only.

   Values are compared through str(): the model receives [skey v], an
   order-preserving integer code of the string str(v) (equal strings, equal
   codes; the harness computes it), and [kempty], the code of ''. *)
From Coq Require Import ZArith List Bool String.
From LV Require Import Wordlist.Rows Wordlist.Index Wordlist.Views.
Import ListNotations.
Local Open Scope Z_scope.

Definition zkeys : keys := {| lowk := fun x => x; rawk := fun x => x |}.

(* sources = sorted(set(str(wl[k, source]) for k in wl)) *)
Definition renum_sources (skey : cell -> Z) (vs : list cell) : list Z := usort zkeys (map skey vs).

Fixpoint number_from (n : Z) (l : list Z) : list (Z * Z) :=
  match l with
  | [] => []
  | x :: t => (x, n) :: number_from (n + 1) t
  end.

(* converter = dict(zip(sources, 1..n)); if '' in converter: converter[''] = 0
   (the test "0 in converter" can never succeed: all keys are strings) *)
Definition converter (skey : cell -> Z) (kempty : Z) (vs : list cell) : list (Z * Z) :=
  let conv := number_from 1 (renum_sources skey vs) in
  if dmem Z.eqb conv kempty then zset conv kempty 0 else conv.

Definition renum_fun (skey : cell -> Z) (kempty : Z) (vs : list cell) (v : cell) : cell :=
  match zget (converter skey kempty vs) (skey v) with
  | Some n => Atom n
  | None => POISON                     (* KeyError *)
  end.

(* renumber(wordlist, source, target, override): the column read through
   wl[k, source], the new column added through add_entries *)
Definition renumber (w : wl) (source target : string) (override : bool)
           (skey : cell -> Z) (kempty : Z) : option (wl * list (Z * Z)) :=
  match getitem_col w source with
  | None => None                       (* str(None): outside the model *)
  | Some vs =>
      let tgt := if String.eqb target "" then append source "id" else target in
      match add_entries w tgt source (renum_fun skey kempty vs) override with
      | Some w' => Some (w', converter skey kempty vs)
      | None => None
      end
  end.
