(* C13 - numbers in the text formats: Python floats as the decimals str() prints,
   '{:.4f}' / '{:.2f}' as decimal rounding on Q (round-half-even), float() on a plain
   decimal, and the <dst> / <scorer> blocks.  Model only. *)
From Coq Require Import QArith Qround Qabs ZArith List Bool.
From LV Require Import Wordlist.SerializeStr.
Import ListNotations.
Local Open Scope Z_scope.

(* ---- a float list item (column `weights`): the decimal Python's str(float) prints ----
   sign, integer part, fraction digits (values 0..9), canonical = at least one fraction
   digit and no trailing zero beyond the first.  (Exponent notation, inf, nan: not modelled.) *)
Record dec := mk_dec { d_neg : bool; d_int : Z; d_frac : list Z }.

Definition dchar (x : Z) : Z := 48 + x.
Definition show_dec (d : dec) : str :=
  (if d_neg d then [45] else []) ++ show_nat (d_int d) ++ 46 :: map dchar (d_frac d).

(* drop trailing zeros *)
Fixpoint trim0 (l : list Z) : list Z :=
  match l with
  | [] => []
  | x :: r => match trim0 r with
              | [] => if x =? 0 then [] else [x]
              | y :: r' => x :: y :: r'
              end
  end.
Definition canon_frac (l : list Z) : list Z := match trim0 l with [] => [0] | x :: r => x :: r end.

Definition all_digits (s : str) : bool := forallb is_digit s.
Definition dval (s : str) : Z := fold_left (fun a c => a * 10 + (c - 48)) s 0.
Definition nullb {A} (l : list A) : bool := match l with [] => true | _ => false end.

Definition split_sign (t : str) : bool * str :=
  match t with
  | [] => (false, t)
  | c :: r => if c =? 45 then (true, r) else if c =? 43 then (false, r) else (false, t)
  end.

(* float(s) for plain decimals: blanks around, sign, digits [. digits]; None = ValueError *)
Definition parse_dec (s : str) : option dec :=
  let (neg, body) := split_sign (strip s) in
  match split_on 46 body with
  | [ip] => if all_digits ip && negb (nullb ip) then Some (mk_dec neg (dval ip) [0]) else None
  | [ip; fp] =>
      if all_digits ip && all_digits fp && negb (nullb ip && nullb fp)
      then Some (mk_dec neg (dval ip) (canon_frac (map (fun c => c - 48) fp))) else None
  | _ => None
  end.

(* canonical decimals = the values str(float) can print in positional notation *)
Definition dec_okb (d : dec) : bool :=
  (0 <=? d_int d) && forallb (fun x => (0 <=? x) && (x <=? 9)) (d_frac d)
  && str_eqb (canon_frac (d_frac d)) (d_frac d).

Definition dec_eqb (a b : dec) : bool :=
  Bool.eqb (d_neg a) (d_neg b) && (d_int a =? d_int b) && str_eqb (d_frac a) (d_frac b).

(* ---- fixed-point formatting '{:.nf}' ---- *)
Definition pow10 (n : nat) : Z := 10 ^ Z.of_nat n.

(* round half to even *)
Definition rhe (x : Q) : Z :=
  let f := Qfloor x in
  match Qcompare (x - inject_Z f) (1 # 2) with
  | Lt => f
  | Gt => f + 1
  | Eq => if Z.even f then f else f + 1
  end.

Definition qneg (x : Q) : bool := Qnum x <? 0.
(* the scaled magnitude that is printed: round-half-even of |x| * 10^n *)
Definition scaled (n : nat) (x : Q) : Z := rhe (Qabs x * inject_Z (pow10 n)).
(* decimal rounding to n places, as a rational *)
Definition rn (n : nat) (x : Q) : Q :=
  Qmake ((if qneg x then -1 else 1) * scaled n x) (Z.to_pos (pow10 n)).
Definition r4 := rn 4.
Definition r2 := rn 2.

Definition pad0 (len : nat) (s : str) : str := repeat 48 (len - length s) ++ s.

(* '{:.nf}'.format(x), n >= 1 *)
Definition show_fixed (n : nat) (x : Q) : str :=
  let ds := pad0 (S n) (show_nat (scaled n x)) in
  let ip := (length ds - n)%nat in
  (if qneg x then [45] else []) ++ firstn ip ds ++ 46 :: skipn ip ds.

(* float(s) on a plain decimal, as an exact rational *)
Definition parse_decQ (s : str) : option Q :=
  let (neg, body) := split_sign (strip s) in
  let mk ip fp := Qmake ((if neg then -1 else 1) * dval (ip ++ fp)) (Z.to_pos (pow10 (length fp))) in
  match split_on 46 body with
  | [ip] => if all_digits ip && negb (nullb ip) then Some (mk ip []) else None
  | [ip; fp] => if all_digits ip && all_digits fp && negb (nullb ip && nullb fp) then Some (mk ip fp) else None
  | _ => None
  end.

Fixpoint all_some {A} (l : list (option A)) : option (list A) :=
  match l with
  | [] => Some []
  | o :: r => match o, all_some r with
              | Some x, Some xs => Some (x :: xs)
              | _, _ => None
              end
  end.

(* ---- <dst> block: convert.strings.matrix2dst(matrix, taxa) (taxlen = 10), read.phylip.read_dst ---- *)
Definition dst_name (taxon : str) : str :=
  firstn 11 (taxon ++ repeat 32 (10 - length taxon)).
Definition dst_line (taxon : str) (row : list Q) : str :=
  dst_name taxon ++ 32 :: join [32] (map (show_fixed 4) row).
Definition dst_lines (taxa : list str) (m : list (list Q)) : list str :=
  (32 :: show_nat (Z.of_nat (length taxa))) :: map (fun p => dst_line (fst p) (snd p)) (combine taxa m).

(* read_dst on the text of the block: blank lines dropped, first line skipped, '#' lines skipped,
   numbers = float of the blank-separated items after column 11.  None = the reader raises. *)
Definition read_dst_row (line : str) : option (list Q) :=
  match strip (skipn 11 line) with
  | [] => None
  | body => all_some (map parse_decQ (split_ws body))
  end.
Definition read_dst_lines (ls : list str) : option (list (list Q)) :=
  match filter (fun l => negb (nullb (strip l))) ls with
  | [] => None
  | _ :: body =>
      all_some (map read_dst_row (filter (fun l => negb (match l with c :: _ => c =? 35 | [] => false end)) body))
  end.

(* read_qlc keeps the upper triangle only: d[i][j] = d[j][i] = cell for i < j, diagonal 0 *)
Definition qnth (m : list (list Q)) (i j : nat) : Q := nth j (nth i m []) 0%Q.
Definition sym_upper (m : list (list Q)) : list (list Q) :=
  let n := length m in
  map (fun i => map (fun j => if (i <? j)%nat then qnth m i j else if (j <? i)%nat then qnth m j i else 0%Q)
                    (seq 0 n)) (seq 0 n).

(* what read_qlc makes of a <dst> block: it allocates an n x n matrix for the n rows it got and fills it from
   the upper triangle; a row longer than n (a line was dropped as a comment) raises IndexError *)
Definition read_dst_block (ls : list str) : option (list (list Q)) :=
  match read_dst_lines ls with
  | Some m => if existsb (fun r => (length m <? length r)%nat) m then None else Some (sym_upper m)
  | None => None
  end.

(* ---- <scorer> block: convert.strings.scorer2str, read.phylip.read_scorer ---- *)
Definition scorer_line (c : str) (row : list Q) : str := join [9] (c :: map (show_fixed 2) row).
Definition scorer_lines (chars : list str) (m : list (list Q)) : list str :=
  map (fun p => scorer_line (fst p) (snd p)) (combine chars m).
Definition read_scorer_line (l : str) : option (str * list Q) :=
  match split_on 9 l with
  | [] => None
  | c :: vals => option_map (fun v => (c, v)) (all_some (map parse_decQ vals))
  end.
(* read_scorer takes its argument for the text of a scorer only if it contains a TAB and a line break
   (otherwise for a file name, and raises): the block needs two lines *)
Definition read_scorer_lines (ls : list str) : option (list (str * list Q)) :=
  match ls with
  | _ :: _ :: _ =>
      if existsb (existsb (Z.eqb 9)) ls
      then all_some (map read_scorer_line (filter (fun l => negb (nullb l)) ls))
      else None
  | _ => None
  end.

Definition qlist_eqb (a b : list Q) : bool :=
  (length a =? length b)%nat && forallb (fun p => Qeq_bool (fst p) (snd p)) (combine a b).
Definition qmat_eqb (a b : list (list Q)) : bool :=
  (length a =? length b)%nat && forallb (fun p => qlist_eqb (fst p) (snd p)) (combine a b).
