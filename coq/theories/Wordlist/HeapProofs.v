(* C19 - proofs about the heap model (Wordlist/Heap.v):
   well-formedness (objects own pairwise disjoint, allocated locations) is an
   invariant of every history; an operation writes only to the locations of its
   target object (and to fresh ones); hence the view of every other object is
   unchanged by any history that does not target it. *)
From Coq Require Import ZArith List Bool Arith Lia.
From LV Require Import Wordlist.Heap.
Import ListNotations.

(* ------------------------------------------------------------------ *)
(* heap cells *)

Lemma hset_length : forall h l v, length (hset h l v) = length h.
Proof.
  induction h as [|x t IH]; intros l v; destruct l as [|l']; cbn [hset length]; auto.
Qed.

Lemma hget_hset_same : forall h l v, l < length h -> hget (hset h l v) l = v.
Proof.
  unfold hget. induction h as [|x t IH]; intros l v Hl; cbn [length] in Hl; [lia|].
  destruct l as [|l']; cbn [hset nth]; [reflexivity|]. apply IH. lia.
Qed.

Lemma hget_hset_other : forall h l l' v, l <> l' -> hget (hset h l v) l' = hget h l'.
Proof.
  unfold hget. induction h as [|x t IH]; intros l l' v Hn; destruct l as [|l0]; destruct l' as [|l1];
    cbn [hset nth]; try reflexivity; try congruence.
  apply IH. congruence.
Qed.

Lemma hget_app_old : forall h x l, l < length h -> hget (h ++ x) l = hget h l.
Proof. intros h x l Hl. unfold hget. apply app_nth1. exact Hl. Qed.

Lemma hget_app_new : forall h v, hget (h ++ [v]) (length h) = v.
Proof. intros h v. unfold hget. apply nth_middle. Qed.

(* ------------------------------------------------------------------ *)
(* well-formed states *)

Definition stale_alloc (n : nat) (o : obj) : Prop := Forall (fun r => snd r < n) (o_stale o).

Definition wf (s : state) : Prop :=
  NoDup (all_locs s) /\ Forall (fun l => l < length (st_heap s)) (all_locs s)
  /\ Forall (stale_alloc (length (st_heap s))) (st_objs s).

Lemma wf_empty : wf empty_state.
Proof. split; [|split]; cbn; constructor. Qed.

Lemma all_locs_app : forall h objs o,
  all_locs (mkState h (objs ++ [o])) = all_locs (mkState h objs) ++ obj_locs o.
Proof.
  intros h objs o. unfold all_locs. cbn [st_objs]. rewrite flat_map_app. cbn [flat_map]. rewrite app_nil_r. reflexivity.
Qed.

Lemma NoDup_app_intro : forall (A : Type) (l1 l2 : list A),
  NoDup l1 -> NoDup l2 -> (forall x, In x l1 -> In x l2 -> False) -> NoDup (l1 ++ l2).
Proof.
  intros A l1. induction l1 as [|a t IH]; intros l2 H1 H2 Hd; cbn [app]; [exact H2|].
  inversion H1 as [|a' t' Hna Hnt]; subst. constructor.
  - rewrite in_app_iff. intros [Hi|Hi]; [exact (Hna Hi)|]. apply (Hd a); [left; reflexivity|exact Hi].
  - apply IH; [exact Hnt|exact H2|]. intros x Hx1 Hx2. apply (Hd x); [right; exact Hx1|exact Hx2].
Qed.

Lemma NoDup_app_disj : forall (A : Type) (l1 l2 : list A) x,
  NoDup (l1 ++ l2) -> In x l1 -> In x l2 -> False.
Proof.
  intros A l1. induction l1 as [|a t IH]; intros l2 x Hn H1 H2; [destruct H1|].
  cbn [app] in Hn. inversion Hn as [|a' t' Hna Hnt]; subst. destruct H1 as [->|H1].
  - apply Hna. rewrite in_app_iff. right. exact H2.
  - exact (IH l2 x Hnt H1 H2).
Qed.

Lemma in_all_locs : forall s k o l,
  nth_error (st_objs s) k = Some o -> In l (obj_locs o) -> In l (all_locs s).
Proof.
  intros s k o l Hk Hl. unfold all_locs. apply in_flat_map. exists o. split; [|exact Hl].
  eapply nth_error_In. exact Hk.
Qed.

(* two different objects of a well-formed state share no location *)
Lemma flat_map_disjoint : forall (objs : list obj) j k oj ok l,
  NoDup (flat_map obj_locs objs) -> j <> k ->
  nth_error objs j = Some oj -> nth_error objs k = Some ok ->
  In l (obj_locs oj) -> In l (obj_locs ok) -> False.
Proof.
  induction objs as [|o t IH]; intros j k oj ok l Hn Hjk Hj Hk Hlj Hlk.
  - destruct j; discriminate.
  - cbn [flat_map] in Hn. destruct j as [|j']; destruct k as [|k'].
    + congruence.
    + cbn [nth_error] in Hj, Hk. inversion Hj; subst oj.
      apply (NoDup_app_disj _ _ _ l Hn Hlj). apply in_flat_map. exists ok. split; [|exact Hlk].
      eapply nth_error_In. exact Hk.
    + cbn [nth_error] in Hj, Hk. inversion Hk; subst ok.
      apply (NoDup_app_disj _ _ _ l Hn Hlk). apply in_flat_map. exists oj. split; [|exact Hlj].
      eapply nth_error_In. exact Hj.
    + cbn [nth_error] in Hj, Hk. apply (IH j' k' oj ok l); auto.
      clear -Hn. induction (obj_locs o) as [|a r IHr]; [exact Hn|].
      cbn [app] in Hn. inversion Hn; subst. apply IHr. assumption.
Qed.

Lemma wf_disjoint : forall s j k oj ok l,
  wf s -> j <> k -> nth_error (st_objs s) j = Some oj -> nth_error (st_objs s) k = Some ok ->
  In l (obj_locs oj) -> In l (obj_locs ok) -> False.
Proof. intros s j k oj ok l [Hn _]. apply flat_map_disjoint. exact Hn. Qed.

Lemma wf_stale : forall s k o r,
  wf s -> nth_error (st_objs s) k = Some o -> In r (o_stale o) -> snd r < length (st_heap s).
Proof.
  intros s k o r (_ & _ & Hs) Hk Hr. rewrite Forall_forall in Hs.
  specialize (Hs o (nth_error_In _ _ Hk)). unfold stale_alloc in Hs. rewrite Forall_forall in Hs. apply Hs. exact Hr.
Qed.

Lemma wf_alloc : forall s k o l,
  wf s -> nth_error (st_objs s) k = Some o -> In l (obj_locs o) -> l < length (st_heap s).
Proof.
  intros s k o l [_ [Hf _]] Hk Hl. rewrite Forall_forall in Hf. apply Hf. eapply in_all_locs; eauto.
Qed.

(* ------------------------------------------------------------------ *)
(* row allocation *)

Lemma copy_rows_spec : forall rows h h' rows',
  copy_rows h rows = (h', rows') ->
  length h' = length h + length rows
  /\ (forall l, l < length h -> hget h' l = hget h l)
  /\ map fst rows' = map fst rows
  /\ map snd rows' = seq (length h) (length rows)
  /\ (Forall (fun r => snd r < length h) rows ->
      map (fun r => (fst r, hget h' (snd r))) rows' = map (fun r => (fst r, hget h (snd r))) rows).
Proof.
  induction rows as [|[id l] t IH]; intros h h' rows' E; cbn [copy_rows] in E.
  - inversion E; subst. cbn. repeat split; auto; lia.
  - unfold halloc in E. destruct (copy_rows (h ++ [hget h l]) t) as [h2 t'] eqn:Et.
    inversion E; subst h' rows'. clear E.
    destruct (IH _ _ _ Et) as (Hlen & Hold & Hf & Hs & Hv).
    rewrite app_length in Hlen, Hold, Hs. cbn [length] in Hlen, Hold, Hs.
    assert (Hold' : forall l0, l0 < length h -> hget h2 l0 = hget h l0).
    { intros l0 Hl0. rewrite Hold by lia. apply hget_app_old. exact Hl0. }
    repeat split.
    + cbn [length]. lia.
    + exact Hold'.
    + cbn [map fst]. f_equal. exact Hf.
    + cbn [map snd length seq]. f_equal. rewrite Hs. f_equal. lia.
    + intros Hall. inversion Hall as [|x r Hx Hr]; subst. cbn [snd] in Hx.
      cbn [map fst snd]. f_equal.
      * f_equal. rewrite Hold by lia. apply hget_app_new.
      * rewrite Hv.
        -- apply map_ext_in. intros r Hin. f_equal. apply hget_app_old.
           rewrite Forall_forall in Hr. apply Hr. exact Hin.
        -- rewrite app_length. cbn [length]. eapply Forall_impl; [|exact Hr]. cbn. intros; lia.
Qed.

Lemma alloc_rows_spec : forall rows h h' rows',
  alloc_rows h rows = (h', rows') ->
  length h' = length h + length rows
  /\ (forall l, l < length h -> hget h' l = hget h l)
  /\ map snd rows' = seq (length h) (length rows)
  /\ map (fun r => (fst r, hget h' (snd r))) rows' = rows.
Proof.
  induction rows as [|[id v] t IH]; intros h h' rows' E; cbn [alloc_rows] in E.
  - inversion E; subst. cbn. repeat split; auto; lia.
  - unfold halloc in E. destruct (alloc_rows (h ++ [v]) t) as [h2 t'] eqn:Et.
    inversion E; subst h' rows'. clear E.
    destruct (IH _ _ _ Et) as (Hlen & Hold & Hs & Hv).
    rewrite app_length in Hlen, Hold, Hs. cbn [length] in Hlen, Hold, Hs.
    repeat split.
    + cbn [length]. lia.
    + intros l0 Hl0. rewrite Hold by lia. apply hget_app_old. exact Hl0.
    + cbn [map snd length seq]. f_equal. rewrite Hs. f_equal. lia.
    + cbn [map fst snd]. f_equal; [|exact Hv]. f_equal. rewrite Hold by lia. apply hget_app_new.
Qed.

(* ------------------------------------------------------------------ *)
(* the effect of one operation: [grows s s' news] - the old objects are kept,
   [news] are appended and own fresh, distinct, allocated locations *)

Definition fresh_obj (h h' : heap) (o : obj) : Prop :=
  NoDup (obj_locs o) /\ Forall (fun l => length h <= l < length h') (obj_locs o).

(* the _meta references of a new object point to rows of an existing object or are
   inherited from one *)
Definition stale_from (objs : list obj) (o : obj) : Prop :=
  forall r, In r (o_stale o) ->
    exists k ob, nth_error objs k = Some ob /\ (In (snd r) (obj_locs ob) \/ In r (o_stale ob)).

Definition objs_step (s s' : state) : Prop :=
  st_objs s' = st_objs s \/
  exists o, st_objs s' = st_objs s ++ [o] /\ fresh_obj (st_heap s) (st_heap s') o /\ stale_from (st_objs s) o.

(* locations an operation may write to *)
Definition target_locs (s : state) (o : op) : list loc :=
  match target o with
  | None => []
  | Some k => match nth_error (st_objs s) k with Some ob => obj_locs ob | None => [] end
  end.

Definition heap_only (L : list loc) (h h' : heap) : Prop :=
  length h <= length h' /\ forall l, l < length h -> ~ In l L -> hget h' l = hget h l.

Lemma heap_only_refl : forall L h, heap_only L h h.
Proof. intros L h. split; auto. Qed.

Lemma apply_rows_only : forall rows h src idxs f m h' r,
  apply_rows h rows src idxs f m = (h', r) ->
  length h' = length h /\ forall l, ~ In l (map snd rows) -> hget h' l = hget h l.
Proof.
  induction rows as [|[id l] t IH]; intros h src idxs f m h' r E; cbn [apply_rows] in E.
  - inversion E; subst. split; auto.
  - destruct (arg_of src idxs id (hget h l)) as [a|]; [|inversion E; subst; split; auto].
    destruct (f a) as [res|]; [|inversion E; subst; split; auto].
    destruct m as [|i].
    + destruct (IH _ _ _ _ _ _ _ E) as [Hlen Hoth]. rewrite hset_length in Hlen. split; [exact Hlen|].
      intros l0 Hn. cbn [map snd] in Hn. rewrite Hoth by (intro Hc; apply Hn; right; exact Hc).
      apply hget_hset_other. intro Hc. apply Hn. left. exact Hc.
    + destruct (set_nth (hget h l) i res) as [row'|]; [|inversion E; subst; split; auto].
      destruct (IH _ _ _ _ _ _ _ E) as [Hlen Hoth]. rewrite hset_length in Hlen. split; [exact Hlen|].
      intros l0 Hn. cbn [map snd] in Hn. rewrite Hoth by (intro Hc; apply Hn; right; exact Hc).
      apply hget_hset_other. intro Hc. apply Hn. left. exact Hc.
Qed.

Lemma find_row_in : forall rows id l, find_row rows id = Some l -> In l (map snd rows).
Proof.
  induction rows as [|[k l0] t IH]; intros id l E; cbn [find_row] in E; [discriminate|].
  destruct (Z.eqb k id).
  - inversion E; subst. left. reflexivity.
  - right. eapply IH. exact E.
Qed.

Lemma hset_only : forall L h l v, In l L -> heap_only L h (hset h l v).
Proof.
  intros L h l v Hin. split; [rewrite hset_length; lia|].
  intros l0 _ Hn. apply hget_hset_other. intro Hc. subst. exact (Hn Hin).
Qed.

Lemma cons_with_copy_step : forall s src req s' r,
  cons_obj s src req = (s', r) ->
  objs_step s s' /\ heap_only [] (st_heap s) (st_heap s').
Proof.
  intros s src req s' r E. unfold cons_obj, cons_with in E.
  destruct (nth_error (st_objs s) src) as [o|] eqn:Eo; [|inversion E; subst; split; [left; reflexivity|apply heap_only_refl]].
  destruct (cons_ok (st_heap s) o req); [|inversion E; subst; split; [left; reflexivity|apply heap_only_refl]].
  unfold halloc in E.
  destruct (copy_rows (st_heap s ++ [hget (st_heap s) (o_hdr o)]) (eff_rows o)) as [h2 rows'] eqn:Ec.
  inversion E; subst s' r. clear E. cbn [st_objs st_heap].
  destruct (copy_rows_spec _ _ _ _ Ec) as (Hlen & Hold & _ & Hs & _).
  rewrite app_length in Hlen, Hold, Hs. cbn [length] in Hlen, Hold, Hs.
  split.
  - right. eexists. split; [reflexivity|]. split.
    + unfold fresh_obj, obj_locs. cbn [o_hdr o_rows st_heap st_objs]. rewrite Hs. split.
      * constructor; [rewrite in_seq; lia|apply seq_NoDup].
      * constructor; [lia|]. rewrite Forall_forall. intros l Hl. rewrite in_seq in Hl. lia.
    + unfold stale_from. cbn [o_stale]. intros r0 Hr0. exists src, o. split; [exact Eo|].
      unfold stale_of in Hr0. destruct (o_kind o).
      * destruct (o_strkeys o); [|destruct Hr0]. left. right. apply in_map. exact Hr0.
      * right. exact Hr0.
  - split; [lia|]. intros l Hl _. rewrite Hold by lia. apply hget_app_old. exact Hl.
Qed.

Lemma new_dict_step : forall s hdr rows sk s' r,
  new_dict s hdr rows sk = (s', r) ->
  objs_step s s' /\ heap_only [] (st_heap s) (st_heap s').
Proof.
  intros s hdr rows sk s' r E. unfold new_dict, halloc in E.
  destruct (alloc_rows (st_heap s ++ [hdr]) rows) as [h2 rows'] eqn:Ec.
  inversion E; subst s' r. clear E. cbn [st_objs st_heap].
  destruct (alloc_rows_spec _ _ _ _ Ec) as (Hlen & Hold & Hs & _).
  rewrite app_length in Hlen, Hold, Hs. cbn [length] in Hlen, Hold, Hs.
  split.
  - right. eexists. split; [reflexivity|]. split.
    + unfold fresh_obj, obj_locs. cbn [o_hdr o_rows st_heap st_objs]. rewrite Hs. split.
      * constructor; [rewrite in_seq; lia|apply seq_NoDup].
      * constructor; [lia|]. rewrite Forall_forall. intros l Hl. rewrite in_seq in Hl. lia.
    + intros r0 Hr0. destruct Hr0.
  - split; [lia|]. intros l Hl _. rewrite Hold by lia. apply hget_app_old. exact Hl.
Qed.

(* every operation keeps the objects (or appends a fresh one) and writes only to
   locations of its target *)
Lemma exec_step : forall o s s' r,
  exec o s = (s', r) ->
  objs_step s s' /\ heap_only (target_locs s o) (st_heap s) (st_heap s').
Proof.
  intros o s s' r E. destruct o as [hdr rows sk|src req|tgt e src f ov an|tgt id col v|tgt id i v|tgt id v|tgt n];
    cbn [exec] in E; unfold target_locs; cbn [target].
  - eapply new_dict_step. exact E.
  - eapply cons_with_copy_step. exact E.
  - unfold add_entries in E.
    destruct (nth_error (st_objs s) tgt) as [ob|]; [|inversion E; subst; split; [left; reflexivity|apply heap_only_refl]].
    destruct (o_kind ob); [inversion E; subst; split; [left; reflexivity|apply heap_only_refl]|].
    set (hdr := hget (st_heap s) (o_hdr ob)) in *.
    destruct (index_of e hdr) as [i|].
    + destruct (ov || an); [|inversion E; subst; split; [left; reflexivity|apply heap_only_refl]].
      destruct (match src with SCols cols => map_opt (fun c => index_of c hdr) cols | SDict _ => Some [] end) as [ix|];
        [|inversion E; subst; split; [left; reflexivity|apply heap_only_refl]].
      destruct (apply_rows (st_heap s) (o_rows ob) src ix f (MOverride i)) as [h2 r2] eqn:Ea.
      inversion E; subst s' r. cbn [st_objs st_heap]. split; [left; reflexivity|].
      destruct (apply_rows_only _ _ _ _ _ _ _ _ Ea) as [Hlen Hoth]. split; [lia|].
      intros l _ Hn. apply Hoth. intro Hc. apply Hn. right. exact Hc.
    + destruct (match src with SCols cols => map_opt (fun c => index_of c (hdr ++ [e])) cols | SDict _ => Some [] end) as [ix|].
      * destruct (apply_rows (hset (st_heap s) (o_hdr ob) (hdr ++ [e])) (o_rows ob) src ix f MAppend) as [h2 r2] eqn:Ea.
        inversion E; subst s' r. cbn [st_objs st_heap]. split; [left; reflexivity|].
        destruct (apply_rows_only _ _ _ _ _ _ _ _ Ea) as [Hlen Hoth]. rewrite hset_length in Hlen. split; [lia|].
        intros l _ Hn. rewrite Hoth by (intro Hc; apply Hn; right; exact Hc).
        apply hget_hset_other. intro Hc. apply Hn. left. exact Hc.
      * inversion E; subst s' r. cbn [st_objs st_heap]. split; [left; reflexivity|].
        apply hset_only. left. reflexivity.
  - unfold set_item in E.
    destruct (nth_error (st_objs s) tgt) as [ob|]; [|inversion E; subst; split; [left; reflexivity|apply heap_only_refl]].
    destruct (o_kind ob); [inversion E; subst; split; [left; reflexivity|apply heap_only_refl]|].
    destruct (find_row (o_rows ob) id) as [l|] eqn:Ef; [|inversion E; subst; split; [left; reflexivity|apply heap_only_refl]].
    destruct (index_of col (hget (st_heap s) (o_hdr ob))) as [i|]; [|inversion E; subst; split; [left; reflexivity|apply heap_only_refl]].
    destruct (set_nth (hget (st_heap s) l) i v) as [row'|]; [|inversion E; subst; split; [left; reflexivity|apply heap_only_refl]].
    inversion E; subst s' r. cbn [st_objs st_heap]. split; [left; reflexivity|].
    apply hset_only. right. eapply find_row_in. exact Ef.
  - unfold dict_set in E.
    destruct (nth_error (st_objs s) tgt) as [ob|]; [|inversion E; subst; split; [left; reflexivity|apply heap_only_refl]].
    destruct (o_kind ob); [|inversion E; subst; split; [left; reflexivity|apply heap_only_refl]].
    destruct (find_row (o_rows ob) id) as [l|] eqn:Ef; [|inversion E; subst; split; [left; reflexivity|apply heap_only_refl]].
    destruct (set_nth (hget (st_heap s) l) i v) as [row'|]; [|inversion E; subst; split; [left; reflexivity|apply heap_only_refl]].
    inversion E; subst s' r. cbn [st_objs st_heap]. split; [left; reflexivity|].
    apply hset_only. right. eapply find_row_in. exact Ef.
  - unfold dict_append in E.
    destruct (nth_error (st_objs s) tgt) as [ob|]; [|inversion E; subst; split; [left; reflexivity|apply heap_only_refl]].
    destruct (o_kind ob); [|inversion E; subst; split; [left; reflexivity|apply heap_only_refl]].
    destruct (find_row (o_rows ob) id) as [l|] eqn:Ef; [|inversion E; subst; split; [left; reflexivity|apply heap_only_refl]].
    inversion E; subst s' r. cbn [st_objs st_heap]. split; [left; reflexivity|].
    apply hset_only. right. eapply find_row_in. exact Ef.
  - unfold dict_hdr_append in E.
    destruct (nth_error (st_objs s) tgt) as [ob|]; [|inversion E; subst; split; [left; reflexivity|apply heap_only_refl]].
    destruct (o_kind ob); [|inversion E; subst; split; [left; reflexivity|apply heap_only_refl]].
    inversion E; subst s' r. cbn [st_objs st_heap]. split; [left; reflexivity|].
    apply hset_only. left. reflexivity.
Qed.

(* ------------------------------------------------------------------ *)
(* invariant *)

Lemma step_wf : forall s s',
  wf s -> objs_step s s' -> length (st_heap s) <= length (st_heap s') -> wf s'.
Proof.
  intros s s' Hw Hs Hlen. pose proof Hw as (Hn & Hf & Hst). destruct Hs as [Heq|[o [Heq [[Hfn Hfr] Hsf]]]].
  - unfold wf, all_locs. rewrite Heq. split; [exact Hn|]. split.
    + eapply Forall_impl; [|exact Hf]. cbn. intros; lia.
    + eapply Forall_impl; [|exact Hst]. unfold stale_alloc. intros a Ha. eapply Forall_impl; [|exact Ha]. cbn. intros; lia.
  - destruct s' as [h' objs']. cbn [st_objs st_heap] in *. subst objs'. unfold wf.
    rewrite all_locs_app. cbn [st_heap st_objs]. split; [|split].
    + apply NoDup_app_intro; [exact Hn|exact Hfn|].
      intros x Hx1 Hx2. rewrite Forall_forall in Hf, Hfr.
      specialize (Hf x Hx1). specialize (Hfr x Hx2). lia.
    + apply Forall_app. split.
      * eapply Forall_impl; [|exact Hf]. cbn. intros; lia.
      * eapply Forall_impl; [|exact Hfr]. cbn. intros; lia.
    + apply Forall_app. split.
      * eapply Forall_impl; [|exact Hst]. unfold stale_alloc. intros a Ha. eapply Forall_impl; [|exact Ha]. cbn. intros; lia.
      * constructor; [|constructor]. unfold stale_alloc. rewrite Forall_forall. intros r0 Hr0.
        destruct (Hsf r0 Hr0) as (k & ob & Hk & [Hin|Hin]).
        -- eapply Nat.lt_le_trans; [exact (wf_alloc s k ob (snd r0) Hw Hk Hin)|exact Hlen].
        -- eapply Nat.lt_le_trans; [exact (wf_stale s k ob r0 Hw Hk Hin)|exact Hlen].
Qed.

Theorem exec_wf : forall o s, wf s -> wf (fst (exec o s)).
Proof.
  intros o s Hw. destruct (exec o s) as [s' r] eqn:E. cbn [fst].
  destruct (exec_step _ _ _ _ E) as [Hs [Hlen _]]. eapply step_wf; eauto.
Qed.

Theorem run_wf : forall ops s, wf s -> wf (run ops s).
Proof.
  induction ops as [|o t IH]; intros s Hw; cbn [run]; [exact Hw|]. apply IH. apply exec_wf. exact Hw.
Qed.

(* every state reached by a history from the empty state is well-formed *)
Corollary reachable_wf : forall ops, wf (run ops empty_state).
Proof. intros ops. apply run_wf. apply wf_empty. Qed.

(* ------------------------------------------------------------------ *)
(* frame *)

Lemma objs_step_nth : forall s s' k o,
  objs_step s s' -> nth_error (st_objs s) k = Some o -> nth_error (st_objs s') k = Some o.
Proof.
  intros s s' k o [Heq|[o' [Heq _]]] Hk; rewrite Heq; [exact Hk|].
  rewrite nth_error_app1; [exact Hk|]. apply nth_error_Some. congruence.
Qed.

Lemma view_obj_ext : forall h h' o,
  (forall l, In l (obj_locs o) -> hget h' l = hget h l) -> view_obj h' o = view_obj h o.
Proof.
  intros h h' o H. unfold view_obj. f_equal.
  - apply H. left. reflexivity.
  - apply map_ext_in. intros r Hr. f_equal. apply H. right. apply in_map. exact Hr.
Qed.

(* one operation leaves the view of every object it does not target unchanged *)
Theorem exec_frame : forall o s k,
  wf s -> k < length (st_objs s) -> target o <> Some k ->
  view (fst (exec o s)) k = view s k.
Proof.
  intros o s k Hw Hk Ht. destruct (exec o s) as [s' r] eqn:E. cbn [fst].
  destruct (exec_step _ _ _ _ E) as [Hs [Hlen Hoth]].
  destruct (nth_error (st_objs s) k) as [ob|] eqn:Ek; [|apply nth_error_None in Ek; lia].
  unfold view. rewrite Ek, (objs_step_nth _ _ _ _ Hs Ek). cbn [option_map]. f_equal.
  apply view_obj_ext. intros l Hl. apply Hoth.
  - eapply wf_alloc; eauto.
  - unfold target_locs. destruct (target o) as [t|]; [|intros []].
    destruct (nth_error (st_objs s) t) as [ot|] eqn:Et; [|intros []].
    intro Hc. apply (wf_disjoint s k t ob ot l Hw); auto; congruence.
Qed.

Lemma exec_objs_length : forall o s, length (st_objs s) <= length (st_objs (fst (exec o s))).
Proof.
  intros o s. destruct (exec o s) as [s' r] eqn:E. cbn [fst].
  destruct (exec_step _ _ _ _ E) as [[Heq|[o' [Heq _]]] _]; rewrite Heq; [lia|].
  rewrite app_length. cbn [length]. lia.
Qed.

(* ops_frame: a whole history that never targets object k leaves its view unchanged,
   whatever it does to the other objects (including building objects from k) *)
Theorem run_frame : forall ops s k,
  wf s -> k < length (st_objs s) -> Forall (fun o => target o <> Some k) ops ->
  view (run ops s) k = view s k.
Proof.
  induction ops as [|o t IH]; intros s k Hw Hk Hall; cbn [run]; [reflexivity|].
  inversion Hall as [|x r Hx Hr]; subst.
  rewrite IH.
  - apply exec_frame; assumption.
  - apply exec_wf. exact Hw.
  - pose proof (exec_objs_length o s). lia.
  - exact Hr.
Qed.

(* ------------------------------------------------------------------ *)
(* construction *)

Lemma eff_rows_nostale : forall o, o_stale o = [] -> eff_rows o = o_rows o.
Proof.
  intros o H. unfold eff_rows. rewrite H. cbn [find_row]. rewrite <- (map_id (o_rows o)) at 2.
  apply map_ext. intros [a b]. reflexivity.
Qed.

Lemma eff_view_nostale : forall h o, o_stale o = [] -> eff_view_obj h o = view_obj h o.
Proof. intros h o H. unfold eff_view_obj, view_obj. rewrite (eff_rows_nostale o H). reflexivity. Qed.

Lemma eff_rows_alloc : forall s k o r,
  wf s -> nth_error (st_objs s) k = Some o -> In r (eff_rows o) -> snd r < length (st_heap s).
Proof.
  intros s k o r Hw Hk Hr. unfold eff_rows in Hr. apply in_map_iff in Hr. destruct Hr as [r0 [<- Hr0]]. cbn [snd].
  destruct (find_row (o_stale o) (fst r0)) as [l'|] eqn:Ef.
  - assert (Hin : exists id, In (id, l') (o_stale o)).
    { clear -Ef. induction (o_stale o) as [|[k0 l0] t IH]; cbn [find_row] in Ef; [discriminate|].
      destruct (Z.eqb k0 (fst r0)).
      - inversion Ef; subst. exists k0. left. reflexivity.
      - destruct (IH Ef) as [id Hid]. exists id. right. exact Hid. }
    destruct Hin as [id Hin]. exact (wf_stale s k o (id, l') Hw Hk Hin).
  - eapply wf_alloc; [exact Hw|exact Hk|]. right. apply in_map. exact Hr0.
Qed.

(* fresh_disjoint + copy: a successful construction appends an object that owns
   locations no existing object owns.  It reads like what the constructor reads from
   its source: the source's header and rows - except that a row for which the source's
   _meta holds a reference under the numeric-string key of its id is read through
   that reference (eff_view_obj); without such references: exactly like the source *)
Theorem cons_fresh_copy : forall s src req s' osrc,
  wf s -> nth_error (st_objs s) src = Some osrc -> cons_obj s src req = (s', false) ->
  let n := length (st_objs s) in
  length (st_objs s') = S n
  /\ view s' n = Some (eff_view_obj (st_heap s) osrc)
  /\ (o_stale osrc = [] -> view s' n = view s src)
  /\ (exists o, nth_error (st_objs s') n = Some o /\ o_kind o = KWl /\
        forall j oj l, j < n -> nth_error (st_objs s') j = Some oj -> In l (obj_locs oj) -> ~ In l (obj_locs o)).
Proof.
  intros s src req s' osrc Hw Es E n.
  assert (Hw' : wf s') by (replace s' with (fst (cons_obj s src req)) by (rewrite E; reflexivity); apply (exec_wf (OCons src req)); exact Hw).
  unfold cons_obj, cons_with in E. rewrite Es in E.
  destruct (cons_ok (st_heap s) osrc req); [|inversion E].
  unfold halloc in E.
  destruct (copy_rows (st_heap s ++ [hget (st_heap s) (o_hdr osrc)]) (eff_rows osrc)) as [h2 rows'] eqn:Ec.
  injection E as E'. subst s'.
  destruct (copy_rows_spec _ _ _ _ Ec) as (Hlen & Hold & Hf & Hs & Hv).
  rewrite app_length in Hlen, Hold, Hs. cbn [length] in Hlen, Hold, Hs.
  cbn [st_objs st_heap].
  assert (Hview : view (mkState h2 (st_objs s ++ [mkObj KWl (length (st_heap s)) rows' false (stale_of osrc)])) n
                  = Some (eff_view_obj (st_heap s) osrc)).
  { unfold view. cbn [st_objs st_heap]. rewrite nth_error_app2 by (fold n; lia). fold n. rewrite Nat.sub_diag. cbn [nth_error option_map].
    f_equal. unfold view_obj, eff_view_obj. cbn [o_hdr o_rows]. f_equal.
    + rewrite Hold by lia. apply hget_app_new.
    + rewrite Hv.
      * apply map_ext_in. intros r Hr. f_equal. apply hget_app_old.
        eapply eff_rows_alloc; [exact Hw|exact Es|exact Hr].
      * rewrite Forall_forall. intros r Hr. rewrite app_length. cbn [length].
        pose proof (eff_rows_alloc s src osrc r Hw Es Hr) as Hl.
        eapply Nat.lt_le_trans; [exact Hl|]. lia. }
  split; [rewrite app_length; cbn [length]; fold n; lia|]. split; [exact Hview|]. split.
  - intros Hns. rewrite Hview. unfold view. rewrite Es. cbn [option_map]. f_equal. apply eff_view_nostale. exact Hns.
  - eexists. split; [rewrite nth_error_app2 by (fold n; lia); fold n; rewrite Nat.sub_diag; reflexivity|].
    split; [reflexivity|]. intros j oj l Hj Hnj Hl Hc.
    eapply (wf_disjoint _ j n oj _ l Hw'); [lia|exact Hnj| |exact Hl|exact Hc].
    cbn [st_objs]. rewrite nth_error_app2 by (fold n; lia). fold n. rewrite Nat.sub_diag. reflexivity.
Qed.

(* source_unchanged: build an object from src, then do anything that does not
   target src (to the new object, to third objects, further constructions):
   src reads as before - also when the new object keeps _meta references to rows of src *)
Theorem source_unchanged : forall s src req s' ops,
  wf s -> src < length (st_objs s) -> cons_obj s src req = (s', false) ->
  Forall (fun o => target o <> Some src) ops ->
  view (run ops s') src = view s src.
Proof.
  intros s src req s' ops Hw Hsrc E Hall.
  assert (Es : s' = fst (exec (OCons src req) s)) by (cbn [exec]; rewrite E; reflexivity).
  rewrite run_frame.
  - rewrite Es. apply exec_frame; [exact Hw|exact Hsrc|cbn; discriminate].
  - rewrite Es. apply exec_wf. exact Hw.
  - rewrite Es. pose proof (exec_objs_length (OCons src req) s). lia.
  - exact Hall.
Qed.

(* new_unaffected_by_source: ... and anything that does not target the new object
   (e.g. any changes of the source, or of the dictionary its _meta references point
   to) leaves the new object reading as it did when it was built *)
Theorem new_unaffected_by_source : forall s src req s' osrc ops,
  wf s -> nth_error (st_objs s) src = Some osrc -> cons_obj s src req = (s', false) ->
  Forall (fun o => target o <> Some (length (st_objs s))) ops ->
  view (run ops s') (length (st_objs s)) = Some (eff_view_obj (st_heap s) osrc)
  /\ (o_stale osrc = [] -> view (run ops s') (length (st_objs s)) = view s src).
Proof.
  intros s src req s' osrc ops Hw Es0 E Hall.
  destruct (cons_fresh_copy _ _ _ _ _ Hw Es0 E) as (Hlen & Hview & Hview2 & _).
  assert (Es : s' = fst (exec (OCons src req) s)) by (cbn [exec]; rewrite E; reflexivity).
  assert (Hf : view (run ops s') (length (st_objs s)) = view s' (length (st_objs s))).
  { apply run_frame.
    - rewrite Es. apply exec_wf. exact Hw.
    - lia.
    - exact Hall. }
  split; [rewrite Hf; exact Hview|]. intros Hns. rewrite Hf. apply Hview2. exact Hns.
Qed.

(* the dictionary a caller builds reads as written *)
Theorem new_dict_view : forall s hdr rows sk,
  view (fst (new_dict s hdr rows sk)) (length (st_objs s)) = Some (hdr, rows).
Proof.
  intros s hdr rows sk. unfold new_dict, halloc.
  destruct (alloc_rows (st_heap s ++ [hdr]) rows) as [h2 rows'] eqn:Ec. cbn [fst].
  destruct (alloc_rows_spec _ _ _ _ Ec) as (Hlen & Hold & Hs & Hv).
  rewrite app_length in Hold. cbn [length] in Hold.
  unfold view. cbn [st_objs st_heap]. rewrite nth_error_app2 by lia. rewrite Nat.sub_diag. cbn [nth_error option_map].
  f_equal. unfold view_obj. cbn [o_hdr o_rows]. f_equal; [|exact Hv].
  rewrite Hold by lia. apply hget_app_new.
Qed.

(* the unguarded copy statement is false of the model, as it is of the code: a
   dictionary with numeric-string row keys (ids 7, 9), a wordlist built from it, an
   assignment to row 9 of the wordlist, a wordlist built from the wordlist *)
Definition sk_s0 : state := run [ONewDict [1; 2]%Z [(7, [10; 20]); (9, [11; 21])]%Z true; OCons 0 []] empty_state.
Definition sk_s1 : state := run [OSet 1 9%Z 2%Z 55%Z] sk_s0.

Lemma copy_fidelity_refuted :
  exists s src req s',
    wf s /\ cons_obj s src req = (s', false) /\ view s' (length (st_objs s)) <> view s src.
Proof.
  exists sk_s1, 1, [], (fst (cons_obj sk_s1 1 [])). split; [|split].
  - unfold sk_s1, sk_s0. apply run_wf. apply reachable_wf.
  - vm_compute. reflexivity.
  - vm_compute. discriminate.
Qed.

(* ... while the caller's dictionary is still untouched by whatever is done to both wordlists *)
Lemma sk_dictionary_safe :
  view (run [OAdd 2 3%Z (SDict [(7, 1); (9, 2)]%Z) (fun a => match a with [x] => Some x | _ => None end) false false;
             OSet 2 7%Z 1%Z 99%Z] (fst (cons_obj sk_s1 1 []))) 0
  = Some ([1; 2]%Z, [(7, [10; 20]); (9, [11; 21])]%Z)
  /\ view (fst (cons_obj sk_s1 1 [])) 2 = Some ([1; 2]%Z, [(7, [10; 20]); (9, [11; 21])]%Z)
  /\ view sk_s1 1 = Some ([1; 2]%Z, [(7, [10; 20]); (9, [11; 55])]%Z).
Proof. vm_compute. repeat split; reflexivity. Qed.
