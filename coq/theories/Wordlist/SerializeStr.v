(* C13 - strings as lists of Unicode code points, and the Python string
   primitives the wordlist writer / reader use: str.strip, str.split(sep),
   str.split(), sep.join, str(int), int(str), ASCII case mapping.
   Model only (no proofs here). *)
From Coq Require Import ZArith List Bool.
Import ListNotations.
Local Open Scope Z_scope.

Definition str := list Z.

(* code points used below: 9 TAB, 10 LF, 13 CR, 32 SPACE, 35 '#', 43 '+', 45 '-',
   46 '.', 48..57 digits, 60 '<', 62 '>', 64 '@', 95 '_' *)

(* Python str.isspace() per character = the set str.strip() / str.split() / int() / float() skip *)
Definition is_space (c : Z) : bool :=
  ((9 <=? c) && (c <=? 13)) || ((28 <=? c) && (c <=? 32)) || (c =? 133) || (c =? 160)
  || (c =? 5760) || ((8192 <=? c) && (c <=? 8202)) || (c =? 8232) || (c =? 8233)
  || (c =? 8239) || (c =? 8287) || (c =? 12288).

Definition is_digit (c : Z) : bool := (48 <=? c) && (c <=? 57).

Fixpoint str_eqb (a b : str) : bool :=
  match a, b with
  | [], [] => true
  | x :: a', y :: b' => (x =? y) && str_eqb a' b'
  | _, _ => false
  end.

(* Python's str comparison: lexicographic on code points *)
Fixpoint str_leb (a b : str) : bool :=
  match a, b with
  | [], _ => true
  | _ :: _, [] => false
  | x :: a', y :: b' => if x <? y then true else if y <? x then false else str_leb a' b'
  end.

Fixpoint mem_str (s : str) (l : list str) : bool :=
  match l with [] => false | x :: r => str_eqb s x || mem_str s r end.

(* ASCII case mapping (str.lower / str.upper restricted to ASCII letters; other code points unchanged) *)
Definition lowc (c : Z) : Z := if (65 <=? c) && (c <=? 90) then c + 32 else c.
Definition upc (c : Z) : Z := if (97 <=? c) && (c <=? 122) then c - 32 else c.
Definition lower (s : str) : str := map lowc s.
Definition upper (s : str) : str := map upc s.

(* ---- strip ---- *)
Fixpoint lstrip (s : str) : str :=
  match s with
  | [] => []
  | c :: r => if is_space c then lstrip r else s
  end.
Definition rstrip (s : str) : str := rev (lstrip (rev s)).
Definition strip (s : str) : str := rstrip (lstrip s).

(* str.rstrip('.') and the like *)
Fixpoint lstrip_c (x : Z) (s : str) : str :=
  match s with
  | [] => []
  | c :: r => if c =? x then lstrip_c x r else s
  end.
Definition rstrip_c (x : Z) (s : str) : str := rev (lstrip_c x (rev s)).

(* the property's guard on a string: no leading / trailing blank *)
Definition strippedb (s : str) : bool :=
  match s with
  | [] => true
  | c :: _ => negb (is_space c) && negb (is_space (last s 0))
  end.

(* ---- split / join ---- *)
(* s.split(sep) for a one-character separator: always at least one field *)
Fixpoint split_on (sep : Z) (s : str) : list str :=
  match s with
  | [] => [[]]
  | c :: r =>
      if c =? sep then [] :: split_on sep r
      else match split_on sep r with
           | [] => [[c]]
           | f :: fs => (c :: f) :: fs
           end
  end.

(* sep.join(xs) *)
Fixpoint join (sep : str) (xs : list str) : str :=
  match xs with
  | [] => []
  | x :: r => match r with
              | [] => x
              | _ :: _ => x ++ sep ++ join sep r
              end
  end.

(* s.split(): split on runs of blanks, no empty items *)
Fixpoint words_aux (s : str) : str * list str :=
  match s with
  | [] => ([], [])
  | c :: r =>
      let (w, ws) := words_aux r in
      if is_space c then ([], match w with [] => ws | _ :: _ => w :: ws end)
      else (c :: w, ws)
  end.
Definition split_ws (s : str) : list str :=
  let (w, ws) := words_aux s in
  match w with [] => ws | _ :: _ => w :: ws end.

(* text <-> lines.  The writer ends every line with LF; the reader (text mode, universal
   newlines, then line.strip("\r\n")) yields the lines without the terminator. *)
Definition unlines (ls : list str) : str := concat (map (fun l => l ++ [10]) ls).
Definition lines_of (text : str) : list str :=
  let fs := split_on 10 text in
  match rev fs with
  | [] :: r => rev r          (* text ended with LF (or is empty): no last partial line *)
  | _ => fs
  end.

(* ---- integers ---- *)
(* decimal digits of a non-negative number, most significant first; fuel = number of digits allowed *)
Fixpoint digs (fuel : nat) (n : Z) : str :=
  match fuel with
  | O => []
  | S f => if n <? 10 then [48 + n] else digs f (n / 10) ++ [48 + n mod 10]
  end.
Definition show_nat (n : Z) : str := digs (S (Z.to_nat (Z.log2 n))) n.
(* str(int) *)
Definition show_int (z : Z) : str := if z <? 0 then 45 :: show_nat (- z) else show_nat z.

(* the digit part of Python's int(): ASCII digits, single underscores between digits *)
Fixpoint ubody (prev_digit : bool) (acc : Z) (s : str) : option Z :=
  match s with
  | [] => if prev_digit then Some acc else None
  | c :: r =>
      if is_digit c then ubody true (acc * 10 + (c - 48)) r
      else if (c =? 95) && prev_digit then ubody false acc r
      else None
  end.
(* int(s): surrounding blanks, optional sign.  None = ValueError.
   (Non-ASCII decimal digits, which Python also accepts, are not modelled.) *)
Definition parse_int (s : str) : option Z :=
  let t := strip s in
  match t with
  | [] => None
  | c :: r => if c =? 45 then option_map Z.opp (ubody false 0 r)
              else if c =? 43 then ubody false 0 r
              else ubody false 0 t
  end.

