(* What an accepting run of the checkers of WordlistCheck.v means: each
   checker = true implies the corresponding clause, stated on the snapshot the
   implementation returned. *)
From Coq Require Import ZArith QArith List Bool String Lia Sorted Permutation Arith.
From LV Require Import Common.Cases Wordlist.Rows Wordlist.RowsProofs Wordlist.Index Wordlist.Views
     Wordlist.Renumber Wordlist.Dist Wordlist.Paps Wordlist.WordlistExec Wordlist.WordlistCheck.
Import ListNotations.
Local Open Scope Z_scope.

(* ------------------------------------------------------------ equalities *)
Lemma zlist_eqb_spec a b : zlist_eqb a b = true <-> a = b.
Proof.
  revert b. induction a as [|x t IH]; intros [|y t']; cbn [zlist_eqb]; try (split; [discriminate|discriminate]).
  - split; reflexivity.
  - rewrite andb_true_iff, Z.eqb_eq, IH. split; [intros [-> ->]; reflexivity|intros E; inversion E; auto].
Qed.

Lemma cell_eqb_spec a b : cell_eqb a b = true <-> a = b.
Proof.
  destruct a as [x|l], b as [y|l']; cbn [cell_eqb].
  - rewrite Z.eqb_eq. split; [intros ->; reflexivity|intros E; inversion E; reflexivity].
  - split; discriminate.
  - split; discriminate.
  - rewrite zlist_eqb_spec. split; [intros ->; reflexivity|intros E; inversion E; reflexivity].
Qed.

Lemma cl_eqb_spec a b : cl_eqb a b = true <-> a = b.
Proof. apply list_eqb_spec. apply cell_eqb_spec. Qed.
Lemma cll_eqb_spec a b : cll_eqb a b = true <-> a = b.
Proof. apply list_eqb_spec. apply cl_eqb_spec. Qed.
Lemma zl_eqb_spec a b : zl_eqb a b = true <-> a = b.
Proof. apply list_eqb_spec. apply Z.eqb_eq. Qed.

Lemma option_cl_eqb_spec a b : option_eqb cl_eqb a b = true <-> a = b.
Proof.
  destruct a as [x|], b as [y|]; cbn [option_eqb]; try (split; [discriminate|discriminate]).
  - rewrite cl_eqb_spec. split; [intros ->; reflexivity|intros E; inversion E; reflexivity].
  - split; reflexivity.
Qed.

Definition cell_eq_dec (a b : cell) : {a = b} + {a <> b}.
Proof.
  destruct (cell_eqb a b) eqn:E; [left; apply cell_eqb_spec; exact E|right].
  intros H. apply cell_eqb_spec in H. congruence.
Defined.

Lemma ccount_count_occ x l : ccount x l = count_occ cell_eq_dec l x.
Proof.
  unfold ccount. induction l as [|a t IH]; [reflexivity|]. cbn [filter count_occ].
  destruct (cell_eq_dec a x) as [->|N].
  - replace (cell_eqb x x) with true by (symmetry; apply cell_eqb_spec; reflexivity). cbn [List.length]. rewrite IH. reflexivity.
  - replace (cell_eqb x a) with false; [exact IH|]. symmetry. apply not_true_is_false. intros H.
    apply cell_eqb_spec in H. congruence.
Qed.

(* the multiset comparison of the flat views *)
Lemma cperm_b_spec a b : cperm_b a b = true -> Permutation a b.
Proof.
  unfold cperm_b. intros H. apply (Permutation_count_occ cell_eq_dec). intros x.
  rewrite forallb_forall in H.
  destruct (in_dec cell_eq_dec x (a ++ b)) as [Hin|Hn].
  - specialize (H x Hin). apply Nat.eqb_eq in H. rewrite <- !ccount_count_occ. exact H.
  - rewrite in_app_iff in Hn.
    rewrite (proj1 (count_occ_not_In cell_eq_dec a x)) by tauto.
    rewrite (proj1 (count_occ_not_In cell_eq_dec b x)) by tauto. reflexivity.
Qed.

Lemma zsubset_b_spec a b : zsubset_b a b = true -> incl a b.
Proof. unfold zsubset_b. rewrite forallb_forall. intros H x Hx. apply zmem_In. exact (H x Hx). Qed.

Lemma znodup_b_spec l : znodup_b l = true -> NoDup l.
Proof.
  induction l as [|x t IH]; cbn [znodup_b]; intros H; [constructor|].
  apply andb_true_iff in H. destruct H as [H1 H2]. constructor; [|exact (IH H2)].
  intros Hin. apply zmem_In in Hin. rewrite Hin in H1. discriminate.
Qed.

Lemma sortedb_spec K l : sortedb K l = true -> StronglySorted (kltP K) l.
Proof.
  intros H. apply Sorted_StronglySorted; [intros x y z; apply klt_trans|].
  induction l as [|x t IH]; [constructor|]. cbn [sortedb] in H. apply andb_true_iff in H. destruct H as [H1 H2].
  constructor; [exact (IH H2)|]. destruct t as [|y t']; constructor. exact H1.
Qed.

Lemma In_combine_seq {A} (l : list A) (d : A) : forall a j, (j < List.length l)%nat ->
  In ((a + j)%nat, nth j l d) (combine (seq a (List.length l)) l).
Proof.
  induction l as [|x t IH]; intros a j Hj; cbn [List.length] in Hj; [lia|].
  cbn [List.length seq combine]. destruct j as [|j].
  - left. cbn [nth]. f_equal. lia.
  - right. cbn [nth]. replace (a + Datatypes.S j)%nat with (Datatypes.S a + j)%nat by lia. apply IH. lia.
Qed.

(* ------------------------------------------------------- rows / cols / len *)
Section Specs.
  Variables (K : keys) (S : snapshot) (ri ci : nat).
  Let D := s_data S.

  (* rows_cols_sorted_distinct and len_rows, for the implementation's output *)
  Theorem rowscols_b_spec : rowscols_b K S ri ci = true ->
    StronglySorted (kltP K) (s_rows S) /\ (forall c, In c (s_rows S) <-> exists r, In r D /\ rkey ri r = c) /\
    StronglySorted (kltP K) (s_cols S) /\ (forall l, In l (s_cols S) <-> exists r, In r D /\ rkey ci r = l) /\
    s_height S = Z.of_nat (List.length (s_rows S)) /\ s_width S = Z.of_nat (List.length (s_cols S)) /\
    s_len S = Z.of_nat (List.length D).
  Proof.
    unfold rowscols_b. rewrite !andb_true_iff, !Z.eqb_eq.
    intros [[[[[[[[H1 H2] H3] H4] H5] H6] H7] H8] H9].
    apply sortedb_spec in H1. apply sortedb_spec in H4.
    apply zsubset_b_spec in H2. apply zsubset_b_spec in H3. apply zsubset_b_spec in H5. apply zsubset_b_spec in H6.
    repeat split; auto.
    - intros Hc. apply H2 in Hc. apply in_map_iff in Hc. destruct Hc as [r [E Hr]]. exists r. auto.
    - intros [r [Hr E]]. apply H3. apply in_map_iff. exists r. auto.
    - intros Hc. apply H5 in Hc. apply in_map_iff in Hc. destruct Hc as [r [E Hr]]. exists r. auto.
    - intros [r [Hr E]]. apply H6. apply in_map_iff. exists r. auto.
  Qed.

  (* array_each_id_once, for the implementation's output *)
  Theorem array_b_spec : array_b S ri ci = true ->
    (forall r, In r D ->
       zcount (fst r) (List.concat (s_array S)) = 1%nat /\
       exists i j, aget (s_array S) i j = fst r /\ nth_Z (s_cols S) j = rkey ci r
                   /\ In (Z.of_nat i) (idx_of S (rkey ri r))) /\
    List.length (nonzero (List.concat (s_array S))) = List.length D.
  Proof.
    unfold array_b. rewrite !andb_true_iff. intros [[H1 H2] _]. split; [|apply Nat.eqb_eq; exact H2].
    intros r Hr. rewrite forallb_forall in H1. specialize (H1 r Hr). apply andb_true_iff in H1.
    destruct H1 as [Hc He]. split; [apply Nat.eqb_eq; exact Hc|].
    apply existsb_exists in He. destruct He as [i [_ He]]. apply existsb_exists in He. destruct He as [j [_ He]].
    rewrite !andb_true_iff, !Z.eqb_eq in He. destruct He as [[E1 E2] E3]. exists i, j.
    split; [exact E1|]. split; [exact E2|apply zmem_In; exact E3].
  Qed.

  (* C17 distances, for the implementation's output *)
  Theorem dst_one_b_spec ref ignore m : dst_one_b S ri ci ref ignore m = true ->
    forall i j, (i < List.length (s_cols S))%nat -> (j < List.length (s_cols S))%nat ->
      (qget m i j == qget m j i)%Q /\ (0 <= qget m i j)%Q /\ (qget m i j <= 1)%Q /\
      (i = j -> (qget m i j == 0)%Q) /\
      (i <> j -> (qget m i j == dst_decl D ri ci (s_rows S) ref ignore (nth_Z (s_cols S) i) (nth_Z (s_cols S) j))%Q).
  Proof.
    unfold dst_one_b. rewrite !andb_true_iff. intros [_ H] i j Hi Hj.
    rewrite forallb_forall in H. specialize (H i (proj2 (in_seq _ _ _) (conj (Nat.le_0_l i) Hi))).
    rewrite forallb_forall in H. specialize (H j (proj2 (in_seq _ _ _) (conj (Nat.le_0_l j) Hj))).
    rewrite !andb_true_iff in H. destruct H as [[[H1 H2] H3] H4].
    apply Qeq_bool_iff in H1. apply Qle_bool_iff in H2. apply Qle_bool_iff in H3.
    repeat split; auto.
    - intros E. apply Nat.eqb_eq in E. rewrite E in H4. apply Qeq_bool_iff. exact H4.
    - intros N. apply Nat.eqb_neq in N. rewrite N in H4. apply Qeq_bool_iff. exact H4.
  Qed.

  (* C17 patterns, for the implementation's output *)
  Theorem paps_one_b_spec ref marker p : paps_one_b S ri ci ref marker p = true ->
    NoDup (map fst p) /\
    (forall cog, In cog (map fst p) <-> exists r, In r D /\ In cog (carried ref r)) /\
    forall cog vec, In (cog, vec) p ->
      vec = map (fun l => pap_code marker (pap_decl3 D ri ci ref cog l)) (s_cols S).
  Proof.
    unfold paps_one_b. rewrite !andb_true_iff. intros [[[H1 H2] H3] H4].
    split; [apply znodup_b_spec; exact H1|]. split.
    - intros cog. split.
      + intros Hc. rewrite forallb_forall in H2. specialize (H2 cog Hc). apply existsb_exists in H2.
        destruct H2 as [r [Hr Hm]]. exists r. split; [exact Hr|apply zmem_In; exact Hm].
      + intros [r [Hr Hc]]. rewrite forallb_forall in H3. specialize (H3 r Hr). apply zsubset_b_spec in H3. exact (H3 cog Hc).
    - intros cog vec Hin. rewrite forallb_forall in H4. specialize (H4 _ Hin). cbn [fst snd] in H4.
      apply zl_eqb_spec in H4. exact H4.
  Qed.

  (* etymdict_exact, for the implementation's output *)
  Theorem etym_one_b_spec ref e E : etym_one_b S ci ref e E = true ->
    NoDup (map fst E) /\
    (forall cog, In cog (map fst E) <-> exists r, In r D /\ In cog (carried ref r)) /\
    forall cog slots, In (cog, slots) E ->
      List.length slots = List.length (s_cols S) /\
      forall j, (j < List.length (s_cols S))%nat ->
        nth j slots [] = map (ent D e) (WordlistCheck.etym_spec S ci ref cog (nth_Z (s_cols S) j)).
  Proof.
    unfold etym_one_b. rewrite !andb_true_iff. intros [[[H1 H2] H3] H4].
    split; [apply znodup_b_spec; exact H1|]. split.
    - intros cog. split.
      + intros Hc. rewrite forallb_forall in H2. specialize (H2 cog Hc). apply existsb_exists in H2.
        destruct H2 as [r [Hr Hm]]. exists r. split; [exact Hr|apply zmem_In; exact Hm].
      + intros [r [Hr Hc]]. rewrite forallb_forall in H3. specialize (H3 r Hr). apply zsubset_b_spec in H3. exact (H3 cog Hc).
    - intros cog slots Hin. rewrite forallb_forall in H4. specialize (H4 _ Hin). cbn [fst snd] in H4.
      apply andb_true_iff in H4. destruct H4 as [L F]. apply Nat.eqb_eq in L. split; [exact L|].
      intros j Hj. rewrite forallb_forall in F.
      rewrite <- L in F, Hj. specialize (F _ (In_combine_seq slots [] 0 j Hj)).
      cbn [fst snd plus] in F. apply cl_eqb_spec in F. exact F.
  Qed.
End Specs.

(* ----------------------------------------------------------------- views *)
Lemma forallb_combine_nth {A B} (f : A * B -> bool) (a : list A) (b : list B) :
  forallb f (combine a b) = true ->
  forall k x y, nth_error a k = Some x -> nth_error b k = Some y -> f (x, y) = true.
Proof.
  revert b. induction a as [|x0 t IH]; intros b H k x y Ha Hb; [destruct k; discriminate|].
  destruct b as [|y0 t']; [destruct k; discriminate|]. cbn [combine forallb] in H.
  apply andb_true_iff in H. destruct H as [H1 H2].
  destruct k as [|k]; cbn [nth_error] in *; [inversion Ha; inversion Hb; subst; exact H1|].
  exact (IH t' H2 k x y Ha Hb).
Qed.

Section ViewSpecs.
  Variables (S : snapshot) (ri ci : nat).
  Let D := s_data S.

  (* views_agree, for the implementation's output: what was returned for the
     k-th concept / language is exactly what the rows say *)
  Theorem views_entry_b_spec e ev : views_entry_b S ri ci e ev = true ->
    (forall k c v, nth_error (s_rows S) k = Some c -> nth_error (ev_list_row ev) k = Some v ->
       fst v = map (map (ent D e)) (lines_of S c) /\ Permutation (snd v) (map (ent_row e) (crows S ri c))) /\
    (forall k c dd, nth_error (s_rows S) k = Some c -> nth_error (ev_dict_row ev) k = Some dd ->
       NoDup (map fst dd) /\ incl (map fst dd) (s_cols S) /\
       forall l, In l (s_cols S) -> zget dd l = Some (map (ent_row e) (cellrows D ri ci c l))) /\
    (forall j v, (j < List.length (s_cols S))%nat -> nth_error (ev_list_col ev) j = Some v ->
       fst v = map (ent D e) (column (s_array S) j) /\
       Permutation (snd v) (map (ent_row e) (lrows S ci (nth_Z (s_cols S) j)))) /\
    (forall k l dd, nth_error (s_cols S) k = Some l -> nth_error (ev_dict_col ev) k = Some dd ->
       NoDup (map fst dd) /\ incl (map fst dd) (s_rows S) /\
       forall c, In c (s_rows S) -> zget dd c = opt_cells (cellrows D ri ci c l) e) /\
    (forall k, e = Some k -> ev_entries ev = map (map (ent D e)) (s_array S)).
  Proof.
    unfold views_entry_b. rewrite !andb_true_iff.
    intros [[[[[[[[_ H1] _] H2] _] H3] _] H4] H5].
    repeat split.
    - pose proof (forallb_combine_nth _ _ _ H1 k c v H H0) as F. cbn [fst snd] in F.
      apply andb_true_iff in F. apply cll_eqb_spec. apply F.
    - pose proof (forallb_combine_nth _ _ _ H1 k c v H H0) as F. cbn [fst snd] in F.
      apply andb_true_iff in F. apply cperm_b_spec. apply F.
    - pose proof (forallb_combine_nth _ _ _ H2 k c dd H H0) as F. cbn [fst snd] in F.
      rewrite !andb_true_iff in F. apply znodup_b_spec. apply F.
    - pose proof (forallb_combine_nth _ _ _ H2 k c dd H H0) as F. cbn [fst snd] in F.
      rewrite !andb_true_iff in F. apply zsubset_b_spec. apply F.
    - intros l Hl. pose proof (forallb_combine_nth _ _ _ H2 k c dd H H0) as F. cbn [fst snd] in F.
      rewrite !andb_true_iff in F. destruct F as [_ F]. rewrite forallb_forall in F.
      apply option_cl_eqb_spec. exact (F l Hl).
    - assert (Hs : nth_error (seq 0 (List.length (s_cols S))) j = Some j).
      { rewrite (nth_error_nth' _ 0%nat) by (rewrite seq_length; exact H). rewrite seq_nth by exact H. reflexivity. }
      pose proof (forallb_combine_nth _ _ _ H3 j j v Hs H0) as F. cbn [fst snd] in F.
      apply andb_true_iff in F. apply cl_eqb_spec. apply F.
    - assert (Hs : nth_error (seq 0 (List.length (s_cols S))) j = Some j).
      { rewrite (nth_error_nth' _ 0%nat) by (rewrite seq_length; exact H). rewrite seq_nth by exact H. reflexivity. }
      pose proof (forallb_combine_nth _ _ _ H3 j j v Hs H0) as F. cbn [fst snd] in F.
      apply andb_true_iff in F. apply cperm_b_spec. apply F.
    - pose proof (forallb_combine_nth _ _ _ H4 k l dd H H0) as F. cbn [fst snd] in F.
      rewrite !andb_true_iff in F. apply znodup_b_spec. apply F.
    - pose proof (forallb_combine_nth _ _ _ H4 k l dd H H0) as F. cbn [fst snd] in F.
      rewrite !andb_true_iff in F. apply zsubset_b_spec. apply F.
    - intros c Hc. pose proof (forallb_combine_nth _ _ _ H4 k l dd H H0) as F. cbn [fst snd] in F.
      rewrite !andb_true_iff in F. destruct F as [_ F]. rewrite forallb_forall in F.
      apply option_cl_eqb_spec. exact (F c Hc).
    - intros k Ek. subst e. apply cll_eqb_spec. exact H5.
  Qed.

  (* alias_reachable, for the implementation's output: a spelling that the
     shipped table (or the generic lower/upper rule) maps to column k returned
     column k of the rows *)
  Theorem alias_b_spec q : alias_b S q = true ->
    forall k s item c, nth_error (q_items q) k = Some s -> nth_error (s_items S) k = Some item ->
      expected_idx s (s_columns S) = Some c -> item = Some (map (fun r => nth c (snd r) POISON) D).
  Proof.
    unfold alias_b. rewrite andb_true_iff. intros [H _] k s item c Hs Hi He.
    pose proof (forallb_combine_nth _ _ _ H k s item Hs Hi) as F. cbn [fst snd] in F. rewrite He in F.
    apply option_cl_eqb_spec. exact F.
  Qed.
End ViewSpecs.

(* renumber_injective, for the implementation's output *)
Theorem renum_b_spec S source target override skey kempty src tgt :
  renum_b S (OpRenum source target override skey kempty) = true ->
  expected_idx source (s_columns S) = Some src ->
  sindex (lower (if String.eqb target "" then append source "id" else target)) (s_columns S) = Some tgt ->
  src <> tgt ->
  let sk := fun r => tbl_fun cell_eqb skey (-1) (nth src (snd r) POISON) in
  let tv := fun r => nth tgt (snd r) POISON in
  forall a, In a (s_data S) ->
    (exists n, tv a = Atom n /\ 0 <= n /\ (n = 0 <-> sk a = kempty)) /\
    forall b, In b (s_data S) -> (sk a = sk b <-> tv a = tv b).
Proof.
  unfold renum_b. intros H E1 E2 N. rewrite E1, E2 in H.
  apply orb_true_iff in H. destruct H as [H|H]; [apply Nat.eqb_eq in H; contradiction|].
  intros a Ha. rewrite forallb_forall in H. specialize (H a Ha).
  apply andb_true_iff in H. destruct H as [H1 H2]. split.
  - destruct (nth tgt (snd a) POISON) as [n|l]; [|discriminate]. exists n. split; [reflexivity|].
    apply andb_true_iff in H1. destruct H1 as [P Q]. apply Z.leb_le in P. split; [exact P|].
    apply Bool.eqb_prop in Q. rewrite <- Z.eqb_eq, Q. apply Z.eqb_eq.
  - intros b Hb. rewrite forallb_forall in H2. specialize (H2 b Hb). apply Bool.eqb_prop in H2.
    rewrite <- Z.eqb_eq, H2. apply cell_eqb_spec.
Qed.

(* attribute access wl.<s>, for the implementation's output: a spelling of the
   concept / language column returned rows / cols, a spelling of another column
   its entry table - whatever the metadata holds *)
Theorem attr_b_spec S ri ci q : attr_b S ri ci q = true ->
  forall k s a, nth_error (q_attrs q) k = Some s -> nth_error (s_attrs S) k = Some a ->
    (dim_of s = Some true -> a = AList (s_rows S)) /\
    (dim_of s = Some false -> a = AList (s_cols S)) /\
    (dim_of s = None -> forall c, expected_idx s (s_columns S) = Some c ->
       a = ATable (map (map (ent (s_data S) (Some c))) (s_array S))).
Proof.
  unfold attr_b. rewrite andb_true_iff. intros [H _] k s a Hs Ha.
  pose proof (forallb_combine_nth _ _ _ H k s a Hs Ha) as F. cbn [fst snd] in F.
  split; [|split].
  - intros E. rewrite E in F. destruct a; try discriminate. apply zl_eqb_spec in F. subst. reflexivity.
  - intros E. rewrite E in F. destruct a; try discriminate. apply zl_eqb_spec in F. subst. reflexivity.
  - intros E c Ec. rewrite E, Ec in F. destruct a; try discriminate. apply cll_eqb_spec in F. subst. reflexivity.
Qed.
