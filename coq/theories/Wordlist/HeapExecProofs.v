(* C19 - what the boolean checkers of HeapExec.v decide, and that the model's own
   snapshots pass them (so the predicates evaluated on the implementation's
   snapshots are theorems of the model). *)
From Coq Require Import QArith ZArith List Bool Arith Lia.
From LV Require Import Common.Cases Cluster.Flat Cluster.FlatQ
     Wordlist.Heap Wordlist.HeapProofs Wordlist.HeapMat Wordlist.HeapExec.
Import ListNotations.
Local Open Scope nat_scope.

(* ------------------------------------------------------------------ *)
(* generic *)

Lemma list_eqb_Forall2 : forall (A : Type) (eqb : A -> A -> bool) (R : A -> A -> Prop),
  (forall x y, eqb x y = true <-> R x y) ->
  forall l1 l2, list_eqb eqb l1 l2 = true <-> Forall2 R l1 l2.
Proof.
  intros A eqb R H. induction l1 as [|x t1 IH]; destruct l2 as [|y t2]; cbn [list_eqb].
  - split; [constructor|reflexivity].
  - split; [discriminate|intros E; inversion E].
  - split; [discriminate|intros E; inversion E].
  - rewrite Bool.andb_true_iff, H, IH. split.
    + intros [H1 H2]. constructor; assumption.
    + intros E. inversion E; subst. split; assumption.
Qed.

Lemma zlist_eqb_spec : forall a b, zlist_eqb a b = true <-> a = b.
Proof. apply list_eqb_spec. intros x y. apply Z.eqb_eq. Qed.

Lemma memn_spec : forall x l, memn x l = true <-> In x l.
Proof.
  intros x. induction l as [|y t IH]; cbn [memn In].
  - split; [discriminate|intros []].
  - rewrite Bool.orb_true_iff, Nat.eqb_eq, IH. split; intros [H|H]; auto.
Qed.

Lemma nodupn_spec : forall l, nodupn l = true <-> NoDup l.
Proof.
  induction l as [|x t IH]; cbn [nodupn].
  - split; [constructor|reflexivity].
  - rewrite Bool.andb_true_iff, Bool.negb_true_iff, IH. split.
    + intros [H1 H2]. constructor; [|exact H2]. intro Hc. apply memn_spec in Hc. congruence.
    + intros H. inversion H as [|a b Hn Hd]; subst. split; [|exact Hd].
      destruct (memn x t) eqn:E; [|reflexivity]. apply memn_spec in E. contradiction.
Qed.

(* ------------------------------------------------------------------ *)
(* separation *)

Theorem sepb_spec : forall s, sepb s = true <-> NoDup (snap_locs s).
Proof. intros s. apply nodupn_spec. Qed.

(* ------------------------------------------------------------------ *)
(* frame *)

(* what a caller can read from a snapshot object *)
Definition content (o : sobj) : bool * list Z * list Z * list (Z * list Z) :=
  (so_dict o, so_hdr o, so_cols o, map (fun r => (fst (fst r), snd r)) (so_rows o)).

Lemma row_content_eqb_spec : forall a b,
  row_content_eqb a b = true <-> (fst (fst a), snd a) = (fst (fst b), snd b).
Proof.
  intros a b. unfold row_content_eqb. rewrite Bool.andb_true_iff, Z.eqb_eq, zlist_eqb_spec.
  split; [intros [-> ->]; reflexivity|intros E; inversion E; auto].
Qed.

Lemma rows_content_eqb_spec : forall r1 r2,
  list_eqb row_content_eqb r1 r2 = true <->
  map (fun r : Z * nat * list Z => (fst (fst r), snd r)) r1 = map (fun r => (fst (fst r), snd r)) r2.
Proof.
  induction r1 as [|a t1 IH]; destruct r2 as [|b t2]; cbn [list_eqb map].
  - split; reflexivity.
  - split; discriminate.
  - split; discriminate.
  - rewrite Bool.andb_true_iff, row_content_eqb_spec, IH. split.
    + intros [H1 H2]. rewrite H1, H2. reflexivity.
    + intros E. inversion E. split; congruence.
Qed.

Lemma sobj_content_eqb_spec : forall a b, sobj_content_eqb a b = true <-> content a = content b.
Proof.
  intros a b. unfold sobj_content_eqb, content.
  rewrite !Bool.andb_true_iff, Bool.eqb_true_iff, !zlist_eqb_spec, rows_content_eqb_spec. split.
  - intros [[[H1 H2] H3] H4]. rewrite H1, H2, H3, H4. reflexivity.
  - intros E. inversion E. auto.
Qed.

Lemma frame_from_spec : forall before after k tgt,
  frame_from k tgt before after = true <->
  (length before <= length after /\
   forall i b, nth_error before i = Some b -> tgt <> Some (k + i) ->
     exists a, nth_error after i = Some a /\ content b = content a).
Proof.
  induction before as [|b0 tb IH]; intros after k tgt; cbn [frame_from].
  - split; [|reflexivity]. intros _. split; [cbn [length]; lia|]. intros i b Hi. destruct i; discriminate.
  - destruct after as [|a0 ta].
    + split; [discriminate|]. intros [H _]. cbn [length] in H. lia.
    + rewrite Bool.andb_true_iff, IH. cbn [length]. split.
      * intros [H0 [Hl Ht]]. split; [lia|]. intros i b Hi Hn. destruct i as [|i'].
        -- cbn [nth_error] in Hi. inversion Hi; subst b. exists a0. split; [reflexivity|].
           apply sobj_content_eqb_spec. rewrite Bool.orb_true_iff in H0. destruct H0 as [H0|H0]; [|exact H0].
           exfalso. destruct tgt as [t|]; [|discriminate]. apply Nat.eqb_eq in H0. subst t.
           apply Hn. f_equal. lia.
        -- cbn [nth_error] in Hi |- *. apply (Ht i' b Hi). intro E. apply Hn. rewrite E. f_equal. lia.
      * intros [Hl H]. split; [|split; [lia|]].
        -- destruct tgt as [t|].
           ++ destruct (Nat.eqb t k) eqn:E; [reflexivity|]. cbn [orb]. apply Nat.eqb_neq in E.
              destruct (H 0 b0 eq_refl) as [a [Ha Hc]]; [intro E2; inversion E2; lia|].
              cbn [nth_error] in Ha. inversion Ha; subst a. apply sobj_content_eqb_spec. exact Hc.
           ++ cbn [orb]. destruct (H 0 b0 eq_refl) as [a [Ha Hc]]; [discriminate|].
              cbn [nth_error] in Ha. inversion Ha; subst a. apply sobj_content_eqb_spec. exact Hc.
        -- intros i b Hi Hn. apply (H (S i) b Hi). intro E. apply Hn. rewrite E. f_equal. lia.
Qed.

(* frameb decides: every object that existed before the step and is not its target
   still exists and reads the same *)
Theorem frameb_spec : forall tgt before after,
  frameb tgt before after = true <->
  (length before <= length after /\
   forall i b, nth_error before i = Some b -> tgt <> Some i ->
     exists a, nth_error after i = Some a /\ content b = content a).
Proof. intros tgt before after. unfold frameb. apply frame_from_spec. Qed.

(* ------------------------------------------------------------------ *)
(* the model's snapshots pass both checkers *)

Lemma first_index_self : forall l, NoDup l -> map (fun x => first_index x l) l = seq 0 (length l).
Proof.
  induction l as [|a t IH]; intros Hn; [reflexivity|].
  inversion Hn as [|a' t' Hna Hnt]; subst. cbn [map first_index length seq]. rewrite Nat.eqb_refl. f_equal.
  rewrite <- seq_shift, <- (IH Hnt), map_map. apply map_ext_in. intros x Hx.
  destruct (Nat.eqb x a) eqn:E; [|reflexivity]. apply Nat.eqb_eq in E. subst. contradiction.
Qed.

Lemma snap_locs_gen : forall (all : list nat) (h : heap) (objs : list obj),
  flat_map sobj_locs
    (map (fun o => mkSobj (match o_kind o with KDict => true | KWl => false end)
                          (first_index (o_hdr o) all) (hget h (o_hdr o)) (hget h (o_hdr o))
                          (map (fun r => (fst r, first_index (snd r) all, hget h (snd r))) (o_rows o))
                          (o_strkeys o) (map (fun r => (fst r, first_index (snd r) all)) (o_stale o))) objs)
  = map (fun x => first_index x all) (flat_map obj_locs objs).
Proof.
  intros all h. induction objs as [|o t IH]; [reflexivity|].
  cbn [map flat_map]. rewrite map_app, IH. f_equal.
  unfold sobj_locs, obj_locs. cbn [so_hloc so_rows map]. f_equal. rewrite !map_map. reflexivity.
Qed.

Lemma snap_locs_of_state : forall s,
  snap_locs (snap_of_state s) = map (fun x => first_index x (all_locs s)) (all_locs s).
Proof. intros s. unfold snap_locs, snap_of_state. rewrite snap_locs_gen. reflexivity. Qed.

Theorem model_sep : forall s, wf s -> sepb (snap_of_state s) = true.
Proof.
  intros s [Hn _]. apply sepb_spec. rewrite snap_locs_of_state, first_index_self by exact Hn. apply seq_NoDup.
Qed.

Definition kindb (o : obj) : bool := match o_kind o with KDict => true | KWl => false end.

Lemma snap_nth : forall s k,
  option_map content (nth_error (snap_of_state s) k) =
  option_map (fun o => let v := view_obj (st_heap s) o in (kindb o, fst v, fst v, snd v)) (nth_error (st_objs s) k).
Proof.
  intros s k. unfold snap_of_state. rewrite nth_error_map.
  destruct (nth_error (st_objs s) k) as [o|]; [|reflexivity]. cbn [option_map]. f_equal.
  unfold content, view_obj, kindb. cbn [so_dict so_hdr so_cols so_rows fst snd]. rewrite map_map. reflexivity.
Qed.

Lemma run_macro_frame : forall ops s k,
  wf s -> k < length (st_objs s) -> Forall (fun o => target o <> Some k) ops ->
  view (fst (run_macro ops s)) k = view s k
  /\ nth_error (st_objs (fst (run_macro ops s))) k = nth_error (st_objs s) k
  /\ length (st_objs s) <= length (st_objs (fst (run_macro ops s)))
  /\ wf (fst (run_macro ops s)).
Proof.
  induction ops as [|o t IH]; intros s k Hw Hk Hall; cbn [run_macro].
  - cbn [fst]. split; [reflexivity|split; [reflexivity|split; [lia|exact Hw]]].
  - inversion Hall as [|x r Hx Hr]; subst.
    pose proof (exec_frame o s k Hw Hk Hx) as Hf.
    pose proof (exec_wf o s Hw) as Hw'.
    pose proof (exec_objs_length o s) as Hl.
    assert (Hn : nth_error (st_objs (fst (exec o s))) k = nth_error (st_objs s) k).
    { destruct (exec o s) as [s1 r1] eqn:E. cbn [fst]. destruct (exec_step _ _ _ _ E) as [Hs _].
      destruct (nth_error (st_objs s) k) as [ob|] eqn:Ek; [|apply nth_error_None in Ek; lia].
      apply (objs_step_nth _ _ _ _ Hs Ek). }
    destruct (exec o s) as [s1 r1] eqn:E. cbn [fst] in *. destruct r1.
    + cbn [fst]. split; [exact Hf|split; [exact Hn|split; [exact Hl|exact Hw']]].
    + destruct (IH s1 k Hw' ltac:(lia) Hr) as (H1 & H2 & H3 & H4).
      split; [congruence|split; [congruence|split; [lia|exact H4]]].
Qed.

(* a step whose operations all act on its declared target (or construct) leaves a
   trace that the frame checker accepts *)
Theorem model_frame : forall ops s tgt,
  wf s -> Forall (fun o => target o = None \/ target o = tgt) ops ->
  frameb tgt (snap_of_state s) (snap_of_state (fst (run_macro ops s))) = true.
Proof.
  intros ops s tgt Hw Hall. apply frameb_spec. split.
  - unfold snap_of_state. rewrite !map_length.
    destruct ops as [|o t]; [cbn; lia|].
    destruct (st_objs s) as [|ob tl] eqn:Eo; [cbn [length]; lia|].
    assert (H0 : 0 < length (st_objs s)) by (rewrite Eo; cbn [length]; lia).
    (* use the frame lemma at an index that is not the target, or directly the length clause *)
    clear H0. rewrite <- Eo.
    assert (Hgen : forall ops' s', wf s' -> length (st_objs s') <= length (st_objs (fst (run_macro ops' s')))).
    { induction ops' as [|o' t' IH']; intros s' Hw'; cbn [run_macro]; [cbn; lia|].
      pose proof (exec_objs_length o' s'). pose proof (exec_wf o' s' Hw').
      destruct (exec o' s') as [s1 r1]. cbn [fst] in *. destruct r1; cbn [fst]; [lia|].
      specialize (IH' s1 H0). lia. }
    apply Hgen. exact Hw.
  - intros i b Hi Hn.
    assert (Hk : i < length (st_objs s)).
    { assert (Hs : nth_error (snap_of_state s) i <> None) by (rewrite Hi; discriminate).
      apply nth_error_Some in Hs. unfold snap_of_state in Hs. rewrite map_length in Hs. exact Hs. }
    assert (Hall' : Forall (fun o => target o <> Some i) ops).
    { eapply Forall_impl; [|exact Hall]. cbn. intros o [H|H]; rewrite H; [discriminate|exact Hn]. }
    destruct (run_macro_frame ops s i Hw Hk Hall') as (Hv & Hnth & _ & _).
    pose proof (snap_nth s i) as S1. pose proof (snap_nth (fst (run_macro ops s)) i) as S2.
    rewrite Hi in S1. rewrite Hnth in S2.
    destruct (nth_error (st_objs s) i) as [ob|] eqn:Ek; [|apply nth_error_None in Ek; lia].
    destruct (nth_error (snap_of_state (fst (run_macro ops s))) i) as [a|] eqn:Ea; [|discriminate].
    exists a. split; [reflexivity|]. cbn [option_map] in S1, S2.
    unfold view in Hv. rewrite Hnth, Ek in Hv. cbn [option_map] in Hv.
    assert (Hv' : view_obj (st_heap (fst (run_macro ops s))) ob = view_obj (st_heap s) ob) by congruence.
    assert (E : Some (content b) = Some (content a)); [|congruence].
    rewrite S1, S2, Hv'. reflexivity.
Qed.

Lemma run_macro_wf : forall ops s, wf s -> wf (fst (run_macro ops s)).
Proof.
  induction ops as [|o t IH]; intros s Hw; cbn [run_macro]; [exact Hw|].
  pose proof (exec_wf o s Hw) as Hw'. destruct (exec o s) as [s1 r1]. cbn [fst] in Hw'.
  destruct r1; cbn [fst]; [exact Hw'|]. apply IH. exact Hw'.
Qed.

Theorem model_passes_checkers : forall ops s tgt,
  wf s -> Forall (fun o => target o = None \/ target o = tgt) ops ->
  sepb (snap_of_state (fst (run_macro ops s))) = true
  /\ frameb tgt (snap_of_state s) (snap_of_state (fst (run_macro ops s))) = true.
Proof.
  intros ops s tgt Hw Hall. split.
  - apply model_sep. apply run_macro_wf. exact Hw.
  - apply model_frame; assumption.
Qed.

(* ------------------------------------------------------------------ *)
(* what code 0 of a history case means *)

Lemma bit_zero : forall k b, bit k b = 0 <-> b = true.
Proof.
  intros k b. unfold bit. destruct b; split; auto; try discriminate.
  intros H. exfalso. pose proof (Nat.pow_nonzero 2 k). lia.
Qed.

Fixpoint hist_ok (steps : list hstep) (s : state) (prev : snapshot) : Prop :=
  match steps with
  | [] => True
  | st :: t =>
      snd (run_macro (hs_ops st) s) = hs_raised st
      /\ snapshot_eqb (snap_of_state (fst (run_macro (hs_ops st) s))) (hs_snap st) = true
      /\ sepb (hs_snap st) = true
      /\ frameb (hs_tgt st) prev (hs_snap st) = true
      /\ hs_args_same st = true
      /\ hist_ok t (fst (run_macro (hs_ops st) s)) (hs_snap st)
  end.

(* code 0 = at every step the model agrees with the observation (raised flag and
   snapshot) and the observation passes the separation and the frame checker *)
Theorem hist_code_zero : forall steps s prev, hist_code steps s prev = 0 <-> hist_ok steps s prev.
Proof.
  induction steps as [|st t IH]; intros s prev; cbn [hist_code hist_ok]; [tauto|].
  destruct (run_macro (hs_ops st) s) as [s' r] eqn:E. cbn [fst snd].
  set (b0 := Bool.eqb r (hs_raised st) && snapshot_eqb (snap_of_state s') (hs_snap st)).
  set (b1 := sepb (hs_snap st)). set (b2 := frameb (hs_tgt st) prev (hs_snap st) && hs_args_same st).
  destruct (bit 0 b0 + bit 1 b1 + bit 2 b2) as [|c] eqn:Ec.
  - assert (H0 : bit 0 b0 = 0) by lia. assert (H1 : bit 1 b1 = 0) by lia. assert (H2 : bit 2 b2 = 0) by lia.
    apply bit_zero in H0, H1, H2. unfold b0 in H0. apply Bool.andb_true_iff in H0. destruct H0 as [Hr Hs].
    apply Bool.eqb_prop in Hr. unfold b2 in H2. apply Bool.andb_true_iff in H2. rewrite IH. tauto.
  - split; [discriminate|]. intros (Hr & Hs & H1 & H2a & H2b & _). exfalso.
    assert (H2 : b2 = true) by (unfold b2; rewrite H2a, H2b; reflexivity).
    assert (Hb0 : b0 = true) by (unfold b0; rewrite Hr, Hs, Bool.eqb_reflx; reflexivity).
    apply (bit_zero 0) in Hb0. apply (bit_zero 1) in H1. apply (bit_zero 2) in H2.
    fold b1 in H1. lia.
Qed.

(* ------------------------------------------------------------------ *)
(* purity checkers *)

Definition mat_equiv (a b : mat) : Prop := Forall2 (Forall2 Qeq) a b.

Lemma mat_eqb_spec : forall a b, mat_eqb a b = true <-> mat_equiv a b.
Proof.
  apply list_eqb_Forall2. intros x y. unfold qrow_eqb. apply list_eqb_Forall2. intros p q. apply Qeq_bool_iff.
Qed.

Theorem pureb_spec : forall c,
  pureb c = true <->
  (mat_equiv (pc_before c) (pc_after1 c) /\ mat_equiv (pc_before c) (pc_after2 c) /\ pc_taxa0 c = pc_taxa2 c).
Proof.
  intros c. unfold pureb. rewrite !Bool.andb_true_iff, !mat_eqb_spec, zlist_eqb_spec. tauto.
Qed.

Theorem sameb_res_spec : forall c, sameb_res c = true <-> pc_res1 c = pc_res2 c.
Proof. intros c. apply zlist_eqb_spec. Qed.
