(* Tree metrics as functions: depth of a leaf, distance of two leaves in a binary
   tree with branch lengths; the link with pairdists; equivalence of rooted
   representations of the same unrooted tree (swap, rotation, re-rooting at a
   leaf).  Used for the cherry-picking lemma of Neighbor-Joining. *)
From Coq Require Import QArith List Arith Bool Lia Permutation Lqa.
From LV Require Import Cluster.Nwk Cluster.NwkProofs Cluster.Upgma Cluster.Neighbor Cluster.TreeBuildExec
  Cluster.UpgmaPaths Cluster.NeighborRecover.
Import ListNotations.
Local Open Scope nat_scope.

Definition has (t : tree) (x : nat) : bool := existsb (Nat.eqb x) (leaves t).

Fixpoint dep (t : tree) (x : nat) : Q :=
  match t with
  | Leaf _ => 0%Q
  | Node l bl r br =>
      if has l x then (bl + dep l x)%Q else if has r x then (br + dep r x)%Q else 0%Q
  end.

Fixpoint tdist (t : tree) (x y : nat) : Q :=
  match t with
  | Leaf _ => 0%Q
  | Node l bl r br =>
      if has l x then (if has l y then tdist l x y else (bl + dep l x + (br + dep r y))%Q)
      else (if has l y then (br + dep r x + (bl + dep l y))%Q else tdist r x y)
  end.

Lemma has_spec t x : has t x = true <-> In x (leaves t).
Proof.
  unfold has. rewrite existsb_exists. split.
  - intros [y [Hy E]]. apply Nat.eqb_eq in E. subst. exact Hy.
  - intros H. exists x. split; [exact H|apply Nat.eqb_refl].
Qed.

Lemma has_true t x : In x (leaves t) -> has t x = true.
Proof. apply has_spec. Qed.

Lemma has_false t x : ~ In x (leaves t) -> has t x = false.
Proof. intros H. destruct (has t x) eqn:E; [apply has_spec in E; tauto|reflexivity]. Qed.

Section NodeFacts.
  Variables (l r : tree) (bl br : Q).
  Hypothesis ND : NoDup (leaves l ++ leaves r).

  Lemma not_l_of_r x : In x (leaves r) -> ~ In x (leaves l).
  Proof. intros Hr Hl. exact (NoDup_app_disj _ _ _ ND Hl Hr). Qed.

  Lemma dep_l x : In x (leaves l) -> dep (Node l bl r br) x = (bl + dep l x)%Q.
  Proof. intros H. cbn [dep]. rewrite (has_true _ _ H). reflexivity. Qed.

  Lemma dep_r x : In x (leaves r) -> dep (Node l bl r br) x = (br + dep r x)%Q.
  Proof.
    intros H. cbn [dep]. rewrite (has_false l x (not_l_of_r x H)), (has_true _ _ H). reflexivity.
  Qed.

  Lemma tdist_ll x y : In x (leaves l) -> In y (leaves l) ->
    tdist (Node l bl r br) x y = tdist l x y.
  Proof. intros Hx Hy. cbn [tdist]. rewrite (has_true _ _ Hx), (has_true _ _ Hy). reflexivity. Qed.

  Lemma tdist_rr x y : In x (leaves r) -> In y (leaves r) ->
    tdist (Node l bl r br) x y = tdist r x y.
  Proof.
    intros Hx Hy. cbn [tdist].
    rewrite (has_false l x (not_l_of_r x Hx)), (has_false l y (not_l_of_r y Hy)). reflexivity.
  Qed.

  Lemma tdist_lr x y : In x (leaves l) -> In y (leaves r) ->
    tdist (Node l bl r br) x y = (bl + dep l x + (br + dep r y))%Q.
  Proof.
    intros Hx Hy. cbn [tdist]. rewrite (has_true _ _ Hx), (has_false l y (not_l_of_r y Hy)). reflexivity.
  Qed.

  Lemma tdist_rl x y : In x (leaves r) -> In y (leaves l) ->
    tdist (Node l bl r br) x y = (br + dep r x + (bl + dep l y))%Q.
  Proof.
    intros Hx Hy. cbn [tdist]. rewrite (has_false l x (not_l_of_r x Hx)), (has_true _ _ Hy). reflexivity.
  Qed.
End NodeFacts.

Lemma tdist_sym t : NoDup (leaves t) -> forall x y, In x (leaves t) -> In y (leaves t) ->
  (tdist t x y == tdist t y x)%Q.
Proof.
  induction t as [z|l IHl bl r IHr br]; intros ND x y Hx Hy; [reflexivity|].
  cbn [leaves] in *. apply in_app_or in Hx. apply in_app_or in Hy.
  destruct Hx as [Hx|Hx], Hy as [Hy|Hy].
  - rewrite !(tdist_ll l r bl br) by assumption. apply IHl; [exact (NoDup_app_l _ _ ND)|assumption|assumption].
  - rewrite (tdist_lr l r bl br ND) by assumption. rewrite (tdist_rl l r bl br ND) by assumption. ring.
  - rewrite (tdist_rl l r bl br ND) by assumption. rewrite (tdist_lr l r bl br ND) by assumption. ring.
  - rewrite !(tdist_rr l r bl br ND) by assumption. apply IHr; [exact (NoDup_app_r _ _ ND)|assumption|assumption].
Qed.

(* ldepths / pairdists are tabulations of dep / tdist *)
Lemma ldepths_dep t : NoDup (leaves t) -> forall p, In p (ldepths t) -> snd p = dep t (fst p).
Proof.
  induction t as [z|l IHl bl r IHr br]; intros ND p Hp.
  - destruct Hp as [<-|[]]. reflexivity.
  - cbn [leaves] in ND. cbn [ldepths] in Hp. rewrite in_app_iff, !in_map_iff in Hp.
    destruct Hp as [[p0 [<- Hp0]]|[p0 [<- Hp0]]]; cbn [fst snd].
    + rewrite (dep_l l r bl br) by (apply ldepths_in_leaves; exact Hp0).
      rewrite (IHl (NoDup_app_l _ _ ND) p0 Hp0). reflexivity.
    + rewrite (dep_r l r bl br ND) by (apply ldepths_in_leaves; exact Hp0).
      rewrite (IHr (NoDup_app_r _ _ ND) p0 Hp0). reflexivity.
Qed.

Lemma pairdists_tdist t : NoDup (leaves t) -> forall e, In e (pairdists t) ->
  snd e = tdist t (fst (fst e)) (snd (fst e)).
Proof.
  induction t as [z|l IHl bl r IHr br]; intros ND e He; [destruct He|].
  cbn [leaves] in ND. cbn [pairdists] in He. rewrite !in_app_iff, in_flat_map in He.
  destruct He as [He|[He|[p [Hp He]]]].
  - destruct (pairdists_in_leaves _ _ He) as [X Y].
    rewrite (tdist_ll l r bl br) by assumption. exact (IHl (NoDup_app_l _ _ ND) e He).
  - destruct (pairdists_in_leaves _ _ He) as [X Y].
    rewrite (tdist_rr l r bl br ND) by assumption. exact (IHr (NoDup_app_r _ _ ND) e He).
  - apply in_map_iff in He. destruct He as [q [<- Hq]]. cbn [fst snd].
    rewrite (tdist_lr l r bl br ND) by (apply ldepths_in_leaves; assumption).
    rewrite (ldepths_dep l (NoDup_app_l _ _ ND) p Hp), (ldepths_dep r (NoDup_app_r _ _ ND) q Hq). reflexivity.
Qed.

Lemma ldepths_cover t x : In x (leaves t) -> exists d, In (x, d) (ldepths t).
Proof.
  intros H. rewrite <- ldepths_fst in H. apply in_map_iff in H. destruct H as [[x' d] [E H]].
  cbn in E. subst. exists d. exact H.
Qed.

Lemma pairdists_cover t : forall x y, In x (leaves t) -> In y (leaves t) -> x <> y ->
  exists v, In ((x, y), v) (pairdists t) \/ In ((y, x), v) (pairdists t).
Proof.
  induction t as [z|l IHl bl r IHr br]; intros x y Hx Hy N.
  - destruct Hx as [<-|[]], Hy as [<-|[]]. congruence.
  - cbn [leaves] in *. apply in_app_or in Hx. apply in_app_or in Hy. cbn [pairdists].
    destruct Hx as [Hx|Hx], Hy as [Hy|Hy].
    + destruct (IHl x y Hx Hy N) as [v [H|H]]; exists v; [left|right]; apply in_or_app; left; exact H.
    + destruct (ldepths_cover l x Hx) as [dx Dx]. destruct (ldepths_cover r y Hy) as [dy Dy].
      eexists. left. apply in_or_app. right. apply in_or_app. right. apply in_flat_map.
      exists (x, dx). split; [exact Dx|]. apply in_map_iff. exists (y, dy). split; [reflexivity|exact Dy].
    + destruct (ldepths_cover l y Hy) as [dy Dy]. destruct (ldepths_cover r x Hx) as [dx Dx].
      eexists. right. apply in_or_app. right. apply in_or_app. right. apply in_flat_map.
      exists (y, dy). split; [exact Dy|]. apply in_map_iff. exists (x, dx). split; [reflexivity|exact Dx].
    + destruct (IHr x y Hx Hy N) as [v [H|H]]; exists v; [left|right]; apply in_or_app; right; apply in_or_app; left; exact H.
Qed.

(* ------------------------------------------------------------------ *)
(* two rooted representations of the same leaf-labelled metric tree *)
Definition teq (T T' : tree) : Prop :=
  Permutation (leaves T) (leaves T') /\
  forall x y, In x (leaves T) -> In y (leaves T) -> x <> y -> (tdist T x y == tdist T' x y)%Q.

Lemma teq_refl T : teq T T.
Proof. split; [apply Permutation_refl|intros; reflexivity]. Qed.

Lemma teq_trans T1 T2 T3 : teq T1 T2 -> teq T2 T3 -> teq T1 T3.
Proof.
  intros [P1 H1] [P2 H2]. split; [eapply perm_trans; eassumption|].
  intros x y Hx Hy N. rewrite (H1 x y Hx Hy N).
  apply H2; [exact (Permutation_in _ P1 Hx)|exact (Permutation_in _ P1 Hy)|exact N].
Qed.

Lemma has_node l bl r br x : has (Node l bl r br) x = has l x || has r x.
Proof. unfold has. cbn [leaves]. apply existsb_app. Qed.

Lemma region2 (l r : tree) x : NoDup (leaves l ++ leaves r) -> In x (leaves l ++ leaves r) ->
  (has l x = true /\ has r x = false) \/ (has l x = false /\ has r x = true).
Proof.
  intros ND H. apply in_app_or in H. destruct H as [H|H]; [left|right]; split.
  - exact (has_true _ _ H).
  - apply has_false. intros K. exact (NoDup_app_disj _ _ _ ND H K).
  - apply has_false. intros K. exact (NoDup_app_disj _ _ _ ND K H).
  - exact (has_true _ _ H).
Qed.

Lemma region3 (l1 l2 r : tree) x : NoDup (leaves l1 ++ leaves l2 ++ leaves r) ->
  In x (leaves l1 ++ leaves l2 ++ leaves r) ->
  (has l1 x = true /\ has l2 x = false /\ has r x = false) \/
  (has l1 x = false /\ has l2 x = true /\ has r x = false) \/
  (has l1 x = false /\ has l2 x = false /\ has r x = true).
Proof.
  intros ND H. apply in_app_or in H. destruct H as [H|H].
  - left. split; [exact (has_true _ _ H)|].
    split; apply has_false; intros K; apply (NoDup_app_disj _ _ _ ND H); apply in_or_app; [left|right]; exact K.
  - assert (N1 : has l1 x = false) by (apply has_false; intros K; exact (NoDup_app_disj _ _ _ ND K H)).
    destruct (region2 l2 r x (NoDup_app_r _ _ ND) H) as [[E1 E2]|[E1 E2]]; [right; left|right; right]; tauto.
Qed.

Ltac by_regions :=
  cbn [tdist dep]; rewrite ?has_node;
  repeat match goal with H : has _ _ = _ |- _ => rewrite H; clear H end;
  cbn [orb andb]; try ring.

(* the order of the children does not matter *)
Lemma teq_swap l bl r br : NoDup (leaves l ++ leaves r) ->
  teq (Node l bl r br) (Node r br l bl).
Proof.
  intros ND. split; [cbn [leaves]; apply Permutation_app_comm|].
  intros x y Hx Hy N. cbn [leaves] in Hx, Hy.
  destruct (region2 l r x ND Hx) as [[X1 X2]|[X1 X2]]; destruct (region2 l r y ND Hy) as [[Y1 Y2]|[Y1 Y2]];
    cbn [tdist dep]; rewrite X1, X2, Y1, Y2; cbn [orb andb]; try ring; reflexivity.
Qed.

(* moving the root one edge down into the left child *)
Lemma teq_rotate l1 c1 l2 c2 bl r br x1 x2 : (x1 + x2 == c1)%Q ->
  NoDup (leaves l1 ++ leaves l2 ++ leaves r) ->
  teq (Node (Node l1 c1 l2 c2) bl r br) (Node l1 x1 (Node l2 c2 r (bl + br)) x2).
Proof.
  intros Ec ND. split; [cbn [leaves]; rewrite <- app_assoc; apply Permutation_refl|].
  intros x y Hx Hy N. cbn [leaves] in Hx, Hy. rewrite <- app_assoc in Hx, Hy.
  destruct (region3 l1 l2 r x ND Hx) as [(X1 & X2 & X3)|[(X1 & X2 & X3)|(X1 & X2 & X3)]];
  destruct (region3 l1 l2 r y ND Hy) as [(Y1 & Y2 & Y3)|[(Y1 & Y2 & Y3)|(Y1 & Y2 & Y3)]];
    cbn [tdist dep]; rewrite ?has_node, ?X1, ?X2, ?X3, ?Y1, ?Y2, ?Y3; cbn [orb andb];
    rewrite ?X1, ?X2, ?X3, ?Y1, ?Y2, ?Y3; try reflexivity; lra.
Qed.

Lemma teq_rotate2 l1 c1 l2 c2 bl r br x1 x2 : (x1 + x2 == c2)%Q ->
  NoDup (leaves l1 ++ leaves l2 ++ leaves r) ->
  teq (Node (Node l1 c1 l2 c2) bl r br) (Node l2 x1 (Node l1 c1 r (bl + br)) x2).
Proof.
  intros Ec ND. split.
  - cbn [leaves]. rewrite <- app_assoc. rewrite !app_assoc.
    apply Permutation_app_tail. apply Permutation_app_comm.
  - intros x y Hx Hy N. cbn [leaves] in Hx, Hy. rewrite <- app_assoc in Hx, Hy.
    destruct (region3 l1 l2 r x ND Hx) as [(X1 & X2 & X3)|[(X1 & X2 & X3)|(X1 & X2 & X3)]];
    destruct (region3 l1 l2 r y ND Hy) as [(Y1 & Y2 & Y3)|[(Y1 & Y2 & Y3)|(Y1 & Y2 & Y3)]];
      cbn [tdist dep]; rewrite ?has_node, ?X1, ?X2, ?X3, ?Y1, ?Y2, ?Y3; cbn [orb andb];
      rewrite ?X1, ?X2, ?X3, ?Y1, ?Y2, ?Y3; try reflexivity; lra.
Qed.

Lemma teq_nodup T T' : teq T T' -> NoDup (leaves T) -> NoDup (leaves T').
Proof. intros [P _] ND. exact (Permutation_NoDup P ND). Qed.

Lemma half_pos c : (0 < c)%Q -> (0 < c / 2)%Q /\ (c / 2 + c / 2 == c)%Q.
Proof. intros H. split; [apply Qlt_shift_div_l; lra|field]. Qed.

(* the tree without its branch lengths *)
Fixpoint shape (t : tree) : tree :=
  match t with
  | Leaf x => Leaf x
  | Node l _ r _ => Node (shape l) 0 (shape r) 0
  end.

(* same unrooted topology: generated by the moves of the (artificial) root and
   by swapping children; branch lengths are ignored *)
Inductive tiso : tree -> tree -> Prop :=
| iso_refl t : tiso t t
| iso_shape t t' : shape t = shape t' -> tiso t t'
| iso_sym t t' : tiso t t' -> tiso t' t
| iso_trans t1 t2 t3 : tiso t1 t2 -> tiso t2 t3 -> tiso t1 t3
| iso_len l bl r br bl' br' : tiso (Node l bl r br) (Node l bl' r br')
| iso_swap l bl r br : tiso (Node l bl r br) (Node r br l bl)
| iso_swap_inner u ux c f d dl uy : tiso (Node u ux (Node c f d dl) uy) (Node u ux (Node d dl c f) uy)
| iso_rot l1 c1 l2 c2 bl r br x1 x2 e :
    tiso (Node (Node l1 c1 l2 c2) bl r br) (Node l1 x1 (Node l2 c2 r e) x2)
| iso_rot2 l1 c1 l2 c2 bl r br x1 x2 e :
    tiso (Node (Node l1 c1 l2 c2) bl r br) (Node l2 x1 (Node l1 c1 r e) x2).

(* re-rooting on the pendant edge of a leaf *)
Lemma reroot_in_left l : forall bl r br i,
  NoDup (leaves l ++ leaves r) -> positive (Node l bl r br) -> In i (leaves l) ->
  exists x R y, teq (Node l bl r br) (Node (Leaf i) x R y) /\ positive (Node (Leaf i) x R y) /\
                tiso (Node l bl r br) (Node (Leaf i) x R y).
Proof.
  induction l as [z|l1 IH1 c1 l2 IH2 c2]; intros bl r br i ND HP Hi.
  - destruct Hi as [<-|[]]. exists bl, r, br. split; [apply teq_refl|]. split; [exact HP|apply iso_refl].
  - cbn [leaves] in ND, Hi. rewrite <- app_assoc in ND.
    cbn [positive] in HP. destruct HP as (Pbl & Pbr & (Pc1 & Pc2 & P1 & P2) & Pr).
    apply in_app_or in Hi. destruct Hi as [Hi|Hi].
    + destruct (half_pos c1 Pc1) as [Hh Eh].
      destruct (IH1 (c1 / 2)%Q (Node l2 c2 r (bl + br)%Q) (c1 / 2)%Q i) as (x & R & y & HE & HPos & HI).
      * cbn [leaves]. exact ND.
      * cbn [positive]. repeat split; try assumption; lra.
      * exact Hi.
      * exists x, R, y. split; [|split; [exact HPos|]].
        -- eapply teq_trans; [apply (teq_rotate l1 c1 l2 c2 bl r br _ _ Eh ND)|exact HE].
        -- eapply iso_trans; [apply iso_rot|exact HI].
    + destruct (half_pos c2 Pc2) as [Hh Eh].
      assert (ND2 : NoDup (leaves l2 ++ leaves l1 ++ leaves r)).
      { eapply Permutation_NoDup; [|exact ND]. rewrite !app_assoc. apply Permutation_app_tail, Permutation_app_comm. }
      destruct (IH2 (c2 / 2)%Q (Node l1 c1 r (bl + br)%Q) (c2 / 2)%Q i) as (x & R & y & HE & HPos & HI).
      * cbn [leaves]. exact ND2.
      * cbn [positive]. repeat split; try assumption; lra.
      * exact Hi.
      * exists x, R, y. split; [|split; [exact HPos|]].
        -- eapply teq_trans; [apply (teq_rotate2 l1 c1 l2 c2 bl r br _ _ Eh ND)|exact HE].
        -- eapply iso_trans; [apply iso_rot2|exact HI].
Qed.

Theorem reroot_leaf T i : NoDup (leaves T) -> positive T -> In i (leaves T) -> 2 <= length (leaves T) ->
  exists x R y, teq T (Node (Leaf i) x R y) /\ positive (Node (Leaf i) x R y) /\ tiso T (Node (Leaf i) x R y).
Proof.
  intros ND HP Hi L. destruct T as [z|l bl r br]; [cbn in L; lia|].
  cbn [leaves] in ND, Hi. apply in_app_or in Hi. destruct Hi as [Hi|Hi].
  - exact (reroot_in_left l bl r br i ND HP Hi).
  - assert (ND' : NoDup (leaves r ++ leaves l)).
    { eapply Permutation_NoDup; [apply Permutation_app_comm|exact ND]. }
    destruct (reroot_in_left r br l bl i ND') as (x & R & y & HE & HPos & HI); [|exact Hi|].
    + cbn [positive] in *. tauto.
    + exists x, R, y. split; [|split; [exact HPos|]].
      * eapply teq_trans; [apply teq_swap; exact ND|exact HE].
      * eapply iso_trans; [apply iso_swap|exact HI].
Qed.

(* ------------------------------------------------------------------ *)
(* more equivalences *)
Lemma teq_sym T T' : teq T T' -> teq T' T.
Proof.
  intros [P H]. split; [symmetry; exact P|].
  intros x y Hx Hy N. symmetry. apply H; [exact (Permutation_in _ (Permutation_sym P) Hx)|exact (Permutation_in _ (Permutation_sym P) Hy)|exact N].
Qed.

(* swapping the children of the right child *)
Lemma teq_swap_inner u ux c f d dl uy : NoDup (leaves u ++ leaves c ++ leaves d) ->
  teq (Node u ux (Node c f d dl) uy) (Node u ux (Node d dl c f) uy).
Proof.
  intros ND. split; [cbn [leaves]; apply Permutation_app_head, Permutation_app_comm|].
  intros x y Hx Hy N. cbn [leaves] in Hx, Hy.
  destruct (region3 u c d x ND Hx) as [(X1 & X2 & X3)|[(X1 & X2 & X3)|(X1 & X2 & X3)]];
  destruct (region3 u c d y ND Hy) as [(Y1 & Y2 & Y3)|[(Y1 & Y2 & Y3)|(Y1 & Y2 & Y3)]];
    cbn [tdist dep]; rewrite ?has_node, ?X1, ?X2, ?X3, ?Y1, ?Y2, ?Y3; cbn [orb andb];
    rewrite ?X1, ?X2, ?X3, ?Y1, ?Y2, ?Y3; try reflexivity; ring.
Qed.

(* distances are at most the sum of the depths; depths of positive trees are non-negative *)
Lemma dep_nonneg t : positive t -> forall x, (0 <= dep t x)%Q.
Proof.
  induction t as [z|l IHl bl r IHr br]; intros HP x; [apply Qle_refl|].
  cbn [positive] in HP. destruct HP as (Pl & Pr & P1 & P2). cbn [dep].
  pose proof (IHl P1 x). pose proof (IHr P2 x).
  destruct (has l x); [lra|]. destruct (has r x); lra.
Qed.

Lemma tdist_le_deps t : NoDup (leaves t) -> positive t -> forall x y,
  In x (leaves t) -> In y (leaves t) -> (tdist t x y <= dep t x + dep t y)%Q.
Proof.
  induction t as [z|l IHl bl r IHr br]; intros ND HP x y Hx Hy; [cbn; lra|].
  cbn [leaves] in *. cbn [positive] in HP. destruct HP as (Pl & Pr & P1 & P2).
  apply in_app_or in Hx. apply in_app_or in Hy.
  destruct Hx as [Hx|Hx], Hy as [Hy|Hy].
  - rewrite (tdist_ll l r bl br) by assumption. rewrite !(dep_l l r bl br) by assumption.
    pose proof (IHl (NoDup_app_l _ _ ND) P1 x y Hx Hy). lra.
  - rewrite (tdist_lr l r bl br ND) by assumption. rewrite (dep_l l r bl br x), (dep_r l r bl br ND y) by assumption. lra.
  - rewrite (tdist_rl l r bl br ND) by assumption. rewrite (dep_l l r bl br y), (dep_r l r bl br ND x) by assumption. lra.
  - rewrite (tdist_rr l r bl br ND) by assumption. rewrite !(dep_r l r bl br ND) by assumption.
    pose proof (IHr (NoDup_app_r _ _ ND) P2 x y Hx Hy). lra.
Qed.

(* a cherry (two sibling leaves) inside a tree, with the depth of its parent *)
Inductive cherry_at : tree -> nat -> Q -> nat -> Q -> Q -> Prop :=
| ch_here p ep q eq : cherry_at (Node (Leaf p) ep (Leaf q) eq) p ep q eq 0
| ch_left l bl r br p ep q eq dl :
    cherry_at l p ep q eq dl -> cherry_at (Node l bl r br) p ep q eq (bl + dl)
| ch_right l bl r br p ep q eq dl :
    cherry_at r p ep q eq dl -> cherry_at (Node l bl r br) p ep q eq (br + dl).

Lemma leaves_nonempty t : 1 <= length (leaves t).
Proof.
  induction t as [z|l IHl bl r IHr br]; [cbn; lia|]. cbn [leaves]. rewrite app_length. lia.
Qed.

Lemma cherry_exists t : 2 <= length (leaves t) -> exists p ep q eq dl, cherry_at t p ep q eq dl.
Proof.
  induction t as [z|l IHl bl r IHr br]; intros L; [cbn in L; lia|].
  destruct (le_lt_dec 2 (length (leaves l))) as [Ll|Ll].
  - destruct (IHl Ll) as (p & ep & q & eq & dl & H).
    exists p, ep, q, eq, (bl + dl)%Q. apply ch_left. exact H.
  - destruct (le_lt_dec 2 (length (leaves r))) as [Lr|Lr].
    + destruct (IHr Lr) as (p & ep & q & eq & dl & H).
      exists p, ep, q, eq, (br + dl)%Q. apply ch_right. exact H.
    + pose proof (leaves_nonempty l). pose proof (leaves_nonempty r).
      destruct l as [p|l1 c1 l2 c2].
      * destruct r as [q|r1 d1 r2 d2]; [exists p, bl, q, br, 0%Q; constructor|].
        cbn [leaves] in Lr. rewrite app_length in Lr.
        pose proof (leaves_nonempty r1). pose proof (leaves_nonempty r2). lia.
      * cbn [leaves] in Ll. rewrite app_length in Ll.
        pose proof (leaves_nonempty l1). pose proof (leaves_nonempty l2). lia.
Qed.

Lemma cherry_facts t p ep q eq dl : cherry_at t p ep q eq dl -> NoDup (leaves t) -> positive t ->
  In p (leaves t) /\ In q (leaves t) /\ p <> q /\ (0 < ep)%Q /\ (0 < eq)%Q /\ (0 <= dl)%Q /\
  (dep t p == dl + ep)%Q /\ (dep t q == dl + eq)%Q /\ (tdist t p q == ep + eq)%Q /\
  forall k, In k (leaves t) -> k <> p -> k <> q ->
    (2 * (dep t k - dl) <= tdist t p k + tdist t q k - (ep + eq))%Q.
Proof.
  induction 1 as [p ep q eq|l bl r br p ep q eq dl H IH|l bl r br p ep q eq dl H IH]; intros ND HP.
  - cbn [leaves app] in ND. cbn [positive] in HP. destruct HP as (P1 & P2 & _ & _).
    assert (Npq : p <> q) by (inversion ND as [|z zs Hz _]; subst; intros ->; apply Hz; left; reflexivity).
    assert (Eqp : Nat.eqb q p = false) by (apply Nat.eqb_neq; congruence).
    assert (Epq : Nat.eqb p q = false) by (apply Nat.eqb_neq; congruence).
    split; [left; reflexivity|]. split; [right; left; reflexivity|]. split; [exact Npq|].
    split; [exact P1|]. split; [exact P2|]. split; [lra|].
    unfold has. cbn [tdist dep has leaves existsb]. rewrite !Nat.eqb_refl, ?Epq, ?Eqp. cbn [orb].
    split; [ring|]. split; [ring|]. split; [ring|].
    intros k [<-|[<-|[]]] N1 N2; congruence.
  - cbn [leaves] in ND. cbn [positive] in HP. destruct HP as (Pbl & Pbr & P1 & P2).
    destruct (IH (NoDup_app_l _ _ ND) P1) as (Ip & Iq & Npq & Pep & Peq & Pdl & Dp & Dq & Tpq & Hk).
    cbn [leaves]. split; [apply in_or_app; left; exact Ip|]. split; [apply in_or_app; left; exact Iq|].
    split; [exact Npq|]. split; [exact Pep|]. split; [exact Peq|]. split; [lra|].
    rewrite !(dep_l l r bl br) by assumption. rewrite (tdist_ll l r bl br) by assumption.
    split; [lra|]. split; [lra|]. split; [exact Tpq|].
    intros k Ik N1 N2. apply in_app_or in Ik. destruct Ik as [Ik|Ik].
    + rewrite (dep_l l r bl br) by assumption. rewrite !(tdist_ll l r bl br) by assumption.
      pose proof (Hk k Ik N1 N2). lra.
    + rewrite (dep_r l r bl br ND) by assumption. rewrite !(tdist_lr l r bl br ND) by assumption. lra.
  - cbn [leaves] in ND. cbn [positive] in HP. destruct HP as (Pbl & Pbr & P1 & P2).
    destruct (IH (NoDup_app_r _ _ ND) P2) as (Ip & Iq & Npq & Pep & Peq & Pdl & Dp & Dq & Tpq & Hk).
    cbn [leaves]. split; [apply in_or_app; right; exact Ip|]. split; [apply in_or_app; right; exact Iq|].
    split; [exact Npq|]. split; [exact Pep|]. split; [exact Peq|]. split; [lra|].
    rewrite !(dep_r l r bl br ND) by assumption. rewrite (tdist_rr l r bl br ND) by assumption.
    split; [lra|]. split; [lra|]. split; [exact Tpq|].
    intros k Ik N1 N2. apply in_app_or in Ik. destruct Ik as [Ik|Ik].
    + rewrite (dep_l l r bl br) by assumption. rewrite !(tdist_rl l r bl br ND) by assumption. lra.
    + rewrite (dep_r l r bl br ND) by assumption. rewrite !(tdist_rr l r bl br ND) by assumption.
      pose proof (Hk k Ik N1 N2). lra.
Qed.

(* rotations with the lengths given up to == *)
Lemma teq_rotate_gen l1 c1 l2 c2 bl r br x1 x2 e : (x1 + x2 == c1)%Q -> (e == bl + br)%Q ->
  NoDup (leaves l1 ++ leaves l2 ++ leaves r) ->
  teq (Node (Node l1 c1 l2 c2) bl r br) (Node l1 x1 (Node l2 c2 r e) x2).
Proof.
  intros Ec Ee ND. split; [cbn [leaves]; rewrite <- app_assoc; apply Permutation_refl|].
  intros x y Hx Hy N. cbn [leaves] in Hx, Hy. rewrite <- app_assoc in Hx, Hy.
  destruct (region3 l1 l2 r x ND Hx) as [(X1 & X2 & X3)|[(X1 & X2 & X3)|(X1 & X2 & X3)]];
  destruct (region3 l1 l2 r y ND Hy) as [(Y1 & Y2 & Y3)|[(Y1 & Y2 & Y3)|(Y1 & Y2 & Y3)]];
    cbn [tdist dep]; rewrite ?has_node, ?X1, ?X2, ?X3, ?Y1, ?Y2, ?Y3; cbn [orb andb];
    rewrite ?X1, ?X2, ?X3, ?Y1, ?Y2, ?Y3; try reflexivity; lra.
Qed.

Lemma teq_rotate2_gen l1 c1 l2 c2 bl r br x1 x2 e : (x1 + x2 == c2)%Q -> (e == bl + br)%Q ->
  NoDup (leaves l1 ++ leaves l2 ++ leaves r) ->
  teq (Node (Node l1 c1 l2 c2) bl r br) (Node l2 x1 (Node l1 c1 r e) x2).
Proof.
  intros Ec Ee ND. split.
  - cbn [leaves]. rewrite <- app_assoc. rewrite !app_assoc.
    apply Permutation_app_tail. apply Permutation_app_comm.
  - intros x y Hx Hy N. cbn [leaves] in Hx, Hy. rewrite <- app_assoc in Hx, Hy.
    destruct (region3 l1 l2 r x ND Hx) as [(X1 & X2 & X3)|[(X1 & X2 & X3)|(X1 & X2 & X3)]];
    destruct (region3 l1 l2 r y ND Hy) as [(Y1 & Y2 & Y3)|[(Y1 & Y2 & Y3)|(Y1 & Y2 & Y3)]];
      cbn [tdist dep]; rewrite ?has_node, ?X1, ?X2, ?X3, ?Y1, ?Y2, ?Y3; cbn [orb andb];
      rewrite ?X1, ?X2, ?X3, ?Y1, ?Y2, ?Y3; try reflexivity; lra.
Qed.

(* a distance function that is the metric of T is the metric of every equivalent tree *)
Definition metric_of (d : nat -> nat -> Q) (T : tree) : Prop :=
  forall x y, In x (leaves T) -> In y (leaves T) -> x <> y -> (d x y == tdist T x y)%Q.

Lemma metric_of_teq d T T' : teq T T' -> metric_of d T -> metric_of d T'.
Proof.
  intros [P H] Hd x y Hx Hy N.
  pose proof (Permutation_in _ (Permutation_sym P) Hx) as Hx'.
  pose proof (Permutation_in _ (Permutation_sym P) Hy) as Hy'.
  rewrite (Hd x y Hx' Hy' N). exact (H x y Hx' Hy' N).
Qed.
