(* Boolean checkers that are run on the implementation's tree matrices and
   parsed Newick strings, and the per-case comparison function of the
   correspondence check for upgma / neighbor.  Specs of the checkers are in
   TreeBuildProofs.v. *)
From Coq Require Import QArith List Arith Bool.
From LV Require Import Common.Cases Cluster.Nwk Cluster.Upgma Cluster.Neighbor Cluster.Fmt2.
Import ListNotations.
Local Open Scope nat_scope.

(* |a - b| <= eps *)
Definition qclose (eps a b : Q) : bool :=
  Qle_bool (a - b) eps && Qle_bool (b - a) eps.

Definition memb (x : nat) (l : list nat) : bool := existsb (Nat.eqb x) l.
Definition subsetb (a b : list nat) : bool := forallb (fun x => memb x b) a.
Definition same_setb (a b : list nat) : bool := subsetb a b && subsetb b a.

(* l is a permutation of 0..n-1 *)
Definition permb (n : nat) (l : list nat) : bool :=
  Nat.eqb (length l) n && subsetb (seq 0 n) l.

(* ------------------------------------------------------------------ *)
(* structure of a tree matrix *)
Fixpoint mergesb (live : list nat) (next : nat) (rows : list row) : bool :=
  match rows with
  | [] => true
  | (a, b, _, _) :: tl =>
      memb a live && memb b live && negb (Nat.eqb a b)
      && mergesb (next :: remove Nat.eq_dec b (remove Nat.eq_dec a live)) (S next) tl
  end.

Definition valid_rowsb (n : nat) (rows : list row) : bool :=
  Nat.eqb (length rows) (n - 1) && mergesb (seq 0 n) n rows.

(* ------------------------------------------------------------------ *)
(* parsed Newick strings *)
Fixpoint nt_leaves (t : ntree) : list nat :=
  match t with
  | NLeaf x => [x]
  | NNode ch => flat_map (fun p => nt_leaves (fst p)) ch
  end.

Fixpoint nt_binaryb (t : ntree) : bool :=
  match t with
  | NLeaf _ => true
  | NNode ch => Nat.eqb (length ch) 2 && forallb (fun p => nt_binaryb (fst p)) ch
  end.

(* same nesting and same order of children; lengths within tol when [lens] *)
Fixpoint nt_eqb (lens : bool) (tol : Q) (t1 t2 : ntree) : bool :=
  match t1, t2 with
  | NLeaf x, NLeaf y => Nat.eqb x y
  | NNode c1, NNode c2 =>
      (fix go (l1 l2 : list (ntree * Q)) : bool :=
         match l1, l2 with
         | [], [] => true
         | (a, la) :: r1, (b, lb) :: r2 =>
             nt_eqb lens tol a b && (negb lens || qclose tol la lb) && go r1 r2
         | _, _ => false
         end) c1 c2
  | _, _ => false
  end.

(* leaf sets of all internal nodes (root included) *)
Fixpoint nt_clades (t : ntree) : list (list nat) :=
  match t with
  | NLeaf _ => []
  | NNode ch => nt_leaves t :: flat_map (fun p => nt_clades (fst p)) ch
  end.

(* leaf sets below every edge (all proper subtrees, leaves included) *)
Fixpoint nt_below (t : ntree) : list (list nat) :=
  match t with
  | NLeaf _ => []
  | NNode ch => flat_map (fun p => nt_leaves (fst p) :: nt_below (fst p)) ch
  end.

(* two families of sets contain the same sets *)
Definition fam_subb (eqs : list nat -> list nat -> bool) (f1 f2 : list (list nat)) : bool :=
  forallb (fun c => existsb (eqs c) f2) f1.
Definition fam_eqb (eqs : list nat -> list nat -> bool) (f1 f2 : list (list nat)) : bool :=
  fam_subb eqs f1 f2 && fam_subb eqs f2 f1.

(* rooted: the clades coincide *)
Definition clades_eqb (t1 t2 : ntree) : bool :=
  fam_eqb same_setb (nt_clades t1) (nt_clades t2).

(* unrooted: the bipartitions {S, all - S} induced by the edges coincide *)
Definition compl (all s : list nat) : list nat := filter (fun x => negb (memb x s)) all.
Definition split_eqb (all s1 s2 : list nat) : bool :=
  same_setb s1 s2 || same_setb s1 (compl all s2).
Definition splits_eqb (t1 t2 : ntree) : bool :=
  same_setb (nt_leaves t1) (nt_leaves t2)
  && fam_eqb (split_eqb (nt_leaves t1)) (nt_below t1) (nt_below t2).

(* ------------------------------------------------------------------ *)
(* metric read off a tree with branch lengths *)
Fixpoint ldepths (t : tree) : list (nat * Q) :=
  match t with
  | Leaf x => [(x, 0%Q)]
  | Node l bl r br =>
      map (fun p => (fst p, (bl + snd p)%Q)) (ldepths l)
      ++ map (fun p => (fst p, (br + snd p)%Q)) (ldepths r)
  end.

(* path length between every pair of leaves (each unordered pair once) *)
Fixpoint pairdists (t : tree) : list ((nat * nat) * Q) :=
  match t with
  | Leaf _ => []
  | Node l bl r br =>
      pairdists l ++ pairdists r ++
      flat_map (fun p => map (fun q => ((fst p, fst q), (bl + snd p + (br + snd q))%Q)) (ldepths r))
               (ldepths l)
  end.

(* every path sum reproduces the matrix (both triangles) within eps *)
Definition pathsumsb (eps : Q) (m : mat) (t : tree) : bool :=
  forallb (fun e => qclose eps (snd e) (dm m (fst (fst e)) (snd (fst e)))
                    && qclose eps (snd e) (dm m (snd (fst e)) (fst (fst e))))
          (pairdists t).

(* all root-to-leaf sums agree within eps with the first one *)
Definition ultrab (eps : Q) (t : tree) : bool :=
  match depths t with
  | [] => true
  | h :: tl => forallb (qclose eps h) tl
  end.

(* ------------------------------------------------------------------ *)
(* the same two clauses on the Newick string with lengths.  Every printed length
   ('{:.2f}') is within 1/200 of the value it renders, so a sum over k edges is
   within k/200 of the sum of the values. *)

(* leaves with the printed root-to-leaf length and the number of edges *)
Fixpoint nt_ldepths (t : ntree) : list (nat * Q * nat) :=
  match t with
  | NLeaf x => [(x, 0%Q, 0)]
  | NNode ch => flat_map (fun p => map (fun e => (fst (fst e), (snd p + snd (fst e))%Q, S (snd e)))
                                       (nt_ldepths (fst p))) ch
  end.

Definition qclose_k (eps : Q) (k : nat) (a b : Q) : bool :=
  qclose (eps + inject_Z (Z.of_nat k) / 200) a b.

Definition nt_ultrab (eps : Q) (t : ntree) : bool :=
  let l := nt_ldepths t in
  forallb (fun e1 => forallb (fun e2 => qclose_k eps (snd e1 + snd e2) (snd (fst e1)) (snd (fst e2))) l) l.

Fixpoint cross_groups {A} (gs : list (list A)) : list (A * A) :=
  match gs with
  | [] => []
  | g :: tl => flat_map (fun p => flat_map (fun g' => map (fun q => (p, q)) g') tl) g ++ cross_groups tl
  end.

(* every pair of leaves with the two printed lengths down from their meeting node *)
Fixpoint nt_pairs (t : ntree) : list ((nat * Q * nat) * (nat * Q * nat)) :=
  match t with
  | NLeaf _ => []
  | NNode ch =>
      flat_map (fun p => nt_pairs (fst p)) ch
      ++ cross_groups (map (fun p => map (fun e => (fst (fst e), (snd p + snd (fst e))%Q, S (snd e)))
                                         (nt_ldepths (fst p))) ch)
  end.

Definition nt_pathsumsb (eps : Q) (m : mat) (t : ntree) : bool :=
  forallb (fun pq =>
     let e1 := fst pq in let e2 := snd pq in
     let x := fst (fst e1) in let y := fst (fst e2) in
     let v := (snd (fst e1) + snd (fst e2))%Q in
     qclose_k eps (snd e1 + snd e2) v (dm m x y) && qclose_k eps (snd e1 + snd e2) v (dm m y x))
    (nt_pairs t).

(* ------------------------------------------------------------------ *)
(* the premise of the partial NJ theorem, decided on the model's run: every pair
   selected along the run is a cherry of the current matrix (the difference of
   the distances to a and to b is the same from every third taxon) *)
Definition metric_cherryb (m : mat) (n a b : nat) : bool :=
  forallb (fun k => forallb (fun l =>
    Nat.eqb k a || Nat.eqb k b || Nat.eqb l a || Nat.eqb l b
    || Qeq_bool (dm m a k - dm m b k) (dm m a l - dm m b l)) (seq 0 n)) (seq 0 n).

Fixpoint picks_cherriesb (fuel : nat) (st : njstate) : bool :=
  match fuel with
  | O => true
  | S f =>
      match nj_step st with
      | Some (_, st') =>
          match first_min (nj_scores (nj_m st) (length (nj_cls st))) with
          | Some ((a, b), _) => metric_cherryb (nj_m st) (length (nj_cls st)) a b
          | None => true
          end && picks_cherriesb f st'
      | None => true
      end
  end.

(* ------------------------------------------------------------------ *)
(* correspondence cases *)
Inductive algo := AUpgma | ANj.

Definition row_eqb (eps : Q) (r1 r2 : row) : bool :=
  match r1, r2 with
  | (a1, b1, c1, e1), (a2, b2, c2, e2) =>
      Nat.eqb a1 a2 && Nat.eqb b1 b2 && qclose eps c1 c2 && qclose eps e1 e2
  end.

Record tb_case := {
  tb_algo : algo;
  tb_mat : mat;
  tb_eps : Q;             (* tolerance for lengths: 0 where float arithmetic is exact *)
  tb_cmp : bool;          (* compare the tree matrix with the model (false: NJ case not margin-certified) *)
  tb_rows : list row;     (* implementation: the tree matrix *)
  tb_nwk : ntree;         (* implementation: parsed Newick, distances=False *)
  tb_nwkd : ntree;        (* implementation: parsed Newick, distances=True (lengths as printed) *)
  tb_gen : option tree;   (* generating tree (ultrametric for UPGMA, additive for NJ); None: arbitrary matrix *)
  tb_t2n : ntree;         (* implementation: _tree2nwk(tree matrix, taxa, distances=False), parsed *)
  tb_t2nd : ntree;        (* implementation: _tree2nwk(tree matrix, taxa, distances=True), parsed *)
  tb_objl : list ntree;   (* tree OBJECTS with lengths, read structurally (children, Name, Length):
                             matrix2tree(distances=True), LoadTree(treestring=the builder's Newick),
                             LoadTree(treestring=str(the first object)) *)
  tb_objt : list ntree;   (* tree objects without lengths: matrix2tree(distances=False) *)
  tb_tips : list (list nat)  (* getTipNames() and .taxa of every tree object, names mapped to taxon indices *)
}.

Definition model_rows (c : tb_case) : list row :=
  match tb_algo c with
  | AUpgma => upgma_rows (length (tb_mat c)) (dm (tb_mat c))
  | ANj => nj_rows (tb_mat c)
  end.

Definition is_upgma (c : tb_case) : bool :=
  match tb_algo c with AUpgma => true | ANj => false end.

(* lengths read from a tree object are the printed decimals parsed to doubles: allow 2^-40 on top *)
Definition obj_slack : Q := 1 # 1099511627776.

Definition tb_case_code (c : tb_case) : nat :=
  let n := length (tb_mat c) in
  let rows := tb_rows c in
  let built := nwk n rows in     (* the nesting the tree matrix defines *)
  bit 0 ((negb (tb_cmp c) || list_eqb (row_eqb (tb_eps c)) (model_rows c) rows)
         && match built with
            | Some t => nt_eqb false 0 (nt_of_tree t) (tb_nwk c)
                        (* the printed lengths are exactly the '{:.2f}' rendering (fmt2) of the
                           tree-matrix values: compared with tolerance 0 *)
                        && nt_eqb true 0 (nt_of_tree (tree_fmt2 t)) (tb_nwkd c)
                        && nt_eqb false 0 (nt_of_tree t) (tb_t2n c)
                        && nt_eqb true 0 (nt_of_tree (tree_fmt2 t)) (tb_t2nd c)
                        && forallb (nt_eqb true 0 (nt_of_tree (tree_fmt2 t))) (tb_objl c)
                        && forallb (nt_eqb false 0 (nt_of_tree t)) (tb_objt c)
            | None => false
            end)
  + bit 1 (valid_rowsb n rows
           && nt_binaryb (tb_nwk c) && permb n (nt_leaves (tb_nwk c))
           && nt_binaryb (tb_nwkd c) && permb n (nt_leaves (tb_nwkd c))
           && forallb (fun o => nt_binaryb o && permb n (nt_leaves o))
                      (tb_t2n c :: tb_t2nd c :: tb_objl c ++ tb_objt c)
           && forallb (permb n) (tb_tips c)
           && match built with Some t => permb n (leaves t) | None => false end)
  + bit 2 (negb (is_upgma c)
           || (match built with Some t => ultrab (tb_eps c) t | None => false end
               && nt_ultrab (tb_eps c) (tb_nwkd c) && nt_ultrab (tb_eps c) (tb_t2nd c)
               && forallb (nt_ultrab (tb_eps c + obj_slack)) (firstn 1 (tb_objl c))))
  + bit 3 (match tb_gen c with
           | Some g => negb (is_upgma c) || clades_eqb (nt_of_tree g) (tb_nwk c)
           | None => true
           end)
  + bit 4 (match tb_gen c with
           | Some g => is_upgma c || splits_eqb (nt_of_tree g) (tb_nwk c)
           | None => true
           end)
  + bit 5 (match tb_gen c, built with
           | Some g, Some t => pathsumsb (tb_eps c) (tb_mat c) t
                               && nt_pathsumsb (tb_eps c) (tb_mat c) (tb_nwkd c)
                               && nt_pathsumsb (tb_eps c) (tb_mat c) (tb_t2nd c)
                               && forallb (nt_pathsumsb (tb_eps c + obj_slack) (tb_mat c)) (firstn 1 (tb_objl c))
           | Some g, None => false
           | None, _ => true
           end)
  + bit 6 (match tb_gen c with
           | Some g => is_upgma c || picks_cherriesb n (nj_init (tb_mat c))
           | None => true
           end).
