(* The revert=True orientation of flat clustering (item -> cluster key + 1) describes the same
   partition as the clusters dictionary: every item is a key exactly once, and two items carry
   the same value iff they share a cluster. *)
From Coq Require Import List Arith Bool Lia.
From LV Require Import Cluster.Flat Cluster.FlatProofs Cluster.FlatLinkage.
Import ListNotations.

Lemma in_revert x k (cl : clusters) :
  In (x, k) (revert cl) <-> exists k0 v, In (k0, v) cl /\ In x v /\ k = S k0.
Proof.
  unfold revert. rewrite in_flat_map. split.
  - intros [[k0 v] [Hc H]]. cbn [fst snd] in H. rewrite in_map_iff in H.
    destruct H as [i [E Hi]]. inversion E; subst. exists k0, v. auto.
  - intros [k0 [v [Hc [Hx ->]]]]. exists (k0, v). split; [exact Hc|]. cbn [fst snd].
    rewrite in_map_iff. exists x. auto.
Qed.

Lemma revert_keys_count x (cl : clusters) :
  count_occ Nat.eq_dec (map fst (revert cl)) x = count x cl.
Proof.
  induction cl as [|[k v] tl IH]; [reflexivity|].
  unfold revert in *. cbn [flat_map]. rewrite map_app, count_occ_app, IH, count_cons. cbn [fst snd].
  f_equal. rewrite map_map. cbn [fst]. rewrite map_id. reflexivity.
Qed.

Section Revert.
  Variable V : Type.
  Variable leb : V -> V -> bool.
  Variable link : list V -> V.
  Variable d : nat -> nat -> V.

  Theorem flat_revert_partition (n : nat) (thr : V) :
    let cl := flat leb link d n thr in
    (forall x, count_occ Nat.eq_dec (map fst (revert cl)) x = if x <? n then 1 else 0) /\
    (forall x y kx ky, In (x, kx) (revert cl) -> In (y, ky) (revert cl) ->
       (kx = ky <-> together cl x y)).
  Proof.
    cbv zeta. split.
    - intros x. rewrite revert_keys_count. apply flat_partition.
    - intros x y kx ky Hx Hy.
      apply in_revert in Hx. destruct Hx as [k1 [v1 [C1 [X1 ->]]]].
      apply in_revert in Hy. destruct Hy as [k2 [v2 [C2 [Y2 ->]]]].
      pose proof (flat_keys_nodup V leb link d n thr) as W.
      split.
      + intros E. assert (k1 = k2) by lia. subst k2.
        assert (v1 = v2) as ->.
        { clear - W C1 C2. unfold keys in W.
          induction (flat leb link d n thr) as [|[k v] tl IH]; [destruct C1|].
          cbn [map fst] in W. inversion W as [|? ? NI W']; subst.
          destruct C1 as [E1|C1], C2 as [E2|C2].
          - congruence.
          - inversion E1; subst. exfalso. apply NI. apply (in_map fst) in C2. exact C2.
          - inversion E2; subst. exfalso. apply NI. apply (in_map fst) in C1. exact C1.
          - auto. }
        exists k1, v2. auto.
      + intros [k [v [C [Xv Yv]]]].
        assert (Cx : count x (flat leb link d n thr) <= 1).
        { rewrite flat_partition. destruct (x <? n); lia. }
        assert (Cy : count y (flat leb link d n thr) <= 1).
        { rewrite flat_partition. destruct (y <? n); lia. }
        destruct (count_two x _ k1 v1 k v W C1 C X1 Xv Cx) as [E1 _].
        destruct (count_two y _ k2 v2 k v W C2 C Y2 Yv Cy) as [E2 _]. congruence.
  Qed.
End Revert.

(* The taxa orientation: flat_cluster(..., taxa) replaces every member index by its name and keeps the keys.  With
   pairwise distinct names (an injective naming of the items) the relabelled clusters are a partition of the names:
   the name of every item below n occurs exactly once, and two names share a cluster iff their items do. *)
Section Taxa.
  Variable T : Type.
  Variable T_dec : forall a b : T, {a = b} + {a <> b}.
  Variable name : nat -> T.
  Hypothesis name_inj : forall x y, name x = name y -> x = y.

  Definition relabel (cl : clusters) : list (nat * list T) := map (fun c => (fst c, map name (snd c))) cl.

  Definition count_name (t : T) (rl : list (nat * list T)) : nat :=
    list_sum (map (fun c => count_occ T_dec (snd c) t) rl).

  Lemma count_name_relabel x cl : count_name (name x) (relabel cl) = count x cl.
  Proof.
    unfold count_name, relabel, count. rewrite map_map. f_equal. apply map_ext. intros [k v]. cbn [fst snd].
    symmetry. apply count_occ_map. exact name_inj.
  Qed.

  Variable V : Type.
  Variable leb : V -> V -> bool.
  Variable link : list V -> V.
  Variable d : nat -> nat -> V.

  Theorem flat_taxa_partition (n : nat) (thr : V) :
    let cl := flat leb link d n thr in
    (forall x, count_name (name x) (relabel cl) = if x <? n then 1 else 0) /\
    map fst (relabel cl) = map fst cl /\
    (forall x y, (exists k v, In (k, v) (relabel cl) /\ In (name x) v /\ In (name y) v) <-> together cl x y).
  Proof.
    cbv zeta. split; [|split].
    - intros x. rewrite count_name_relabel. apply flat_partition.
    - unfold relabel. rewrite map_map. reflexivity.
    - intros x y. unfold relabel, together. split.
      + intros [k [v [H [Hx Hy]]]]. rewrite in_map_iff in H. destruct H as [[k0 v0] [E H]].
        cbn [fst snd] in E. injection E as Ek Ev. subst k v. exists k0, v0. split; [exact H|].
        rewrite in_map_iff in Hx, Hy. destruct Hx as [x' [Ex Hx]], Hy as [y' [Ey Hy]].
        apply name_inj in Ex, Ey. subst. auto.
      + intros [k [v [H [Hx Hy]]]]. exists k, (map name v). split; [|split; apply in_map; assumption].
        rewrite in_map_iff. exists (k, v). auto.
  Qed.
End Taxa.
