(* Instances of FlatDistinct on whole-number distances (e.g. raw edit counts): single linkage (minimum) and complete
   linkage (maximum) on a matrix whose entries between distinct items are pairwise distinct coincide with the textbook
   agglomerative procedure.  A concrete 4 x 4 matrix shows the hypothesis is satisfiable. *)
From Coq Require Import List Arith Bool Lia Permutation.
From LV Require Import Cluster.Flat Cluster.FlatProofs Cluster.FlatLinkage Cluster.FlatTextbook Cluster.FlatUnique Cluster.FlatDistinct.
Import ListNotations.

Definition lsel (f : nat -> nat -> nat) (l : list nat) : nat :=
  match l with [] => 0 | x :: t => fold_left f t x end.
Definition lmin := lsel Nat.min.
Definition lmax := lsel Nat.max.

Lemma fold_sel_in (f : nat -> nat -> nat) (Hf : forall a b, f a b = a \/ f a b = b) t : forall x,
  In (fold_left f t x) (x :: t).
Proof.
  induction t as [|a t IH]; intros x; [left; reflexivity|]. cbn [fold_left].
  destruct (IH (f x a)) as [E|H]; [|right; right; exact H].
  destruct (Hf x a) as [E'|E']; [left|right; left]; rewrite <- E; symmetry; exact E'.
Qed.

Lemma lsel_in f (Hf : forall a b, f a b = a \/ f a b = b) l : l <> [] -> In (lsel f l) l.
Proof. destruct l as [|x t]; [congruence|]. intros _. apply fold_sel_in. exact Hf. Qed.

Lemma min_sel a b : Nat.min a b = a \/ Nat.min a b = b. Proof. lia. Qed.
Lemma max_sel a b : Nat.max a b = a \/ Nat.max a b = b. Proof. lia. Qed.

Lemma fold_min_le t : forall x y, In y (x :: t) -> fold_left Nat.min t x <= y.
Proof.
  induction t as [|a t IH]; intros x y H; cbn [fold_left].
  - destruct H as [->|[]]. lia.
  - destruct H as [->|[->|H]].
    + pose proof (IH (Nat.min y a) (Nat.min y a) (or_introl eq_refl)). lia.
    + pose proof (IH (Nat.min x y) (Nat.min x y) (or_introl eq_refl)). lia.
    + apply IH. right. exact H.
Qed.

Lemma fold_max_ge t : forall x y, In y (x :: t) -> y <= fold_left Nat.max t x.
Proof.
  induction t as [|a t IH]; intros x y H; cbn [fold_left].
  - destruct H as [->|[]]. lia.
  - destruct H as [->|[->|H]].
    + pose proof (IH (Nat.max y a) (Nat.max y a) (or_introl eq_refl)). lia.
    + pose proof (IH (Nat.max x y) (Nat.max x y) (or_introl eq_refl)). lia.
    + apply IH. right. exact H.
Qed.

Lemma lmin_perm l l' : Permutation l l' -> lmin l = lmin l'.
Proof.
  intros P. destruct l as [|x t].
  - apply Permutation_nil in P. subst. reflexivity.
  - destruct l' as [|x' t']; [apply Permutation_sym, Permutation_nil in P; discriminate|].
    unfold lmin, lsel.
    pose proof (fold_sel_in Nat.min min_sel t x) as I1. pose proof (fold_sel_in Nat.min min_sel t' x') as I2.
    pose proof (fold_min_le t' x' _ (Permutation_in _ P I1)).
    pose proof (fold_min_le t x _ (Permutation_in _ (Permutation_sym P) I2)). lia.
Qed.

Lemma lmax_perm l l' : Permutation l l' -> lmax l = lmax l'.
Proof.
  intros P. destruct l as [|x t].
  - apply Permutation_nil in P. subst. reflexivity.
  - destruct l' as [|x' t']; [apply Permutation_sym, Permutation_nil in P; discriminate|].
    unfold lmax, lsel.
    pose proof (fold_sel_in Nat.max max_sel t x) as I1. pose proof (fold_sel_in Nat.max max_sel t' x') as I2.
    pose proof (fold_max_ge t' x' _ (Permutation_in _ P I1)).
    pose proof (fold_max_ge t x _ (Permutation_in _ (Permutation_sym P) I2)). lia.
Qed.

Lemma nleb_total a b : Nat.leb a b = true \/ Nat.leb b a = true.
Proof. destruct (Nat.leb_spec a b); [left; reflexivity|right; apply Nat.leb_le; lia]. Qed.
Lemma nleb_trans a b c : Nat.leb a b = true -> Nat.leb b c = true -> Nat.leb a c = true.
Proof. rewrite !Nat.leb_le. lia. Qed.

(* distances between distinct items below n are pairwise distinct *)
Definition distinct_entries (d : nat -> nat -> nat) (n : nat) : Prop :=
  forall x y x' y', x < n -> y < n -> x' < n -> y' < n -> x <> y -> x' <> y' ->
    d x y = d x' y' -> (x = x' /\ y = y') \/ (x = y' /\ y = x').

Section NatInstances.
  Variable d : nat -> nat -> nat.
  Variable n : nat.
  Hypothesis D : distinct_entries d n.

  Lemma D_leb x y x' y' : x < n -> y < n -> x' < n -> y' < n -> x <> y -> x' <> y' ->
    Nat.leb (d x y) (d x' y') = true -> Nat.leb (d x' y') (d x y) = true ->
    (x = x' /\ y = y') \/ (x = y' /\ y = x').
  Proof. intros ? ? ? ? ? ? L1 L2. apply Nat.leb_le in L1, L2. apply D; try assumption. lia. Qed.

  Theorem single_linkage_is_textbook thr r :
    tb_run nat Nat.leb lmin d thr (init n) r -> same_part r (flat Nat.leb lmin d n thr).
  Proof.
    apply (flat_coincides_with_textbook nat Nat.leb lmin d nleb_total nleb_trans lmin_perm n thr).
    apply distinct_no_ties; [exact (lsel_in Nat.min min_sel)|exact D_leb].
  Qed.

  Theorem complete_linkage_is_textbook thr r :
    tb_run nat Nat.leb lmax d thr (init n) r -> same_part r (flat Nat.leb lmax d n thr).
  Proof.
    apply (flat_coincides_with_textbook nat Nat.leb lmax d nleb_total nleb_trans lmax_perm n thr).
    apply distinct_no_ties; [exact (lsel_in Nat.max max_sel)|exact D_leb].
  Qed.
End NatInstances.

(* a concrete matrix with pairwise distinct entries: d(i, j) = 2^min(i,j) * 3^max(i,j) off the diagonal, n = 4 *)
Definition d_ex (i j : nat) : nat := if Nat.eqb i j then 0 else 2 ^ Nat.min i j * 3 ^ Nat.max i j.

Definition distinct_entriesb (d : nat -> nat -> nat) (n : nat) : bool :=
  forallb (fun x => forallb (fun y => forallb (fun x' => forallb (fun y' =>
    Nat.eqb x y || Nat.eqb x' y' || negb (Nat.eqb (d x y) (d x' y')) ||
    (Nat.eqb x x' && Nat.eqb y y') || (Nat.eqb x y' && Nat.eqb y x'))
    (seq 0 n)) (seq 0 n)) (seq 0 n)) (seq 0 n).

Lemma distinct_entriesb_sound d n : distinct_entriesb d n = true -> distinct_entries d n.
Proof.
  unfold distinct_entriesb, distinct_entries. intros H x y x' y' Hx Hy Hx' Hy' Nxy Nxy' E.
  rewrite forallb_forall in H. specialize (H x (proj2 (in_seq _ _ _) (conj (Nat.le_0_l _) Hx))).
  rewrite forallb_forall in H. specialize (H y (proj2 (in_seq _ _ _) (conj (Nat.le_0_l _) Hy))).
  rewrite forallb_forall in H. specialize (H x' (proj2 (in_seq _ _ _) (conj (Nat.le_0_l _) Hx'))).
  rewrite forallb_forall in H. specialize (H y' (proj2 (in_seq _ _ _) (conj (Nat.le_0_l _) Hy'))).
  rewrite !orb_true_iff, !andb_true_iff, negb_true_iff, !Nat.eqb_eq, Nat.eqb_neq in H.
  destruct H as [[[[H|H]|H]|H]|H]; try contradiction; [left|right]; exact H.
Qed.

Example d_ex_distinct : distinct_entries d_ex 4.
Proof. apply distinct_entriesb_sound. vm_compute. reflexivity. Qed.
