(* Generic facts about tree matrices, the Newick dictionary and runs of a
   builder (a step function emitting rows), used by UpgmaProofs and
   NeighborProofs. *)
From Coq Require Import QArith List Arith Bool Lia Permutation.
From LV Require Import Cluster.Nwk.
Import ListNotations.
Local Open Scope nat_scope.

(* ------------------------------------------------------------------ *)
(* the dictionary *)
Lemma dget_in_keys k D t : dget k D = Some t -> In k (map fst D).
Proof.
  induction D as [|[k' t'] tl IH]; cbn [dget map fst]; [discriminate|].
  destruct (Nat.eqb k k') eqn:E.
  - apply Nat.eqb_eq in E. intros _. left. symmetry. exact E.
  - intros H. right. exact (IH H).
Qed.

Lemma dget_app_some k D D' t : dget k D = Some t -> dget k (D ++ D') = Some t.
Proof.
  induction D as [|[k' t'] tl IH]; cbn [dget app]; [discriminate|].
  destruct (Nat.eqb k k'); [trivial|exact IH].
Qed.

Lemma dget_app_new k D t : ~ In k (map fst D) -> dget k (D ++ [(k, t)]) = Some t.
Proof.
  induction D as [|[k' t'] tl IH]; cbn [dget app map fst In]; intros H.
  - rewrite Nat.eqb_refl. reflexivity.
  - destruct (Nat.eqb k k') eqn:E.
    + apply Nat.eqb_eq in E. exfalso. apply H. left. symmetry. exact E.
    + apply IH. intros H'. apply H. right. exact H'.
Qed.

Lemma dget_init_gen n : forall s k, s <= k < s + n ->
  dget k (map (fun i => (i, Leaf i)) (seq s n)) = Some (Leaf k).
Proof.
  induction n as [|n IH]; intros s k Hk; [lia|].
  cbn [seq map dget].
  destruct (Nat.eqb k s) eqn:E.
  - apply Nat.eqb_eq in E. subst. reflexivity.
  - apply Nat.eqb_neq in E. apply IH. lia.
Qed.

Lemma dget_init n k : k < n -> dget k (nwk_init n) = Some (Leaf k).
Proof. intros H. apply dget_init_gen. lia. Qed.

Lemma keys_init n : map fst (nwk_init n) = seq 0 n.
Proof.
  unfold nwk_init. rewrite map_map. cbn [fst]. apply map_id.
Qed.

(* ------------------------------------------------------------------ *)
(* list helpers *)
Lemma remove_perm (l : list nat) a : NoDup l -> In a l ->
  Permutation l (a :: remove Nat.eq_dec a l).
Proof.
  induction l as [|x tl IH]; intros ND Hin; [destruct Hin|].
  inversion ND as [|x' tl' Hx NDtl]; subst.
  cbn [remove]. destruct (Nat.eq_dec a x) as [E|NE].
  - subst. rewrite notin_remove by exact Hx. apply Permutation_refl.
  - destruct Hin as [E|Hin]; [congruence|].
    eapply perm_trans; [apply perm_skip; exact (IH NDtl Hin)|apply perm_swap].
Qed.

Lemma NoDup_remove_nat (l : list nat) a : NoDup l -> NoDup (remove Nat.eq_dec a l).
Proof.
  induction l as [|x tl IH]; intros ND; cbn [remove]; [constructor|].
  inversion ND as [|x' tl' Hx NDtl]; subst.
  destruct (Nat.eq_dec a x); [exact (IH NDtl)|].
  constructor; [|exact (IH NDtl)].
  intros H. apply in_remove in H. tauto.
Qed.

Lemma in_remove_iff (l : list nat) a x : In x (remove Nat.eq_dec a l) <-> In x l /\ x <> a.
Proof.
  split; [apply in_remove|intros [H N]; apply in_in_remove; assumption].
Qed.

Lemma NoDup_app_l {A} (l1 l2 : list A) : NoDup (l1 ++ l2) -> NoDup l1.
Proof.
  induction l1 as [|x tl IH]; intros H; [constructor|].
  cbn [app] in H. inversion H as [|y l Hx ND]; subst. constructor; [|exact (IH ND)].
  intros Hin. apply Hx. apply in_or_app. left. exact Hin.
Qed.

Lemma NoDup_app_r {A} (l1 l2 : list A) : NoDup (l1 ++ l2) -> NoDup l2.
Proof.
  induction l1 as [|x tl IH]; intros H; [exact H|].
  cbn [app] in H. inversion H; subst. apply IH. assumption.
Qed.

Lemma NoDup_app_disj {A} (l1 l2 : list A) x : NoDup (l1 ++ l2) -> In x l1 -> In x l2 -> False.
Proof.
  induction l1 as [|y tl IH]; intros H H1 H2; [destruct H1|].
  cbn [app] in H. inversion H as [|z l Hy ND]; subst. destruct H1 as [->|H1].
  - apply Hy. apply in_or_app. right. exact H2.
  - exact (IH ND H1 H2).
Qed.

Lemma flat_map_ext_in {A B} (f g : A -> list B) (l : list A) :
  (forall x, In x l -> f x = g x) -> flat_map f l = flat_map g l.
Proof.
  induction l as [|x tl IH]; intros H; [reflexivity|].
  cbn [flat_map]. rewrite (H x (or_introl eq_refl)), IH; [reflexivity|].
  intros y Hy. apply H. right. exact Hy.
Qed.

Lemma list_max_seq k : list_max (seq 0 (S k)) = k.
Proof.
  induction k as [|k IH]; [reflexivity|].
  rewrite seq_S, list_max_app, IH. cbn. lia.
Qed.

Lemma list_max_ge l x : In x l -> x <= list_max l.
Proof.
  intros H. assert (F : Forall (fun k => k <= list_max l) l) by (apply list_max_le; lia).
  rewrite Forall_forall in F. exact (F x H).
Qed.

(* ------------------------------------------------------------------ *)
(* merges depends on the live nodes as a set only *)
Lemma merges_ext rows : forall l l' next,
  (forall x, In x l <-> In x l') -> merges l next rows -> merges l' next rows.
Proof.
  induction rows as [|r tl IH]; intros l l' next E H; [constructor|].
  inversion H as [|l0 n0 a b c e rows0 Ha Hb Hab Hm]; subst.
  constructor; try (apply E; assumption); try assumption.
  eapply IH; [|exact Hm].
  intros x. cbn [In]. rewrite !in_remove_iff, E. reflexivity.
Qed.

(* ------------------------------------------------------------------ *)
(* runs of a builder *)
Section Run.
  Variable S : Type.
  Variable step : S -> option (row * S).
  Variable last : S -> list row.

  Fixpoint grun (fuel : nat) (st : S) : list row :=
    match fuel with
    | O => []
    | Datatypes.S f =>
        match step st with
        | Some (r, st') => r :: grun f st'
        | None => last st
        end
    end.

  (* --- structure --- *)
  Variable live : S -> list nat.
  Variable I : S -> nat -> Prop.
  Hypothesis step_live : forall st next a b c e st',
    I st next -> step st = Some ((a, b, c, e), st') ->
    In a (live st) /\ In b (live st) /\ a <> b /\
    (forall x, In x (live st') <-> x = next \/ (In x (live st) /\ x <> a /\ x <> b)) /\
    I st' (Datatypes.S next).
  Hypothesis last_live : forall st next, I st next -> step st = None -> merges (live st) next (last st).

  Lemma grun_merges fuel : forall st next, I st next -> merges (live st) next (grun fuel st).
  Proof.
    induction fuel as [|f IH]; intros st next HI; cbn [grun]; [constructor|].
    destruct (step st) as [[[[[a b] c] e] st']|] eqn:E.
    - destruct (step_live _ _ _ _ _ _ _ HI E) as (Ha & Hb & Hab & Hl & HI').
      constructor; try assumption.
      eapply merges_ext; [|exact (IH _ _ HI')].
      intros x. rewrite Hl. cbn [In]. rewrite !in_remove_iff. split.
      + intros [->|(H1 & H2 & H3)]; [left; reflexivity|right; tauto].
      + intros [<-|((H1 & H2) & H3)]; [left; reflexivity|right; tauto].
    - exact (last_live _ _ HI E).
  Qed.

  (* --- the Newick dictionary along the run --- *)
  Variable P : S -> dict -> nat -> Prop.
  Variable Qf : dict -> nat -> Prop.
  Variable mu : S -> nat.
  Hypothesis step_ok : forall st D next r st',
    P st D next -> step st = Some (r, st') ->
    mu st' < mu st /\
    exists a b c e ta tb, r = (a, b, c, e) /\ dget a D = Some ta /\ dget b D = Some tb /\
      P st' (D ++ [(next, Node ta c tb e)]) (Datatypes.S next).
  Hypothesis last_ok : forall st D next,
    P st D next -> step st = None ->
    exists D', nwk_run D next (last st) = Some D' /\ Qf D' (next + length (last st)).

  Lemma grun_nwk fuel : forall st D next, P st D next -> mu st < fuel ->
    exists D', nwk_run D next (grun fuel st) = Some D' /\ Qf D' (next + length (grun fuel st)).
  Proof.
    induction fuel as [|f IH]; intros st D next HP Hmu; [lia|].
    cbn [grun].
    destruct (step st) as [[r st']|] eqn:E.
    - destruct (step_ok _ _ _ _ _ HP E) as (Hdec & a & b & c & e & ta & tb & -> & Ha & Hb & HP').
      cbn [nwk_run]. rewrite Ha, Hb.
      destruct (IH _ _ _ HP' ltac:(lia)) as (D' & HD' & HQ).
      exists D'. split; [exact HD'|].
      cbn [length]. replace (next + Datatypes.S (length (grun f st'))) with (Datatypes.S next + length (grun f st')) by lia.
      exact HQ.
    - exact (last_ok _ _ _ HP E).
  Qed.
End Run.

(* ------------------------------------------------------------------ *)
(* every valid tree matrix defines a tree whose leaves are the taxa, once each *)
Definition forest (D : dict) (live : list nat) : list nat :=
  flat_map (fun k => match dget k D with Some t => leaves t | None => [] end) live.

Lemma nwk_run_merges rows : forall live next D,
  merges live next rows -> NoDup live ->
  (forall k, In k live -> k < next) -> (forall k, In k (map fst D) -> k < next) ->
  (forall k, In k live -> dget k D <> None) ->
  exists D' live',
    nwk_run D next rows = Some D' /\
    length live' + length rows = length live /\
    (rows <> [] -> In (next + length rows - 1) live') /\
    (rows = [] -> live' = live) /\
    (forall k, In k live' -> dget k D' <> None) /\
    Permutation (forest D' live') (forest D live).
Proof.
  induction rows as [|r tl IH]; intros live next D HM ND Hlt HD Hdef.
  - exists D, live. cbn [nwk_run length]. repeat split; try tauto; try lia; try apply Permutation_refl.
  - inversion HM as [|l0 n0 a b c e rows0 Ha Hb Hab Hm]; subst.
    destruct (dget a D) as [ta|] eqn:Eta; [|exfalso; exact (Hdef a Ha Eta)].
    destruct (dget b D) as [tb|] eqn:Etb; [|exfalso; exact (Hdef b Hb Etb)].
    set (R := remove Nat.eq_dec b (remove Nat.eq_dec a live)) in *.
    set (D1 := D ++ [(next, Node ta c tb e)]).
    assert (HR : forall k, In k R -> In k live /\ k <> a /\ k <> b).
    { intros k Hk. unfold R in Hk. rewrite !in_remove_iff in Hk. tauto. }
    assert (PR : Permutation live (a :: b :: R)).
    { eapply perm_trans; [exact (remove_perm _ a ND Ha)|]. apply perm_skip.
      apply remove_perm; [apply NoDup_remove_nat; exact ND|]. apply in_remove_iff. split; [exact Hb|congruence]. }
    assert (Hnew : dget next D1 = Some (Node ta c tb e)).
    { apply dget_app_new. intros H. apply HD in H. lia. }
    assert (Hold : forall k, In k live -> dget k D1 = dget k D).
    { intros k Hk. destruct (dget k D) as [t|] eqn:Et; [apply dget_app_some; exact Et|].
      exfalso. exact (Hdef k Hk Et). }
    destruct (IH (next :: R) (S next) D1 Hm) as (D' & live' & Hrun & Hlen & Hlast & Hnil & Hdef' & Hperm).
    + constructor; [intros H; apply HR in H; destruct H as [H _]; apply Hlt in H; lia|].
      unfold R. apply NoDup_remove_nat, NoDup_remove_nat. exact ND.
    + intros k [<-|Hk]; [lia|]. apply HR in Hk. destruct Hk as [Hk _]. apply Hlt in Hk. lia.
    + intros k. unfold D1. rewrite map_app, in_app_iff. cbn [map fst In]. intros [H|[H|[]]]; [apply HD in H; lia|lia].
    + intros k [<-|Hk]; [rewrite Hnew; discriminate|].
      apply HR in Hk. destruct Hk as [Hk _]. rewrite (Hold k Hk). exact (Hdef k Hk).
    + exists D', live'. cbn [nwk_run]. rewrite Eta, Etb. fold D1.
      split; [exact Hrun|]. split.
      { cbn [length] in *. rewrite (Permutation_length PR). cbn [length]. lia. }
      split.
      { intros _. cbn [length]. destruct tl as [|r2 tl2].
        - rewrite (Hnil eq_refl). left. cbn [length]. lia.
        - replace (next + S (length (r2 :: tl2)) - 1) with (S next + length (r2 :: tl2) - 1) by lia.
          apply Hlast. discriminate. }
      split; [discriminate|]. split; [exact Hdef'|].
      eapply perm_trans; [exact Hperm|].
      unfold forest at 1. cbn [flat_map]. rewrite Hnew. cbn [leaves].
      assert (ER : flat_map (fun k => match dget k D1 with Some t => leaves t | None => [] end) R = forest D R).
      { unfold forest. apply flat_map_ext_in. intros k Hk. apply HR in Hk. destruct Hk as [Hk _].
        rewrite (Hold k Hk). reflexivity. }
      rewrite ER. symmetry.
      eapply perm_trans; [apply Permutation_flat_map; exact PR|].
      cbn [flat_map]. rewrite Eta, Etb. rewrite app_assoc. apply Permutation_refl.
Qed.

Lemma forest_init n : forest (nwk_init n) (seq 0 n) = seq 0 n.
Proof.
  unfold forest.
  transitivity (flat_map (fun k : nat => [k]) (seq 0 n)).
  - apply flat_map_ext_in. intros k Hk. apply in_seq in Hk. rewrite dget_init by lia. reflexivity.
  - induction (seq 0 n) as [|x tl IH]; [reflexivity|]. cbn [flat_map app]. f_equal. exact IH.
Qed.

Theorem nwk_valid_rows n rows : 1 <= n -> valid_rows n rows ->
  exists t, nwk n rows = Some t /\ Permutation (leaves t) (seq 0 n).
Proof.
  intros Hn [Hlen HM].
  destruct (nwk_run_merges rows (seq 0 n) n (nwk_init n) HM (seq_NoDup n 0)) as (D' & live' & Hrun & Hl & Hlast & Hnil & Hdef & Hperm).
  - intros k Hk. apply in_seq in Hk. lia.
  - intros k. rewrite keys_init, in_seq. lia.
  - intros k Hk. apply in_seq in Hk. rewrite dget_init by lia. discriminate.
  - rewrite seq_length in Hl. rewrite forest_init in Hperm.
    assert (L1 : length live' = 1) by lia.
    destruct live' as [|k [|k2 tl]]; cbn [length] in L1; try lia.
    assert (Ek : k = n + length rows - 1).
    { destruct rows as [|r tl].
      - specialize (Hnil eq_refl). destruct n as [|[|n']]; cbn in Hnil; try lia; try discriminate.
        inversion Hnil. reflexivity.
      - destruct (Hlast ltac:(discriminate)) as [E|[]]. exact E. }
    unfold nwk. destruct n as [|n']; [lia|]. rewrite Hrun. rewrite <- Ek.
    destruct (dget k D') as [t|] eqn:Et; [|exfalso; exact (Hdef k (or_introl eq_refl) Et)].
    exists t. split; [reflexivity|]. unfold forest in Hperm. cbn [flat_map] in Hperm.
    rewrite Et, app_nil_r in Hperm. exact Hperm.
Qed.
