(* Specifications of the boolean checkers of TreeBuildExec.v. *)
From Coq Require Import QArith List Arith Bool Lia Permutation.
From LV Require Import Cluster.Nwk Cluster.Upgma Cluster.Neighbor Cluster.TreeBuildExec.
Import ListNotations.
Local Open Scope nat_scope.

Lemma memb_spec x l : memb x l = true <-> In x l.
Proof.
  unfold memb. rewrite existsb_exists. split.
  - intros [y [Hy E]]. apply Nat.eqb_eq in E. subst. exact Hy.
  - intros H. exists x. split; [exact H|apply Nat.eqb_refl].
Qed.

Lemma mergesb_spec rows : forall live next, mergesb live next rows = true <-> merges live next rows.
Proof.
  induction rows as [|[[[a b] c] e] tl IH]; intros live next.
  - cbn. split; [intros _; constructor|reflexivity].
  - cbn [mergesb]. rewrite !andb_true_iff, !memb_spec, negb_true_iff, Nat.eqb_neq, IH. split.
    + intros [[[Ha Hb] Hab] Hm]. constructor; assumption.
    + intros H. inversion H; subst. repeat split; assumption.
Qed.

Theorem valid_rowsb_spec n rows : valid_rowsb n rows = true <-> valid_rows n rows.
Proof.
  unfold valid_rowsb, valid_rows. rewrite andb_true_iff, Nat.eqb_eq, mergesb_spec. reflexivity.
Qed.

(* ------------------------------------------------------------------ *)
Lemma qclose_spec eps a b : qclose eps a b = true <-> (a - b <= eps)%Q /\ (b - a <= eps)%Q.
Proof. unfold qclose. rewrite andb_true_iff, !Qle_bool_iff. reflexivity. Qed.

Lemma qclose_zero a b : qclose 0 a b = true <-> (a == b)%Q.
Proof.
  rewrite qclose_spec. split.
  - intros [H1 H2]. apply Qle_antisym.
    + apply Qle_minus_iff. apply Qle_minus_iff in H1. setoid_replace (b + - a)%Q with (0 + - (a - b))%Q by ring. exact H1.
    + apply Qle_minus_iff. apply Qle_minus_iff in H2. setoid_replace (a + - b)%Q with (0 + - (b - a))%Q by ring. exact H2.
  - intros E. rewrite E. split; setoid_replace (b - b)%Q with 0%Q by ring; apply Qle_refl.
Qed.

Lemma subsetb_spec a b : subsetb a b = true <-> incl a b.
Proof.
  unfold subsetb, incl. rewrite forallb_forall. split; intros H x Hx; apply memb_spec; apply H; exact Hx.
Qed.

Definition same_set (a b : list nat) : Prop := forall x, In x a <-> In x b.

Lemma same_setb_spec a b : same_setb a b = true <-> same_set a b.
Proof.
  unfold same_setb, same_set. rewrite andb_true_iff, !subsetb_spec. unfold incl. split.
  - intros [H1 H2] x. split; [apply H1|apply H2].
  - intros H. split; intros x Hx; apply H; exact Hx.
Qed.

(* the leaves are the taxa 0..n-1, each exactly once *)
Theorem permb_spec n l : permb n l = true <-> Permutation l (seq 0 n).
Proof.
  unfold permb. rewrite andb_true_iff, Nat.eqb_eq, subsetb_spec. split.
  - intros [Hl Hi]. symmetry. apply NoDup_Permutation_bis; [apply seq_NoDup|rewrite seq_length; lia|exact Hi].
  - intros P. split; [rewrite (Permutation_length P), seq_length; reflexivity|].
    intros x Hx. exact (Permutation_in _ (Permutation_sym P) Hx).
Qed.

(* all root-to-leaf sums lie within eps of the first one *)
Theorem ultrab_spec eps t : ultrab eps t = true <->
  forall x, In x (tl (depths t)) ->
    (hd 0%Q (depths t) - x <= eps)%Q /\ (x - hd 0%Q (depths t) <= eps)%Q.
Proof.
  unfold ultrab. destruct (depths t) as [|h l]; [split; [intros _ x []|reflexivity]|].
  cbn [hd tl]. rewrite forallb_forall. split; intros H x Hx; apply qclose_spec; exact (H x Hx).
Qed.

(* with tolerance 0: all root-to-leaf sums are equal *)
Theorem ultrab_zero t : ultrab 0 t = true <-> exists h, forall x, In x (depths t) -> (x == h)%Q.
Proof.
  unfold ultrab. destruct (depths t) as [|h l]; [split; [intros _; exists 0%Q; intros x []|reflexivity]|].
  rewrite forallb_forall. split.
  - intros H. exists h. intros x [<-|Hx]; [reflexivity|]. symmetry. apply qclose_zero. exact (H x Hx).
  - intros [h0 H] x Hx. apply qclose_zero. rewrite (H h (or_introl eq_refl)), (H x (or_intror Hx)). reflexivity.
Qed.

(* every path sum of the tree reproduces the matrix entry (both triangles) within eps *)
Theorem pathsumsb_spec eps m t : pathsumsb eps m t = true <->
  forall e, In e (pairdists t) ->
    let x := fst (fst e) in let y := snd (fst e) in
    ((snd e - dm m x y <= eps)%Q /\ (dm m x y - snd e <= eps)%Q) /\
    ((snd e - dm m y x <= eps)%Q /\ (dm m y x - snd e <= eps)%Q).
Proof.
  unfold pathsumsb. rewrite forallb_forall. split; intros H e He; specialize (H e He); cbv zeta in *.
  - rewrite andb_true_iff, !qclose_spec in H. exact H.
  - rewrite andb_true_iff, !qclose_spec. exact H.
Qed.

Theorem pathsumsb_zero m t : pathsumsb 0 m t = true <->
  forall e, In e (pairdists t) ->
    (snd e == dm m (fst (fst e)) (snd (fst e)))%Q /\ (snd e == dm m (snd (fst e)) (fst (fst e)))%Q.
Proof.
  unfold pathsumsb. rewrite forallb_forall. split; intros H e He; specialize (H e He).
  - rewrite andb_true_iff, !qclose_zero in H. exact H.
  - rewrite andb_true_iff, !qclose_zero. exact H.
Qed.

(* ------------------------------------------------------------------ *)
(* parsed Newick trees *)
Fixpoint ntree_ind' (P : ntree -> Prop) (HL : forall x, P (NLeaf x))
    (HN : forall ch, Forall (fun p => P (fst p)) ch -> P (NNode ch)) (t : ntree) : P t :=
  match t with
  | NLeaf x => HL x
  | NNode ch =>
      HN ch ((fix go (l : list (ntree * Q)) : Forall (fun p => P (fst p)) l :=
                match l with
                | [] => Forall_nil _
                | (c, q) :: tl => Forall_cons (c, q) (ntree_ind' P HL HN c) (go tl)
                end) ch)
  end.

Inductive nt_binary : ntree -> Prop :=
| nb_leaf x : nt_binary (NLeaf x)
| nb_node a la b lb : nt_binary a -> nt_binary b -> nt_binary (NNode [(a, la); (b, lb)]).

Theorem nt_binaryb_spec t : nt_binaryb t = true <-> nt_binary t.
Proof.
  induction t as [x|ch IH] using ntree_ind'.
  - split; [intros _; constructor|reflexivity].
  - cbn [nt_binaryb]. rewrite andb_true_iff, Nat.eqb_eq, forallb_forall. split.
    + intros [L H]. destruct ch as [|[a la] [|[b lb] [|c tl]]]; cbn [length] in L; try lia.
      inversion IH as [|p l Ha IH1]; subst. inversion IH1 as [|p l Hb _]; subst. cbn [fst] in *.
      constructor; [apply Ha, (H (a, la)); left; reflexivity|apply Hb, (H (b, lb)); right; left; reflexivity].
    + intros H. inversion H as [|a la b lb Ha Hb]; subst. split; [reflexivity|].
      inversion IH as [|p l Ka IH1]; subst. inversion IH1 as [|p l Kb _]; subst. cbn [fst] in *.
      intros p [<-|[<-|[]]]; cbn [fst]; [apply Ka; exact Ha|apply Kb; exact Hb].
Qed.

(* families of leaf sets *)
Definition fam_sub (R : list nat -> list nat -> Prop) (f1 f2 : list (list nat)) : Prop :=
  forall c, In c f1 -> exists c', In c' f2 /\ R c c'.

Lemma fam_eqb_spec eqs (R : list nat -> list nat -> Prop) f1 f2 :
  (forall a b, eqs a b = true <-> R a b) ->
  (fam_eqb eqs f1 f2 = true <-> fam_sub R f1 f2 /\ fam_sub R f2 f1).
Proof.
  intros HR. unfold fam_eqb, fam_subb, fam_sub. rewrite andb_true_iff, !forallb_forall.
  split; intros [H1 H2]; split; intros c Hc.
  - specialize (H1 c Hc). apply existsb_exists in H1. destruct H1 as [c' [K1 K2]]. exists c'. split; [exact K1|apply HR; exact K2].
  - specialize (H2 c Hc). apply existsb_exists in H2. destruct H2 as [c' [K1 K2]]. exists c'. split; [exact K1|apply HR; exact K2].
  - apply existsb_exists. destruct (H1 c Hc) as [c' [K1 K2]]. exists c'. split; [exact K1|apply HR; exact K2].
  - apply existsb_exists. destruct (H2 c Hc) as [c' [K1 K2]]. exists c'. split; [exact K1|apply HR; exact K2].
Qed.

(* rooted trees: every clade of one is (as a set) a clade of the other *)
Theorem clades_eqb_spec t1 t2 : clades_eqb t1 t2 = true <->
  fam_sub same_set (nt_clades t1) (nt_clades t2) /\ fam_sub same_set (nt_clades t2) (nt_clades t1).
Proof. unfold clades_eqb. apply fam_eqb_spec. exact same_setb_spec. Qed.

(* unrooted trees: the bipartition below every edge of one is a bipartition below an edge of the other *)
Definition same_split (all s1 s2 : list nat) : Prop :=
  same_set s1 s2 \/ forall x, In x s1 <-> (In x all /\ ~ In x s2).

Lemma split_eqb_spec all s1 s2 : split_eqb all s1 s2 = true <-> same_split all s1 s2.
Proof.
  unfold split_eqb, same_split. rewrite orb_true_iff, !same_setb_spec.
  assert (E : same_set s1 (compl all s2) <-> forall x, In x s1 <-> In x all /\ ~ In x s2).
  { unfold same_set, compl. split; intros H x; rewrite (H x), filter_In, negb_true_iff.
    - split; intros [K1 K2]; (split; [exact K1|]).
      + intros K. apply memb_spec in K. congruence.
      + destruct (memb x s2) eqn:K; [apply memb_spec in K; tauto|reflexivity].
    - split; intros [K1 K2]; (split; [exact K1|]).
      + destruct (memb x s2) eqn:K; [apply memb_spec in K; tauto|reflexivity].
      + intros K. apply memb_spec in K. congruence. }
  rewrite E. reflexivity.
Qed.

Theorem splits_eqb_spec t1 t2 : splits_eqb t1 t2 = true <->
  same_set (nt_leaves t1) (nt_leaves t2) /\
  fam_sub (same_split (nt_leaves t1)) (nt_below t1) (nt_below t2) /\
  fam_sub (same_split (nt_leaves t1)) (nt_below t2) (nt_below t1).
Proof.
  unfold splits_eqb. rewrite andb_true_iff, same_setb_spec.
  rewrite (fam_eqb_spec _ (same_split (nt_leaves t1))) by (apply split_eqb_spec). reflexivity.
Qed.

(* ------------------------------------------------------------------ *)
(* the Newick string with printed lengths *)
Theorem nt_ultrab_spec eps t : nt_ultrab eps t = true <->
  forall e1 e2, In e1 (nt_ldepths t) -> In e2 (nt_ldepths t) ->
    let tol := (eps + inject_Z (Z.of_nat (snd e1 + snd e2)) / 200)%Q in
    (snd (fst e1) - snd (fst e2) <= tol)%Q /\ (snd (fst e2) - snd (fst e1) <= tol)%Q.
Proof.
  unfold nt_ultrab. rewrite forallb_forall. split.
  - intros H e1 e2 H1 H2. specialize (H e1 H1). rewrite forallb_forall in H.
    apply qclose_spec. exact (H e2 H2).
  - intros H e1 H1. rewrite forallb_forall. intros e2 H2. apply qclose_spec. exact (H e1 e2 H1 H2).
Qed.

Theorem nt_pathsumsb_spec eps m t : nt_pathsumsb eps m t = true <->
  forall e1 e2, In (e1, e2) (nt_pairs t) ->
    let x := fst (fst e1) in let y := fst (fst e2) in
    let v := (snd (fst e1) + snd (fst e2))%Q in
    let tol := (eps + inject_Z (Z.of_nat (snd e1 + snd e2)) / 200)%Q in
    ((v - dm m x y <= tol)%Q /\ (dm m x y - v <= tol)%Q) /\
    ((v - dm m y x <= tol)%Q /\ (dm m y x - v <= tol)%Q).
Proof.
  unfold nt_pathsumsb. rewrite forallb_forall. split.
  - intros H e1 e2 He. specialize (H (e1, e2) He). cbv zeta in *. cbn [fst snd] in H.
    rewrite andb_true_iff in H. unfold qclose_k in H. rewrite !qclose_spec in H. exact H.
  - intros H [e1 e2] He. specialize (H e1 e2 He). cbv zeta in *. cbn [fst snd].
    rewrite andb_true_iff. unfold qclose_k. rewrite !qclose_spec. exact H.
Qed.
