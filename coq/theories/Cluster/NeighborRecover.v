(* Neighbor-Joining on tree-like distances.
   nj_cherry_exact: if the selected pair (a,b) is a cherry of the current
   matrix (d(a,k) - d(b,k) does not depend on the third taxon k), the two
   branch lengths are the three-point lengths of the pendant edges and the
   reduced matrix is the metric of the tree with the cherry collapsed.
   nj_pathsums: if every selected pair along the run is such a cherry, the
   path sums in the returned tree reproduce the input matrix.
   The cherry-picking lemma itself (on an additive metric with positive
   branch lengths the Q-criterion selects cherries) is NOT proved here. *)
From Coq Require Import QArith List Arith Bool Lia Permutation Lqa.
From LV Require Import Cluster.Nwk Cluster.NwkProofs Cluster.Upgma Cluster.UpgmaProofs Cluster.UpgmaRecover
  Cluster.Neighbor Cluster.NeighborProofs Cluster.TreeBuildExec Cluster.TreeBuildProofs.
Import ListNotations.
Local Open Scope nat_scope.

(* ------------------------------------------------------------------ *)
(* matrices *)
Definition msquare (m : mat) (n : nat) : Prop :=
  length m = n /\ forall i, i < n -> length (nth i m []) = n.
Definition msym (m : mat) (n : nat) : Prop :=
  forall i j, i < n -> j < n -> (dm m i j == dm m j i)%Q.
Definition mdiag0 (m : mat) (n : nat) : Prop :=
  forall i, i < n -> (dm m i i == 0)%Q.

(* (a,b) is a cherry of the metric: the difference of the distances to a and to b
   is the same from every other taxon *)
Definition metric_cherry (m : mat) (n a b : nat) : Prop :=
  forall k l, k < n -> l < n -> k <> a -> k <> b -> l <> a -> l <> b ->
    (dm m a k - dm m b k == dm m a l - dm m b l)%Q.

Lemma nth_map_seq {A} (f : nat -> A) (dflt : A) n : forall s i, i < n ->
  nth i (map f (seq s n)) dflt = f (s + i).
Proof.
  induction n as [|n IH]; intros s i Hi; [lia|].
  cbn [seq map]. destruct i as [|i]; cbn [nth]; [f_equal; lia|].
  rewrite IH by lia. f_equal. lia.
Qed.

Lemma dm_mk n f i j : i < n -> j < n -> dm (mk_mat n f) i j = f i j.
Proof.
  intros Hi Hj. unfold dm, mk_mat.
  rewrite (nth_map_seq (fun i => map (fun j => f i j) (seq 0 n)) [] n 0 i Hi). cbn [Nat.add].
  rewrite (nth_map_seq (fun j => f i j) 0%Q n 0 j Hj). reflexivity.
Qed.

Lemma msquare_mk n f : msquare (mk_mat n f) n.
Proof.
  unfold msquare, mk_mat. split; [rewrite map_length, seq_length; reflexivity|].
  intros i Hi. rewrite (nth_map_seq (fun i => map (fun j => f i j) (seq 0 n)) [] n 0 i Hi).
  rewrite map_length, seq_length. reflexivity.
Qed.

Lemma list_as_map {A} (dflt : A) (l : list A) : l = map (fun k => nth k l dflt) (seq 0 (length l)).
Proof.
  induction l as [|x tl IH]; [reflexivity|].
  cbn [length seq map nth]. f_equal. rewrite <- seq_shift, map_map. exact IH.
Qed.

Lemma row_sum m n i : msquare m n -> i < n ->
  qsum (nth i m []) = qsum (map (fun k => dm m i k) (seq 0 n)).
Proof.
  intros [_ H] Hi. unfold dm. rewrite (list_as_map 0%Q (nth i m [])) at 1. rewrite (H i Hi). reflexivity.
Qed.

(* ------------------------------------------------------------------ *)
(* sums *)
Lemma qsum_perm l1 l2 : Permutation l1 l2 -> (qsum l1 == qsum l2)%Q.
Proof.
  induction 1 as [|x l l' _ IH|x y l|l l' l'' _ IH1 _ IH2]; cbn [qsum fold_right].
  - reflexivity.
  - change (fold_right Qplus 0%Q l) with (qsum l). change (fold_right Qplus 0%Q l') with (qsum l').
    rewrite IH. reflexivity.
  - ring.
  - rewrite IH1. exact IH2.
Qed.

Lemma qsum_cons x l : qsum (x :: l) = (x + qsum l)%Q.
Proof. reflexivity. Qed.

Lemma qsum_sub {A} (f g : A -> Q) l :
  (qsum (map f l) - qsum (map g l) == qsum (map (fun x => f x - g x) l))%Q.
Proof.
  induction l as [|x tl IH]; cbn [map]; [cbn; ring|].
  rewrite !qsum_cons, <- IH. ring.
Qed.

Lemma seq_two_out n a b : a < n -> b < n -> a <> b ->
  exists rest, Permutation (seq 0 n) (a :: b :: rest) /\ length rest = n - 2 /\
               forall k, In k rest -> k < n /\ k <> a /\ k <> b.
Proof.
  intros Ha Hb N. exists (remove Nat.eq_dec b (remove Nat.eq_dec a (seq 0 n))).
  assert (P : Permutation (seq 0 n) (a :: b :: remove Nat.eq_dec b (remove Nat.eq_dec a (seq 0 n)))).
  { eapply perm_trans; [apply (remove_perm _ a (seq_NoDup n 0)); apply in_seq; lia|]. apply perm_skip.
    apply remove_perm; [apply NoDup_remove_nat, seq_NoDup|]. apply in_remove_iff. split; [apply in_seq; lia|congruence]. }
  split; [exact P|]. split.
  - apply Permutation_length in P. rewrite seq_length in P. cbn [length] in P. lia.
  - intros k Hk. rewrite !in_remove_iff, in_seq in Hk. lia.
Qed.

(* a function that is constant off {a,b} and whose values at a and b cancel *)
Lemma sum_off_two (g : nat -> Q) n a b c : a < n -> b < n -> a <> b ->
  (g a + g b == 0)%Q -> (forall k, k < n -> k <> a -> k <> b -> (g k == c)%Q) ->
  (qsum (map g (seq 0 n)) == c * inject_Z (Z.of_nat (n - 2)))%Q.
Proof.
  intros Ha Hb N Hab Hc. destruct (seq_two_out n a b Ha Hb N) as (rest & P & Hl & Hr).
  rewrite (qsum_perm _ _ (Permutation_map g P)). cbn [map qsum fold_right].
  change (fold_right Qplus 0%Q (map g rest)) with (qsum (map g rest)).
  rewrite (qsum_const (map g rest) c).
  - rewrite map_length, Hl. rewrite Qplus_assoc, Hab. ring.
  - intros x Hx. apply in_map_iff in Hx. destruct Hx as [k [<- Hk]].
    destruct (Hr k Hk) as (K1 & K2 & K3). exact (Hc k K1 K2 K3).
Qed.

(* ------------------------------------------------------------------ *)
(* the algebra of one step on a cherry *)
Definition nj_red (m : mat) (a b k : nat) : Q := (((dm m a k + dm m b k) - dm m a b) / 2)%Q.

Lemma avg_diff m n a b k :
  msquare m n -> msym m n -> mdiag0 m n -> 3 <= n -> a < n -> b < n -> a <> b ->
  metric_cherry m n a b -> k < n -> k <> a -> k <> b ->
  (nj_avg m a - nj_avg m b == dm m a k - dm m b k)%Q.
Proof.
  intros Sq Sy Dg Hn Ha Hb N Ch Hk Nka Nkb.
  unfold nj_avg. rewrite (row_sum m n a Sq Ha), (row_sum m n b Sq Hb).
  assert (EN : (qN2 m == inject_Z (Z.of_nat (n - 2)))%Q).
  { unfold qN2. destruct Sq as [-> _]. rewrite Nat2Z.inj_sub by lia. reflexivity. }
  assert (NZ : ~ (inject_Z (Z.of_nat (n - 2)) == 0)%Q).
  { unfold Qeq. cbn. lia. }
  rewrite EN.
  assert (S : (qsum (map (fun l => dm m a l) (seq 0 n)) - qsum (map (fun l => dm m b l) (seq 0 n))
               == (dm m a k - dm m b k) * inject_Z (Z.of_nat (n - 2)))%Q).
  { rewrite qsum_sub. apply (sum_off_two (fun l => (dm m a l - dm m b l)%Q) n a b); try assumption.
    - rewrite (Dg a Ha), (Dg b Hb), (Sy b a Hb Ha). ring.
    - intros l Hl Nla Nlb. exact (Ch l k Hl Hk Nla Nlb Nka Nkb). }
  set (sa := qsum (map (fun l => dm m a l) (seq 0 n))) in *.
  set (sb := qsum (map (fun l => dm m b l) (seq 0 n))) in *.
  assert (E : (sa / inject_Z (Z.of_nat (n - 2)) - sb / inject_Z (Z.of_nat (n - 2))
               == (sa - sb) / inject_Z (Z.of_nat (n - 2)))%Q) by (field; exact NZ).
  rewrite E, S. field. exact NZ.
Qed.

Theorem nj_cherry_exact m n a b :
  msquare m n -> msym m n -> mdiag0 m n -> 3 <= n -> a < n -> b < n -> a <> b ->
  metric_cherry m n a b ->
  forall k, k < n -> k <> a -> k <> b ->
    (nj_sax m a b == (dm m a b + dm m a k - dm m b k) / 2)%Q /\
    (nj_sbx m a b == (dm m a b - dm m a k + dm m b k) / 2)%Q /\
    (dm m a k == nj_sax m a b + nj_red m a b k)%Q /\
    (dm m b k == nj_sbx m a b + nj_red m a b k)%Q /\
    (dm m a b == nj_sax m a b + nj_sbx m a b)%Q.
Proof.
  intros Sq Sy Dg Hn Ha Hb N Ch k Hk Nka Nkb.
  pose proof (avg_diff m n a b k Sq Sy Dg Hn Ha Hb N Ch Hk Nka Nkb) as E.
  unfold nj_sbx, nj_sax, nj_red.
  set (ra := nj_avg m a) in *. set (rb := nj_avg m b) in *.
  assert (E' : (ra == rb + (dm m a k - dm m b k))%Q) by lra.
  repeat split; rewrite E'; field.
Qed.

(* ------------------------------------------------------------------ *)
(* the reduced matrix and the renumbered clusters *)
Lemma nj_old_lt b i n : b < n -> i < n - 1 -> nj_old b i < n.
Proof. intros Hb Hi. unfold nj_old. destruct (Nat.ltb i b) eqn:E; cbv beta iota; [apply Nat.ltb_lt in E|apply Nat.ltb_ge in E]; lia. Qed.

Lemma nj_old_neq b i : nj_old b i <> b.
Proof. unfold nj_old. destruct (Nat.ltb i b) eqn:E; cbv beta iota; [apply Nat.ltb_lt in E|apply Nat.ltb_ge in E]; lia. Qed.

Lemma nj_old_inj b i j : nj_old b i = nj_old b j -> i = j.
Proof.
  unfold nj_old. destruct (Nat.ltb_spec i b) as [E1|E1]; destruct (Nat.ltb_spec j b) as [E2|E2]; lia.
Qed.

Lemma nj_old_eq_a a b i : a < b -> (nj_old b i = a <-> i = a).
Proof.
  intros Hab. unfold nj_old. destruct (Nat.ltb i b) eqn:E; cbv beta iota; [apply Nat.ltb_lt in E|apply Nat.ltb_ge in E]; lia.
Qed.

Lemma newmat_entry m ncl a b i j :
  msym m ncl -> a < b -> b < ncl -> i < ncl - 1 -> j < ncl - 1 -> i <> j ->
  (dm (nj_newmat m ncl a b) i j ==
   if Nat.eqb (nj_old b i) a then nj_red m a b (nj_old b j)
   else if Nat.eqb (nj_old b j) a then nj_red m a b (nj_old b i)
   else dm m (nj_old b i) (nj_old b j))%Q.
Proof.
  intros Sy Hab Hb Hi Hj Nij. unfold nj_newmat. rewrite dm_mk by assumption.
  pose proof (nj_old_lt b i ncl Hb Hi) as Li. pose proof (nj_old_lt b j ncl Hb Hj) as Lj.
  assert (Nold : nj_old b i <> nj_old b j) by (intros E; apply Nij; exact (nj_old_inj _ _ _ E)).
  unfold nj_cell, nj_red.
  destruct (Nat.ltb i j) eqn:Eij.
  - destruct (Nat.eqb (nj_old b i) a); [reflexivity|]. destruct (Nat.eqb (nj_old b j) a); reflexivity.
  - assert (Eji : Nat.ltb j i = true) by (apply Nat.ltb_lt; apply Nat.ltb_ge in Eij; lia).
    rewrite Eji.
    destruct (Nat.eqb (nj_old b i) a) eqn:Ei; destruct (Nat.eqb (nj_old b j) a) eqn:Ej; try reflexivity.
    + apply Nat.eqb_eq in Ei. apply Nat.eqb_eq in Ej. congruence.
    + apply Sy; assumption.
Qed.

Lemma newmat_sym m ncl a b : msym (nj_newmat m ncl a b) (ncl - 1).
Proof.
  intros i j Hi Hj. unfold nj_newmat. rewrite !dm_mk by assumption.
  destruct (Nat.ltb i j) eqn:E1; destruct (Nat.ltb j i) eqn:E2; try reflexivity.
  apply Nat.ltb_lt in E1. apply Nat.ltb_lt in E2. lia.
Qed.

Lemma newmat_diag m ncl a b : mdiag0 (nj_newmat m ncl a b) (ncl - 1).
Proof.
  intros i Hi. unfold nj_newmat. rewrite dm_mk by assumption. rewrite Nat.ltb_irrefl. reflexivity.
Qed.

Lemma nth_del_nth {A} (dflt : A) b (l : list A) : forall i, nth i (del_nth b l) dflt = nth (nj_old b i) l dflt.
Proof.
  revert b. induction l as [|x tl IH]; intros b i.
  - destruct b; cbn [del_nth]; destruct i; unfold nj_old; destruct (Nat.ltb _ _); reflexivity.
  - destruct b as [|b]; cbn [del_nth].
    + unfold nj_old. cbn [Nat.ltb Nat.leb]. reflexivity.
    + destruct i as [|i]; [reflexivity|]. cbn [nth]. rewrite IH. unfold nj_old.
      change (Nat.ltb (S i) (S b)) with (Nat.ltb i b). destruct (Nat.ltb i b); reflexivity.
Qed.

Lemma nth_set_nth {A} (dflt : A) a v (l : list A) : a < length l ->
  forall i, nth i (set_nth a v l) dflt = if Nat.eqb i a then v else nth i l dflt.
Proof.
  revert a. induction l as [|x tl IH]; intros a Ha i; [cbn in Ha; lia|].
  destruct a as [|a]; cbn [set_nth].
  - destruct i; reflexivity.
  - destruct i as [|i]; [reflexivity|]. cbn [nth length] in *. rewrite IH by lia. reflexivity.
Qed.

(* ------------------------------------------------------------------ *)
(* leaf depths and pair distances of a node *)
Lemma in_ldepths_node l bl r br p :
  In p (ldepths (Node l bl r br)) <->
  (exists p0, In p0 (ldepths l) /\ p = (fst p0, (bl + snd p0)%Q)) \/
  (exists p0, In p0 (ldepths r) /\ p = (fst p0, (br + snd p0)%Q)).
Proof.
  cbn [ldepths]. rewrite in_app_iff, !in_map_iff. split.
  - intros [[p0 [E H]]|[p0 [E H]]]; [left|right]; exists p0; split; auto.
  - intros [[p0 [H E]]|[p0 [H E]]]; [left|right]; exists p0; split; auto.
Qed.

Lemma in_pairdists_node l bl r br e :
  In e (pairdists (Node l bl r br)) <->
  In e (pairdists l) \/ In e (pairdists r) \/
  exists p q, In p (ldepths l) /\ In q (ldepths r) /\
              e = ((fst p, fst q), (bl + snd p + (br + snd q))%Q).
Proof.
  cbn [pairdists]. rewrite !in_app_iff, in_flat_map. split.
  - intros [H|[H|[p [Hp H]]]]; [left; exact H|right; left; exact H|right; right].
    apply in_map_iff in H. destruct H as [q [E Hq]]. exists p, q. repeat split; auto.
  - intros [H|[H|(p & q & Hp & Hq & E)]]; [left; exact H|right; left; exact H|right; right].
    exists p. split; [exact Hp|]. apply in_map_iff. exists q. split; auto.
Qed.

(* ------------------------------------------------------------------ *)
(* every selected pair along the run is a cherry of the current matrix *)
Fixpoint picks_cherries (fuel : nat) (st : njstate) : Prop :=
  match fuel with
  | O => True
  | S f =>
      match nj_step st with
      | Some (_, st') =>
          (forall a b q, first_min (nj_scores (nj_m st) (length (nj_cls st))) = Some ((a, b), q) ->
                         metric_cherry (nj_m st) (length (nj_cls st)) a b)
          /\ picks_cherries f st'
      | None => True
      end
  end.

Section PathSums.
  Variable d0 : nat -> nat -> Q.       (* the input matrix *)
  Variable n : nat.

  Definition tree_at (st : njstate) (D : dict) (i : nat) (t : tree) : Prop :=
    dget (tget (nth i (nj_cls st) []) (nj_tr st)) D = Some t.

  (* the part of the input metric already explained by the subtrees built, and
     the current matrix as the metric between their roots *)
  Definition explained (st : njstate) (D : dict) : Prop :=
    let N := length (nj_cls st) in
    msquare (nj_m st) N /\ msym (nj_m st) N /\ mdiag0 (nj_m st) N /\
    (forall i t, i < N -> tree_at st D i t ->
       forall e, In e (pairdists t) -> (snd e == d0 (fst (fst e)) (snd (fst e)))%Q) /\
    (forall i j ti tj, i < N -> j < N -> i <> j -> tree_at st D i ti -> tree_at st D j tj ->
       forall p q, In p (ldepths ti) -> In q (ldepths tj) ->
         (d0 (fst p) (fst q) == snd p + dm (nj_m st) i j + snd q)%Q).

  Definition psP (st : njstate) (D : dict) (next : nat) : Prop :=
    njP n st D next /\ explained st D /\ picks_cherries (length (nj_cls st)) st.

  Definition psQf (D : dict) (nf : nat) : Prop :=
    nf = 2 * n - 1 /\
    exists t, dget (nf - 1) D = Some t /\ Permutation (leaves t) (seq 0 n) /\
      forall e, In e (pairdists t) -> (snd e == d0 (fst (fst e)) (snd (fst e)))%Q.

  Lemma psP_step st D next r st' : psP st D next -> nj_step st = Some (r, st') ->
    length (nj_cls st') - 2 < length (nj_cls st) - 2 /\
    exists a b c e ta tb, r = (a, b, c, e) /\ dget a D = Some ta /\ dget b D = Some tb /\
      psP st' (D ++ [(next, Node ta c tb e)]) (S next).
  Proof.
    intros (HP & HE & HC) E.
    destruct (njP_step n st D next r st' HP E) as (Hmu & a0 & b0 & c & e & ta & tb & Hr0 & Hta & Htb & HP').
    split; [exact Hmu|]. exists a0, b0, c, e, ta, tb.
    split; [exact Hr0|]. split; [exact Hta|]. split; [exact Htb|]. split; [exact HP'|].
    destruct HP as (HI & HD & _ & _ & Htrees).
    destruct (njI_step _ _ _ _ HI E) as (a & b & rest & R & Hab & Hb & (q & Hq) & Hr & Hcls & Hm & P1 & P2 & Hnew & Hother & _ & _ & _ & Hl & _).
    destruct (nj_step_spec _ _ _ E) as (L3 & _).
    cbn zeta in Hr, Hcls, P1, P2, Hnew.
    set (N := length (nj_cls st)) in *. set (M := nj_m st) in *.
    set (ca := nth a (nj_cls st) []) in *. set (cb := nth b (nj_cls st) []) in *.
    rewrite Hr0 in Hr. inversion Hr; subst a0 b0 c e. clear Hr.
    (* the cherry hypothesis for this step *)
    replace N with (S (N - 1)) in HC by lia. cbn [picks_cherries] in HC. rewrite E in HC.
    destruct HC as (Hch & HC'). specialize (Hch a b q Hq). fold N M in Hch.
    destruct HE as (Sq & Sy & Dg & HW & HX). fold N M in Sq, Sy, Dg, HW, HX.
    assert (La : a < N) by lia.
    assert (Nab : a <> b) by lia.
    assert (TAa : tree_at st D a ta) by exact Hta.
    assert (TAb : tree_at st D b tb) by exact Htb.
    set (D' := D ++ [(next, Node ta (nj_sax M a b) tb (nj_sbx M a b))]) in *.
    assert (LN' : length (nj_cls st') = N - 1) by (unfold N; lia).
    (* the tree at a position of the new state *)
    assert (Hat : forall i t, i < N - 1 -> tree_at st' D' i t ->
              (i = a /\ t = Node ta (nj_sax M a b) tb (nj_sbx M a b)) \/
              (i <> a /\ tree_at st D (nj_old b i) t)).
    { intros i t Hi Ht. unfold tree_at in Ht. rewrite Hcls in Ht.
      rewrite nth_del_nth, nth_set_nth in Ht by (fold N; lia).
      destruct (Nat.eqb (nj_old b i) a) eqn:Ei.
      - apply Nat.eqb_eq in Ei. apply nj_old_eq_a in Ei; [|exact Hab]. left. split; [exact Ei|].
        rewrite Hnew in Ht. unfold D' in Ht. rewrite dget_app_new in Ht by (intros H; apply HD in H; lia).
        inversion Ht. reflexivity.
      - apply Nat.eqb_neq in Ei. right. split; [intros ->; apply Ei; apply nj_old_eq_a; [exact Hab|reflexivity]|].
        assert (Hin : In (nth (nj_old b i) (nj_cls st) []) (nj_cls st)).
        { apply nth_In. fold N. apply nj_old_lt; assumption. }
        rewrite (Hother _ Hin) in Ht. unfold tree_at.
        destruct (Htrees _ Hin) as (t0 & Ht0 & _). unfold D' in Ht.
        rewrite (dget_app_some _ _ _ _ Ht0) in Ht. rewrite Ht0. exact Ht. }
    split; [|rewrite LN'; exact HC'].
    unfold explained. rewrite LN', Hm. fold N M.
    split; [apply msquare_mk|]. split; [apply newmat_sym|]. split; [apply newmat_diag|].
    assert (Hcx : forall k, k < N -> k <> a -> k <> b ->
              (dm M a k == nj_sax M a b + nj_red M a b k)%Q /\
              (dm M b k == nj_sbx M a b + nj_red M a b k)%Q).
    { intros k Hk Nka Nkb.
      destruct (nj_cherry_exact M N a b Sq Sy Dg L3 La Hb Nab Hch k Hk Nka Nkb) as (_ & _ & H1 & H2 & _).
      split; assumption. }
    assert (Hab_len : (dm M a b == nj_sax M a b + nj_sbx M a b)%Q) by (unfold nj_sbx; ring).
    split.
    - (* within the subtrees *)
      intros i t Hi Ht x Hx. destruct (Hat i t Hi Ht) as [[-> ->]|[Nia Ht0]].
      + apply in_pairdists_node in Hx. destruct Hx as [Hx|[Hx|(p & q0 & Hp & Hq0 & ->)]].
        * exact (HW a ta La TAa x Hx).
        * exact (HW b tb Hb TAb x Hx).
        * cbn [fst snd]. pose proof (HX a b ta tb La Hb Nab TAa TAb p q0 Hp Hq0) as K. lra.
      + exact (HW (nj_old b i) t (nj_old_lt b i N Hb Hi) Ht0 x Hx).
    - (* between the subtrees *)
      intros i j ti tj Hi Hj Nij Hti Htj p q0 Hp Hq0.
      pose proof (nj_old_lt b i N Hb Hi) as Li. pose proof (nj_old_lt b j N Hb Hj) as Lj.
      pose proof (nj_old_neq b i) as Nbi. pose proof (nj_old_neq b j) as Nbj.
      pose proof (newmat_entry M N a b i j Sy Hab Hb Hi Hj Nij) as Hent.
      destruct (Hat i ti Hi Hti) as [[-> ->]|[Nia Hti0]]; destruct (Hat j tj Hj Htj) as [[-> ->]|[Nja Htj0]].
      + congruence.
      + (* i = a *)
        assert (Eo : nj_old b a = a) by (apply nj_old_eq_a; [exact Hab|reflexivity]).
        rewrite Eo, Nat.eqb_refl in Hent.
        assert (Nja' : nj_old b j <> a) by (intros K; apply Nja; apply (nj_old_eq_a a b j Hab); exact K).
        destruct (Hcx (nj_old b j) Lj Nja' Nbj) as (C1 & C2).
        apply in_ldepths_node in Hp. destruct Hp as [(p0 & Hp0 & ->)|(p0 & Hp0 & ->)]; cbn [fst snd].
        * pose proof (HX a (nj_old b j) ta tj La Lj (fun K => Nja' (eq_sym K)) TAa Htj0 p0 q0 Hp0 Hq0) as K. lra.
        * pose proof (HX b (nj_old b j) tb tj Hb Lj (fun K => Nbj (eq_sym K)) TAb Htj0 p0 q0 Hp0 Hq0) as K. lra.
      + (* j = a *)
        assert (Eo : nj_old b a = a) by (apply nj_old_eq_a; [exact Hab|reflexivity]).
        assert (Nia' : nj_old b i <> a) by (intros K; apply Nia; apply (nj_old_eq_a a b i Hab); exact K).
        rewrite Eo, Nat.eqb_refl in Hent. apply Nat.eqb_neq in Nia'. rewrite Nia' in Hent. apply Nat.eqb_neq in Nia'.
        destruct (Hcx (nj_old b i) Li Nia' Nbi) as (C1 & C2).
        pose proof (Sy (nj_old b i) a Li La) as S1. pose proof (Sy (nj_old b i) b Li Hb) as S2.
        apply in_ldepths_node in Hq0. destruct Hq0 as [(q1 & Hq1 & ->)|(q1 & Hq1 & ->)]; cbn [fst snd].
        * pose proof (HX (nj_old b i) a ti ta Li La Nia' Hti0 TAa p q1 Hp Hq1) as K. lra.
        * pose proof (HX (nj_old b i) b ti tb Li Hb Nbi Hti0 TAb p q1 Hp Hq1) as K. lra.
      + assert (Nia' : nj_old b i <> a) by (intros K; apply Nia; apply (nj_old_eq_a a b i Hab); exact K).
        assert (Nja' : nj_old b j <> a) by (intros K; apply Nja; apply (nj_old_eq_a a b j Hab); exact K).
        apply Nat.eqb_neq in Nia'. apply Nat.eqb_neq in Nja'. rewrite Nia', Nja' in Hent.
        assert (Nold : nj_old b i <> nj_old b j) by (intros K; apply Nij; exact (nj_old_inj _ _ _ K)).
        pose proof (HX (nj_old b i) (nj_old b j) ti tj Li Lj Nold Hti0 Htj0 p q0 Hp Hq0) as K. lra.
  Qed.

  Lemma psP_last st D next : psP st D next -> nj_step st = None ->
    exists D', nwk_run D next (nj_last st) = Some D' /\ psQf D' (next + length (nj_last st)).
  Proof.
    intros (HP & HE & _) E.
    destruct HP as (HI & HD & Hlen & Hperm & Htrees). apply nj_step_none in E.
    destruct HI as (L2 & _). destruct HE as (_ & _ & _ & HW & HX).
    unfold nj_last. unfold tree_at in HW, HX.
    remember (nj_cls st) as cls eqn:Ecls.
    destruct cls as [|c0 [|c1 [|c2 tl]]]; cbn [length] in *; try lia.
    destruct (Htrees c0 (or_introl eq_refl)) as (t0 & Ht0 & L0).
    destruct (Htrees c1 (or_intror (or_introl eq_refl))) as (t1 & Ht1 & L1).
    cbn [nwk_run]. rewrite Ht0, Ht1. eexists. split; [reflexivity|].
    split; [lia|]. replace (next + 1 - 1) with next by lia.
    eexists. split; [apply dget_app_new; intros H; apply HD in H; lia|].
    split.
    - cbn [leaves]. rewrite L0, L1. unfold flat in Hperm. cbn [flat_map] in Hperm.
      rewrite app_nil_r in Hperm. exact Hperm.
    - intros x Hx. apply in_pairdists_node in Hx. destruct Hx as [Hx|[Hx|(p & q & Hp & Hq & ->)]].
      + exact (HW 0 t0 ltac:(lia) Ht0 x Hx).
      + exact (HW 1 t1 ltac:(lia) Ht1 x Hx).
      + cbn [fst snd]. pose proof (HX 0 1 t0 t1 ltac:(lia) ltac:(lia) ltac:(lia) Ht0 Ht1 p q Hp Hq) as K.
        cbn [nth] in K. rewrite K. field.
  Qed.
End PathSums.

Lemma explained_init m : 2 <= length m ->
  msquare m (length m) -> msym m (length m) -> mdiag0 m (length m) ->
  explained (dm m) (nj_init m) (nwk_init (length m)).
Proof.
  intros L Sq Sy Dg. unfold explained.
  assert (EN : length (nj_cls (nj_init m)) = length m).
  { unfold nj_init. cbn [nj_cls]. rewrite map_length, seq_length. reflexivity. }
  rewrite EN. change (nj_m (nj_init m)) with m.
  split; [exact Sq|]. split; [exact Sy|]. split; [exact Dg|].
  assert (Hat : forall i t, i < length m -> tree_at (nj_init m) (nwk_init (length m)) i t -> t = Leaf i).
  { intros i t Hi Ht. unfold tree_at, nj_init in Ht. cbn [nj_cls nj_tr] in Ht.
    rewrite (nth_map_seq (fun i => [i]) [] (length m) 0 i Hi) in Ht. cbn [Nat.add] in Ht.
    rewrite tget_init in Ht by (try apply seq_NoDup; apply in_seq; lia).
    rewrite dget_init in Ht by exact Hi. inversion Ht. reflexivity. }
  split.
  - intros i t Hi Ht e He. rewrite (Hat i t Hi Ht) in He. destruct He.
  - intros i j ti tj Hi Hj Nij Hti Htj p q Hp Hq.
    rewrite (Hat i ti Hi Hti) in Hp. rewrite (Hat j tj Hj Htj) in Hq.
    destruct Hp as [<-|[]]. destruct Hq as [<-|[]]. cbn [fst snd]. ring.
Qed.

(* path sums of the returned tree reproduce the input matrix, provided every
   selected pair was a cherry *)
Theorem nj_pathsums m : 2 <= length m ->
  msquare m (length m) -> msym m (length m) -> mdiag0 m (length m) ->
  picks_cherries (length m) (nj_init m) ->
  exists t, nj_tree m = Some t /\ Permutation (leaves t) (seq 0 (length m)) /\
    forall e, In e (pairdists t) -> (snd e == dm m (fst (fst e)) (snd (fst e)))%Q.
Proof.
  intros L Sq Sy Dg HC.
  unfold nj_tree, nj_rows. rewrite nj_run_grun.
  assert (EN : length (nj_cls (nj_init m)) = length m).
  { unfold nj_init. cbn [nj_cls]. rewrite map_length, seq_length. reflexivity. }
  destruct (grun_nwk njstate nj_step nj_last (psP (dm m) (length m)) (psQf (dm m) (length m))
              (fun st => length (nj_cls st) - 2) (psP_step (dm m) (length m)) (psP_last (dm m) (length m))
              (length m) (nj_init m) (nwk_init (length m)) (length m))
    as (D' & HD' & Hnf & t & Ht & Hperm & Hps).
  { split; [apply njP_init; exact L|]. split; [apply explained_init; assumption|]. rewrite EN. exact HC. }
  { rewrite EN. lia. }
  set (rows := grun njstate nj_step nj_last (length m) (nj_init m)) in *.
  exists t. unfold nwk. destruct (length m) as [|n'] eqn:En; [lia|].
  rewrite HD'. split; [exact Ht|]. split; [exact Hperm|exact Hps].
Qed.

(* ------------------------------------------------------------------ *)
(* additive (tree) metrics *)
Fixpoint positive (t : tree) : Prop :=
  match t with
  | Leaf _ => True
  | Node l bl r br => (0 < bl)%Q /\ (0 < br)%Q /\ positive l /\ positive r
  end.

(* m is the leaf-to-leaf path metric of a binary tree with positive branch lengths
   over the taxa 0..n-1 (rooted anywhere: only the unrooted tree matters) *)
Definition tree_metric (m : mat) : Prop :=
  2 <= length m /\ msquare m (length m) /\ msym m (length m) /\ mdiag0 m (length m) /\
  exists T, Permutation (leaves T) (seq 0 (length m)) /\ positive T /\
            forall e, In e (pairdists T) -> (snd e == dm m (fst (fst e)) (snd (fst e)))%Q.

Section NjPartial.
  (* The cherry-picking lemma of Saitou-Nei / Studier-Keppler, NOT proved in this
     development: on the path metric of a tree with positive branch lengths
     every pair selected by the Q-criterion along the run is a cherry of the
     current matrix. *)
  Hypothesis cherry_picking :
    forall m, tree_metric m -> picks_cherries (length m) (nj_init m).

  Theorem nj_recovers_given_cherry_picking : forall m, tree_metric m ->
    exists t, nj_tree m = Some t /\ Permutation (leaves t) (seq 0 (length m)) /\
      forall e, In e (pairdists t) -> (snd e == dm m (fst (fst e)) (snd (fst e)))%Q.
  Proof.
    intros m HT. pose proof (cherry_picking m HT) as HC.
    destruct HT as (L & Sq & Sy & Dg & _). exact (nj_pathsums m L Sq Sy Dg HC).
  Qed.
End NjPartial.

(* ------------------------------------------------------------------ *)
(* boolean versions, for concrete instances *)
Lemma metric_cherryb_spec m n a b : metric_cherryb m n a b = true -> metric_cherry m n a b.
Proof.
  unfold metric_cherryb, metric_cherry. rewrite forallb_forall. intros H k l Hk Hl Nka Nkb Nla Nlb.
  specialize (H k ltac:(apply in_seq; lia)). rewrite forallb_forall in H.
  specialize (H l ltac:(apply in_seq; lia)).
  apply Nat.eqb_neq in Nka, Nkb, Nla, Nlb. rewrite Nka, Nkb, Nla, Nlb in H. cbn [orb] in H.
  apply Qeq_bool_iff. exact H.
Qed.

Lemma picks_cherriesb_spec fuel : forall st, picks_cherriesb fuel st = true -> picks_cherries fuel st.
Proof.
  induction fuel as [|f IH]; intros st H; [exact I|].
  cbn [picks_cherriesb picks_cherries] in *. destruct (nj_step st) as [[r st']|]; [|exact I].
  apply andb_true_iff in H. destruct H as [H1 H2]. split; [|exact (IH st' H2)].
  intros a b q E. rewrite E in H1. apply metric_cherryb_spec. exact H1.
Qed.

Definition msquareb (m : mat) (n : nat) : bool :=
  Nat.eqb (length m) n && forallb (fun r => Nat.eqb (length r) n) m.
Definition msymb (m : mat) (n : nat) : bool :=
  forallb (fun i => forallb (fun j => Qeq_bool (dm m i j) (dm m j i)) (seq 0 n)) (seq 0 n).
Definition mdiag0b (m : mat) (n : nat) : bool :=
  forallb (fun i => Qeq_bool (dm m i i) 0) (seq 0 n).
Fixpoint positiveb (t : tree) : bool :=
  match t with
  | Leaf _ => true
  | Node l bl r br => negb (Qle_bool bl 0) && negb (Qle_bool br 0) && positiveb l && positiveb r
  end.

Definition tree_metricb (m : mat) (T : tree) : bool :=
  Nat.leb 2 (length m) && msquareb m (length m) && msymb m (length m) && mdiag0b m (length m)
  && permb (length m) (leaves T) && positiveb T && pathsumsb 0 m T.

Lemma positiveb_spec t : positiveb t = true -> positive t.
Proof.
  induction t as [x|l IHl bl r IHr br]; [intros _; exact I|].
  cbn [positiveb positive]. rewrite !andb_true_iff, !negb_true_iff. intros [[[H1 H2] H3] H4].
  assert (P : forall q, Qle_bool q 0 = false -> (0 < q)%Q).
  { intros q Hq. destruct (Qlt_le_dec 0 q) as [K|K]; [exact K|]. apply Qle_bool_iff in K. congruence. }
  split; [exact (P _ H1)|]. split; [exact (P _ H2)|]. split; [exact (IHl H3)|exact (IHr H4)].
Qed.

Lemma tree_metricb_spec m T : tree_metricb m T = true -> tree_metric m.
Proof.
  unfold tree_metricb. rewrite !andb_true_iff. intros [[[[[[H1 H2] H3] H4] H5] H6] H7].
  apply Nat.leb_le in H1. split; [exact H1|]. split; [|split; [|split]].
  - unfold msquareb in H2. apply andb_true_iff in H2. destruct H2 as [_ H2]. split; [reflexivity|].
    rewrite forallb_forall in H2. intros i Hi. apply Nat.eqb_eq. apply H2. apply nth_In. exact Hi.
  - unfold msymb in H3. rewrite forallb_forall in H3. intros i j Hi Hj.
    specialize (H3 i ltac:(apply in_seq; lia)). rewrite forallb_forall in H3.
    apply Qeq_bool_iff. apply H3. apply in_seq. lia.
  - unfold mdiag0b in H4. rewrite forallb_forall in H4. intros i Hi. apply Qeq_bool_iff. apply H4. apply in_seq. lia.
  - exists T. split; [apply permb_spec; exact H5|]. split; [apply positiveb_spec; exact H6|].
    intros e He. exact (proj1 (proj1 (pathsumsb_zero m T) H7 e He)).
Qed.
