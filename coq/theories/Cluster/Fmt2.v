(* The '{:.2f}' rendering of a branch length: Python formats the exact binary value
   of the double correctly rounded to two decimals, ties to even.  [fmt2 q] is
   that decimal as a rational. *)
From Coq Require Import QArith Qabs ZArith Lia Lqa.
Local Open Scope Z_scope.

(* round-half-even of n/d, d > 0 *)
Definition rhe (n : Z) (d : positive) : Z :=
  let fl := n / Zpos d in
  let r := n mod Zpos d in
  match (2 * r) ?= Zpos d with
  | Lt => fl
  | Gt => fl + 1
  | Eq => if Z.even fl then fl else fl + 1
  end.

Definition fmt2 (q : Q) : Q := Qmake (rhe (Qnum q * 100) (Qden q)) 100.

(* the result is within half a unit of n/d, and no integer is nearer *)
Lemma rhe_close n d : 2 * Z.abs (rhe n d * Zpos d - n) <= Zpos d.
Proof.
  unfold rhe. pose proof (Z.div_mod n (Zpos d) ltac:(lia)) as E.
  pose proof (Z.mod_pos_bound n (Zpos d) ltac:(lia)) as B.
  set (fl := n / Zpos d) in *. set (r := n mod Zpos d) in *. clearbody fl r.
  destruct (Z.compare_spec (2 * r) (Zpos d)) as [C|C|C].
  - destruct (Z.even fl); lia.
  - lia.
  - lia.
Qed.

Lemma rhe_nearest n d k : Z.abs (rhe n d * Zpos d - n) <= Z.abs (k * Zpos d - n).
Proof.
  pose proof (rhe_close n d) as H.
  destruct (Z.eq_dec k (rhe n d)) as [->|N]; [lia|].
  (* another integer is at least one unit away from rhe, hence at least half a unit from n/d *)
  assert (K : Zpos d <= Z.abs (k * Zpos d - rhe n d * Zpos d)).
  { replace (k * Zpos d - rhe n d * Zpos d) with ((k - rhe n d) * Zpos d) by ring.
    rewrite Z.abs_mul. assert (1 <= Z.abs (k - rhe n d)) by lia.
    rewrite (Z.abs_eq (Zpos d)) by lia. nia. }
  lia.
Qed.

Lemma rhe_tie_even n d : 2 * (n mod Zpos d) = Zpos d -> Z.even (rhe n d) = true.
Proof.
  intros T. unfold rhe. rewrite T, Z.compare_refl.
  destruct (Z.even (n / Zpos d)) eqn:E; [exact E|].
  rewrite Z.even_add, E. reflexivity.
Qed.

Local Open Scope Q_scope.

(* the printed value differs from the length by at most half a unit of the last place *)
Theorem fmt2_close q : fmt2 q - q <= 1 # 200 /\ q - fmt2 q <= 1 # 200.
Proof.
  destruct q as [n d]. unfold fmt2. cbn [Qnum Qden].
  pose proof (rhe_close (n * 100) d) as H.
  set (k := rhe (n * 100) d) in *.
  unfold Qle, Qminus, Qplus, Qopp. cbn [Qnum Qden].
  rewrite !Pos2Z.inj_mul. split; lia.
Qed.

(* and no other two-decimal number is nearer *)
Theorem fmt2_nearest q (z : Z) :
  Qabs (fmt2 q - q) <= Qabs ((z # 100) - q).
Proof.
  destruct q as [n d]. unfold fmt2. cbn [Qnum Qden].
  pose proof (rhe_nearest (n * 100) d z) as H.
  set (k := rhe (n * 100) d) in *.
  unfold Qle, Qminus, Qplus, Qopp, Qabs. cbn [Qnum Qden].
  rewrite !Pos2Z.inj_mul.
  replace (k * Z.pos d + - n * 100)%Z with (k * Z.pos d - n * 100)%Z by ring.
  replace (z * Z.pos d + - n * 100)%Z with (z * Z.pos d - n * 100)%Z by ring.
  nia.
Qed.

Lemma fmt2_grid q : exists z : Z, fmt2 q = z # 100.
Proof. eexists. reflexivity. Qed.

(* values that are already two-decimal numbers are printed as they are *)
Lemma fmt2_exact (z : Z) : fmt2 (z # 100) == z # 100.
Proof.
  unfold fmt2, rhe. cbn [Qnum Qden].
  rewrite Z.div_mul by lia. rewrite Z.mod_mul by lia. cbn. reflexivity.
Qed.

(* ------------------------------------------------------------------ *)
(* the Newick string with distances=True: the nesting of the tree matrix with
   every length as printed *)
From LV Require Import Cluster.Nwk.

Fixpoint tree_fmt2 (t : tree) : tree :=
  match t with
  | Leaf x => Leaf x
  | Node l bl r br => Node (tree_fmt2 l) (fmt2 bl) (tree_fmt2 r) (fmt2 br)
  end.

Definition nwk_printed (n : nat) (rows : list row) : option tree :=
  match nwk n rows with Some t => Some (tree_fmt2 t) | None => None end.

Lemma leaves_fmt2 t : leaves (tree_fmt2 t) = leaves t.
Proof. induction t as [x|l IHl bl r IHr br]; [reflexivity|]. cbn [tree_fmt2 leaves]. rewrite IHl, IHr. reflexivity. Qed.

(* ties go to the even neighbour, exactly as Python prints them *)
Example fmt2_ties :
  fmt2 (1 # 8) = 12 # 100 /\ fmt2 (3 # 8) = 38 # 100 /\ fmt2 (-(1 # 8)) = -12 # 100 /\
  fmt2 (5 # 1000) = 0 # 100 /\ fmt2 (15 # 1000) = 2 # 100 /\
  fmt2 (54043195528445957 # 18014398509481984) = 300 # 100.
Proof. repeat split; vm_compute; reflexivity. Qed.

From Coq Require Import List Permutation.
Lemma nwk_printed_some n rows t : nwk n rows = Some t -> nwk_printed n rows = Some (tree_fmt2 t).
Proof. intros H. unfold nwk_printed. rewrite H. reflexivity. Qed.
