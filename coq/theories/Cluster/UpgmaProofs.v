(* Proofs about the UPGMA model: structure of the tree matrix for every matrix,
   ultrametricity of the tree it defines, and recovery of the generating tree
   from an ultrametric matrix with strictly increasing heights. *)
From Coq Require Import QArith List Arith Bool Lia Permutation Lqa.
From LV Require Import Cluster.Nwk Cluster.NwkProofs Cluster.Upgma.
Import ListNotations.
Local Open Scope nat_scope.

(* ------------------------------------------------------------------ *)
(* association lists *)
Definition wf (cl : clusters) : Prop := NoDup (keys cl).

Lemma in_keys k v (cl : clusters) : In (k, v) cl -> In k (keys cl).
Proof. intros H. apply (in_map fst) in H. exact H. Qed.

Lemma keys_in k (cl : clusters) : In k (keys cl) -> exists v, In (k, v) cl.
Proof.
  unfold keys. rewrite in_map_iff. intros [[k' v] [E H]]. cbn in E. subst. exists v. exact H.
Qed.

Lemma members_in k v cl : wf cl -> In (k, v) cl -> members k cl = v.
Proof.
  unfold wf. induction cl as [|[k' v'] tl IH]; intros ND H; [destruct H|].
  cbn [keys map fst] in ND. inversion ND as [|x l Hx NDtl]; subst.
  cbn [members]. destruct H as [E|H].
  - inversion E; subst. rewrite Nat.eqb_refl. reflexivity.
  - destruct (Nat.eqb k k') eqn:E.
    + apply Nat.eqb_eq in E. subst. exfalso. apply Hx. exact (in_keys _ _ _ H).
    + exact (IH NDtl H).
Qed.

Lemma keys_remove_key b cl : wf cl -> keys (remove_key b cl) = remove Nat.eq_dec b (keys cl).
Proof.
  unfold wf. induction cl as [|[k v] tl IH]; intros ND; [reflexivity|].
  cbn [keys map fst] in ND. inversion ND as [|x l Hx NDtl]; subst.
  cbn [remove_key keys map fst remove].
  destruct (Nat.eq_dec b k) as [E|NE].
  - subst. rewrite Nat.eqb_refl. symmetry. apply notin_remove. exact Hx.
  - apply Nat.eqb_neq in NE. rewrite NE. cbn [keys map fst]. f_equal. exact (IH NDtl).
Qed.

Lemma wf_remove_key b cl : wf cl -> wf (remove_key b cl).
Proof.
  intros H. unfold wf. rewrite keys_remove_key by exact H. apply NoDup_remove_nat. exact H.
Qed.

Lemma in_remove_key b cl k v : wf cl -> In (k, v) (remove_key b cl) <-> In (k, v) cl /\ k <> b.
Proof.
  unfold wf. induction cl as [|[k' v'] tl IH]; intros ND; [cbn; tauto|].
  cbn [keys map fst] in ND. inversion ND as [|x l Hx NDtl]; subst.
  cbn [remove_key]. destruct (Nat.eqb b k') eqn:E.
  - apply Nat.eqb_eq in E. subst. cbn [In]. split.
    + intros H. split; [right; exact H|]. intros ->. apply Hx. exact (in_keys _ _ _ H).
    + intros [[H|H] N]; [inversion H; congruence|exact H].
  - apply Nat.eqb_neq in E. cbn [In]. rewrite (IH NDtl). split.
    + intros [H|[H N]]; [inversion H; subst; split; [left; reflexivity|congruence]|split; [right; exact H|exact N]].
    + intros [[H|H] N]; [left; exact H|right; split; assumption].
Qed.

Lemma remove_key_perm a va cl : wf cl -> In (a, va) cl -> Permutation cl ((a, va) :: remove_key a cl).
Proof.
  unfold wf. induction cl as [|[k v] tl IH]; intros ND H; [destruct H|].
  cbn [keys map fst] in ND. inversion ND as [|x l Hx NDtl]; subst.
  cbn [remove_key]. destruct (Nat.eqb a k) eqn:E.
  - apply Nat.eqb_eq in E. subst. destruct H as [H|H].
    + inversion H; subst. apply Permutation_refl.
    + exfalso. apply Hx. exact (in_keys _ _ _ H).
  - apply Nat.eqb_neq in E. destruct H as [H|H]; [inversion H; congruence|].
    eapply perm_trans; [apply perm_skip; exact (IH NDtl H)|apply perm_swap].
Qed.

(* ------------------------------------------------------------------ *)
(* scores and the first minimum *)
Lemma in_pair_scores d cl a b m :
  In ((a, b), m) (pair_scores d cl) <->
  exists va vb, In (a, va) cl /\ In (b, vb) cl /\ a <> b /\ m = qavg (cross d va vb).
Proof.
  unfold pair_scores. rewrite in_flat_map. split.
  - intros [[ka va] [Ha H]]. rewrite in_flat_map in H. destruct H as [[kb vb] [Hb H]].
    cbn [fst snd] in H. destruct (Nat.eqb ka kb) eqn:E; [destruct H|].
    destruct H as [H|[]]. inversion H; subst. apply Nat.eqb_neq in E.
    exists va, vb. repeat split; assumption.
  - intros (va & vb & Ha & Hb & N & ->). exists (a, va). split; [exact Ha|].
    rewrite in_flat_map. exists (b, vb). split; [exact Hb|]. cbn [fst snd].
    apply Nat.eqb_neq in N. rewrite N. left. reflexivity.
Qed.

Lemma first_min_none {A} (l : list (A * Q)) : first_min l = None -> l = [].
Proof.
  destruct l as [|x tl]; [reflexivity|]. cbn [first_min].
  destruct (first_min tl) as [y|]; [destruct (Qle_bool (snd x) (snd y))|]; discriminate.
Qed.

Lemma first_min_in {A} (l : list (A * Q)) x : first_min l = Some x -> In x l.
Proof.
  revert x. induction l as [|y tl IH]; intros x; cbn [first_min]; [discriminate|].
  destruct (first_min tl) as [z|].
  - destruct (Qle_bool (snd y) (snd z)); intros H; inversion H; subst; [left; reflexivity|right; apply IH; reflexivity].
  - intros H. inversion H. left. reflexivity.
Qed.

Lemma first_min_le {A} (l : list (A * Q)) x : first_min l = Some x ->
  forall y, In y l -> (snd x <= snd y)%Q.
Proof.
  revert x. induction l as [|z tl IH]; intros x; cbn [first_min]; [discriminate|].
  destruct (first_min tl) as [w|] eqn:E.
  - destruct (Qle_bool (snd z) (snd w)) eqn:C; intros H y Hy; inversion H; subst x.
    + apply Qle_bool_iff in C. destruct Hy as [Ey|Hy]; [subst y; apply Qle_refl|].
      eapply Qle_trans; [exact C|exact (IH _ eq_refl _ Hy)].
    + destruct Hy as [Ey|Hy]; [subst y|exact (IH _ eq_refl _ Hy)].
      destruct (Qlt_le_dec (snd w) (snd z)) as [L|L]; [apply Qlt_le_weak; exact L|].
      apply Qle_bool_iff in L. congruence.
  - intros H y Hy. inversion H; subst x. apply first_min_none in E. subst tl.
    destruct Hy as [Ey|[]]. subst y. apply Qle_refl.
Qed.

(* ------------------------------------------------------------------ *)
(* one step *)
Lemma upgma_step_unfold d cl br : length cl <> 1 ->
  upgma_step d (cl, br) =
  match first_min (pair_scores d cl) with
  | None => None
  | Some ((a, b), m) =>
      let idx := S (list_max (keys cl)) in
      let h := (m / 2)%Q in
      Some ((a, b, (h - getq a br)%Q, (h - getq b br)%Q),
            (remove_key b (remove_key a cl) ++ [(idx, members a cl ++ members b cl)],
             (idx, h) :: br))
  end.
Proof.
  intros H. unfold upgma_step. destruct cl as [|c1 [|c2 tl]]; [reflexivity|cbn in H; lia|reflexivity].
Qed.

Lemma upgma_step_single d c br : upgma_step d ([c], br) = None.
Proof. reflexivity. Qed.

Lemma upgma_step_spec d cl br r st' : wf cl -> upgma_step d (cl, br) = Some (r, st') ->
  exists a b va vb, In (a, va) cl /\ In (b, vb) cl /\ a <> b /\
    (forall a' b' va' vb', In (a', va') cl -> In (b', vb') cl -> a' <> b' ->
       (qavg (cross d va vb) <= qavg (cross d va' vb'))%Q) /\
    r = (a, b, (qavg (cross d va vb) / 2 - getq a br)%Q, (qavg (cross d va vb) / 2 - getq b br)%Q) /\
    st' = (remove_key b (remove_key a cl) ++ [(S (list_max (keys cl)), va ++ vb)],
           (S (list_max (keys cl)), (qavg (cross d va vb) / 2)%Q) :: br).
Proof.
  intros W H.
  assert (L : length cl <> 1).
  { intros L. destruct cl as [|c [|c2 tl]]; cbn in L; try lia. rewrite upgma_step_single in H. discriminate. }
  rewrite upgma_step_unfold in H by exact L.
  destruct (first_min (pair_scores d cl)) as [[[a b] m]|] eqn:E; [|discriminate].
  pose proof (first_min_in _ _ E) as Hin. apply in_pair_scores in Hin.
  destruct Hin as (va & vb & Ha & Hb & N & ->).
  exists a, b, va, vb. repeat split; try assumption.
  - intros a' b' va' vb' Ha' Hb' N'.
    apply (first_min_le _ _ E ((a', b'), qavg (cross d va' vb'))).
    apply in_pair_scores. exists va', vb'. repeat split; assumption.
  - cbn zeta in H. inversion H. reflexivity.
  - cbn zeta in H. inversion H. rewrite (members_in _ _ _ W Ha), (members_in _ _ _ W Hb). reflexivity.
Qed.

Lemma upgma_step_none d cl br : wf cl -> upgma_step d (cl, br) = None -> length cl <= 1.
Proof.
  intros W H. destruct (Nat.eq_dec (length cl) 1) as [E|NE]; [lia|].
  rewrite upgma_step_unfold in H by exact NE.
  destruct (first_min (pair_scores d cl)) as [[[a b] m]|] eqn:E; [discriminate|].
  apply first_min_none in E.
  destruct cl as [|[k1 v1] [|[k2 v2] tl]]; cbn [length]; try lia.
  exfalso.
  assert (N : k1 <> k2).
  { unfold wf in W. cbn [keys map fst] in W. inversion W as [|x l Hx _]; subst.
    intros ->. apply Hx. left. reflexivity. }
  assert (Hin : In ((k1, k2), qavg (cross d v1 v2)) (pair_scores d ((k1, v1) :: (k2, v2) :: tl))).
  { apply in_pair_scores. exists v1, v2. repeat split; [left; reflexivity|right; left; reflexivity|exact N]. }
  rewrite E in Hin. destruct Hin.
Qed.

(* ------------------------------------------------------------------ *)
(* the state after a step *)
Definition merged (cl : clusters) (a b : nat) (va vb : list nat) : clusters :=
  remove_key b (remove_key a cl) ++ [(S (list_max (keys cl)), va ++ vb)].

Lemma two_out cl a b va vb : wf cl -> In (a, va) cl -> In (b, vb) cl -> a <> b ->
  Permutation cl ((a, va) :: (b, vb) :: remove_key b (remove_key a cl)).
Proof.
  intros W Ha Hb N.
  eapply perm_trans; [exact (remove_key_perm _ _ _ W Ha)|]. apply perm_skip.
  apply remove_key_perm; [apply wf_remove_key; exact W|].
  apply in_remove_key; [exact W|]. split; [exact Hb|congruence].
Qed.

Lemma key_lt_idx cl k : In k (keys cl) -> k < S (list_max (keys cl)).
Proof. intros H. apply list_max_ge in H. lia. Qed.

Lemma in_merged cl a b va vb k v : wf cl ->
  In (k, v) (merged cl a b va vb) <->
  (In (k, v) cl /\ k <> a /\ k <> b) \/ (k, v) = (S (list_max (keys cl)), va ++ vb).
Proof.
  intros W. unfold merged. rewrite in_app_iff, in_remove_key by (apply wf_remove_key; exact W).
  rewrite in_remove_key by exact W. cbn [In]. split.
  - intros [[[H1 H2] H3]|[H|[]]]; [left; tauto|right; symmetry; exact H].
  - intros [(H1 & H2 & H3)|H]; [left; tauto|right; left; symmetry; exact H].
Qed.

Lemma keys_merged cl a b va vb : wf cl ->
  keys (merged cl a b va vb) =
  remove Nat.eq_dec b (remove Nat.eq_dec a (keys cl)) ++ [S (list_max (keys cl))].
Proof.
  intros W. unfold merged, keys. rewrite map_app. cbn [map fst]. f_equal.
  change (keys (remove_key b (remove_key a cl)) = remove Nat.eq_dec b (remove Nat.eq_dec a (keys cl))).
  rewrite keys_remove_key by (apply wf_remove_key; exact W).
  rewrite keys_remove_key by exact W. reflexivity.
Qed.

Lemma NoDup_snoc (l : list nat) x : NoDup l -> ~ In x l -> NoDup (l ++ [x]).
Proof.
  intros ND H. eapply Permutation_NoDup; [apply Permutation_cons_append|]. constructor; assumption.
Qed.

Lemma wf_merged cl a b va vb : wf cl -> wf (merged cl a b va vb).
Proof.
  intros W. unfold wf. rewrite keys_merged by exact W.
  apply NoDup_snoc; [apply NoDup_remove_nat, NoDup_remove_nat; exact W|].
  rewrite !in_remove_iff. intros [[H _] _]. apply key_lt_idx in H. lia.
Qed.

Lemma max_merged cl a b va vb : wf cl ->
  list_max (keys (merged cl a b va vb)) = S (list_max (keys cl)).
Proof.
  intros W. rewrite keys_merged by exact W. rewrite list_max_app. cbn [list_max fold_right].
  assert (H : list_max (remove Nat.eq_dec b (remove Nat.eq_dec a (keys cl))) <= list_max (keys cl)).
  { apply list_max_le. apply Forall_forall. intros x Hx. rewrite !in_remove_iff in Hx.
    apply list_max_ge. tauto. }
  lia.
Qed.

Lemma length_merged cl a b va vb : wf cl -> In (a, va) cl -> In (b, vb) cl -> a <> b ->
  S (length (merged cl a b va vb)) = length cl.
Proof.
  intros W Ha Hb N. rewrite (Permutation_length (two_out _ _ _ _ _ W Ha Hb N)).
  unfold merged. rewrite app_length. cbn [length]. lia.
Qed.

Lemma flat_merged cl a b va vb : wf cl -> In (a, va) cl -> In (b, vb) cl -> a <> b ->
  Permutation (flat_map snd (merged cl a b va vb)) (flat_map snd cl).
Proof.
  intros W Ha Hb N. symmetry.
  eapply perm_trans; [apply Permutation_flat_map; exact (two_out _ _ _ _ _ W Ha Hb N)|].
  unfold merged. rewrite flat_map_app. cbn [flat_map snd]. rewrite app_nil_r, app_assoc.
  apply Permutation_app_comm.
Qed.

(* ------------------------------------------------------------------ *)
(* runs *)
Lemma upgma_run_grun fuel d : forall st,
  fst (upgma_run fuel d st) = grun ustate (upgma_step d) (fun _ => []) fuel st.
Proof.
  induction fuel as [|f IH]; intros st; [reflexivity|].
  cbn [upgma_run grun]. destruct (upgma_step d st) as [[r st']|]; [|reflexivity].
  specialize (IH st'). destruct (upgma_run f d st') as [rs fin]. cbn [fst] in *. f_equal. exact IH.
Qed.

Definition uinv (st : ustate) (next : nat) : Prop :=
  wf (fst st) /\ fst st <> [] /\ S (list_max (keys (fst st))) = next.

Lemma uinv_step d st next r st' : uinv st next -> upgma_step d st = Some (r, st') ->
  exists a b va vb, In (a, va) (fst st) /\ In (b, vb) (fst st) /\ a <> b /\
    (forall a' b' va' vb', In (a', va') (fst st) -> In (b', vb') (fst st) -> a' <> b' ->
       (qavg (cross d va vb) <= qavg (cross d va' vb'))%Q) /\
    r = (a, b, (qavg (cross d va vb) / 2 - getq a (snd st))%Q, (qavg (cross d va vb) / 2 - getq b (snd st))%Q) /\
    st' = (merged (fst st) a b va vb, (next, (qavg (cross d va vb) / 2)%Q) :: snd st) /\
    uinv st' (S next).
Proof.
  destruct st as [cl br]. cbn [fst snd]. intros (W & NE & Hn) H.
  destruct (upgma_step_spec _ _ _ _ _ W H) as (a & b & va & vb & Ha & Hb & N & Hmin & Hr & Hst).
  exists a, b, va, vb. rewrite <- Hn. repeat split; try assumption.
  - subst st'. cbn [fst]. apply wf_merged. exact W.
  - subst st'. cbn [fst]. unfold merged. intros E. apply app_eq_nil in E. destruct E as [_ E]. discriminate.
  - subst st'. cbn [fst]. f_equal. exact (max_merged cl a b va vb W).
Qed.

(* structure: the rows are merges of live nodes *)
Lemma upgma_merges d fuel st next : uinv st next ->
  merges (keys (fst st)) next (fst (upgma_run fuel d st)).
Proof.
  intros HI. rewrite upgma_run_grun.
  apply (grun_merges ustate (upgma_step d) (fun _ => []) (fun st => keys (fst st)) uinv); [| |exact HI].
  - intros st0 next0 a b c e st' HI0 E.
    destruct (uinv_step _ _ _ _ _ HI0 E) as (a0 & b0 & va & vb & Ha & Hb & N & _ & Hr & Hst & HI').
    inversion Hr; subst a0 b0. clear Hr.
    split; [exact (in_keys _ _ _ Ha)|]. split; [exact (in_keys _ _ _ Hb)|]. split; [exact N|].
    split; [|exact HI'].
    intros x. subst st'. cbn [fst]. destruct HI0 as (W & _ & Hn).
    rewrite keys_merged by exact W. rewrite in_app_iff, !in_remove_iff. cbn [In]. rewrite Hn. split.
    + intros [[[K1 K2] K3]|[K|[]]]; [right; tauto|left; symmetry; exact K].
    + intros [K|(K1 & K2 & K3)]; [right; left; symmetry; exact K|left; tauto].
  - intros st0 next0 _ _. constructor.
Qed.

(* ------------------------------------------------------------------ *)
(* the tree the rows define: leaves and ultrametricity *)
Lemma getq_init k l : getq k (map (fun i => (i, 0%Q)) l) = 0%Q.
Proof.
  induction l as [|x tl IH]; [reflexivity|]. cbn [map getq]. destruct (Nat.eqb k x); [reflexivity|exact IH].
Qed.

Lemma flat_init l : flat_map snd (map (fun i : nat => (i, [i])) l) = l.
Proof. induction l as [|x tl IH]; [reflexivity|]. cbn [map flat_map snd app]. f_equal. exact IH. Qed.

Lemma keys_upgma_init n : keys (fst (upgma_init n)) = seq 0 n.
Proof. unfold upgma_init, keys. cbn [fst]. rewrite map_map. cbn [fst]. apply map_id. Qed.

Lemma uinv_init n : 1 <= n -> uinv (upgma_init n) n.
Proof.
  intros Hn. unfold uinv, wf. rewrite keys_upgma_init. split; [apply seq_NoDup|]. split.
  - destruct n; [lia|]. cbn. discriminate.
  - destruct n; [lia|]. rewrite list_max_seq. reflexivity.
Qed.

Section UpgmaNwk.
  Variable d : nat -> nat -> Q.
  Variable n : nat.

  Definition uP (st : ustate) (D : dict) (next : nat) : Prop :=
    uinv st next /\
    (forall k, In k (map fst D) -> k < next) /\
    next + length (fst st) = 2 * n /\
    Permutation (flat_map snd (fst st)) (seq 0 n) /\
    forall k v, In (k, v) (fst st) ->
      exists t, dget k D = Some t /\ leaves t = v /\
                forall x, In x (depths t) -> (x == getq k (snd st))%Q.

  Definition uQf (D : dict) (nf : nat) : Prop :=
    nf = 2 * n - 1 /\
    exists t, dget (nf - 1) D = Some t /\ Permutation (leaves t) (seq 0 n) /\
              exists h, forall x, In x (depths t) -> (x == h)%Q.

  Lemma uP_step st D next r st' : uP st D next -> upgma_step d st = Some (r, st') ->
    length (fst st') - 1 < length (fst st) - 1 /\
    exists a b c e ta tb, r = (a, b, c, e) /\ dget a D = Some ta /\ dget b D = Some tb /\
      uP st' (D ++ [(next, Node ta c tb e)]) (S next).
  Proof.
    intros (HI & HD & Hlen & Hperm & Htrees) E.
    destruct (uinv_step _ _ _ _ _ HI E) as (a & b & va & vb & Ha & Hb & N & _ & Hr & Hst & HI').
    destruct st as [cl br]. cbn [fst snd] in *. destruct HI as (W & NE & Hn).
    pose proof (length_merged cl a b va vb W Ha Hb N) as Hlm.
    assert (Hl1 : 1 <= length (merged cl a b va vb)).
    { unfold merged. rewrite app_length. cbn [length]. lia. }
    destruct (Htrees _ _ Ha) as (ta & Hta & Lta & Dta).
    destruct (Htrees _ _ Hb) as (tb & Htb & Ltb & Dtb).
    subst st'. cbn [fst snd] in *. split; [lia|].
    set (h := (qavg (cross d va vb) / 2)%Q) in *.
    exists a, b, (h - getq a br)%Q, (h - getq b br)%Q, ta, tb.
    split; [exact Hr|]. split; [exact Hta|]. split; [exact Htb|].
    split; [exact HI'|]. split; [|split; [|split]].
    - intros k. rewrite map_app, in_app_iff. cbn [map fst In]. intros [H|[H|[]]]; [apply HD in H; lia|lia].
    - cbn [fst]. lia.
    - cbn [fst]. eapply perm_trans; [exact (flat_merged cl a b va vb W Ha Hb N)|exact Hperm].
    - cbn [fst snd]. intros k v Hk. apply in_merged in Hk; [|exact W].
      destruct Hk as [(Hk & Nka & Nkb)|Hk].
      + destruct (Htrees _ _ Hk) as (t & Ht & Lt & Dt). exists t.
        split; [apply dget_app_some; exact Ht|]. split; [exact Lt|].
        intros x Hx. cbn [getq].
        assert (Hlt : k < next) by (rewrite <- Hn; apply key_lt_idx; exact (in_keys _ _ _ Hk)).
        assert (Ek : Nat.eqb k next = false) by (apply Nat.eqb_neq; lia).
        rewrite Ek. exact (Dt x Hx).
      + rewrite Hn in Hk. inversion Hk; subst k v.
        exists (Node ta (h - getq a br) tb (h - getq b br)).
        split; [apply dget_app_new; intros H; apply HD in H; lia|].
        split; [cbn [leaves]; rewrite Lta, Ltb; reflexivity|].
        intros x Hx. cbn [getq]. rewrite Nat.eqb_refl.
        cbn [depths] in Hx. rewrite in_app_iff, !in_map_iff in Hx.
        destruct Hx as [[y [<- Hy]]|[y [<- Hy]]].
        * rewrite (Dta y Hy). ring.
        * rewrite (Dtb y Hy). ring.
  Qed.

  Lemma uP_last st D next : uP st D next -> upgma_step d st = None ->
    exists D', nwk_run D next [] = Some D' /\ uQf D' (next + length (@nil row)).
  Proof.
    intros (HI & HD & Hlen & Hperm & Htrees) E. destruct st as [cl br]. cbn [fst snd] in *.
    destruct HI as (W & NE & Hn). apply upgma_step_none in E; [|exact W].
    destruct cl as [|[k v] [|c2 tl]]; [exfalso; apply NE; reflexivity| |cbn [length] in E; lia].
    exists D. split; [reflexivity|]. cbn [length] in *. rewrite Nat.add_0_r.
    cbn [keys map fst list_max fold_right] in Hn.
    split; [lia|].
    destruct (Htrees k v (or_introl eq_refl)) as (t & Ht & Lt & Dt).
    exists t. replace (next - 1) with k by lia. split; [exact Ht|]. split.
    - rewrite Lt. cbn [flat_map snd] in Hperm. rewrite app_nil_r in Hperm. exact Hperm.
    - exists (getq k br). exact Dt.
  Qed.

  Lemma uP_init : 1 <= n -> uP (upgma_init n) (nwk_init n) n.
  Proof.
    intros Hn. split; [apply uinv_init; exact Hn|]. split; [|split; [|split]].
    - intros k. rewrite keys_init, in_seq. lia.
    - unfold upgma_init. cbn [fst]. rewrite map_length, seq_length. lia.
    - unfold upgma_init. cbn [fst]. rewrite flat_init. apply Permutation_refl.
    - unfold upgma_init. cbn [fst snd]. intros k v Hk. apply in_map_iff in Hk.
      destruct Hk as [i [Ei Hi]]. inversion Ei; subst k v. apply in_seq in Hi.
      exists (Leaf i). split; [apply dget_init; lia|]. split; [reflexivity|].
      intros x [<-|[]]. rewrite getq_init. reflexivity.
  Qed.

  Theorem upgma_tree_ultrametric : 1 <= n ->
    length (upgma_rows n d) = n - 1 /\
    exists t, upgma_tree n d = Some t /\ Permutation (leaves t) (seq 0 n) /\
              exists h, forall x, In x (depths t) -> (x == h)%Q.
  Proof.
    intros Hn. unfold upgma_tree, upgma_rows. rewrite upgma_run_grun.
    destruct (grun_nwk ustate (upgma_step d) (fun _ => []) uP uQf (fun st => length (fst st) - 1)
                uP_step uP_last n (upgma_init n) (nwk_init n) n (uP_init Hn)) as (D' & HD' & Hnf & t & Ht & Hperm & Hh).
    { unfold upgma_init. cbn [fst]. rewrite map_length, seq_length. lia. }
    set (rows := grun ustate (upgma_step d) (fun _ => []) n (upgma_init n)) in *.
    split; [lia|].
    exists t. unfold nwk. destruct n as [|n']; [lia|]. rewrite HD'.
    split; [exact Ht|]. split; [exact Hperm|exact Hh].
  Qed.
End UpgmaNwk.

Theorem upgma_valid_rows d n : 1 <= n -> valid_rows n (upgma_rows n d).
Proof.
  intros Hn. split; [exact (proj1 (upgma_tree_ultrametric d n Hn))|].
  unfold upgma_rows. rewrite <- (keys_upgma_init n) at 1.
  apply upgma_merges. apply uinv_init. exact Hn.
Qed.
