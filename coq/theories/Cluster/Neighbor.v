(* Model of lingpy.algorithm.cython._cluster._neighbor (lines 538-690) over
   exact rationals.  The cluster dictionary always has the keys 0..N-1 in
   sorted order (it is renumbered on every call), so it is a list whose
   positions are the keys.  The tracer dictionary maps member tuples to node
   numbers.  Model only: no proofs here. *)
From Coq Require Import QArith List Arith Bool.
From LV Require Import Cluster.Nwk Cluster.Upgma.
Import ListNotations.
Local Open Scope nat_scope.

Definition list_nat_eqb : list nat -> list nat -> bool :=
  fix go l1 l2 := match l1, l2 with
                  | [], [] => true
                  | x :: t1, y :: t2 => Nat.eqb x y && go t1 t2
                  | _, _ => false
                  end.

Definition tracer := list (list nat * nat).

(* tracer[tuple(c)] (0 when the key is missing; the proofs show it never is) *)
Fixpoint tget (c : list nat) (tr : tracer) : nat :=
  match tr with
  | [] => 0
  | (c', v) :: tl => if list_nat_eqb c c' then v else tget c tl
  end.

(* tracer[tuple(c)] = v *)
Fixpoint tset (c : list nat) (v : nat) (tr : tracer) : tracer :=
  match tr with
  | [] => [(c, v)]
  | (c', v') :: tl => if list_nat_eqb c c' then (c, v) :: tl else (c', v') :: tset c v tl
  end.

(* a square matrix given by its cells *)
Definition mk_mat (n : nat) (f : nat -> nat -> Q) : mat :=
  map (fun i => map (fun j => f i j) (seq 0 n)) (seq 0 n).

Definition qN2 (m : mat) : Q := inject_Z (Z.of_nat (length m) - 2).

(* averages[i] = sum(matrix[i]) / (N - 2.0) *)
Definition nj_avg (m : mat) (i : nat) : Q := (qsum (nth i m []) / qN2 m)%Q.

(* new_matrix[i][j] for i < j: written from the lower triangle,
   score = matrix[j][i];  new_score = score - averages[j] - averages[i] *)
Definition nj_q (m : mat) (i j : nat) : Q := (dm m j i - nj_avg m j - nj_avg m i)%Q.

(* for i in sorted(keys): for j in sorted(keys): if i < j: scores.append(new_matrix[i][j]) *)
Definition nj_scores (m : mat) (ncl : nat) : list ((nat * nat) * Q) :=
  flat_map (fun i =>
    flat_map (fun j => if Nat.ltb i j then [((i, j), nj_q m i j)] else []) (seq 0 ncl))
    (seq 0 ncl).

(* sAX = matrix[A][B]/2.0 + (averages[A] - averages[B])/2;  sBX = matrix[A][B] - sAX *)
Definition nj_sax (m : mat) (a b : nat) : Q :=
  (dm m a b / 2 + (nj_avg m a - nj_avg m b) / 2)%Q.
Definition nj_sbx (m : mat) (a b : nat) : Q := (dm m a b - nj_sax m a b)%Q.

(* the i-th of sorted(clusters.keys()) after del clusters[B] *)
Definition nj_old (b i : nat) : nat := if Nat.ltb i b then i else S i.

(* the condensed list built in the double loop, then squareform() *)
Definition nj_cell (m : mat) (ia ib i j : nat) : Q :=
  let a := nj_old ib i in
  let b := nj_old ib j in
  let dab := dm m ia ib in
  if Nat.eqb a ia then (((dm m ia b + dm m ib b) - dab) / 2)%Q
  else if Nat.eqb b ia then (((dm m ia a + dm m ib a) - dab) / 2)%Q
  else dm m a b.

Definition nj_newmat (m : mat) (ncl ia ib : nat) : mat :=
  mk_mat (ncl - 1) (fun i j =>
    if Nat.ltb i j then nj_cell m ia ib i j
    else if Nat.ltb j i then nj_cell m ia ib j i
    else 0%Q).

(* clusters[A] += clusters[B]; del clusters[B]; renumber *)
Fixpoint set_nth {A} (k : nat) (v : A) (l : list A) : list A :=
  match l, k with
  | [], _ => []
  | _ :: tl, O => v :: tl
  | x :: tl, S k' => x :: set_nth k' v tl
  end.
Fixpoint del_nth {A} (k : nat) (l : list A) : list A :=
  match l, k with
  | [], _ => []
  | _ :: tl, O => tl
  | x :: tl, S k' => x :: del_nth k' tl
  end.

Definition tmax (tr : tracer) : nat := list_max (map snd tr).

Record njstate := { nj_cls : list (list nat); nj_m : mat; nj_tr : tracer }.

(* one call of _neighbor.  None: the call returns without recursing
   (one cluster, or after the two-cluster end case); the row it appended, if
   any, is given by nj_last. *)
Definition nj_step (st : njstate) : option (row * njstate) :=
  let cls := nj_cls st in
  let m := nj_m st in
  let tr := nj_tr st in
  match cls with
  | [] | [_] | [_; _] => None
  | _ =>
      match first_min (nj_scores m (length cls)) with
      | None => None
      | Some ((a, b), _) =>
          let ca := nth a cls [] in
          let cb := nth b cls [] in
          Some ((tget ca tr, tget cb tr, nj_sax m a b, nj_sbx m a b),
                {| nj_cls := del_nth b (set_nth a (ca ++ cb) cls);
                   nj_m := nj_newmat m (length cls) a b;
                   nj_tr := tset (ca ++ cb) (S (tmax tr)) tr |})
      end
  end.

(* len(clusters) == 2: idxA,idxB = 0,1; sAX = sBX = matrix[0][1]/2 *)
Definition nj_last (st : njstate) : list row :=
  match nj_cls st with
  | [c0; c1] => [(tget c0 (nj_tr st), tget c1 (nj_tr st),
                  (dm (nj_m st) 0 1 / 2)%Q, (dm (nj_m st) 0 1 / 2)%Q)]
  | _ => []
  end.

Fixpoint nj_run (fuel : nat) (st : njstate) : list row :=
  match fuel with
  | O => []
  | S f =>
      match nj_step st with
      | Some (r, st') => r :: nj_run f st'
      | None => nj_last st
      end
  end.

(* clusters = dict([(i,[i]) ...]); tracer = dict([(tuple([a]), b[0]) for (a,b) in clusters.items()]) *)
Definition nj_init (m : mat) : njstate :=
  let n := length m in
  {| nj_cls := map (fun i => [i]) (seq 0 n);
     nj_m := m;
     nj_tr := map (fun i => ([i], i)) (seq 0 n) |}.

(* the tree matrix filled by _neighbor *)
Definition nj_rows (m : mat) : list row := nj_run (length m) (nj_init m).

Definition nj_tree (m : mat) : option tree := nwk (length m) (nj_rows m).
