(* Proofs about the flat clustering model (Flat.v), generic in the carrier. *)
From Coq Require Import List Arith Bool Lia Permutation.
From LV Require Import Cluster.Flat.
Import ListNotations.

  (* ---------------------------------------------------------------- *)
  (* dictionary operations *)

  Definition keys (cl : clusters) : list nat := map fst cl.

  Lemma lookup_in k cl v : lookup k cl = Some v -> In (k, v) cl.
  Proof.
    induction cl as [|[k' v'] tl IH]; cbn [lookup]; [discriminate|].
    destruct (Nat.eqb_spec k k') as [->|N]; intros H.
    - inversion H; left; reflexivity.
    - right; auto.
  Qed.

  Lemma in_lookup k cl v : NoDup (keys cl) -> In (k, v) cl -> lookup k cl = Some v.
  Proof.
    induction cl as [|[k' v'] tl IH]; intros ND H; [destruct H|].
    cbn [lookup]. cbn [keys map fst] in ND. inversion ND as [|? ? NI ND']; subst.
    destruct H as [H|H].
    - inversion H; subst. rewrite Nat.eqb_refl. reflexivity.
    - destruct (Nat.eqb_spec k k') as [->|N].
      + exfalso. apply NI. change (In (fst (k', v)) (map fst tl)). apply in_map. exact H.
      + apply IH; assumption.
  Qed.

  Lemma in_keys k v (cl : clusters) : In (k, v) cl -> In k (keys cl).
  Proof. intros H. change k with (fst (k, v)). apply in_map. exact H. Qed.

  Lemma keys_in k (cl : clusters) : In k (keys cl) -> exists v, In (k, v) cl.
  Proof.
    unfold keys. rewrite in_map_iff. intros [[k' v] [E H]]. cbn in E; subst. eauto.
  Qed.

  Lemma keys_append_to a e cl : keys (append_to a e cl) = keys cl.
  Proof.
    induction cl as [|[k v] tl IH]; [reflexivity|]. cbn [append_to].
    destruct (Nat.eqb a k); cbn [keys map fst]; [reflexivity|]. f_equal. exact IH.
  Qed.

  Lemma length_append_to a e cl : length (append_to a e cl) = length cl.
  Proof. rewrite <- (map_length fst), <- (map_length fst cl). apply f_equal, keys_append_to. Qed.

  Fixpoint remove_first (b : nat) (l : list nat) : list nat :=
    match l with
    | [] => []
    | x :: tl => if Nat.eqb b x then tl else x :: remove_first b tl
    end.

  Lemma keys_remove_key b cl : keys (remove_key b cl) = remove_first b (keys cl).
  Proof.
    induction cl as [|[k v] tl IH]; [reflexivity|]. cbn [remove_key keys map fst remove_first].
    destruct (Nat.eqb b k); [reflexivity|]. cbn [map fst]. f_equal. exact IH.
  Qed.

  Lemma remove_first_incl b l x : In x (remove_first b l) -> In x l.
  Proof.
    induction l as [|y tl IH]; cbn [remove_first]; [tauto|].
    destruct (Nat.eqb b y); cbn [In]; tauto.
  Qed.

  Lemma remove_first_nodup b l : NoDup l -> NoDup (remove_first b l).
  Proof.
    induction l as [|y tl IH]; cbn [remove_first]; intros ND; [constructor|].
    inversion ND as [|? ? NI ND']; subst. destruct (Nat.eqb b y); [assumption|].
    constructor; [|auto]. intros H; apply NI. eapply remove_first_incl; eauto.
  Qed.

  Lemma remove_first_notin b l : NoDup l -> ~ In b (remove_first b l).
  Proof.
    induction l as [|y tl IH]; cbn [remove_first]; intros ND; [tauto|].
    inversion ND as [|? ? NI ND']; subst.
    destruct (Nat.eqb_spec b y) as [->|N]; [assumption|].
    cbn [In]. intros [E|H]; [congruence|]. apply IH; assumption.
  Qed.

  Lemma length_remove_key b cl : In b (keys cl) -> S (length (remove_key b cl)) = length cl.
  Proof.
    induction cl as [|[k v] tl IH]; cbn [keys map fst In remove_key length]; [tauto|].
    destruct (Nat.eqb_spec b k) as [->|N]; [reflexivity|]. intros [E|H]; [congruence|].
    cbn [length]. f_equal. apply IH. exact H.
  Qed.

  (* membership after the two updates *)
  Lemma in_append_to a e cl k v : NoDup (keys cl) ->
    (In (k, v) (append_to a e cl) <->
     (k = a /\ exists v0, In (a, v0) cl /\ v = v0 ++ e) \/ (k <> a /\ In (k, v) cl)).
  Proof.
    induction cl as [|[k' v'] tl IH]; intros ND.
    - cbn. split; [tauto|]. intros [[_ [v0 [[] _]]]|[_ []]].
    - cbn [keys map fst] in ND. inversion ND as [|? ? NI ND']; subst.
      cbn [append_to]. destruct (Nat.eqb_spec a k') as [->|N].
      + cbn [In]. split.
        * intros [E|H].
          -- inversion E; subst. left. split; [reflexivity|]. exists v'. split; [left; reflexivity|reflexivity].
          -- right. split; [|right; exact H]. intros ->. apply NI. eapply in_keys; eauto.
        * intros [[-> [v0 [[E|H] ->]]]|[Nk [E|H]]].
          -- inversion E; subst. left; reflexivity.
          -- exfalso. apply NI. eapply in_keys; eauto.
          -- inversion E; subst. congruence.
          -- right; exact H.
      + cbn [In]. rewrite (IH ND'). split.
        * intros [E|[[-> [v0 [H ->]]]|[Nk H]]].
          -- inversion E; subst. right. split; [congruence|left; reflexivity].
          -- left. split; [reflexivity|]. exists v0. split; [right; exact H|reflexivity].
          -- right. split; [exact Nk|right; exact H].
        * intros [[-> [v0 [[E|H] ->]]]|[Nk [E|H]]].
          -- inversion E; subst. congruence.
          -- right. left. split; [reflexivity|]. exists v0. split; [exact H|reflexivity].
          -- left; exact E.
          -- right. right. split; assumption.
  Qed.

  Lemma in_remove_key b cl k v : NoDup (keys cl) ->
    (In (k, v) (remove_key b cl) <-> k <> b /\ In (k, v) cl).
  Proof.
    induction cl as [|[k' v'] tl IH]; intros ND.
    - cbn. tauto.
    - cbn [keys map fst] in ND. inversion ND as [|? ? NI ND']; subst.
      cbn [remove_key]. destruct (Nat.eqb_spec b k') as [->|N].
      + cbn [In]. split.
        * intros H. split; [|right; exact H]. intros ->. apply NI. eapply in_keys; eauto.
        * intros [Nk [E|H]]; [inversion E; subst; congruence|exact H].
      + cbn [In]. rewrite (IH ND'). split.
        * intros [E|[Nk H]]; [inversion E; subst; split; [congruence|left; reflexivity]|].
          split; [exact Nk|right; exact H].
        * intros [Nk [E|H]]; [left; exact E|right; split; assumption].
  Qed.

  Definition wf (cl : clusters) : Prop := NoDup (keys cl).

  Lemma wf_merge a b cl : wf cl -> wf (merge a b cl).
  Proof.
    unfold wf, merge. intros ND. destruct (lookup b cl) as [vb|]; [|exact ND].
    rewrite keys_remove_key, keys_append_to. apply remove_first_nodup. exact ND.
  Qed.

  Lemma in_merge a b cl va vb k v : wf cl -> a <> b ->
    In (a, va) cl -> In (b, vb) cl ->
    (In (k, v) (merge a b cl) <->
     (k = a /\ v = va ++ vb) \/ (k <> a /\ k <> b /\ In (k, v) cl)).
  Proof.
    intros W Nab Ha Hb. unfold merge. rewrite (in_lookup b cl vb W Hb).
    rewrite in_remove_key by (unfold wf in W; rewrite keys_append_to; exact W).
    rewrite (in_append_to a vb cl k v W). split.
    - intros [Nk [[-> [v0 [H0 ->]]]|[Nka H]]].
      + left. split; [reflexivity|]. f_equal.
        pose proof (in_lookup a cl v0 W H0) as E1. pose proof (in_lookup a cl va W Ha) as E2. congruence.
      + right. tauto.
    - intros [[-> ->]|[Nka [Nkb H]]].
      + split; [exact Nab|]. left. split; [reflexivity|]. exists va. tauto.
      + split; [exact Nkb|]. right. tauto.
  Qed.

  Lemma length_merge a b cl vb : a <> b -> In a (keys cl) -> In (b, vb) cl -> wf cl ->
    S (length (merge a b cl)) = length cl.
  Proof.
    intros Nab Ha Hb W. unfold merge. rewrite (in_lookup b cl vb W Hb).
    rewrite length_remove_key; [apply length_append_to|].
    rewrite keys_append_to. eapply in_keys; eauto.
  Qed.

Section FlatProofs.
  Variable V : Type.
  Variable leb : V -> V -> bool.
  Variable link : list V -> V.
  Variable d : nat -> nat -> V.

  Hypothesis leb_total : forall a b, leb a b = true \/ leb b a = true.
  Hypothesis leb_trans : forall a b c, leb a b = true -> leb b c = true -> leb a c = true.

  Notation pair_scores := (pair_scores link d).
  Notation step := (step leb link d).
  Notation run := (run leb link d).
  Notation flat := (flat leb link d).
  Notation first_min := (first_min leb).

  (* ---------------------------------------------------------------- *)
  (* first_min *)

  Lemma first_min_none l : first_min l = None -> l = [].
  Proof.
    destruct l as [|x tl]; [reflexivity|]. cbn [Flat.first_min].
    destruct (first_min tl) as [y|]; [destruct (leb (snd x) (snd y))|]; discriminate.
  Qed.

  Lemma first_min_in l x : first_min l = Some x -> In x l.
  Proof.
    revert x; induction l as [|y tl IH]; intros x H; [discriminate|].
    cbn [Flat.first_min] in H. destruct (first_min tl) as [z|] eqn:E.
    - destruct (leb (snd y) (snd z)); inversion H; subst; [left; reflexivity|].
      right; apply IH; reflexivity.
    - inversion H; left; reflexivity.
  Qed.

  Lemma leb_refl a : leb a a = true.
  Proof. destruct (leb_total a a); assumption. Qed.

  Lemma first_min_le l x : first_min l = Some x ->
    forall y, In y l -> leb (snd x) (snd y) = true.
  Proof.
    revert x; induction l as [|z tl IH]; intros x H y Hy; [destruct Hy|].
    cbn [Flat.first_min] in H. destruct (first_min tl) as [w|] eqn:E.
    - destruct (leb (snd z) (snd w)) eqn:L.
      + assert (x = z) by congruence. subst x. destruct Hy as [Hy|Hy]; [subst y; apply leb_refl|].
        eapply leb_trans; [exact L|]. apply (IH w eq_refl y Hy).
      + assert (x = w) by congruence. subst x. destruct Hy as [Hy|Hy].
        * subst y. destruct (leb_total (snd w) (snd z)) as [T|T]; [exact T|]. rewrite T in L; discriminate.
        * apply (IH w eq_refl y Hy).
    - apply first_min_none in E; subst tl. assert (x = z) by congruence. subst x.
      destruct Hy as [Hy|[]]. subst y. apply leb_refl.
  Qed.

  (* ---------------------------------------------------------------- *)
  (* pair_scores *)

  Lemma in_pair_scores cl a b m :
    In ((a, b), m) (pair_scores cl) <->
    exists va vb, In (a, va) cl /\ In (b, vb) cl /\ a <> b /\ m = link (cross d va vb).
  Proof.
    unfold Flat.pair_scores. rewrite in_flat_map. split.
    - intros [[a' va] [Ha H]]. rewrite in_flat_map in H. destruct H as [[b' vb] [Hb H]].
      cbn [fst snd] in H. destruct (Nat.eqb_spec a' b') as [E|N]; [destruct H|].
      destruct H as [H|[]]. inversion H; subst. exists va, vb. tauto.
    - intros [va [vb [Ha [Hb [N ->]]]]]. exists (a, va). split; [exact Ha|].
      rewrite in_flat_map. exists (b, vb). split; [exact Hb|]. cbn [fst snd].
      destruct (Nat.eqb_spec a b) as [E|_]; [contradiction|]. left; reflexivity.
  Qed.

  (* ---------------------------------------------------------------- *)
  (* one step *)

  Lemma step_some thr cl cl' : step thr cl = Some cl' ->
    exists a b va vb, In (a, va) cl /\ In (b, vb) cl /\ a <> b /\
      first_min (pair_scores cl) = Some ((a, b), link (cross d va vb)) /\
      leb (link (cross d va vb)) thr = true /\ cl' = merge a b cl.
  Proof.
    unfold Flat.step. intros H.
    assert (H' : match first_min (pair_scores cl) with
                 | Some (a, b, m) => if leb m thr then Some (merge a b cl) else None
                 | None => None end = Some cl').
    { destruct cl as [|c [|c' tl]]; try exact H. discriminate. }
    clear H. destruct (first_min (pair_scores cl)) as [[[a b] m]|] eqn:E; [|discriminate].
    destruct (leb m thr) eqn:L; [|discriminate]. inversion H'; subst cl'.
    pose proof (first_min_in _ _ E) as I. rewrite in_pair_scores in I.
    destruct I as [va [vb [Ha [Hb [N ->]]]]]. exists a, b, va, vb. tauto.
  Qed.

  Lemma step_wf thr cl cl' : wf cl -> step thr cl = Some cl' -> wf cl'.
  Proof.
    intros W H. apply step_some in H. destruct H as [a [b [va [vb [_ [_ [_ [_ [_ ->]]]]]]]]].
    apply wf_merge; exact W.
  Qed.

  Lemma step_length thr cl cl' : wf cl -> step thr cl = Some cl' -> S (length cl') = length cl.
  Proof.
    intros W H. apply step_some in H. destruct H as [a [b [va [vb [Ha [Hb [N [_ [_ ->]]]]]]]]].
    eapply length_merge; eauto. eapply in_keys; eauto.
  Qed.

  (* the step does not look at the threshold to choose the pair *)
  Lemma step_threshold_free t1 t2 cl cl' :
    leb t1 t2 = true -> step t1 cl = Some cl' -> step t2 cl = Some cl'.
  Proof.
    intros L H. pose proof (step_some _ _ _ H) as [a [b [va [vb [_ [_ [_ [E [Lm ->]]]]]]]]].
    unfold Flat.step in *. destruct cl as [|c [|c' tl]]; try discriminate.
    rewrite E. rewrite (leb_trans _ _ _ Lm L). reflexivity.
  Qed.

  (* terminal states: nothing is mergeable *)
  Lemma step_none thr cl : step thr cl = None ->
    length cl <= 1 \/
    forall a b va vb, In (a, va) cl -> In (b, vb) cl -> a <> b ->
      leb (link (cross d va vb)) thr = false.
  Proof.
    intros H. destruct cl as [|c [|c' tl]]; [left; cbn; lia|left; cbn; lia|]. right.
    intros a b va vb Ha Hb N. unfold Flat.step in H.
    assert (I : In ((a, b), link (cross d va vb)) (pair_scores (c :: c' :: tl))).
    { rewrite in_pair_scores. exists va, vb. tauto. }
    destruct (first_min (pair_scores (c :: c' :: tl))) as [[[a0 b0] m]|] eqn:E.
    - destruct (leb m thr) eqn:L; [discriminate|].
      pose proof (first_min_le _ _ E _ I) as Lm. cbn [snd] in Lm.
      destruct (leb (link (cross d va vb)) thr) eqn:L2; [|reflexivity].
      rewrite (leb_trans _ _ _ Lm L2) in L. discriminate.
    - apply first_min_none in E. rewrite E in I. destruct I.
  Qed.

  (* ---------------------------------------------------------------- *)
  (* runs *)

  Lemma run_wf fuel thr cl : wf cl -> wf (run fuel thr cl).
  Proof.
    revert cl; induction fuel as [|f IH]; intros cl W; [exact W|]. cbn [Flat.run].
    destruct (step thr cl) as [cl'|] eqn:E; [|exact W]. apply IH. eapply step_wf; eauto.
  Qed.

  (* the fuel supplied by the top-level function is sufficient *)
  Lemma run_terminal fuel thr cl : wf cl -> length cl <= fuel -> step thr (run fuel thr cl) = None.
  Proof.
    revert cl; induction fuel as [|f IH]; intros cl W L.
    - destruct cl; [reflexivity|cbn in L; lia].
    - cbn [Flat.run]. destruct (step thr cl) as [cl'|] eqn:E; [|exact E].
      apply IH; [eapply step_wf; eauto|]. pose proof (step_length _ _ _ W E). lia.
  Qed.

  (* ---------------------------------------------------------------- *)
  (* items: every item stays in exactly one cluster *)

  Definition count (x : nat) (cl : clusters) : nat :=
    list_sum (map (fun c => count_occ Nat.eq_dec (snd c) x) cl).

  Lemma count_cons x c tl : count x (c :: tl) = count_occ Nat.eq_dec (snd c) x + count x tl.
  Proof. reflexivity. Qed.

  Lemma count_append_to x a e cl : In a (keys cl) ->
    count x (append_to a e cl) = count x cl + count_occ Nat.eq_dec e x.
  Proof.
    induction cl as [|[k v] tl IH]; cbn [keys map fst In]; [tauto|]. intros H.
    cbn [append_to]. destruct (Nat.eqb_spec a k) as [->|N].
    - rewrite !count_cons. cbn [snd]. rewrite count_occ_app. lia.
    - destruct H as [H|H]; [congruence|]. rewrite !count_cons. cbn [snd].
      rewrite (IH H). lia.
  Qed.

  Lemma count_remove_key x b cl vb : lookup b cl = Some vb ->
    count x (remove_key b cl) + count_occ Nat.eq_dec vb x = count x cl.
  Proof.
    induction cl as [|[k v] tl IH]; cbn [lookup]; [discriminate|].
    cbn [remove_key]. destruct (Nat.eqb_spec b k) as [->|N]; intros H.
    - inversion H; subst. rewrite count_cons. cbn [snd]. lia.
    - rewrite !count_cons. cbn [snd]. specialize (IH H). lia.
  Qed.

  Lemma lookup_append_to_other a b e cl : a <> b -> lookup b (append_to a e cl) = lookup b cl.
  Proof.
    intros N. induction cl as [|[k v] tl IH]; [reflexivity|]. cbn [append_to].
    destruct (Nat.eqb_spec a k) as [->|Na]; cbn [lookup].
    - destruct (Nat.eqb_spec b k); [congruence|reflexivity].
    - destruct (Nat.eqb b k); [reflexivity|exact IH].
  Qed.

  Lemma count_merge x a b cl : a <> b -> In a (keys cl) -> In b (keys cl) ->
    count x (merge a b cl) = count x cl.
  Proof.
    intros N Ha Hb. unfold merge. destruct (lookup b cl) as [vb|] eqn:E; [|reflexivity].
    pose proof (count_remove_key x b (append_to a vb cl) vb) as H.
    rewrite (lookup_append_to_other a b vb cl N) in H. specialize (H E).
    rewrite (count_append_to x a vb cl Ha) in H. lia.
  Qed.

  Lemma count_step x thr cl cl' : step thr cl = Some cl' -> count x cl' = count x cl.
  Proof.
    intros H. apply step_some in H. destruct H as [a [b [va [vb [Ha [Hb [N [_ [_ ->]]]]]]]]].
    apply count_merge; [exact N| |]; eapply in_keys; eauto.
  Qed.

  Lemma count_run x fuel thr cl : count x (run fuel thr cl) = count x cl.
  Proof.
    revert cl; induction fuel as [|f IH]; intros cl; [reflexivity|]. cbn [Flat.run].
    destruct (step thr cl) as [cl'|] eqn:E; [|reflexivity]. rewrite IH. eapply count_step; eauto.
  Qed.

  Lemma count_init x n : count x (init n) = if x <? n then 1 else 0.
  Proof.
    unfold init, count. rewrite map_map. cbn [snd].
    assert (G : forall s, list_sum (map (fun i => count_occ Nat.eq_dec [i] x) (seq s n)) =
                          if (s <=? x) && (x <? s + n) then 1 else 0).
    { induction n as [|n IH]; intros s; cbn [seq map list_sum fold_right].
      - destruct (Nat.leb_spec s x), (Nat.ltb_spec x (s + 0)); cbn; lia.
      - rewrite IH. cbn [count_occ]. destruct (Nat.eq_dec s x) as [->|N].
        + destruct (Nat.leb_spec (S x) x); [lia|]. cbn [andb].
          destruct (Nat.leb_spec x x); [|lia]. destruct (Nat.ltb_spec x (x + S n)); [|lia]. reflexivity.
        + destruct (Nat.leb_spec (S s) x), (Nat.ltb_spec x (S s + n)), (Nat.leb_spec s x),
            (Nat.ltb_spec x (s + S n)); cbn [andb]; lia. }
    rewrite G. cbn. destruct (Nat.ltb_spec x n), (Nat.ltb_spec x (0 + n)); try lia; reflexivity.
  Qed.

  Lemma wf_init n : wf (init n).
  Proof.
    unfold wf, keys, init. rewrite map_map. cbn [fst]. rewrite map_id. apply seq_NoDup.
  Qed.

  Lemma length_init n : length (init n) = n.
  Proof. unfold init. rewrite map_length, seq_length. reflexivity. Qed.

  (* C05, clause 1: every item 0..n-1 occurs in exactly one cluster, exactly once,
     and nothing else occurs *)
  Theorem flat_partition n thr x : count x (flat n thr) = if x <? n then 1 else 0.
  Proof. unfold Flat.flat. rewrite count_run. apply count_init. Qed.

  Theorem flat_keys_nodup n thr : NoDup (keys (flat n thr)).
  Proof. apply run_wf, wf_init. Qed.

  (* C05, clause 4: on return one cluster is left or no two clusters are within
     the threshold *)
  Theorem flat_terminal n thr :
    length (flat n thr) <= 1 \/
    forall a b va vb, In (a, va) (flat n thr) -> In (b, vb) (flat n thr) -> a <> b ->
      leb (link (cross d va vb)) thr = false.
  Proof.
    apply step_none. apply run_terminal; [apply wf_init|]. rewrite length_init. lia.
  Qed.

  (* ---------------------------------------------------------------- *)
  (* C10: refinement *)

  Definition refines (c1 c2 : clusters) : Prop :=
    forall k v, In (k, v) c1 -> exists k' v', In (k', v') c2 /\ incl v v'.

  Lemma refines_refl c : refines c c.
  Proof. intros k v H. exists k, v. split; [exact H|apply incl_refl]. Qed.

  Lemma refines_trans c1 c2 c3 : refines c1 c2 -> refines c2 c3 -> refines c1 c3.
  Proof.
    intros H1 H2 k v H. destruct (H1 k v H) as [k' [v' [I1 S1]]].
    destruct (H2 k' v' I1) as [k'' [v'' [I2 S2]]]. exists k'', v''. split; [exact I2|].
    eapply incl_tran; eauto.
  Qed.

  Lemma refines_step thr cl cl' : wf cl -> step thr cl = Some cl' -> refines cl cl'.
  Proof.
    intros W H. apply step_some in H. destruct H as [a [b [va [vb [Ha [Hb [N [_ [_ ->]]]]]]]]].
    intros k v Hk. destruct (Nat.eq_dec k a) as [->|Nka].
    - exists a, (va ++ vb). split; [rewrite (in_merge a b cl va vb) by assumption; left; tauto|].
      assert (v = va) as ->.
      { pose proof (in_lookup _ _ _ W Hk). pose proof (in_lookup _ _ _ W Ha). congruence. }
      apply incl_appl, incl_refl.
    - destruct (Nat.eq_dec k b) as [->|Nkb].
      + exists a, (va ++ vb). split; [rewrite (in_merge a b cl va vb) by assumption; left; tauto|].
        assert (v = vb) as ->.
        { pose proof (in_lookup _ _ _ W Hk). pose proof (in_lookup _ _ _ W Hb). congruence. }
        apply incl_appr, incl_refl.
      + exists k, v. split; [|apply incl_refl].
        rewrite (in_merge a b cl va vb) by assumption. right. tauto.
  Qed.

  Lemma refines_run fuel thr cl : wf cl -> refines cl (run fuel thr cl).
  Proof.
    revert cl; induction fuel as [|f IH]; intros cl W; [apply refines_refl|]. cbn [Flat.run].
    destruct (step thr cl) as [cl'|] eqn:E; [|apply refines_refl].
    eapply refines_trans; [eapply refines_step; eauto|]. apply IH. eapply step_wf; eauto.
  Qed.

  Lemma run_refines_mono fuel t1 t2 cl : wf cl -> leb t1 t2 = true ->
    refines (run fuel t1 cl) (run fuel t2 cl).
  Proof.
    intros W L. revert cl W; induction fuel as [|f IH]; intros cl W; [apply refines_refl|].
    cbn [Flat.run]. destruct (step t1 cl) as [cl'|] eqn:E.
    - rewrite (step_threshold_free _ _ _ _ L E). apply IH. eapply step_wf; eauto.
    - change (refines cl (run (S f) t2 cl)). apply refines_run. exact W.
  Qed.

  (* C10: every cluster obtained at t1 lies inside one cluster obtained at t2 >= t1 *)
  Theorem flat_refines n t1 t2 : leb t1 t2 = true -> refines (flat n t1) (flat n t2).
  Proof. intros L. apply run_refines_mono; [apply wf_init|exact L]. Qed.

End FlatProofs.
