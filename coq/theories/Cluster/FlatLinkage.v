(* Linkage-specific consequences for the flat clustering model:
   single linkage = connected components, complete linkage = bounded diameter. *)
From Coq Require Import List Arith Bool Lia Relations.
From LV Require Import Cluster.Flat Cluster.FlatProofs.
Import ListNotations.

Section Linkage.
  Variable V : Type.
  Variable leb : V -> V -> bool.
  Variable link : list V -> V.
  Variable d : nat -> nat -> V.

  Hypothesis leb_total : forall a b, leb a b = true \/ leb b a = true.
  Hypothesis leb_trans : forall a b c, leb a b = true -> leb b c = true -> leb a c = true.

  Notation step := (step leb link d).
  Notation run := (run leb link d).
  Notation flat := (flat leb link d).

  Lemma in_cross va vb s : In s (cross d va vb) <-> exists x y, In x va /\ In y vb /\ s = d x y.
  Proof.
    unfold cross. rewrite in_flat_map. split.
    - intros [x [Hx H]]. rewrite in_map_iff in H. destruct H as [y [E Hy]]. exists x, y. auto.
    - intros [x [y [Hx [Hy ->]]]]. exists x. split; [exact Hx|]. apply in_map. exact Hy.
  Qed.

  (* items of every cluster: non-empty, and below n *)
  Definition nonempty (cl : clusters) : Prop := forall k v, In (k, v) cl -> v <> [].

  Lemma nonempty_step thr cl cl' : wf cl -> nonempty cl -> step thr cl = Some cl' -> nonempty cl'.
  Proof.
    intros W NE H. apply (step_some V leb link d) in H.
    destruct H as [a [b [va [vb [Ha [Hb [N [_ [_ ->]]]]]]]]].
    intros k v Hk. rewrite (in_merge a b cl va vb) in Hk by assumption.
    destruct Hk as [[-> ->]|[_ [_ Hk]]].
    - intros E. apply app_eq_nil in E. destruct E as [E _]. exact (NE a va Ha E).
    - eapply NE; eauto.
  Qed.

  (* A generic induction principle over runs from the initial state. *)
  Lemma run_invariant (P : clusters -> Prop) thr :
    (forall cl cl', wf cl -> nonempty cl -> P cl -> step thr cl = Some cl' -> P cl') ->
    forall fuel cl, wf cl -> nonempty cl -> P cl -> P (run fuel thr cl).
  Proof.
    intros HS. induction fuel as [|f IH]; intros cl W NE HP; [exact HP|]. cbn [Flat.run].
    destruct (step thr cl) as [cl'|] eqn:E; [|exact HP].
    apply IH; [eapply step_wf; eauto|eapply nonempty_step; eauto|eapply HS; eauto].
  Qed.

  Lemma nonempty_init n : nonempty (init n).
  Proof.
    intros k v H. unfold init in H. rewrite in_map_iff in H. destruct H as [i [E _]].
    inversion E; subst. discriminate.
  Qed.

  Lemma nonempty_run fuel thr cl : wf cl -> nonempty cl -> nonempty (run fuel thr cl).
  Proof. intros W NE. apply (run_invariant nonempty thr); auto. intros; eapply nonempty_step; eauto. Qed.

  (* every item below n sits in some cluster of the result *)
  Lemma count_pos_in x cl : 0 < count x cl -> exists k v, In (k, v) cl /\ In x v.
  Proof.
    induction cl as [|[k v] tl IH]; [cbn; lia|]. rewrite count_cons. cbn [snd]. intros H.
    destruct (count_occ Nat.eq_dec v x) eqn:E.
    - destruct IH as [k' [v' [I1 I2]]]; [lia|]. exists k', v'. split; [right; exact I1|exact I2].
    - exists k, v. split; [left; reflexivity|]. apply (count_occ_In Nat.eq_dec). lia.
  Qed.

  Lemma in_count_pos x cl k v : In (k, v) cl -> In x v -> 0 < count x cl.
  Proof.
    induction cl as [|[k' v'] tl IH]; [intros []|]. rewrite count_cons. cbn [snd].
    intros [E|H] Hx.
    - inversion E; subst. apply (count_occ_In Nat.eq_dec) in Hx. lia.
    - specialize (IH H Hx). lia.
  Qed.

  (* if every item occurs once overall, two clusters sharing an item are the same entry *)
  Lemma count_two x cl k1 v1 k2 v2 : wf cl ->
    In (k1, v1) cl -> In (k2, v2) cl -> In x v1 -> In x v2 -> count x cl <= 1 -> k1 = k2 /\ v1 = v2.
  Proof.
    induction cl as [|[k v] tl IH]; [intros _ []|]. intros W H1 H2 X1 X2 C.
    rewrite count_cons in C. cbn [snd] in C.
    unfold wf in W. cbn [keys map fst] in W. inversion W as [|? ? NI W']; subst.
    destruct H1 as [E1|H1], H2 as [E2|H2].
    - inversion E1; inversion E2; subst. split; reflexivity.
    - inversion E1; subst. apply (count_occ_In Nat.eq_dec) in X1.
      pose proof (in_count_pos x tl k2 v2 H2 X2). lia.
    - inversion E2; subst. apply (count_occ_In Nat.eq_dec) in X2.
      pose proof (in_count_pos x tl k1 v1 H1 X1). lia.
    - apply IH; auto. lia.
  Qed.

  Definition together (cl : clusters) (x y : nat) : Prop :=
    exists k v, In (k, v) cl /\ In x v /\ In y v.

  (* ---------------------------------------------------------------- *)
  Section Single.
    Hypothesis link_min : forall l t, l <> [] ->
      (leb (link l) t = true <-> exists s, In s l /\ leb s t = true).

    Variable n : nat.
    Variable thr : V.

    (* the graph joining items at distance <= threshold (either orientation of
       the matrix entry, which coincide for a symmetric matrix) *)
    Definition edge (x y : nat) : Prop :=
      x < n /\ y < n /\ (leb (d x y) thr = true \/ leb (d y x) thr = true).
    Definition conn : nat -> nat -> Prop := clos_refl_sym_trans nat edge.

    Definition items_lt (cl : clusters) : Prop := forall k v x, In (k, v) cl -> In x v -> x < n.

    Definition sound (cl : clusters) : Prop :=
      items_lt cl /\ forall k v x y, In (k, v) cl -> In x v -> In y v -> conn x y.

    Lemma sound_step cl cl' : wf cl -> nonempty cl -> sound cl -> step thr cl = Some cl' -> sound cl'.
    Proof.
      intros W NE [IL S] H. apply (step_some V leb link d) in H.
      destruct H as [a [b [va [vb [Ha [Hb [N [_ [L ->]]]]]]]]].
      assert (NEc : cross d va vb <> []).
      { pose proof (NE a va Ha) as Na. pose proof (NE b vb Hb) as Nb.
        destruct va as [|x0 ta]; [congruence|]. destruct vb as [|y0 tb]; [congruence|].
        unfold cross. cbn. discriminate. }
      rewrite (link_min _ thr NEc) in L. destruct L as [s [Hs Ls]].
      rewrite in_cross in Hs. destruct Hs as [xa [yb [Hxa [Hyb ->]]]].
      assert (Hbridge : conn xa yb).
      { apply rst_step. unfold edge. split; [apply (IL a va xa Ha Hxa)|]. split; [apply (IL b vb yb Hb Hyb)|]. tauto. }
      split.
      - intros k v x Hk Hx. rewrite (in_merge a b cl va vb) in Hk by assumption.
        destruct Hk as [[-> ->]|[_ [_ Hk]]]; [|eapply IL; eauto].
        rewrite in_app_iff in Hx. destruct Hx as [Hx|Hx]; [apply (IL a va x Ha Hx)|apply (IL b vb x Hb Hx)].
      - intros k v x y Hk Hx Hy.
        rewrite (in_merge a b cl va vb) in Hk by assumption.
        destruct Hk as [[-> ->]|[_ [_ Hk]]]; [|eapply S; eauto].
        rewrite in_app_iff in Hx, Hy. destruct Hx as [Hx|Hx], Hy as [Hy|Hy].
        + apply (S a va x y Ha Hx Hy).
        + eapply rst_trans; [apply (S a va x xa Ha Hx Hxa)|]. eapply rst_trans; [exact Hbridge|].
          apply (S b vb yb y Hb Hyb Hy).
        + eapply rst_trans; [apply (S b vb x yb Hb Hx Hyb)|]. eapply rst_trans; [apply rst_sym, Hbridge|].
          apply (S a va xa y Ha Hxa Hy).
        + apply (S b vb x y Hb Hx Hy).
    Qed.

    Lemma sound_init : sound (init n).
    Proof.
      split.
      - intros k v x H Hx. unfold init in H. rewrite in_map_iff in H. destruct H as [i [E Hi]].
        inversion E; subst. destruct Hx as [<-|[]]. apply in_seq in Hi. lia.
      - intros k v x y H Hx Hy. unfold init in H. rewrite in_map_iff in H. destruct H as [i [E Hi]].
        inversion E; subst. destruct Hx as [<-|[]], Hy as [<-|[]]. apply rst_refl.
    Qed.

    Lemma sound_flat : sound (flat n thr).
    Proof.
      unfold Flat.flat. apply (run_invariant sound thr).
      - intros; eapply sound_step; eauto.
      - apply wf_init.
      - apply nonempty_init.
      - apply sound_init.
    Qed.

    (* at a terminal state an edge never leaves a cluster *)
    Lemma edge_together x y : edge x y -> together (flat n thr) x y.
    Proof.
      intros [Lx [Ly E]].
      pose proof (flat_partition V leb link d n thr x) as Cx.
      pose proof (flat_partition V leb link d n thr y) as Cy.
      destruct (Nat.ltb_spec x n); [|lia]. destruct (Nat.ltb_spec y n); [|lia].
      destruct (count_pos_in x (flat n thr)) as [kx [vx [Ikx Ivx]]]; [lia|].
      destruct (count_pos_in y (flat n thr)) as [ky [vy [Iky Ivy]]]; [lia|].
      destruct (Nat.eq_dec kx ky) as [->|Nk].
      - assert (vx = vy) as ->.
        { pose proof (flat_keys_nodup V leb link d n thr) as ND.
          pose proof (in_lookup _ _ _ ND Ikx). pose proof (in_lookup _ _ _ ND Iky). congruence. }
        exists ky, vy. tauto.
      - exfalso. destruct (flat_terminal V leb link d leb_total leb_trans n thr) as [T|T].
        + (* a single cluster: kx = ky *)
          destruct (flat n thr) as [|c [|c' tl]]; [destruct Ikx| |cbn in T; lia].
          destruct Ikx as [E1|[]], Iky as [E2|[]]. rewrite E1 in E2. inversion E2. congruence.
        + assert (NE : nonempty (flat n thr)).
          { unfold Flat.flat. apply nonempty_run; [apply wf_init|apply nonempty_init]. }
          destruct E as [E|E].
          * pose proof (T kx ky vx vy Ikx Iky Nk) as F.
            assert (NEc : cross d vx vy <> []).
            { intros Z. assert (I : In (d x y) (cross d vx vy)) by (rewrite in_cross; eauto). rewrite Z in I. destruct I. }
            assert (G : leb (link (cross d vx vy)) thr = true).
            { rewrite (link_min _ thr NEc). exists (d x y). split; [rewrite in_cross; eauto|exact E]. }
            congruence.
          * assert (Nk' : ky <> kx) by congruence.
            pose proof (T ky kx vy vx Iky Ikx Nk') as F.
            assert (NEc : cross d vy vx <> []).
            { intros Z. assert (I : In (d y x) (cross d vy vx)) by (rewrite in_cross; eauto). rewrite Z in I. destruct I. }
            assert (G : leb (link (cross d vy vx)) thr = true).
            { rewrite (link_min _ thr NEc). exists (d y x). split; [rewrite in_cross; eauto|exact E]. }
            congruence.
    Qed.

    Lemma together_trans x y z : together (flat n thr) x y -> together (flat n thr) y z ->
      together (flat n thr) x z.
    Proof.
      intros [k1 [v1 [I1 [X1 Y1]]]] [k2 [v2 [I2 [Y2 Z2]]]].
      pose proof (flat_partition V leb link d n thr y) as Cy.
      assert (Cy' : count y (flat n thr) <= 1) by (destruct (y <? n); lia).
      destruct (count_two y _ k1 v1 k2 v2 (flat_keys_nodup V leb link d n thr) I1 I2 Y1 Y2 Cy') as [-> ->].
      exists k2, v2. tauto.
    Qed.

    (* C05, single linkage: the clusters are exactly the connected components
       of the graph joining items at distance <= threshold *)
    Theorem single_components x y : x < n -> y < n ->
      (together (flat n thr) x y <-> conn x y).
    Proof.
      intros Lx Ly. split.
      - intros [k [v [I [Hx Hy]]]]. destruct sound_flat as [_ S]. eapply S; eauto.
      - intros C. revert Lx Ly. induction C as [x y E|x|x y C IH|x y z C1 IH1 C2 IH2]; intros Lx Ly.
        + apply edge_together. exact E.
        + pose proof (flat_partition V leb link d n thr x) as Cx.
          destruct (Nat.ltb_spec x n); [|lia].
          destruct (count_pos_in x (flat n thr)) as [k [v [I Hx]]]; [lia|]. exists k, v. tauto.
        + destruct (IH Ly Lx) as [k [v [I [H1 H2]]]]. exists k, v. tauto.
        + assert (Lyy : y < n).
          { (* conn keeps us below n *)
            clear IH1 IH2 C2 Ly.
            assert (G : forall a b, conn a b -> (a < n <-> b < n)).
            { intros a b Cab. induction Cab as [a b [Ha [Hb _]]|a|a b C IH|a b c Ca IHa Cb IHb]; tauto. }
            apply (G x y C1). exact Lx. }
          eapply together_trans; [apply IH1|apply IH2]; auto.
    Qed.
  End Single.

  (* ---------------------------------------------------------------- *)
  Section Complete.
    Hypothesis link_max : forall l t, leb (link l) t = true -> forall s, In s l -> leb s t = true.
    Hypothesis d_sym : forall x y, d x y = d y x.

    Variable n : nat.
    Variable thr : V.

    Definition diam_ok (cl : clusters) : Prop :=
      forall k v, In (k, v) cl ->
        forall x y, In x v -> In y v -> x <> y -> leb (d x y) thr = true.

    Lemma diam_step cl cl' : wf cl -> nonempty cl ->
      (diam_ok cl /\ forall x, count x cl <= 1) -> step thr cl = Some cl' ->
      (diam_ok cl' /\ forall x, count x cl' <= 1).
    Proof.
      intros W NE [D C] H. split; [|intros x; rewrite (count_step V leb link d x thr cl cl' H); apply C].
      apply (step_some V leb link d) in H.
      destruct H as [a [b [va [vb [Ha [Hb [N [_ [L ->]]]]]]]]].
      pose proof (link_max _ _ L) as M.
      intros k v Hk. rewrite (in_merge a b cl va vb) in Hk by assumption.
      destruct Hk as [[-> ->]|[_ [_ Hk]]]; [|apply (D k v Hk)].
      pose proof (D a va Ha) as Da. pose proof (D b vb Hb) as Db.
      intros x y Hx Hy Nxy. rewrite in_app_iff in Hx, Hy.
      destruct Hx as [Hx|Hx], Hy as [Hy|Hy].
      + apply Da; auto.
      + apply M. rewrite in_cross. eauto.
      + rewrite d_sym. apply M. rewrite in_cross. eauto.
      + apply Db; auto.
    Qed.

    (* C05, complete linkage: every within-cluster distance is <= threshold *)
    Theorem complete_diameter k v x y :
      In (k, v) (flat n thr) -> In x v -> In y v -> x <> y -> leb (d x y) thr = true.
    Proof.
      intros Hk. revert x y.
      assert (G : diam_ok (flat n thr) /\ forall x, count x (flat n thr) <= 1).
      { unfold Flat.flat.
        apply (run_invariant (fun cl => diam_ok cl /\ forall x, count x cl <= 1) thr).
        - intros; eapply diam_step; eauto.
        - apply wf_init.
        - apply nonempty_init.
        - split.
          + intros k0 v0 H. unfold init in H. rewrite in_map_iff in H. destruct H as [i [E _]].
            inversion E; subst.
            intros x y [<-|[]] [<-|[]] Nxy. congruence.
          + intros x. rewrite count_init. destruct (x <? n); lia. }
      destruct G as [D _]. exact (D k v Hk).
    Qed.
  End Complete.
End Linkage.
