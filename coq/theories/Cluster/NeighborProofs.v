(* Proofs about the Neighbor-Joining model: structure of the tree matrix for
   every matrix, and the leaves of the tree it defines. *)
From Coq Require Import QArith List Arith Bool Lia Permutation.
From LV Require Import Cluster.Nwk Cluster.NwkProofs Cluster.Upgma Cluster.UpgmaProofs Cluster.Neighbor.
Import ListNotations.
Local Open Scope nat_scope.

(* ------------------------------------------------------------------ *)
(* positions in lists *)
Lemma map_set_nth {A B} (f : A -> B) k v (l : list A) : map f (set_nth k v l) = set_nth k (f v) (map f l).
Proof.
  revert k. induction l as [|x tl IH]; intros k; [destruct k; reflexivity|].
  destruct k as [|k]; cbn [set_nth map]; [reflexivity|]. f_equal. apply IH.
Qed.

Lemma map_del_nth {A B} (f : A -> B) k (l : list A) : map f (del_nth k l) = del_nth k (map f l).
Proof.
  revert k. induction l as [|x tl IH]; intros k; [destruct k; reflexivity|].
  destruct k as [|k]; cbn [del_nth map]; [reflexivity|]. f_equal. apply IH.
Qed.

Lemma del_nth_perm {A} (dflt : A) k (l : list A) : k < length l ->
  Permutation l (nth k l dflt :: del_nth k l).
Proof.
  revert k. induction l as [|x tl IH]; intros k Hk; [cbn in Hk; lia|].
  destruct k as [|k]; cbn [nth del_nth]; [apply Permutation_refl|].
  cbn [length] in Hk. eapply perm_trans; [apply perm_skip; apply (IH k); lia|apply perm_swap].
Qed.

(* taking the elements at positions a < b out of a list *)
Lemma two_split {A} (dflt : A) (l : list A) : forall a b, a < b -> b < length l ->
  exists rest, Permutation l (nth a l dflt :: nth b l dflt :: rest) /\
               forall v, Permutation (del_nth b (set_nth a v l)) (v :: rest).
Proof.
  induction l as [|x tl IH]; intros a b Hab Hb; [cbn in Hb; lia|].
  cbn [length] in Hb. destruct b as [|b]; [lia|]. destruct a as [|a].
  - exists (del_nth b tl). cbn [nth set_nth del_nth]. split.
    + apply perm_skip. apply del_nth_perm. lia.
    + intros v. apply Permutation_refl.
  - destruct (IH a b ltac:(lia) ltac:(lia)) as (rest & P1 & P2).
    exists (x :: rest). cbn [nth set_nth del_nth]. split.
    + eapply perm_trans; [apply perm_skip; exact P1|].
      eapply perm_trans; [apply perm_swap|]. apply perm_skip. apply perm_swap.
    + intros v. eapply perm_trans; [apply perm_skip; exact (P2 v)|apply perm_swap].
Qed.

Lemma length_set_nth {A} k (v : A) l : length (set_nth k v l) = length l.
Proof.
  revert k. induction l as [|x tl IH]; intros k; [destruct k; reflexivity|].
  destruct k; cbn [set_nth length]; [reflexivity|]. f_equal. apply IH.
Qed.

(* ------------------------------------------------------------------ *)
(* the tracer *)
Lemma list_nat_eqb_spec l1 : forall l2, list_nat_eqb l1 l2 = true <-> l1 = l2.
Proof.
  induction l1 as [|x t1 IH]; intros [|y t2]; cbn; try (split; [discriminate|discriminate]).
  - split; reflexivity.
  - rewrite andb_true_iff, Nat.eqb_eq, IH. split; [intros [-> ->]; reflexivity|intros E; inversion E; auto].
Qed.

Lemma list_nat_eqb_refl l : list_nat_eqb l l = true.
Proof. apply list_nat_eqb_spec. reflexivity. Qed.

Lemma list_nat_eqb_neq l1 l2 : l1 <> l2 -> list_nat_eqb l1 l2 = false.
Proof.
  intros N. destruct (list_nat_eqb l1 l2) eqn:E; [apply list_nat_eqb_spec in E; congruence|reflexivity].
Qed.

Lemma tget_tset_same c v tr : tget c (tset c v tr) = v.
Proof.
  induction tr as [|[c' v'] tl IH]; cbn [tset tget].
  - rewrite list_nat_eqb_refl. reflexivity.
  - destruct (list_nat_eqb c c') eqn:E; cbn [tget]; [rewrite list_nat_eqb_refl; reflexivity|].
    rewrite E. exact IH.
Qed.

Lemma tget_tset_other c c' v tr : c' <> c -> tget c' (tset c v tr) = tget c' tr.
Proof.
  intros N. induction tr as [|[c2 v2] tl IH]; cbn [tset tget].
  - rewrite list_nat_eqb_neq by exact N. reflexivity.
  - destruct (list_nat_eqb c c2) eqn:E; cbn [tget].
    + apply list_nat_eqb_spec in E. subst c2. rewrite list_nat_eqb_neq by exact N. reflexivity.
    + destruct (list_nat_eqb c' c2); [reflexivity|exact IH].
Qed.

Lemma tget_le_tmax c tr : tget c tr <= tmax tr.
Proof.
  unfold tmax. induction tr as [|[c' v'] tl IH]; cbn [tget map snd list_max fold_right]; [lia|].
  change (fold_right Nat.max 0 (map snd tl)) with (list_max (map snd tl)).
  destruct (list_nat_eqb c c'); lia.
Qed.

Lemma tmax_tset c v tr : tmax tr < v -> tmax (tset c v tr) = v.
Proof.
  unfold tmax. induction tr as [|[c' v'] tl IH]; cbn [tset map snd list_max fold_right]; intros H; [lia|].
  change (fold_right Nat.max 0 (map snd tl)) with (list_max (map snd tl)) in *.
  destruct (list_nat_eqb c c'); cbn [map snd list_max fold_right];
    change (fold_right Nat.max 0 (map snd tl)) with (list_max (map snd tl));
    change (fold_right Nat.max 0 (map snd (tset c v tl))) with (list_max (map snd (tset c v tl))).
  - lia.
  - rewrite IH by lia. lia.
Qed.

(* ------------------------------------------------------------------ *)
(* selection *)
Lemma in_nj_scores m ncl i j q : In ((i, j), q) (nj_scores m ncl) -> i < j /\ j < ncl.
Proof.
  unfold nj_scores. rewrite in_flat_map. intros [i' [Hi H]]. rewrite in_flat_map in H.
  destruct H as [j' [Hj H]]. destruct (Nat.ltb i' j') eqn:E; [|destruct H].
  destruct H as [H|[]]. inversion H; subst. apply Nat.ltb_lt in E. apply in_seq in Hj. lia.
Qed.

Lemma nj_scores_nonempty m ncl : 2 <= ncl -> nj_scores m ncl <> [].
Proof.
  intros H E.
  assert (Hin : In ((0, 1), nj_q m 0 1) (nj_scores m ncl)).
  { unfold nj_scores. apply in_flat_map. exists 0. split; [apply in_seq; lia|].
    apply in_flat_map. exists 1. split; [apply in_seq; lia|]. cbn. left. reflexivity. }
  rewrite E in Hin. destruct Hin.
Qed.

Lemma nj_step_unfold st : 3 <= length (nj_cls st) ->
  nj_step st =
  match first_min (nj_scores (nj_m st) (length (nj_cls st))) with
  | None => None
  | Some ((a, b), _) =>
      let ca := nth a (nj_cls st) [] in
      let cb := nth b (nj_cls st) [] in
      Some ((tget ca (nj_tr st), tget cb (nj_tr st), nj_sax (nj_m st) a b, nj_sbx (nj_m st) a b),
            {| nj_cls := del_nth b (set_nth a (ca ++ cb) (nj_cls st));
               nj_m := nj_newmat (nj_m st) (length (nj_cls st)) a b;
               nj_tr := tset (ca ++ cb) (S (tmax (nj_tr st))) (nj_tr st) |})
  end.
Proof.
  intros H. unfold nj_step. destruct (nj_cls st) as [|c1 [|c2 [|c3 tl]]]; cbn [length] in H; try lia. reflexivity.
Qed.

Lemma nj_step_short st : length (nj_cls st) <= 2 -> nj_step st = None.
Proof.
  intros H. unfold nj_step. destruct (nj_cls st) as [|c1 [|c2 [|c3 tl]]]; cbn [length] in H; try lia; reflexivity.
Qed.

Lemma nj_step_spec st r st' : nj_step st = Some (r, st') ->
  3 <= length (nj_cls st) /\
  exists a b, a < b /\ b < length (nj_cls st) /\
    (exists q, first_min (nj_scores (nj_m st) (length (nj_cls st))) = Some ((a, b), q)) /\
    let ca := nth a (nj_cls st) [] in
    let cb := nth b (nj_cls st) [] in
    r = (tget ca (nj_tr st), tget cb (nj_tr st), nj_sax (nj_m st) a b, nj_sbx (nj_m st) a b) /\
    st' = {| nj_cls := del_nth b (set_nth a (ca ++ cb) (nj_cls st));
             nj_m := nj_newmat (nj_m st) (length (nj_cls st)) a b;
             nj_tr := tset (ca ++ cb) (S (tmax (nj_tr st))) (nj_tr st) |}.
Proof.
  intros H.
  assert (L : 3 <= length (nj_cls st)).
  { destruct (le_lt_dec 3 (length (nj_cls st))) as [L|L]; [exact L|].
    rewrite nj_step_short in H by lia. discriminate. }
  split; [exact L|]. rewrite nj_step_unfold in H by exact L.
  destruct (first_min (nj_scores (nj_m st) (length (nj_cls st)))) as [[[a b] q]|] eqn:E; [|discriminate].
  pose proof (in_nj_scores _ _ _ _ _ (first_min_in _ _ E)) as [Hab Hb].
  exists a, b. split; [exact Hab|]. split; [exact Hb|]. split; [exists q; reflexivity|].
  cbn zeta in H. inversion H. split; reflexivity.
Qed.

Lemma nj_step_none st : nj_step st = None -> length (nj_cls st) <= 2.
Proof.
  intros H. destruct (le_lt_dec 3 (length (nj_cls st))) as [L|L]; [|lia].
  rewrite nj_step_unfold in H by exact L.
  destruct (first_min (nj_scores (nj_m st) (length (nj_cls st)))) as [[[a b] q]|] eqn:E; [discriminate|].
  apply first_min_none in E. exfalso. assert (L2 : 2 <= length (nj_cls st)) by lia. exact (nj_scores_nonempty _ _ L2 E).
Qed.

Lemma nj_run_grun fuel : forall st, nj_run fuel st = grun njstate nj_step nj_last fuel st.
Proof.
  induction fuel as [|f IH]; intros st; [reflexivity|].
  cbn [nj_run grun]. destruct (nj_step st) as [[r st1]|]; [f_equal; apply IH|reflexivity].
Qed.

(* ------------------------------------------------------------------ *)
(* invariant *)
Definition ids (st : njstate) : list nat := map (fun c => tget c (nj_tr st)) (nj_cls st).
Definition flat (cls : list (list nat)) : list nat := flat_map (fun c => c) cls.

Definition njI (st : njstate) (next : nat) : Prop :=
  2 <= length (nj_cls st) /\
  NoDup (flat (nj_cls st)) /\
  (forall c, In c (nj_cls st) -> c <> []) /\
  NoDup (ids st) /\
  S (tmax (nj_tr st)) = next.

Lemma ids_lt st next : njI st next -> forall i, In i (ids st) -> i < next.
Proof.
  intros (_ & _ & _ & _ & Hn) i Hi. unfold ids in Hi. apply in_map_iff in Hi.
  destruct Hi as [c [<- _]]. pose proof (tget_le_tmax c (nj_tr st)). lia.
Qed.

Lemma app_self_l {A} (l1 l2 : list A) : l1 = l1 ++ l2 -> l2 = [].
Proof.
  intros E. apply (f_equal (@length A)) in E. rewrite app_length in E.
  destruct l2; [reflexivity|cbn [length] in E; lia].
Qed.

Lemma app_self_r {A} (l1 l2 : list A) : l2 = l1 ++ l2 -> l1 = [].
Proof.
  intros E. apply (f_equal (@length A)) in E. rewrite app_length in E.
  destruct l1; [reflexivity|cbn [length] in E; lia].
Qed.

(* what a step does to the clusters, the node numbers and the tracer *)
Lemma njI_step st next r st' : njI st next -> nj_step st = Some (r, st') ->
  exists a b rest R,
    a < b /\ b < length (nj_cls st) /\
    (exists q, first_min (nj_scores (nj_m st) (length (nj_cls st))) = Some ((a, b), q)) /\
    let ca := nth a (nj_cls st) [] in
    let cb := nth b (nj_cls st) [] in
    r = (tget ca (nj_tr st), tget cb (nj_tr st), nj_sax (nj_m st) a b, nj_sbx (nj_m st) a b) /\
    nj_cls st' = del_nth b (set_nth a (ca ++ cb) (nj_cls st)) /\
    nj_m st' = nj_newmat (nj_m st) (length (nj_cls st)) a b /\
    Permutation (nj_cls st) (ca :: cb :: rest) /\
    Permutation (nj_cls st') ((ca ++ cb) :: rest) /\
    tget (ca ++ cb) (nj_tr st') = next /\
    (forall c, In c (nj_cls st) -> tget c (nj_tr st') = tget c (nj_tr st)) /\
    tget ca (nj_tr st) <> tget cb (nj_tr st) /\
    Permutation (ids st) (tget ca (nj_tr st) :: tget cb (nj_tr st) :: R) /\
    Permutation (ids st') (next :: R) /\
    length (nj_cls st') + 1 = length (nj_cls st) /\
    (3 <= length (nj_cls st) -> njI st' (S next)).
Proof.
  intros (L2 & NDf & NE & NDi & Hn) H.
  destruct (nj_step_spec _ _ _ H) as (L3 & a & b & Hab & Hb & Hq & Hr & Hst).
  cbn zeta in Hr, Hst.
  set (ca := nth a (nj_cls st) []) in *. set (cb := nth b (nj_cls st) []) in *.
  destruct (two_split [] (nj_cls st) a b Hab Hb) as (rest & P1 & P2).
  fold ca cb in P1. specialize (P2 (ca ++ cb)).
  exists a, b, rest, (map (fun c => tget c (nj_tr st)) rest). cbn zeta. fold ca cb.
  assert (Ica : In ca (nj_cls st)) by (apply nth_In; lia).
  assert (Icb : In cb (nj_cls st)) by (apply nth_In; lia).
  assert (NDf' : NoDup (ca ++ cb ++ flat rest)).
  { eapply Permutation_NoDup; [|exact NDf]. unfold flat.
    eapply perm_trans; [apply Permutation_flat_map; exact P1|]. cbn [flat_map]. apply Permutation_refl. }
  assert (Hneq : forall c, In c (nj_cls st) -> c <> ca ++ cb).
  { intros c Hc E. apply (Permutation_in _ P1) in Hc. destruct Hc as [Hc|[Hc|Hc]].
    - rewrite <- Hc in E. apply app_self_l in E. exact (NE cb Icb E).
    - rewrite <- Hc in E. apply app_self_r in E. exact (NE ca Ica E).
    - destruct ca as [|x ta] eqn:Eca; [exact (NE _ Ica eq_refl)|].
      apply (NoDup_app_disj _ _ x NDf'); [left; reflexivity|].
      apply in_or_app. right. unfold flat. apply in_flat_map. exists c. split; [exact Hc|].
      rewrite E. left. reflexivity. }
  assert (Htr : nj_tr st' = tset (ca ++ cb) next (nj_tr st)) by (rewrite Hst, <- Hn; reflexivity).
  assert (Hcls : nj_cls st' = del_nth b (set_nth a (ca ++ cb) (nj_cls st))) by (rewrite Hst; reflexivity).
  assert (Hother : forall c, In c (nj_cls st) -> tget c (nj_tr st') = tget c (nj_tr st)).
  { intros c Hc. rewrite Htr. apply tget_tset_other. exact (Hneq c Hc). }
  assert (Hnew : tget (ca ++ cb) (nj_tr st') = next) by (rewrite Htr; apply tget_tset_same).
  assert (Hlen : length (nj_cls st') + 1 = length (nj_cls st)).
  { rewrite Hcls. rewrite (Permutation_length P2), (Permutation_length P1). cbn [length]. lia. }
  assert (Pids : Permutation (ids st) (tget ca (nj_tr st) :: tget cb (nj_tr st) :: map (fun c => tget c (nj_tr st)) rest)).
  { unfold ids. change (tget ca (nj_tr st) :: tget cb (nj_tr st) :: map (fun c => tget c (nj_tr st)) rest)
      with (map (fun c => tget c (nj_tr st)) (ca :: cb :: rest)). apply Permutation_map. exact P1. }
  assert (NDi' : NoDup (tget ca (nj_tr st) :: tget cb (nj_tr st) :: map (fun c => tget c (nj_tr st)) rest)).
  { eapply Permutation_NoDup; [exact Pids|exact NDi]. }
  assert (Pids' : Permutation (ids st') (next :: map (fun c => tget c (nj_tr st)) rest)).
  { unfold ids. rewrite Hcls.
    eapply perm_trans; [apply Permutation_map; exact P2|]. cbn [map]. rewrite Hnew. apply perm_skip.
    assert (E : map (fun c => tget c (nj_tr st')) rest = map (fun c => tget c (nj_tr st)) rest).
    { apply map_ext_in. intros c Hc. apply Hother. apply (Permutation_in _ (Permutation_sym P1)). right. right. exact Hc. }
    rewrite E. apply Permutation_refl. }
  split; [exact Hab|]. split; [exact Hb|]. split; [exact Hq|]. split; [exact Hr|].
  split; [exact Hcls|]. split; [rewrite Hst; reflexivity|]. split; [exact P1|].
  split; [rewrite Hcls; exact P2|]. split; [exact Hnew|]. split; [exact Hother|].
  split; [inversion NDi' as [|x l Hx _]; subst; intros E; apply Hx; left; symmetry; exact E|].
  split; [exact Pids|]. split; [exact Pids'|].
  split; [exact Hlen|].
  intros _. split; [lia|]. split; [|split; [|split]].
  - eapply Permutation_NoDup; [|exact NDf']. unfold flat. symmetry.
    eapply perm_trans; [apply Permutation_flat_map; rewrite Hcls; exact P2|].
    cbn [flat_map]. rewrite app_assoc. apply Permutation_refl.
  - intros c Hc. rewrite Hcls in Hc. apply (Permutation_in _ P2) in Hc. destruct Hc as [<-|Hc].
    + intros E. apply app_eq_nil in E. destruct E as [E _]. exact (NE ca Ica E).
    + apply NE. apply (Permutation_in _ (Permutation_sym P1)). right. right. exact Hc.
  - (* node numbers stay distinct *)
    eapply Permutation_NoDup; [symmetry; exact Pids'|]. constructor.
    + intros Hin. apply in_map_iff in Hin. destruct Hin as [c [E _]].
      pose proof (tget_le_tmax c (nj_tr st)). lia.
    + inversion NDi' as [|x l _ ND1]; subst. inversion ND1; subst. assumption.
  - rewrite Htr. rewrite tmax_tset by lia. reflexivity.
Qed.

(* ------------------------------------------------------------------ *)
(* structure: the rows are merges of live nodes *)
Lemma nj_merges fuel st next : njI st next -> merges (ids st) next (nj_run fuel st).
Proof.
  intros HI. rewrite nj_run_grun.
  apply (grun_merges njstate nj_step nj_last ids njI); [| |exact HI].
  - intros st0 next0 a0 b0 c e st' HI0 E.
    destruct (njI_step _ _ _ _ HI0 E) as (a & b & rest & R & Hab & Hb & _ & Hr & _ & _ & P1 & _ & _ & _ & Nab & Pi & Pi' & _ & HI').
    cbn zeta in Hr. inversion Hr; subst a0 b0. clear Hr.
    destruct (nj_step_spec _ _ _ E) as (L3 & _).
    assert (NDi : NoDup (ids st0)) by (destruct HI0 as (_ & _ & _ & K & _); exact K).
    assert (NDi' : NoDup (tget (nth a (nj_cls st0) []) (nj_tr st0) :: tget (nth b (nj_cls st0) []) (nj_tr st0) :: R)).
    { eapply Permutation_NoDup; [exact Pi|exact NDi]. }
    split; [apply (Permutation_in _ (Permutation_sym Pi)); left; reflexivity|].
    split; [apply (Permutation_in _ (Permutation_sym Pi)); right; left; reflexivity|].
    split; [exact Nab|]. split; [|exact (HI' L3)].
    intros x. split.
    + intros Hx. apply (Permutation_in _ Pi') in Hx. destruct Hx as [<-|Hx]; [left; reflexivity|right].
      split; [apply (Permutation_in _ (Permutation_sym Pi)); right; right; exact Hx|].
      inversion NDi' as [|y l Ha ND1]; subst. inversion ND1 as [|y l Hb' _]; subst.
      split; intros ->; [apply Ha; right; exact Hx|apply Hb'; exact Hx].
    + intros [->|(Hx & Na & Nb)]; apply (Permutation_in _ (Permutation_sym Pi')); [left; reflexivity|right].
      apply (Permutation_in _ Pi) in Hx. destruct Hx as [Hx|[Hx|Hx]]; [congruence|congruence|exact Hx].
  - intros st0 next0 HI0 E. apply nj_step_none in E. destruct HI0 as (L2 & _ & _ & NDi & _).
    unfold nj_last, ids in *. destruct (nj_cls st0) as [|c0 [|c1 [|c2 tl]]]; cbn [length] in *; try lia.
    cbn [map] in NDi. inversion NDi as [|y l H0 _]; subst.
    constructor; [left; reflexivity|right; left; reflexivity| |constructor].
    intros E0. apply H0. left. symmetry. exact E0.
Qed.

(* ------------------------------------------------------------------ *)
(* the tree the rows define: its leaves *)
Section NjNwk.
  Variable n : nat.

  Definition njP (st : njstate) (D : dict) (next : nat) : Prop :=
    njI st next /\
    (forall k, In k (map fst D) -> k < next) /\
    next + length (nj_cls st) = 2 * n /\
    Permutation (flat (nj_cls st)) (seq 0 n) /\
    forall c, In c (nj_cls st) -> exists t, dget (tget c (nj_tr st)) D = Some t /\ leaves t = c.

  Definition njQf (D : dict) (nf : nat) : Prop :=
    nf = 2 * n - 1 /\ exists t, dget (nf - 1) D = Some t /\ Permutation (leaves t) (seq 0 n).

  Lemma njP_step st D next r st' : njP st D next -> nj_step st = Some (r, st') ->
    length (nj_cls st') - 2 < length (nj_cls st) - 2 /\
    exists a b c e ta tb, r = (a, b, c, e) /\ dget a D = Some ta /\ dget b D = Some tb /\
      njP st' (D ++ [(next, Node ta c tb e)]) (S next).
  Proof.
    intros (HI & HD & Hlen & Hperm & Htrees) E.
    destruct (njI_step _ _ _ _ HI E) as (a & b & rest & R & Hab & Hb & _ & Hr & _ & _ & P1 & P2 & Hnew & Hother & _ & _ & _ & Hl & HI').
    destruct (nj_step_spec _ _ _ E) as (L3 & _). specialize (HI' L3).
    cbn zeta in Hr, P1, P2, Hnew.
    set (ca := nth a (nj_cls st) []) in *. set (cb := nth b (nj_cls st) []) in *.
    assert (Ica : In ca (nj_cls st)) by (apply nth_In; lia).
    assert (Icb : In cb (nj_cls st)) by (apply nth_In; lia).
    destruct (Htrees _ Ica) as (ta & Hta & Lta). destruct (Htrees _ Icb) as (tb & Htb & Ltb).
    split; [lia|].
    exists (tget ca (nj_tr st)), (tget cb (nj_tr st)), (nj_sax (nj_m st) a b), (nj_sbx (nj_m st) a b), ta, tb.
    split; [exact Hr|]. split; [exact Hta|]. split; [exact Htb|].
    split; [exact HI'|]. split; [|split; [|split]].
    - intros k. rewrite map_app, in_app_iff. cbn [map fst In]. intros [H|[H|[]]]; [apply HD in H; lia|lia].
    - lia.
    - eapply perm_trans; [|exact Hperm]. unfold flat.
      eapply perm_trans; [apply Permutation_flat_map; exact P2|].
      symmetry. eapply perm_trans; [apply Permutation_flat_map; exact P1|].
      cbn [flat_map]. rewrite app_assoc. apply Permutation_refl.
    - intros c Hc. apply (Permutation_in _ P2) in Hc. destruct Hc as [<-|Hc].
      + rewrite Hnew. exists (Node ta (nj_sax (nj_m st) a b) tb (nj_sbx (nj_m st) a b)).
        split; [apply dget_app_new; intros H; apply HD in H; lia|].
        cbn [leaves]. rewrite Lta, Ltb. reflexivity.
      + assert (Hc' : In c (nj_cls st)) by (apply (Permutation_in _ (Permutation_sym P1)); right; right; exact Hc).
        rewrite (Hother c Hc'). destruct (Htrees c Hc') as (t & Ht & Lt).
        exists t. split; [apply dget_app_some; exact Ht|exact Lt].
  Qed.

  Lemma njP_last st D next : njP st D next -> nj_step st = None ->
    exists D', nwk_run D next (nj_last st) = Some D' /\ njQf D' (next + length (nj_last st)).
  Proof.
    intros (HI & HD & Hlen & Hperm & Htrees) E. apply nj_step_none in E.
    destruct HI as (L2 & _). unfold nj_last.
    destruct (nj_cls st) as [|c0 [|c1 [|c2 tl]]] eqn:Ecls; cbn [length] in *; try lia.
    destruct (Htrees c0 (or_introl eq_refl)) as (t0 & Ht0 & L0).
    destruct (Htrees c1 (or_intror (or_introl eq_refl))) as (t1 & Ht1 & L1).
    cbn [nwk_run]. rewrite Ht0, Ht1. eexists. split; [reflexivity|].
    split; [lia|]. replace (next + 1 - 1) with next by lia.
    eexists. split; [apply dget_app_new; intros H; apply HD in H; lia|].
    cbn [leaves]. rewrite L0, L1. unfold flat in Hperm. cbn [flat_map] in Hperm.
    rewrite app_nil_r in Hperm. exact Hperm.
  Qed.
End NjNwk.

Lemma flat_singletons l : flat (map (fun i : nat => [i]) l) = l.
Proof. induction l as [|x tl IH]; [reflexivity|]. unfold flat in *. cbn [map flat_map app]. f_equal. exact IH. Qed.

Lemma tget_init l : NoDup l -> forall i, In i l -> tget [i] (map (fun i : nat => ([i], i)) l) = i.
Proof.
  induction l as [|x tl IH]; intros ND i Hi; [destruct Hi|].
  cbn [map tget]. destruct (list_nat_eqb [i] [x]) eqn:E.
  - apply list_nat_eqb_spec in E. inversion E. reflexivity.
  - inversion ND; subst. destruct Hi as [->|Hi]; [rewrite list_nat_eqb_refl in E; discriminate|].
    apply IH; assumption.
Qed.

Lemma ids_init m : ids (nj_init m) = seq 0 (length m).
Proof.
  unfold ids, nj_init. cbn [nj_cls nj_tr]. rewrite map_map.
  transitivity (map (fun i : nat => i) (seq 0 (length m))); [|apply map_id].
  apply map_ext_in. intros i Hi. apply tget_init; [apply seq_NoDup|exact Hi].
Qed.

Lemma tmax_init k : tmax (map (fun i : nat => ([i], i)) (seq 0 (S k))) = k.
Proof. unfold tmax. rewrite map_map. cbn [snd]. rewrite map_id. apply list_max_seq. Qed.

Lemma njI_init m : 2 <= length m -> njI (nj_init m) (length m).
Proof.
  intros L. unfold njI. split; [|split; [|split; [|split]]].
  - unfold nj_init. cbn [nj_cls]. rewrite map_length, seq_length. exact L.
  - unfold nj_init. cbn [nj_cls]. rewrite flat_singletons. apply seq_NoDup.
  - unfold nj_init. cbn [nj_cls]. intros c Hc. apply in_map_iff in Hc. destruct Hc as [i [<- _]]. discriminate.
  - rewrite ids_init. apply seq_NoDup.
  - unfold nj_init. cbn [nj_tr]. destruct (length m) as [|k]; [lia|]. rewrite tmax_init. reflexivity.
Qed.

Lemma njP_init m : 2 <= length m -> njP (length m) (nj_init m) (nwk_init (length m)) (length m).
Proof.
  intros L. split; [apply njI_init; exact L|]. split; [|split; [|split]].
  - intros k. rewrite keys_init, in_seq. lia.
  - unfold nj_init. cbn [nj_cls]. rewrite map_length, seq_length. lia.
  - unfold nj_init. cbn [nj_cls]. rewrite flat_singletons. apply Permutation_refl.
  - unfold nj_init. cbn [nj_cls nj_tr]. intros c Hc. apply in_map_iff in Hc. destruct Hc as [i [<- Hi]].
    rewrite tget_init by (try apply seq_NoDup; exact Hi). apply in_seq in Hi.
    exists (Leaf i). split; [apply dget_init; lia|reflexivity].
Qed.

Theorem nj_tree_leaves m : 1 <= length m ->
  length (nj_rows m) = length m - 1 /\
  exists t, nj_tree m = Some t /\ Permutation (leaves t) (seq 0 (length m)).
Proof.
  intros L1. destruct (Nat.eq_dec (length m) 1) as [E1|N1].
  - (* a single taxon: no rows, the tree is the leaf *)
    unfold nj_tree, nj_rows. rewrite E1. cbn [nj_run].
    assert (Es : nj_step (nj_init m) = None).
    { apply nj_step_short. unfold nj_init. cbn [nj_cls]. rewrite map_length, seq_length. lia. }
    rewrite Es. unfold nj_last, nj_init. cbn [nj_cls]. rewrite E1. cbn.
    split; [reflexivity|]. exists (Leaf 0). split; [reflexivity|apply Permutation_refl].
  - assert (L : 2 <= length m) by lia.
    unfold nj_tree, nj_rows. rewrite nj_run_grun.
    destruct (grun_nwk njstate nj_step nj_last (njP (length m)) (njQf (length m))
                (fun st => length (nj_cls st) - 2) (njP_step (length m)) (njP_last (length m))
                (length m) (nj_init m) (nwk_init (length m)) (length m) (njP_init m L))
      as (D' & HD' & Hnf & t & Ht & Hperm).
    { unfold nj_init. cbn [nj_cls]. rewrite map_length, seq_length. lia. }
    set (rows := grun njstate nj_step nj_last (length m) (nj_init m)) in *.
    split; [lia|]. exists t. unfold nwk. destruct (length m) as [|n'] eqn:En; [lia|].
    rewrite HD'. split; [exact Ht|exact Hperm].
Qed.

Theorem nj_valid_rows m : 1 <= length m -> valid_rows (length m) (nj_rows m).
Proof.
  intros L1. split; [exact (proj1 (nj_tree_leaves m L1))|].
  destruct (Nat.eq_dec (length m) 1) as [E1|N1].
  - unfold nj_rows. rewrite E1. cbn [nj_run].
    assert (Es : nj_step (nj_init m) = None).
    { apply nj_step_short. unfold nj_init. cbn [nj_cls]. rewrite map_length, seq_length. lia. }
    rewrite Es. unfold nj_last, nj_init. cbn [nj_cls]. rewrite E1. cbn. constructor.
  - unfold nj_rows. rewrite <- (ids_init m) at 1. apply nj_merges. apply njI_init. lia.
Qed.
