(* On an ultrametric matrix the path sums of the tree UPGMA returns reproduce
   the input distances (the clause the checker of bit 5 tests for UPGMA). *)
From Coq Require Import QArith List Arith Bool Lia Permutation Lqa.
From LV Require Import Cluster.Nwk Cluster.NwkProofs Cluster.Upgma Cluster.UpgmaProofs Cluster.UpgmaRecover
  Cluster.Neighbor Cluster.TreeBuildExec.
Import ListNotations.
Local Open Scope nat_scope.

Lemma ldepths_fst t : map fst (ldepths t) = leaves t.
Proof.
  induction t as [x|l IHl bl r IHr br]; [reflexivity|].
  cbn [ldepths leaves]. rewrite map_app, !map_map. cbn [fst].
  f_equal; [rewrite <- IHl|rewrite <- IHr]; apply map_ext; reflexivity.
Qed.

Lemma ldepths_in_leaves t p : In p (ldepths t) -> In (fst p) (leaves t).
Proof. intros H. rewrite <- ldepths_fst. apply in_map. exact H. Qed.

Lemma pairdists_in_leaves t e : In e (pairdists t) ->
  In (fst (fst e)) (leaves t) /\ In (snd (fst e)) (leaves t).
Proof.
  induction t as [x|l IHl bl r IHr br]; [intros []|].
  cbn [pairdists leaves]. intros H0. rewrite !in_app_iff, in_flat_map in H0. destruct H0 as [H|[H|[p [Hp H]]]].
  - destruct (IHl H). split; apply in_or_app; left; assumption.
  - destruct (IHr H). split; apply in_or_app; right; assumption.
  - apply in_map_iff in H. destruct H as [q [<- Hq]]. cbn [fst snd].
    split; apply in_or_app; [left|right]; apply ldepths_in_leaves; assumption.
Qed.

(* every leaf of a matching tree lies at half the generating height *)
Lemma tmatch_depth t s : tmatch t s -> forall p, In p (ldepths t) -> (snd p == uheight s / 2)%Q.
Proof.
  induction 1 as [x|l bl r br h ul ur Hl IHl Hr IHr Ebl Ebr|l bl r br h ul ur Hl IHl Hr IHr Ebl Ebr]; intros p Hp.
  - destruct Hp as [<-|[]]. cbn. reflexivity.
  - cbn [ldepths] in Hp. rewrite in_app_iff, !in_map_iff in Hp. cbn [uheight].
    destruct Hp as [[p0 [<- Hp0]]|[p0 [<- Hp0]]]; cbn [snd].
    + rewrite (IHl p0 Hp0), Ebl. ring.
    + rewrite (IHr p0 Hp0), Ebr. ring.
  - cbn [ldepths] in Hp. rewrite in_app_iff, !in_map_iff in Hp. cbn [uheight].
    destruct Hp as [[p0 [<- Hp0]]|[p0 [<- Hp0]]]; cbn [snd].
    + rewrite (IHl p0 Hp0), Ebl. ring.
    + rewrite (IHr p0 Hp0), Ebr. ring.
Qed.

Lemma lcah_sym_cross h l r x y : NoDup (uleaves l ++ uleaves r) ->
  In x (uleaves r) -> In y (uleaves l) -> lcah (UNode h l r) x y = h.
Proof. intros ND Hx Hy. apply lcah_cross; [exact ND|right; split; assumption]. Qed.

Theorem tmatch_pathsums t T : tmatch t T -> NoDup (uleaves T) ->
  forall e, In e (pairdists t) -> (snd e == lcah T (fst (fst e)) (snd (fst e)))%Q.
Proof.
  induction 1 as [x|l bl r br h ul ur Hl IHl Hr IHr Ebl Ebr|l bl r br h ul ur Hl IHl Hr IHr Ebl Ebr]; intros ND e He.
  - destruct He.
  - cbn [uleaves] in ND. cbn [pairdists] in He. rewrite !in_app_iff, in_flat_map in He.
    pose proof (tmatch_leaves _ _ Hl) as Pl. pose proof (tmatch_leaves _ _ Hr) as Pr.
    destruct He as [He|[He|[p [Hp He]]]].
    + destruct (pairdists_in_leaves _ _ He) as [X Y].
      rewrite lcah_left by (eapply Permutation_in; eauto). exact (IHl (NoDup_app_l _ _ ND) e He).
    + destruct (pairdists_in_leaves _ _ He) as [X Y].
      rewrite lcah_right by (try exact ND; eapply Permutation_in; eauto). exact (IHr (NoDup_app_r _ _ ND) e He).
    + apply in_map_iff in He. destruct He as [q [<- Hq]]. cbn [fst snd].
      rewrite lcah_cross; [|exact ND|left; split; (eapply Permutation_in; [eassumption|apply ldepths_in_leaves; assumption])].
      rewrite (tmatch_depth _ _ Hl p Hp), (tmatch_depth _ _ Hr q Hq), Ebl, Ebr. field.
  - cbn [uleaves] in ND. cbn [pairdists] in He. rewrite !in_app_iff, in_flat_map in He.
    pose proof (tmatch_leaves _ _ Hl) as Pl. pose proof (tmatch_leaves _ _ Hr) as Pr.
    destruct He as [He|[He|[p [Hp He]]]].
    + destruct (pairdists_in_leaves _ _ He) as [X Y].
      rewrite lcah_right by (try exact ND; eapply Permutation_in; eauto). exact (IHl (NoDup_app_r _ _ ND) e He).
    + destruct (pairdists_in_leaves _ _ He) as [X Y].
      rewrite lcah_left by (eapply Permutation_in; eauto). exact (IHr (NoDup_app_l _ _ ND) e He).
    + apply in_map_iff in He. destruct He as [q [<- Hq]]. cbn [fst snd].
      rewrite lcah_cross; [|exact ND|right; split; (eapply Permutation_in; [eassumption|apply ldepths_in_leaves; assumption])].
      rewrite (tmatch_depth _ _ Hl p Hp), (tmatch_depth _ _ Hr q Hq), Ebl, Ebr. field.
Qed.

Theorem upgma_recovers_pathsums T d n :
  NoDup (uleaves T) -> Permutation (uleaves T) (seq 0 n) -> mono T ->
  (forall x y, In x (uleaves T) -> In y (uleaves T) -> x <> y -> (d x y == lcah T x y)%Q) ->
  exists t, upgma_tree n d = Some t /\
    forall e, In e (pairdists t) -> fst (fst e) <> snd (fst e) ->
      (snd e == d (fst (fst e)) (snd (fst e)))%Q.
Proof.
  intros H1 H2 H3 H4. destruct (upgma_recovers_tree T d n H1 H2 H3 H4) as (t & Ht & Hm).
  exists t. split; [exact Ht|]. intros e He Ne.
  destruct (pairdists_in_leaves _ _ He) as [X Y].
  pose proof (tmatch_leaves _ _ Hm) as P.
  rewrite H4; [exact (tmatch_pathsums t T Hm H1 e He)| | |exact Ne]; eapply Permutation_in; eauto.
Qed.
