(* Bipartitions (splits) of a leaf-labelled tree, and their invariance under the
   moves that generate [tiso] (same unrooted topology). *)
From Coq Require Import QArith List Arith Bool Lia Permutation.
From LV Require Import Cluster.Nwk Cluster.NwkProofs Cluster.Upgma Cluster.Neighbor Cluster.TreeBuildExec
  Cluster.TreeBuildProofs Cluster.UpgmaClades Cluster.NeighborRecover Cluster.NjTree.
Import ListNotations.
Local Open Scope nat_scope.

(* the leaf sets below the edges of a tree *)
Fixpoint tbelow (t : tree) : list (list nat) :=
  match t with
  | Leaf _ => []
  | Node l _ r _ => (leaves l :: tbelow l) ++ (leaves r :: tbelow r)
  end.

Lemma nt_below_of_tree t : nt_below (nt_of_tree t) = tbelow t.
Proof.
  induction t as [x|l IHl bl r IHr br]; [reflexivity|].
  change (nt_below (nt_of_tree (Node l bl r br)))
    with (flat_map (fun p => nt_leaves (fst p) :: nt_below (fst p)) [(nt_of_tree l, bl); (nt_of_tree r, br)]).
  cbn [flat_map fst tbelow]. rewrite !nt_leaves_of_tree, IHl, IHr, app_nil_r. reflexivity.
Qed.

(* two subsets of [all] define the same bipartition *)
Definition bip_eq (all s1 s2 : list nat) : Prop :=
  (forall x, In x all -> (In x s1 <-> In x s2)) \/ (forall x, In x all -> (In x s1 <-> ~ In x s2)).

Lemma bip_refl all s : bip_eq all s s.
Proof. left. intros x _. tauto. Qed.

Lemma bip_sym all s1 s2 : bip_eq all s1 s2 -> bip_eq all s2 s1.
Proof.
  intros [H|H]; [left|right]; intros x Hx; specialize (H x Hx).
  - tauto.
  - destruct (in_dec Nat.eq_dec x s1); destruct (in_dec Nat.eq_dec x s2); tauto.
Qed.

Lemma bip_trans all s1 s2 s3 : bip_eq all s1 s2 -> bip_eq all s2 s3 -> bip_eq all s1 s3.
Proof.
  intros [H|H] [K|K]; [left|right|right|left]; intros x Hx; specialize (H x Hx); specialize (K x Hx);
    destruct (in_dec Nat.eq_dec x s1); destruct (in_dec Nat.eq_dec x s2); destruct (in_dec Nat.eq_dec x s3); tauto.
Qed.

Lemma bip_ext all all' s1 s2 : (forall x, In x all' -> In x all) -> bip_eq all s1 s2 -> bip_eq all' s1 s2.
Proof. intros E [H|H]; [left|right]; intros x Hx; apply H, E, Hx. Qed.

Lemma bip_same all s1 s2 : (forall x, In x s1 <-> In x s2) -> bip_eq all s1 s2.
Proof. intros H. left. intros x _. apply H. Qed.

Definition spl_sub (all : list nat) (f1 f2 : list (list nat)) : Prop :=
  forall c, In c f1 -> exists c', In c' f2 /\ bip_eq all c c'.

Definition spl_eq (all : list nat) (t t' : tree) : Prop :=
  spl_sub all (tbelow t) (tbelow t') /\ spl_sub all (tbelow t') (tbelow t).

Lemma spl_sub_refl all f : spl_sub all f f.
Proof. intros c Hc. exists c. split; [exact Hc|apply bip_refl]. Qed.

Lemma spl_sub_trans all f1 f2 f3 : spl_sub all f1 f2 -> spl_sub all f2 f3 -> spl_sub all f1 f3.
Proof.
  intros H K c Hc. destruct (H c Hc) as [c2 [H2 B2]]. destruct (K c2 H2) as [c3 [H3 B3]].
  exists c3. split; [exact H3|exact (bip_trans _ _ _ _ B2 B3)].
Qed.

Lemma spl_sub_ext all all' f1 f2 : (forall x, In x all' -> In x all) -> spl_sub all f1 f2 -> spl_sub all' f1 f2.
Proof.
  intros E H c Hc. destruct (H c Hc) as [c' [H' B]]. exists c'. split; [exact H'|exact (bip_ext _ _ _ _ E B)].
Qed.

Lemma leaves_shape t : leaves (shape t) = leaves t.
Proof. induction t as [z|l IHl bl r IHr br]; [reflexivity|]. cbn [shape leaves]. rewrite IHl, IHr. reflexivity. Qed.

Lemma tbelow_shape t : tbelow (shape t) = tbelow t.
Proof.
  induction t as [z|l IHl bl r IHr br]; [reflexivity|]. cbn [shape tbelow]. rewrite !leaves_shape, IHl, IHr. reflexivity.
Qed.

Lemma tiso_perm t t' : tiso t t' -> Permutation (leaves t) (leaves t').
Proof.
  induction 1 as [t|t t' Es|t t' _ IH|t1 t2 t3 _ IH1 _ IH2|l bl r br bl' br'|l bl r br|u ux c f d dl uy
                  |l1 c1 l2 c2 bl r br x1 x2 e|l1 c1 l2 c2 bl r br x1 x2 e]; cbn [leaves].
  - apply Permutation_refl.
  - rewrite <- (leaves_shape t), <- (leaves_shape t'), Es. apply Permutation_refl.
  - symmetry. exact IH.
  - eapply perm_trans; eassumption.
  - apply Permutation_refl.
  - apply Permutation_app_comm.
  - apply Permutation_app_head, Permutation_app_comm.
  - rewrite <- app_assoc. apply Permutation_refl.
  - rewrite <- app_assoc, !app_assoc. apply Permutation_app_tail, Permutation_app_comm.
Qed.

(* ------------------------------------------------------------------ *)
(* the families of the two sides of each generating move *)
Lemma bip_compl all s s' : NoDup (s ++ s') -> (forall x, In x all <-> In x (s ++ s')) -> bip_eq all s s'.
Proof.
  intros ND E. right. intros x Hx. apply E in Hx. apply in_app_or in Hx. split.
  - intros H1 H2. exact (NoDup_app_disj _ _ _ ND H1 H2).
  - intros H2. destruct Hx as [Hx|Hx]; tauto.
Qed.

Ltac inF := repeat (progress (cbn [In app]; rewrite ?in_app_iff)); tauto.

Ltac keep c := exists c; split; [inF|apply bip_refl].

Section Families.
  Variables (L1 L2 R : list nat) (B1 B2 Br : list (list nat)) (all : list nat).
  Hypothesis ND : NoDup (L1 ++ L2 ++ R).
  Hypothesis Eall : forall x, In x all <-> In x (L1 ++ L2 ++ R).

  Let F0 := ((L1 ++ L2) :: (L1 :: B1) ++ (L2 :: B2)) ++ (R :: Br).
  Let F1 := (L1 :: B1) ++ ((L2 ++ R) :: (L2 :: B2) ++ (R :: Br)).
  Let F2 := (L2 :: B2) ++ ((L1 ++ R) :: (L1 :: B1) ++ (R :: Br)).

  Lemma c12_R : bip_eq all (L1 ++ L2) R.
  Proof. apply bip_compl; [rewrite <- app_assoc; exact ND|intros x; rewrite <- app_assoc; apply Eall]. Qed.

  Lemma c2R_1 : bip_eq all (L2 ++ R) L1.
  Proof.
    apply bip_sym. apply bip_compl; [exact ND|exact Eall].
  Qed.

  Lemma c1R_2 : bip_eq all (L1 ++ R) L2.
  Proof.
    apply bip_compl.
    - eapply Permutation_NoDup; [|exact ND]. rewrite <- app_assoc.
      apply Permutation_app_head, Permutation_app_comm.
    - intros x. rewrite Eall, !in_app_iff. tauto.
  Qed.

  Ltac try_keep :=
    match goal with |- exists c', In c' _ /\ bip_eq _ ?X c' => exists X; split; [inF|apply bip_refl] end.
  Ltac cases Hc :=
    cbn [In app] in Hc; rewrite ?in_app_iff in Hc; cbn [In] in Hc; rewrite ?in_app_iff in Hc; cbn [In] in Hc;
    repeat match goal with H : _ \/ _ |- _ => destruct H as [H|H] end;
    try match goal with H : _ = ?c |- _ => subst c end.
  Ltac finish :=
    first [ try_keep
          | exists R; split; [inF|exact c12_R]
          | exists L1; split; [inF|exact c2R_1]
          | exists L2; split; [inF|exact c1R_2] ].

  Lemma fam_rot : spl_sub all F0 F1 /\ spl_sub all F1 F0.
  Proof. split; intros c Hc; unfold F0, F1 in *; cases Hc; finish. Qed.

  Lemma fam_rot2 : spl_sub all F0 F2 /\ spl_sub all F2 F0.
  Proof. split; intros c Hc; unfold F0, F2 in *; cases Hc; finish. Qed.
End Families.

Lemma spl_sub_incl all f1 f2 : (forall c, In c f1 -> In c f2) -> spl_sub all f1 f2.
Proof. intros H c Hc. exists c. split; [apply H; exact Hc|apply bip_refl]. Qed.

Lemma spl_eq_sym all t t' : spl_eq all t t' -> spl_eq all t' t.
Proof. intros [H K]. split; assumption. Qed.

Lemma spl_eq_trans all t1 t2 t3 : spl_eq all t1 t2 -> spl_eq all t2 t3 -> spl_eq all t1 t3.
Proof. intros [H1 K1] [H2 K2]. split; eapply spl_sub_trans; eassumption. Qed.

Lemma spl_eq_ext all all' t t' : (forall x, In x all' -> In x all) -> spl_eq all t t' -> spl_eq all' t t'.
Proof. intros E [H K]. split; eapply spl_sub_ext; eassumption. Qed.

(* trees with the same unrooted topology have the same splits *)
Theorem tiso_spl t t' : tiso t t' -> NoDup (leaves t) -> spl_eq (leaves t) t t'.
Proof.
  induction 1 as [t|t t' Es|t t' Hi IH|t1 t2 t3 Hi1 IH1 Hi2 IH2|l bl r br bl' br'|l bl r br|u ux c f d dl uy
                  |l1 c1 l2 c2 bl r br x1 x2 e|l1 c1 l2 c2 bl r br x1 x2 e]; intros ND.
  - split; apply spl_sub_refl.
  - unfold spl_eq. rewrite <- (tbelow_shape t), <- (tbelow_shape t'), Es. split; apply spl_sub_refl.
  - pose proof (tiso_perm _ _ Hi) as P.
    apply spl_eq_sym. apply (spl_eq_ext (leaves t)); [intros x Hx; exact (Permutation_in _ (Permutation_sym P) Hx)|].
    apply IH. exact (Permutation_NoDup (Permutation_sym P) ND).
  - pose proof (tiso_perm _ _ Hi1) as P.
    eapply spl_eq_trans; [exact (IH1 ND)|].
    apply (spl_eq_ext (leaves t2)); [intros x Hx; exact (Permutation_in _ P Hx)|].
    apply IH2. exact (Permutation_NoDup P ND).
  - split; apply spl_sub_refl.
  - split; apply spl_sub_incl; intros c0; cbn [tbelow]; rewrite !in_app_iff; tauto.
  - split; intros c0 Hc; cbn [tbelow leaves] in *;
      repeat (progress (cbn [In app] in Hc; rewrite ?in_app_iff in Hc));
      repeat match goal with H : _ \/ _ |- _ => destruct H as [H|H] end;
      try match goal with H : _ = ?z |- _ => subst z end;
      first [ match goal with |- exists c', In c' _ /\ bip_eq _ ?X c' => exists X; split; [inF|apply bip_refl] end
            | exists (leaves d ++ leaves c); split; [inF|apply bip_same; intros x; rewrite !in_app_iff; tauto]
            | exists (leaves c ++ leaves d); split; [inF|apply bip_same; intros x; rewrite !in_app_iff; tauto] ].
  - cbn [leaves] in ND. rewrite <- app_assoc in ND.
    apply (fam_rot (leaves l1) (leaves l2) (leaves r) (tbelow l1) (tbelow l2) (tbelow r) _ ND).
    intros x. cbn [leaves]. rewrite <- app_assoc. tauto.
  - cbn [leaves] in ND. rewrite <- app_assoc in ND.
    apply (fam_rot2 (leaves l1) (leaves l2) (leaves r) (tbelow l1) (tbelow l2) (tbelow r) _ ND).
    intros x. cbn [leaves]. rewrite <- app_assoc. tauto.
Qed.

(* ------------------------------------------------------------------ *)
(* the link with the checker splits_eqb *)
Lemma tbelow_sub t c : In c (tbelow t) -> incl c (leaves t).
Proof.
  induction t as [z|l IHl bl r IHr br]; [intros []|].
  cbn [tbelow leaves]. rewrite in_app_iff. cbn [In]. intros [[<-|H]|[<-|H]] x Hx; apply in_or_app.
  - left. exact Hx.
  - left. exact (IHl H x Hx).
  - right. exact Hx.
  - right. exact (IHr H x Hx).
Qed.

Lemma bip_same_split all s1 s2 : incl s1 all -> incl s2 all -> bip_eq all s1 s2 -> same_split all s1 s2.
Proof.
  intros I1 I2 [H|H]; [left|right]; intros x.
  - split; intros Hx; [apply (H x (I1 x Hx)); exact Hx|apply (H x (I2 x Hx)); exact Hx].
  - split.
    + intros Hx. split; [exact (I1 x Hx)|apply (H x (I1 x Hx)); exact Hx].
    + intros [Ha Hn]. apply (H x Ha). exact Hn.
Qed.

Theorem spl_eq_checker T t : Permutation (leaves T) (leaves t) -> spl_eq (leaves T) T t ->
  splits_eqb (nt_of_tree T) (nt_of_tree t) = true.
Proof.
  intros P [H K]. apply splits_eqb_spec. rewrite !nt_leaves_of_tree, !nt_below_of_tree.
  split; [apply perm_same_set; exact P|]. split.
  - intros c Hc. destruct (H c Hc) as [c' [Hc' B]]. exists c'. split; [exact Hc'|].
    apply bip_same_split; [exact (tbelow_sub T c Hc)| |exact B].
    intros x Hx. apply (Permutation_in _ (Permutation_sym P)). exact (tbelow_sub t c' Hc' x Hx).
  - intros c Hc. destruct (K c Hc) as [c' [Hc' B]]. exists c'. split; [exact Hc'|].
    apply bip_same_split; [|exact (tbelow_sub T c' Hc')|exact B].
    intros x Hx. apply (Permutation_in _ (Permutation_sym P)). exact (tbelow_sub t c Hc x Hx).
Qed.
