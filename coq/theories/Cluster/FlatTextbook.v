(* C05, last clause: the flat clusterers ARE the textbook agglomerative procedure: the run is a
   maximal sequence of steps "merge a pair of clusters of MINIMAL linkage, while that minimum is
   <= threshold" (the implementation's only freedom - which of several minimal pairs, and the
   orientation of the merge - is its first-minimum rule; on matrices without ties there is no
   other minimal pair to choose). *)
From Coq Require Import List Arith Bool Lia.
From LV Require Import Cluster.Flat Cluster.FlatProofs.
Import ListNotations.

Section Textbook.
  Variable V : Type.
  Variable leb : V -> V -> bool.
  Variable link : list V -> V.
  Variable d : nat -> nat -> V.
  Hypothesis leb_total : forall a b, leb a b = true \/ leb b a = true.
  Hypothesis leb_trans : forall a b c, leb a b = true -> leb b c = true -> leb a c = true.

  Notation clusters := (list (nat * list nat)).
  Notation L := (fun va vb => link (cross d va vb)).

  (* the relational specification of threshold-bounded agglomerative clustering *)
  Inductive tb_run (thr : V) : clusters -> clusters -> Prop :=
  | tb_stop cl :
      (length cl <= 1 \/
       forall a b va vb, In (a, va) cl -> In (b, vb) cl -> a <> b -> leb (L va vb) thr = false) ->
      tb_run thr cl cl
  | tb_merge cl a b va vb cl' :
      In (a, va) cl -> In (b, vb) cl -> a <> b ->
      (forall c e vc ve, In (c, vc) cl -> In (e, ve) cl -> c <> e -> leb (L va vb) (L vc ve) = true) ->
      leb (L va vb) thr = true ->
      tb_run thr (merge a b cl) cl' ->
      tb_run thr cl cl'.

  Lemma run_is_textbook thr : forall fuel cl, wf cl -> length cl <= fuel ->
    tb_run thr cl (run leb link d fuel thr cl).
  Proof.
    induction fuel as [|f IH]; intros cl W HL.
    - cbn [run]. apply tb_stop. left. lia.
    - cbn [run]. destruct (step leb link d thr cl) as [cl'|] eqn:E.
      + pose proof (step_some _ _ _ _ _ _ _ E) as [a [b [va [vb [Ha [Hb [N [FM [Lt ->]]]]]]]]].
        apply (tb_merge thr cl a b va vb); try assumption.
        * intros c e vc ve Hc He Nce.
          assert (I : In ((c, e), L vc ve) (pair_scores link d cl)) by (apply in_pair_scores; exists vc, ve; tauto).
          pose proof (first_min_le _ _ leb_total leb_trans _ _ FM _ I) as H. cbn [snd] in H. exact H.
        * apply IH.
          -- eapply step_wf; eassumption.
          -- pose proof (step_length _ _ _ _ _ _ _ W E). lia.
      + apply tb_stop. eapply step_none; eassumption.
  Qed.

  Theorem flat_is_textbook n thr : tb_run thr (init n) (flat leb link d n thr).
  Proof.
    unfold flat. apply run_is_textbook; [apply wf_init|]. rewrite length_init. lia.
  Qed.
End Textbook.
