(* Non-vacuity of the "no ties" hypothesis of C05's last clause, for a whole class of inputs: when the linkage of two
   clusters is ATTAINED by one of the cross distances (single linkage = min, complete linkage = max) and the
   distances between distinct items below n are pairwise distinct, no partition state of the items below n has a
   tie; hence on such matrices the implementation returns the partition of the textbook procedure. *)
From Coq Require Import List Arith Bool Lia Permutation.
From LV Require Import Cluster.Flat Cluster.FlatProofs Cluster.FlatLinkage Cluster.FlatTextbook Cluster.FlatUnique.
Import ListNotations.

Section Distinct.
  Variable V : Type.
  Variable leb : V -> V -> bool.
  Variable link : list V -> V.
  Variable d : nat -> nat -> V.
  Hypothesis link_attained : forall l, l <> [] -> In (link l) l.
  Variable n : nat.
  Hypothesis d_distinct : forall x y x' y', x < n -> y < n -> x' < n -> y' < n -> x <> y -> x' <> y' ->
    leb (d x y) (d x' y') = true -> leb (d x' y') (d x y) = true -> (x = x' /\ y = y') \/ (x = y' /\ y = x').

  Lemma cross_nonempty (va vb : list nat) : va <> [] -> vb <> [] -> cross d va vb <> [].
  Proof. destruct va as [|x va]; [congruence|]. destruct vb as [|y vb]; [congruence|]. intros _ _. cbn. discriminate. Qed.

  Theorem distinct_no_ties : no_ties V leb link d n.
  Proof.
    intros cl G I a b c e va vb vc ve Ha Hb Nab Hc He Nce L1 L2.
    pose proof G as [W [NE D]].
    destruct (NE a va Ha) as [NEa _]. destruct (NE b vb Hb) as [NEb _].
    destruct (NE c vc Hc) as [NEc _]. destruct (NE e ve He) as [NEe _].
    pose proof (link_attained _ (cross_nonempty va vb NEa NEb)) as A1.
    pose proof (link_attained _ (cross_nonempty vc ve NEc NEe)) as A2.
    apply (in_cross V d) in A1. destruct A1 as [x [y [Hx [Hy E1]]]].
    apply (in_cross V d) in A2. destruct A2 as [x' [y' [Hx' [Hy' E2]]]].
    rewrite E1, E2 in L1, L2.
    assert (Nxy : x <> y) by (intros ->; exact (D a va b vb Ha Hb Nab y Hx Hy)).
    assert (Nxy' : x' <> y') by (intros ->; exact (D c vc e ve Hc He Nce y' Hx' Hy')).
    destruct (d_distinct x y x' y' (I a va x Ha Hx) (I b vb y Hb Hy) (I c vc x' Hc Hx') (I e ve y' He Hy')
                Nxy Nxy' L1 L2) as [[-> ->]|[-> ->]].
    - left. destruct (good_unique_block cl a va c vc x' G Ha Hc Hx Hx') as [-> _].
      destruct (good_unique_block cl b vb e ve y' G Hb He Hy Hy') as [-> _]. auto.
    - right. destruct (good_unique_block cl a va e ve y' G Ha He Hx Hy') as [-> _].
      destruct (good_unique_block cl b vb c vc x' G Hb Hc Hy Hx') as [-> _]. auto.
  Qed.
End Distinct.
