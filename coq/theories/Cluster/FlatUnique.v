(* C05, last clause, second half: on a matrix WITHOUT TIES (any two different unordered pairs of
   disjoint blocks have different linkage) the relational textbook specification [tb_run] has a
   unique outcome up to the names of the clusters and the order of their members: every run of
   "merge a minimal pair while the minimum is <= threshold" ends in the same partition.  Together
   with [flat_is_textbook] (the implementation's run IS such a run) this is "the result coincides
   with the textbook agglomerative procedure".  Needs a linkage that does not depend on the
   order of the cross distances (min, max, average) and a symmetric matrix. *)
From Coq Require Import List Arith Bool Lia Permutation.
From LV Require Import Cluster.Flat Cluster.FlatProofs Cluster.FlatLinkage Cluster.FlatTextbook.
Import ListNotations.

Lemma flat_map_pointwise_perm {X Y} (f g : X -> list Y) (l : list X) :
  (forall a, Permutation (f a) (g a)) -> Permutation (flat_map f l) (flat_map g l).
Proof.
  intros H. induction l as [|a t IH]; cbn [flat_map]; [constructor|]. apply Permutation_app; [apply H|exact IH].
Qed.

Lemma flat_map_perm {X Y} (f : X -> list Y) (l l' : list X) :
  Permutation l l' -> Permutation (flat_map f l) (flat_map f l').
Proof.
  induction 1 as [|x l l' _ IH|x y l|l l' l'' _ IH1 _ IH2]; cbn [flat_map].
  - constructor.
  - apply Permutation_app_head. exact IH.
  - rewrite !app_assoc. apply Permutation_app_tail. apply Permutation_app_comm.
  - eapply Permutation_trans; eassumption.
Qed.

Lemma flat_map_cons_perm {X Y} (x : X -> Y) (f : X -> list Y) (l : list X) :
  Permutation (flat_map (fun b => x b :: f b) l) (map x l ++ flat_map f l).
Proof.
  induction l as [|b t IH]; cbn [flat_map map app]; [constructor|].
  apply perm_skip. eapply Permutation_trans; [apply Permutation_app_head; exact IH|].
  rewrite !app_assoc. apply Permutation_app_tail. apply Permutation_app_comm.
Qed.

Lemma NoDup_app_intro {X} (l1 l2 : list X) :
  NoDup l1 -> NoDup l2 -> (forall x, In x l1 -> In x l2 -> False) -> NoDup (l1 ++ l2).
Proof.
  induction l1 as [|a t IH]; intros N1 N2 H; cbn [app]; [exact N2|].
  inversion N1 as [|? ? Na Nt]; subst. constructor.
  - intros I. apply in_app_or in I. destruct I as [I|I]; [exact (Na I)|exact (H a (or_introl eq_refl) I)].
  - apply IH; [exact Nt|exact N2|]. intros x X1 X2. exact (H x (or_intror X1) X2).
Qed.

Section Unique.
  Variable V : Type.
  Variable leb : V -> V -> bool.
  Variable link : list V -> V.
  Variable d : nat -> nat -> V.
  Hypothesis leb_total : forall a b, leb a b = true \/ leb b a = true.
  Hypothesis leb_trans : forall a b c, leb a b = true -> leb b c = true -> leb a c = true.
  Hypothesis link_perm : forall l l', Permutation l l' -> link l = link l'.
  Hypothesis d_sym : forall x y, d x y = d y x.

  Notation clusters := (list (nat * list nat)).
  Notation L := (fun va vb => link (cross d va vb)).

  Lemma cross_perm va va' vb vb' : Permutation va va' -> Permutation vb vb' ->
    Permutation (cross d va vb) (cross d va' vb').
  Proof.
    intros Pa Pb. unfold cross. eapply Permutation_trans; [apply flat_map_perm; exact Pa|].
    apply flat_map_pointwise_perm. intros a. apply Permutation_map. exact Pb.
  Qed.

  Lemma cross_swap : forall va vb, Permutation (cross d va vb) (cross d vb va).
  Proof.
    induction va as [|a va IH]; intros vb.
    - unfold cross. cbn [flat_map]. induction vb as [|b vb IHb]; cbn [flat_map map app]; [constructor|exact IHb].
    - unfold cross in *. cbn [flat_map].
      eapply Permutation_trans; [apply Permutation_app_head; apply IH|].
      apply Permutation_sym.
      eapply Permutation_trans; [apply (flat_map_cons_perm (fun b => d b a) (fun b => map (fun a0 => d b a0) va) vb)|].
      apply Permutation_app_tail. rewrite (map_ext (fun b => d b a) (fun b => d a b)) by (intros; apply d_sym).
      apply Permutation_refl.
  Qed.

  Lemma L_perm va va' vb vb' : Permutation va va' -> Permutation vb vb' -> L va vb = L va' vb'.
  Proof. intros Pa Pb. apply link_perm. apply cross_perm; assumption. Qed.
  Lemma L_sym va vb : L va vb = L vb va.
  Proof. apply link_perm. apply cross_swap. Qed.

  (* ---------- partitions ---------- *)
  Definition good (cl : clusters) : Prop :=
    wf cl /\ (forall k v, In (k, v) cl -> v <> [] /\ NoDup v) /\
    (forall k1 v1 k2 v2, In (k1, v1) cl -> In (k2, v2) cl -> k1 <> k2 -> forall x, In x v1 -> ~ In x v2).
  Definition same_part (c1 c2 : clusters) : Prop := forall x y, together c1 x y <-> together c2 x y.

  Lemma good_unique_block cl k1 v1 k2 v2 x : good cl -> In (k1, v1) cl -> In (k2, v2) cl ->
    In x v1 -> In x v2 -> k1 = k2 /\ v1 = v2.
  Proof.
    intros [W [_ D]] H1 H2 X1 X2. destruct (Nat.eq_dec k1 k2) as [E|N].
    - subst. split; [reflexivity|].
      pose proof (in_lookup k2 cl v1 W H1). pose proof (in_lookup k2 cl v2 W H2). congruence.
    - exfalso. exact (D k1 v1 k2 v2 H1 H2 N x X1 X2).
  Qed.

  (* a block of one partition has a block with the same elements in an equivalent partition *)
  Lemma block_corr c1 c2 k v : good c1 -> good c2 -> same_part c1 c2 -> In (k, v) c1 ->
    exists k' v', In (k', v') c2 /\ Permutation v v'.
  Proof.
    intros G1 G2 S H. destruct G1 as [W1 [NE1 D1]]. destruct (NE1 k v H) as [Nv NDv].
    destruct v as [|x t] eqn:Ev; [congruence|]. rewrite <- Ev in *.
    assert (Xv : In x v) by (rewrite Ev; left; reflexivity).
    assert (T : together c1 x x) by (exists k, v; tauto).
    apply S in T. destruct T as [k' [v' [H' [X' _]]]].
    exists k', v'. split; [exact H'|].
    destruct G2 as [W2 [NE2 D2]]. destruct (NE2 k' v' H') as [_ NDv'].
    apply NoDup_Permutation; [exact NDv|exact NDv'|].
    intros y. split; intros Y.
    - assert (T : together c1 x y) by (exists k, v; tauto). apply S in T.
      destruct T as [k2 [v2 [H2 [X2 Y2]]]].
      destruct (good_unique_block c2 k' v' k2 v2 x (conj W2 (conj NE2 D2)) H' H2 X' X2) as [_ ->]. exact Y2.
    - assert (T : together c2 x y) by (exists k', v'; tauto). apply S in T.
      destruct T as [k2 [v2 [H2 [X2 Y2]]]].
      destruct (good_unique_block c1 k v k2 v2 x (conj W1 (conj NE1 D1)) H H2 Xv X2) as [_ ->]. exact Y2.
  Qed.

  (* merging keeps partitions good, and describes the new partition *)
  Lemma good_merge cl a b va vb : good cl -> In (a, va) cl -> In (b, vb) cl -> a <> b -> good (merge a b cl).
  Proof.
    intros [W [NE D]] Ha Hb Nab. split; [apply wf_merge; exact W|]. split.
    - intros k v H. apply (in_merge a b cl va vb k v W Nab Ha Hb) in H. destruct H as [[-> ->]|[_ [_ H]]]; [|apply NE with k; exact H].
      destruct (NE a va Ha) as [Na NDa]. destruct (NE b vb Hb) as [Nb NDb]. split.
      + destruct va; [congruence|discriminate].
      + apply NoDup_app_intro; try assumption. intros x Xa Xb. exact (D a va b vb Ha Hb Nab x Xa Xb).
    - intros k1 v1 k2 v2 H1 H2 N12 x X1 X2.
      apply (in_merge a b cl va vb k1 v1 W Nab Ha Hb) in H1. apply (in_merge a b cl va vb k2 v2 W Nab Ha Hb) in H2.
      destruct H1 as [[-> ->]|[N1a [N1b H1]]]; destruct H2 as [[-> ->]|[N2a [N2b H2]]].
      + congruence.
      + apply in_app_or in X1. destruct X1 as [X1|X1]; [exact (D a va k2 v2 Ha H2 ltac:(congruence) x X1 X2)|exact (D b vb k2 v2 Hb H2 ltac:(congruence) x X1 X2)].
      + apply in_app_or in X2. destruct X2 as [X2|X2]; [exact (D k1 v1 a va H1 Ha N1a x X1 X2)|exact (D k1 v1 b vb H1 Hb N1b x X1 X2)].
      + exact (D k1 v1 k2 v2 H1 H2 N12 x X1 X2).
  Qed.

  Lemma together_merge cl a b va vb x y : good cl -> In (a, va) cl -> In (b, vb) cl -> a <> b ->
    (together (merge a b cl) x y <->
     together cl x y \/ ((In x va \/ In x vb) /\ (In y va \/ In y vb))).
  Proof.
    intros G Ha Hb Nab. pose proof G as [W [NE D]]. unfold together. split.
    - intros [k [v [H [X Y]]]]. apply (in_merge a b cl va vb k v W Nab Ha Hb) in H.
      destruct H as [[-> ->]|[_ [_ H]]]; [|left; exists k, v; tauto].
      right. split; apply in_app_or; assumption.
    - intros [[k [v [H [X Y]]]]|[X Y]].
      + destruct (Nat.eq_dec k a) as [->|Nka].
        { assert (v = va) by (pose proof (in_lookup a cl v W H); pose proof (in_lookup a cl va W Ha); congruence). subst v.
          exists a, (va ++ vb). split; [apply (in_merge a b cl va vb a (va ++ vb) W Nab Ha Hb); left; tauto|].
          split; apply in_or_app; left; assumption. }
        destruct (Nat.eq_dec k b) as [->|Nkb].
        { assert (v = vb) by (pose proof (in_lookup b cl v W H); pose proof (in_lookup b cl vb W Hb); congruence). subst v.
          exists a, (va ++ vb). split; [apply (in_merge a b cl va vb a (va ++ vb) W Nab Ha Hb); left; tauto|].
          split; apply in_or_app; right; assumption. }
        exists k, v. split; [apply (in_merge a b cl va vb k v W Nab Ha Hb); right; tauto|tauto].
      + exists a, (va ++ vb). split; [apply (in_merge a b cl va vb a (va ++ vb) W Nab Ha Hb); left; tauto|].
        split; apply in_or_app; tauto.
  Qed.

  (* ---------- no ties ---------- *)
  (* in a state: two minimal-candidate pairs with equal linkage are the same unordered pair *)
  Definition tie_free (cl : clusters) : Prop :=
    forall a b c e va vb vc ve,
      In (a, va) cl -> In (b, vb) cl -> a <> b -> In (c, vc) cl -> In (e, ve) cl -> c <> e ->
      leb (L va vb) (L vc ve) = true -> leb (L vc ve) (L va vb) = true ->
      (a = c /\ b = e) \/ (a = e /\ b = c).

  (* the matrix has no ties: in every partition state OF THE ITEMS BELOW n (a state that mentions other items is
     not a state of the n x n matrix; without this bound the condition would be unsatisfiable for a matrix read
     with a default outside its range, and the theorem below vacuous) *)
  Definition items_lt (n : nat) (cl : clusters) : Prop := forall k v x, In (k, v) cl -> In x v -> x < n.
  Definition no_ties (n : nat) : Prop := forall cl, good cl -> items_lt n cl -> tie_free cl.

  Lemma items_lt_merge n cl a b va vb : good cl -> In (a, va) cl -> In (b, vb) cl -> a <> b ->
    items_lt n cl -> items_lt n (merge a b cl).
  Proof.
    intros [W _] Ha Hb Nab I k v x H X.
    apply (in_merge a b cl va vb k v W Nab Ha Hb) in H. destruct H as [[-> ->]|[_ [_ H]]].
    - apply in_app_or in X. destruct X as [X|X]; [exact (I a va x Ha X)|exact (I b vb x Hb X)].
    - exact (I k v x H X).
  Qed.

  Lemma same_part_sym c1 c2 : same_part c1 c2 -> same_part c2 c1.
  Proof. intros S x y. symmetry. apply S. Qed.

  Lemma corr_distinct c1 c2 a b va vb a' b' va' vb' : good c1 -> good c2 ->
    In (a, va) c1 -> In (b, vb) c1 -> a <> b ->
    In (a', va') c2 -> In (b', vb') c2 -> Permutation va va' -> Permutation vb vb' -> a' <> b'.
  Proof.
    intros G1 G2 Ha Hb Nab Ha' Hb' Pa Pb E. subst b'.
    destruct G2 as [W2 _].
    assert (va' = vb') by (pose proof (in_lookup a' c2 va' W2 Ha'); pose proof (in_lookup a' c2 vb' W2 Hb'); congruence).
    subst vb'. destruct G1 as [W1 [NE1 D1]]. destruct (NE1 a va Ha) as [Nva _].
    destruct va as [|x t]; [congruence|].
    assert (X1 : In x (x :: t)) by (left; reflexivity).
    assert (X2 : In x vb).
    { apply (Permutation_in x (Permutation_sym Pb)). apply (Permutation_in x Pa). exact X1. }
    exact (D1 a (x :: t) b vb Ha Hb Nab x X1 X2).
  Qed.

  (* a terminal state stays terminal in an equivalent partition *)
  Lemma terminal_transfer thr c1 c2 : good c1 -> good c2 -> same_part c1 c2 ->
    (length c1 <= 1 \/ forall a b va vb, In (a, va) c1 -> In (b, vb) c1 -> a <> b -> leb (L va vb) thr = false) ->
    forall c e vc ve, In (c, vc) c2 -> In (e, ve) c2 -> c <> e -> leb (L vc ve) thr = false.
  Proof.
    intros G1 G2 S T c e vc ve Hc He Nce.
    destruct (block_corr c2 c1 c vc G2 G1 (same_part_sym _ _ S) Hc) as [c' [vc' [Hc' Pc]]].
    destruct (block_corr c2 c1 e ve G2 G1 (same_part_sym _ _ S) He) as [e' [ve' [He' Pe]]].
    pose proof (corr_distinct c2 c1 c e vc ve c' e' vc' ve' G2 G1 Hc He Nce Hc' He' Pc Pe) as Nce'.
    rewrite (L_perm vc vc' ve ve' Pc Pe).
    destruct T as [T|T]; [|exact (T c' e' vc' ve' Hc' He' Nce')].
    exfalso. destruct c1 as [|p1 [|p2 t]]; [destruct Hc'| |cbn [length] in T; lia].
    destruct Hc' as [E1|[]]. destruct He' as [E2|[]]. assert (E3 : (c', vc') = (e', ve')) by congruence. inversion E3. congruence.
  Qed.

  (* THE THEOREM: without ties all runs of the textbook specification from equivalent
     partitions end in equivalent partitions *)
  Theorem tb_run_unique n thr : no_ties n -> forall c1 r1, tb_run V leb link d thr c1 r1 ->
    forall c2 r2, tb_run V leb link d thr c2 r2 -> good c1 -> good c2 -> items_lt n c1 -> items_lt n c2 ->
    same_part c1 c2 -> same_part r1 r2.
  Proof.
    intros NT c1 r1 R1. induction R1 as [c1 T1|c1 a b va vb r1 Ha Hb Nab Min1 Le1 R1 IH]; intros c2 r2 R2 G1 G2 I1 I2 S.
    - (* run 1 has stopped: run 2 cannot merge *)
      destruct R2 as [c2 T2|c2 c e vc ve r2 Hc He Nce Min2 Le2 R2]; [exact S|].
      exfalso. rewrite (terminal_transfer thr c1 c2 G1 G2 S T1 c e vc ve Hc He Nce) in Le2. discriminate.
    - destruct R2 as [c2 T2|c2 c e vc ve r2 Hc He Nce Min2 Le2 R2].
      + exfalso. rewrite (terminal_transfer thr c2 c1 G2 G1 (same_part_sym _ _ S) T2 a b va vb Ha Hb Nab) in Le1. discriminate.
      + (* both merge: the two minimal pairs are the same pair of blocks *)
        destruct (block_corr c1 c2 a va G1 G2 S Ha) as [a' [va' [Ha' Pa]]].
        destruct (block_corr c1 c2 b vb G1 G2 S Hb) as [b' [vb' [Hb' Pb]]].
        pose proof (corr_distinct c1 c2 a b va vb a' b' va' vb' G1 G2 Ha Hb Nab Ha' Hb' Pa Pb) as Nab'.
        destruct (block_corr c2 c1 c vc G2 G1 (same_part_sym _ _ S) Hc) as [c' [vc' [Hc' Pc]]].
        destruct (block_corr c2 c1 e ve G2 G1 (same_part_sym _ _ S) He) as [e' [ve' [He' Pe]]].
        pose proof (corr_distinct c2 c1 c e vc ve c' e' vc' ve' G2 G1 Hc He Nce Hc' He' Pc Pe) as Nce'.
        assert (E1 : leb (L va' vb') (L vc ve) = true).
        { rewrite <- (L_perm va va' vb vb' Pa Pb). rewrite (L_perm vc vc' ve ve' Pc Pe).
          exact (Min1 c' e' vc' ve' Hc' He' Nce'). }
        assert (E2 : leb (L vc ve) (L va' vb') = true) by exact (Min2 a' b' va' vb' Ha' Hb' Nab').
        assert (SAME : forall x, (In x va \/ In x vb) <-> (In x vc \/ In x ve)).
        { destruct (NT c2 G2 I2 a' b' c e va' vb' vc ve Ha' Hb' Nab' Hc He Nce E1 E2) as [[Ea Eb]|[Ea Eb]]; subst.
          - assert (va' = vc) by (destruct G2 as [W2 _]; pose proof (in_lookup c c2 va' W2 Ha'); pose proof (in_lookup c c2 vc W2 Hc); congruence).
            assert (vb' = ve) by (destruct G2 as [W2 _]; pose proof (in_lookup e c2 vb' W2 Hb'); pose proof (in_lookup e c2 ve W2 He); congruence).
            subst. intros x. split; intros [X|X].
            + left. exact (Permutation_in x Pa X).
            + right. exact (Permutation_in x Pb X).
            + left. exact (Permutation_in x (Permutation_sym Pa) X).
            + right. exact (Permutation_in x (Permutation_sym Pb) X).
          - assert (va' = ve) by (destruct G2 as [W2 _]; pose proof (in_lookup e c2 va' W2 Ha'); pose proof (in_lookup e c2 ve W2 He); congruence).
            assert (vb' = vc) by (destruct G2 as [W2 _]; pose proof (in_lookup c c2 vb' W2 Hb'); pose proof (in_lookup c c2 vc W2 Hc); congruence).
            subst. intros x. split; intros [X|X].
            + right. exact (Permutation_in x Pa X).
            + left. exact (Permutation_in x Pb X).
            + right. exact (Permutation_in x (Permutation_sym Pb) X).
            + left. exact (Permutation_in x (Permutation_sym Pa) X). }
        apply (IH (merge c e c2) r2 R2).
        * exact (good_merge c1 a b va vb G1 Ha Hb Nab).
        * exact (good_merge c2 c e vc ve G2 Hc He Nce).
        * exact (items_lt_merge n c1 a b va vb G1 Ha Hb Nab I1).
        * exact (items_lt_merge n c2 c e vc ve G2 Hc He Nce I2).
        * intros x y. rewrite (together_merge c1 a b va vb x y G1 Ha Hb Nab).
          rewrite (together_merge c2 c e vc ve x y G2 Hc He Nce).
          rewrite (S x y), (SAME x), (SAME y). tauto.
  Qed.

  Lemma good_init n : good (init n).
  Proof.
    split; [apply wf_init|]. unfold init. split.
    - intros k v H. apply in_map_iff in H. destruct H as [i [E _]]. inversion E; subst.
      split; [discriminate|]. constructor; [intros []|constructor].
    - intros k1 v1 k2 v2 H1 H2 N x X1 X2.
      apply in_map_iff in H1. destruct H1 as [i1 [E1 _]]. apply in_map_iff in H2. destruct H2 as [i2 [E2 _]].
      inversion E1; subst. inversion E2; subst. destruct X1 as [<-|[]]. destruct X2 as [E|[]]. congruence.
  Qed.

  (* the implementation's result IS the (unique) textbook result *)
  Lemma items_lt_init n : items_lt n (init n).
  Proof.
    intros k v x H X. unfold init in H. apply in_map_iff in H. destruct H as [i [E Hi]]. inversion E; subst.
    destruct X as [<-|[]]. apply in_seq in Hi. lia.
  Qed.

  Theorem flat_coincides_with_textbook n thr : no_ties n ->
    forall r, tb_run V leb link d thr (init n) r -> same_part r (flat leb link d n thr).
  Proof.
    intros NT r R.
    apply (tb_run_unique n thr NT (init n) r R (init n) (flat leb link d n thr)
             (flat_is_textbook V leb link d leb_total leb_trans n thr) (good_init n) (good_init n)
             (items_lt_init n) (items_lt_init n)).
    intros x y. tauto.
  Qed.
End Unique.
