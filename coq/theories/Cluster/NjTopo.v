(* Neighbor-Joining returns the generating unrooted topology: along the run the
   subtrees built so far, grafted onto the leaves of the current (collapsed)
   tree, form a tree with the topology of the generating tree. *)
From Coq Require Import QArith List Arith Bool Lia Permutation Lqa.
From LV Require Import Cluster.Nwk Cluster.NwkProofs Cluster.Upgma Cluster.UpgmaProofs Cluster.UpgmaRecover
  Cluster.Neighbor Cluster.NeighborProofs Cluster.TreeBuildExec Cluster.TreeBuildProofs Cluster.NeighborRecover
  Cluster.UpgmaClades Cluster.UpgmaPaths Cluster.NjTree Cluster.NjCherry Cluster.NjRun Cluster.NjSplits.
Import ListNotations.
Local Open Scope nat_scope.

(* replace every leaf x by the tree s x *)
Fixpoint graft (s : nat -> tree) (t : tree) : tree :=
  match t with
  | Leaf x => s x
  | Node l bl r br => Node (graft s l) bl (graft s r) br
  end.

Lemma graft_ext s s' t : (forall x, In x (leaves t) -> s x = s' x) -> graft s t = graft s' t.
Proof.
  induction t as [z|l IHl bl r IHr br]; intros H; [apply H; left; reflexivity|].
  cbn [graft]. cbn [leaves] in H. rewrite IHl, IHr; [reflexivity| |]; intros x Hx; apply H; apply in_or_app; [right|left]; exact Hx.
Qed.

Lemma graft_leaf t : graft Leaf t = t.
Proof. induction t as [z|l IHl bl r IHr br]; [reflexivity|]. cbn [graft]. rewrite IHl, IHr. reflexivity. Qed.

Lemma graft_relabel s g t : graft s (relabel g t) = graft (fun x => s (g x)) t.
Proof. induction t as [z|l IHl bl r IHr br]; [reflexivity|]. cbn [relabel graft]. rewrite IHl, IHr. reflexivity. Qed.

Lemma shape_graft s t : shape (graft s t) = graft (fun x => shape (s x)) (shape t).
Proof. induction t as [z|l IHl bl r IHr br]; [reflexivity|]. cbn [graft shape]. rewrite IHl, IHr. reflexivity. Qed.

Lemma graft_tiso s t t' : tiso t t' -> tiso (graft s t) (graft s t').
Proof.
  induction 1 as [t|t t' Es|t t' _ IH|t1 t2 t3 _ IH1 _ IH2|l bl r br bl' br'|l bl r br|u ux c f d dl uy
                  |l1 c1 l2 c2 bl r br x1 x2 e|l1 c1 l2 c2 bl r br x1 x2 e]; cbn [graft].
  - apply iso_refl.
  - apply iso_shape. rewrite !shape_graft, Es. reflexivity.
  - apply iso_sym. exact IH.
  - eapply iso_trans; eassumption.
  - apply iso_len.
  - apply iso_swap.
  - apply iso_swap_inner.
  - apply iso_rot.
  - apply iso_rot2.
Qed.

Section Topo.
  Variable T0 : tree.
  Variable n : nat.

  (* the subtree built for the cluster at position i *)
  Definition sub (st : njstate) (D : dict) (i : nat) : tree :=
    match dget (tget (nth i (nj_cls st) []) (nj_tr st)) D with Some t => t | None => Leaf 0 end.

  Definition topo (st : njstate) (D : dict) : Prop :=
    length (nj_cls st) = length (nj_m st) /\
    exists Tc, tm (nj_m st) Tc /\ tiso (graft (sub st D) Tc) T0.

  Definition tpP (st : njstate) (D : dict) (next : nat) : Prop := njP n st D next /\ topo st D.

  Definition tpQf (D : dict) (nf : nat) : Prop :=
    nf = 2 * n - 1 /\ exists t, dget (nf - 1) D = Some t /\ tiso t T0.

  Lemma tpP_step st D next r st' : tpP st D next -> nj_step st = Some (r, st') ->
    length (nj_cls st') - 2 < length (nj_cls st) - 2 /\
    exists a b c e ta tb, r = (a, b, c, e) /\ dget a D = Some ta /\ dget b D = Some tb /\
      tpP st' (D ++ [(next, Node ta c tb e)]) (S next).
  Proof.
    intros (HP & Hlen & Tc & HTc & Hiso) E.
    destruct (njP_step n st D next r st' HP E) as (Hmu & a0 & b0 & c & e & ta & tb & Hr0 & Hta & Htb & HP').
    split; [exact Hmu|]. exists a0, b0, c, e, ta, tb.
    split; [exact Hr0|]. split; [exact Hta|]. split; [exact Htb|]. split; [exact HP'|].
    destruct HP as (HI & HD & _ & _ & Htrees).
    destruct (njI_step _ _ _ _ HI E) as (a & b & rest & R & Hab & Hb & (q & Hq) & Hr & Hcls & Hm & P1 & P2 & Hnew & Hother & _ & _ & _ & Hl & _).
    destruct (nj_step_spec _ _ _ E) as (L3 & _).
    cbn zeta in Hr, Hcls, P1, P2, Hnew.
    set (ca := nth a (nj_cls st) []) in *. set (cb := nth b (nj_cls st) []) in *.
    rewrite Hr0 in Hr. inversion Hr; subst a0 b0 c e. clear Hr.
    set (M := nj_m st) in *. set (N := length (nj_cls st)) in *.
    set (D' := D ++ [(next, Node ta (nj_sax M a b) tb (nj_sbx M a b))]) in *.
    assert (Sa : sub st D a = ta) by (unfold sub; fold ca; rewrite Hta; reflexivity).
    assert (Sb : sub st D b = tb) by (unfold sub; fold cb; rewrite Htb; reflexivity).
    (* the subtrees of the new state *)
    assert (Hat : forall i, i < N - 1 ->
              sub st' D' i = if Nat.eqb i a then Node ta (nj_sax M a b) tb (nj_sbx M a b) else sub st D (nj_old b i)).
    { intros i Hi. unfold sub. rewrite Hcls. rewrite nth_del_nth, nth_set_nth by (fold N; lia).
      destruct (Nat.eqb (nj_old b i) a) eqn:Ei.
      - apply Nat.eqb_eq in Ei. apply nj_old_eq_a in Ei; [|exact Hab]. subst i. rewrite Nat.eqb_refl.
        fold ca cb. rewrite Hnew. unfold D'. rewrite dget_app_new by (intros H; apply HD in H; lia). reflexivity.
      - apply Nat.eqb_neq in Ei.
        assert (Ni : Nat.eqb i a = false).
        { apply Nat.eqb_neq. intros ->. apply Ei. apply nj_old_eq_a; [exact Hab|reflexivity]. }
        rewrite Ni.
        assert (Hin : In (nth (nj_old b i) (nj_cls st) []) (nj_cls st)).
        { apply nth_In. fold N. apply nj_old_lt; assumption. }
        rewrite (Hother _ Hin). destruct (Htrees _ Hin) as (t0 & Ht0 & _). unfold D'.
        rewrite (dget_app_some _ _ _ _ Ht0), Ht0. reflexivity. }
    (* the cherry of the current tree *)
    rewrite Hlen in L3, Hq. fold M in Hlen.
    assert (HlenN : N = length M) by exact Hlen.
    destruct (step_cherry_form_iso M Tc a b q HTc L3 Hq) as (_ & _ & x & y & eb & Z & ez & HT2 & I2).
    pose proof (reduce_tm M a b x y eb ez Z HT2 L3 Hab ltac:(lia)) as HT'.
    split.
    - rewrite Hm. fold M N. rewrite length_newmat. lia.
    - exists (relabel (nj_new b) (Node (Leaf a) (ez / 2) Z (ez / 2))).
      split; [rewrite Hm; fold M N; rewrite HlenN; exact HT'|].
      rewrite graft_relabel. cbn [graft].
      assert (Ea : nj_new b a = a) by (unfold nj_new; destruct (Nat.ltb_spec a b); lia).
      rewrite Ea, (Hat a ltac:(lia)), Nat.eqb_refl.
      assert (EZ : graft (fun k => sub st' D' (nj_new b k)) Z = graft (sub st D) Z).
      { apply graft_ext. intros k Hk.
        destruct (cf_Z_lt M a b x y eb ez Z HT2 k Hk) as (Lk & Nka & Nkb). rewrite <- HlenN in Lk.
        assert (Li : nj_new b k < N - 1) by (apply nj_new_lt; lia).
        rewrite (Hat _ Li).
        assert (Ni : Nat.eqb (nj_new b k) a = false).
        { apply Nat.eqb_neq. intros K. apply Nka. apply (nj_new_inj b k a Nkb ltac:(lia)). rewrite Ea. exact K. }
        rewrite Ni, (nj_old_new b k Nkb). reflexivity. }
      rewrite EZ.
      eapply iso_trans; [apply (iso_rot ta (nj_sax M a b) tb (nj_sbx M a b) (ez / 2) (graft (sub st D) Z) (ez / 2) x y ez)|].
      eapply iso_trans; [|exact Hiso].
      eapply iso_trans; [|apply graft_tiso; apply iso_sym; exact I2].
      cbn [graft]. rewrite Sa, Sb. apply iso_shape. reflexivity.
  Qed.

  Lemma tpP_last st D next : tpP st D next -> nj_step st = None ->
    exists D', nwk_run D next (nj_last st) = Some D' /\ tpQf D' (next + length (nj_last st)).
  Proof.
    intros (HP & Hlen & Tc & HTc & Hiso) E.
    destruct HP as (HI & HD & Hl & Hperm & Htrees). apply nj_step_none in E.
    destruct HI as (L2 & _). unfold nj_last. unfold sub in Hiso.
    remember (nj_cls st) as cls eqn:Ecls.
    destruct cls as [|c0 [|c1 [|c2 tl]]]; cbn [length] in *; try lia.
    destruct (Htrees c0 (or_introl eq_refl)) as (t0 & Ht0 & L0).
    destruct (Htrees c1 (or_intror (or_introl eq_refl))) as (t1 & Ht1 & L1).
    cbn [nwk_run]. rewrite Ht0, Ht1. eexists. split; [reflexivity|].
    split; [lia|]. replace (next + 1 - 1) with next by lia.
    eexists. split; [apply dget_app_new; intros H; apply HD in H; lia|].
    eapply iso_trans; [|exact Hiso].
    (* the current tree has the two leaves 0 and 1 *)
    destruct HTc as (_ & _ & _ & P & _). rewrite <- Hlen in P. cbn [seq] in P.
    pose proof (Permutation_length P) as LP. cbn [length] in LP.
    destruct Tc as [z|l bl r br]; [cbn in LP; lia|].
    cbn [leaves] in LP, P. rewrite app_length in LP.
    pose proof (leaves_nonempty l). pose proof (leaves_nonempty r).
    destruct (single_leaf l ltac:(lia)) as [u ->]. destruct (single_leaf r ltac:(lia)) as [v ->].
    cbn [leaves app] in P. cbn [graft nth].
    assert (Huv : (u = 0 /\ v = 1) \/ (u = 1 /\ v = 0)).
    { pose proof (Permutation_in _ P (or_introl eq_refl)) as Ku.
      pose proof (Permutation_in _ P (or_intror (or_introl eq_refl))) as Kv.
      pose proof (Permutation_NoDup (Permutation_sym P) (seq_NoDup 2 0)) as NDuv.
      inversion NDuv as [|w ws Nw _]; subst. cbn [In] in Ku, Kv, Nw. lia. }
    destruct Huv as [[-> ->]|[-> ->]]; cbn [nth]; rewrite Ht0, Ht1.
    - apply iso_len.
    - eapply iso_trans; [apply iso_swap|apply iso_len].
  Qed.
End Topo.

Lemma sub_init m x : x < length m -> sub (nj_init m) (nwk_init (length m)) x = Leaf x.
Proof.
  intros Hx. unfold sub, nj_init. cbn [nj_cls nj_tr].
  rewrite (nth_map_seq (fun i => [i]) [] (length m) 0 x Hx). cbn [Nat.add].
  rewrite tget_init by (try apply seq_NoDup; apply in_seq; lia).
  rewrite dget_init by exact Hx. reflexivity.
Qed.

Lemma topo_init m T0 : tm m T0 -> topo T0 (nj_init m) (nwk_init (length m)).
Proof.
  intros HT. split.
  - unfold nj_init. cbn [nj_cls nj_m]. rewrite map_length, seq_length. reflexivity.
  - exists T0. split; [exact HT|].
    assert (E : graft (sub (nj_init m) (nwk_init (length m))) T0 = graft Leaf T0).
    { apply graft_ext. intros x Hx. apply sub_init.
      destruct HT as (_ & _ & _ & P & _). apply (Permutation_in _ P) in Hx. apply in_seq in Hx. lia. }
    change (nj_m (nj_init m)) with m. rewrite E, graft_leaf. apply iso_refl.
Qed.

(* Neighbor-Joining returns a tree with the unrooted topology of the generating tree *)
Theorem nj_recovers_topology m T0 : tm m T0 -> 2 <= length m ->
  exists t, nj_tree m = Some t /\ tiso t T0.
Proof.
  intros HT L.
  unfold nj_tree, nj_rows. rewrite nj_run_grun.
  assert (EN : length (nj_cls (nj_init m)) = length m).
  { unfold nj_init. cbn [nj_cls]. rewrite map_length, seq_length. reflexivity. }
  destruct (grun_nwk njstate nj_step nj_last (tpP T0 (length m)) (tpQf T0 (length m))
              (fun st => length (nj_cls st) - 2) (tpP_step T0 (length m)) (tpP_last T0 (length m))
              (length m) (nj_init m) (nwk_init (length m)) (length m))
    as (D' & HD' & Hnf & t & Ht & Hiso).
  { split; [apply njP_init; exact L|apply topo_init; exact HT]. }
  { rewrite EN. lia. }
  set (rows := grun njstate nj_step nj_last (length m) (nj_init m)) in *.
  exists t. unfold nwk. destruct (length m) as [|n'] eqn:En; [lia|].
  rewrite HD'. split; [exact Ht|exact Hiso].
Qed.

(* in the vocabulary of the checker: the returned tree has exactly the splits of T0 *)
Theorem nj_recovers_splits m T0 : tm m T0 -> 2 <= length m ->
  exists t, nj_tree m = Some t /\ splits_eqb (nt_of_tree T0) (nt_of_tree t) = true.
Proof.
  intros HT L. destruct (nj_recovers_topology m T0 HT L) as (t & Ht & Hiso).
  exists t. split; [exact Ht|].
  apply iso_sym in Hiso. apply spl_eq_checker; [exact (tiso_perm _ _ Hiso)|].
  apply tiso_spl; [exact Hiso|exact (tm_nodup m T0 HT)].
Qed.

(* m is the leaf-to-leaf path metric of the tree T (positive branch lengths, taxa 0..n-1) *)
Definition tree_metric_of (m : mat) (T : tree) : Prop :=
  2 <= length m /\ msquare m (length m) /\ msym m (length m) /\ mdiag0 m (length m) /\
  Permutation (leaves T) (seq 0 (length m)) /\ positive T /\
  forall e, In e (pairdists T) -> (snd e == dm m (fst (fst e)) (snd (fst e)))%Q.

Lemma tree_metric_of_metric m T : tree_metric_of m T -> tree_metric m.
Proof. intros (L & Sq & Sy & Dg & P & Pos & HD). repeat split; try assumption; try (destruct Sq; assumption). exists T. repeat split; assumption. Qed.

Lemma tree_metric_of_tm m T : tree_metric_of m T -> tm m T.
Proof.
  intros (L & Sq & Sy & Dg & P & Pos & HD).
  assert (ND : NoDup (leaves T)) by exact (Permutation_NoDup (Permutation_sym P) (seq_NoDup _ 0)).
  split; [exact Sq|]. split; [exact Sy|]. split; [exact Dg|]. split; [exact P|]. split; [exact Pos|].
  intros x y Hx Hy N.
  assert (Lx : x < length m) by (apply (Permutation_in _ P) in Hx; apply in_seq in Hx; lia).
  assert (Ly : y < length m) by (apply (Permutation_in _ P) in Hy; apply in_seq in Hy; lia).
  destruct (pairdists_cover T x y Hx Hy N) as [v [H|H]].
  - pose proof (HD _ H) as E. pose proof (pairdists_tdist T ND _ H) as E2. cbn [fst snd] in E, E2.
    rewrite <- E, E2. reflexivity.
  - pose proof (HD _ H) as E. pose proof (pairdists_tdist T ND _ H) as E2. cbn [fst snd] in E, E2.
    rewrite (Sy x y Lx Ly), <- E, E2. apply tdist_sym; assumption.
Qed.

(* Neighbor-Joining on an additive metric with positive branch lengths returns the
   generating unrooted topology, with branch lengths whose path sums reproduce the
   input distances *)
Theorem nj_recovers m T : tree_metric_of m T ->
  exists t, nj_tree m = Some t /\ Permutation (leaves t) (seq 0 (length m)) /\
    (forall e, In e (pairdists t) -> (snd e == dm m (fst (fst e)) (snd (fst e)))%Q) /\
    splits_eqb (nt_of_tree T) (nt_of_tree t) = true.
Proof.
  intros HM.
  destruct (nj_recovers_pathsums m (tree_metric_of_metric m T HM)) as (t & Ht & Pt & Hps).
  destruct (nj_recovers_splits m T (tree_metric_of_tm m T HM) (proj1 HM)) as (t' & Ht' & Hs).
  rewrite Ht in Ht'. inversion Ht'. subst t'.
  exists t. repeat split; assumption.
Qed.

Lemma tree_metric_of_b m T : tree_metricb m T = true -> tree_metric_of m T.
Proof.
  unfold tree_metricb. rewrite !andb_true_iff. intros [[[[[[H1 H2] H3] H4] H5] H6] H7].
  apply Nat.leb_le in H1. split; [exact H1|]. split; [|split; [|split; [|split; [|split]]]].
  - unfold msquareb in H2. apply andb_true_iff in H2. destruct H2 as [_ H2]. split; [reflexivity|].
    rewrite forallb_forall in H2. intros i Hi. apply Nat.eqb_eq. apply H2. apply nth_In. exact Hi.
  - unfold msymb in H3. rewrite forallb_forall in H3. intros i j Hi Hj.
    specialize (H3 i ltac:(apply in_seq; lia)). rewrite forallb_forall in H3.
    apply Qeq_bool_iff. apply H3. apply in_seq. lia.
  - unfold mdiag0b in H4. rewrite forallb_forall in H4. intros i Hi. apply Qeq_bool_iff. apply H4. apply in_seq. lia.
  - apply permb_spec. exact H5.
  - apply positiveb_spec. exact H6.
  - intros e He. exact (proj1 (proj1 (pathsumsb_zero m T) H7 e He)).
Qed.
