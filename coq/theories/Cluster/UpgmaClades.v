(* The recovery theorem in the vocabulary of the checker: if the tree UPGMA
   returns matches the generating tree (tmatch), both have the same clades
   (clades_eqb, the checker run on the implementation's Newick output) and the
   returned tree's path sums are the generating distances. *)
From Coq Require Import QArith List Arith Bool Lia Permutation Lqa.
From LV Require Import Cluster.Nwk Cluster.NwkProofs Cluster.Upgma Cluster.UpgmaProofs Cluster.UpgmaRecover
  Cluster.Neighbor Cluster.TreeBuildExec Cluster.TreeBuildProofs.
Import ListNotations.
Local Open Scope nat_scope.

(* the generating tree with its branch lengths: a node of height h sits h/2 above the leaves *)
Fixpoint tree_of_utree (T : utree) : tree :=
  match T with
  | ULeaf x => Leaf x
  | UNode h l r =>
      Node (tree_of_utree l) (h / 2 - uheight l / 2)%Q (tree_of_utree r) (h / 2 - uheight r / 2)%Q
  end.

Fixpoint tclades (t : tree) : list (list nat) :=
  match t with
  | Leaf _ => []
  | Node l _ r _ => leaves t :: tclades l ++ tclades r
  end.

Lemma nt_leaves_of_tree t : nt_leaves (nt_of_tree t) = leaves t.
Proof.
  induction t as [x|l IHl bl r IHr br]; [reflexivity|].
  cbn [nt_of_tree nt_leaves flat_map fst leaves]. rewrite IHl, IHr, app_nil_r. reflexivity.
Qed.

Lemma nt_clades_of_tree t : nt_clades (nt_of_tree t) = tclades t.
Proof.
  induction t as [x|l IHl bl r IHr br]; [reflexivity|].
  change (nt_clades (nt_of_tree (Node l bl r br)))
    with (nt_leaves (nt_of_tree (Node l bl r br)) ::
          flat_map (fun p => nt_clades (fst p)) [(nt_of_tree l, bl); (nt_of_tree r, br)]).
  rewrite nt_leaves_of_tree. cbn [flat_map fst tclades]. rewrite IHl, IHr, app_nil_r. reflexivity.
Qed.

Lemma leaves_of_utree T : leaves (tree_of_utree T) = uleaves T.
Proof. induction T as [x|h l IHl r IHr]; [reflexivity|]. cbn [tree_of_utree leaves uleaves]. rewrite IHl, IHr. reflexivity. Qed.

Lemma perm_same_set (a b : list nat) : Permutation a b -> same_set a b.
Proof. intros P x. split; intros H; [exact (Permutation_in _ P H)|exact (Permutation_in _ (Permutation_sym P) H)]. Qed.

Lemma fam_sub_cons (R : list nat -> list nat -> Prop) c c' f1 f2 : R c c' -> fam_sub R f1 f2 -> fam_sub R (c :: f1) (c' :: f2).
Proof.
  intros HR H x [<-|Hx]; [exists c'; split; [left; reflexivity|exact HR]|].
  destruct (H x Hx) as [y [Hy Ry]]. exists y. split; [right; exact Hy|exact Ry].
Qed.

Lemma fam_sub_app (R : list nat -> list nat -> Prop) f1 f2 g1 g2 : fam_sub R f1 g1 -> fam_sub R f2 g2 -> fam_sub R (f1 ++ f2) (g1 ++ g2).
Proof.
  intros H1 H2 x Hx. apply in_app_or in Hx. destruct Hx as [Hx|Hx].
  - destruct (H1 x Hx) as [y [Hy Ry]]. exists y. split; [apply in_or_app; left; exact Hy|exact Ry].
  - destruct (H2 x Hx) as [y [Hy Ry]]. exists y. split; [apply in_or_app; right; exact Hy|exact Ry].
Qed.

Lemma fam_sub_app_swap (R : list nat -> list nat -> Prop) f1 f2 g1 g2 : fam_sub R f1 g2 -> fam_sub R f2 g1 -> fam_sub R (f1 ++ f2) (g1 ++ g2).
Proof.
  intros H1 H2 x Hx. apply in_app_or in Hx. destruct Hx as [Hx|Hx].
  - destruct (H1 x Hx) as [y [Hy Ry]]. exists y. split; [apply in_or_app; right; exact Hy|exact Ry].
  - destruct (H2 x Hx) as [y [Hy Ry]]. exists y. split; [apply in_or_app; left; exact Hy|exact Ry].
Qed.

Lemma tmatch_clades t T : tmatch t T ->
  fam_sub same_set (tclades t) (tclades (tree_of_utree T)) /\
  fam_sub same_set (tclades (tree_of_utree T)) (tclades t).
Proof.
  induction 1 as [x|l bl r br h ul ur Hl [IHl1 IHl2] Hr [IHr1 IHr2] _ _|l bl r br h ul ur Hl [IHl1 IHl2] Hr [IHr1 IHr2] _ _].
  - split; intros c [].
  - cbn [tree_of_utree tclades leaves]. rewrite !leaves_of_utree.
    pose proof (tmatch_leaves _ _ Hl) as Pl. pose proof (tmatch_leaves _ _ Hr) as Pr.
    split; (apply fam_sub_cons; [apply perm_same_set|apply fam_sub_app; assumption]).
    + apply Permutation_app; assumption.
    + apply Permutation_app; symmetry; assumption.
  - cbn [tree_of_utree tclades leaves]. rewrite !leaves_of_utree.
    pose proof (tmatch_leaves _ _ Hl) as Pl. pose proof (tmatch_leaves _ _ Hr) as Pr.
    split; (apply fam_sub_cons; [apply perm_same_set|apply fam_sub_app_swap; assumption]).
    + eapply perm_trans; [apply Permutation_app; [exact Pl|exact Pr]|apply Permutation_app_comm].
    + eapply perm_trans; [apply Permutation_app_comm|]. apply Permutation_app; symmetry; assumption.
Qed.

(* what the checker of bit 3 computes, for the model's output *)
Theorem tmatch_clades_eqb t T : tmatch t T ->
  clades_eqb (nt_of_tree (tree_of_utree T)) (nt_of_tree t) = true.
Proof.
  intros H. apply clades_eqb_spec. rewrite !nt_clades_of_tree.
  destruct (tmatch_clades t T H) as [H1 H2]. split; assumption.
Qed.

Theorem upgma_recovers_clades T d n :
  NoDup (uleaves T) -> Permutation (uleaves T) (seq 0 n) -> mono T ->
  (forall x y, In x (uleaves T) -> In y (uleaves T) -> x <> y -> (d x y == lcah T x y)%Q) ->
  exists t, upgma_tree n d = Some t /\
            clades_eqb (nt_of_tree (tree_of_utree T)) (nt_of_tree t) = true.
Proof.
  intros H1 H2 H3 H4. destruct (upgma_recovers_tree T d n H1 H2 H3 H4) as (t & Ht & Hm).
  exists t. split; [exact Ht|exact (tmatch_clades_eqb t T Hm)].
Qed.
