(* Executable instance of the flat clustering model over exact rationals, the
   'ward' wrapper of lingpy.algorithm.clustering.flat_cluster, boolean checkers
   that are run on the implementation's outputs, and the per-case comparison
   function used by the correspondence check. *)
From Coq Require Import QArith List Bool Arith.
From LV Require Import Common.Cases Cluster.Flat.
Import ListNotations.

Definition qleb : Q -> Q -> bool := Qle_bool.

Definition qmin (l : list Q) : Q :=
  match l with
  | [] => 0
  | x :: tl => fold_left (fun m y => if Qle_bool m y then m else y) tl x
  end.

Definition qmax (l : list Q) : Q :=
  match l with
  | [] => 0
  | x :: tl => fold_left (fun m y => if Qle_bool y m then m else y) tl x
  end.

Definition qsum (l : list Q) : Q := fold_left Qplus l 0.

(* sum(score) / len(score) *)
Definition qavg (l : list Q) : Q := qsum l / inject_Z (Z.of_nat (length l)).

Inductive method := Upgma | Single | Complete.

Definition linkf (m : method) : list Q -> Q :=
  match m with Upgma => qavg | Single => qmin | Complete => qmax end.

Definition mat := list (list Q).
Definition dm (m : mat) (a b : nat) : Q := nth b (nth a m []) 0.

Definition flat_cluster (meth : method) (thr : Q) (m : mat) : clusters :=
  flat qleb (linkf meth) (dm m) (length m) thr.

(* clustering.flat_cluster(method='ward'): a copy of the matrix in which the
   upper triangle is squared and mirrored; then average linkage *)
Definition ward_matrix (m : mat) : mat :=
  map (fun i => map (fun j =>
        if Nat.ltb i j then dm m i j * dm m i j
        else if Nat.ltb j i then dm m j i * dm m j i
        else dm m i j) (seq 0 (length (nth i m []))))
      (seq 0 (length m)).

(* ------------------------------------------------------------------ *)
(* checkers, run on implementation outputs *)

Definition countb (x : nat) (cl : clusters) : nat :=
  list_sum (map (fun c => count_occ Nat.eq_dec (snd c) x) cl).

Definition partitionb (n : nat) (cl : clusters) : bool :=
  forallb (fun x => Nat.eqb (countb x cl) 1) (seq 0 n)
  && Nat.eqb (list_sum (map (fun c => length (snd c)) cl)) n
  && forallb (fun c => negb (Nat.eqb (length (snd c)) 0)) cl.

Definition terminalb (meth : method) (thr : Q) (m : mat) (cl : clusters) : bool :=
  Nat.leb (length cl) 1 ||
  forallb (fun ca => forallb (fun cb =>
     Nat.eqb (fst ca) (fst cb) ||
     negb (qleb (linkf meth (cross (dm m) (snd ca) (snd cb))) thr)) cl) cl.

Definition sameb (cl : clusters) (x y : nat) : bool :=
  existsb (fun c => existsb (Nat.eqb x) (snd c) && existsb (Nat.eqb y) (snd c)) cl.

(* reachability in the graph d <= thr by n rounds of squaring *)
Definition adjb (thr : Q) (m : mat) (x y : nat) : bool :=
  Nat.eqb x y || qleb (dm m x y) thr || qleb (dm m y x) thr.

Fixpoint closure (n rounds : nat) (r : nat -> nat -> bool) : nat -> nat -> bool :=
  match rounds with
  | O => r
  | S k => let r' := closure n k r in
           fun x y => r' x y || existsb (fun z => r' x z && r' z y) (seq 0 n)
  end.

Definition tabulate (n : nat) (r : nat -> nat -> bool) : nat -> nat -> bool :=
  let t := map (fun x => map (fun y => r x y) (seq 0 n)) (seq 0 n) in
  fun x y => nth y (nth x t []) false.

Fixpoint closure_tab (n rounds : nat) (r : nat -> nat -> bool) : nat -> nat -> bool :=
  match rounds with
  | O => tabulate n r
  | S k => let r' := closure_tab n k r in
           tabulate n (fun x y => r' x y || existsb (fun z => r' x z && r' z y) (seq 0 n))
  end.

Definition componentsb (thr : Q) (m : mat) (cl : clusters) : bool :=
  let n := length m in
  let reach := closure_tab n (S (Nat.log2 n)) (adjb thr m) in
  forallb (fun x => forallb (fun y => Bool.eqb (sameb cl x y) (reach x y)) (seq 0 n)) (seq 0 n).

Definition diameterb (thr : Q) (m : mat) (cl : clusters) : bool :=
  forallb (fun c => forallb (fun x => forallb (fun y =>
     Nat.eqb x y || qleb (dm m x y) thr) (snd c)) (snd c)) cl.

Definition linkageb (meth : method) (thr : Q) (m : mat) (cl : clusters) : bool :=
  match meth with
  | Single => componentsb thr m cl
  | Complete => diameterb thr m cl
  | Upgma => true
  end.

(* every cluster of c1 lies inside one cluster of c2 *)
Definition refinesb (c1 c2 : clusters) : bool :=
  forallb (fun a => existsb (fun b =>
     forallb (fun x => existsb (Nat.eqb x) (snd b)) (snd a)) c2) c1.

(* revert output describes the same partition as the clusters *)
Definition revert_okb (cl : clusters) (rv : list (nat * nat)) : bool :=
  forallb (fun p => existsb (fun c => Nat.eqb (S (fst c)) (snd p) && existsb (Nat.eqb (fst p)) (snd c)) cl) rv
  && Nat.eqb (length rv) (list_sum (map (fun c => length (snd c)) cl)).

(* ------------------------------------------------------------------ *)
(* correspondence cases *)

Definition clusters_eqb : clusters -> clusters -> bool :=
  list_eqb (pair_eqb Nat.eqb (list_eqb Nat.eqb)).

Definition revert_eqb : list (nat * nat) -> list (nat * nat) -> bool :=
  list_eqb (pair_eqb Nat.eqb Nat.eqb).

Record flat_case := {
  fc_ward : bool;
  fc_meth : method;
  fc_thr : Q;
  fc_mat : mat;
  fc_out : clusters;              (* implementation: indices output *)
  fc_rev : list (nat * nat);      (* implementation: revert=True output *)
  fc_taxa : clusters;             (* implementation: taxa output, names mapped back to indices *)
  fc_thr2 : Q;                    (* a second threshold >= fc_thr *)
  fc_out2 : clusters              (* implementation output at fc_thr2 *)
}.

Definition flat_case_code (c : flat_case) : nat :=
  let m := if fc_ward c then ward_matrix (fc_mat c) else fc_mat c in
  let model := flat_cluster (fc_meth c) (fc_thr c) m in
  let model2 := flat_cluster (fc_meth c) (fc_thr2 c) m in
  bit 0 (clusters_eqb model (fc_out c) && revert_eqb (revert model) (fc_rev c)
         && clusters_eqb model (fc_taxa c)
         && clusters_eqb model2 (fc_out2 c))
  + bit 1 (partitionb (length m) (fc_out c) && partitionb (length m) (fc_out2 c)
           && revert_okb (fc_out c) (fc_rev c) && partitionb (length m) (fc_taxa c)
           && refinesb (fc_out c) (fc_taxa c) && refinesb (fc_taxa c) (fc_out c))
  + bit 2 (terminalb (fc_meth c) (fc_thr c) m (fc_out c))
  + bit 3 (linkageb (fc_meth c) (fc_thr c) m (fc_out c))
  + bit 4 (refinesb (fc_out c) (fc_out2 c)).
