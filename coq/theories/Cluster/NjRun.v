(* Neighbor-Joining on a tree metric: every selected pair is a cherry of the tree
   (one step), the reduced matrix is again a tree metric, hence the run picks
   cherries: the premise of the partial recovery theorem is discharged. *)
From Coq Require Import QArith List Arith Bool Lia Permutation Lqa.
From LV Require Import Cluster.Nwk Cluster.NwkProofs Cluster.Upgma Cluster.UpgmaProofs Cluster.UpgmaRecover
  Cluster.Neighbor Cluster.NeighborProofs Cluster.TreeBuildExec Cluster.TreeBuildProofs Cluster.NeighborRecover
  Cluster.UpgmaPaths Cluster.NjTree Cluster.NjCherry.
Import ListNotations.
Local Open Scope nat_scope.

(* m is the leaf metric of T, as functions *)
Definition tm (m : mat) (T : tree) : Prop :=
  msquare m (length m) /\ msym m (length m) /\ mdiag0 m (length m) /\
  Permutation (leaves T) (seq 0 (length m)) /\ positive T /\ metric_of (dm m) T.

Lemma tm_nodup m T : tm m T -> NoDup (leaves T).
Proof. intros (_ & _ & _ & P & _). exact (Permutation_NoDup (Permutation_sym P) (seq_NoDup _ 0)). Qed.

Lemma tree_metric_tm m : tree_metric m -> exists T, tm m T.
Proof.
  intros (L & Sq & Sy & Dg & T & P & Pos & HD). exists T.
  assert (ND : NoDup (leaves T)) by exact (Permutation_NoDup (Permutation_sym P) (seq_NoDup _ 0)).
  split; [exact Sq|]. split; [exact Sy|]. split; [exact Dg|]. split; [exact P|]. split; [exact Pos|].
  intros x y Hx Hy N.
  assert (Lx : x < length m) by (apply (Permutation_in _ P) in Hx; apply in_seq in Hx; lia).
  assert (Ly : y < length m) by (apply (Permutation_in _ P) in Hy; apply in_seq in Hy; lia).
  destruct (pairdists_cover T x y Hx Hy N) as [v [H|H]].
  - pose proof (HD _ H) as E. pose proof (pairdists_tdist T ND _ H) as E2. cbn [fst snd] in E, E2.
    rewrite <- E, E2. reflexivity.
  - pose proof (HD _ H) as E. pose proof (pairdists_tdist T ND _ H) as E2. cbn [fst snd] in E, E2.
    rewrite (Sy x y Lx Ly), <- E, E2. apply tdist_sym; assumption.
Qed.

(* the selected pair maximises Tsum *)
Lemma in_nj_scores_all m n c e : c < e -> e < n -> In ((c, e), nj_q m c e) (nj_scores m n).
Proof.
  intros H1 H2. unfold nj_scores. apply in_flat_map. exists c. split; [apply in_seq; lia|].
  apply in_flat_map. exists e. split; [apply in_seq; lia|].
  assert (E : Nat.ltb c e = true) by (apply Nat.ltb_lt; exact H1). rewrite E. left. reflexivity.
Qed.

Lemma selected_tmax m T a b q : tm m T -> 3 <= length m ->
  first_min (nj_scores m (length m)) = Some ((a, b), q) ->
  a < b /\ b < length m /\ tmax (dm m) (length m) a b.
Proof.
  intros (Sq & Sy & Dg & P & Pos & HD) L3 E.
  pose proof (in_nj_scores _ _ _ _ _ (first_min_in _ _ E)) as [Hab Hb].
  split; [exact Hab|]. split; [exact Hb|].
  assert (Eq : q = nj_q m a b).
  { pose proof (first_min_in _ _ E) as Hin. unfold nj_scores in Hin. apply in_flat_map in Hin.
    destruct Hin as [i [_ Hin]]. apply in_flat_map in Hin. destruct Hin as [j [_ Hin]].
    destruct (Nat.ltb i j); [|destruct Hin]. destruct Hin as [Hin|[]]. inversion Hin. reflexivity. }
  assert (Hle : forall c e, c < e -> e < length m -> (Tsum (dm m) (length m) c e <= Tsum (dm m) (length m) a b)%Q).
  { intros c e Hce He.
    apply (Q_le_Tsum m (length m) Sq Sy Dg L3 a b c e); try lia.
    pose proof (first_min_le _ _ E _ (in_nj_scores_all m (length m) c e Hce He)) as K.
    cbn [snd] in K. rewrite Eq in K. exact K. }
  intros c e Hc He N. destruct (lt_dec c e) as [Lt|Ge].
  - exact (Hle c e Lt He).
  - rewrite (Tsum_sym (dm m) (length m) c e (Sy c e Hc He)). apply Hle; lia.
Qed.

(* ------------------------------------------------------------------ *)
(* one step: the selected pair is a cherry of the tree *)
Lemma step_cherry_form m T a b q : tm m T -> 3 <= length m ->
  first_min (nj_scores m (length m)) = Some ((a, b), q) ->
  a < b /\ b < length m /\
  exists x y eb Z ez, tm m (Node (Leaf a) x (Node (Leaf b) eb Z ez) y).
Proof.
  intros HT L3 E. destruct (selected_tmax m T a b q HT L3 E) as (Hab & Hb & Hmax).
  split; [exact Hab|]. split; [exact Hb|].
  pose proof (tm_nodup m T HT) as ND. destruct HT as (Sq & Sy & Dg & P & Pos & HD).
  destruct (max_pair_is_cherry T (dm m) (length m) a b ND Pos HD P L3 ltac:(lia) Hb ltac:(lia) Hmax)
    as (x & y & eb & Z & ez & E1 & P1).
  exists x, y, eb, Z, ez. split; [exact Sq|]. split; [exact Sy|]. split; [exact Dg|].
  split; [eapply perm_trans; [symmetry; exact (proj1 E1)|exact P]|].
  split; [exact P1|exact (metric_of_teq _ _ _ E1 HD)].
Qed.

Section CherryForm.
  Variables (m : mat) (a b : nat) (x y eb ez : Q) (Z : tree).
  Let T2 := Node (Leaf a) x (Node (Leaf b) eb Z ez) y.
  Hypothesis HT : tm m T2.
  Let n := length m.

  Lemma cf_nodup : NoDup (leaves (Leaf a) ++ leaves (Leaf b) ++ leaves Z).
  Proof. exact (tm_nodup m T2 HT). Qed.

  Lemma cf_metric : metric_of (dm m) T2.
  Proof. destruct HT as (_ & _ & _ & _ & _ & H). exact H. Qed.

  Lemma cf_in_Z k : k < n -> k <> a -> k <> b -> In k (leaves Z).
  Proof.
    intros Hk Na Nb. destruct HT as (_ & _ & _ & P & _).
    assert (K : In k (leaves T2)) by (apply (Permutation_in _ (Permutation_sym P)); apply in_seq; unfold n in Hk; lia).
    unfold T2 in K. cbn [leaves app] in K. destruct K as [K|[K|K]]; [congruence|congruence|exact K].
  Qed.

  Lemma cf_Z_lt k : In k (leaves Z) -> k < n /\ k <> a /\ k <> b.
  Proof.
    intros Hk. destruct HT as (_ & _ & _ & P & _). pose proof cf_nodup as ND. cbn [leaves app] in ND.
    assert (K : In k (leaves T2)) by (unfold T2; cbn [leaves app]; right; right; exact Hk).
    apply (Permutation_in _ P) in K. apply in_seq in K. split; [unfold n; lia|].
    inversion ND as [|u us Ha ND1]; subst. inversion ND1 as [|u us Hb' _]; subst.
    split; intros ->; [apply Ha; right; exact Hk|apply Hb'; exact Hk].
  Qed.

  Lemma cf_a_k k : In k (leaves Z) -> (dm m a k == x + y + ez + dep Z k)%Q.
  Proof.
    intros Hk. rewrite (d_UD (Leaf a) (Leaf b) Z x y eb ez (dm m) cf_nodup cf_metric a k (or_introl eq_refl) Hk).
    cbn [dep]. ring.
  Qed.

  Lemma cf_b_k k : In k (leaves Z) -> (dm m b k == eb + ez + dep Z k)%Q.
  Proof.
    intros Hk. rewrite (d_CD (Leaf a) (Leaf b) Z x y eb ez (dm m) cf_nodup cf_metric b k (or_introl eq_refl) Hk).
    cbn [dep]. ring.
  Qed.

  Lemma cf_a_b : (dm m a b == x + y + eb)%Q.
  Proof.
    rewrite (d_UC (Leaf a) (Leaf b) Z x y eb ez (dm m) cf_nodup cf_metric a b (or_introl eq_refl) (or_introl eq_refl)).
    cbn [dep]. ring.
  Qed.

  Lemma cf_k_l k l : In k (leaves Z) -> In l (leaves Z) -> k <> l -> (dm m k l == tdist Z k l)%Q.
  Proof.
    intros Hk Hl N. exact (d_DD (Leaf a) (Leaf b) Z x y eb ez (dm m) cf_nodup cf_metric k l Hk Hl N).
  Qed.

  Lemma cf_metric_cherry : metric_cherry m n a b.
  Proof.
    intros k l Hk Hl Nka Nkb Nla Nlb.
    pose proof (cf_in_Z k Hk Nka Nkb) as Ik. pose proof (cf_in_Z l Hl Nla Nlb) as Il.
    rewrite (cf_a_k k Ik), (cf_b_k k Ik), (cf_a_k l Il), (cf_b_k l Il). ring.
  Qed.
End CherryForm.

(* ------------------------------------------------------------------ *)
(* renaming the leaves *)
Fixpoint relabel (g : nat -> nat) (t : tree) : tree :=
  match t with
  | Leaf x => Leaf (g x)
  | Node l bl r br => Node (relabel g l) bl (relabel g r) br
  end.

Lemma leaves_relabel g t : leaves (relabel g t) = map g (leaves t).
Proof. induction t as [x|l IHl bl r IHr br]; [reflexivity|]. cbn [relabel leaves]. rewrite map_app, IHl, IHr. reflexivity. Qed.

Lemma positive_relabel g t : positive t -> positive (relabel g t).
Proof. induction t as [x|l IHl bl r IHr br]; [trivial|]. cbn [relabel positive]. tauto. Qed.

Section Relabel.
  Variable g : nat -> nat.
  Variable dom : nat -> Prop.
  Hypothesis g_inj : forall u v, dom u -> dom v -> g u = g v -> u = v.

  Lemma has_relabel t x : (forall u, In u (leaves t) -> dom u) -> dom x ->
    has (relabel g t) (g x) = has t x.
  Proof.
    intros Ht Hx. destruct (has t x) eqn:E.
    - apply has_spec in E. apply has_true. rewrite leaves_relabel. apply in_map. exact E.
    - apply has_false. rewrite leaves_relabel. intros K. apply in_map_iff in K. destruct K as [u [Eu Hu]].
      assert (u = x) by (apply g_inj; [apply Ht; exact Hu|exact Hx|exact Eu]). subst u.
      apply has_true in Hu. congruence.
  Qed.

  Lemma dep_relabel t x : (forall u, In u (leaves t) -> dom u) -> dom x ->
    dep (relabel g t) (g x) = dep t x.
  Proof.
    induction t as [z|l IHl bl r IHr br]; intros Ht Hx; [reflexivity|].
    cbn [relabel dep]. cbn [leaves] in Ht.
    assert (Hl : forall u, In u (leaves l) -> dom u) by (intros u Hu; apply Ht; apply in_or_app; left; exact Hu).
    assert (Hr : forall u, In u (leaves r) -> dom u) by (intros u Hu; apply Ht; apply in_or_app; right; exact Hu).
    rewrite (has_relabel l x Hl Hx), (has_relabel r x Hr Hx), (IHl Hl Hx), (IHr Hr Hx). reflexivity.
  Qed.

  Lemma tdist_relabel t x y : (forall u, In u (leaves t) -> dom u) -> dom x -> dom y ->
    tdist (relabel g t) (g x) (g y) = tdist t x y.
  Proof.
    induction t as [z|l IHl bl r IHr br]; intros Ht Hx Hy; [reflexivity|].
    cbn [relabel tdist]. cbn [leaves] in Ht.
    assert (Hl : forall u, In u (leaves l) -> dom u) by (intros u Hu; apply Ht; apply in_or_app; left; exact Hu).
    assert (Hr : forall u, In u (leaves r) -> dom u) by (intros u Hu; apply Ht; apply in_or_app; right; exact Hu).
    rewrite (has_relabel l x Hl Hx), (has_relabel l y Hl Hy).
    rewrite (dep_relabel l x Hl Hx), (dep_relabel l y Hl Hy), (dep_relabel r x Hr Hx), (dep_relabel r y Hr Hy).
    rewrite (IHl Hl Hx Hy), (IHr Hr Hx Hy). reflexivity.
  Qed.

  Lemma NoDup_map_dom (l : list nat) : (forall u, In u l -> dom u) -> NoDup l -> NoDup (map g l).
  Proof.
    induction l as [|z tl IH]; intros Hd ND; [constructor|].
    inversion ND as [|u us Hz NDtl]; subst. cbn [map]. constructor.
    - intros K. apply in_map_iff in K. destruct K as [u [Eu Hu]].
      assert (u = z) by (apply g_inj; [apply Hd; right; exact Hu|apply Hd; left; reflexivity|exact Eu]).
      subst u. exact (Hz Hu).
    - apply IH; [intros u Hu; apply Hd; right; exact Hu|exact NDtl].
  Qed.
End Relabel.

(* the position of an old key after del clusters[b] and renumbering *)
Definition nj_new (b k : nat) : nat := if Nat.ltb k b then k else k - 1.

Lemma nj_old_new b k : k <> b -> nj_old b (nj_new b k) = k.
Proof.
  intros N. unfold nj_old, nj_new. destruct (Nat.ltb_spec k b) as [L|L].
  - destruct (Nat.ltb_spec k b); lia.
  - destruct (Nat.ltb_spec (k - 1) b); lia.
Qed.

Lemma nj_new_inj b u v : u <> b -> v <> b -> nj_new b u = nj_new b v -> u = v.
Proof.
  intros Nu Nv E. rewrite <- (nj_old_new b u Nu), <- (nj_old_new b v Nv), E. reflexivity.
Qed.

Lemma nj_new_lt b n k : b < n -> k < n -> k <> b -> nj_new b k < n - 1.
Proof. intros Hb Hk N. unfold nj_new. destruct (Nat.ltb_spec k b); lia. Qed.

(* ------------------------------------------------------------------ *)
(* the reduced matrix is the metric of the tree with the cherry collapsed *)
Lemma length_newmat m n a b : length (nj_newmat m n a b) = n - 1.
Proof. unfold nj_newmat. exact (proj1 (msquare_mk (n - 1) _)). Qed.

Lemma reduce_tm m a b x y eb ez Z :
  tm m (Node (Leaf a) x (Node (Leaf b) eb Z ez) y) -> 3 <= length m -> a < b -> b < length m ->
  tm (nj_newmat m (length m) a b) (relabel (nj_new b) (Node (Leaf a) (ez / 2) Z (ez / 2))).
Proof.
  intros HT L3 Hab Hb. set (n := length m) in *. set (M' := nj_newmat m n a b).
  set (T0 := Node (Leaf a) (ez / 2) Z (ez / 2)).
  assert (LM : length M' = n - 1) by apply length_newmat.
  pose proof (cf_nodup m a b x y eb ez Z HT) as ND. cbn [leaves app] in ND.
  assert (HT' := HT). destruct HT' as (Sq & Sy & Dg & P & Pos & HD). fold n in Sq, Sy, Dg, P.
  cbn [positive] in Pos. destruct Pos as (Px & Py & _ & (Peb & Pez & _ & PZ)).
  destruct (half_pos ez Pez) as [Ph Eh].
  assert (Dom : forall u, In u (leaves T0) -> u <> b).
  { intros u Hu. unfold T0 in Hu. cbn [leaves app] in Hu. destruct Hu as [<-|Hu]; [lia|].
    exact (proj2 (proj2 (cf_Z_lt m a b x y eb ez Z HT u Hu))). }
  assert (Lt0 : forall u, In u (leaves T0) -> u < n).
  { intros u Hu. unfold T0 in Hu. cbn [leaves app] in Hu. destruct Hu as [<-|Hu]; [lia|].
    exact (proj1 (cf_Z_lt m a b x y eb ez Z HT u Hu)). }
  assert (ND0 : NoDup (leaves T0)).
  { unfold T0. cbn [leaves app]. inversion ND as [|u us Ha ND1]; subst. inversion ND1 as [|u us _ NDZ]; subst.
    constructor; [intros K; apply Ha; right; exact K|exact NDZ]. }
  assert (L0 : length (leaves T0) = n - 1).
  { pose proof (Permutation_length P) as K. rewrite seq_length in K. cbn [leaves app length] in K.
    unfold T0. cbn [leaves app length]. lia. }
  unfold tm. rewrite LM.
  split; [unfold M', nj_newmat; apply msquare_mk|].
  split; [apply newmat_sym|]. split; [apply newmat_diag|].
  split; [|split].
  - (* the leaves are the new positions *)
    rewrite leaves_relabel. symmetry. apply NoDup_Permutation_bis.
    + apply seq_NoDup.
    + rewrite map_length, seq_length, L0. lia.
    + intros i Hi. apply in_seq in Hi. apply in_map_iff. exists (nj_old b i).
      assert (Lo : nj_old b i < n) by (apply nj_old_lt; lia).
      split.
      * unfold nj_new, nj_old. destruct (Nat.ltb_spec i b) as [K|K].
        -- destruct (Nat.ltb_spec i b); lia.
        -- destruct (Nat.ltb_spec (S i) b); lia.
      * assert (K : In (nj_old b i) (leaves (Node (Leaf a) x (Node (Leaf b) eb Z ez) y))).
        { apply (Permutation_in _ (Permutation_sym P)). apply in_seq. lia. }
        cbn [leaves app] in K. unfold T0. cbn [leaves app].
        destruct K as [K|[K|K]]; [left; exact K|exfalso; exact (nj_old_neq b i (eq_sym K))|right; exact K].
  - apply positive_relabel. unfold T0. cbn [positive]. tauto.
  - (* the metric *)
    intros x' y' Hx' Hy' N'. rewrite leaves_relabel in Hx', Hy'.
    apply in_map_iff in Hx'. destruct Hx' as [u [<- Hu]]. apply in_map_iff in Hy'. destruct Hy' as [v [<- Hv]].
    assert (Nuv : u <> v) by (intros ->; apply N'; reflexivity).
    rewrite (tdist_relabel (nj_new b) (fun k => k <> b) (nj_new_inj b) T0 u v Dom (Dom u Hu) (Dom v Hv)).
    pose proof (newmat_entry m n a b (nj_new b u) (nj_new b v) Sy Hab Hb
                  (nj_new_lt b n u Hb (Lt0 u Hu) (Dom u Hu)) (nj_new_lt b n v Hb (Lt0 v Hv) (Dom v Hv)) N') as Hent.
    rewrite (nj_old_new b u (Dom u Hu)), (nj_old_new b v (Dom v Hv)) in Hent.
    fold M' in Hent. rewrite Hent. clear Hent.
    unfold T0 in Hu, Hv. cbn [leaves app] in Hu, Hv. unfold nj_red.
    inversion ND as [|w ws Ha ND1]; subst. 
    assert (NaZ : ~ In a (leaves Z)) by (intros K; apply Ha; right; exact K).
    destruct Hu as [<-|Hu], Hv as [<-|Hv].
    + congruence.
    + rewrite Nat.eqb_refl.
      rewrite (cf_a_k m a b x y eb ez Z HT v Hv), (cf_b_k m a b x y eb ez Z HT v Hv), (cf_a_b m a b x y eb ez Z HT).
      unfold T0. rewrite (tdist_lr (Leaf a) Z (ez / 2) (ez / 2)); [|exact ND0|left; reflexivity|exact Hv].
      cbn [dep]. field.
    + assert (Eu : Nat.eqb u a = false) by (apply Nat.eqb_neq; intros ->; exact (NaZ Hu)).
      rewrite Eu, Nat.eqb_refl.
      rewrite (cf_a_k m a b x y eb ez Z HT u Hu), (cf_b_k m a b x y eb ez Z HT u Hu), (cf_a_b m a b x y eb ez Z HT).
      unfold T0. rewrite (tdist_rl (Leaf a) Z (ez / 2) (ez / 2)); [|exact ND0|exact Hu|left; reflexivity].
      cbn [dep]. field.
    + assert (Eu : Nat.eqb u a = false) by (apply Nat.eqb_neq; intros ->; exact (NaZ Hu)).
      assert (Ev : Nat.eqb v a = false) by (apply Nat.eqb_neq; intros ->; exact (NaZ Hv)).
      rewrite Eu, Ev. rewrite (cf_k_l m a b x y eb ez Z HT u v Hu Hv Nuv).
      unfold T0. rewrite (tdist_rr (Leaf a) Z (ez / 2) (ez / 2)); [reflexivity|exact ND0|exact Hu|exact Hv].
Qed.

(* ------------------------------------------------------------------ *)
(* the run *)
Lemma length_del_nth {A} b (l : list A) : b < length l -> S (length (del_nth b l)) = length l.
Proof.
  revert b. induction l as [|z tl IH]; intros b Hb; [cbn in Hb; lia|].
  destruct b as [|b]; cbn [del_nth length]; [reflexivity|]. cbn [length] in Hb. rewrite IH by lia. reflexivity.
Qed.

Lemma run_picks_cherries fuel : forall st T,
  tm (nj_m st) T -> length (nj_cls st) = length (nj_m st) -> picks_cherries fuel st.
Proof.
  induction fuel as [|fuel IH]; intros st T HT Hlen; [exact I|].
  cbn [picks_cherries]. destruct (nj_step st) as [[r st']|] eqn:E; [|exact I].
  destruct (nj_step_spec _ _ _ E) as (L3 & a & b & Hab & Hb & (q & Hq) & Hr & Hst). cbn zeta in Hst.
  rewrite Hlen in *.
  split.
  - intros a' b' q' E'.
    destruct (step_cherry_form _ T a' b' q' HT L3 E') as (_ & _ & x & y & eb & Z & ez & HT2).
    exact (cf_metric_cherry _ a' b' x y eb ez Z HT2).
  - destruct (step_cherry_form _ T a b q HT L3 Hq) as (_ & _ & x & y & eb & Z & ez & HT2).
    pose proof (reduce_tm _ a b x y eb ez Z HT2 L3 Hab Hb) as HT'.
    apply (IH st' (relabel (nj_new b) (Node (Leaf a) (ez / 2) Z (ez / 2)))).
    + rewrite Hst. cbn [nj_m]. exact HT'.
    + rewrite Hst. cbn [nj_m nj_cls]. rewrite length_newmat.
      pose proof (length_del_nth b (set_nth a (nth a (nj_cls st) [] ++ nth b (nj_cls st) []) (nj_cls st))) as K.
      rewrite length_set_nth in K. specialize (K ltac:(lia)). lia.
Qed.

(* The cherry-picking lemma, at the level of the run: on the path metric of a tree with
   positive branch lengths every pair the Q-criterion selects is a cherry of the current matrix *)
Theorem nj_cherry_picking m : tree_metric m -> picks_cherries (length m) (nj_init m).
Proof.
  intros HM. destruct (tree_metric_tm m HM) as [T HT].
  apply (run_picks_cherries (length m) (nj_init m) T).
  - exact HT.
  - unfold nj_init. cbn [nj_cls nj_m]. rewrite map_length, seq_length. reflexivity.
Qed.

(* hence: Neighbor-Joining recovers the metric of the generating tree *)
Theorem nj_recovers_pathsums m : tree_metric m ->
  exists t, nj_tree m = Some t /\ Permutation (leaves t) (seq 0 (length m)) /\
    forall e, In e (pairdists t) -> (snd e == dm m (fst (fst e)) (snd (fst e)))%Q.
Proof. exact (nj_recovers_given_cherry_picking nj_cherry_picking m). Qed.

(* one step: any pair minimising the criterion on a tree metric is a cherry *)
Theorem nj_min_pair_is_cherry m a b q : tree_metric m -> 3 <= length m ->
  first_min (nj_scores m (length m)) = Some ((a, b), q) -> metric_cherry m (length m) a b.
Proof.
  intros HM L3 E. destruct (tree_metric_tm m HM) as [T HT].
  destruct (step_cherry_form m T a b q HT L3 E) as (_ & _ & x & y & eb & Z & ez & HT2).
  exact (cf_metric_cherry m a b x y eb ez Z HT2).
Qed.

(* the one-step lemma, also recording that the re-rooted tree has the same topology *)
Lemma step_cherry_form_iso m T a b q : tm m T -> 3 <= length m ->
  first_min (nj_scores m (length m)) = Some ((a, b), q) ->
  a < b /\ b < length m /\
  exists x y eb Z ez, tm m (Node (Leaf a) x (Node (Leaf b) eb Z ez) y) /\
                      tiso T (Node (Leaf a) x (Node (Leaf b) eb Z ez) y).
Proof.
  intros HT L3 E. destruct (selected_tmax m T a b q HT L3 E) as (Hab & Hb & Hmax).
  split; [exact Hab|]. split; [exact Hb|].
  pose proof (tm_nodup m T HT) as ND. destruct HT as (Sq & Sy & Dg & P & Pos & HD).
  destruct (max_pair_is_cherry_iso T (dm m) (length m) a b ND Pos HD P L3 ltac:(lia) Hb ltac:(lia) Hmax)
    as (x & y & eb & Z & ez & E1 & P1 & I1).
  exists x, y, eb, Z, ez. split; [|exact I1]. split; [exact Sq|]. split; [exact Sy|]. split; [exact Dg|].
  split; [eapply perm_trans; [symmetry; exact (proj1 E1)|exact P]|].
  split; [exact P1|exact (metric_of_teq _ _ _ E1 HD)].
Qed.
