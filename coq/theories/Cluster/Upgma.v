(* Model of lingpy.algorithm.cython._cluster._upgma (lines 392-448) and of the
   driver part of upgma (lines 358-367), over exact rationals.

   The cluster dictionary and the branches dictionary are association lists in
   insertion order (Python 3.7+ dict semantics).  The distance matrix enters as
   a function d a b = matrix[a][b].  Model only: no proofs here. *)
From Coq Require Import QArith List Arith Bool.
From LV Require Import Cluster.Nwk.
Import ListNotations.
Local Open Scope nat_scope.

Definition clusters := list (nat * list nat).
Definition keys (cl : clusters) : list nat := map fst cl.

Definition qsum (l : list Q) : Q := fold_right Qplus 0%Q l.

(* sum(score) / len(score) *)
Definition qavg (l : list Q) : Q := (qsum l / inject_Z (Z.of_nat (length l)))%Q.

(* score = []; for vA in valA: for vB in valB: score += [matrix[vA][vB]] *)
Definition cross (d : nat -> nat -> Q) (va vb : list nat) : list Q :=
  flat_map (fun a => map (fun b => d a b) vb) va.

(* for i,valA in clusters.items(): for j,valB in clusters.items(): if i != j:
       scores.append(sum(score)/len(score)); indices.append((i,j)) *)
Definition pair_scores (d : nat -> nat -> Q) (cl : clusters) : list ((nat * nat) * Q) :=
  flat_map (fun ca =>
    flat_map (fun cb =>
      if Nat.eqb (fst ca) (fst cb) then []
      else [((fst ca, fst cb), qavg (cross d (snd ca) (snd cb)))]) cl) cl.

(* indices[scores.index(min(scores))]: the first entry no other entry is
   strictly below *)
Fixpoint first_min {A} (l : list (A * Q)) : option (A * Q) :=
  match l with
  | [] => None
  | x :: tl =>
      match first_min tl with
      | None => Some x
      | Some y => if Qle_bool (snd x) (snd y) then Some x else Some y
      end
  end.

(* clusters[k] *)
Fixpoint members (k : nat) (cl : clusters) : list nat :=
  match cl with
  | [] => []
  | (k', v) :: tl => if Nat.eqb k k' then v else members k tl
  end.

(* del clusters[k] *)
Fixpoint remove_key (k : nat) (cl : clusters) : clusters :=
  match cl with
  | [] => []
  | (k', v) :: tl => if Nat.eqb k k' then tl else (k', v) :: remove_key k tl
  end.

(* branches[k] *)
Fixpoint getq (k : nat) (br : list (nat * Q)) : Q :=
  match br with
  | [] => 0%Q
  | (k', v) :: tl => if Nat.eqb k k' then v else getq k tl
  end.

Definition ustate : Type := clusters * list (nat * Q).

(* one call of _upgma that does not return at once:
     minimum = min(scores); idxNew = max(clusters) + 1
     idxA,idxB = indices[scores.index(minimum)]
     bA = minimum/2 - branches[idxA]; bB = minimum/2 - branches[idxB]
     branches[idxNew] = minimum/2
     clusters[idxNew] = clusters[idxA] + clusters[idxB]; del clusters[idxA]; del clusters[idxB]
     tree_matrix.append([idxA,idxB,bA,bB])
   None = the call returns (one cluster left) or min([]) raises (no cluster at all) *)
Definition upgma_step (d : nat -> nat -> Q) (st : ustate) : option (row * ustate) :=
  let (cl, br) := st in
  match cl with
  | [_] => None
  | _ =>
      match first_min (pair_scores d cl) with
      | None => None
      | Some ((a, b), m) =>
          let idx := S (list_max (keys cl)) in
          let h := (m / 2)%Q in
          Some ((a, b, (h - getq a br)%Q, (h - getq b br)%Q),
                (remove_key b (remove_key a cl) ++ [(idx, members a cl ++ members b cl)],
                 (idx, h) :: br))
      end
  end.

Fixpoint upgma_run (fuel : nat) (d : nat -> nat -> Q) (st : ustate) : list row * ustate :=
  match fuel with
  | O => ([], st)
  | S f =>
      match upgma_step d st with
      | None => ([], st)
      | Some (r, st') => let (rs, fin) := upgma_run f d st' in (r :: rs, fin)
      end
  end.

(* clusters = dict([(i,[i]) for i in range(x)]); branches = dict([(i,0) for i in range(x)]) *)
Definition upgma_init (n : nat) : ustate :=
  (map (fun i => (i, [i])) (seq 0 n), map (fun i => (i, 0%Q)) (seq 0 n)).

(* the tree matrix filled by _upgma for n taxa (n = 0: min([]) raises, no rows) *)
Definition upgma_rows (n : nat) (d : nat -> nat -> Q) : list row :=
  fst (upgma_run n d (upgma_init n)).

(* the list of clusters created, in order: clusters[idxNew] of every call *)
Definition upgma_final (n : nat) (d : nat -> nat -> Q) : ustate :=
  snd (upgma_run n d (upgma_init n)).

(* the nesting of the Newick string upgma() returns *)
Definition upgma_tree (n : nat) (d : nat -> nat -> Q) : option tree :=
  nwk n (upgma_rows n d).

Definition mat := list (list Q).
Definition dm (m : mat) (a b : nat) : Q := nth b (nth a m []) 0%Q.
