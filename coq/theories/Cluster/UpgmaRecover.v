(* UPGMA recovers the generating tree of an ultrametric matrix.

   A generating tree is a binary tree with a height at every internal node;
   the distance of two leaves is the height of their lowest common ancestor.
   If heights strictly increase towards the root, the tree UPGMA returns is
   the generating tree up to the order of children, with every node at half
   its generating height (tmatch). *)
From Coq Require Import QArith List Arith Bool Lia Permutation Lqa.
From LV Require Import Cluster.Nwk Cluster.NwkProofs Cluster.Upgma Cluster.UpgmaProofs.
Import ListNotations.
Local Open Scope nat_scope.

Inductive utree :=
| ULeaf (x : nat)
| UNode (h : Q) (l r : utree).

Fixpoint uleaves (t : utree) : list nat :=
  match t with
  | ULeaf x => [x]
  | UNode _ l r => uleaves l ++ uleaves r
  end.

Definition uheight (t : utree) : Q :=
  match t with ULeaf _ => 0%Q | UNode h _ _ => h end.

(* heights strictly increase towards the root (leaves have height 0) *)
Fixpoint mono (t : utree) : Prop :=
  match t with
  | ULeaf _ => True
  | UNode h l r => (uheight l < h)%Q /\ (uheight r < h)%Q /\ mono l /\ mono r
  end.

Definition umem (x : nat) (l : list nat) : bool := existsb (Nat.eqb x) l.

(* height of the lowest common ancestor of two leaves *)
Fixpoint lcah (t : utree) (x y : nat) : Q :=
  match t with
  | ULeaf _ => 0%Q
  | UNode h l r =>
      if umem x (uleaves l) && umem y (uleaves l) then lcah l x y
      else if umem x (uleaves r) && umem y (uleaves r) then lcah r x y
      else h
  end.

(* the returned tree is the generating tree up to the order of children; a node
   of generating height h sits at depth-from-leaves h/2 *)
Inductive tmatch : tree -> utree -> Prop :=
| tm_leaf x : tmatch (Leaf x) (ULeaf x)
| tm_node l bl r br h ul ur :
    tmatch l ul -> tmatch r ur ->
    (bl == h / 2 - uheight ul / 2)%Q -> (br == h / 2 - uheight ur / 2)%Q ->
    tmatch (Node l bl r br) (UNode h ul ur)
| tm_swap l bl r br h ul ur :
    tmatch l ur -> tmatch r ul ->
    (bl == h / 2 - uheight ur / 2)%Q -> (br == h / 2 - uheight ul / 2)%Q ->
    tmatch (Node l bl r br) (UNode h ul ur).

(* a frontier (cut) of T: subtrees whose leaf sets partition the leaves of T *)
Inductive frontier : utree -> list utree -> Prop :=
| fr_self T : frontier T [T]
| fr_split h l r Fl Fr F :
    frontier l Fl -> frontier r Fr -> Permutation F (Fl ++ Fr) -> frontier (UNode h l r) F.

(* ------------------------------------------------------------------ *)
Lemma umem_spec x l : umem x l = true <-> In x l.
Proof.
  unfold umem. rewrite existsb_exists. split.
  - intros [y [Hy E]]. apply Nat.eqb_eq in E. subst. exact Hy.
  - intros H. exists x. split; [exact H|apply Nat.eqb_refl].
Qed.

Lemma umem_false x l : ~ In x l -> umem x l = false.
Proof. intros H. destruct (umem x l) eqn:E; [apply umem_spec in E; tauto|reflexivity]. Qed.

Lemma uleaves_nonempty t : exists x, In x (uleaves t).
Proof.
  induction t as [x|h l [x Hx] r _]; [exists x; left; reflexivity|].
  exists x. cbn [uleaves]. apply in_or_app. left. exact Hx.
Qed.

(* lcah of a node, by the position of the two leaves *)
Lemma lcah_left h l r x y : In x (uleaves l) -> In y (uleaves l) ->
  lcah (UNode h l r) x y = lcah l x y.
Proof.
  intros Hx Hy. cbn [lcah]. rewrite (proj2 (umem_spec _ _) Hx), (proj2 (umem_spec _ _) Hy). reflexivity.
Qed.

Lemma lcah_right h l r x y : NoDup (uleaves l ++ uleaves r) ->
  In x (uleaves r) -> In y (uleaves r) -> lcah (UNode h l r) x y = lcah r x y.
Proof.
  intros ND Hx Hy. cbn [lcah].
  rewrite (umem_false x (uleaves l)) by (intros H; exact (NoDup_app_disj _ _ _ ND H Hx)).
  cbn [andb]. rewrite (proj2 (umem_spec _ _) Hx), (proj2 (umem_spec _ _) Hy). reflexivity.
Qed.

Lemma lcah_cross h l r x y : NoDup (uleaves l ++ uleaves r) ->
  (In x (uleaves l) /\ In y (uleaves r)) \/ (In x (uleaves r) /\ In y (uleaves l)) ->
  lcah (UNode h l r) x y = h.
Proof.
  intros ND [[Hx Hy]|[Hx Hy]]; cbn [lcah].
  - rewrite (umem_false y (uleaves l)) by (intros H; exact (NoDup_app_disj _ _ _ ND H Hy)).
    rewrite (umem_false x (uleaves r)) by (intros H; exact (NoDup_app_disj _ _ _ ND Hx H)).
    rewrite andb_false_r. reflexivity.
  - rewrite (umem_false x (uleaves l)) by (intros H; exact (NoDup_app_disj _ _ _ ND H Hx)).
    rewrite (umem_false y (uleaves r)) by (intros H; exact (NoDup_app_disj _ _ _ ND Hy H)).
    rewrite andb_false_r. reflexivity.
Qed.

(* ------------------------------------------------------------------ *)
(* frontiers *)
Lemma frontier_perm T F F' : frontier T F -> Permutation F F' -> frontier T F'.
Proof.
  intros H P. destruct H as [T|h l r Fl Fr F Hl Hr P0].
  - apply Permutation_length_1_inv in P. subst. constructor.
  - econstructor; [exact Hl|exact Hr|]. eapply perm_trans; [symmetry; exact P|exact P0].
Qed.

Lemma frontier_nonempty T F : frontier T F -> F <> [].
Proof.
  induction 1 as [T|h l r Fl Fr F Hl IHl Hr IHr P]; [discriminate|].
  intros ->. apply Permutation_nil in P. apply app_eq_nil in P. destruct P as [P _]. exact (IHl P).
Qed.

Lemma frontier_leaves T F : frontier T F -> Permutation (uleaves T) (flat_map uleaves F).
Proof.
  induction 1 as [T|h l r Fl Fr F Hl IHl Hr IHr P].
  - cbn [flat_map]. rewrite app_nil_r. apply Permutation_refl.
  - cbn [uleaves]. eapply perm_trans; [apply Permutation_app; [exact IHl|exact IHr]|].
    rewrite <- flat_map_app. apply Permutation_flat_map. symmetry. exact P.
Qed.

Lemma frontier_in_leaves T F s x : frontier T F -> In s F -> In x (uleaves s) -> In x (uleaves T).
Proof.
  intros HF Hs Hx. eapply Permutation_in; [symmetry; exact (frontier_leaves _ _ HF)|].
  apply in_flat_map. exists s. split; assumption.
Qed.

Lemma NoDup_flat_map_inv (F : list utree) : NoDup (flat_map uleaves F) -> NoDup F.
Proof.
  induction F as [|s tl IH]; intros H; [constructor|].
  cbn [flat_map] in H. constructor; [|exact (IH (NoDup_app_r _ _ H))].
  intros Hin. destruct (uleaves_nonempty s) as [x Hx].
  apply (NoDup_app_disj _ _ x H Hx). apply in_flat_map. exists s. split; assumption.
Qed.

Lemma frontier_nodup T F : frontier T F -> NoDup (uleaves T) -> NoDup F.
Proof.
  intros HF ND. apply NoDup_flat_map_inv. eapply Permutation_NoDup; [exact (frontier_leaves _ _ HF)|exact ND].
Qed.

Lemma frontier_disjoint T F s1 s2 x : frontier T F -> NoDup (uleaves T) ->
  In s1 F -> In s2 F -> s1 <> s2 -> In x (uleaves s1) -> In x (uleaves s2) -> False.
Proof.
  intros HF ND H1 H2 N X1 X2.
  assert (NDf : NoDup (flat_map uleaves F)).
  { eapply Permutation_NoDup; [exact (frontier_leaves _ _ HF)|exact ND]. }
  clear HF ND. induction F as [|s tl IH]; [destruct H1|].
  cbn [flat_map] in NDf. destruct H1 as [E1|H1], H2 as [E2|H2].
  - congruence.
  - subst s. apply (NoDup_app_disj _ _ x NDf X1). apply in_flat_map. exists s2. split; assumption.
  - subst s. apply (NoDup_app_disj _ _ x NDf X2). apply in_flat_map. exists s1. split; assumption.
  - exact (IH H1 H2 (NoDup_app_r _ _ NDf)).
Qed.

Lemma frontier_single T s : frontier T [s] -> s = T.
Proof.
  intros H. inversion H as [T0|h l r Fl Fr F Hl Hr P]; subst; [reflexivity|].
  exfalso. apply Permutation_length in P. rewrite app_length in P. cbn [length] in P.
  pose proof (frontier_nonempty _ _ Hl) as Nl. pose proof (frontier_nonempty _ _ Hr) as Nr.
  destruct Fl; [congruence|]. destruct Fr; [congruence|]. cbn [length] in P. lia.
Qed.

Lemma frontier_all_leaves T : frontier T (map ULeaf (uleaves T)).
Proof.
  induction T as [x|h l IHl r IHr]; [constructor|].
  cbn [uleaves]. rewrite map_app. econstructor; [exact IHl|exact IHr|apply Permutation_refl].
Qed.

(* either the frontier is the tree itself or two of its elements meet at the root *)
Lemma frontier_two_below l Fl : frontier l Fl -> NoDup (uleaves l) ->
  Fl = [l] \/
  exists s3 s4 x y, In s3 Fl /\ In s4 Fl /\ s3 <> s4 /\
    In x (uleaves s3) /\ In y (uleaves s4) /\ lcah l x y = uheight l.
Proof.
  intros H ND. destruct H as [T|h ll lr Fll Flr F Hl Hr P]; [left; reflexivity|right].
  cbn [uleaves] in ND.
  destruct Fll as [|s3 Fll']; [exfalso; exact (frontier_nonempty _ _ Hl eq_refl)|].
  destruct Flr as [|s4 Flr']; [exfalso; exact (frontier_nonempty _ _ Hr eq_refl)|].
  destruct (uleaves_nonempty s3) as [x Hx]. destruct (uleaves_nonempty s4) as [y Hy].
  assert (Xl : In x (uleaves ll)) by (eapply frontier_in_leaves; [exact Hl|left; reflexivity|exact Hx]).
  assert (Yr : In y (uleaves lr)) by (eapply frontier_in_leaves; [exact Hr|left; reflexivity|exact Hy]).
  exists s3, s4, x, y.
  split; [eapply Permutation_in; [symmetry; exact P|]; apply in_or_app; left; left; reflexivity|].
  split; [eapply Permutation_in; [symmetry; exact P|]; apply in_or_app; right; left; reflexivity|].
  split.
  - intros ->. assert (Xr : In x (uleaves lr)).
    { eapply frontier_in_leaves; [exact Hr|left; reflexivity|exact Hx]. }
    exact (NoDup_app_disj _ _ _ ND Xl Xr).
  - split; [exact Hx|]. split; [exact Hy|]. cbn [uheight]. apply lcah_cross; [exact ND|left; split; assumption].
Qed.

(* the lca height of two leaves depends only on the frontier elements they lie in *)
Lemma lcah_const T F : frontier T F -> NoDup (uleaves T) ->
  forall s1 s2, In s1 F -> In s2 F -> s1 <> s2 ->
  forall x y x0 y0, In x (uleaves s1) -> In y (uleaves s2) -> In x0 (uleaves s1) -> In y0 (uleaves s2) ->
    lcah T x y = lcah T x0 y0.
Proof.
  induction 1 as [T|h l r Fl Fr F Hl IHl Hr IHr P]; intros ND s1 s2 H1 H2 N x y x0 y0 X Y X0 Y0.
  - destruct H1 as [<-|[]], H2 as [<-|[]]. congruence.
  - cbn [uleaves] in ND.
    pose proof (Permutation_in _ P H1) as K1. pose proof (Permutation_in _ P H2) as K2.
    apply in_app_or in K1. apply in_app_or in K2.
    assert (inl : forall s x, In s Fl -> In x (uleaves s) -> In x (uleaves l)) by (intros; eapply frontier_in_leaves; eauto).
    assert (inr : forall s x, In s Fr -> In x (uleaves s) -> In x (uleaves r)) by (intros; eapply frontier_in_leaves; eauto).
    destruct K1 as [K1|K1], K2 as [K2|K2].
    + rewrite (lcah_left h l r x y), (lcah_left h l r x0 y0) by eauto.
      exact (IHl (NoDup_app_l _ _ ND) s1 s2 K1 K2 N x y x0 y0 X Y X0 Y0).
    + rewrite (lcah_cross h l r x y), (lcah_cross h l r x0 y0); try exact ND; try reflexivity; left; split; eauto.
    + rewrite (lcah_cross h l r x y), (lcah_cross h l r x0 y0); try exact ND; try reflexivity; right; split; eauto.
    + rewrite (lcah_right h l r x y), (lcah_right h l r x0 y0) by (try exact ND; eauto).
      exact (IHr (NoDup_app_r _ _ ND) s1 s2 K1 K2 N x y x0 y0 X Y X0 Y0).
Qed.

(* a pair of frontier elements of minimal lca height is a pair of siblings:
   replacing it by its parent gives a frontier again *)
Lemma frontier_merge T F : frontier T F -> mono T -> NoDup (uleaves T) ->
  forall s1 s2, In s1 F -> In s2 F -> s1 <> s2 ->
  (forall s3 s4, In s3 F -> In s4 F -> s3 <> s4 ->
     forall x y x' y', In x (uleaves s1) -> In y (uleaves s2) -> In x' (uleaves s3) -> In y' (uleaves s4) ->
       (lcah T x y <= lcah T x' y')%Q) ->
  exists h F', Permutation F (s1 :: s2 :: F') /\
    (frontier T (UNode h s1 s2 :: F') \/ frontier T (UNode h s2 s1 :: F')) /\
    forall x y, In x (uleaves s1) -> In y (uleaves s2) -> lcah T x y = h.
Proof.
  induction 1 as [T|h l r Fl Fr F Hl IHl Hr IHr P]; intros HM ND s1 s2 H1 H2 N Hmin.
  - destruct H1 as [<-|[]], H2 as [<-|[]]. congruence.
  - cbn [uleaves] in ND. cbn [mono] in HM. destruct HM as (Hlh & Hrh & Ml & Mr).
    pose proof (NoDup_app_l _ _ ND) as NDl. pose proof (NoDup_app_r _ _ ND) as NDr.
    assert (inF : forall s, In s (Fl ++ Fr) -> In s F) by (intros s Hs; exact (Permutation_in _ (Permutation_sym P) Hs)).
    pose proof (Permutation_in _ P H1) as K1. pose proof (Permutation_in _ P H2) as K2.
    apply in_app_or in K1. apply in_app_or in K2.
    assert (inl : forall s x, In s Fl -> In x (uleaves s) -> In x (uleaves l)) by (intros; eapply frontier_in_leaves; eauto).
    assert (inr : forall s x, In s Fr -> In x (uleaves s) -> In x (uleaves r)) by (intros; eapply frontier_in_leaves; eauto).
    destruct K1 as [K1|K1], K2 as [K2|K2].
    + (* both on the left *)
      destruct (IHl Ml NDl s1 s2 K1 K2 N) as (hN & Fl' & Pl & HN & Hv).
      { intros s3 s4 K3 K4 N34 x y x' y' X Y X' Y'.
        rewrite <- (lcah_left h l r x y) by eauto. rewrite <- (lcah_left h l r x' y') by eauto.
        apply (Hmin s3 s4); try assumption; apply inF, in_or_app; left; assumption. }
      exists hN, (Fl' ++ Fr). split; [|split].
      * eapply perm_trans; [exact P|]. change (s1 :: s2 :: Fl' ++ Fr) with ((s1 :: s2 :: Fl') ++ Fr).
        apply Permutation_app_tail. exact Pl.
      * destruct HN as [HN|HN]; [left|right]; (econstructor; [exact HN|exact Hr|apply Permutation_refl]).
      * intros x y X Y. rewrite lcah_left by eauto. exact (Hv x y X Y).
    + (* s1 left, s2 right: both sides must be single *)
      destruct (uleaves_nonempty s1) as [x X]. destruct (uleaves_nonempty s2) as [y Y].
      assert (Exy : lcah (UNode h l r) x y = h) by (apply lcah_cross; [exact ND|left; split; eauto]).
      destruct (frontier_two_below l Fl Hl NDl) as [El|(s3 & s4 & x' & y' & K3 & K4 & N34 & X' & Y' & E')].
      2:{ exfalso. pose proof (Hmin s3 s4 (inF _ (in_or_app _ _ _ (or_introl K3))) (inF _ (in_or_app _ _ _ (or_introl K4))) N34 x y x' y' X Y X' Y') as L.
          rewrite Exy, (lcah_left h l r x' y') in L by eauto. rewrite E' in L. lra. }
      destruct (frontier_two_below r Fr Hr NDr) as [Er|(s3 & s4 & x' & y' & K3 & K4 & N34 & X' & Y' & E')].
      2:{ exfalso. pose proof (Hmin s3 s4 (inF _ (in_or_app _ _ _ (or_intror K3))) (inF _ (in_or_app _ _ _ (or_intror K4))) N34 x y x' y' X Y X' Y') as L.
          rewrite Exy, (lcah_right h l r x' y') in L by eauto. rewrite E' in L. lra. }
      subst Fl Fr. destruct K1 as [<-|[]]. destruct K2 as [<-|[]].
      exists h, []. split; [exact P|]. split; [left; constructor|].
      intros x0 y0 X0 Y0. apply lcah_cross; [exact ND|left; split; assumption].
    + (* s1 right, s2 left *)
      destruct (uleaves_nonempty s1) as [x X]. destruct (uleaves_nonempty s2) as [y Y].
      assert (Exy : lcah (UNode h l r) x y = h) by (apply lcah_cross; [exact ND|right; split; eauto]).
      destruct (frontier_two_below l Fl Hl NDl) as [El|(s3 & s4 & x' & y' & K3 & K4 & N34 & X' & Y' & E')].
      2:{ exfalso. pose proof (Hmin s3 s4 (inF _ (in_or_app _ _ _ (or_introl K3))) (inF _ (in_or_app _ _ _ (or_introl K4))) N34 x y x' y' X Y X' Y') as L.
          rewrite Exy, (lcah_left h l r x' y') in L by eauto. rewrite E' in L. lra. }
      destruct (frontier_two_below r Fr Hr NDr) as [Er|(s3 & s4 & x' & y' & K3 & K4 & N34 & X' & Y' & E')].
      2:{ exfalso. pose proof (Hmin s3 s4 (inF _ (in_or_app _ _ _ (or_intror K3))) (inF _ (in_or_app _ _ _ (or_intror K4))) N34 x y x' y' X Y X' Y') as L.
          rewrite Exy, (lcah_right h l r x' y') in L by eauto. rewrite E' in L. lra. }
      subst Fl Fr. destruct K1 as [<-|[]]. destruct K2 as [<-|[]].
      exists h, []. split; [eapply perm_trans; [exact P|apply perm_swap]|]. split; [right; constructor|].
      intros x0 y0 X0 Y0. apply lcah_cross; [exact ND|right; split; assumption].
    + (* both on the right *)
      destruct (IHr Mr NDr s1 s2 K1 K2 N) as (hN & Fr' & Pr & HN & Hv).
      { intros s3 s4 K3 K4 N34 x y x' y' X Y X' Y'.
        rewrite <- (lcah_right h l r x y) by eauto. rewrite <- (lcah_right h l r x' y') by eauto.
        apply (Hmin s3 s4); try assumption; apply inF, in_or_app; right; assumption. }
      exists hN, (Fl ++ Fr'). split; [|split].
      * eapply perm_trans; [exact P|].
        eapply perm_trans; [apply Permutation_app_head; exact Pr|].
        eapply perm_trans; [symmetry; apply Permutation_middle|]. apply perm_skip.
        symmetry. apply Permutation_middle.
      * destruct HN as [HN|HN]; [left|right]; (econstructor; [exact Hl|exact HN|apply Permutation_middle]).
      * intros x y X Y. rewrite lcah_right by eauto. exact (Hv x y X Y).
Qed.

(* ------------------------------------------------------------------ *)
(* averages of constant lists *)
Lemma qsum_const (l : list Q) c : (forall x, In x l -> (x == c)%Q) ->
  (qsum l == c * inject_Z (Z.of_nat (length l)))%Q.
Proof.
  induction l as [|x tl IH]; intros H.
  - cbn. ring.
  - cbn [qsum fold_right length]. change (fold_right Qplus 0%Q tl) with (qsum tl).
    rewrite (H x (or_introl eq_refl)), IH by (intros y Hy; apply H; right; exact Hy).
    rewrite Nat2Z.inj_succ. unfold Z.succ. rewrite inject_Z_plus. ring.
Qed.

Lemma qavg_const (l : list Q) c : l <> [] -> (forall x, In x l -> (x == c)%Q) -> (qavg l == c)%Q.
Proof.
  intros NE H. unfold qavg. rewrite (qsum_const l c H).
  assert (Hn : ~ (inject_Z (Z.of_nat (length l)) == 0)%Q).
  { destruct l as [|x tl]; [congruence|]. cbn [length]. rewrite Nat2Z.inj_succ.
    unfold Qeq. cbn. lia. }
  field. exact Hn.
Qed.

Lemma in_cross d va vb z : In z (cross d va vb) <-> exists x y, In x va /\ In y vb /\ z = d x y.
Proof.
  unfold cross. rewrite in_flat_map. split.
  - intros [x [Hx H]]. apply in_map_iff in H. destruct H as [y [E Hy]]. exists x, y. repeat split; auto.
  - intros (x & y & Hx & Hy & ->). exists x. split; [exact Hx|]. apply in_map_iff. exists y. split; auto.
Qed.

Lemma cross_nonempty d va vb : va <> [] -> vb <> [] -> cross d va vb <> [].
Proof.
  destruct va as [|x ta]; [congruence|]. destruct vb as [|y tb]; [congruence|]. intros _ _. discriminate.
Qed.

Lemma NoDup_map_inj {A B} (f : A -> B) (l : list A) a b :
  NoDup (map f l) -> In a l -> In b l -> f a = f b -> a = b.
Proof.
  induction l as [|x tl IH]; intros ND Ha Hb E; [destruct Ha|].
  cbn [map] in ND. inversion ND as [|y l' Hx NDtl]; subst.
  destruct Ha as [->|Ha], Hb as [->|Hb]; [reflexivity| | |exact (IH NDtl Ha Hb E)].
  - exfalso. apply Hx. rewrite E. apply in_map. exact Hb.
  - exfalso. apply Hx. rewrite <- E. apply in_map. exact Ha.
Qed.

Lemma tmatch_leaves t s : tmatch t s -> Permutation (leaves t) (uleaves s).
Proof.
  induction 1 as [x|l bl r br h ul ur Hl IHl Hr IHr _ _|l bl r br h ul ur Hl IHl Hr IHr _ _];
    cbn [leaves uleaves]; [apply Permutation_refl|apply Permutation_app; assumption|].
  eapply perm_trans; [apply Permutation_app; [exact IHl|exact IHr]|apply Permutation_app_comm].
Qed.

(* ------------------------------------------------------------------ *)
Section Recover.
  Variable T : utree.
  Variable d : nat -> nat -> Q.
  Variable n : nat.
  Hypothesis T_nodup : NoDup (uleaves T).
  Hypothesis T_taxa : Permutation (uleaves T) (seq 0 n).
  Hypothesis T_mono : mono T.
  Hypothesis d_lca : forall x y, In x (uleaves T) -> In y (uleaves T) -> x <> y ->
                                 (d x y == lcah T x y)%Q.

  Definition rtrees (st : ustate) (D : dict) (sub_of : nat -> utree) : Prop :=
    forall k v, In (k, v) (fst st) ->
      exists t, dget k D = Some t /\ leaves t = v /\ tmatch t (sub_of k) /\
                (getq k (snd st) == uheight (sub_of k) / 2)%Q.

  Definition rP (st : ustate) (D : dict) (next : nat) : Prop :=
    uinv st next /\
    (forall k, In k (map fst D) -> k < next) /\
    next + length (fst st) = 2 * n /\
    exists sub_of, frontier T (map sub_of (keys (fst st))) /\ rtrees st D sub_of.

  Definition rQf (D : dict) (nf : nat) : Prop :=
    nf = 2 * n - 1 /\ exists t, dget (nf - 1) D = Some t /\ tmatch t T.

  (* the score of two live clusters is the lca height of their subtrees *)
  Lemma score_lca st D sub_of a b va vb :
    wf (fst st) -> frontier T (map sub_of (keys (fst st))) -> rtrees st D sub_of ->
    In (a, va) (fst st) -> In (b, vb) (fst st) -> a <> b ->
    sub_of a <> sub_of b /\
    forall x y, In x (uleaves (sub_of a)) -> In y (uleaves (sub_of b)) ->
      (qavg (cross d va vb) == lcah T x y)%Q.
  Proof.
    intros W HF HT Ha Hb N.
    pose proof (frontier_nodup _ _ HF T_nodup) as NDF.
    assert (Ka : In a (keys (fst st))) by exact (in_keys _ _ _ Ha).
    assert (Kb : In b (keys (fst st))) by exact (in_keys _ _ _ Hb).
    assert (Ns : sub_of a <> sub_of b).
    { intros E. apply N. exact (NoDup_map_inj sub_of _ a b NDF Ka Kb E). }
    split; [exact Ns|]. intros x y X Y.
    destruct (HT _ _ Ha) as (ta & _ & La & Ma & _). destruct (HT _ _ Hb) as (tb & _ & Lb & Mb & _).
    pose proof (tmatch_leaves _ _ Ma) as Pa. pose proof (tmatch_leaves _ _ Mb) as Pb.
    rewrite La in Pa. rewrite Lb in Pb.
    assert (Sa : In (sub_of a) (map sub_of (keys (fst st)))) by (apply in_map; exact Ka).
    assert (Sb : In (sub_of b) (map sub_of (keys (fst st)))) by (apply in_map; exact Kb).
    apply qavg_const.
    - apply cross_nonempty.
      + intros ->. apply Permutation_nil in Pa. rewrite Pa in X. destruct X.
      + intros ->. apply Permutation_nil in Pb. rewrite Pb in Y. destruct Y.
    - intros z Hz. apply in_cross in Hz. destruct Hz as (x0 & y0 & X0 & Y0 & ->).
      pose proof (Permutation_in _ Pa X0) as X0'. pose proof (Permutation_in _ Pb Y0) as Y0'.
      rewrite d_lca.
      + rewrite (lcah_const _ _ HF T_nodup _ _ Sa Sb Ns x0 y0 x y X0' Y0' X Y). reflexivity.
      + exact (frontier_in_leaves _ _ _ _ HF Sa X0').
      + exact (frontier_in_leaves _ _ _ _ HF Sb Y0').
      + intros ->. exact (frontier_disjoint _ _ _ _ _ HF T_nodup Sa Sb Ns X0' Y0').
  Qed.

  Lemma rP_step st D next r st' : rP st D next -> upgma_step d st = Some (r, st') ->
    length (fst st') - 1 < length (fst st) - 1 /\
    exists a b c e ta tb, r = (a, b, c, e) /\ dget a D = Some ta /\ dget b D = Some tb /\
      rP st' (D ++ [(next, Node ta c tb e)]) (S next).
  Proof.
    intros (HI & HD & Hlen & sub_of & HF & HT) E.
    destruct (uinv_step _ _ _ _ _ HI E) as (a & b & va & vb & Ha & Hb & N & Hmin & Hr & Hst & HI').
    destruct st as [cl br]. destruct HI as (W & NE & Hn). cbn [fst snd] in W, NE, Hn, Ha, Hb, Hmin, Hr, Hst, Hlen, HF.
    pose proof (length_merged cl a b va vb W Ha Hb N) as Hlm.
    assert (Hl1 : 1 <= length (merged cl a b va vb)).
    { unfold merged. rewrite app_length. cbn [length]. lia. }
    destruct (HT _ _ Ha) as (ta & Hta & Lta & Mta & Gta).
    destruct (HT _ _ Hb) as (tb & Htb & Ltb & Mtb & Gtb).
    cbn [snd] in Gta, Gtb.
    destruct (score_lca (cl, br) D sub_of a b va vb W HF HT Ha Hb N) as (Ns & Hscore).
    assert (Ka : In a (keys cl)) by exact (in_keys _ _ _ Ha).
    assert (Kb : In b (keys cl)) by exact (in_keys _ _ _ Hb).
    (* minimality in terms of lca heights *)
    destruct (frontier_merge T _ HF T_mono T_nodup (sub_of a) (sub_of b)
                (in_map sub_of _ _ Ka) (in_map sub_of _ _ Kb) Ns) as (h & F' & PF & HN & Hv).
    { intros s3 s4 K3 K4 N34 x y x' y' X Y X' Y'.
      apply in_map_iff in K3. destruct K3 as (a' & <- & Ka').
      apply in_map_iff in K4. destruct K4 as (b' & <- & Kb').
      destruct (keys_in _ _ Ka') as (va' & Ha'). destruct (keys_in _ _ Kb') as (vb' & Hb').
      assert (N' : a' <> b') by (intros ->; apply N34; reflexivity).
      destruct (score_lca (cl, br) D sub_of a' b' va' vb' W HF HT Ha' Hb' N') as (_ & Hscore').
      rewrite <- (Hscore x y X Y), <- (Hscore' x' y' X' Y').
      exact (Hmin a' b' va' vb' Ha' Hb' N'). }
    set (m := qavg (cross d va vb)) in *.
    assert (Em : (m == h)%Q).
    { destruct (uleaves_nonempty (sub_of a)) as [x X]. destruct (uleaves_nonempty (sub_of b)) as [y Y].
      rewrite (Hscore x y X Y), (Hv x y X Y). reflexivity. }
    subst st'. cbn [fst snd]. split; [lia|].
    exists a, b, (m / 2 - getq a br)%Q, (m / 2 - getq b br)%Q, ta, tb.
    split; [exact Hr|]. split; [exact Hta|]. split; [exact Htb|].
    split; [exact HI'|]. split; [|split].
    - intros k. rewrite map_app, in_app_iff. cbn [map fst In]. intros [H|[H|[]]]; [apply HD in H; lia|lia].
    - cbn [fst]. lia.
    - (* the new association of keys to subtrees *)
      assert (HNd : exists Nd, frontier T (Nd :: F') /\ uheight Nd = h /\
                    tmatch (Node ta (m / 2 - getq a br) tb (m / 2 - getq b br)) Nd).
      { destruct HN as [HN|HN].
        - exists (UNode h (sub_of a) (sub_of b)). split; [exact HN|]. split; [reflexivity|].
          apply tm_node; [exact Mta|exact Mtb| |]; [rewrite Gta, Em; reflexivity|rewrite Gtb, Em; reflexivity].
        - exists (UNode h (sub_of b) (sub_of a)). split; [exact HN|]. split; [reflexivity|].
          apply tm_swap; [exact Mta|exact Mtb| |]; [rewrite Gta, Em; reflexivity|rewrite Gtb, Em; reflexivity]. }
      destruct HNd as (Nd & HFN & HhN & HtN).
      exists (fun k => if Nat.eqb k next then Nd else sub_of k).
      split.
      + cbn [fst]. rewrite keys_merged by exact W. rewrite map_app. cbn [map]. rewrite Hn, Nat.eqb_refl.
        set (R := remove Nat.eq_dec b (remove Nat.eq_dec a (keys cl))).
        assert (ER : map (fun k => if Nat.eqb k next then Nd else sub_of k) R = map sub_of R).
        { apply map_ext_in. intros k Hk. unfold R in Hk. rewrite !in_remove_iff in Hk.
          assert (Hlt : k < next) by (rewrite <- Hn; apply key_lt_idx; tauto).
          assert (Ek : Nat.eqb k next = false) by (apply Nat.eqb_neq; lia). rewrite Ek. reflexivity. }
        rewrite ER.
        assert (PR : Permutation (map sub_of (keys cl)) (sub_of a :: sub_of b :: map sub_of R)).
        { change (sub_of a :: sub_of b :: map sub_of R) with (map sub_of (a :: b :: R)).
          apply Permutation_map. eapply perm_trans; [exact (remove_perm _ a W Ka)|]. apply perm_skip.
          apply remove_perm; [apply NoDup_remove_nat; exact W|]. apply in_remove_iff. split; [exact Kb|congruence]. }
        assert (PF' : Permutation F' (map sub_of R)).
        { eapply Permutation_cons_inv, Permutation_cons_inv.
          eapply perm_trans; [symmetry; exact PF|exact PR]. }
        eapply frontier_perm; [exact HFN|].
        eapply perm_trans; [apply perm_skip; exact PF'|apply Permutation_cons_append].
      + intros k v Hk. cbn [fst] in Hk. apply in_merged in Hk; [|exact W]. cbn [snd].
        destruct Hk as [(Hk & Nka & Nkb)|Hk].
        * destruct (HT _ _ Hk) as (t & Ht & Lt & Mt & Gt). cbn [snd] in Gt.
          assert (Hlt : k < next) by (rewrite <- Hn; apply key_lt_idx; exact (in_keys _ _ _ Hk)).
          assert (Ek : Nat.eqb k next = false) by (apply Nat.eqb_neq; lia).
          exists t. rewrite Ek. split; [apply dget_app_some; exact Ht|]. split; [exact Lt|].
          split; [exact Mt|]. cbn [getq]. rewrite Ek. exact Gt.
        * rewrite Hn in Hk. inversion Hk; subst k v. rewrite Nat.eqb_refl.
          exists (Node ta (m / 2 - getq a br) tb (m / 2 - getq b br)).
          split; [apply dget_app_new; intros H; apply HD in H; lia|].
          split; [cbn [leaves]; rewrite Lta, Ltb; reflexivity|].
          split; [exact HtN|]. cbn [getq]. rewrite Nat.eqb_refl, HhN, Em. reflexivity.
  Qed.

  Lemma rP_last st D next : rP st D next -> upgma_step d st = None ->
    exists D', nwk_run D next [] = Some D' /\ rQf D' (next + length (@nil row)).
  Proof.
    intros (HI & HD & Hlen & sub_of & HF & HT) E. destruct st as [cl br]. cbn [fst snd] in *.
    destruct HI as (W & NE & Hn). cbn [fst] in W, NE, Hn. apply upgma_step_none in E; [|exact W].
    destruct cl as [|[k v] [|c2 tl]]; [exfalso; apply NE; reflexivity| |cbn [length] in E; lia].
    exists D. split; [reflexivity|]. cbn [length] in *. rewrite Nat.add_0_r.
    cbn [keys map fst list_max fold_right] in Hn.
    split; [lia|].
    destruct (HT k v (or_introl eq_refl)) as (t & Ht & Lt & Mt & _).
    exists t. replace (next - 1) with k by lia. split; [exact Ht|].
    cbn [keys map fst] in HF. apply frontier_single in HF. rewrite <- HF. exact Mt.
  Qed.

  Lemma n_pos : 1 <= n.
  Proof.
    destruct (uleaves_nonempty T) as [x Hx]. apply (Permutation_in _ T_taxa) in Hx.
    apply in_seq in Hx. lia.
  Qed.

  Lemma rP_init : rP (upgma_init n) (nwk_init n) n.
  Proof.
    split; [apply uinv_init; exact n_pos|]. split; [|split].
    - intros k. rewrite keys_init, in_seq. lia.
    - unfold upgma_init. cbn [fst]. rewrite map_length, seq_length. lia.
    - exists ULeaf. split.
      + rewrite keys_upgma_init. eapply frontier_perm; [apply frontier_all_leaves|].
        apply Permutation_map. exact T_taxa.
      + unfold rtrees, upgma_init. cbn [fst snd]. intros k v Hk. apply in_map_iff in Hk.
        destruct Hk as [i [Ei Hi]]. inversion Ei; subst k v. apply in_seq in Hi.
        exists (Leaf i). split; [apply dget_init; lia|]. split; [reflexivity|].
        split; [constructor|]. rewrite getq_init. cbn [uheight]. reflexivity.
  Qed.

  Theorem upgma_recovers_tree : exists t, upgma_tree n d = Some t /\ tmatch t T.
  Proof.
    unfold upgma_tree, upgma_rows. rewrite upgma_run_grun.
    destruct (grun_nwk ustate (upgma_step d) (fun _ => []) rP rQf (fun st => length (fst st) - 1)
                rP_step rP_last n (upgma_init n) (nwk_init n) n rP_init) as (D' & HD' & Hnf & t & Ht & Hm).
    { unfold upgma_init. cbn [fst]. rewrite map_length, seq_length. pose proof n_pos. lia. }
    exists t. unfold nwk. pose proof n_pos as Hn. destruct n as [|n']; [lia|]. rewrite HD'.
    split; [|exact Hm].
    set (rows := grun ustate (upgma_step d) (fun _ => []) (S n') (upgma_init (S n'))) in *.
    replace (S n' + length rows - 1) with (S n' + length rows - 1) by reflexivity. exact Ht.
  Qed.
End Recover.
