(* The cherry-picking lemma of Neighbor-Joining (Saitou-Nei, Studier-Keppler):
   on the path metric of a binary tree with positive branch lengths, a pair
   minimising the Q-criterion is a cherry of the tree.

   Part 1 (algebra, any symmetric zero-diagonal matrix):
     (N-2) * Q(a,b) = - ( 2 d(a,b) + sum_{k <> a,b} (d(a,k) + d(b,k) - d(a,b)) )
   so minimising Q is maximising  Tsum(a,b) = 2 d(a,b) + sum_k G_k(a,b). *)
From Coq Require Import QArith List Arith Bool Lia Permutation Lqa.
From LV Require Import Cluster.Nwk Cluster.NwkProofs Cluster.Upgma Cluster.UpgmaProofs Cluster.UpgmaRecover
  Cluster.Neighbor Cluster.NeighborProofs Cluster.TreeBuildExec Cluster.NeighborRecover Cluster.NjTree.
Import ListNotations.
Local Open Scope nat_scope.

(* twice the distance of k from the path between a and b (Gromov product); 0 at a and b *)
Definition gp (d : nat -> nat -> Q) (a b k : nat) : Q :=
  if Nat.eqb k a || Nat.eqb k b then 0%Q else (d a k + d b k - d a b)%Q.

Definition Tsum (d : nat -> nat -> Q) (n a b : nat) : Q :=
  (2 * d a b + qsum (map (gp d a b) (seq 0 n)))%Q.

Lemma qsum_add {A} (f g : A -> Q) l :
  (qsum (map f l) + qsum (map g l) == qsum (map (fun x => f x + g x) l))%Q.
Proof.
  induction l as [|x tl IH]; cbn [map]; [cbn; ring|].
  rewrite !qsum_cons, <- IH. ring.
Qed.

Lemma qsum_map_ext {A} (f g : A -> Q) l : (forall x, In x l -> (f x == g x)%Q) ->
  (qsum (map f l) == qsum (map g l))%Q.
Proof.
  induction l as [|x tl IH]; intros H; [reflexivity|]. cbn [map]. rewrite !qsum_cons.
  rewrite (H x (or_introl eq_refl)), IH; [reflexivity|]. intros y Hy. apply H. right. exact Hy.
Qed.

Section QIdentity.
  Variable m : mat.
  Variable n : nat.
  Hypothesis Sq : msquare m n.
  Hypothesis Sy : msym m n.
  Hypothesis Dg : mdiag0 m n.
  Hypothesis Hn : 3 <= n.

  Lemma qN2_val : (qN2 m == inject_Z (Z.of_nat n) - 2)%Q.
  Proof. unfold qN2. destruct Sq as [-> _]. unfold Z.sub. rewrite inject_Z_plus, inject_Z_opp. reflexivity. Qed.

  Lemma rows_sum a b : a < n -> b < n -> a <> b ->
    (qsum (nth a m []) + qsum (nth b m [])
     == qsum (map (gp (dm m) a b) (seq 0 n)) + inject_Z (Z.of_nat n) * dm m a b)%Q.
  Proof.
    intros Ha Hb N. rewrite (row_sum m n a Sq Ha), (row_sum m n b Sq Hb).
    rewrite qsum_add.
    assert (E : (qsum (map (fun k => dm m a k + dm m b k) (seq 0 n))
                 - qsum (map (gp (dm m) a b) (seq 0 n))
                 == dm m a b * inject_Z (Z.of_nat (length (map (fun k => dm m a k + dm m b k - gp (dm m) a b k) (seq 0 n)))))%Q).
    { rewrite qsum_sub. apply qsum_const. intros x Hx. apply in_map_iff in Hx.
      destruct Hx as [k [<- Hk]]. apply in_seq in Hk. unfold gp.
      destruct (Nat.eqb k a) eqn:Ea; [apply Nat.eqb_eq in Ea; subst k; cbn [orb]|].
      - rewrite (Dg a Ha), (Sy b a Hb Ha). ring.
      - destruct (Nat.eqb k b) eqn:Eb; [apply Nat.eqb_eq in Eb; subst k; cbn [orb]|cbn [orb]].
        + rewrite (Dg b Hb). ring.
        + ring. }
    rewrite map_length, seq_length in E. lra.
  Qed.

  Lemma Q_as_Tsum a b : a < n -> b < n -> a <> b ->
    ((inject_Z (Z.of_nat n) - 2) * nj_q m a b == - Tsum (dm m) n a b)%Q.
  Proof.
    intros Ha Hb N. unfold nj_q, nj_avg, Tsum. rewrite qN2_val.
    assert (NZ : ~ (inject_Z (Z.of_nat n) - 2 == 0)%Q).
    { unfold Qeq, Qminus. cbn. lia. }
    pose proof (rows_sum a b Ha Hb N) as R. rewrite (Sy b a Hb Ha).
    set (ra := qsum (nth a m [])) in *. set (rb := qsum (nth b m [])) in *.
    set (s := qsum (map (gp (dm m) a b) (seq 0 n))) in *. set (nn := inject_Z (Z.of_nat n)) in *.
    assert (E : ((nn - 2) * (dm m a b - rb / (nn - 2) - ra / (nn - 2)) == (nn - 2) * dm m a b - (ra + rb))%Q)
      by (field; exact NZ).
    rewrite E, R. ring.
  Qed.

  (* a smaller criterion value is a larger Tsum *)
  Lemma Q_le_Tsum a b c d : a < n -> b < n -> a <> b -> c < n -> d < n -> c <> d ->
    (nj_q m a b <= nj_q m c d)%Q -> (Tsum (dm m) n c d <= Tsum (dm m) n a b)%Q.
  Proof.
    intros Ha Hb Nab Hc Hd Ncd H.
    pose proof (Q_as_Tsum a b Ha Hb Nab) as E1. pose proof (Q_as_Tsum c d Hc Hd Ncd) as E2.
    assert (P : (0 < inject_Z (Z.of_nat n) - 2)%Q).
    { unfold Qlt, Qminus. cbn. lia. }
    set (k := (inject_Z (Z.of_nat n) - 2)%Q) in *.
    assert (M : (k * nj_q m a b <= k * nj_q m c d)%Q).
    { rewrite !(Qmult_comm k). apply Qmult_le_compat_r; [exact H|apply Qlt_le_weak; exact P]. }
    lra.
  Qed.
End QIdentity.
