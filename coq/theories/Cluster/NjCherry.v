(* The cherry-picking lemma of Neighbor-Joining (Saitou-Nei, Studier-Keppler):
   on the path metric of a binary tree with positive branch lengths, a pair
   minimising the Q-criterion is a cherry of the tree.

   Part 1 (algebra, any symmetric zero-diagonal matrix):
     (N-2) * Q(a,b) = - ( 2 d(a,b) + sum_{k <> a,b} (d(a,k) + d(b,k) - d(a,b)) )
   so minimising Q is maximising  Tsum(a,b) = 2 d(a,b) + sum_k G_k(a,b). *)
From Coq Require Import QArith List Arith Bool Lia Permutation Lqa.
From LV Require Import Cluster.Nwk Cluster.NwkProofs Cluster.Upgma Cluster.UpgmaProofs Cluster.UpgmaRecover
  Cluster.Neighbor Cluster.NeighborProofs Cluster.TreeBuildExec Cluster.NeighborRecover Cluster.NjTree.
Import ListNotations.
Local Open Scope nat_scope.

(* twice the distance of k from the path between a and b (Gromov product); 0 at a and b *)
Definition gp (d : nat -> nat -> Q) (a b k : nat) : Q :=
  if Nat.eqb k a || Nat.eqb k b then 0%Q else (d a k + d b k - d a b)%Q.

Definition Tsum (d : nat -> nat -> Q) (n a b : nat) : Q :=
  (2 * d a b + qsum (map (gp d a b) (seq 0 n)))%Q.

Lemma qsum_add {A} (f g : A -> Q) l :
  (qsum (map f l) + qsum (map g l) == qsum (map (fun x => f x + g x) l))%Q.
Proof.
  induction l as [|x tl IH]; cbn [map]; [cbn; ring|].
  rewrite !qsum_cons, <- IH. ring.
Qed.

Lemma qsum_map_ext {A} (f g : A -> Q) l : (forall x, In x l -> (f x == g x)%Q) ->
  (qsum (map f l) == qsum (map g l))%Q.
Proof.
  induction l as [|x tl IH]; intros H; [reflexivity|]. cbn [map]. rewrite !qsum_cons.
  rewrite (H x (or_introl eq_refl)), IH; [reflexivity|]. intros y Hy. apply H. right. exact Hy.
Qed.

Section QIdentity.
  Variable m : mat.
  Variable n : nat.
  Hypothesis Sq : msquare m n.
  Hypothesis Sy : msym m n.
  Hypothesis Dg : mdiag0 m n.
  Hypothesis Hn : 3 <= n.

  Lemma qN2_val : (qN2 m == inject_Z (Z.of_nat n) - 2)%Q.
  Proof. unfold qN2. destruct Sq as [-> _]. unfold Z.sub. rewrite inject_Z_plus, inject_Z_opp. reflexivity. Qed.

  Lemma rows_sum a b : a < n -> b < n -> a <> b ->
    (qsum (nth a m []) + qsum (nth b m [])
     == qsum (map (gp (dm m) a b) (seq 0 n)) + inject_Z (Z.of_nat n) * dm m a b)%Q.
  Proof.
    intros Ha Hb N. rewrite (row_sum m n a Sq Ha), (row_sum m n b Sq Hb).
    rewrite qsum_add.
    assert (E : (qsum (map (fun k => dm m a k + dm m b k) (seq 0 n))
                 - qsum (map (gp (dm m) a b) (seq 0 n))
                 == dm m a b * inject_Z (Z.of_nat (length (map (fun k => dm m a k + dm m b k - gp (dm m) a b k) (seq 0 n)))))%Q).
    { rewrite qsum_sub. apply qsum_const. intros x Hx. apply in_map_iff in Hx.
      destruct Hx as [k [<- Hk]]. apply in_seq in Hk. unfold gp.
      destruct (Nat.eqb k a) eqn:Ea; [apply Nat.eqb_eq in Ea; subst k; cbn [orb]|].
      - rewrite (Dg a Ha), (Sy b a Hb Ha). ring.
      - destruct (Nat.eqb k b) eqn:Eb; [apply Nat.eqb_eq in Eb; subst k; cbn [orb]|cbn [orb]].
        + rewrite (Dg b Hb). ring.
        + ring. }
    rewrite map_length, seq_length in E. lra.
  Qed.

  Lemma Q_as_Tsum a b : a < n -> b < n -> a <> b ->
    ((inject_Z (Z.of_nat n) - 2) * nj_q m a b == - Tsum (dm m) n a b)%Q.
  Proof.
    intros Ha Hb N. unfold nj_q, nj_avg, Tsum. rewrite qN2_val.
    assert (NZ : ~ (inject_Z (Z.of_nat n) - 2 == 0)%Q).
    { unfold Qeq, Qminus. cbn. lia. }
    pose proof (rows_sum a b Ha Hb N) as R. rewrite (Sy b a Hb Ha).
    set (ra := qsum (nth a m [])) in *. set (rb := qsum (nth b m [])) in *.
    set (s := qsum (map (gp (dm m) a b) (seq 0 n))) in *. set (nn := inject_Z (Z.of_nat n)) in *.
    assert (E : ((nn - 2) * (dm m a b - rb / (nn - 2) - ra / (nn - 2)) == (nn - 2) * dm m a b - (ra + rb))%Q)
      by (field; exact NZ).
    rewrite E, R. ring.
  Qed.

  (* a smaller criterion value is a larger Tsum *)
  Lemma Q_le_Tsum a b c d : a < n -> b < n -> a <> b -> c < n -> d < n -> c <> d ->
    (nj_q m a b <= nj_q m c d)%Q -> (Tsum (dm m) n c d <= Tsum (dm m) n a b)%Q.
  Proof.
    intros Ha Hb Nab Hc Hd Ncd H.
    pose proof (Q_as_Tsum a b Ha Hb Nab) as E1. pose proof (Q_as_Tsum c d Hc Hd Ncd) as E2.
    assert (P : (0 < inject_Z (Z.of_nat n) - 2)%Q).
    { unfold Qlt, Qminus. cbn. lia. }
    set (k := (inject_Z (Z.of_nat n) - 2)%Q) in *.
    assert (M : (k * nj_q m a b <= k * nj_q m c d)%Q).
    { rewrite !(Qmult_comm k). apply Qmult_le_compat_r; [exact H|apply Qlt_le_weak; exact P]. }
    lra.
  Qed.
End QIdentity.

(* ------------------------------------------------------------------ *)
(* sums over lists of leaves *)
Lemma qsum_app l1 l2 : (qsum (l1 ++ l2) == qsum l1 + qsum l2)%Q.
Proof. induction l1 as [|x tl IH]; [cbn; ring|]. cbn [app]. rewrite !qsum_cons, IH. ring. Qed.

Lemma qsum_ge {A} (F : A -> Q) c l : (forall x, In x l -> (c <= F x)%Q) ->
  (c * inject_Z (Z.of_nat (length l)) <= qsum (map F l))%Q.
Proof.
  induction l as [|x tl IH]; intros H; [cbn; lra|].
  cbn [map length]. rewrite qsum_cons, Nat2Z.inj_succ. unfold Z.succ. rewrite inject_Z_plus.
  pose proof (H x (or_introl eq_refl)). pose proof (IH (fun y Hy => H y (or_intror Hy))).
  change (inject_Z 1) with 1%Q. lra.
Qed.

Lemma split_one (l : list nat) a : NoDup l -> In a l ->
  exists r, Permutation l (a :: r) /\ S (length r) = length l /\
            forall k, In k r -> In k l /\ k <> a.
Proof.
  intros ND H. exists (remove Nat.eq_dec a l).
  pose proof (remove_perm l a ND H) as P. split; [exact P|]. split.
  - apply Permutation_length in P. cbn [length] in P. lia.
  - intros k Hk. apply in_remove_iff in Hk. exact Hk.
Qed.

Lemma scale_count c (nU nD nC : nat) : (0 < c)%Q -> nC + 1 <= nU + nD ->
  (c <= c * inject_Z (Z.of_nat nU) + c * inject_Z (Z.of_nat nD) - c * inject_Z (Z.of_nat nC))%Q.
Proof.
  intros Hc H.
  assert (E : (inject_Z (Z.of_nat nU) + inject_Z (Z.of_nat nD) - inject_Z (Z.of_nat nC)
               == inject_Z (Z.of_nat nU + Z.of_nat nD - Z.of_nat nC))%Q).
  { unfold Z.sub. rewrite !inject_Z_plus, inject_Z_opp. ring. }
  assert (L : (1 <= inject_Z (Z.of_nat nU + Z.of_nat nD - Z.of_nat nC))%Q).
  { change 1%Q with (inject_Z 1). rewrite <- Zle_Qle. lia. }
  rewrite <- E in L.
  set (t := (inject_Z (Z.of_nat nU) + inject_Z (Z.of_nat nD) - inject_Z (Z.of_nat nC))%Q) in *.
  assert (M : (c * 1 <= c * t)%Q) by (apply Qmult_le_l; assumption).
  unfold t in M. lra.
Qed.

(* ------------------------------------------------------------------ *)
(* Part 2: a tree seen from a node with three neighbours: U (towards a), the
   hanging clade C, D (towards b) *)
Section Shape.
  Variables (U C D : tree) (ux uy f dl : Q).
  Let S := Node U ux (Node C f D dl) uy.
  Variable d : nat -> nat -> Q.
  Variable n : nat.
  Hypothesis ND : NoDup (leaves U ++ leaves C ++ leaves D).
  Hypothesis HP : positive S.
  Hypothesis Hd : forall x y, In x (leaves S) -> In y (leaves S) -> x <> y -> (d x y == tdist S x y)%Q.
  Hypothesis Hn : Permutation (leaves S) (seq 0 n).

  Lemma NDU : NoDup (leaves U). Proof. exact (NoDup_app_l _ _ ND). Qed.
  Lemma NDCD : NoDup (leaves C ++ leaves D). Proof. exact (NoDup_app_r _ _ ND). Qed.
  Lemma NDC : NoDup (leaves C). Proof. exact (NoDup_app_l _ _ NDCD). Qed.
  Lemma NDD : NoDup (leaves D). Proof. exact (NoDup_app_r _ _ NDCD). Qed.
  Lemma NDS : NoDup (leaves S). Proof. exact ND. Qed.

  Lemma inU x : In x (leaves U) -> In x (leaves S).
  Proof. intros H. unfold S. cbn [leaves]. apply in_or_app. left. exact H. Qed.
  Lemma inC x : In x (leaves C) -> In x (leaves S).
  Proof. intros H. unfold S. cbn [leaves]. apply in_or_app. right. apply in_or_app. left. exact H. Qed.
  Lemma inD x : In x (leaves D) -> In x (leaves S).
  Proof. intros H. unfold S. cbn [leaves]. apply in_or_app. right. apply in_or_app. right. exact H. Qed.

  Lemma UC_neq x y : In x (leaves U) -> In y (leaves C) -> x <> y.
  Proof. intros Hx Hy ->. apply (NoDup_app_disj _ _ y ND Hx). apply in_or_app. left. exact Hy. Qed.
  Lemma UD_neq x y : In x (leaves U) -> In y (leaves D) -> x <> y.
  Proof. intros Hx Hy ->. apply (NoDup_app_disj _ _ y ND Hx). apply in_or_app. right. exact Hy. Qed.
  Lemma CD_neq x y : In x (leaves C) -> In y (leaves D) -> x <> y.
  Proof. intros Hx Hy ->. exact (NoDup_app_disj _ _ y NDCD Hx Hy). Qed.

  Lemma flagsU x : In x (leaves U) -> has U x = true /\ has C x = false /\ has D x = false.
  Proof.
    intros H. split; [exact (has_true _ _ H)|]. split; apply has_false; intros K.
    - exact (UC_neq x x H K eq_refl). - exact (UD_neq x x H K eq_refl).
  Qed.
  Lemma flagsC x : In x (leaves C) -> has U x = false /\ has C x = true /\ has D x = false.
  Proof.
    intros H. split; [apply has_false; intros K; exact (UC_neq x x K H eq_refl)|].
    split; [exact (has_true _ _ H)|apply has_false; intros K; exact (CD_neq x x H K eq_refl)].
  Qed.
  Lemma flagsD x : In x (leaves D) -> has U x = false /\ has C x = false /\ has D x = true.
  Proof.
    intros H. split; [apply has_false; intros K; exact (UD_neq x x K H eq_refl)|].
    split; [apply has_false; intros K; exact (CD_neq x x K H eq_refl)|exact (has_true _ _ H)].
  Qed.

  Ltac tab X Y :=
    destruct X as (X1 & X2 & X3); destruct Y as (Y1 & Y2 & Y3);
    unfold S; cbn [tdist dep]; rewrite ?has_node, ?X1, ?X2, ?X3, ?Y1, ?Y2, ?Y3; cbn [orb andb];
    rewrite ?X1, ?X2, ?X3, ?Y1, ?Y2, ?Y3; try reflexivity; try ring.

  Lemma d_sym x y : In x (leaves S) -> In y (leaves S) -> x <> y -> (d x y == d y x)%Q.
  Proof.
    intros Hx Hy N. rewrite (Hd x y Hx Hy N), (Hd y x Hy Hx (fun E => N (eq_sym E))).
    apply tdist_sym; [exact NDS|exact Hx|exact Hy].
  Qed.

  Lemma d_UU x y : In x (leaves U) -> In y (leaves U) -> x <> y -> (d x y == tdist U x y)%Q.
  Proof. intros Hx Hy N. rewrite (Hd x y (inU x Hx) (inU y Hy) N). pose proof (flagsU x Hx) as X. pose proof (flagsU y Hy) as Y. tab X Y. Qed.
  Lemma d_CC x y : In x (leaves C) -> In y (leaves C) -> x <> y -> (d x y == tdist C x y)%Q.
  Proof. intros Hx Hy N. rewrite (Hd x y (inC x Hx) (inC y Hy) N). pose proof (flagsC x Hx) as X. pose proof (flagsC y Hy) as Y. tab X Y. Qed.
  Lemma d_DD x y : In x (leaves D) -> In y (leaves D) -> x <> y -> (d x y == tdist D x y)%Q.
  Proof. intros Hx Hy N. rewrite (Hd x y (inD x Hx) (inD y Hy) N). pose proof (flagsD x Hx) as X. pose proof (flagsD y Hy) as Y. tab X Y. Qed.
  Lemma d_UC x y : In x (leaves U) -> In y (leaves C) -> (d x y == ux + uy + f + dep U x + dep C y)%Q.
  Proof. intros Hx Hy. rewrite (Hd x y (inU x Hx) (inC y Hy) (UC_neq x y Hx Hy)). pose proof (flagsU x Hx) as X. pose proof (flagsC y Hy) as Y. tab X Y. Qed.
  Lemma d_UD x y : In x (leaves U) -> In y (leaves D) -> (d x y == ux + uy + dl + dep U x + dep D y)%Q.
  Proof. intros Hx Hy. rewrite (Hd x y (inU x Hx) (inD y Hy) (UD_neq x y Hx Hy)). pose proof (flagsU x Hx) as X. pose proof (flagsD y Hy) as Y. tab X Y. Qed.
  Lemma d_CD x y : In x (leaves C) -> In y (leaves D) -> (d x y == f + dl + dep C x + dep D y)%Q.
  Proof. intros Hx Hy. rewrite (Hd x y (inC x Hx) (inD y Hy) (CD_neq x y Hx Hy)). pose proof (flagsC x Hx) as X. pose proof (flagsD y Hy) as Y. tab X Y. Qed.
  Lemma d_CU x y : In x (leaves C) -> In y (leaves U) -> (d x y == ux + uy + f + dep U y + dep C x)%Q.
  Proof. intros Hx Hy. rewrite (d_sym x y (inC x Hx) (inU y Hy) (fun E => UC_neq y x Hy Hx (eq_sym E))). apply d_UC; assumption. Qed.
  Lemma d_DU x y : In x (leaves D) -> In y (leaves U) -> (d x y == ux + uy + dl + dep U y + dep D x)%Q.
  Proof. intros Hx Hy. rewrite (d_sym x y (inD x Hx) (inU y Hy) (fun E => UD_neq y x Hy Hx (eq_sym E))). apply d_UD; assumption. Qed.
  Lemma d_DC x y : In x (leaves D) -> In y (leaves C) -> (d x y == f + dl + dep C y + dep D x)%Q.
  Proof. intros Hx Hy. rewrite (d_sym x y (inD x Hx) (inC y Hy) (fun E => CD_neq y x Hy Hx (eq_sym E))). apply d_CD; assumption. Qed.
