(* The cherry-picking lemma of Neighbor-Joining (Saitou-Nei, Studier-Keppler):
   on the path metric of a binary tree with positive branch lengths, a pair
   minimising the Q-criterion is a cherry of the tree.

   Part 1 (algebra, any symmetric zero-diagonal matrix):
     (N-2) * Q(a,b) = - ( 2 d(a,b) + sum_{k <> a,b} (d(a,k) + d(b,k) - d(a,b)) )
   so minimising Q is maximising  Tsum(a,b) = 2 d(a,b) + sum_k G_k(a,b). *)
From Coq Require Import QArith List Arith Bool Lia Permutation Lqa.
From LV Require Import Cluster.Nwk Cluster.NwkProofs Cluster.Upgma Cluster.UpgmaProofs Cluster.UpgmaRecover
  Cluster.Neighbor Cluster.NeighborProofs Cluster.TreeBuildExec Cluster.NeighborRecover Cluster.NjTree.
Import ListNotations.
Local Open Scope nat_scope.

(* twice the distance of k from the path between a and b (Gromov product); 0 at a and b *)
Definition gp (d : nat -> nat -> Q) (a b k : nat) : Q :=
  if Nat.eqb k a || Nat.eqb k b then 0%Q else (d a k + d b k - d a b)%Q.

Definition Tsum (d : nat -> nat -> Q) (n a b : nat) : Q :=
  (2 * d a b + qsum (map (gp d a b) (seq 0 n)))%Q.

Lemma qsum_add {A} (f g : A -> Q) l :
  (qsum (map f l) + qsum (map g l) == qsum (map (fun x => f x + g x) l))%Q.
Proof.
  induction l as [|x tl IH]; cbn [map]; [cbn; ring|].
  rewrite !qsum_cons, <- IH. ring.
Qed.

Lemma qsum_map_ext {A} (f g : A -> Q) l : (forall x, In x l -> (f x == g x)%Q) ->
  (qsum (map f l) == qsum (map g l))%Q.
Proof.
  induction l as [|x tl IH]; intros H; [reflexivity|]. cbn [map]. rewrite !qsum_cons.
  rewrite (H x (or_introl eq_refl)), IH; [reflexivity|]. intros y Hy. apply H. right. exact Hy.
Qed.

Section QIdentity.
  Variable m : mat.
  Variable n : nat.
  Hypothesis Sq : msquare m n.
  Hypothesis Sy : msym m n.
  Hypothesis Dg : mdiag0 m n.
  Hypothesis Hn : 3 <= n.

  Lemma qN2_val : (qN2 m == inject_Z (Z.of_nat n) - 2)%Q.
  Proof. unfold qN2. destruct Sq as [-> _]. unfold Z.sub. rewrite inject_Z_plus, inject_Z_opp. reflexivity. Qed.

  Lemma rows_sum a b : a < n -> b < n -> a <> b ->
    (qsum (nth a m []) + qsum (nth b m [])
     == qsum (map (gp (dm m) a b) (seq 0 n)) + inject_Z (Z.of_nat n) * dm m a b)%Q.
  Proof.
    intros Ha Hb N. rewrite (row_sum m n a Sq Ha), (row_sum m n b Sq Hb).
    rewrite qsum_add.
    assert (E : (qsum (map (fun k => dm m a k + dm m b k) (seq 0 n))
                 - qsum (map (gp (dm m) a b) (seq 0 n))
                 == dm m a b * inject_Z (Z.of_nat (length (map (fun k => dm m a k + dm m b k - gp (dm m) a b k) (seq 0 n)))))%Q).
    { rewrite qsum_sub. apply qsum_const. intros x Hx. apply in_map_iff in Hx.
      destruct Hx as [k [<- Hk]]. apply in_seq in Hk. unfold gp.
      destruct (Nat.eqb k a) eqn:Ea; [apply Nat.eqb_eq in Ea; subst k; cbn [orb]|].
      - rewrite (Dg a Ha), (Sy b a Hb Ha). ring.
      - destruct (Nat.eqb k b) eqn:Eb; [apply Nat.eqb_eq in Eb; subst k; cbn [orb]|cbn [orb]].
        + rewrite (Dg b Hb). ring.
        + ring. }
    rewrite map_length, seq_length in E. lra.
  Qed.

  Lemma Q_as_Tsum a b : a < n -> b < n -> a <> b ->
    ((inject_Z (Z.of_nat n) - 2) * nj_q m a b == - Tsum (dm m) n a b)%Q.
  Proof.
    intros Ha Hb N. unfold nj_q, nj_avg, Tsum. rewrite qN2_val.
    assert (NZ : ~ (inject_Z (Z.of_nat n) - 2 == 0)%Q).
    { unfold Qeq, Qminus. cbn. lia. }
    pose proof (rows_sum a b Ha Hb N) as R. rewrite (Sy b a Hb Ha).
    set (ra := qsum (nth a m [])) in *. set (rb := qsum (nth b m [])) in *.
    set (s := qsum (map (gp (dm m) a b) (seq 0 n))) in *. set (nn := inject_Z (Z.of_nat n)) in *.
    assert (E : ((nn - 2) * (dm m a b - rb / (nn - 2) - ra / (nn - 2)) == (nn - 2) * dm m a b - (ra + rb))%Q)
      by (field; exact NZ).
    rewrite E, R. ring.
  Qed.

  (* a smaller criterion value is a larger Tsum *)
  Lemma Q_le_Tsum a b c d : a < n -> b < n -> a <> b -> c < n -> d < n -> c <> d ->
    (nj_q m a b <= nj_q m c d)%Q -> (Tsum (dm m) n c d <= Tsum (dm m) n a b)%Q.
  Proof.
    intros Ha Hb Nab Hc Hd Ncd H.
    pose proof (Q_as_Tsum a b Ha Hb Nab) as E1. pose proof (Q_as_Tsum c d Hc Hd Ncd) as E2.
    assert (P : (0 < inject_Z (Z.of_nat n) - 2)%Q).
    { unfold Qlt, Qminus. cbn. lia. }
    set (k := (inject_Z (Z.of_nat n) - 2)%Q) in *.
    assert (M : (k * nj_q m a b <= k * nj_q m c d)%Q).
    { rewrite !(Qmult_comm k). apply Qmult_le_compat_r; [exact H|apply Qlt_le_weak; exact P]. }
    lra.
  Qed.
End QIdentity.

(* ------------------------------------------------------------------ *)
(* sums over lists of leaves *)
Lemma qsum_app l1 l2 : (qsum (l1 ++ l2) == qsum l1 + qsum l2)%Q.
Proof.
  induction l1 as [|x tl IH]; [cbn [app]; change (qsum []) with 0%Q; ring|].
  cbn [app]. rewrite !qsum_cons, IH. ring.
Qed.

Lemma qsum_ge {A} (F : A -> Q) c l : (forall x, In x l -> (c <= F x)%Q) ->
  (c * inject_Z (Z.of_nat (length l)) <= qsum (map F l))%Q.
Proof.
  induction l as [|x tl IH]; intros H.
  { cbn [map length]. change (inject_Z (Z.of_nat 0)) with 0%Q. change (qsum []) with 0%Q. lra. }
  cbn [map length]. rewrite qsum_cons, Nat2Z.inj_succ. unfold Z.succ. rewrite inject_Z_plus.
  pose proof (H x (or_introl eq_refl)). pose proof (IH (fun y Hy => H y (or_intror Hy))).
  change (inject_Z 1) with 1%Q. lra.
Qed.

Lemma split_one (l : list nat) a : NoDup l -> In a l ->
  exists r, Permutation l (a :: r) /\ S (length r) = length l /\
            forall k, In k r -> In k l /\ k <> a.
Proof.
  intros ND H. exists (remove Nat.eq_dec a l).
  pose proof (remove_perm l a ND H) as P. split; [exact P|]. split.
  - apply Permutation_length in P. cbn [length] in P. lia.
  - intros k Hk. apply in_remove_iff in Hk. exact Hk.
Qed.

Lemma scale_count c (nU nD nC : nat) : (0 < c)%Q -> nC + 1 <= nU + nD ->
  (c <= c * inject_Z (Z.of_nat nU) + c * inject_Z (Z.of_nat nD) - c * inject_Z (Z.of_nat nC))%Q.
Proof.
  intros Hc H.
  assert (E : (inject_Z (Z.of_nat nU) + inject_Z (Z.of_nat nD) - inject_Z (Z.of_nat nC)
               == inject_Z (Z.of_nat nU + Z.of_nat nD - Z.of_nat nC))%Q).
  { unfold Z.sub. rewrite !inject_Z_plus, inject_Z_opp. ring. }
  assert (L : (1 <= inject_Z (Z.of_nat nU + Z.of_nat nD - Z.of_nat nC))%Q).
  { change 1%Q with (inject_Z 1). rewrite <- Zle_Qle. lia. }
  rewrite <- E in L.
  set (t := (inject_Z (Z.of_nat nU) + inject_Z (Z.of_nat nD) - inject_Z (Z.of_nat nC))%Q) in *.
  assert (M : (c * 1 <= c * t)%Q) by (apply Qmult_le_l; assumption).
  unfold t in M. lra.
Qed.

(* ------------------------------------------------------------------ *)
(* Part 2: a tree seen from a node with three neighbours: U (towards a), the
   hanging clade C, D (towards b) *)
Section Shape.
  Variables (U C D : tree) (ux uy f dl : Q).
  Let S := Node U ux (Node C f D dl) uy.
  Variable d : nat -> nat -> Q.
  Variable n : nat.
  Hypothesis ND : NoDup (leaves U ++ leaves C ++ leaves D).
  Hypothesis HP : positive S.
  Hypothesis Hd : forall x y, In x (leaves S) -> In y (leaves S) -> x <> y -> (d x y == tdist S x y)%Q.
  Hypothesis Hn : Permutation (leaves S) (seq 0 n).

  Lemma NDU : NoDup (leaves U). Proof. exact (NoDup_app_l _ _ ND). Qed.
  Lemma NDCD : NoDup (leaves C ++ leaves D). Proof. exact (NoDup_app_r _ _ ND). Qed.
  Lemma NDC : NoDup (leaves C). Proof. exact (NoDup_app_l _ _ NDCD). Qed.
  Lemma NDD : NoDup (leaves D). Proof. exact (NoDup_app_r _ _ NDCD). Qed.
  Lemma NDS : NoDup (leaves S). Proof. exact ND. Qed.

  Lemma inU x : In x (leaves U) -> In x (leaves S).
  Proof. intros H. unfold S. cbn [leaves]. apply in_or_app. left. exact H. Qed.
  Lemma inC x : In x (leaves C) -> In x (leaves S).
  Proof. intros H. unfold S. cbn [leaves]. apply in_or_app. right. apply in_or_app. left. exact H. Qed.
  Lemma inD x : In x (leaves D) -> In x (leaves S).
  Proof. intros H. unfold S. cbn [leaves]. apply in_or_app. right. apply in_or_app. right. exact H. Qed.

  Lemma UC_neq x y : In x (leaves U) -> In y (leaves C) -> x <> y.
  Proof. intros Hx Hy ->. apply (NoDup_app_disj _ _ y ND Hx). apply in_or_app. left. exact Hy. Qed.
  Lemma UD_neq x y : In x (leaves U) -> In y (leaves D) -> x <> y.
  Proof. intros Hx Hy ->. apply (NoDup_app_disj _ _ y ND Hx). apply in_or_app. right. exact Hy. Qed.
  Lemma CD_neq x y : In x (leaves C) -> In y (leaves D) -> x <> y.
  Proof. intros Hx Hy ->. exact (NoDup_app_disj _ _ y NDCD Hx Hy). Qed.

  Lemma flagsU x : In x (leaves U) -> has U x = true /\ has C x = false /\ has D x = false.
  Proof.
    intros H. split; [exact (has_true _ _ H)|]. split; apply has_false; intros K.
    - exact (UC_neq x x H K eq_refl). - exact (UD_neq x x H K eq_refl).
  Qed.
  Lemma flagsC x : In x (leaves C) -> has U x = false /\ has C x = true /\ has D x = false.
  Proof.
    intros H. split; [apply has_false; intros K; exact (UC_neq x x K H eq_refl)|].
    split; [exact (has_true _ _ H)|apply has_false; intros K; exact (CD_neq x x H K eq_refl)].
  Qed.
  Lemma flagsD x : In x (leaves D) -> has U x = false /\ has C x = false /\ has D x = true.
  Proof.
    intros H. split; [apply has_false; intros K; exact (UD_neq x x K H eq_refl)|].
    split; [apply has_false; intros K; exact (CD_neq x x K H eq_refl)|exact (has_true _ _ H)].
  Qed.

  Ltac tab X Y :=
    destruct X as (X1 & X2 & X3); destruct Y as (Y1 & Y2 & Y3);
    unfold S; cbn [tdist dep]; rewrite ?has_node, ?X1, ?X2, ?X3, ?Y1, ?Y2, ?Y3; cbn [orb andb];
    rewrite ?X1, ?X2, ?X3, ?Y1, ?Y2, ?Y3; try reflexivity; try ring.

  Lemma d_sym x y : In x (leaves S) -> In y (leaves S) -> x <> y -> (d x y == d y x)%Q.
  Proof.
    intros Hx Hy N. rewrite (Hd x y Hx Hy N), (Hd y x Hy Hx (fun E => N (eq_sym E))).
    apply tdist_sym; [exact NDS|exact Hx|exact Hy].
  Qed.

  Lemma d_UU x y : In x (leaves U) -> In y (leaves U) -> x <> y -> (d x y == tdist U x y)%Q.
  Proof. intros Hx Hy N. rewrite (Hd x y (inU x Hx) (inU y Hy) N). pose proof (flagsU x Hx) as X. pose proof (flagsU y Hy) as Y. tab X Y. Qed.
  Lemma d_CC x y : In x (leaves C) -> In y (leaves C) -> x <> y -> (d x y == tdist C x y)%Q.
  Proof. intros Hx Hy N. rewrite (Hd x y (inC x Hx) (inC y Hy) N). pose proof (flagsC x Hx) as X. pose proof (flagsC y Hy) as Y. tab X Y. Qed.
  Lemma d_DD x y : In x (leaves D) -> In y (leaves D) -> x <> y -> (d x y == tdist D x y)%Q.
  Proof. intros Hx Hy N. rewrite (Hd x y (inD x Hx) (inD y Hy) N). pose proof (flagsD x Hx) as X. pose proof (flagsD y Hy) as Y. tab X Y. Qed.
  Lemma d_UC x y : In x (leaves U) -> In y (leaves C) -> (d x y == ux + uy + f + dep U x + dep C y)%Q.
  Proof. intros Hx Hy. rewrite (Hd x y (inU x Hx) (inC y Hy) (UC_neq x y Hx Hy)). pose proof (flagsU x Hx) as X. pose proof (flagsC y Hy) as Y. tab X Y. Qed.
  Lemma d_UD x y : In x (leaves U) -> In y (leaves D) -> (d x y == ux + uy + dl + dep U x + dep D y)%Q.
  Proof. intros Hx Hy. rewrite (Hd x y (inU x Hx) (inD y Hy) (UD_neq x y Hx Hy)). pose proof (flagsU x Hx) as X. pose proof (flagsD y Hy) as Y. tab X Y. Qed.
  Lemma d_CD x y : In x (leaves C) -> In y (leaves D) -> (d x y == f + dl + dep C x + dep D y)%Q.
  Proof. intros Hx Hy. rewrite (Hd x y (inC x Hx) (inD y Hy) (CD_neq x y Hx Hy)). pose proof (flagsC x Hx) as X. pose proof (flagsD y Hy) as Y. tab X Y. Qed.
  Lemma d_CU x y : In x (leaves C) -> In y (leaves U) -> (d x y == ux + uy + f + dep U y + dep C x)%Q.
  Proof. intros Hx Hy. rewrite (d_sym x y (inC x Hx) (inU y Hy) (fun E => UC_neq y x Hy Hx (eq_sym E))). apply d_UC; assumption. Qed.
  Lemma d_DU x y : In x (leaves D) -> In y (leaves U) -> (d x y == ux + uy + dl + dep U y + dep D x)%Q.
  Proof. intros Hx Hy. rewrite (d_sym x y (inD x Hx) (inU y Hy) (fun E => UD_neq y x Hy Hx (eq_sym E))). apply d_UD; assumption. Qed.
  Lemma d_DC x y : In x (leaves D) -> In y (leaves C) -> (d x y == f + dl + dep C y + dep D x)%Q.
  Proof. intros Hx Hy. rewrite (d_sym x y (inD x Hx) (inC y Hy) (fun E => CD_neq y x Hy Hx (eq_sym E))). apply d_CD; assumption. Qed.

  Lemma sum_regions (F : nat -> Q) :
    (qsum (map F (seq 0 n))
     == qsum (map F (leaves U)) + qsum (map F (leaves C)) + qsum (map F (leaves D)))%Q.
  Proof.
    rewrite (qsum_perm _ _ (Permutation_map F (Permutation_sym Hn))).
    unfold S. cbn [leaves]. rewrite !map_app, !qsum_app. ring.
  Qed.

  Lemma Tsum_diff a b p q :
    (Tsum d n p q - Tsum d n a b
     == 2 * d p q - 2 * d a b + qsum (map (fun k => gp d p q k - gp d a b k) (seq 0 n)))%Q.
  Proof. unfold Tsum. rewrite <- qsum_sub. ring. Qed.

  Lemma gp_l a b : gp d a b a = 0%Q.
  Proof. unfold gp. rewrite Nat.eqb_refl. reflexivity. Qed.
  Lemma gp_r a b : gp d a b b = 0%Q.
  Proof. unfold gp. rewrite Nat.eqb_refl, orb_true_r. reflexivity. Qed.
  Lemma gp_o a b k : k <> a -> k <> b -> gp d a b k = (d a k + d b k - d a b)%Q.
  Proof.
    intros N1 N2. unfold gp. apply Nat.eqb_neq in N1. apply Nat.eqb_neq in N2. rewrite N1, N2. reflexivity.
  Qed.

  Lemma sum_split (F : nat -> Q) l a r : Permutation l (a :: r) ->
    (qsum (map F l) == F a + qsum (map F r))%Q.
  Proof. intros P. rewrite (qsum_perm _ _ (Permutation_map F P)). cbn [map]. rewrite qsum_cons. reflexivity. Qed.

  (* a cherry inside a hanging clade that is not too big beats (a,b) *)
  Lemma cherry_beats a b p ep q eq dl0 :
    In a (leaves U) -> In b (leaves D) -> cherry_at C p ep q eq dl0 ->
    length (leaves C) + 1 <= length (leaves U) + length (leaves D) ->
    (Tsum d n a b < Tsum d n p q)%Q.
  Proof.
    intros Ia Ib Hch Hsize.
    unfold S in HP. cbn [positive] in HP. destruct HP as (Pux & Puy & PU & (Pf & Pdl & PC & PD)).
    destruct (cherry_facts C p ep q eq dl0 Hch NDC PC) as (Ip & Iq & Npq & Pep & Peq & Pd0 & Dp & Dq & Tpq & Hk).
    destruct (split_one (leaves U) a NDU Ia) as (Ua & PUa & LUa & HUa).
    destruct (split_one (leaves D) b NDD Ib) as (Db & PDb & LDb & HDb).
    destruct (split_one (leaves C) p NDC Ip) as (Cp & PCp & LCp & HCp).
    assert (NDCp : NoDup Cp).
    { pose proof (Permutation_NoDup PCp NDC) as K. inversion K; assumption. }
    assert (IqCp : In q Cp).
    { destruct (Permutation_in _ PCp Iq) as [E|K]; [congruence|exact K]. }
    destruct (split_one Cp q NDCp IqCp) as (Cr & PCr & LCr & HCr).
    set (F := fun k => (gp d p q k - gp d a b k)%Q).
    set (g := (f + dl0)%Q).
    assert (Pg : (0 < g)%Q) by (unfold g; lra).
    (* the exceptional leaves *)
    assert (Nap : a <> p) by (apply UC_neq; assumption).
    assert (Naq : a <> q) by (apply UC_neq; assumption).
    assert (Nab : a <> b) by (apply UD_neq; assumption).
    assert (Npb : p <> b) by (apply CD_neq; assumption).
    assert (Nqb : q <> b) by (apply CD_neq; assumption).
    assert (Fa : (F a == 2 * (ux + uy + g + dep U a))%Q).
    { unfold F. rewrite gp_l, (gp_o p q a Nap Naq).
      rewrite (d_CU p a Ip Ia), (d_CU q a Iq Ia), (d_CC p q Ip Iq Npq), Tpq, Dp, Dq. unfold g. ring. }
    assert (Fb : (F b == 2 * (dl + g + dep D b))%Q).
    { unfold F. rewrite gp_r, (gp_o p q b (fun E => Npb (eq_sym E)) (fun E => Nqb (eq_sym E))).
      rewrite (d_CD p b Ip Ib), (d_CD q b Iq Ib), (d_CC p q Ip Iq Npq), Tpq, Dp, Dq. unfold g. ring. }
    assert (Fp : (F p == - (2 * (g + ep)))%Q).
    { unfold F. rewrite gp_l, (gp_o a b p (fun E => Nap (eq_sym E)) Npb).
      rewrite (d_UC a p Ia Ip), (d_DC b p Ib Ip), (d_UD a b Ia Ib), Dp. unfold g. ring. }
    assert (Fq : (F q == - (2 * (g + eq)))%Q).
    { unfold F. rewrite gp_r, (gp_o a b q (fun E => Naq (eq_sym E)) Nqb).
      rewrite (d_UC a q Ia Iq), (d_DC b q Ib Iq), (d_UD a b Ia Ib), Dq. unfold g. ring. }
    (* the other leaves, by region *)
    assert (BU : forall k, In k Ua -> (2 * g <= F k)%Q).
    { intros k Hk0. destruct (HUa k Hk0) as [IkU Nka].
      assert (Nkp : k <> p) by (apply UC_neq; assumption).
      assert (Nkq : k <> q) by (apply UC_neq; assumption).
      assert (Nkb : k <> b) by (apply UD_neq; assumption).
      unfold F. rewrite (gp_o p q k Nkp Nkq), (gp_o a b k Nka Nkb).
      rewrite (d_CU p k Ip IkU), (d_CU q k Iq IkU), (d_CC p q Ip Iq Npq), Tpq, Dp, Dq.
      rewrite (d_UU a k Ia IkU (fun E => Nka (eq_sym E))), (d_DU b k Ib IkU), (d_UD a b Ia Ib).
      pose proof (tdist_le_deps U NDU PU a k Ia IkU). unfold g. lra. }
    assert (BD : forall k, In k Db -> (2 * g <= F k)%Q).
    { intros k Hk0. destruct (HDb k Hk0) as [IkD Nkb].
      assert (Nkp : k <> p) by (intros E; apply (CD_neq p k Ip IkD); congruence).
      assert (Nkq : k <> q) by (intros E; apply (CD_neq q k Iq IkD); congruence).
      assert (Nka : k <> a) by (intros E; apply (UD_neq a k Ia IkD); congruence).
      unfold F. rewrite (gp_o p q k Nkp Nkq), (gp_o a b k Nka Nkb).
      rewrite (d_CD p k Ip IkD), (d_CD q k Iq IkD), (d_CC p q Ip Iq Npq), Tpq, Dp, Dq.
      rewrite (d_UD a k Ia IkD), (d_DD b k Ib IkD (fun E => Nkb (eq_sym E))), (d_UD a b Ia Ib).
      pose proof (tdist_le_deps D NDD PD b k Ib IkD). unfold g. lra. }
    assert (BC : forall k, In k Cr -> (- (2 * g) <= F k)%Q).
    { intros k Hk0. destruct (HCr k Hk0) as [IkCp Nkq]. destruct (HCp k IkCp) as [IkC Nkp].
      assert (Nka : k <> a) by (intros E; apply (UC_neq a k Ia IkC); congruence).
      assert (Nkb : k <> b) by (apply CD_neq; assumption).
      unfold F. rewrite (gp_o p q k Nkp Nkq), (gp_o a b k Nka Nkb).
      rewrite (d_CC p k Ip IkC (fun E => Nkp (eq_sym E))), (d_CC q k Iq IkC (fun E => Nkq (eq_sym E))),
              (d_CC p q Ip Iq Npq), Tpq.
      rewrite (d_UC a k Ia IkC), (d_DC b k Ib IkC), (d_UD a b Ia Ib).
      pose proof (Hk k IkC Nkp Nkq). unfold g. lra. }
    (* putting the sums together *)
    pose proof (qsum_ge F (2 * g)%Q Ua BU) as SU.
    pose proof (qsum_ge F (2 * g)%Q Db BD) as SD.
    pose proof (qsum_ge F (- (2 * g))%Q Cr BC) as SC.
    pose proof (sum_split F (leaves U) a Ua PUa) as EU.
    pose proof (sum_split F (leaves D) b Db PDb) as ED.
    pose proof (sum_split F (leaves C) p Cp PCp) as EC1.
    pose proof (sum_split F Cp q Cr PCr) as EC2.
    pose proof (Tsum_diff a b p q) as TD. fold F in TD. rewrite (sum_regions F) in TD.
    assert (Hcnt : length Cr + 1 <= length Ua + length Db) by lia.
    pose proof (scale_count (2 * g)%Q (length Ua) (length Db) (length Cr) ltac:(lra) Hcnt) as SCnt.
    rewrite (d_CC p q Ip Iq Npq), Tpq, (d_UD a b Ia Ib) in TD.
    set (sU := qsum (map F Ua)) in *. set (sD := qsum (map F Db)) in *. set (sC := qsum (map F Cr)) in *.
    set (iU := inject_Z (Z.of_nat (length Ua))) in *. set (iD := inject_Z (Z.of_nat (length Db))) in *.
    set (iC := inject_Z (Z.of_nat (length Cr))) in *.
    assert (SC' : (- (2 * g * iC) <= sC)%Q) by lra.
    lra.
  Qed.

  (* a single leaf hanging next to a, with more than b below: (a,k0) beats (a,b) *)
  Lemma leaf_beats a b k0 :
    In a (leaves U) -> In b (leaves D) -> C = Leaf k0 -> 2 <= length (leaves D) ->
    (Tsum d n a b < Tsum d n a k0)%Q.
  Proof.
    intros Ia Ib EC Hsize.
    unfold S in HP. cbn [positive] in HP. destruct HP as (Pux & Puy & PU & (Pf & Pdl & PC & PD)).
    assert (Ik0 : In k0 (leaves C)) by (rewrite EC; left; reflexivity).
    assert (Dk0 : dep C k0 = 0%Q) by (rewrite EC; reflexivity).
    destruct (split_one (leaves U) a NDU Ia) as (Ua & PUa & LUa & HUa).
    destruct (split_one (leaves D) b NDD Ib) as (Db & PDb & LDb & HDb).
    set (F := fun k => (gp d a k0 k - gp d a b k)%Q).
    assert (Nak : a <> k0) by (apply UC_neq; assumption).
    assert (Nab : a <> b) by (apply UD_neq; assumption).
    assert (Nkb : k0 <> b) by (apply CD_neq; assumption).
    assert (Fa : (F a == 0)%Q) by (unfold F; rewrite !gp_l; ring).
    assert (Fk : (F k0 == - (2 * f))%Q).
    { unfold F. rewrite gp_r, (gp_o a b k0 (fun E => Nak (eq_sym E)) Nkb).
      rewrite (d_UC a k0 Ia Ik0), (d_DC b k0 Ib Ik0), (d_UD a b Ia Ib), Dk0. ring. }
    assert (Fb : (F b == 2 * (dl + dep D b))%Q).
    { unfold F. rewrite gp_r, (gp_o a k0 b (fun E => Nab (eq_sym E)) (fun E => Nkb (eq_sym E))).
      rewrite (d_UD a b Ia Ib), (d_CD k0 b Ik0 Ib), (d_UC a k0 Ia Ik0), Dk0. ring. }
    assert (BU : forall k, In k Ua -> (0 <= F k)%Q).
    { intros k Hk0. destruct (HUa k Hk0) as [IkU Nka].
      assert (Nkk : k <> k0) by (apply UC_neq; assumption).
      assert (Nkb' : k <> b) by (apply UD_neq; assumption).
      unfold F. rewrite (gp_o a k0 k Nka Nkk), (gp_o a b k Nka Nkb').
      rewrite (d_UU a k Ia IkU (fun E => Nka (eq_sym E))), (d_CU k0 k Ik0 IkU), (d_UC a k0 Ia Ik0),
              (d_DU b k Ib IkU), (d_UD a b Ia Ib), Dk0. lra. }
    assert (BD : forall k, In k Db -> (2 * dl <= F k)%Q).
    { intros k Hk0. destruct (HDb k Hk0) as [IkD Nkb'].
      assert (Nkk : k <> k0) by (intros E; apply (CD_neq k0 k Ik0 IkD); congruence).
      assert (Nka : k <> a) by (intros E; apply (UD_neq a k Ia IkD); congruence).
      unfold F. rewrite (gp_o a k0 k Nka Nkk), (gp_o a b k Nka Nkb').
      rewrite (d_UD a k Ia IkD), (d_CD k0 k Ik0 IkD), (d_UC a k0 Ia Ik0),
              (d_DD b k Ib IkD (fun E => Nkb' (eq_sym E))), (d_UD a b Ia Ib), Dk0.
      pose proof (tdist_le_deps D NDD PD b k Ib IkD). lra. }
    pose proof (qsum_ge F 0%Q Ua BU) as SU.
    pose proof (qsum_ge F (2 * dl)%Q Db BD) as SD.
    pose proof (sum_split F (leaves U) a Ua PUa) as EU.
    pose proof (sum_split F (leaves D) b Db PDb) as ED.
    pose proof (Tsum_diff a b a k0) as TD. fold F in TD. rewrite (sum_regions F) in TD.
    assert (ECs : (qsum (map F (leaves C)) == F k0)%Q).
    { rewrite EC. cbn [leaves map]. rewrite qsum_cons. change (qsum []) with 0%Q. ring. }
    assert (Hcnt : 0 + 1 <= length Db + 0) by lia.
    pose proof (scale_count (2 * dl)%Q (length Db) 0 0 ltac:(lra) Hcnt) as SCnt.
    change (inject_Z (Z.of_nat 0)) with 0%Q in SCnt.
    rewrite (d_UC a k0 Ia Ik0), Dk0, (d_UD a b Ia Ib) in TD.
    set (sU := qsum (map F Ua)) in *. set (sD := qsum (map F Db)) in *.
    set (iU := inject_Z (Z.of_nat (length Ua))) in *. set (iD := inject_Z (Z.of_nat (length Db))) in *.
    lra.
  Qed.
End Shape.

(* ------------------------------------------------------------------ *)
(* Part 3: a pair maximising Tsum is a cherry *)
Definition tmax (d : nat -> nat -> Q) (n a b : nat) : Prop :=
  forall c e, c < n -> e < n -> c <> e -> (Tsum d n c e <= Tsum d n a b)%Q.

Section ShapeMax.
  Variables (U C D : tree) (ux uy f dl : Q).
  Let S := Node U ux (Node C f D dl) uy.
  Variable d : nat -> nat -> Q.
  Variable n : nat.
  Hypothesis ND : NoDup (leaves S).
  Hypothesis HP : positive S.
  Hypothesis Hd : metric_of d S.
  Hypothesis Hn : Permutation (leaves S) (seq 0 n).
  Variables a b : nat.
  Hypothesis Ia : In a (leaves U).
  Hypothesis Ib : In b (leaves D).
  Hypothesis Hmax : tmax d n a b.

  Lemma leaf_lt x : In x (leaves S) -> x < n.
  Proof. intros H. apply (Permutation_in _ Hn) in H. apply in_seq in H. lia. Qed.

  Lemma shape_no_leaf k0 : C = Leaf k0 -> 2 <= length (leaves D) -> False.
  Proof.
    intros EC L.
    pose proof (leaf_beats U C D ux uy f dl d n ND HP Hd Hn a b k0 Ia Ib EC L) as H.
    assert (Ik : In k0 (leaves S)).
    { unfold S. cbn [leaves]. rewrite EC. apply in_or_app. right. left. reflexivity. }
    assert (IaS : In a (leaves S)) by (unfold S; cbn [leaves]; apply in_or_app; left; exact Ia).
    assert (N : a <> k0).
    { intros ->. unfold S in ND. cbn [leaves] in ND. rewrite EC in ND.
      apply (NoDup_app_disj _ _ k0 ND Ia). left. reflexivity. }
    pose proof (Hmax a k0 (leaf_lt a IaS) (leaf_lt k0 Ik) N). lra.
  Qed.

  Lemma shape_no_cherry : 2 <= length (leaves C) ->
    length (leaves C) + 1 <= length (leaves U) + length (leaves D) -> False.
  Proof.
    intros L2 Lsz. destruct (cherry_exists C L2) as (p & ep & q & eq & dl0 & Hch).
    pose proof (cherry_beats U C D ux uy f dl d n ND HP Hd Hn a b p ep q eq dl0 Ia Ib Hch Lsz) as H.
    unfold S in HP. cbn [positive] in HP. destruct HP as (_ & _ & _ & (_ & _ & PC & _)).
    assert (NDC' : NoDup (leaves C)).
    { unfold S in ND. cbn [leaves] in ND. exact (NoDup_app_l _ _ (NoDup_app_r _ _ ND)). }
    destruct (cherry_facts C p ep q eq dl0 Hch NDC' PC) as (Ip & Iq & Npq & _).
    assert (IpS : In p (leaves S)) by (unfold S; cbn [leaves]; apply in_or_app; right; apply in_or_app; left; exact Ip).
    assert (IqS : In q (leaves S)) by (unfold S; cbn [leaves]; apply in_or_app; right; apply in_or_app; left; exact Iq).
    pose proof (Hmax p q (leaf_lt p IpS) (leaf_lt q IqS) Npq). lra.
  Qed.
End ShapeMax.

Lemma Tsum_sym d n a b : (d a b == d b a)%Q -> (Tsum d n a b == Tsum d n b a)%Q.
Proof.
  intros E. unfold Tsum. rewrite E. apply Qplus_comp; [reflexivity|].
  apply qsum_map_ext. intros k _. unfold gp. rewrite (orb_comm (Nat.eqb k a)).
  destruct (Nat.eqb k b || Nat.eqb k a); [reflexivity|]. rewrite E. ring.
Qed.

Lemma tmax_sym d n a b : (d a b == d b a)%Q -> tmax d n a b -> tmax d n b a.
Proof. intros E H c e Hc He N. rewrite <- (Tsum_sym d n a b E). exact (H c e Hc He N). Qed.

Lemma single_leaf t : length (leaves t) = 1 -> exists z, t = Leaf z.
Proof.
  destruct t as [z|l bl r br]; [exists z; reflexivity|]. cbn [leaves]. rewrite app_length.
  pose proof (leaves_nonempty l). pose proof (leaves_nonempty r). lia.
Qed.

(* from a node with three neighbours U (holding a and something else), C (smaller than U), D (holding b) *)
Lemma core2 U C D ux uy f dl d n a b :
  let S := Node U ux (Node C f D dl) uy in
  NoDup (leaves S) -> positive S -> metric_of d S -> Permutation (leaves S) (seq 0 n) ->
  In a (leaves U) -> In b (leaves D) -> tmax d n a b ->
  2 <= length (leaves U) -> length (leaves C) < length (leaves U) -> False.
Proof.
  intros S ND HP Hd Hn Ia Ib Hmax LU LC.
  destruct (le_lt_dec 2 (length (leaves C))) as [L2|L1].
  - apply (shape_no_cherry U C D ux uy f dl d n ND HP Hd Hn a b Ia Ib Hmax L2). lia.
  - destruct (single_leaf C) as [k0 EC]; [pose proof (leaves_nonempty C); lia|].
    destruct (le_lt_dec 2 (length (leaves D))) as [LD|LD].
    + exact (shape_no_leaf U C D ux uy f dl d n ND HP Hd Hn a b Ia Ib Hmax k0 EC LD).
    + (* D is the leaf b: look from b's side *)
      destruct (single_leaf D) as [b' ED]; [pose proof (leaves_nonempty D); lia|].
      assert (Eb : b' = b) by (rewrite ED in Ib; destruct Ib as [E|[]]; exact E). subst b'.
      unfold S in HP. cbn [positive] in HP. destruct HP as (Pux & Puy & PU & (Pf & Pdl & PC & PD)).
      destruct (half_pos dl Pdl) as [Ph Eh].
      set (S3 := Node D (dl / 2) (Node C f U (uy + ux)) (dl / 2)).
      assert (ND3 : NoDup (leaves C ++ leaves D ++ leaves U)).
      { eapply Permutation_NoDup; [|exact ND]. unfold S. cbn [leaves].
        eapply perm_trans; [apply Permutation_app_comm|]. rewrite <- app_assoc. apply Permutation_refl. }
      assert (E3 : teq S S3).
      { eapply teq_trans; [apply teq_swap; exact ND|].
        apply (teq_rotate2_gen C f D dl uy U ux (dl / 2) (dl / 2) (uy + ux)); [exact Eh|reflexivity|exact ND3]. }
      assert (IaS : In a (leaves S)) by (unfold S; cbn [leaves]; apply in_or_app; left; exact Ia).
      assert (IbS : In b (leaves S)) by (unfold S; cbn [leaves]; apply in_or_app; right; apply in_or_app; right; exact Ib).
      assert (Nab : a <> b).
      { intros ->. unfold S in ND. cbn [leaves] in ND. apply (NoDup_app_disj _ _ b ND Ia). apply in_or_app. right. exact Ib. }
      assert (Esym : (d a b == d b a)%Q).
      { rewrite (Hd a b IaS IbS Nab), (Hd b a IbS IaS (fun E => Nab (eq_sym E))). apply tdist_sym; assumption. }
      apply (shape_no_leaf D C U (dl / 2) (dl / 2) f (uy + ux) d n) with (a := b) (b := a) (k0 := k0).
      * exact (teq_nodup _ _ E3 ND).
      * cbn [positive]. repeat split; try assumption; lra.
      * exact (metric_of_teq d S S3 E3 Hd).
      * eapply perm_trans; [symmetry; exact (proj1 E3)|exact Hn].
      * exact Ib.
      * exact Ia.
      * exact (tmax_sym d n a b Esym Hmax).
      * exact EC.
      * exact LU.
Qed.

(* the tree re-rooted at a, with b in the second grandchild *)
Lemma core1 A B x y f lam d n a b :
  let T1 := Node (Leaf a) x (Node A f B lam) y in
  NoDup (leaves T1) -> positive T1 -> metric_of d T1 -> Permutation (leaves T1) (seq 0 n) ->
  In b (leaves B) -> tmax d n a b ->
  exists Z ez, B = Leaf b /\ Z = A /\ ez = f.
Proof.
  intros T1 ND HP Hd Hn Ib Hmax.
  destruct B as [b'|B1 c1 B2 c2].
  - destruct Ib as [->|[]]. exists A, f. repeat split.
  - exfalso.
    assert (HP' := HP). unfold T1 in HP'. cbn [positive] in HP'.
    destruct HP' as (Px & Py & _ & (Pf & Plam & PA & (Pc1 & Pc2 & PB1 & PB2))).
    pose proof (leaves_nonempty B1) as N1. pose proof (leaves_nonempty B2) as N2.
    pose proof (leaves_nonempty A) as NA.
    set (B := Node B1 c1 B2 c2) in *.
    assert (LB : length (leaves B) = length (leaves B1) + length (leaves B2)) by (unfold B; cbn [leaves]; apply app_length).
    destruct (le_lt_dec (length (leaves A)) (length (leaves B))) as [Le|Lt].
    + (* the clade next to a is the small one *)
      destruct (le_lt_dec 2 (length (leaves A))) as [L2|L1].
      * apply (shape_no_cherry (Leaf a) A B x y f lam d n ND HP Hd Hn a b (or_introl eq_refl) Ib Hmax L2).
        cbn [leaves length]. lia.
      * destruct (single_leaf A) as [k0 EA]; [lia|].
        apply (shape_no_leaf (Leaf a) A B x y f lam d n ND HP Hd Hn a b (or_introl eq_refl) Ib Hmax k0 EA). lia.
    + (* the clade next to a is big: look from the next node on the path *)
      destruct (half_pos lam Plam) as [Ph Eh].
      set (U' := Node (Leaf a) (x + y) A f).
      set (S2 := Node U' (lam / 2) B (lam / 2)).
      assert (NDl : NoDup (leaves (Leaf a) ++ leaves A ++ leaves B)) by exact ND.
      assert (E2 : teq T1 S2).
      { apply teq_sym. apply (teq_rotate_gen (Leaf a) (x + y) A f (lam / 2) B (lam / 2) x y lam);
          [reflexivity|symmetry; exact Eh|exact NDl]. }
      pose proof (teq_nodup _ _ E2 ND) as ND2.
      assert (HP2 : positive S2).
      { unfold S2, U', B. cbn [positive]. repeat split; try assumption; lra. }
      pose proof (metric_of_teq d T1 S2 E2 Hd) as Hd2.
      assert (Hn2 : Permutation (leaves S2) (seq 0 n)) by (eapply perm_trans; [symmetry; exact (proj1 E2)|exact Hn]).
      assert (IaU : In a (leaves U')) by (unfold U'; cbn [leaves]; left; reflexivity).
      assert (LU : length (leaves U') = 1 + length (leaves A)) by (unfold U'; cbn [leaves length]; reflexivity).
      unfold B in Ib. cbn [leaves] in Ib. apply in_app_or in Ib. destruct Ib as [Ib|Ib].
      * (* b in B1: swap the two children *)
        assert (ND3 : NoDup (leaves U' ++ leaves B1 ++ leaves B2)) by exact ND2.
        pose proof (teq_swap_inner U' (lam / 2) B1 c1 B2 c2 (lam / 2) ND3) as E3. fold B in E3. fold S2 in E3.
        apply (core2 U' B2 B1 (lam / 2) (lam / 2) c2 c1 d n a b).
        -- exact (teq_nodup _ _ E3 ND2).
        -- unfold U'. cbn [positive]. repeat split; try assumption; lra.
        -- exact (metric_of_teq d _ _ E3 Hd2).
        -- eapply perm_trans; [symmetry; exact (proj1 E3)|exact Hn2].
        -- exact IaU.
        -- exact Ib.
        -- exact Hmax.
        -- lia.
        -- lia.
      * apply (core2 U' B1 B2 (lam / 2) (lam / 2) c1 c2 d n a b).
        -- exact ND2.
        -- exact HP2.
        -- exact Hd2.
        -- exact Hn2.
        -- exact IaU.
        -- exact Ib.
        -- exact Hmax.
        -- lia.
        -- lia.
Qed.

(* The cherry-picking lemma on trees: a pair maximising Tsum (= minimising the
   Q-criterion) is a cherry: the tree can be re-rooted so that a hangs off the
   root and b is a child of a's neighbour. *)
Theorem max_pair_is_cherry_iso T d n a b :
  NoDup (leaves T) -> positive T -> metric_of d T -> Permutation (leaves T) (seq 0 n) ->
  3 <= n -> a < n -> b < n -> a <> b -> tmax d n a b ->
  exists x y eb Z ez,
    teq T (Node (Leaf a) x (Node (Leaf b) eb Z ez) y) /\
    positive (Node (Leaf a) x (Node (Leaf b) eb Z ez) y) /\
    tiso T (Node (Leaf a) x (Node (Leaf b) eb Z ez) y).
Proof.
  intros ND HP Hd Hn L3 Ha Hb Nab Hmax.
  assert (Ia : In a (leaves T)) by (apply (Permutation_in _ (Permutation_sym Hn)); apply in_seq; lia).
  assert (LT : length (leaves T) = n) by (rewrite (Permutation_length Hn); apply seq_length).
  destruct (reroot_leaf T a ND HP Ia ltac:(lia)) as (x & R & y & E1 & P1 & I1).
  pose proof (teq_nodup _ _ E1 ND) as ND1.
  pose proof (metric_of_teq d _ _ E1 Hd) as Hd1.
  assert (Hn1 : Permutation (leaves (Node (Leaf a) x R y)) (seq 0 n)) by (eapply perm_trans; [symmetry; exact (proj1 E1)|exact Hn]).
  assert (LR : length (leaves R) = n - 1).
  { pose proof (Permutation_length Hn1) as K. rewrite seq_length in K. cbn [leaves length app] in K. lia. }
  destruct R as [z|A f B lam]; [cbn in LR; lia|].
  assert (Ib : In b (leaves A ++ leaves B)).
  { assert (K : In b (leaves (Node (Leaf a) x (Node A f B lam) y))) by (apply (Permutation_in _ (Permutation_sym Hn1)); apply in_seq; lia).
    cbn [leaves app] in K. destruct K as [K|K]; [congruence|exact K]. }
  apply in_app_or in Ib. destruct Ib as [Ib|Ib].
  - (* b in A: swap the grandchildren *)
    assert (NDl : NoDup (leaves (Leaf a) ++ leaves A ++ leaves B)) by exact ND1.
    pose proof (teq_swap_inner (Leaf a) x A f B lam y NDl) as E2.
    pose proof (teq_nodup _ _ E2 ND1) as ND2.
    assert (P2 : positive (Node (Leaf a) x (Node B lam A f) y)) by (cbn [positive] in *; tauto).
    destruct (core1 B A x y lam f d n a b ND2 P2 (metric_of_teq d _ _ E2 Hd1)) as (Z & ez & EA & _ & _).
    + eapply perm_trans; [symmetry; exact (proj1 E2)|exact Hn1].
    + exact Ib.
    + exact Hmax.
    + subst A. exists x, y, f, B, lam. split; [exact E1|]. split; [exact P1|exact I1].
  - destruct (core1 A B x y f lam d n a b ND1 P1 Hd1 Hn1 Ib Hmax) as (Z & ez & EB & _ & _).
    subst B. assert (NDl : NoDup (leaves (Leaf a) ++ leaves A ++ leaves (Leaf b))) by exact ND1.
    pose proof (teq_swap_inner (Leaf a) x A f (Leaf b) lam y NDl) as E2.
    exists x, y, lam, A, f. split; [exact (teq_trans _ _ _ E1 E2)|]. split; [cbn [positive] in *; tauto|].
    eapply iso_trans; [exact I1|apply iso_swap_inner].
Qed.

Theorem max_pair_is_cherry T d n a b :
  NoDup (leaves T) -> positive T -> metric_of d T -> Permutation (leaves T) (seq 0 n) ->
  3 <= n -> a < n -> b < n -> a <> b -> tmax d n a b ->
  exists x y eb Z ez,
    teq T (Node (Leaf a) x (Node (Leaf b) eb Z ez) y) /\
    positive (Node (Leaf a) x (Node (Leaf b) eb Z ez) y).
Proof.
  intros ND HP Hd Hn L3 Ha Hb Nab Hmax.
  destruct (max_pair_is_cherry_iso T d n a b ND HP Hd Hn L3 Ha Hb Nab Hmax) as (x & y & eb & Z & ez & H1 & H2 & _).
  exists x, y, eb, Z, ez. split; assumption.
Qed.
