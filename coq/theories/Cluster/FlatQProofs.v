(* The rational instance satisfies the hypotheses of the generic theorems. *)
From Coq Require Import QArith List Bool Arith Lia Lqa.
From LV Require Import Cluster.Flat Cluster.FlatProofs Cluster.FlatLinkage Cluster.FlatQ.
Import ListNotations.

Lemma qleb_total a b : qleb a b = true \/ qleb b a = true.
Proof.
  unfold qleb. rewrite !Qle_bool_iff. destruct (Qlt_le_dec a b) as [H|H]; [left; apply Qlt_le_weak; exact H|right; exact H].
Qed.

Lemma qleb_trans a b c : qleb a b = true -> qleb b c = true -> qleb a c = true.
Proof. unfold qleb. rewrite !Qle_bool_iff. apply Qle_trans. Qed.

Lemma qmin_fold tl : forall x t,
  Qle_bool (fold_left (fun m y => if Qle_bool m y then m else y) tl x) t = true <->
  (Qle_bool x t = true \/ exists s, In s tl /\ Qle_bool s t = true).
Proof.
  induction tl as [|y tl IH]; intros x t; cbn [fold_left].
  - split; [tauto|]. intros [H|[s [[] _]]]. exact H.
  - rewrite IH. destruct (Qle_bool x y) eqn:E.
    + split.
      * intros [H|[s [Hs L]]]; [left; exact H|right; exists s; split; [right; exact Hs|exact L]].
      * intros [H|[s [[->|Hs] L]]]; [left; exact H| |right; exists s; tauto].
        left. rewrite Qle_bool_iff in *. eapply Qle_trans; eauto.
    + split.
      * intros [H|[s [Hs L]]]; [right; exists y; split; [left; reflexivity|exact H]|].
        right; exists s; split; [right; exact Hs|exact L].
      * intros [H|[s [[->|Hs] L]]]; [|left; exact L|right; exists s; tauto].
        left. rewrite Qle_bool_iff in *. assert (~ x <= y) by (rewrite <- Qle_bool_iff; congruence).
        apply Qnot_le_lt in H0. apply Qlt_le_weak in H0. eapply Qle_trans; eauto.
Qed.

Lemma qmin_spec l t : l <> [] ->
  (qleb (qmin l) t = true <-> exists s, In s l /\ qleb s t = true).
Proof.
  destruct l as [|x tl]; [congruence|]. intros _. unfold qleb, qmin. rewrite qmin_fold. split.
  - intros [H|[s [Hs L]]]; [exists x; split; [left; reflexivity|exact H]|exists s; split; [right; exact Hs|exact L]].
  - intros [s [[->|Hs] L]]; [left; exact L|right; exists s; tauto].
Qed.

Lemma qmax_fold tl : forall x t,
  Qle_bool (fold_left (fun m y => if Qle_bool y m then m else y) tl x) t = true ->
  (Qle_bool x t = true /\ forall s, In s tl -> Qle_bool s t = true).
Proof.
  induction tl as [|y tl IH]; intros x t; cbn [fold_left].
  - intros H. split; [exact H|intros s []].
  - intros H. apply IH in H. destruct H as [H1 H2]. destruct (Qle_bool y x) eqn:E.
    + split; [exact H1|]. intros s [->|Hs]; [|auto]. rewrite Qle_bool_iff in *. eapply Qle_trans; eauto.
    + assert (Hx : Qle_bool x t = true).
      { rewrite Qle_bool_iff in *. assert (~ y <= x) by (rewrite <- Qle_bool_iff; congruence).
        apply Qnot_le_lt in H. apply Qlt_le_weak in H. eapply Qle_trans; eauto. }
      split; [exact Hx|]. intros s [->|Hs]; auto.
Qed.

Lemma qmax_spec l t : qleb (qmax l) t = true -> forall s, In s l -> qleb s t = true.
Proof.
  destruct l as [|x tl]; [intros _ s []|]. unfold qleb, qmax. intros H. apply qmax_fold in H.
  destruct H as [H1 H2]. intros s [->|Hs]; auto.
Qed.
