(* Tree matrices and the shared tree-matrix -> Newick construction of
   lingpy.algorithm.cython._cluster (upgma: lines 369-390, neighbor: 514-536,
   _tree2nwk: 692-744):

     newick = dict([(i, taxa[i]) for i in range(x)])
     for i,(a,b,c,d) in enumerate(tree):
         newick[x+i] = '({0}:{2:.2f},{1}:{3:.2f})'.format(newick[a], newick[b], c, d)
     return newick[max(newick.keys())] + ';'

   A Newick string is modelled by its nesting: a binary [tree] whose leaves
   are taxon indices and whose two child edges carry the lengths of the row
   (the '{:.2f}' rendering is not modelled; with distances=False the lengths
   are simply absent).  Model only: no proofs here. *)
From Coq Require Import QArith List Arith Bool.
Import ListNotations.
Local Open Scope nat_scope.

(* one row of a tree matrix: (idxA, idxB, branch length of A, branch length of B) *)
Definition row : Type := nat * nat * Q * Q.

Inductive tree :=
| Leaf (x : nat)
| Node (l : tree) (bl : Q) (r : tree) (br : Q).

Fixpoint leaves (t : tree) : list nat :=
  match t with
  | Leaf x => [x]
  | Node l _ r _ => leaves l ++ leaves r
  end.

(* root-to-leaf sums of branch lengths, in the order of [leaves] *)
Fixpoint depths (t : tree) : list Q :=
  match t with
  | Leaf _ => [0%Q]
  | Node l bl r br => map (Qplus bl) (depths l) ++ map (Qplus br) (depths r)
  end.

(* the newick dictionary: insertion ordered association list *)
Definition dict := list (nat * tree).

Fixpoint dget (k : nat) (d : dict) : option tree :=
  match d with
  | [] => None
  | (k', t) :: tl => if Nat.eqb k k' then Some t else dget k tl
  end.

(* newick = dict([(i,taxa[i]) for i in range(x)]) *)
Definition nwk_init (n : nat) : dict := map (fun i => (i, Leaf i)) (seq 0 n).

(* the loop over the rows; [next] is x+i.  A missing key (KeyError) is None.
   x+i is larger than every key present, so the assignment appends. *)
Fixpoint nwk_run (d : dict) (next : nat) (rows : list row) : option dict :=
  match rows with
  | [] => Some d
  | (a, b, c, e) :: tl =>
      match dget a d, dget b d with
      | Some ta, Some tb => nwk_run (d ++ [(next, Node ta c tb e)]) (S next) tl
      | _, _ => None
      end
  end.

(* newick[max(newick.keys())]; the keys are 0 .. x+len(tree)-1.  x = 0: max([]) raises. *)
Definition nwk (n : nat) (rows : list row) : option tree :=
  match n with
  | O => None
  | S _ =>
      match nwk_run (nwk_init n) n rows with
      | Some d => dget (n + length rows - 1) d
      | None => None
      end
  end.

(* ------------------------------------------------------------------ *)
(* a parsed Newick string as the harness hands it over: any arity, every child
   with the length printed after ':' (0 when no length was printed) *)
Inductive ntree :=
| NLeaf (x : nat)
| NNode (ch : list (ntree * Q)).

(* nesting of a model tree in that format *)
Fixpoint nt_of_tree (t : tree) : ntree :=
  match t with
  | Leaf x => NLeaf x
  | Node l bl r br => NNode [(nt_of_tree l, bl); (nt_of_tree r, br)]
  end.

(* ------------------------------------------------------------------ *)
(* "each merge joins two live nodes and creates node next": the structural
   validity of a tree matrix.  [live] = node ids that have not been used as a
   child yet. *)
Inductive merges : list nat -> nat -> list row -> Prop :=
| merges_nil live next : merges live next []
| merges_cons live next a b c e rows :
    In a live -> In b live -> a <> b ->
    merges (next :: remove Nat.eq_dec b (remove Nat.eq_dec a live)) (S next) rows ->
    merges live next ((a, b, c, e) :: rows).

(* a tree matrix for n taxa: n-1 rows, row k joins two live nodes into node n+k *)
Definition valid_rows (n : nat) (rows : list row) : Prop :=
  length rows = n - 1 /\ merges (seq 0 n) n rows.
