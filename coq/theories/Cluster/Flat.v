(* Model of lingpy.algorithm.cython._cluster: flat_cluster / flat_upgma and the
   three recursive agglomerators _flat_upgma, _flat_single_linkage,
   _flat_complete_linkage (src/lingpy/algorithm/cython/_cluster.py:4-300) and of
   the 'ward' wrapper in lingpy.algorithm.clustering.flat_cluster.

   The cluster dictionary is an association list in insertion order (Python 3.7+
   dict semantics).  The carrier [V] of distances, its order [leb] and the
   linkage function [link] are parameters, so every theorem holds for exact
   rationals and for any consistent float order alike.  No proofs here. *)
From Coq Require Import List Arith Bool.
Import ListNotations.

Section Flat.
  Variable V : Type.
  Variable leb : V -> V -> bool.          (* leb a b  <->  a <= b *)
  Variable link : list V -> V.            (* min / max / sum/len of the cross scores *)
  Variable d : nat -> nat -> V.           (* matrix[a][b] *)

  Definition clusters := list (nat * list nat).

  (* score = []; for vA in valA: for vB in valB: score += [matrix[vA][vB]] *)
  Definition cross (va vb : list nat) : list V :=
    flat_map (fun a => map (fun b => d a b) vb) va.

  (* for i,valA in clusters.items(): for j,valB in clusters.items(): if i != j: ... *)
  Definition pair_scores (cl : clusters) : list ((nat * nat) * V) :=
    flat_map (fun ca =>
      flat_map (fun cb =>
        if Nat.eqb (fst ca) (fst cb) then []
        else [((fst ca, fst cb), link (cross (snd ca) (snd cb)))]) cl) cl.

  (* indices[scores.index(min(scores))]: the first entry that no other entry
     is strictly below *)
  Fixpoint first_min (l : list ((nat * nat) * V)) : option ((nat * nat) * V) :=
    match l with
    | [] => None
    | x :: tl =>
        match first_min tl with
        | None => Some x
        | Some y => if leb (snd x) (snd y) then Some x else Some y
        end
    end.

  Fixpoint lookup (k : nat) (cl : clusters) : option (list nat) :=
    match cl with
    | [] => None
    | (k', v) :: tl => if Nat.eqb k k' then Some v else lookup k tl
    end.

  (* del clusters[k] *)
  Fixpoint remove_key (k : nat) (cl : clusters) : clusters :=
    match cl with
    | [] => []
    | (k', v) :: tl => if Nat.eqb k k' then tl else (k', v) :: remove_key k tl
    end.

  (* clusters[k] += extra *)
  Fixpoint append_to (k : nat) (extra : list nat) (cl : clusters) : clusters :=
    match cl with
    | [] => []
    | (k', v) :: tl =>
        if Nat.eqb k k' then (k', v ++ extra) :: tl
        else (k', v) :: append_to k extra tl
    end.

  Definition merge (a b : nat) (cl : clusters) : clusters :=
    match lookup b cl with
    | Some vb => remove_key b (append_to a vb cl)
    | None => cl
    end.

  (* one recursive call: None = "return" (nothing merged) *)
  Definition step (thr : V) (cl : clusters) : option clusters :=
    match cl with
    | [_] => None
    | _ =>
        match first_min (pair_scores cl) with
        | Some ((a, b), m) => if leb m thr then Some (merge a b cl) else None
        | None => None
        end
    end.

  Fixpoint run (fuel : nat) (thr : V) (cl : clusters) : clusters :=
    match fuel with
    | O => cl
    | S f => match step thr cl with
             | Some cl' => run f thr cl'
             | None => cl
             end
    end.

  Definition init (n : nat) : clusters := map (fun i => (i, [i])) (seq 0 n).

  (* the clusters dictionary on return (indices output) *)
  Definition flat (n : nat) (thr : V) : clusters := run n thr (init n).

  (* revert=True: out[i] = key + 1, dictionary in insertion order *)
  Definition revert (cl : clusters) : list (nat * nat) :=
    flat_map (fun c => map (fun i => (i, S (fst c))) (snd c)) cl.
End Flat.

Arguments cross {V}.
Arguments pair_scores {V}.
Arguments first_min {V}.
Arguments step {V}.
Arguments run {V}.
Arguments flat {V}.
