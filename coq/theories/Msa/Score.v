(* The sum-of-pairs score: model of
     lingpy.algorithm.cython._calign.score_profile   (_calign.py:2427-2482)
     lingpy.algorithm.cython._talign.score_profile   (_talign.py:1067-1125)
     lingpy.align.multiple.Multiple.sum_of_pairs     (multiple.py:1083-1130)
   over exact rationals.  A cell is [option A] ([None] = 'X').
   calign: every pair of cells of the two columns adds scorer[a,b] to the score and 1 to the
   counter if neither is a gap, and gap_weight to the counter otherwise;
   talign: a pair of two gaps adds gap_weight to the counter, a pair with exactly one gap adds
   gop to the score and 1 to the counter.  The result is score / counter (None = the
   ZeroDivisionError of an all-gap column with gap_weight 0).  sum_of_pairs is the mean of
   score_profile(column, column) over the columns.  The scorer is a total function here (a
   KeyError of the scoring dictionary is not modelled).  Model only; proofs in ScoreProofs.v. *)
From Coq Require Import List Arith Bool ZArith QArith.
From LV Require Import Common.Cases Msa.Profile.
Import ListNotations.

Section Score.
  Variable A : Type.
  Variable scorer : A -> A -> Q.

  (* contribution of one pair of cells: (to the score, to the counter) *)
  Definition cpair (gw : Q) (x y : cell A) : Q * Q :=
    match x, y with
    | Some a, Some b => (scorer a b, 1)
    | _, _ => (0, gw)
    end.

  Definition tpair (gop gw : Q) (x y : cell A) : Q * Q :=
    match x, y with
    | Some a, Some b => (scorer a b, 1)
    | None, None => (0, gw)
    | _, _ => (gop, 1)
    end.

  (* for i, charA in enumerate(colA): for j, charB in enumerate(colB): ... *)
  Definition accumulate (pair : cell A -> cell A -> Q * Q) (colA colB : line A) : Q * Q :=
    fold_left (fun acc xy => let '(s, c) := pair (fst xy) (snd xy) in (fst acc + s, snd acc + c))
              (list_prod colA colB) (0, 0).

  Definition quotient (sc : Q * Q) : option Q :=
    if Qeq_bool (snd sc) 0 then None else Some (fst sc / snd sc).

  Definition cscore_profile (gw : Q) (colA colB : line A) : option Q :=
    quotient (accumulate (cpair gw) colA colB).

  Definition tscore_profile (gop gw : Q) (colA colB : line A) : option Q :=
    quotient (accumulate (tpair gop gw) colA colB).

  Fixpoint omap {X Y} (f : X -> option Y) (l : list X) : option (list Y) :=
    match l with
    | [] => Some []
    | x :: t => match f x, omap f t with
                | Some y, Some ys => Some (y :: ys)
                | _, _ => None
                end
    end.

  (* [line[i] for line in alm_matrix] *)
  Definition column (m : mat A) (i : nat) : option (line A) := omap (fun l => nth_error l i) m.

  Definition qsum (l : list Q) : Q := fold_left Qplus l 0.

  (* sonars = True: calign.score_profile(col, col, scorer, gap_weight=gw);
     otherwise talign.score_profile(col, col, scorer, gop, gap_weight) *)
  Definition sum_of_pairs (sonars : bool) (gop gw : Q) (m : mat A) : option Q :=
    match m with
    | [] => None                                           (* alm_matrix[0] *)
    | r0 :: _ =>
        let lenM := length r0 in
        match omap (column m) (seq 0 lenM) with
        | Some cols =>
            match omap (fun c => if sonars then cscore_profile gw c c else tscore_profile gop gw c c) cols with
            | Some scores => if Nat.eqb lenM 0 then None else Some (qsum scores / inject_Z (Z.of_nat lenM))
            | None => None
            end
        | None => None
        end
    end.
End Score.

Arguments cscore_profile {A}.
Arguments tscore_profile {A}.
Arguments sum_of_pairs {A}.
Arguments accumulate {A}.
Arguments cpair {A}.
Arguments tpair {A}.
