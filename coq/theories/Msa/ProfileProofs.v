(* Proofs about Msa/Profile.v: on rectangular blocks, transposing, inserting all-gap
   columns where the pairwise profile alignment has a gap, and transposing back is
   the row-wise re-gapping [regap]; re-gapping keeps every row's content, makes the
   two blocks rectangular of one width, and creates no all-gap column. *)
From Coq Require Import List Arith Bool Lia.
From LV Require Import Align.DP Msa.Profile Msa.MsaSpec.
Import ListNotations.

(* ------------------------------------------------------------------ *)
(* list lemmas *)
Lemma map_nth_seq {X} (d : X) (l : list X) : map (fun j => nth j l d) (seq 0 (length l)) = l.
Proof.
  induction l as [|x t IH]; [reflexivity|].
  cbn [length seq map nth]. f_equal. rewrite <- seq_shift, map_map. exact IH.
Qed.

Lemma map_nth_seq_f {X Y} (f : X -> Y) (d : X) (l : list X) :
  map (fun k => f (nth k l d)) (seq 0 (length l)) = map f l.
Proof.
  rewrite <- (map_map (fun k => nth k l d) f). rewrite map_nth_seq. reflexivity.
Qed.

Lemma nth_repeat_same {X} (x : X) n k : nth k (repeat x n) x = x.
Proof. revert k; induction n as [|n IH]; intros [|k]; cbn; auto. Qed.

Lemma degap_app_local {X} (l1 l2 : list (option X)) : degap (l1 ++ l2) = degap l1 ++ degap l2.
Proof.
  induction l1 as [|[x|] tl IH]; cbn [app degap]; [reflexivity| |exact IH]. f_equal. exact IH.
Qed.

Lemma insert_at_app {X} (pre rest : list X) (g : X) :
  insert_at (length pre) g (pre ++ rest) = pre ++ g :: rest.
Proof.
  unfold insert_at. rewrite firstn_app, skipn_app, Nat.sub_diag, firstn_all, skipn_all.
  cbn [firstn skipn app]. rewrite app_nil_r. reflexivity.
Qed.

(* ------------------------------------------------------------------ *)
(* the effect of the insertion loop *)
Fixpoint expand {X} (a : list (option nat)) (l : list X) (g : X) : list X :=
  match a with
  | [] => l
  | None :: t => g :: expand t l g
  | Some _ :: t => match l with
                   | [] => expand t [] g
                   | x :: l' => x :: expand t l' g
                   end
  end.

Lemma no_double_gap_nil_l {X} (b : list (option X)) : no_double_gap [] b -> b = [].
Proof. destruct b; [reflexivity|intros []]. Qed.

Lemma insert_gaps_expand {X Y} (gA : X) (gB : Y) :
  forall a b pre pre' restA restB,
    no_double_gap a b ->
    length (degap a) = length restA -> length (degap b) = length restB ->
    length pre = length pre' ->
    insert_gaps (length pre) a b (pre ++ restA) (pre' ++ restB) gA gB
    = Some (pre ++ expand a restA gA, pre' ++ expand b restB gB).
Proof.
  induction a as [|x ta IH]; intros b pre pre' restA restB ND LA LB LP.
  - apply no_double_gap_nil_l in ND. subst b. reflexivity.
  - destruct b as [|y tb]; [destruct ND|]. cbn [no_double_gap] in ND. destruct ND as [Hxy ND].
    destruct x as [k|].
    + (* column of A *)
      cbn [degap length] in LA. destruct restA as [|cA restA']; [discriminate|].
      cbn [length] in LA. cbn [insert_gaps expand].
      destruct y as [k'|].
      * cbn [degap length] in LB. destruct restB as [|cB restB']; [discriminate|]. cbn [length] in LB.
        cbn [expand].
        specialize (IH tb (pre ++ [cA]) (pre' ++ [cB]) restA' restB' ND).
        rewrite app_length in IH. cbn [length] in IH. rewrite Nat.add_1_r in IH.
        rewrite <- !app_assoc in IH. cbn [app] in IH.
        apply IH; try lia. rewrite !app_length. cbn [length]. lia.
      * cbn [degap] in LB. cbn [expand]. rewrite LP, insert_at_app.
        specialize (IH tb (pre ++ [cA]) (pre' ++ [gB]) restA' restB ND).
        rewrite app_length in IH. cbn [length] in IH. rewrite Nat.add_1_r in IH.
        rewrite <- !app_assoc in IH. cbn [app] in IH. rewrite <- LP.
        apply IH; try lia. rewrite !app_length. cbn [length]. lia.
    + (* gap in A: an all-gap column is inserted into A; B advances *)
      destruct y as [k'|]; [|destruct Hxy as [H|H]; congruence].
      cbn [degap] in LA. cbn [degap length] in LB.
      destruct restB as [|cB restB']; [discriminate|]. cbn [length] in LB.
      cbn [insert_gaps expand tl]. rewrite insert_at_app.
      specialize (IH tb (pre ++ [gA]) (pre' ++ [cB]) restA restB' ND).
      rewrite app_length in IH. cbn [length] in IH. rewrite Nat.add_1_r in IH.
      rewrite <- !app_assoc in IH. cbn [app] in IH.
      apply IH; try lia. rewrite !app_length. cbn [length]. lia.
Qed.

Lemma expand_map {X Y} (f : X -> Y) (g : X) : forall a l,
  map f (expand a l g) = expand a (map f l) (f g).
Proof.
  induction a as [|[k|] t IH]; intros l; cbn [expand]; [reflexivity| |].
  - destruct l as [|x l']; cbn [map]; [apply (IH [])|]. f_equal. apply IH.
  - cbn [map]. f_equal. apply IH.
Qed.

Lemma expand_length {X} (g : X) : forall a l,
  length (degap a) = length l -> length (expand a l g) = length a.
Proof.
  induction a as [|[k|] t IH]; intros l H; cbn [expand degap length] in *.
  - destruct l; [reflexivity|discriminate].
  - destruct l as [|x l']; [discriminate|]. cbn [length] in *. f_equal. apply IH. lia.
  - f_equal. apply IH. exact H.
Qed.

Lemma expand_not_nil {X} (g : X) a x l : expand a (x :: l) g <> [].
Proof. destruct a as [|[k|] t]; cbn [expand]; discriminate. Qed.

(* ------------------------------------------------------------------ *)
(* row-wise re-gapping *)
Section Regap.
  Variable A : Type.

  Definition regap (a : list (option nat)) (r : line A) : line A := expand a r None.

  Lemma regap_degap : forall a r, length (degap a) = length r -> degap (regap a r) = degap r.
  Proof.
    unfold regap. induction a as [|[k|] t IH]; intros r H; cbn [expand degap length] in *.
    - reflexivity.
    - destruct r as [|c r']; [discriminate|]. cbn [length] in H.
      destruct c as [x|]; cbn [degap]; [f_equal|]; apply IH; lia.
    - apply IH. exact H.
  Qed.

  Lemma regap_length a r : length (degap a) = length r -> length (regap a r) = length a.
  Proof. apply expand_length. Qed.

  (* cell j of the re-gapped row *)
  Lemma regap_nth : forall a r j, length (degap a) = length r -> j < length a ->
    nth j (regap a r) None =
    match nth j a None with
    | None => None
    | Some _ => nth (length (degap (firstn j a))) r None
    end.
  Proof.
    unfold regap. induction a as [|[k|] t IH]; intros r j H Hj; cbn [length] in Hj; [lia| |].
    - cbn [degap length] in H. destruct r as [|c r']; [discriminate|]. cbn [length] in H.
      cbn [expand]. destruct j as [|j]; [reflexivity|].
      cbn [nth firstn degap length]. apply IH; lia.
    - cbn [degap] in H. cbn [expand]. destruct j as [|j]; [reflexivity|].
      cbn [nth firstn degap]. apply IH; [exact H|lia].
  Qed.

  Lemma degap_firstn_lt : forall (a : list (option nat)) j k, nth j a None = Some k ->
    length (degap (firstn j a)) < length (degap a).
  Proof.
    induction a as [|x t IH]; intros j k H; [destruct j; discriminate|].
    destruct j as [|j]; cbn [nth] in H.
    - subst x. cbn [firstn degap length]. lia.
    - cbn [firstn]. destruct x; cbn [degap length]; specialize (IH j k H); lia.
  Qed.

  Lemma no_double_gap_nth {X} : forall (a : list (option X)) (b : list (option X)) j,
    no_double_gap a b -> j < length a -> nth j a None = None -> nth j b None <> None.
  Proof.
    induction a as [|x ta IH]; intros b j ND Hj Hn; cbn [length] in Hj; [lia|].
    destruct b as [|y tb]; [destruct ND|]. destruct ND as [Hxy ND].
    destruct j as [|j]; cbn [nth] in *.
    - subst x. destruct Hxy; [congruence|assumption].
    - apply IH; [exact ND|lia|exact Hn].
  Qed.

  Lemma no_double_gap_length {X} : forall (a b : list (option X)), no_double_gap a b -> length a = length b.
  Proof.
    induction a as [|x ta IH]; intros [|y tb] ND; try destruct ND; [reflexivity|].
    cbn [length]. f_equal. apply IH. assumption.
  Qed.
End Regap.

Arguments regap {A}.

(* ------------------------------------------------------------------ *)
(* transpose on rectangular matrices *)
Section Transpose.
  Variable A : Type.

  Definition cols_of (L : nat) (m : mat A) : mat A :=
    map (fun j => map (fun r => nth j r None) m) (seq 0 L).

  Lemma transpose_rect L (m : mat A) : rect L m -> m <> [] -> transpose m = Some (cols_of L m).
  Proof.
    intros R N. destruct m as [|r0 t]; [congruence|]. unfold transpose.
    assert (L0 : length r0 = L) by (inversion R; assumption).
    replace (forallb (fun r => length r0 <=? length r) (r0 :: t)) with true.
    - rewrite L0. reflexivity.
    - symmetry. apply forallb_forall. intros r Hr. apply Nat.leb_le.
      unfold rect in R. rewrite Forall_forall in R. rewrite (R r Hr). lia.
  Qed.

  Lemma transpose_some (m m' : mat A) : transpose m = Some m' -> m <> [].
  Proof. destruct m; [discriminate|discriminate]. Qed.

  (* row k of the matrix whose columns are [cols_of L m] *)
  Lemma cols_of_row L (m : mat A) k : rect L m -> k < length m ->
    map (fun c => nth k c None) (cols_of L m) = nth k m [].
  Proof.
    intros R Hk. unfold cols_of. rewrite map_map.
    assert (E : forall j, nth k (map (fun r : line A => nth j r None) m) None = nth j (nth k m []) None).
    { intros j.
      transitivity (nth k (map (fun r : line A => nth j r None) m) ((fun r : line A => nth j r None) [])).
      - f_equal. destruct j; reflexivity.
      - apply (map_nth (fun r : line A => nth j r None)). }
    erewrite map_ext; [|intros j; apply E].
    assert (Lk : length (nth k m []) = L).
    { unfold rect in R. rewrite Forall_forall in R. apply R. apply nth_In. exact Hk. }
    rewrite <- Lk. apply map_nth_seq.
  Qed.

  Lemma cols_of_height L (m : mat A) : rect (length m) (cols_of L m).
  Proof.
    unfold rect, cols_of. apply Forall_forall. intros c Hc. apply in_map_iff in Hc.
    destruct Hc as [j [<- _]]. apply map_length.
  Qed.

  (* transpose, insert the gap columns, transpose back = re-gap every row *)
  Lemma regap_by_columns L (m : mat A) (a : list (option nat)) :
    rect L m -> m <> [] -> 0 < L ->
    transpose (expand a (cols_of L m) (repeat None (length m))) = Some (map (regap a) m).
  Proof.
    intros R N HL.
    set (cols' := expand a (cols_of L m) (repeat None (length m))).
    assert (R' : rect (length m) cols').
    { unfold rect, cols'. clear HL N.
      assert (G : forall a (l : mat A), Forall (fun r => length r = length m) l ->
                  Forall (fun r => length r = length m) (expand a l (repeat None (length m)))).
      { induction a0 as [|[k|] t IH]; intros l Hl; cbn [expand]; [exact Hl| |].
        - destruct l as [|x l']; [apply IH; constructor|].
          inversion Hl; subst. constructor; [assumption|apply IH; assumption].
        - constructor; [apply repeat_length|apply IH; exact Hl]. }
      apply G. apply cols_of_height. }
    assert (N' : cols' <> []).
    { unfold cols', cols_of. destruct L as [|L']; [lia|]. cbn [seq map]. apply expand_not_nil. }
    rewrite (transpose_rect (length m) cols' R' N'). f_equal.
    unfold cols_of at 1.
    erewrite map_ext.
    2:{ intros k. unfold cols'. rewrite expand_map. rewrite nth_repeat_same. reflexivity. }
    rewrite <- (map_nth_seq_f (regap a) [] m).
    apply map_ext_in. intros k Hk. apply in_seq in Hk. unfold regap. f_equal.
    apply cols_of_row; [exact R|lia].
  Qed.
End Transpose.

Arguments cols_of {A}.

(* ------------------------------------------------------------------ *)
(* _align_profile on rectangular blocks *)
Section AlignProfile.
  Variable A : Type.
  Variable PA : oracle A.
  Hypothesis PA_valid : oracle_valid PA.

  Lemma cols_of_length L (m : mat A) : length (cols_of L m) = L.
  Proof. unfold cols_of. rewrite map_length, seq_length. reflexivity. Qed.

  Theorem align_profile_spec LA LB (RA RB ra rb : mat A) :
    rect LA RA -> rect LB RB ->
    align_profile PA RA RB = Some (ra, rb) ->
    exists a b,
      valid_aln a b (seq 0 LA) (seq 0 LB) /\
      ra = map (regap a) RA /\ rb = map (regap b) RB /\
      RA <> [] /\ RB <> [] /\ 0 < LA /\ 0 < LB.
  Proof.
    intros RA_ RB_ H. unfold align_profile in H.
    destruct (transpose RA) as [profileA|] eqn:TA; [|discriminate].
    destruct (transpose RB) as [profileB|] eqn:TB; [|discriminate].
    pose proof (transpose_some _ _ _ TA) as NA. pose proof (transpose_some _ _ _ TB) as NB.
    rewrite (transpose_rect _ LA RA RA_ NA) in TA. rewrite (transpose_rect _ LB RB RB_ NB) in TB.
    inversion TA; subst profileA; clear TA. inversion TB; subst profileB; clear TB.
    destruct (cols_of LA RA) as [|cA restA] eqn:EA; [discriminate|].
    destruct (cols_of LB RB) as [|cB restB] eqn:EB; [discriminate|].
    assert (HLA : 0 < LA).
    { pose proof (cols_of_length LA RA) as HA. rewrite EA in HA. cbn [length] in HA. lia. }
    assert (HLB : 0 < LB).
    { pose proof (cols_of_length LB RB) as HB. rewrite EB in HB. cbn [length] in HB. lia. }
    destruct (PA (cA :: restA) (cB :: restB)) as [[almA almB]|] eqn:EP; [|discriminate].
    pose proof (PA_valid _ _ _ _ EP) as V.
    rewrite <- EA, <- EB in V. rewrite !cols_of_length in V.
    destruct V as [VL [ND [DA DB]]].
    assert (hA : length cA = length RA).
    { pose proof (cols_of_height _ LA RA) as HH. rewrite EA in HH. inversion HH; assumption. }
    assert (hB : length cB = length RB).
    { pose proof (cols_of_height _ LB RB) as HH. rewrite EB in HH. inversion HH; assumption. }
    pose proof (@insert_gaps_expand (line A) (line A) (repeat (@None A) (length cA)) (repeat (@None A) (length cB))
                  almA almB [] [] (cA :: restA) (cB :: restB) ND) as IG.
    cbn [app length] in IG. rewrite IG in H.
    2:{ rewrite DA, seq_length. pose proof (cols_of_length LA RA) as HA. rewrite EA in HA.
        cbn [length] in HA. lia. }
    2:{ rewrite DB, seq_length. pose proof (cols_of_length LB RB) as HB. rewrite EB in HB.
        cbn [length] in HB. lia. }
    2:{ reflexivity. }
    rewrite <- EA, <- EB, hA, hB in H.
    rewrite (regap_by_columns _ LA RA almA RA_ NA HLA) in H.
    rewrite (regap_by_columns _ LB RB almB RB_ NB HLB) in H.
    inversion H; subst ra rb.
    exists almA, almB. repeat split; try assumption.
  Qed.
End AlignProfile.

(* ------------------------------------------------------------------ *)
(* what re-gapping does to a pair of aligned blocks *)
Section ApplyInv.
  Variable A : Type.

  Lemma aligned_rows_in (sA : list (list A)) (RA : mat A) :
    Forall2 (fun r s => degap r = s) RA sA -> length RA = length sA.
  Proof. induction 1; cbn [length]; congruence. Qed.

  (* apply_profile_inv: both blocks keep their content row by row, the result is
     rectangular, and it has no all-gap column if neither block had one *)
  Theorem regap_blocks_aligned (sA sB : list (list A)) (RA RB : mat A) LA LB a b :
    Forall2 (fun r s => degap r = s) RA sA -> rect LA RA -> no_gap_col LA RA ->
    Forall2 (fun r s => degap r = s) RB sB -> rect LB RB -> no_gap_col LB RB ->
    valid_aln a b (seq 0 LA) (seq 0 LB) ->
    aligned (sA ++ sB) (map (regap a) RA ++ map (regap b) RB).
  Proof.
    intros FA RA_ GA FB RB_ GB [VL [ND [DA DB]]].
    assert (CA : length (degap a) = LA) by (rewrite DA; apply seq_length).
    assert (CB : length (degap b) = LB) by (rewrite DB; apply seq_length).
    unfold rect in RA_, RB_. rewrite Forall_forall in RA_, RB_.
    split.
    - apply Forall2_app.
      + clear GA. induction FA as [|r s RA' sA' Hr FA' IH]; cbn [map]; constructor.
        * rewrite regap_degap; [exact Hr|]. rewrite CA. symmetry. apply RA_. left; reflexivity.
        * apply IH. intros x Hx. apply RA_. right; exact Hx.
      + clear GB. induction FB as [|r s RB' sB' Hr FB' IH]; cbn [map]; constructor.
        * rewrite regap_degap; [exact Hr|]. rewrite CB. symmetry. apply RB_. left; reflexivity.
        * apply IH. intros x Hx. apply RB_. right; exact Hx.
    - exists (length a). split.
      + unfold rect. apply Forall_app. split; apply Forall_forall; intros r Hr;
          apply in_map_iff in Hr; destruct Hr as [r0 [<- Hr0]].
        * apply regap_length. rewrite CA. symmetry. apply RA_. exact Hr0.
        * rewrite regap_length; [symmetry; exact VL|]. rewrite CB. symmetry. apply RB_. exact Hr0.
      + intros j Hj. destruct (nth j a None) as [k|] eqn:Ej.
        * pose proof (degap_firstn_lt a j k Ej) as Hc. rewrite CA in Hc.
          destruct (GA _ Hc) as [r [Hr Hn]].
          exists (regap a r). split; [apply in_or_app; left; apply in_map; exact Hr|].
          rewrite regap_nth; [rewrite Ej; exact Hn| |exact Hj].
          rewrite CA. symmetry. apply RA_. exact Hr.
        * pose proof (no_double_gap_nth a b j ND Hj Ej) as Hb.
          destruct (nth j b None) as [k|] eqn:Eb; [|congruence].
          pose proof (degap_firstn_lt b j k Eb) as Hc. rewrite CB in Hc.
          destruct (GB _ Hc) as [r [Hr Hn]].
          exists (regap b r). split; [apply in_or_app; right; apply in_map; exact Hr|].
          rewrite regap_nth; [rewrite Eb; exact Hn| |rewrite <- VL; exact Hj].
          rewrite CB. symmetry. apply RB_. exact Hr.
  Qed.
End ApplyInv.
