(* Multiple alignment, part 1: profiles.

   Model of  lingpy.algorithm.cython._misc.transpose  and of the part of
   lingpy.align.multiple.Multiple._align_profile / _talign_profile that applies
   the result of the pairwise profile alignment to the two blocks of rows
   (multiple.py:466-468, 531-551 and 568-597).

   A cell is [option A]: [None] is the internal gap symbol 'X'.  A matrix is a
   list of lines; the same type is used for the row view (alignments) and for
   the column view (profiles).  Every Python exception on the modelled path
   (IndexError of [matrix[0]], of [line[j]], of [almB[i]]) is the result [None].

   The pairwise profile aligner (calign.align_profile / talign.align_profile,
   including the consensus / prosody / weight computation that precedes it) is
   an ORACLE: a function [PA] from the two profiles to a pair of aligned index
   lists ([Some k] = column k, [None] = '-').  Model only; proofs are in
   ProfileProofs.v. *)
From Coq Require Import List Arith Bool.
Import ListNotations.

Section Profile.
  Variable A : Type.

  Definition cell := option A.
  Definition line := list cell.
  Definition mat := list line.

  (* the aligned index lists returned by the oracle *)
  Definition ialn := (list (option nat) * list (option nat))%type.
  Definition oracle := mat -> mat -> option ialn.

  (* misc.transpose:  lA = len(matrix); lB = len(matrix[0]);
     [[matrix[i][j] for i in range(lA)] for j in range(lB)]
     - an empty matrix raises (matrix[0]); a line shorter than the first one
     raises (matrix[i][j]); longer lines are silently cut. *)
  Definition transpose (m : mat) : option mat :=
    match m with
    | [] => None
    | r0 :: _ =>
        if forallb (fun r => length r0 <=? length r) m
        then Some (map (fun j => map (fun r => nth j r None) m) (seq 0 (length r0)))
        else None
    end.

  (* list.insert(i, x): beyond the end it appends *)
  Definition insert_at {X} (i : nat) (x : X) (l : list X) : list X :=
    firstn i l ++ x :: skipn i l.

  (* for i in range(len(almA)):
         if almA[i] == '-':   profileA.insert(i, o * ['X'])
         elif almB[i] == '-': profileB.insert(i, p * ['X'])           *)
  Fixpoint insert_gaps {X Y} (i : nat) (a b : list (option nat))
           (pA : list X) (pB : list Y) (gA : X) (gB : Y) : option (list X * list Y) :=
    match a with
    | [] => Some (pA, pB)
    | None :: ta => insert_gaps (S i) ta (tl b) (insert_at i gA pA) pB gA gB
    | Some _ :: ta =>
        match b with
        | [] => None                                   (* almB[i]: IndexError *)
        | None :: tb => insert_gaps (S i) ta tb pA (insert_at i gB pB) gA gB
        | Some _ :: tb => insert_gaps (S i) ta tb pA pB gA gB
        end
    end.

  (* _align_profile(almsA, almsB, iterate=True): the two re-gapped blocks *)
  Definition align_profile (PA : oracle) (almsA almsB : mat) : option (mat * mat) :=
    match transpose almsA, transpose almsB with
    | Some profileA, Some profileB =>
        match profileA, profileB with
        | cA :: _, cB :: _ =>
            let o := length cA in               (* o = len(profileA[0]) *)
            let p := length cB in
            match PA profileA profileB with
            | Some (almA, almB) =>
                match insert_gaps 0 almA almB profileA profileB (repeat None o) (repeat None p) with
                | Some (pA', pB') =>
                    match transpose pA', transpose pB' with
                    | Some rA, Some rB => Some (rA, rB)
                    | _, _ => None
                    end
                | None => None
                end
            | None => None
            end
        | _, _ => None                          (* profileA[0]: IndexError *)
        end
    | _, _ => None
    end.
End Profile.

Arguments transpose {A}.
Arguments align_profile {A}.
