(* The first alignment call never fails on valid input: if the profile aligner always
   answers (and answers validly), every input sequence is non-empty and the guide tree is
   a valid merge order, then [align] returns a state.  So the partial-correctness theorems
   of C04 are not vacuous for any valid input, and no [None] (= Python exception) of the
   model is reachable from prog_align / lib_align on valid input. *)
From Coq Require Import List Arith Bool Lia Permutation ZArith.
From LV Require Import Common.Cases Align.DP Msa.Profile Msa.Merge Msa.Refine Msa.MsaSpec
  Msa.ProfileProofs Msa.MergeProofs Msa.UpdateProofs Msa.RefineProofs.
Import ListNotations.

Definition oracle_total {A} (PA : oracle A) : Prop :=
  forall pA pB, pA <> [] -> pB <> [] -> exists a b, PA pA pB = Some (a, b).

Section AlignProfileTotal.
  Variable A : Type.
  Variable PA : oracle A.
  Hypothesis PA_valid : oracle_valid PA.
  Hypothesis PA_total : oracle_total PA.

  Lemma align_profile_total LA LB (RA RB : mat A) :
    rect LA RA -> rect LB RB -> RA <> [] -> RB <> [] -> 0 < LA -> 0 < LB ->
    exists ra rb, align_profile PA RA RB = Some (ra, rb).
  Proof.
    intros RA_ RB_ NA NB HA HB. unfold align_profile.
    rewrite (transpose_rect _ LA RA RA_ NA), (transpose_rect _ LB RB RB_ NB).
    destruct (cols_of LA RA) as [|cA restA] eqn:EA.
    { pose proof (cols_of_length A LA RA) as H. rewrite EA in H. cbn in H. lia. }
    destruct (cols_of LB RB) as [|cB restB] eqn:EB.
    { pose proof (cols_of_length A LB RB) as H. rewrite EB in H. cbn in H. lia. }
    destruct (PA_total (cA :: restA) (cB :: restB)) as [a [b EP]]; try discriminate.
    rewrite EP. pose proof (PA_valid _ _ _ _ EP) as V.
    rewrite <- EA, <- EB in V. rewrite !cols_of_length in V. destruct V as [VL [ND [DA DB]]].
    assert (hA : length cA = length RA).
    { pose proof (cols_of_height _ LA RA) as HH. rewrite EA in HH. inversion HH; assumption. }
    assert (hB : length cB = length RB).
    { pose proof (cols_of_height _ LB RB) as HH. rewrite EB in HH. inversion HH; assumption. }
    pose proof (@insert_gaps_expand (line A) (line A) (repeat (@None A) (length cA)) (repeat (@None A) (length cB))
                  a b [] [] (cA :: restA) (cB :: restB) ND) as IG.
    cbn [app length] in IG. rewrite IG.
    2:{ rewrite DA, seq_length. pose proof (cols_of_length A LA RA) as H. rewrite EA in H. cbn [length] in H. lia. }
    2:{ rewrite DB, seq_length. pose proof (cols_of_length A LB RB) as H. rewrite EB in H. cbn [length] in H. lia. }
    2:{ reflexivity. }
    rewrite <- EA, <- EB, hA, hB.
    rewrite (regap_by_columns _ LA RA a RA_ NA HA), (regap_by_columns _ LB RB b RB_ NB HB).
    eauto.
  Qed.
End AlignProfileTotal.

(* a block that is a gapped version of a non-empty list of non-empty sequences *)
Lemma aligned_nonempty {A} (seqs : list (list A)) (rows : mat A) :
  aligned seqs rows -> seqs <> [] -> Forall (fun s => s <> []) seqs ->
  rows <> [] /\ exists L, rect L rows /\ 0 < L.
Proof.
  intros [F [L [R _]]] N NE. destruct F as [|r s rows' seqs' Hr F']; [congruence|].
  split; [discriminate|]. exists L. split; [exact R|].
  inversion R; subst. inversion NE; subst. destruct r as [|c t]; [cbn in *; congruence|cbn; lia].
Qed.

Section MergeTotal.
  Variable PA : oracle num.
  Hypothesis PA_valid : oracle_valid PA.
  Hypothesis PA_total : oracle_total PA.
  Variable nums : list (list num).
  Hypothesis nums_nonempty : Forall (fun s => s <> []) nums.

  Lemma select_nonempty (ord : list nat) : Forall (fun k => k < length nums) ord ->
    Forall (fun s => s <> []) (map (fun k => nth k nums []) ord).
  Proof.
    intros H. apply Forall_forall. intros s Hs. apply in_map_iff in Hs. destruct Hs as [k [<- Hk]].
    rewrite Forall_forall in H, nums_nonempty. apply nums_nonempty. apply nth_In. apply H. exact Hk.
  Qed.

  (* invariant of the merge loop that also guarantees progress *)
  Definition good_ord (ord : list nat) : Prop := ord <> [] /\ Forall (fun k => k < length nums) ord.

  Lemma merge_loop_total : forall tree so al avail,
    Forall2 (node_ok nums) so al -> Forall good_ord so ->
    (forall k, In k avail -> k < length so) ->
    merge_order avail (length so) tree ->
    exists so' al', merge_loop PA tree so al = Some (so', al').
  Proof.
    induction tree as [|[m n] t IH]; intros so al avail F G Hlt MO; cbn [merge_loop]; [eauto|].
    cbn [merge_order] in MO. destruct MO as [Hm [Hn [Hmn MO]]].
    pose proof (Forall2_len _ _ _ F) as Lal.
    destruct (nth_error so m) as [om|] eqn:Em; [|apply nth_error_None in Em; specialize (Hlt m Hm); lia].
    destruct (nth_error so n) as [on|] eqn:En; [|apply nth_error_None in En; specialize (Hlt n Hn); lia].
    destruct (nth_error al m) as [am|] eqn:Am; [|apply nth_error_None in Am; specialize (Hlt m Hm); lia].
    destruct (nth_error al n) as [an|] eqn:An; [|apply nth_error_None in An; specialize (Hlt n Hn); lia].
    pose proof (Forall2_nth_error _ so al m om am F Em Am) as Nm.
    pose proof (Forall2_nth_error _ so al n on an F En An) as Nn.
    rewrite Forall_forall in G.
    destruct (G om (nth_error_In _ _ Em)) as [Nom Fom]. destruct (G on (nth_error_In _ _ En)) as [Non Fon].
    destruct (aligned_nonempty _ _ Nm) as [NAm [Lm [Rm Pm]]];
      [destruct om; [congruence|discriminate]|apply select_nonempty; exact Fom|].
    destruct (aligned_nonempty _ _ Nn) as [NAn [Ln [Rn Pn]]];
      [destruct on; [congruence|discriminate]|apply select_nonempty; exact Fon|].
    destruct (align_profile_total num PA PA_valid PA_total Lm Ln am an Rm Rn NAm NAn Pm Pn) as [ra [rb EA]].
    rewrite EA.
    apply (IH _ _ (length so :: remove Nat.eq_dec m (remove Nat.eq_dec n avail))).
    - apply Forall2_app; [exact F|]. constructor; [|constructor]. unfold node_ok. rewrite map_app.
      eapply align_profile_aligned; [exact PA_valid|exact Nm|exact Nn|exact EA].
    - apply Forall_app. split; [apply Forall_forall; exact G|]. constructor; [|constructor].
      split; [destruct om; [congruence|discriminate]|apply Forall_app; split; assumption].
    - intros k [<-|Hk]; rewrite app_length; cbn [length]; [lia|].
      apply in_remove in Hk. destruct Hk as [Hk _]. apply in_remove in Hk. destruct Hk as [Hk _].
      specialize (Hlt k Hk). lia.
    - rewrite app_length. cbn [length]. rewrite Nat.add_1_r. exact MO.
  Qed.

  Theorem merge_alignments_total tree :
    valid_merge_order (length nums) tree ->
    exists m, merge_alignments PA nums tree = Some m.
  Proof.
    intros V. unfold merge_alignments.
    set (so0 := map (fun i => [i]) (seq 0 (length nums))). set (al0 := map (fun s => [map (@Some num) s]) nums).
    assert (Lso : length so0 = length nums) by (unfold so0; rewrite map_length, seq_length; reflexivity).
    destruct (merge_loop_total tree so0 al0 (seq 0 (length nums))) as [so [al EM]].
    - apply initial_nodes_ok.
    - unfold so0. apply Forall_forall. intros ord Ho. apply in_map_iff in Ho. destruct Ho as [i [<- Hi]].
      apply in_seq in Hi. split; [discriminate|]. constructor; [lia|constructor].
    - intros k Hk. apply in_seq in Hk. lia.
    - rewrite Lso. exact V.
    - rewrite EM. destruct (merge_loop_inv PA PA_valid nums _ _ _ _ _ (initial_nodes_ok nums) EM) as [F SO].
      destruct (seq_ord_initial_perm _ _ _ V SO) as [Hne P].
      destruct so as [|o1 so1]; [congruence|]. destruct al as [|a1 al1]; [inversion F|].
      assert (NK : node_ok nums (last (o1 :: so1) []) (last (a1 :: al1) [])) by (apply Forall2_last; [exact F|discriminate]).
      destruct NK as [FK _]. pose proof (Forall2_len _ _ _ FK) as LK. rewrite map_length in LK.
      unfold restore_order. replace (length (last (a1 :: al1) []) <=? length (last (o1 :: so1) [])) with true; [eauto|].
      symmetry. apply Nat.leb_le. norm. rewrite LK. apply le_n.
  Qed.
End MergeTotal.

(* _update_alignments never fails on an aligned internal matrix *)
Lemma render_total (toks : list Z) : forall (l : line num),
  (forall i p, In (Some (i, p)) l -> p < length toks) -> exists r, render toks l = Some r.
Proof.
  induction l as [|[[i p]|] t IH]; intros H; cbn [render]; [eauto| |].
  - destruct (nth_error toks p) as [x|] eqn:E.
    + destruct IH as [r ->]; [intros i' p' Hin; apply (H i' p'); right; exact Hin|]. eauto.
    + apply nth_error_None in E. specialize (H i p (or_introl eq_refl)). lia.
  - destruct IH as [r ->]; [intros i' p' Hin; apply (H i' p'); right; exact Hin|]. eauto.
Qed.

Lemma in_degap {X} (x : X) : forall l : list (option X), In (Some x) l -> In x (degap l).
Proof.
  induction l as [|[y|] t IH]; intros H; [destruct H| |].
  - cbn [degap]. destruct H as [E|H]; [inversion E; left; reflexivity|right; apply IH; exact H].
  - cbn [degap]. destruct H as [E|H]; [discriminate|apply IH; exact H].
Qed.

Section UpdateTotal.
  Variable tokens : list (list Z).

  Lemma update_group_total l : forall js out,
    (forall j, In j js -> j < length out /\
        exists toks, nth_error tokens j = Some toks /\ forall i p, In (Some (i, p)) l -> p < length toks) ->
    exists out', update_group tokens l js out = Some out'.
  Proof.
    induction js as [|j t IH]; intros out H; cbn [update_group]; [eauto|].
    destruct (H j (or_introl eq_refl)) as [Hj [toks [Et Hp]]]. rewrite Et.
    destruct (render_total toks l Hp) as [r ->].
    unfold set_nth. apply Nat.ltb_lt in Hj. rewrite Hj. apply Nat.ltb_lt in Hj.
    apply IH. intros j' Hj'. destruct (H j' (or_intror Hj')) as [Hl Hx]. split; [|exact Hx].
    rewrite app_length. cbn [length]. rewrite skipn_length, firstn_length_le by lia. lia.
  Qed.
End UpdateTotal.

Theorem update_alignments_total (cf : config) (m : imat) :
  config_ok cf -> aligned (numbers (cf_classes cf)) m ->
  exists e, update_alignments (cf_tokens cf) (int2ext (cf_classes cf)) m = Some e.
Proof.
  intros [CL CF] [Fm _]. unfold update_alignments.
  set (tokens := cf_tokens cf) in *. set (classes := cf_classes cf) in *.
  set (i2e := int2ext classes). set (G := group_classes classes).
  assert (Ln : length tokens = length classes) by (eapply Forall2_len; exact CL).
  assert (Lm : length m = length G).
  { transitivity (length (numbers classes)); [eapply Forall2_len; exact Fm|apply numbers_length]. }
  (* generalised over the rows still to be written *)
  assert (H : forall rows i out, length out = length tokens -> i + length rows = length G ->
              (forall k, k < length rows -> degap (nth k rows []) = nth (i + k) (numbers classes) []) ->
              exists e, update_rows tokens i2e i rows out = Some e).
  { induction rows as [|l t IH]; intros i out Lo Li Hd; cbn [update_rows]; [eauto|].
    cbn [length] in Li.
    destruct (nth_error i2e i) as [js|] eqn:Ej.
    2:{ apply nth_error_None in Ej. unfold i2e in Ej. rewrite i2e_length in Ej. fold G in Ej. lia. }
    assert (Ejs : nth i i2e [] = js) by (apply nth_error_nth; exact Ej).
    destruct (update_group_total tokens l js out) as [out1 E1].
    - intros j Hj. rewrite <- Ejs in Hj.
      pose proof (groups_members_lt classes i j Hj) as Hjn.
      split; [lia|]. exists (nth j tokens []). split; [apply nth_error_nth'; lia|].
      intros i' p Hin. apply in_degap in Hin.
      assert (Hd0 : degap l = nth i (numbers classes) []).
      { specialize (Hd 0 (Nat.lt_0_succ _)). rewrite Nat.add_0_r in Hd. exact Hd. }
      assert (Hin2 : In (i', p) (nth i (numbers classes) [])) by (rewrite <- Hd0; exact Hin).
      clear Hin. rename Hin2 into Hin.
      rewrite numbers_nth in Hin by (fold G; lia). unfold numbers_of in Hin.
      apply in_map_iff in Hin. destruct Hin as [q [E Hq]]. assert (Epq : q = p) by congruence.
      rewrite <- Epq. clear E Epq. apply in_seq in Hq.
      pose proof (groups_key classes i j Hj) as Ek.
      pose proof (Forall2_nth _ [] [] _ _ CL j) as Lj. cbn beta in Lj. rewrite Lj by lia.
      rewrite (nth_error_nth _ _ [] Ek). lia.
    - rewrite E1. destruct (update_group_spec tokens l js out out1 E1) as [L1 _].
      apply IH; [congruence|lia|].
      intros k Hk. specialize (Hd (S k)). cbn [nth length] in Hd. rewrite Hd by lia. f_equal. lia. }
  apply H; [apply repeat_length|exact Lm|].
  intros k Hk. apply (Forall2_nth _ [] [] _ _ Fm k Hk).
Qed.

(* prog_align / lib_align return on every valid input *)
Theorem align_total (PA : oracle num) (cf : config) (tree : list (nat * nat)) :
  oracle_valid PA -> oracle_total PA -> config_ok cf ->
  Forall (fun t => t <> []) (cf_tokens cf) ->
  valid_merge_order (height_of cf) tree ->
  exists st, align PA cf tree = Some st /\ state_ok cf st.
Proof.
  intros PV PT CO NE V. unfold align.
  assert (NN : Forall (fun s => s <> []) (numbers (cf_classes cf))).
  { apply Forall_forall. intros s Hs. destruct (In_nth _ _ [] Hs) as [i [Hi <-]].
    rewrite numbers_length in Hi. rewrite numbers_nth by exact Hi.
    pose proof (groups_nonempty (cf_classes cf) i Hi) as Hne.
    destruct (nth i (int2ext (cf_classes cf)) []) as [|j js] eqn:Ei; [congruence|].
    assert (Hin : In j (nth i (int2ext (cf_classes cf)) [])) by (rewrite Ei; left; reflexivity).
    pose proof (groups_key _ i j Hin) as Ek. pose proof (groups_members_lt _ i j Hin) as Hj.
    destruct CO as [CL _]. pose proof (Forall2_len _ _ _ CL) as Ln.
    pose proof (Forall2_nth _ [] [] _ _ CL j) as Lj. cbn beta in Lj.
    rewrite Forall_forall in NE. assert (Ht : nth j (cf_tokens cf) [] <> []) by (apply NE, nth_In; lia).
    rewrite (nth_error_nth _ _ [] Ek) in Lj. unfold numbers_of.
    destruct (length (fst (nth i (group_classes (cf_classes cf)) ([], [])))) eqn:E0.
    - specialize (Lj ltac:(lia)). destruct (nth j (cf_tokens cf) []); [congruence|cbn in Lj; lia].
    - cbn [seq map]. discriminate. }
  destruct (merge_alignments_total PA PV PT _ NN tree) as [m EM].
  { rewrite <- height_numbers. exact V. }
  rewrite EM.
  assert (AL : aligned (numbers (cf_classes cf)) m).
  { eapply merge_alignments_aligned; [exact PV| |exact EM]. rewrite <- height_numbers. exact V. }
  destruct (update_alignments_total cf m CO AL) as [e EU]. rewrite EU.
  eexists. split; [reflexivity|]. cbn. split; [exact AL|]. split; [exact EU|].
  eapply update_alignments_ok; eassumption.
Qed.
