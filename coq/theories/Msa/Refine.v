(* Multiple alignment, part 3: iterative refinement.

   Model of lingpy.align.multiple.Multiple:
     _reduce_gap_sites, _split, _join, _iter           (multiple.py:983-1081)
     _similar_gap_sites                                (multiple.py:1703-1720)
     iterate_similar_gap_sites / iterate_clusters / iterate_orphans /
     iterate_all_sequences, swap_check (which only reads the alignment)

   The sum-of-pairs score is an abstract function [score] into any type with a
   comparison [ltb] ("new_sop < sop"): it is a deterministic function of the
   matrix, of the gap weight of the call and of the current scorer.  [score0] is
   the same measurement with gap_weight = 0.0, which is what the (non-default)
   check = 'immediate' branch of the code uses for its intermediate measurements.
   Model only; proofs are in RefineProofs.v. *)
From Coq Require Import List Arith Bool ZArith.
From LV Require Import Common.Cases Msa.Profile Msa.Merge.
Import ListNotations.

Definition is_gap {A} (c : option A) : bool := match c with None => true | Some _ => false end.

(* _reduce_gap_sites: keep column i unless every line has 'X' there.
   new_msa[0] raises on an empty block, line[i] raises on a line shorter than the first. *)
Definition reduce_gap_sites {A} (msa : mat A) : option (mat A) :=
  match msa with
  | [] => None
  | r0 :: _ =>
      if forallb (fun r => length r0 <=? length r) msa then
        let no_gap_index :=
          filter (fun i => negb (forallb (fun r => is_gap (nth i r None)) msa)) (seq 0 (length r0)) in
        Some (map (fun r => map (fun i => nth i r None) no_gap_index) msa)
      else None
  end.

Definition mem (i : nat) (l : list nat) : bool := existsb (Nat.eqb i) l.

(* [self._alm_matrix[i] for i in idx]: IndexError beyond the last row *)
Fixpoint take_rows {A} (m : mat A) (idx : list nat) : option (mat A) :=
  match idx with
  | [] => Some []
  | i :: t => match nth_error m i, take_rows m t with
              | Some r, Some rs => Some (r :: rs)
              | _, _ => None
              end
  end.

(* _split(idx): idxB = [i for i in range(self.height) if i not in idx] *)
Definition split {A} (height : nat) (m : mat A) (idx : list nat)
  : option (mat A * mat A * list nat * list nat) :=
  let idxB := filter (fun i => negb (mem i idx)) (seq 0 height) in
  match take_rows m idx, take_rows m idxB with
  | Some almA, Some almB =>
      match reduce_gap_sites almA, reduce_gap_sites almB with
      | Some partA, Some partB => Some (partA, partB, idx, idxB)
      | _, _ => None
      end
  | _, _ => None
  end.

(* for i in range(len(alm)): out_alm[idx[i]] = alm[i] *)
Fixpoint assign_rows {A} (idx : list nat) (alm : mat A) (out : mat A) : option (mat A) :=
  match alm with
  | [] => Some out
  | r :: rs =>
      match idx with
      | [] => None                                           (* idx[i]: IndexError *)
      | k :: ks => match set_nth k r out with
                   | Some out' => assign_rows ks rs out'
                   | None => None
                   end
      end
  end.

(* _join: m = len(almA[0]); out_alm = [[0] * m for j in range(self.height)]; fill in A, then B.
   The placeholder rows are modelled as all-gap rows of the same width; JoinProofs shows that
   none survives when idxB is the complement of idxA. *)
Definition join {A} (height : nat) (almA almB : mat A) (idxA idxB : list nat) : option (mat A) :=
  match almA with
  | [] => None
  | r0 :: _ =>
      let out := repeat (repeat None (length r0)) height in
      match assign_rows idxA almA out with
      | Some out' => assign_rows idxB almB out'
      | None => None
      end
  end.

(* one round of the loop body of _iter: split, re-align the two parts, join *)
Definition realign (PA : oracle num) (height : nat) (m : imat) (idx : list nat) : option imat :=
  match split height m idx with
  | Some (partA, partB, idxA, idxB) =>
      match align_profile PA partA partB with
      | Some (ra, rb) => join height ra rb idxA idxB
      | None => None
      end
  | None => None
  end.

Inductive check_mode := CheckFinal | CheckImmediate | CheckNone.

Section Iter.
  Variable T : Type.
  Variable ltb : T -> T -> bool.               (* new_sop < sop *)
  Variable score score0 : imat -> T.           (* sum_of_pairs(gap_weight=gw), sum_of_pairs() *)
  Variable PA : oracle num.
  Variable height : nat.

  (* the for loop of _iter; [saved] is the copy taken on entry, [sop] the running reference *)
  Fixpoint iter_loop (chk : check_mode) (saved : imat) (idxs : list (list nat)) (cur : imat) (sop : T)
    : option imat :=
    match idxs with
    | [] => Some cur
    | idx :: t =>
        match realign PA height cur idx with
        | Some new =>
            match chk with
            | CheckImmediate =>
                if ltb (score0 new) sop then iter_loop chk saved t saved sop
                else iter_loop chk saved t new (score0 new)
            | _ => iter_loop chk saved t new sop
            end
        | None => None
        end
    end.

  (* _iter.  [None] of the outer option = an exception; [Some None] = the early
     "return" (one index set), which leaves the object untouched and skips
     _update_alignments; [Some (Some m)] = the new internal matrix, after which
     _update_alignments runs. *)
  Definition iter_matrix (chk : check_mode) (idxs : list (list nat)) (m : imat) : option (option imat) :=
    let sop := score m in
    if length idxs =? 1 then Some None
    else match iter_loop chk m idxs m sop with
         | Some cand =>
             match chk with
             | CheckFinal => if ltb (score cand) sop then Some (Some m) else Some (Some cand)
             | _ => Some (Some cand)
             end
         | None => None
         end.
End Iter.

(* _similar_gap_sites: gap_dict[pattern].append(i) for i in range(len(self._classes)) *)
Definition gap_pattern {A} (r : line A) : list bool := map is_gap r.

Fixpoint add_pattern (g : list (list bool * list nat)) (p : list bool) (i : nat) :=
  match g with
  | [] => [(p, [i])]
  | (k, v) :: t => if list_eqb Bool.eqb k p then (k, v ++ [i]) :: t else (k, v) :: add_pattern t p i
  end.

Fixpoint gap_dict_from {A} (g : list (list bool * list nat)) (i : nat) (m : mat A) :=
  match m with
  | [] => g
  | r :: t => gap_dict_from (add_pattern g (gap_pattern r) i) (S i) t
  end.

(* self._alm_matrix[i] for i in range(height): IndexError if the matrix is shorter *)
Definition similar_gap_sites {A} (height : nat) (m : mat A) : option (list (list nat)) :=
  if height <=? length m then Some (map snd (gap_dict_from [] 0 (firstn height m))) else None.

(* ------------------------------------------------------------------ *)
(* calls on the object.  Per call: its own oracle and score (they depend on the
   call's mode, gop, scale, factor, gap_weight and on the current scorer). *)
Section Calls.
  Variable T : Type.
  Variable ltb : T -> T -> bool.

  Record iter_env := {
    ie_check : check_mode;
    ie_score : imat -> T;
    ie_score0 : imat -> T;
    ie_pa : oracle num
  }.

  Inductive call :=
  | SimilarGapSites (e : iter_env)
  | Clusters (idxs : list (list nat)) (e : iter_env)     (* the flat clusters are an input *)
  | Orphans (idxs : list (list nat)) (e : iter_env)      (* the orphan list is an input *)
  | AllSequences (e : iter_env)
  | SwapCheck.

  Definition height_of (cf : config) : nat := length (int2ext (cf_classes cf)).

  (* self._sonars is False in plain-token mode, and _iter always calls the sound-class
     profile aligner, whose first step subscripts self._sonars: every execution of the
     loop body raises TypeError there.  The sum-of-pairs measurements, the early return,
     an empty index list and _update_alignments work in both modes. *)
  Definition no_oracle : oracle num := fun _ _ => None.

  Definition run_iter (cf : config) (sonars : bool) (e : iter_env) (idxs : list (list nat)) (st : state)
    : option state :=
    let pa := if sonars then ie_pa e else no_oracle in
    match iter_matrix T ltb (ie_score e) (ie_score0 e) pa (height_of cf) (ie_check e) idxs (st_int st) with
    | Some None => Some st
    | Some (Some m) =>
        match update_alignments (cf_tokens cf) (int2ext (cf_classes cf)) m with
        | Some x => Some {| st_int := m; st_ext := x |}
        | None => None
        end
    | None => None
    end.

  Definition run_call (cf : config) (sonars : bool) (c : call) (st : state) : option state :=
    match c with
    | SimilarGapSites e =>
        match similar_gap_sites (height_of cf) (st_int st) with
        | Some gd => if length gd =? 1 then Some st else run_iter cf sonars e gd st
        | None => None
        end
    | Clusters idxs e =>
        if length (cf_tokens cf) <? 3 then Some st else run_iter cf sonars e idxs st
    | Orphans idxs e => run_iter cf sonars e idxs st
    | AllSequences e => run_iter cf sonars e (map (fun i => [i]) (seq 0 (height_of cf))) st
    | SwapCheck => Some st
    end.

  Fixpoint run_history (cf : config) (sonars : bool) (cs : list call) (st : state) : option state :=
    match cs with
    | [] => Some st
    | c :: t => match run_call cf sonars c st with
                | Some st' => run_history cf sonars t st'
                | None => None
                end
    end.
End Calls.
