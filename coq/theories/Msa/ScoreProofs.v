(* The column score of Msa/Score.v is the documented one:
   calign:  (sum of scorer[a,b] over the pairs of non-gap cells)
            / (number of such pairs + gap_weight * number of pairs with at least one gap)
   talign:  (that sum + gop * number of pairs with exactly one gap)
            / (pairs without gap + pairs with one gap + gap_weight * pairs of two gaps). *)
From Coq Require Import List Arith Bool ZArith QArith Lia.
From LV Require Import Common.Cases Msa.Profile Msa.Score.
Import ListNotations.

Section ScoreDef.
  Variable A : Type.
  Variable scorer : A -> A -> Q.

  Definition bothb (xy : cell A * cell A) : bool :=
    match xy with (Some _, Some _) => true | _ => false end.
  Definition noneb (xy : cell A * cell A) : bool :=
    match xy with (None, None) => true | _ => false end.
  Definition oneb (xy : cell A * cell A) : bool := negb (bothb xy) && negb (noneb xy).
  Definition pair_score (xy : cell A * cell A) : Q :=
    match xy with (Some a, Some b) => scorer a b | _ => 0 end.

  Fixpoint qsum_r (l : list Q) : Q := match l with [] => 0 | x :: t => x + qsum_r t end.
  Definition count (f : cell A * cell A -> bool) (l : list (cell A * cell A)) : Q :=
    inject_Z (Z.of_nat (length (filter f l))).

  Lemma count_cons f x l : count f (x :: l) == (if f x then 1 else 0) + count f l.
  Proof.
    unfold count. cbn [filter]. destruct (f x); [|ring].
    cbn [length]. rewrite Nat2Z.inj_succ. unfold Z.succ. rewrite inject_Z_plus. ring.
  Qed.

  Lemma fold_acc (pair : cell A -> cell A -> Q * Q) : forall l acc,
    let r := fold_left (fun acc xy => let '(s, c) := pair (fst xy) (snd xy) in (fst acc + s, snd acc + c)) l acc in
    fst r == fst acc + qsum_r (map (fun xy => fst (pair (fst xy) (snd xy))) l) /\
    snd r == snd acc + qsum_r (map (fun xy => snd (pair (fst xy) (snd xy))) l).
  Proof.
    induction l as [|xy t IH]; intros acc; cbn [fold_left map qsum_r].
    - cbn. split; ring.
    - destruct (pair (fst xy) (snd xy)) as [s c] eqn:E.
      specialize (IH (fst acc + s, snd acc + c)). cbn zeta in *. destruct IH as [I1 I2].
      cbn [fst snd] in *. split; [rewrite I1|rewrite I2]; ring.
  Qed.

  Lemma cpair_sums gw : forall l : list (cell A * cell A),
    qsum_r (map (fun xy => fst (cpair scorer gw (fst xy) (snd xy))) l) == qsum_r (map pair_score l) /\
    qsum_r (map (fun xy => snd (cpair scorer gw (fst xy) (snd xy))) l)
      == count bothb l + gw * count (fun xy => negb (bothb xy)) l.
  Proof.
    induction l as [|[x y] t [I1 I2]]; cbn [map qsum_r].
    - unfold count. cbn. split; ring.
    - rewrite !count_cons. cbn [fst snd]. destruct x as [a|], y as [b|]; cbn [cpair pair_score bothb negb fst snd];
        split; try rewrite I1; try rewrite I2; ring.
  Qed.

  Lemma tpair_sums gop gw : forall l : list (cell A * cell A),
    qsum_r (map (fun xy => fst (tpair scorer gop gw (fst xy) (snd xy))) l)
      == qsum_r (map pair_score l) + gop * count oneb l /\
    qsum_r (map (fun xy => snd (tpair scorer gop gw (fst xy) (snd xy))) l)
      == count bothb l + count oneb l + gw * count noneb l.
  Proof.
    induction l as [|[x y] t [I1 I2]]; cbn [map qsum_r].
    - unfold count. cbn. split; ring.
    - rewrite !count_cons. cbn [fst snd]. destruct x as [a|], y as [b|];
        cbn [tpair pair_score bothb noneb oneb negb andb fst snd];
        split; try rewrite I1; try rewrite I2; ring.
  Qed.

  Lemma quotient_spec (sc : Q * Q) (S C : Q) : fst sc == S -> snd sc == C ->
    match quotient sc with
    | Some q => q == S / C /\ ~ C == 0
    | None => C == 0
    end.
  Proof.
    intros HS HC. unfold quotient. destruct (Qeq_bool (snd sc) 0) eqn:E.
    - apply Qeq_bool_iff in E. rewrite <- HC. exact E.
    - split; [rewrite HS, HC; reflexivity|]. intros H. rewrite <- HC in H. apply Qeq_bool_iff in H. congruence.
  Qed.

  (* calign.score_profile is the documented column score *)
  Theorem cscore_profile_def (gw : Q) (colA colB : line A) :
    let ps := list_prod colA colB in
    match cscore_profile scorer gw colA colB with
    | Some q => q == qsum_r (map pair_score ps) / (count bothb ps + gw * count (fun xy => negb (bothb xy)) ps)
                /\ ~ count bothb ps + gw * count (fun xy => negb (bothb xy)) ps == 0
    | None => count bothb ps + gw * count (fun xy => negb (bothb xy)) ps == 0
    end.
  Proof.
    intros ps. unfold cscore_profile, accumulate. fold ps.
    destruct (fold_acc (cpair scorer gw) ps (0, 0)) as [F1 F2]. cbn zeta in F1, F2.
    destruct (cpair_sums gw ps) as [C1 C2]. apply quotient_spec.
    - rewrite F1, C1. cbn [fst]. ring.
    - rewrite F2, C2. cbn [snd]. ring.
  Qed.

  (* talign.score_profile likewise *)
  Theorem tscore_profile_def (gop gw : Q) (colA colB : line A) :
    let ps := list_prod colA colB in
    match tscore_profile scorer gop gw colA colB with
    | Some q => q == (qsum_r (map pair_score ps) + gop * count oneb ps)
                     / (count bothb ps + count oneb ps + gw * count noneb ps)
                /\ ~ count bothb ps + count oneb ps + gw * count noneb ps == 0
    | None => count bothb ps + count oneb ps + gw * count noneb ps == 0
    end.
  Proof.
    intros ps. unfold tscore_profile, accumulate. fold ps.
    destruct (fold_acc (tpair scorer gop gw) ps (0, 0)) as [F1 F2]. cbn zeta in F1, F2.
    destruct (tpair_sums gop gw ps) as [C1 C2]. apply quotient_spec.
    - rewrite F1, C1. cbn [fst]. ring.
    - rewrite F2, C2. cbn [snd]. ring.
  Qed.
End ScoreDef.
