(* Specifications of the boolean checkers of Msa/MsaExec.v: each one decides the
   predicate of Msa/MsaSpec.v it is named after.  These are the checkers that run
   on the implementation's state after every call. *)
From Coq Require Import List Arith Bool Lia ZArith Permutation.
From LV Require Import Common.Cases Align.DP Msa.Profile Msa.Merge Msa.Refine Msa.MsaSpec Msa.MsaExec
  Msa.ProfileProofs Msa.MergeProofs Msa.UpdateProofs.
Import ListNotations.

(* ------------------------------------------------------------------ *)
(* equality tests *)
Lemma num_eqb_spec (x y : num) : num_eqb x y = true <-> x = y.
Proof.
  destruct x as [a b], y as [c d]. unfold num_eqb. cbn [fst snd].
  rewrite andb_true_iff, !Nat.eqb_eq. split; [intros [-> ->]; reflexivity|intros E; inversion E; auto].
Qed.

Lemma option_eqb_spec {X} (eqb : X -> X -> bool) : (forall x y, eqb x y = true <-> x = y) ->
  forall p q, option_eqb eqb p q = true <-> p = q.
Proof.
  intros H [x|] [y|]; cbn [option_eqb]; try (split; [discriminate|discriminate]).
  - rewrite H. split; [intros ->; reflexivity|intros E; inversion E; reflexivity].
  - split; reflexivity.
Qed.

Lemma iline_eqb_spec (a b : line num) : iline_eqb a b = true <-> a = b.
Proof. apply list_eqb_spec, option_eqb_spec, num_eqb_spec. Qed.

Lemma imat_eqb_spec (a b : imat) : imat_eqb a b = true <-> a = b.
Proof. apply list_eqb_spec, iline_eqb_spec. Qed.

Lemma erow_eqb_spec (a b : erow) : erow_eqb a b = true <-> a = b.
Proof. apply list_eqb_spec, option_eqb_spec. intros x y. apply Z.eqb_eq. Qed.

Lemma emat_eqb_spec (a b : emat) : emat_eqb a b = true <-> a = b.
Proof. apply list_eqb_spec, option_eqb_spec, erow_eqb_spec. Qed.

Lemma bool_list_eqb_spec (a b : list bool) : list_eqb Bool.eqb a b = true <-> a = b.
Proof. apply list_eqb_spec. intros x y. apply Bool.eqb_true_iff. Qed.

(* ------------------------------------------------------------------ *)
Lemma forall2b_spec {X Y} (f : X -> Y -> bool) : forall l1 l2,
  forall2b f l1 l2 = true <-> Forall2 (fun x y => f x y = true) l1 l2.
Proof.
  induction l1 as [|x t IH]; intros [|y t2]; cbn [forall2b]; try (split; [discriminate|intros H; inversion H]).
  - split; [constructor|reflexivity].
  - rewrite andb_true_iff, IH. split; [intros [H1 H2]; constructor; assumption|intros H; inversion H; auto].
Qed.

Lemma Forall2_iff {X Y} (R1 R2 : X -> Y -> Prop) : (forall x y, R1 x y <-> R2 x y) ->
  forall l1 l2, Forall2 R1 l1 l2 <-> Forall2 R2 l1 l2.
Proof. intros H l1 l2. split; apply Forall2_imp; intros x y; apply H. Qed.

Lemma not_gap_iff {X} (c : option X) : negb (is_gap c) = true <-> c <> None.
Proof. destruct c; cbn; split; intros; congruence. Qed.

(* rectangular and free of all-gap columns, with the width read off the first line *)
Lemma rect_gap_spec {A} (m : mat A) :
  rectb m && no_gap_colb m = true <-> exists L, rect L m /\ no_gap_col L m.
Proof.
  rewrite andb_true_iff. destruct m as [|r0 t].
  - split; [intros _; exists 0; split; [constructor|intros j Hj; lia]|intros _; split; reflexivity].
  - unfold rectb, no_gap_colb, width. cbn [hd]. rewrite !forallb_forall. split.
    + intros [R G]. exists (length r0). split.
      * unfold rect. apply Forall_forall. intros r Hr. apply Nat.eqb_eq. apply R. exact Hr.
      * intros j Hj. assert (Hs : In j (seq 0 (length r0))) by (apply in_seq; lia).
        specialize (G j Hs). apply existsb_exists in G. destruct G as [r [Hr Hn]].
        exists r. split; [exact Hr|]. apply not_gap_iff. exact Hn.
    + intros [L [R G]]. unfold rect in R. rewrite Forall_forall in R.
      assert (L0 : length r0 = L) by (apply R; left; reflexivity). split.
      * intros r Hr. apply Nat.eqb_eq. rewrite L0. apply R. exact Hr.
      * intros j Hj. apply in_seq in Hj. destruct (G j) as [r [Hr Hn]]; [lia|].
        apply existsb_exists. exists r. split; [exact Hr|]. apply not_gap_iff. exact Hn.
Qed.

Theorem int_okb_spec (nums : list (list num)) (m : imat) :
  int_okb nums m = true <-> aligned nums m.
Proof.
  unfold int_okb, aligned. rewrite <- andb_assoc, andb_true_iff, rect_gap_spec, forall2b_spec.
  apply and_iff_compat_r. apply Forall2_iff. intros r s.
  apply (list_eqb_spec num_eqb num_eqb_spec).
Qed.

(* ------------------------------------------------------------------ *)
Lemma all_some_spec {X} : forall (l : list (option X)) rows,
  all_some l = Some rows <-> l = map (@Some X) rows.
Proof.
  induction l as [|[x|] t IH]; intros rows; cbn [all_some].
  - split; [intros H; inversion H; reflexivity|]. destruct rows; [reflexivity|discriminate].
  - destruct (all_some t) as [r|] eqn:E.
    + split.
      * intros H; inversion H; subst. cbn [map]. f_equal. apply IH. reflexivity.
      * destruct rows as [|y rs]; [discriminate|]. cbn [map]. intros H; inversion H; subst.
        assert (E' : Some r = Some rs) by (apply IH; reflexivity). inversion E'; reflexivity.
    + split; [discriminate|]. destruct rows as [|y rs]; [discriminate|]. cbn [map]. intros H; inversion H; subst.
      assert (E' : None = Some rs) by (apply IH; reflexivity). discriminate.
  - split; [discriminate|]. destruct rows; discriminate.
Qed.

Lemma in_combine_nth {X Y} (dx : X) (dy : Y) : forall (l1 : list X) (l2 : list Y) x y,
  length l1 = length l2 ->
  (In (x, y) (combine l1 l2) <-> exists j, j < length l1 /\ nth j l1 dx = x /\ nth j l2 dy = y).
Proof.
  induction l1 as [|a t IH]; intros [|b t2] x y L; try discriminate.
  - split; [intros []|intros [j [Hj _]]; cbn in Hj; lia].
  - cbn [combine In length]. rewrite IH by (cbn in L; lia). split.
    + intros [E|[j [Hj [E1 E2]]]].
      * inversion E; subst. exists 0. split; [lia|split; reflexivity].
      * exists (S j). split; [lia|split; assumption].
    + intros [[|j] [Hj [E1 E2]]]; cbn [nth] in *.
      * left. congruence.
      * right. exists j. split; [lia|split; assumption].
Qed.

(* pairwise condition over the positions of two lists of equal length *)
Lemma pairwise_spec {X Y} (dx : X) (dy : Y) (cond : X -> X -> bool) (ok : Y -> Y -> bool) (l1 : list X) (l2 : list Y) :
  length l1 = length l2 ->
  (forallb (fun p => forallb (fun q => negb (cond (fst p) (fst q)) || ok (snd p) (snd q)) (combine l1 l2))
           (combine l1 l2) = true
   <-> forall j k, j < length l1 -> k < length l1 -> cond (nth j l1 dx) (nth k l1 dx) = true ->
         ok (nth j l2 dy) (nth k l2 dy) = true).
Proof.
  intros L. rewrite forallb_forall. split.
  - intros H j k Hj Hk Hc.
    assert (Pj : In (nth j l1 dx, nth j l2 dy) (combine l1 l2)) by (apply (in_combine_nth dx dy); [exact L|eauto]).
    assert (Pk : In (nth k l1 dx, nth k l2 dy) (combine l1 l2)) by (apply (in_combine_nth dx dy); [exact L|eauto]).
    specialize (H _ Pj). rewrite forallb_forall in H. specialize (H _ Pk). cbn [fst snd] in H.
    rewrite Hc in H. exact H.
  - intros H [x y] Hp. rewrite forallb_forall. intros [x' y'] Hq. cbn [fst snd].
    apply (in_combine_nth dx dy) in Hp; [|exact L]. apply (in_combine_nth dx dy) in Hq; [|exact L].
    destruct Hp as [j [Hj [<- <-]]]. destruct Hq as [k [Hk [<- <-]]].
    destruct (cond (nth j l1 dx) (nth k l1 dx)) eqn:Ec; [|reflexivity]. cbn [negb orb]. apply H; assumption.
Qed.

Theorem ext_okb_spec (cf : config) (e : emat) :
  length (cf_classes cf) = length (cf_tokens cf) ->
  (ext_okb cf e = true <-> ext_ok cf e).
Proof.
  intros LC. unfold ext_okb, ext_ok. split.
  - destruct (all_some e) as [rows|] eqn:EA; [|discriminate]. apply all_some_spec in EA.
    rewrite !andb_true_iff. intros [[[[F R] G] D] C]. exists rows. split; [exact EA|].
    assert (Fa : Forall2 (fun r t => degap r = t) rows (cf_tokens cf)).
    { apply forall2b_spec in F. eapply Forall2_imp; [|exact F]. intros r t H. apply zlist_eqb_spec. exact H. }
    assert (Lr : length (cf_tokens cf) = length rows) by (symmetry; eapply Forall2_len; exact Fa).
    split; [|split].
    + split; [exact Fa|]. apply rect_gap_spec. rewrite R, G. reflexivity.
    + intros j k Hj Hk E. unfold dup_consistentb in D.
      rewrite (pairwise_spec [] [] zlist_eqb erow_eqb _ _ Lr) in D.
      apply erow_eqb_spec. apply D; try assumption. apply zlist_eqb_spec. exact E.
    + intros j k Hj Hk E. unfold class_consistentb in C.
      assert (Lc : length (cf_classes cf) = length rows) by congruence.
      rewrite (pairwise_spec [] [] zlist_eqb (fun a b => list_eqb Bool.eqb (gap_pattern a) (gap_pattern b)) _ _ Lc) in C.
      apply bool_list_eqb_spec. apply C; try lia. apply zlist_eqb_spec. exact E.
  - intros [rows [EA [[Fa RG] [D C]]]]. apply all_some_spec in EA. rewrite EA.
    assert (Lr : length (cf_tokens cf) = length rows) by (symmetry; eapply Forall2_len; exact Fa).
    rewrite !andb_true_iff. split; [split; [split; [split|]|]|].
    + apply forall2b_spec. eapply Forall2_imp; [|exact Fa]. intros r t H. apply zlist_eqb_spec. exact H.
    + apply rect_gap_spec in RG. apply andb_true_iff in RG. tauto.
    + apply rect_gap_spec in RG. apply andb_true_iff in RG. tauto.
    + unfold dup_consistentb. rewrite (pairwise_spec [] [] zlist_eqb erow_eqb _ _ Lr).
      intros j k Hj Hk E. apply erow_eqb_spec. apply D; try assumption. apply zlist_eqb_spec. exact E.
    + unfold class_consistentb. assert (Lc : length (cf_classes cf) = length rows) by congruence.
      rewrite (pairwise_spec [] [] zlist_eqb (fun a b => list_eqb Bool.eqb (gap_pattern a) (gap_pattern b)) _ _ Lc).
      intros j k Hj Hk E. apply bool_list_eqb_spec. apply C; try lia. apply zlist_eqb_spec. exact E.
Qed.

Theorem config_okb_spec (cf : config) : config_okb cf = true <-> config_ok cf.
Proof.
  unfold config_okb, config_ok. rewrite andb_true_iff, forall2b_spec. split.
  - intros [F P].
    assert (Fa : Forall2 (fun t c => length t = length c) (cf_tokens cf) (cf_classes cf)).
    { eapply Forall2_imp; [|exact F]. intros t c H. apply Nat.eqb_eq. exact H. }
    split; [exact Fa|]. pose proof (Forall2_len _ _ _ Fa) as L.
    rewrite (pairwise_spec [] [] zlist_eqb zlist_eqb _ _ L) in P.
    intros j k Hj Hk E. apply zlist_eqb_spec. apply P; try assumption. apply zlist_eqb_spec. exact E.
  - intros [Fa P]. split.
    + eapply Forall2_imp; [|exact Fa]. intros t c H. apply Nat.eqb_eq. exact H.
    + pose proof (Forall2_len _ _ _ Fa) as L. rewrite (pairwise_spec [] [] zlist_eqb zlist_eqb _ _ L).
      intros j k Hj Hk E. apply zlist_eqb_spec. apply P; try assumption. apply zlist_eqb_spec. exact E.
Qed.

Lemma linkb_spec (cf : config) (st : state) :
  linkb cf st = true <->
  update_alignments (cf_tokens cf) (int2ext (cf_classes cf)) (st_int st) = Some (st_ext st).
Proof.
  unfold linkb. destruct (update_alignments _ _ _) as [e|].
  - rewrite emat_eqb_spec. split; [intros ->; reflexivity|intros H; inversion H; reflexivity].
  - split; discriminate.
Qed.

(* the checker that runs on the implementation's state after every call *)
Theorem msa_okb_spec (cf : config) (st : state) :
  length (cf_classes cf) = length (cf_tokens cf) ->
  (msa_okb cf st = true <-> state_ok cf st).
Proof.
  intros LC. unfold msa_okb, state_ok.
  rewrite !andb_true_iff, int_okb_spec, linkb_spec, (ext_okb_spec cf _ LC). tauto.
Qed.

(* ------------------------------------------------------------------ *)
(* contracts of the oracles *)
Lemma nat_seq_eqb_spec : forall l1 l2 : list nat, seq_eqb Nat.eqb l1 l2 = true <-> l1 = l2.
Proof.
  induction l1 as [|x t IH]; intros [|y t2]; cbn [seq_eqb]; try (split; [discriminate|discriminate]).
  - split; reflexivity.
  - rewrite andb_true_iff, Nat.eqb_eq, IH. split; [intros [-> ->]; reflexivity|intros E; inversion E; auto].
Qed.

Lemma no_double_gapb_iff {X} : forall (a b : list (option X)), no_double_gapb a b = true <-> no_double_gap a b.
Proof.
  induction a as [|x ta IH]; intros [|y tb]; cbn [no_double_gapb no_double_gap]; try (split; [discriminate|intros []]).
  - split; [constructor|reflexivity].
  - rewrite andb_true_iff, IH. apply and_iff_compat_r.
    destruct x, y; split; intros H; try reflexivity; try discriminate;
      try (left; discriminate); try (right; discriminate). destruct H; congruence.
Qed.

Theorem ialn_okb_spec (M N : nat) (a b : list (option nat)) :
  ialn_okb M N (a, b) = true <-> valid_aln a b (seq 0 M) (seq 0 N).
Proof.
  unfold ialn_okb, valid_alnb, valid_aln. cbn [fst snd].
  rewrite !andb_true_iff, Nat.eqb_eq, no_double_gapb_iff, !nat_seq_eqb_spec. tauto.
Qed.

Theorem pa_table_valid (tab : list pa_entry) : pa_table_okb tab = true -> oracle_valid (pa_table tab).
Proof.
  unfold pa_table_okb, oracle_valid, pa_table. rewrite forallb_forall. intros H pA pB a b E.
  destruct (find _ tab) as [e|] eqn:EF; [|discriminate]. inversion E; subst.
  apply find_some in EF. destruct EF as [Hin Heq]. apply andb_true_iff in Heq. destruct Heq as [EA EB].
  apply imat_eqb_spec in EA, EB. subst. apply ialn_okb_spec. apply H. exact Hin.
Qed.

Lemma mem_true_iff_local i l : mem i l = true <-> In i l.
Proof.
  unfold mem. rewrite existsb_exists. split.
  - intros [x [Hx E]]. apply Nat.eqb_eq in E. subst. exact Hx.
  - intros H. exists i. split; [exact H|apply Nat.eqb_refl].
Qed.

Lemma merge_orderb_spec : forall tree avail next, merge_orderb avail next tree = true <-> merge_order avail next tree.
Proof.
  induction tree as [|[m n] t IH]; intros avail next; cbn [merge_orderb merge_order].
  - apply Nat.eqb_eq.
  - rewrite !andb_true_iff, !mem_true_iff_local, IH, negb_true_iff, Nat.eqb_neq. tauto.
Qed.

Theorem valid_merge_orderb_spec (h : nat) (tree : list (nat * nat)) :
  valid_merge_orderb h tree = true <-> valid_merge_order h tree.
Proof. apply merge_orderb_spec. Qed.

(* the comparison used when the model runs on recorded scores is irreflexive *)
Lemma oq_ltb_irrefl (x : option QArith_base.Q) : oq_ltb x x = false.
Proof.
  destruct x as [q|]; [|reflexivity]. unfold oq_ltb.
  assert (E : QArith_base.Qle_bool q q = true) by (apply QArith_base.Qle_bool_iff, QArith_base.Qle_refl).
  rewrite E. reflexivity.
Qed.

(* what the definitional score check on an end-of-pass refinement call establishes: the DOCUMENTED
   sum-of-pairs score (model Msa/Score.v on the recorded scoring dictionary, gap weight of the call)
   exists before and after the call, agrees within 2^-30 with the two values measured with the
   implementation, and did not drop (beyond that tolerance) *)
Theorem definitional_okb_spec (sonars : bool) (s : step) (before_int : imat) (tab : list ((num * num) * QArith_base.Q)) :
  sp_scorer s = Some tab -> definitional_okb sonars s before_int = true ->
  exists x y,
    Score.sum_of_pairs (pair_scorer tab) sonars (QArith_base.Qmake (-1) 1) (sp_gw s) before_int = Some x /\
    Score.sum_of_pairs (pair_scorer tab) sonars (QArith_base.Qmake (-1) 1) (sp_gw s) (sp_int s) = Some y /\
    ScoreExec.closeb x (sp_before s) = true /\ ScoreExec.closeb y (sp_after s) = true /\
    QArith_base.Qle (QArith_base.Qminus x (QArith_base.Qmake 1 1073741824)) y.
Proof.
  intros E H. unfold definitional_okb in H. rewrite E in H.
  destruct (Score.sum_of_pairs (pair_scorer tab) sonars _ (sp_gw s) before_int) as [x|]; [|cbn in H; discriminate].
  destruct (Score.sum_of_pairs (pair_scorer tab) sonars _ (sp_gw s) (sp_int s)) as [y|];
    [|rewrite andb_false_r in H; discriminate].
  apply andb_true_iff in H. destruct H as [H H3]. apply andb_true_iff in H. destruct H as [H1 H2].
  exists x, y. cbn [ScoreExec.oclose] in H1, H2. repeat split; try assumption.
  apply QArith_base.Qle_bool_iff. exact H3.
Qed.
