(* Proofs about Msa/Refine.v and the top-level theorems of C04 and C11.
   C04: align_inv (prog_align / lib_align establish state_ok), iter_inv (one
   refinement pass keeps the internal matrix a gapped version of the numbered
   sequences), call_inv and history_inv (state_ok is kept along any list of
   refinement and swap-check calls).
   C11: iter_final_monotone, iter_final_rollback, iter_early_exits,
   history_monotone, for an abstract score into any type with a total comparison. *)
From Coq Require Import List Arith Bool Lia Permutation ZArith.
From LV Require Import Common.Cases Align.DP Msa.Profile Msa.Merge Msa.Refine Msa.MsaSpec
  Msa.ProfileProofs Msa.MergeProofs Msa.UpdateProofs.
Import ListNotations.

(* ------------------------------------------------------------------ *)
(* C04, first call *)
Theorem align_inv (PA : oracle num) (cf : config) (tree : list (nat * nat)) (st : state) :
  oracle_valid PA -> config_ok cf -> valid_merge_order (height_of cf) tree ->
  align PA cf tree = Some st -> state_ok cf st.
Proof.
  intros PV CO V H. unfold align in H.
  destruct (merge_alignments PA (numbers (cf_classes cf)) tree) as [m|] eqn:EM; [|discriminate].
  destruct (update_alignments (cf_tokens cf) (int2ext (cf_classes cf)) m) as [e|] eqn:EU; [|discriminate].
  inversion H; subst st; clear H. cbn [st_int st_ext].
  assert (AL : aligned (numbers (cf_classes cf)) m).
  { eapply merge_alignments_aligned; [exact PV| |exact EM].
    unfold height_of in V. rewrite numbers_length, <- i2e_length. exact V. }
  split; [exact AL|]. split; [exact EU|]. eapply update_alignments_ok; eassumption.
Qed.

(* ------------------------------------------------------------------ *)
(* _reduce_gap_sites *)
Lemma is_gap_true {X} (c : option X) : is_gap c = true -> c = None.
Proof. destruct c; [discriminate|reflexivity]. Qed.

Lemma forallb_false_existsb {X} (f : X -> bool) : forall l,
  forallb f l = false -> existsb (fun x => negb (f x)) l = true.
Proof.
  induction l as [|x t IH]; cbn [forallb existsb]; [discriminate|].
  destruct (f x); cbn [andb negb orb]; [exact IH|reflexivity].
Qed.

Section Reduce.
  Variable A : Type.

  Definition col_all_gap (msa : mat A) (i : nat) : bool := forallb (fun r => is_gap (nth i r None)) msa.
  Definition kept (msa : mat A) (L : nat) : list nat := filter (fun i => negb (col_all_gap msa i)) (seq 0 L).
  Definition sel (idx : list nat) (r : line A) : line A := map (fun i => nth i r None) idx.

  Lemma reduce_rect L (msa msa' : mat A) : rect L msa -> reduce_gap_sites msa = Some msa' ->
    msa <> [] /\ msa' = map (sel (kept msa L)) msa.
  Proof.
    intros R H. unfold reduce_gap_sites in H. destruct msa as [|r0 t]; [discriminate|].
    destruct (forallb (fun r : list (cell A) => length r0 <=? length r) (r0 :: t)); [|discriminate].
    injection H as <-. split; [discriminate|]. inversion R; subst. reflexivity.
  Qed.

  (* dropping cells that are gaps does not change the content of a row *)
  Lemma sel_filter_degap (f : nat -> bool) : forall (r : line A),
    (forall i, i < length r -> f i = false -> nth i r None = None) ->
    degap (sel (filter f (seq 0 (length r))) r) = degap r.
  Proof.
    induction r as [|c t IH] using rev_ind; intros H; [reflexivity|].
    rewrite app_length. cbn [length]. rewrite Nat.add_1_r, seq_S. cbn [plus].
    rewrite filter_app. unfold sel. rewrite map_app, !degap_app_local.
    f_equal.
    - rewrite <- IH.
      + unfold sel. f_equal. apply map_ext_in. intros i Hi. apply filter_In in Hi. destruct Hi as [Hi _].
        apply in_seq in Hi. apply app_nth1. lia.
      + intros i Hi Hf. rewrite <- (app_nth1 t [c] None Hi). apply H; [rewrite app_length; cbn; lia|exact Hf].
    - cbn [filter]. destruct (f (length t)) eqn:Ef; cbn [map].
      + rewrite app_nth2 by lia. rewrite Nat.sub_diag. reflexivity.
      + specialize (H (length t)). rewrite app_nth2 in H by lia. rewrite Nat.sub_diag in H. cbn [nth] in H.
        rewrite H; [reflexivity|rewrite app_length; cbn; lia|exact Ef].
  Qed.

  Lemma reduce_aligned L (seqs : list (list A)) (msa msa' : mat A) :
    Forall2 (fun r s => degap r = s) msa seqs -> rect L msa ->
    reduce_gap_sites msa = Some msa' ->
    msa <> [] /\ msa' = map (sel (kept msa L)) msa /\ aligned seqs msa'.
  Proof.
    intros F R H. destruct (reduce_rect L msa msa' R H) as [N ->].
    split; [exact N|]. split; [reflexivity|].
    unfold rect in R. rewrite Forall_forall in R.
    split.
    - assert (G : forall rows ss, Forall2 (fun r s => degap r = s) rows ss ->
                  (forall r, In r rows -> In r msa) ->
                  Forall2 (fun r s => degap r = s) (map (sel (kept msa L)) rows) ss).
      { induction 1 as [|r s rows' ss' Hr F' IH]; intros Sub; cbn [map]; constructor.
        - rewrite <- Hr. assert (Lr : length r = L) by (apply R, Sub; left; reflexivity).
          unfold kept. rewrite <- Lr. apply sel_filter_degap.
          intros i Hi Hf. apply negb_false_iff in Hf. unfold col_all_gap in Hf.
          rewrite forallb_forall in Hf. specialize (Hf r (Sub r (or_introl eq_refl))).
          apply is_gap_true. exact Hf.
        - apply IH. intros r' Hr'. apply Sub. right. exact Hr'. }
      apply G; [exact F|auto].
    - exists (length (kept msa L)). split.
      + unfold rect. apply Forall_forall. intros r Hr. apply in_map_iff in Hr.
        destruct Hr as [r0 [<- _]]. unfold sel. apply map_length.
      + intros j Hj.
        assert (Hk : In (nth j (kept msa L) 0) (kept msa L)) by (apply nth_In; exact Hj).
        unfold kept in Hk at 2. apply filter_In in Hk. destruct Hk as [_ Hk].
        apply negb_true_iff in Hk. unfold col_all_gap in Hk.
        pose proof (forallb_false_existsb _ _ Hk) as Hex.
        apply existsb_exists in Hex. destruct Hex as [r [Hr Hn]].
        exists (sel (kept msa L) r). split; [apply in_map; exact Hr|].
        unfold sel, mat, line, cell in *. rewrite (nth_indep _ None ((fun i => nth i r None) 0)) by (rewrite map_length; exact Hj).
        rewrite (map_nth (fun i => nth i r None) (kept msa L) 0 j).
        destruct (nth (nth j (kept msa L) 0) r None); [discriminate|cbn in Hn; discriminate].
  Qed.
End Reduce.

(* ------------------------------------------------------------------ *)
(* _split, _join *)
Lemma take_rows_spec {A} (m : mat A) : forall idx rows,
  take_rows m idx = Some rows ->
  rows = map (fun i => nth i m []) idx /\ Forall (fun i => i < length m) idx.
Proof.
  induction idx as [|i t IH]; intros rows H; cbn [take_rows] in H.
  - inversion H. split; [reflexivity|constructor].
  - destruct (nth_error m i) as [r|] eqn:Ei; [|discriminate].
    destruct (take_rows m t) as [rs|]; [|discriminate]. inversion H; subst rows.
    destruct (IH rs eq_refl) as [-> F]. split.
    + cbn [map]. f_equal. symmetry. apply nth_error_nth. exact Ei.
    + constructor; [|exact F]. apply nth_error_Some. congruence.
Qed.

Lemma Forall2_select {X Y} (R : X -> Y -> Prop) (dx : X) (dy : Y) (l1 : list X) (l2 : list Y) :
  Forall2 R l1 l2 -> forall idx, Forall (fun i => i < length l1) idx ->
  Forall2 R (map (fun i => nth i l1 dx) idx) (map (fun i => nth i l2 dy) idx).
Proof.
  intros F. induction 1 as [|i t Hi Ht IH]; cbn [map]; constructor; [|exact IH].
  apply Forall2_nth; assumption.
Qed.

Lemma Forall2_map_fun {X Y} (f : X -> Y) : forall l, Forall2 (fun k r => r = f k) l (map f l).
Proof. induction l; cbn [map]; constructor; auto. Qed.

Lemma Forall2_in_r {X Y} (R : X -> Y -> Prop) : forall l1 l2, Forall2 R l1 l2 ->
  forall y, In y l2 -> exists x, In x l1 /\ R x y.
Proof.
  induction 1 as [|x y0 t1 t2 Hxy F IH]; intros y Hy; [destruct Hy|].
  destruct Hy as [<-|Hy]; [exists x; split; [left; reflexivity|exact Hxy]|].
  destruct (IH y Hy) as [x' [Hx' Rx']]. exists x'. split; [right; exact Hx'|exact Rx'].
Qed.

Lemma Forall2_map_fun_in {X Y} (f g : X -> Y) : forall l, (forall k, In k l -> g k = f k) ->
  Forall2 (fun k r => r = f k) l (map g l).
Proof.
  induction l as [|x t IH]; intros H; cbn [map]; constructor.
  - apply H. left; reflexivity.
  - apply IH. intros k Hk. apply H. right; exact Hk.
Qed.

Lemma Forall2_with_in {X Y} (R : X -> Y -> Prop) : forall l1 l2, Forall2 R l1 l2 ->
  Forall2 (fun x y => R x y /\ In y l2) l1 l2.
Proof.
  induction 1 as [|x y t1 t2 Hxy F IH]; constructor.
  - split; [exact Hxy|left; reflexivity].
  - eapply Forall2_imp; [|exact IH]. intros a b [Hab Hin]. split; [exact Hab|right; exact Hin].
Qed.

Lemma Forall2_conj {X Y} (R1 R2 : X -> Y -> Prop) : forall l1 l2,
  Forall2 R1 l1 l2 -> Forall2 R2 l1 l2 -> Forall2 (fun x y => R1 x y /\ R2 x y) l1 l2.
Proof.
  induction 1 as [|x y t1 t2 Hxy F IH]; intros F2; inversion F2; subst; constructor; auto.
Qed.

Lemma Forall2_flip {X Y} (R : X -> Y -> Prop) : forall l1 l2, Forall2 R l1 l2 -> Forall2 (fun y x => R x y) l2 l1.
Proof. induction 1; constructor; auto. Qed.

Lemma Forall2_map_r {X Y Z} (R : X -> Z -> Prop) (f : Y -> Z) : forall l1 l2,
  Forall2 R l1 (map f l2) -> Forall2 (fun x y => R x (f y)) l1 l2.
Proof.
  induction l1 as [|x t IH]; intros [|y t2] F; inversion F; subst; constructor; auto.
Qed.

Section Assign.
  Variable A : Type.
  Variable Q : nat -> line A -> Prop.

  Lemma assign_rows_spec : forall (alm : mat A) idx out out',
    assign_rows idx alm out = Some out' -> Forall2 Q idx alm ->
    length out' = length out /\
    (forall k, ~ In k idx -> nth_error out' k = nth_error out k) /\
    (forall k, In k idx -> exists r, nth_error out' k = Some r /\ Q k r).
  Proof.
    induction alm as [|r rs IH]; intros idx out out' H F.
    - inversion F; subst. cbn in H. inversion H; subst. split; [reflexivity|]. split; [reflexivity|intros k []].
    - destruct idx as [|k0 ks]; [inversion F|]. cbn [assign_rows] in H. inversion F as [|? ? ? ? Q0 F']; subst.
      destruct (set_nth k0 r out) as [out1|] eqn:Es; [|discriminate].
      destruct (set_nth_spec _ _ _ _ Es) as [L1 [W1 F1]].
      destruct (IH ks out1 out' H F') as [L2 [F2 W2]].
      split; [congruence|]. split.
      + intros k Hn. rewrite F2 by (intros Hin; apply Hn; right; exact Hin).
        apply F1. intros ->. apply Hn. left; reflexivity.
      + intros k Hk. destruct (in_dec Nat.eq_dec k ks) as [Hin|Hnin]; [apply W2; exact Hin|].
        destruct Hk as [<-|Hk]; [|contradiction].
        exists r. split; [|exact Q0]. rewrite F2 by exact Hnin. exact W1.
  Qed.

  Lemma assign_rows_app : forall (alm1 : mat A) idx1 alm2 idx2 out out1 out2,
    length idx1 = length alm1 ->
    assign_rows idx1 alm1 out = Some out1 -> assign_rows idx2 alm2 out1 = Some out2 ->
    assign_rows (idx1 ++ idx2) (alm1 ++ alm2) out = Some out2.
  Proof.
    induction alm1 as [|r rs IH]; intros idx1 alm2 idx2 out out1 out2 L H1 H2.
    - destruct idx1; [|discriminate]. cbn in H1. inversion H1; subst. exact H2.
    - destruct idx1 as [|k ks]; [discriminate|]. cbn [assign_rows app] in *.
      destruct (set_nth k r out) as [o|]; [|discriminate].
      eapply IH; [cbn in L; lia|exact H1|exact H2].
  Qed.
End Assign.

Lemma mem_true_iff i l : mem i l = true <-> In i l.
Proof.
  unfold mem. rewrite existsb_exists. split.
  - intros [x [Hx E]]. apply Nat.eqb_eq in E. subst. exact Hx.
  - intros H. exists i. split; [exact H|apply Nat.eqb_refl].
Qed.

(* ------------------------------------------------------------------ *)
(* one realignment round keeps the matrix a gapped version of the sequences *)
Section Realign.
  Variable PA : oracle num.
  Hypothesis PA_valid : oracle_valid PA.
  Variable nums : list (list num).

  Theorem realign_aligned (m m' : imat) (idx : list nat) :
    aligned nums m ->
    realign PA (length nums) m idx = Some m' ->
    aligned nums m'.
  Proof.
    intros [Fm [L [Rm Gm]]] H. unfold realign, split in H.
    set (height := length nums) in *.
    set (idxB := filter (fun i => negb (mem i idx)) (seq 0 height)) in *.
    destruct (take_rows m idx) as [rowsA|] eqn:TA; [|discriminate].
    destruct (take_rows m idxB) as [rowsB|] eqn:TB; [|discriminate].
    destruct (reduce_gap_sites rowsA) as [partA|] eqn:RA; [|discriminate].
    destruct (reduce_gap_sites rowsB) as [partB|] eqn:RB; [|discriminate].
    destruct (align_profile PA partA partB) as [[ra rb]|] eqn:EA; [|discriminate].
    destruct (take_rows_spec m idx rowsA TA) as [-> InA].
    destruct (take_rows_spec m idxB rowsB TB) as [-> InB].
    assert (Lm : length m = height) by (eapply Forall2_len; exact Fm).
    (* the two parts *)
    assert (RrA : rect L (map (fun i => nth i m []) idx)).
    { unfold rect in *. apply Forall_forall. intros r Hr. apply in_map_iff in Hr. destruct Hr as [i [<- Hi]].
      rewrite Forall_forall in Rm, InA. apply Rm. apply nth_In. apply InA. exact Hi. }
    assert (RrB : rect L (map (fun i => nth i m []) idxB)).
    { unfold rect in *. apply Forall_forall. intros r Hr. apply in_map_iff in Hr. destruct Hr as [i [<- Hi]].
      rewrite Forall_forall in Rm, InB. apply Rm. apply nth_In. apply InB. exact Hi. }
    destruct (reduce_aligned num L _ _ _ (Forall2_select _ [] [] _ _ Fm idx InA) RrA RA) as [NA [EpA AA]].
    destruct (reduce_aligned num L _ _ _ (Forall2_select _ [] [] _ _ Fm idxB InB) RrB RB) as [NB [EpB AB]].
    pose proof (align_profile_aligned num PA PA_valid _ _ _ _ _ _ AA AB EA) as [Fab [L' [Rab Gab]]].
    destruct AA as [_ [LA [RpA _]]]. destruct AB as [_ [LB [RpB _]]].
    destruct (align_profile_spec num PA PA_valid LA LB partA partB ra rb RpA RpB EA)
      as [a [b [_ [Era [Erb _]]]]].
    (* every new row is a function of the index it is stored at *)
    set (kA := kept num (map (fun i => nth i m []) idx) L) in *.
    set (kB := kept num (map (fun i => nth i m []) idxB) L) in *.
    set (F := fun k => if mem k idx then regap a (sel num kA (nth k m []))
                       else regap b (sel num kB (nth k m []))).
    assert (FF : Forall2 (fun k r => r = F k) (idx ++ idxB) (ra ++ rb)).
    { apply Forall2_app.
      - rewrite Era, EpA, !map_map. apply Forall2_map_fun_in. intros k Hk. unfold F.
        rewrite (proj2 (mem_true_iff k idx) Hk). reflexivity.
      - rewrite Erb, EpB, !map_map. apply Forall2_map_fun_in. intros k Hk. unfold F.
        unfold idxB in Hk. apply filter_In in Hk. destruct Hk as [_ Hk]. apply negb_true_iff in Hk.
        rewrite Hk. reflexivity. }
    (* the three facts about every (index, row) pair *)
    set (Q := fun k (r : line num) => (r = F k /\ degap r = nth k nums []) /\ In r (ra ++ rb)).
    assert (FQ : Forall2 Q (idx ++ idxB) (ra ++ rb)).
    { apply Forall2_with_in. apply Forall2_conj; [exact FF|].
      rewrite <- map_app in Fab. apply Forall2_flip. apply Forall2_map_r in Fab.
      eapply Forall2_imp; [|exact Fab]. intros r k Hr. exact Hr. }
    (* the join *)
    unfold join in H. destruct ra as [|r0 ra']; [discriminate|].
    set (out0 := repeat (repeat (@None num) (length r0)) height) in *.
    destruct (assign_rows idx (r0 :: ra') out0) as [out1|] eqn:A1; [|discriminate].
    assert (Lra : length idx = length (r0 :: ra')).
    { rewrite Era, EpA, !map_length. reflexivity. }
    pose proof (assign_rows_app num _ _ _ _ _ _ _ Lra A1 H) as A2.
    destruct (assign_rows_spec num Q _ _ _ _ A2 FQ) as [Lo [_ W]].
    unfold out0 in Lo. rewrite repeat_length in Lo.
    assert (Cov : forall k, k < height -> In k (idx ++ idxB)).
    { intros k Hk. apply in_or_app. destruct (mem k idx) eqn:E.
      - left. apply mem_true_iff. exact E.
      - right. unfold idxB. apply filter_In. split; [apply in_seq; lia|]. rewrite E. reflexivity. }
    assert (Row : forall k, k < height -> Q k (nth k m' [])).
    { intros k Hk. destruct (W k (Cov k Hk)) as [r [Er Qr]].
      assert (E : nth k m' [] = r) by (apply nth_error_nth; exact Er). rewrite E. exact Qr. }
    split.
    - apply (Forall2_nth_intro _ [] []); [unfold height in Lo; exact Lo|].
      intros k Hk. norm. rewrite Lo in Hk. destruct (Row k Hk) as [[_ D] _]. exact D.
    - exists L'. split.
      + unfold rect in *. apply Forall_forall. intros r Hr.
        destruct (In_nth _ _ [] Hr) as [k [Hk <-]]. norm. rewrite Lo in Hk.
        destruct (Row k Hk) as [_ Hin]. rewrite Forall_forall in Rab. apply Rab. exact Hin.
      + intros c Hc. destruct (Gab c Hc) as [r [Hr Hn]].
        destruct (Forall2_in_r _ _ _ FQ r Hr) as [k [Hk [[Ek _] _]]].
        destruct (W k Hk) as [r' [Er' [[Ek' _] _]]].
        exists r. split; [|exact Hn]. rewrite Ek, <- Ek'. eapply nth_error_In. exact Er'.
  Qed.
End Realign.

(* ------------------------------------------------------------------ *)
(* _iter *)
Section IterInv.
  Variable T : Type.
  Variable ltb : T -> T -> bool.
  Variable score score0 : imat -> T.
  Variable PA : oracle num.
  Hypothesis PA_valid : oracle_valid PA.
  Variable nums : list (list num).

  Lemma iter_loop_aligned chk saved : forall idxs cur sop cand,
    aligned nums saved -> aligned nums cur ->
    iter_loop T ltb score0 PA (length nums) chk saved idxs cur sop = Some cand ->
    aligned nums cand.
  Proof.
    induction idxs as [|idx t IH]; intros cur sop cand As Ac H; cbn [iter_loop] in H.
    - inversion H; subst. exact Ac.
    - destruct (realign PA (length nums) cur idx) as [new|] eqn:ER; [|discriminate].
      pose proof (realign_aligned PA PA_valid nums cur new idx Ac ER) as An.
      destruct chk.
      + eapply IH; [exact As|exact An|exact H].
      + destruct (ltb (score0 new) sop); (eapply IH; [exact As| |exact H]); assumption.
      + eapply IH; [exact As|exact An|exact H].
  Qed.

  (* iter_inv *)
  Theorem iter_matrix_aligned chk idxs m m' :
    aligned nums m ->
    iter_matrix T ltb score score0 PA (length nums) chk idxs m = Some (Some m') ->
    aligned nums m'.
  Proof.
    intros Am H. unfold iter_matrix in H. destruct (length idxs =? 1); [discriminate|].
    destruct (iter_loop T ltb score0 PA (length nums) chk m idxs m (score m)) as [cand|] eqn:EL; [|discriminate].
    pose proof (iter_loop_aligned chk m idxs m (score m) cand Am Am EL) as Ac.
    destruct chk; [|inversion H; subst; exact Ac|inversion H; subst; exact Ac].
    destruct (ltb (score cand) (score m)); inversion H; subst; assumption.
  Qed.

  (* C11, on the matrix: with the end-of-pass check the result never scores lower *)
  Hypothesis ltb_irrefl : forall x, ltb x x = false.

  Theorem iter_matrix_final_monotone idxs m m' :
    iter_matrix T ltb score score0 PA (length nums) CheckFinal idxs m = Some (Some m') ->
    ltb (score m') (score m) = false.
  Proof.
    intros H. unfold iter_matrix in H. destruct (length idxs =? 1); [discriminate|].
    destruct (iter_loop T ltb score0 PA (length nums) CheckFinal m idxs m (score m)) as [cand|]; [|discriminate].
    destruct (ltb (score cand) (score m)) eqn:E; inversion H; subst; [apply ltb_irrefl|exact E].
  Qed.

  Theorem iter_matrix_final_rollback idxs m cand :
    (length idxs =? 1) = false ->
    iter_loop T ltb score0 PA (length nums) CheckFinal m idxs m (score m) = Some cand ->
    ltb (score cand) (score m) = true ->
    iter_matrix T ltb score score0 PA (length nums) CheckFinal idxs m = Some (Some m).
  Proof. intros H1 HL Hw. unfold iter_matrix. rewrite H1, HL, Hw. reflexivity. Qed.

  Theorem iter_matrix_final_keep idxs m cand :
    (length idxs =? 1) = false ->
    iter_loop T ltb score0 PA (length nums) CheckFinal m idxs m (score m) = Some cand ->
    ltb (score cand) (score m) = false ->
    iter_matrix T ltb score score0 PA (length nums) CheckFinal idxs m = Some (Some cand).
  Proof. intros H1 HL Hw. unfold iter_matrix. rewrite H1, HL, Hw. reflexivity. Qed.
End IterInv.

(* ------------------------------------------------------------------ *)
(* calls and histories *)
Lemma no_oracle_valid : oracle_valid no_oracle.
Proof. intros pA pB a b H. discriminate. Qed.

Lemma height_numbers (cf : config) : height_of cf = length (numbers (cf_classes cf)).
Proof. unfold height_of. rewrite numbers_length, i2e_length. reflexivity. Qed.

Section Calls.
  Variable T : Type.
  Variable ltb : T -> T -> bool.
  Variable cf : config.
  Variable sonars : bool.
  Hypothesis cf_ok : config_ok cf.

  Definition env_ok (e : iter_env T) : Prop := oracle_valid (ie_pa T e).

  Definition call_ok (c : call T) : Prop :=
    match c with
    | SimilarGapSites _ e | AllSequences _ e => env_ok e
    | Clusters _ _ e | Orphans _ _ e => env_ok e
    | SwapCheck _ => True
    end.

  Lemma run_iter_inv e idxs st st' :
    env_ok e -> state_ok cf st -> run_iter T ltb cf sonars e idxs st = Some st' -> state_ok cf st'.
  Proof.
    intros EO [Ai [Lk Eo]] H. unfold run_iter in H. rewrite height_numbers in H.
    destruct (iter_matrix _ _ _ _ _ _ _ _ _) as [[m|]|] eqn:EI; [| |discriminate].
    - destruct (update_alignments (cf_tokens cf) (int2ext (cf_classes cf)) m) as [x|] eqn:EU; [|discriminate].
      inversion H; subst st'; clear H. cbn [st_int st_ext].
      assert (Am : aligned (numbers (cf_classes cf)) m).
      { eapply iter_matrix_aligned; [|exact Ai|exact EI]. destruct sonars; [exact EO|apply no_oracle_valid]. }
      split; [exact Am|]. split; [exact EU|]. eapply update_alignments_ok; eassumption.
    - inversion H; subst. split; [exact Ai|]. split; assumption.
  Qed.

  (* iter_inv at the level of the object, for each kind of call *)
  Theorem call_inv c st st' :
    call_ok c -> state_ok cf st -> run_call T ltb cf sonars c st = Some st' -> state_ok cf st'.
  Proof.
    intros CO SO H. destruct c as [e|idxs e|idxs e|e|]; cbn [run_call call_ok] in *.
    - destruct (similar_gap_sites (height_of cf) (st_int st)) as [gd|]; [|discriminate].
      destruct (length gd =? 1); [inversion H; subst; exact SO|]. eapply run_iter_inv; eassumption.
    - destruct (length (cf_tokens cf) <? 3); [inversion H; subst; exact SO|]. eapply run_iter_inv; eassumption.
    - eapply run_iter_inv; eassumption.
    - eapply run_iter_inv; eassumption.
    - inversion H; subst; exact SO.
  Qed.

  (* history_inv *)
  Theorem history_inv : forall cs st st',
    Forall call_ok cs -> state_ok cf st -> run_history T ltb cf sonars cs st = Some st' -> state_ok cf st'.
  Proof.
    induction cs as [|c t IH]; intros st st' F SO H; cbn [run_history] in H.
    - inversion H; subst. exact SO.
    - inversion F; subst. destruct (run_call T ltb cf sonars c st) as [st1|] eqn:E1; [|discriminate].
      eapply IH; [assumption| |exact H]. eapply call_inv; eassumption.
  Qed.

  (* ---------------- C11 ---------------- *)
  Hypothesis ltb_irrefl : forall x, ltb x x = false.

  (* the score function of a refinement call that uses the end-of-pass check *)
  Definition final_score (c : call T) : option (imat -> T) :=
    match c with
    | SimilarGapSites _ e | AllSequences _ e | Clusters _ _ e | Orphans _ _ e =>
        match ie_check T e with CheckFinal => Some (ie_score T e) | _ => None end
    | SwapCheck _ => None
    end.

  Lemma run_iter_monotone e idxs st st' :
    ie_check T e = CheckFinal -> run_iter T ltb cf sonars e idxs st = Some st' ->
    ltb (ie_score T e (st_int st')) (ie_score T e (st_int st)) = false.
  Proof.
    intros EC H. unfold run_iter in H. rewrite EC in H.
    destruct (iter_matrix _ _ _ _ _ _ _ _ _) as [[m|]|] eqn:EI; [| |discriminate].
    - destruct (update_alignments _ _ m) as [x|]; [|discriminate]. inversion H; subst st'. cbn [st_int].
      rewrite height_numbers in EI. eapply iter_matrix_final_monotone; [exact ltb_irrefl|exact EI].
    - inversion H; subst. apply ltb_irrefl.
  Qed.

  (* iter_final_monotone *)
  Theorem call_final_monotone c sc st st' :
    final_score c = Some sc -> run_call T ltb cf sonars c st = Some st' ->
    ltb (sc (st_int st')) (sc (st_int st)) = false.
  Proof.
    intros FS H. destruct c as [e|idxs e|idxs e|e|]; cbn [run_call final_score] in *; try discriminate;
      destruct (ie_check T e) eqn:EC; try discriminate; inversion FS; subst sc; clear FS.
    - destruct (similar_gap_sites (height_of cf) (st_int st)) as [gd|]; [|discriminate].
      destruct (length gd =? 1); [inversion H; subst; apply ltb_irrefl|]. eapply run_iter_monotone; eassumption.
    - destruct (length (cf_tokens cf) <? 3); [inversion H; subst; apply ltb_irrefl|]. eapply run_iter_monotone; eassumption.
    - eapply run_iter_monotone; eassumption.
    - eapply run_iter_monotone; eassumption.
  Qed.

  (* iter_final_rollback: a worse candidate restores the previous state, cell for cell, in both matrices *)
  Theorem run_iter_rollback e idxs st st' cand :
    state_ok cf st -> ie_check T e = CheckFinal ->
    iter_loop T ltb (ie_score0 T e) (if sonars then ie_pa T e else no_oracle) (height_of cf) CheckFinal
              (st_int st) idxs (st_int st) (ie_score T e (st_int st)) = Some cand ->
    ltb (ie_score T e cand) (ie_score T e (st_int st)) = true ->
    run_iter T ltb cf sonars e idxs st = Some st' -> st' = st.
  Proof.
    intros [_ [Lk _]] EC HL Hw H. unfold run_iter in H. rewrite EC in H. unfold iter_matrix in H.
    destruct (length idxs =? 1); [inversion H; reflexivity|].
    rewrite HL, Hw in H. rewrite Lk in H. inversion H. destruct st; reflexivity.
  Qed.

  (* iter_early_exits *)
  Definition early_exit (c : call T) (st : state) : Prop :=
    match c with
    | SimilarGapSites _ _ => exists gd, similar_gap_sites (height_of cf) (st_int st) = Some gd /\ length gd = 1
    | Clusters _ idxs _ => length (cf_tokens cf) < 3 \/ length idxs = 1
    | Orphans _ idxs _ => length idxs = 1
    | AllSequences _ _ => height_of cf = 1
    | SwapCheck _ => True
    end.

  Lemma run_iter_one e idxs st : length idxs = 1 -> run_iter T ltb cf sonars e idxs st = Some st.
  Proof. intros H. unfold run_iter, iter_matrix. rewrite H. reflexivity. Qed.

  Theorem call_early_exit c st : early_exit c st -> run_call T ltb cf sonars c st = Some st.
  Proof.
    destruct c as [e|idxs e|idxs e|e|]; cbn [early_exit run_call].
    - intros [gd [-> L1]]. rewrite L1. reflexivity.
    - intros [H|H].
      + apply Nat.ltb_lt in H. rewrite H. reflexivity.
      + destruct (length (cf_tokens cf) <? 3); [reflexivity|]. apply run_iter_one. exact H.
    - apply run_iter_one.
    - intros H. apply run_iter_one. rewrite map_length, seq_length. exact H.
    - reflexivity.
  Qed.

  (* history_monotone: along a history every end-of-pass refinement call is monotone
     for its own score function (its own gap weight and the scorer current at the time) *)
  Fixpoint monotone_chain (cs : list (call T)) (st : state) : Prop :=
    match cs with
    | [] => True
    | c :: t =>
        exists st1, run_call T ltb cf sonars c st = Some st1 /\
          (forall sc, final_score c = Some sc -> ltb (sc (st_int st1)) (sc (st_int st)) = false) /\
          monotone_chain t st1
    end.

  Theorem history_monotone : forall cs st st',
    run_history T ltb cf sonars cs st = Some st' -> monotone_chain cs st.
  Proof.
    induction cs as [|c t IH]; intros st st' H; cbn [run_history monotone_chain] in *; [exact I|].
    destruct (run_call T ltb cf sonars c st) as [st1|] eqn:E1; [|discriminate].
    exists st1. split; [reflexivity|]. split.
    - intros sc FS. eapply call_final_monotone; eassumption.
    - eapply IH. exact H.
  Qed.
End Calls.

(* C11 for a totally ordered score type: [leb] is "<=", the code's "new_sop < sop" is
   its negation; score(after) >= score(before) *)
Theorem call_final_monotone_total (T : Type) (leb : T -> T -> bool)
        (leb_total : forall x y, leb x y = true \/ leb y x = true)
        (cf : config) (sonars : bool) (c : call T) (sc : imat -> T) (st st' : state) :
  final_score T c = Some sc ->
  run_call T (fun x y => negb (leb y x)) cf sonars c st = Some st' ->
  leb (sc (st_int st)) (sc (st_int st')) = true.
Proof.
  intros FS H.
  assert (IR : forall x, negb (leb x x) = false).
  { intros x. destruct (leb_total x x) as [E|E]; rewrite E; reflexivity. }
  pose proof (call_final_monotone T (fun x y => negb (leb y x)) cf sonars IR c sc st st' FS H) as M.
  cbn beta in M. apply negb_false_iff in M. exact M.
Qed.
