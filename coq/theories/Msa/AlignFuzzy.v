(* Alignments in fuzzy (partial-cognate) mode: every word is a list of morphemes (its segments
   split at the morpheme separator '+') with one cognate id per morpheme; a cognate set consists
   of morphemes.  Model of lingpy.align.sca.Alignments with fuzzy=True and the DOCUMENTED default
   split_on_tones=False: add_alignments takes morphemes[cogids.index(key)] of every word of the
   set (sca.py:689-697), align() aligns the sets, _msa2col (sca.py:781-799) concatenates, for every
   word, the stored row of each morpheme that is in a registered set and the plain morpheme
   otherwise, with the separator between them.

   The model reduces this to the plain model of Alignments.v on the wordlist of MORPHEMES
   ([explode]: morpheme i of word id is the pseudo-word id * 64 + i).  Guards (the code raises or
   is outside the property): as many cognate ids as morphemes, at most 64 morphemes, no cognate id
   twice in one word.  Model and checker; proofs in AlignFuzzyProofs.v. *)
From Coq Require Import List Arith Bool ZArith.
From LV Require Import Common.Cases Align.DP Msa.Profile Msa.Merge Msa.Refine Msa.MsaExec Msa.Alignments
  Msa.AlignHistory.
Import ListNotations.

Record fword := {
  fw_id : nat;
  fw_doc : nat;
  fw_cogs : list nat;               (* one cognate id per morpheme; 0 = none *)
  fw_morphs : list (list Z)         (* the segments, split at the separator *)
}.

Definition sepZ : Z := 0%Z.         (* the harness' code of the morpheme separator '+' *)
Definition piece_id (id i : nat) : nat := id * 64 + i.

Definition explode_word (w : fword) : wordlist :=
  map (fun icm => {| w_id := piece_id (fw_id w) (fst icm); w_doc := fw_doc w;
                     w_cog := fst (snd icm); w_segs := snd (snd icm) |})
      (combine (seq 0 (length (fw_morphs w))) (combine (fw_cogs w) (fw_morphs w))).

Definition explode (ws : list fword) : wordlist := flat_map explode_word ws.

Definition nodupb (l : list nat) : bool :=
  Nat.eqb (length (nodup Nat.eq_dec l)) (length l).

Definition fword_okb (w : fword) : bool :=
  Nat.eqb (length (fw_cogs w)) (length (fw_morphs w))
  && (length (fw_morphs w) <=? 64) && negb (Nat.eqb (length (fw_morphs w)) 0)
  && nodupb (filter (fun c => negb (c =? 0)) (fw_cogs w))
  && forallb (fun m => negb (existsb (Z.eqb sepZ) m)) (fw_morphs w).

(* tmp[key] += row; if i < len(cogids) - 1: tmp[key] += ['+'] *)
Fixpoint join_sep (rows : list erow) : erow :=
  match rows with
  | [] => []
  | [r] => r
  | r :: t => r ++ Some sepZ :: join_sep t
  end.

Definition regroup_word (pcol : list (nat * erow)) (w : fword) : option (nat * erow) :=
  match mapM (fun i => lookup_col pcol (piece_id (fw_id w) i)) (seq 0 (length (fw_morphs w))) with
  | Some rows => Some (fw_id w, join_sep rows)
  | None => None
  end.

Definition align_fuzzy (MSA : list (list Z) -> option (list erow)) (ws : list fword)
  : option (list (nat * erow)) :=
  if forallb fword_okb ws then
    match align_wordlist MSA (explode ws) with
    | Some pcol => mapM (regroup_word pcol) ws
    | None => None
    end
  else None.

(* ------------------------------------------------------------------ *)
(* checker: split every stored alignment at the separator and check the morpheme rows with the
   checker of the plain model *)
Fixpoint split_sep (r : erow) (cur : erow) : list erow :=
  match r with
  | [] => [rev cur]
  | Some z :: t => if Z.eqb z sepZ then rev cur :: split_sep t [] else split_sep t (Some z :: cur)
  | None :: t => split_sep t (None :: cur)
  end.

Definition ungroup_word (w : fword) (p : nat * erow) : option (list (nat * erow)) :=
  let pieces := split_sep (snd p) [] in
  if Nat.eqb (fst p) (fw_id w) && Nat.eqb (length pieces) (length (fw_morphs w))
  then Some (map (fun ir => (piece_id (fw_id w) (fst ir), snd ir)) (combine (seq 0 (length pieces)) pieces))
  else None.

Fixpoint ungroup (ws : list fword) (col : list (nat * erow)) : option (list (nat * erow)) :=
  match ws, col with
  | [], [] => Some []
  | w :: ws', p :: col' =>
      match ungroup_word w p, ungroup ws' col' with
      | Some l, Some rest => Some (l ++ rest)
      | _, _ => None
      end
  | _, _ => None
  end.

Definition fuzzy_okb (ws : list fword) (col : list (nat * erow)) : bool :=
  match ungroup ws col with
  | Some pcol => alignments_okb (explode ws) pcol
  | None => false
  end.

Record fuzzy_case := {
  fc_words : list fword;
  fc_sets : list (list (list Z) * list erow);     (* implementation: seqs and alm_matrix of every set *)
  fc_col : list (nat * erow)                      (* implementation: the alignment column, row order *)
}.

Definition fuzzy_case_code (c : fuzzy_case) : nat :=
  bit 0 (match align_fuzzy (msa_table (fc_sets c)) (fc_words c) with
         | Some col => col_eqb col (fc_col c)
         | None => false
         end)
  + bit 1 (forallb fword_okb (fc_words c))
  + bit 2 (fuzzy_okb (fc_words c) (fc_col c) && forallb set_okb (fc_sets c)).
