(* Proofs about Msa/Alignments.v: alignments_inv and the specification of the checker. *)
From Coq Require Import List Arith Bool Lia ZArith Permutation.
From LV Require Import Common.Cases Align.DP Msa.Profile Msa.Merge Msa.Refine Msa.MsaSpec Msa.MsaExec
  Msa.ProfileProofs Msa.MergeProofs Msa.UpdateProofs Msa.MsaExecProofs Msa.Alignments.
Import ListNotations.

Lemma lookup_row_spec : forall ids rows id r,
  lookup_row ids rows id = Some r ->
  exists k, nth_error ids k = Some id /\ nth_error rows k = Some r.
Proof.
  induction ids as [|i t IH]; intros [|r0 rs] id r H; cbn [lookup_row] in H; try discriminate.
  destruct (lookup_row t rs id) as [r'|] eqn:E.
  - inversion H; subst r'. destruct (IH rs id r E) as [k [H1 H2]]. exists (S k). split; assumption.
  - destruct (i =? id) eqn:Ei; [|discriminate]. apply Nat.eqb_eq in Ei. subst i. inversion H; subst r0.
    exists 0. split; reflexivity.
Qed.

Lemma set_of_perm (wl : wordlist) (cog : nat) :
  Permutation (set_of wl cog) (filter (fun w => w_cog w =? cog) wl).
Proof.
  unfold set_of, by_id. rewrite sort_keys_perm. rewrite map_map. cbn [snd]. rewrite map_id.
  rewrite sort_keys_perm. rewrite map_map. cbn [snd]. rewrite map_id. reflexivity.
Qed.

Lemma set_of_in (wl : wordlist) (cog : nat) (w : word) : In w (set_of wl cog) <-> In w wl /\ w_cog w = cog.
Proof.
  split.
  - intros H. eapply Permutation_in in H; [|apply set_of_perm]. apply filter_In in H.
    destruct H as [H1 H2]. apply Nat.eqb_eq in H2. tauto.
  - intros [H1 H2]. eapply Permutation_in; [apply Permutation_sym, set_of_perm|].
    apply filter_In. split; [exact H1|apply Nat.eqb_eq; exact H2].
Qed.

Lemma nodup_map_inj {X Y} (f : X -> Y) : forall l x y,
  NoDup (map f l) -> In x l -> In y l -> f x = f y -> x = y.
Proof.
  induction l as [|a t IH]; intros x y ND Hx Hy E; [destruct Hx|].
  cbn [map] in ND. inversion ND as [|? ? Ha ND']; subst.
  destruct Hx as [->|Hx], Hy as [->|Hy]; [reflexivity| | |apply IH; assumption].
  - exfalso. apply Ha. rewrite E. apply in_map. exact Hy.
  - exfalso. apply Ha. rewrite <- E. apply in_map. exact Hx.
Qed.

Lemma Forall2_combine_in {X Y} (R : X -> Y -> Prop) : forall l1 l2 x y,
  Forall2 R l1 l2 -> In (x, y) (combine l1 l2) -> R x y.
Proof.
  induction 1 as [|a b t1 t2 Hab F IH]; intros Hin; [destruct Hin|].
  cbn [combine] in Hin. destruct Hin as [E|Hin]; [inversion E; subst; exact Hab|apply IH; exact Hin].
Qed.

Lemma degap_map_some_z (s : list Z) : degap (map (@Some Z) s) = s.
Proof. induction s as [|x t IH]; cbn [map degap]; congruence. Qed.

Section AlignmentsInv.
  Variable MSA : list (list Z) -> option (list erow).
  Hypothesis MSA_ok : msa_contract MSA.
  Variable wl : wordlist.
  Hypothesis wl_ok : wordlist_ok wl.

  Lemma stored_spec (w : word) (r : erow) : In w wl -> stored MSA wl w = Some r ->
    degap r = w_segs w /\
    (multi wl (w_cog w) = false -> r = map (@Some Z) (w_segs w)) /\
    (multi wl (w_cog w) = true ->
       exists rows, MSA (map w_segs (set_of wl (w_cog w))) = Some rows /\ In r rows).
  Proof.
    intros Hw H. unfold stored in H. destruct (multi wl (w_cog w)) eqn:EM.
    - set (members := set_of wl (w_cog w)) in *.
      destruct (MSA (map w_segs members)) as [rows|] eqn:ER; [|discriminate].
      destruct (rows_complete (map w_id members) rows); [|discriminate].
      destruct (lookup_row_spec _ _ _ _ H) as [k [Hk Hr]].
      destruct (MSA_ok _ _ ER) as [F _].
      rewrite nth_error_map in Hk. destruct (nth_error members k) as [wk|] eqn:Ek; [|discriminate].
      cbn [option_map] in Hk. inversion Hk as [Eid].
      assert (Hwk : In wk members) by (eapply nth_error_In; exact Ek).
      apply set_of_in in Hwk. destruct Hwk as [Hwk _].
      assert (wk = w) by (eapply (nodup_map_inj w_id wl); [exact wl_ok|exact Hwk|exact Hw|exact Eid]).
      subst wk. split; [|split; [discriminate|]].
      + eapply (Forall2_nth_error _ rows (map w_segs members) k r (w_segs w) F Hr).
        rewrite nth_error_map, Ek. reflexivity.
      + intros _. exists rows. split; [reflexivity|]. eapply nth_error_In. exact Hr.
    - inversion H; subst r. split; [apply degap_map_some_z|]. split; [reflexivity|discriminate].
  Qed.

  Lemma store_all_spec : forall ws col, store_all MSA wl ws = Some col ->
    Forall2 (fun w p => fst p = w_id w /\ stored MSA wl w = Some (snd p)) ws col.
  Proof.
    induction ws as [|w t IH]; intros col H; cbn [store_all] in H.
    - inversion H. constructor.
    - destruct (stored MSA wl w) as [r|] eqn:ES; [|discriminate].
      destruct (store_all MSA wl t) as [rest|]; [|discriminate]. inversion H; subst col.
      constructor; [split; [reflexivity|exact ES]|apply IH; reflexivity].
  Qed.

  (* alignments_inv *)
  Theorem align_wordlist_ok_sec (col : list (nat * erow)) :
    align_wordlist MSA wl = Some col -> column_ok wl col.
  Proof.
    intros H. unfold align_wordlist in H. pose proof (store_all_spec wl col H) as F.
    assert (Fin : Forall2 (fun w p => In w wl /\ fst p = w_id w /\ stored MSA wl w = Some (snd p)) wl col).
    { assert (G : forall ws c, Forall2 (fun w p => fst p = w_id w /\ stored MSA wl w = Some (snd p)) ws c ->
                  (forall w, In w ws -> In w wl) ->
                  Forall2 (fun w p => In w wl /\ fst p = w_id w /\ stored MSA wl w = Some (snd p)) ws c).
      { induction 1 as [|w p ws' c' Hwp F' IH]; intros Sub; constructor.
        - split; [apply Sub; left; reflexivity|exact Hwp].
        - apply IH. intros w' Hw'. apply Sub. right. exact Hw'. }
      apply G; [exact F|auto]. }
    split.
    - eapply Forall2_imp; [|exact Fin]. intros w p [Hw [Hid Hs]].
      destruct (stored_spec w (snd p) Hw Hs) as [D [U _]]. auto.
    - intros w1 w2 p1 p2 H1 H2 Ec EM.
      destruct (Forall2_combine_in _ _ _ _ _ Fin H1) as [Hw1 [_ S1]].
      destruct (Forall2_combine_in _ _ _ _ _ Fin H2) as [Hw2 [_ S2]].
      destruct (stored_spec w1 (snd p1) Hw1 S1) as [_ [_ M1]].
      destruct (stored_spec w2 (snd p2) Hw2 S2) as [_ [_ M2]].
      destruct (M1 EM) as [rows1 [E1 In1]]. rewrite <- Ec in M2. destruct (M2 EM) as [rows2 [E2 In2]].
      rewrite E1 in E2. inversion E2; subst rows2.
      destruct (MSA_ok _ _ E1) as [_ [L R]]. rewrite Forall_forall in R.
      rewrite (R _ In1), (R _ In2). reflexivity.
  Qed.
End AlignmentsInv.

Theorem align_wordlist_ok (MSA : list (list Z) -> option (list erow)) (wl : wordlist) (col : list (nat * erow)) :
  msa_contract MSA -> wordlist_ok wl -> align_wordlist MSA wl = Some col -> column_ok wl col.
Proof. intros M W. apply align_wordlist_ok_sec; assumption. Qed.

(* the Multiple invariant implies the contract of the per-set aligner *)
Theorem ext_ok_msa_contract (cf : config) (e : emat) :
  ext_ok cf e -> exists rows, e = map (@Some erow) rows /\
    Forall2 (fun r s => degap r = s) rows (cf_tokens cf) /\ exists L, Forall (fun r => length r = L) rows.
Proof.
  intros [rows [E [[F [L [R _]]] _]]]. exists rows. split; [exact E|]. split; [exact F|]. exists L. exact R.
Qed.

(* ------------------------------------------------------------------ *)
(* the checker *)
Lemma and_iff_both (P1 P2 Q1 Q2 : Prop) : (P1 <-> P2) -> (Q1 <-> Q2) -> (P1 /\ Q1 <-> P2 /\ Q2).
Proof. tauto. Qed.

Theorem alignments_okb_spec (wl : wordlist) (col : list (nat * erow)) :
  alignments_okb wl col = true <-> column_ok wl col.
Proof.
  unfold alignments_okb, column_ok. rewrite andb_true_iff, forall2b_spec.
  apply and_iff_both.
  - apply Forall2_iff. intros w p. rewrite !andb_true_iff, Nat.eqb_eq, zlist_eqb_spec, orb_true_iff, erow_eqb_spec.
    split.
    + intros [[H1 H2] H3]. split; [exact H1|]. split; [exact H2|]. intros Hm. destruct H3 as [H3|H3]; [congruence|exact H3].
    + intros [H1 [H2 H3]]. split; [split; assumption|]. destruct (multi wl (w_cog w)); [left; reflexivity|right; auto].
  - rewrite forallb_forall. split.
    + intros H w1 w2 p1 p2 H1 H2 Ec EM. specialize (H _ H1). rewrite forallb_forall in H. specialize (H _ H2).
      cbn [fst snd] in H. rewrite Ec, Nat.eqb_refl, <- Ec, EM in H. cbn in H. apply Nat.eqb_eq. exact H.
    + intros H [w1 p1] H1. rewrite forallb_forall. intros [w2 p2] H2. cbn [fst snd].
      destruct (w_cog w1 =? w_cog w2) eqn:Ec; [|reflexivity].
      destruct (multi wl (w_cog w1)) eqn:EM; [|reflexivity]. cbn [andb negb orb].
      apply Nat.eqb_eq. apply Nat.eqb_eq in Ec. eapply H; eassumption.
Qed.
