(* Proofs about Msa/Merge.v, part 2: the grouping of the inputs by class string
   (_set_model) and _update_alignments.
   update_inv: if the internal matrix is a gapped version of the numbered unique
   class strings, the external matrix has one row per input in input order,
   de-gapping row k gives the tokens of input k, it is rectangular without all-gap
   column, identical inputs get identical rows and inputs with equal class strings
   get the same gap pattern. *)
From Coq Require Import List Arith Bool Lia Permutation ZArith.
From LV Require Import Common.Cases Align.DP Msa.Profile Msa.Merge Msa.Refine Msa.MsaSpec
  Msa.ProfileProofs Msa.MergeProofs.
Import ListNotations.

(* ------------------------------------------------------------------ *)
(* generic list facts *)
Lemma zlist_eqb_spec (k c : list Z) : list_eqb Z.eqb k c = true <-> k = c.
Proof. apply list_eqb_spec. intros x y. apply Z.eqb_eq. Qed.

Lemma Forall2_nth {X Y} (R : X -> Y -> Prop) (dx : X) (dy : Y) : forall l1 l2,
  Forall2 R l1 l2 -> forall k, k < length l1 -> R (nth k l1 dx) (nth k l2 dy).
Proof.
  induction 1 as [|x y t1 t2 Hxy F IH]; intros k Hk; cbn [length] in Hk; [lia|].
  destruct k as [|k]; [exact Hxy|]. cbn [nth]. apply IH. lia.
Qed.

Lemma Forall2_len {X Y} (R : X -> Y -> Prop) : forall l1 l2, Forall2 R l1 l2 -> length l1 = length l2.
Proof. induction 1; cbn [length]; congruence. Qed.

Lemma Forall2_imp {X Y} (R1 R2 : X -> Y -> Prop) : (forall x y, R1 x y -> R2 x y) ->
  forall l1 l2, Forall2 R1 l1 l2 -> Forall2 R2 l1 l2.
Proof. intros H. induction 1; constructor; auto. Qed.

Lemma Forall2_nth_intro {X Y} (R : X -> Y -> Prop) (dx : X) (dy : Y) : forall l1 l2,
  length l1 = length l2 -> (forall k, k < length l1 -> R (nth k l1 dx) (nth k l2 dy)) ->
  Forall2 R l1 l2.
Proof.
  induction l1 as [|x t IH]; intros [|y t2] L H; try discriminate; constructor.
  - apply (H 0). cbn; lia.
  - apply IH; [cbn in L; lia|]. intros k Hk. apply (H (S k)). cbn; lia.
Qed.

Lemma skipn_nth_error {X} : forall (l : list X) s x, nth_error l s = Some x -> skipn s l = x :: skipn (S s) l.
Proof.
  induction l as [|y t IH]; intros s x H; [destruct s; discriminate|].
  destruct s as [|s]; cbn [nth_error] in H.
  - inversion H. reflexivity.
  - cbn [skipn]. rewrite (IH s x H). reflexivity.
Qed.

Lemma nth_error_firstn_lt {X} : forall (l : list X) j k, k < j -> nth_error (firstn j l) k = nth_error l k.
Proof.
  induction l as [|x t IH]; intros j k H; [destruct j, k; reflexivity|].
  destruct j as [|j]; [lia|]. destruct k as [|k]; [reflexivity|]. cbn [firstn nth_error]. apply IH. lia.
Qed.

Lemma nth_error_skipn_add {X} : forall (l : list X) s d, nth_error (skipn s l) d = nth_error l (s + d).
Proof.
  induction l as [|x t IH]; intros s d; [destruct s, d; reflexivity|].
  destruct s as [|s]; [reflexivity|]. cbn [skipn plus nth_error]. apply IH.
Qed.

Lemma NoDup_app_one {X} (l : list X) (c : X) : ~ In c l -> NoDup l -> NoDup (l ++ [c]).
Proof.
  intros N ND. induction ND as [|x t Hx ND IH]; cbn [app].
  - constructor; [intros []|constructor].
  - constructor.
    + intros Hin. apply in_app_or in Hin. destruct Hin as [Hin|[<-|[]]]; [tauto|]. apply N. left; reflexivity.
    + apply IH. intros Hc. apply N. right. exact Hc.
Qed.

(* ------------------------------------------------------------------ *)
(* set_nth *)
Lemma set_nth_spec {X} (j : nat) (x : X) (l l' : list X) :
  set_nth j x l = Some l' ->
  length l' = length l /\ nth_error l' j = Some x /\ forall k, k <> j -> nth_error l' k = nth_error l k.
Proof.
  unfold set_nth. destruct (j <? length l) eqn:E; [|discriminate]. apply Nat.ltb_lt in E.
  intros H; injection H as <-.
  change (match l with [] => [] | _ :: l0 => skipn j l0 end) with (skipn (S j) l).
  assert (Lf : length (firstn j l) = j) by (apply firstn_length_le; lia).
  split; [|split].
  - rewrite app_length. change (length (x :: skipn (S j) l)) with (S (length (skipn (S j) l))).
    rewrite Lf, skipn_length. lia.
  - rewrite nth_error_app2 by lia. rewrite Lf, Nat.sub_diag. reflexivity.
  - intros k Hk. destruct (Nat.lt_ge_cases k j) as [Hlt|Hge].
    + rewrite nth_error_app1 by lia. apply nth_error_firstn_lt. exact Hlt.
    + rewrite nth_error_app2 by lia. rewrite Lf.
      destruct (k - j) as [|d] eqn:Ed; [lia|]. cbn [nth_error].
      rewrite nth_error_skipn_add. f_equal. lia.
Qed.

(* ------------------------------------------------------------------ *)
(* render *)
Lemma render_spec (toks : list Z) : forall (l : line num) (r : erow),
  render toks l = Some r ->
  gap_pattern r = gap_pattern l /\
  Forall2 (fun x c => nth_error toks (snd c) = Some x) (degap r) (degap l).
Proof.
  induction l as [|[[i p]|] t IH]; intros r H; cbn [render] in H.
  - inversion H. split; [reflexivity|constructor].
  - destruct (nth_error toks p) as [x|] eqn:Ex; [|discriminate].
    destruct (render toks t) as [r'|]; [|discriminate]. inversion H; subst r.
    destruct (IH r' eq_refl) as [G F]. split.
    + unfold gap_pattern in *. cbn [map is_gap]. f_equal. exact G.
    + cbn [degap]. constructor; [exact Ex|exact F].
  - destruct (render toks t) as [r'|]; [|discriminate]. inversion H; subst r.
    destruct (IH r' eq_refl) as [G F]. split.
    + unfold gap_pattern in *. cbn [map is_gap]. f_equal. exact G.
    + cbn [degap]. exact F.
Qed.

Lemma gap_pattern_length {X Y} (r : line X) (l : line Y) : gap_pattern r = gap_pattern l -> length r = length l.
Proof. unfold gap_pattern. intros H. apply (f_equal (@length bool)) in H. rewrite !map_length in H. exact H. Qed.

Lemma gap_pattern_nth {X Y} (r : line X) (l : line Y) c :
  gap_pattern r = gap_pattern l -> (nth c r None <> None <-> nth c l None <> None).
Proof.
  unfold gap_pattern, line, cell in *. intros H.
  assert (E : is_gap (nth c r None) = is_gap (nth c l None)).
  { rewrite <- (map_nth (@is_gap X) r None c), <- (map_nth (@is_gap Y) l None c).
    rewrite H. reflexivity. }
  destruct (nth c r None), (nth c l None); cbn in E; split; intros; congruence.
Qed.

Lemma degap_numbers (toks : list Z) i : forall len s xs,
  Forall2 (fun x (c : num) => nth_error toks (snd c) = Some x) xs (map (fun j => (i, j)) (seq s len)) ->
  s + len = length toks -> xs = skipn s toks.
Proof.
  induction len as [|len IH]; intros s xs F E; cbn [seq map] in F.
  - inversion F. rewrite skipn_all2 by lia. reflexivity.
  - inversion F as [|x c xs' cs Hx F']; subst. cbn [snd] in Hx.
    rewrite (skipn_nth_error _ _ _ Hx). f_equal. apply IH; [exact F'|lia].
Qed.

(* ------------------------------------------------------------------ *)
(* the groups *)
Definition members (g : groups_t) : list nat := flat_map snd g.

Lemma add_index_members g c i : Permutation (members (add_index g c i)) (i :: members g).
Proof.
  unfold members. induction g as [|[k v] t IH]; cbn [add_index flat_map snd app]; [reflexivity|].
  destruct (list_eqb Z.eqb k c); cbn [flat_map snd].
  - rewrite <- app_assoc. cbn [app]. apply Permutation_sym, Permutation_middle.
  - rewrite IH. apply Permutation_sym, Permutation_middle.
Qed.

Lemma add_index_keys g c i :
  (In c (map fst g) -> map fst (add_index g c i) = map fst g) /\
  (~ In c (map fst g) -> map fst (add_index g c i) = map fst g ++ [c]).
Proof.
  induction g as [|[k v] t [IH1 IH2]]; cbn [add_index map fst]; [split; [intros []|reflexivity]|].
  destruct (list_eqb Z.eqb k c) eqn:E.
  - apply zlist_eqb_spec in E. subst k. cbn [map fst]. split; [reflexivity|intros N; exfalso; apply N; left; reflexivity].
  - assert (k <> c) by (intros ->; rewrite (proj2 (zlist_eqb_spec c c) eq_refl) in E; discriminate).
    cbn [map fst]. split.
    + intros [Hc|Hc]; [congruence|]. f_equal. apply IH1. exact Hc.
    + intros N. cbn [app]. f_equal. apply IH2. intros Hc. apply N. right. exact Hc.
Qed.

Lemma add_index_in g c i k v : In (k, v) (add_index g c i) ->
  In (k, v) g \/ (k = c /\ exists v0, v = v0 ++ [i] /\ (v0 = [] \/ In (k, v0) g)).
Proof.
  induction g as [|[k0 v0] t IH]; cbn [add_index].
  - intros [H|[]]. inversion H; subst. right. split; [reflexivity|]. exists []. split; [reflexivity|left; reflexivity].
  - destruct (list_eqb Z.eqb k0 c) eqn:E.
    + apply zlist_eqb_spec in E. subst k0. intros [H|H].
      * inversion H; subst. right. split; [reflexivity|]. exists v0. split; [reflexivity|right; left; reflexivity].
      * left. right. exact H.
    + intros [H|H]; [left; left; exact H|].
      destruct (IH H) as [H'|[-> [v1 [-> [->|H']]]]].
      * left. right. exact H'.
      * right. split; [reflexivity|]. exists []. split; [reflexivity|left; reflexivity].
      * right. split; [reflexivity|]. exists v1. split; [reflexivity|right; right; exact H'].
Qed.

(* invariant of group_from after the first [i] class strings *)
Definition groups_inv (all : list (list Z)) (g : groups_t) (i : nat) : Prop :=
  Permutation (members g) (seq 0 i) /\
  NoDup (map fst g) /\
  forall k v, In (k, v) g -> v <> [] /\ forall j, In j v -> nth_error all j = Some k.

Lemma group_from_inv (all : list (list Z)) : forall rest g i,
  groups_inv all g i -> skipn i all = rest ->
  groups_inv all (group_from g i rest) (i + length rest).
Proof.
  induction rest as [|c t IH]; intros g i [P [ND M]] E; cbn [group_from length].
  - rewrite Nat.add_0_r. split; [exact P|split; [exact ND|exact M]].
  - replace (i + S (length t)) with (S i + length t) by lia.
    assert (Ec : nth_error all i = Some c).
    { rewrite <- (firstn_skipn i all) at 1. rewrite E.
      assert (Li : length (firstn i all) = i).
      { apply firstn_length_le. apply (f_equal (@length _)) in E. rewrite skipn_length in E. cbn in E. lia. }
      rewrite nth_error_app2 by lia. rewrite Li, Nat.sub_diag. reflexivity. }
    apply IH.
    + split; [|split].
      * rewrite add_index_members, P. rewrite seq_S. cbn [plus].
        rewrite Permutation_app_comm. reflexivity.
      * destruct (add_index_keys g c i) as [K1 K2].
        destruct (in_dec (list_eq_dec Z.eq_dec) c (map fst g)) as [Hin|Hnin].
        -- rewrite K1; assumption.
        -- rewrite K2 by assumption. apply NoDup_app_one; assumption.
      * intros k v Hin. apply add_index_in in Hin.
        destruct Hin as [Hin|[-> [v0 [-> Hv0]]]]; [apply M; exact Hin|].
        split; [destruct v0; discriminate|].
        intros j Hj. apply in_app_or in Hj. destruct Hj as [Hj|[<-|[]]]; [|exact Ec].
        destruct Hv0 as [->|Hv0]; [destruct Hj|]. apply (M c v0 Hv0). exact Hj.
    + rewrite (skipn_nth_error _ _ _ Ec) in E. inversion E. reflexivity.
Qed.

Lemma group_classes_inv (classes : list (list Z)) :
  groups_inv classes (group_classes classes) (length classes).
Proof.
  unfold group_classes. apply (group_from_inv classes classes [] 0); [|reflexivity].
  split; [reflexivity|]. split; [constructor|]. intros k v [].
Qed.

Lemma nodup_app_disjoint {X} : forall (l r : list X) x, NoDup (l ++ r) -> In x l -> ~ In x r.
Proof.
  induction l as [|y t IH]; intros r x ND Hx; [destruct Hx|].
  cbn [app] in ND. inversion ND as [|? ? Hy ND']; subst.
  destruct Hx as [->|Hx]; [intros Hr; apply Hy; apply in_or_app; right; exact Hr|].
  apply IH; assumption.
Qed.

Lemma nodup_app_r {X} : forall (l r : list X), NoDup (l ++ r) -> NoDup r.
Proof.
  induction l as [|y t IH]; intros r ND; [exact ND|]. cbn [app] in ND. inversion ND; subst. apply IH. assumption.
Qed.

Lemma in_nth_concat {X} : forall (ls : list (list X)) i x, In x (nth i ls []) -> In x (concat ls).
Proof.
  induction ls as [|l t IH]; intros i x H; [destruct i; destruct H|].
  cbn [concat]. apply in_or_app. destruct i as [|i]; [left; exact H|right; eapply IH; exact H].
Qed.

Lemma concat_nodup_disjoint {X} : forall (ls : list (list X)), NoDup (concat ls) ->
  forall i1 i2 x, In x (nth i1 ls []) -> In x (nth i2 ls []) -> i1 = i2.
Proof.
  induction ls as [|l t IH]; intros ND i1 i2 x H1 H2; [destruct i1; destruct H1|].
  cbn [concat] in ND.
  destruct i1 as [|i1], i2 as [|i2]; cbn [nth] in *; [reflexivity| | |].
  - exfalso. eapply nodup_app_disjoint; [exact ND|exact H1|]. eapply in_nth_concat; exact H2.
  - exfalso. eapply nodup_app_disjoint; [exact ND|exact H2|]. eapply in_nth_concat; exact H1.
  - f_equal. eapply IH; [eapply nodup_app_r; exact ND|exact H1|exact H2].
Qed.

Section Groups.
  Variable classes : list (list Z).
  Let G := group_classes classes.
  Let i2e := int2ext classes.

  Lemma i2e_nth i : nth i i2e [] = snd (nth i G ([], [])).
  Proof. unfold i2e, int2ext. fold G. change (@nil nat) with (snd (@nil Z, @nil nat)) at 1. apply map_nth. Qed.

  Lemma i2e_length : length i2e = length G.
  Proof. unfold i2e, int2ext. fold G. apply map_length. Qed.

  Lemma i2e_in_lt i j : In j (nth i i2e []) -> i < length G.
  Proof.
    intros H. destruct (Nat.lt_ge_cases i (length G)) as [Hl|Hg]; [exact Hl|].
    rewrite nth_overflow in H by (rewrite i2e_length; exact Hg). destruct H.
  Qed.

  Lemma members_concat : members G = concat i2e.
  Proof. unfold members, i2e, int2ext. fold G. apply flat_map_concat_map. Qed.

  Lemma groups_cover j : j < length classes -> exists i, i < length G /\ In j (nth i i2e []).
  Proof.
    intros Hj. destruct (group_classes_inv classes) as [P _]. fold G in P.
    assert (Hin : In j (members G)).
    { eapply Permutation_in; [apply Permutation_sym; exact P|]. apply in_seq. lia. }
    unfold members in Hin. apply in_flat_map in Hin. destruct Hin as [[k v] [Hkv Hjv]].
    destruct (In_nth _ _ ([], []) Hkv) as [i [Hi Ei]].
    exists i. split; [exact Hi|]. rewrite i2e_nth, Ei. exact Hjv.
  Qed.

  Lemma groups_members_lt i j : In j (nth i i2e []) -> j < length classes.
  Proof.
    intros H. destruct (group_classes_inv classes) as [P _]. fold G in P.
    assert (Hin : In j (members G)) by (rewrite members_concat; eapply in_nth_concat; exact H).
    eapply Permutation_in in Hin; [|exact P]. apply in_seq in Hin. lia.
  Qed.

  Lemma groups_disjoint i1 i2 j : In j (nth i1 i2e []) -> In j (nth i2 i2e []) -> i1 = i2.
  Proof.
    apply concat_nodup_disjoint. rewrite <- members_concat.
    destruct (group_classes_inv classes) as [P _]. fold G in P.
    eapply Permutation_NoDup; [apply Permutation_sym; exact P|apply seq_NoDup].
  Qed.

  Lemma groups_key i j : In j (nth i i2e []) -> nth_error classes j = Some (fst (nth i G ([], []))).
  Proof.
    intros H. pose proof (i2e_in_lt i j H) as Hi.
    destruct (group_classes_inv classes) as [_ [_ M]]. fold G in M.
    rewrite i2e_nth in H. destruct (nth i G ([], [])) as [k v] eqn:E.
    assert (Hin : In (k, v) G) by (rewrite <- E; apply nth_In; exact Hi).
    destruct (M k v Hin) as [_ Hk]. apply Hk. exact H.
  Qed.

  Lemma groups_nonempty i : i < length G -> nth i i2e [] <> [].
  Proof.
    intros Hi. destruct (group_classes_inv classes) as [_ [_ M]]. fold G in M.
    rewrite i2e_nth. destruct (nth i G ([], [])) as [k v] eqn:E.
    assert (Hin : In (k, v) G) by (rewrite <- E; apply nth_In; exact Hi).
    destruct (M k v Hin) as [Hne _]. exact Hne.
  Qed.

  Lemma groups_same_class i1 i2 j k :
    In j (nth i1 i2e []) -> In k (nth i2 i2e []) -> nth_error classes j = nth_error classes k -> i1 = i2.
  Proof.
    intros H1 H2 E. pose proof (i2e_in_lt _ _ H1) as L1. pose proof (i2e_in_lt _ _ H2) as L2.
    rewrite (groups_key _ _ H1), (groups_key _ _ H2) in E. inversion E as [E'].
    destruct (group_classes_inv classes) as [_ [ND _]]. fold G in ND.
    rewrite (NoDup_nth (map fst G) []) in ND. apply ND; try (rewrite map_length; assumption).
    change (@nil Z) with (fst (@nil Z, @nil nat)). rewrite !map_nth. exact E'.
  Qed.

  Lemma numbers_length : length (numbers classes) = length G.
  Proof. unfold numbers. fold G. rewrite map_length, combine_length, seq_length. lia. Qed.

  Lemma numbers_nth i : i < length G ->
    nth i (numbers classes) [] = numbers_of (length (fst (nth i G ([], [])))) i.
  Proof.
    intros Hi. unfold numbers. fold G.
    set (f := fun ic : nat * (list Z * list nat) => numbers_of (length (fst (snd ic))) (fst ic)).
    rewrite (nth_indep _ [] (f (0, ([], [])))) by (rewrite map_length, combine_length, seq_length; lia).
    rewrite map_nth. rewrite combine_nth by (rewrite seq_length; reflexivity).
    rewrite seq_nth by exact Hi. reflexivity.
  Qed.
End Groups.

(* ------------------------------------------------------------------ *)
(* _update_alignments *)
Section Update.
  Variable tokens : list (list Z).

  Definition written (l : line num) (out : emat) (j : nat) : Prop :=
    exists toks r, nth_error tokens j = Some toks /\ render toks l = Some r /\ nth_error out j = Some (Some r).

  Lemma update_group_spec l : forall js out out',
    update_group tokens l js out = Some out' ->
    length out' = length out /\
    (forall j, ~ In j js -> nth_error out' j = nth_error out j) /\
    (forall j, In j js -> written l out' j).
  Proof.
    induction js as [|j0 t IH]; intros out out' H; cbn [update_group] in H.
    - inversion H; subst. split; [reflexivity|]. split; [reflexivity|intros j []].
    - destruct (nth_error tokens j0) as [toks|] eqn:Et; [|discriminate].
      destruct (render toks l) as [r|] eqn:Er; [|discriminate].
      destruct (set_nth j0 (Some r) out) as [out1|] eqn:Es; [|discriminate].
      destruct (set_nth_spec _ _ _ _ Es) as [L1 [W1 F1]].
      destruct (IH out1 out' H) as [L2 [F2 W2]].
      split; [congruence|]. split.
      + intros j Hn. rewrite F2 by (intros Hin; apply Hn; right; exact Hin).
        apply F1. intros ->. apply Hn. left; reflexivity.
      + intros j Hj. destruct (in_dec Nat.eq_dec j t) as [Hin|Hnin]; [apply W2; exact Hin|].
        destruct Hj as [<-|Hj]; [|contradiction].
        exists toks, r. split; [exact Et|]. split; [exact Er|]. rewrite F2 by exact Hnin. exact W1.
  Qed.

  Variable i2e : list (list nat).
  Hypothesis disjoint : forall i1 i2 j, In j (nth i1 i2e []) -> In j (nth i2 i2e []) -> i1 = i2.

  Lemma update_rows_spec : forall m i out e,
    update_rows tokens i2e i m out = Some e ->
    length e = length out /\
    (forall j, (forall k, k < length m -> ~ In j (nth (i + k) i2e [])) -> nth_error e j = nth_error out j) /\
    (forall k j, k < length m -> In j (nth (i + k) i2e []) -> written (nth k m []) e j).
  Proof.
    induction m as [|l t IH]; intros i out e H; cbn [update_rows] in H.
    - inversion H; subst. split; [reflexivity|]. split; [reflexivity|]. intros k j Hk. cbn in Hk. lia.
    - destruct (nth_error i2e i) as [js|] eqn:Ej; [|discriminate].
      destruct (update_group tokens l js out) as [out1|] eqn:Eg; [|discriminate].
      destruct (update_group_spec _ _ _ _ Eg) as [L1 [F1 W1]].
      destruct (IH (S i) out1 e H) as [L2 [F2 W2]].
      assert (Ejs : nth i i2e [] = js) by (apply nth_error_nth; exact Ej).
      split; [congruence|]. split.
      + intros j Hn. rewrite F2.
        * apply F1. specialize (Hn 0). rewrite Nat.add_0_r, Ejs in Hn. apply Hn. cbn; lia.
        * intros k Hk. specialize (Hn (S k)). replace (S i + k) with (i + S k) by lia. apply Hn. cbn; lia.
      + intros k j Hk Hin. destruct k as [|k].
        * rewrite Nat.add_0_r, Ejs in Hin. cbn [nth].
          destruct (W1 j Hin) as [toks [r [Et [Er Eo]]]]. exists toks, r.
          split; [exact Et|]. split; [exact Er|]. rewrite F2; [exact Eo|].
          intros k' Hk' Hin'. assert (i = S i + k'); [|lia].
          eapply disjoint; [rewrite Ejs; exact Hin|exact Hin'].
        * cbn [nth]. apply W2; [cbn in Hk; lia|]. replace (S i + k) with (i + S k) by lia. exact Hin.
  Qed.
End Update.

Lemma all_written_rows (e : emat) :
  (forall j, j < length e -> exists r, nth_error e j = Some (Some r)) ->
  exists rows, e = map (@Some erow) rows.
Proof.
  induction e as [|o t IH]; intros H; [exists []; reflexivity|].
  destruct (H 0) as [r Hr]; [cbn; lia|]. cbn in Hr. inversion Hr; subst o.
  destruct IH as [rows ->].
  - intros j Hj. apply (H (S j)). cbn; lia.
  - exists (r :: rows). reflexivity.
Qed.

Lemma rows_nth_error (rows : list erow) j r :
  nth_error (map (@Some erow) rows) j = Some (Some r) -> nth j rows [] = r /\ j < length rows.
Proof.
  intros H. rewrite nth_error_map in H. destruct (nth_error rows j) as [r'|] eqn:E; [|discriminate].
  cbn [option_map] in H. inversion H; subst r'. split; [apply nth_error_nth; exact E|].
  apply nth_error_Some. congruence.
Qed.

Ltac norm := unfold imat, emat, mat, erow, line, cell in *.

(* update_inv *)
Theorem update_alignments_ok (cf : config) (m : imat) (e : emat) :
  config_ok cf ->
  aligned (numbers (cf_classes cf)) m ->
  update_alignments (cf_tokens cf) (int2ext (cf_classes cf)) m = Some e ->
  ext_ok cf e.
Proof.
  intros [CL CF] [Fm [L [Rm Gm]]] H. unfold imat, emat, mat, erow, line, cell in *.
  set (tokens := cf_tokens cf) in *. set (classes := cf_classes cf) in *.
  set (G := group_classes classes). set (i2e := int2ext classes) in *.
  assert (Ln : length tokens = length classes) by (eapply Forall2_len; exact CL).
  assert (Lm : length m = length G).
  { transitivity (length (numbers classes)); [eapply Forall2_len; exact Fm|apply numbers_length]. }
  unfold update_alignments in H.
  destruct (update_rows_spec tokens i2e (groups_disjoint classes) m 0 _ e H) as [Le [_ W]].
  rewrite repeat_length in Le. unfold imat, emat, mat, erow, line, cell in *.
  (* every input is written, from the row of its group *)
  assert (A : forall j, j < length tokens ->
            exists i r, i < length G /\ In j (nth i i2e []) /\
                        render (nth j tokens []) (nth i m []) = Some r /\ nth_error e j = Some (Some r)).
  { intros j Hj. destruct (groups_cover classes j) as [i [Hi Hin]]; [lia|].
    destruct (W i j) as [toks [r [Et [Er Eo]]]]; [rewrite Lm; exact Hi|exact Hin|].
    exists i, r. split; [exact Hi|]. split; [exact Hin|]. split; [|exact Eo].
    rewrite (nth_error_nth _ _ [] Et). exact Er. }
  destruct (all_written_rows e) as [rows ->].
  { intros j Hj. unfold imat, emat, mat, erow, line, cell in *.
    destruct (A j) as [i [r [_ [_ [_ Eo]]]]]; [lia|]. exists r. exact Eo. }
  rewrite map_length in Le. unfold imat, emat, mat, erow, line, cell in *.
  (* what row j looks like *)
  assert (B : forall j, j < length tokens ->
            exists i, i < length G /\ In j (nth i i2e []) /\
                      render (nth j tokens []) (nth i m []) = Some (nth j rows [])).
  { intros j Hj. destruct (A j Hj) as [i [r [Hi [Hin [Er Eo]]]]].
    apply rows_nth_error in Eo. destruct Eo as [<- _]. exists i. auto. }
  assert (Rin : forall i, i < length G -> In (nth i m []) m) by (intros i Hi; apply nth_In; rewrite Lm; exact Hi).
  exists rows. split; [reflexivity|]. split; [|split].
  - (* aligned tokens rows *)
    split.
    + apply (Forall2_nth_intro _ [] []); [exact Le|]. intros j Hj. rewrite Le in Hj.
      destruct (B j Hj) as [i [Hi [Hin Er]]].
      destruct (render_spec _ _ _ Er) as [_ FD].
      pose proof (Forall2_nth _ [] [] _ _ Fm i) as Di. cbn beta in Di.
      rewrite Di in FD by (rewrite Lm; exact Hi). rewrite numbers_nth in FD by exact Hi. unfold numbers_of in FD.
      pose proof (groups_key classes i j Hin) as Ek.
      apply degap_numbers in FD; [exact FD|]. cbn [plus].
      pose proof (Forall2_nth _ [] [] _ _ CL j Hj) as Lj. cbn beta in Lj. fold tokens classes in Lj.
      rewrite Lj. rewrite (nth_error_nth _ _ [] Ek). reflexivity.
    + exists L. split.
      * unfold rect. apply Forall_forall. intros r Hr.
        destruct (In_nth _ _ [] Hr) as [j [Hj <-]]. norm. rewrite Le in Hj.
        destruct (B j Hj) as [i [Hi [_ Er]]]. destruct (render_spec _ _ _ Er) as [GP _].
        transitivity (length (nth i m [])); [apply (gap_pattern_length _ _ GP)|].
        unfold rect in Rm. rewrite Forall_forall in Rm. apply Rm. apply Rin. exact Hi.
      * intros c Hc. destruct (Gm c Hc) as [l [Hl Hn]].
        destruct (In_nth _ _ [] Hl) as [i [Hi <-]]. norm. rewrite Lm in Hi.
        pose proof (groups_nonempty classes i Hi) as Hne. fold i2e in Hne.
        destruct (nth i i2e []) as [|j js] eqn:Ei; [congruence|].
        assert (Hin : In j (nth i i2e [])) by (rewrite Ei; left; reflexivity).
        pose proof (groups_members_lt classes i j Hin) as Hj. rewrite <- Ln in Hj.
        destruct (B j Hj) as [i' [Hi' [Hin' Er]]].
        assert (i' = i) by (eapply groups_disjoint; eassumption). subst i'.
        exists (nth j rows []). split; [apply nth_In; lia|].
        destruct (render_spec _ _ _ Er) as [GP _]. apply (gap_pattern_nth _ _ c GP). exact Hn.
  - (* identical inputs, identical rows *)
    intros j k Hj Hk E. norm. fold tokens classes in Hj, Hk, E.
    destruct (B j Hj) as [i1 [Hi1 [Hin1 Er1]]]. destruct (B k Hk) as [i2 [Hi2 [Hin2 Er2]]].
    assert (i1 = i2).
    { eapply groups_same_class; [exact Hin1|exact Hin2|].
      rewrite (nth_error_nth' classes [] (n:=j)), (nth_error_nth' classes [] (n:=k)) by lia.
      f_equal. apply CF; assumption. }
    subst i2. rewrite E in Er1. congruence.
  - (* equal class strings, equal gap patterns *)
    intros j k Hj Hk E. norm. fold tokens classes in Hj, Hk, E.
    destruct (B j Hj) as [i1 [Hi1 [Hin1 Er1]]]. destruct (B k Hk) as [i2 [Hi2 [Hin2 Er2]]].
    assert (i1 = i2).
    { eapply groups_same_class; [exact Hin1|exact Hin2|].
      rewrite (nth_error_nth' classes [] (n:=j)), (nth_error_nth' classes [] (n:=k)) by lia.
      f_equal. exact E. }
    subst i2. destruct (render_spec _ _ _ Er1) as [G1 _]. destruct (render_spec _ _ _ Er2) as [G2 _].
    congruence.
Qed.
