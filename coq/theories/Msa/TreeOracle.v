(* The guide-tree contract of the multiple-alignment theorems (C04, C11) is met by the models of
   the REAL tree builders: the tree matrices of _upgma and _neighbor (Cluster/Upgma.v,
   Cluster/Neighbor.v, tied to the code under C09) are valid merge orders, for every matrix. *)
From Coq Require Import QArith List Arith Bool Lia.
From LV Require Import Cluster.Nwk Cluster.Upgma Cluster.Neighbor Cluster.UpgmaProofs Cluster.NeighborProofs Msa.MsaSpec.
Import ListNotations.
Local Open Scope nat_scope.

Definition pairs_of (rows : list row) : list (nat * nat) := map (fun r => (fst (fst (fst r)), snd (fst (fst r)))) rows.

Lemma remove_comm (a b : nat) (l : list nat) :
  remove Nat.eq_dec a (remove Nat.eq_dec b l) = remove Nat.eq_dec b (remove Nat.eq_dec a l).
Proof.
  induction l as [|x t IH]; [reflexivity|]. cbn [remove].
  destruct (Nat.eq_dec b x) as [Eb|Nb]; destruct (Nat.eq_dec a x) as [Ea|Na]; cbn [remove];
    repeat match goal with |- context [Nat.eq_dec ?u ?v] => destruct (Nat.eq_dec u v) end;
    try congruence; rewrite IH; reflexivity.
Qed.

Lemma remove_length_in (a : nat) (l : list nat) : NoDup l -> In a l -> S (length (remove Nat.eq_dec a l)) = length l.
Proof.
  induction l as [|x t IH]; intros ND H; [destruct H|]. inversion ND as [|? ? Nx NDt]; subst. cbn [remove length].
  destruct (Nat.eq_dec a x) as [E|N].
  - subst. rewrite notin_remove by exact Nx. reflexivity.
  - destruct H as [H|H]; [congruence|]. cbn [length]. rewrite IH by assumption. reflexivity.
Qed.

Lemma remove_nodup (a : nat) (l : list nat) : NoDup l -> NoDup (remove Nat.eq_dec a l).
Proof.
  induction l as [|x t IH]; intros ND; [constructor|]. inversion ND as [|? ? Nx NDt]; subst. cbn [remove].
  destruct (Nat.eq_dec a x); [apply IH; exact NDt|]. constructor; [|apply IH; exact NDt].
  intros H. apply in_remove in H. tauto.
Qed.

Lemma merges_merge_order : forall rows live next,
  NoDup live -> (forall x, In x live -> x < next) -> merges live next rows ->
  length live = S (length rows) -> merge_order live next (pairs_of rows).
Proof.
  induction rows as [|[[[a b] c] e] rows IH]; intros live next ND LT M HL; cbn [pairs_of map merge_order].
  - cbn [length] in HL. exact HL.
  - inversion M as [|? ? ? ? ? ? ? Ha Hb Nab M']; subst. cbn [fst snd].
    split; [exact Ha|]. split; [exact Hb|]. split; [exact Nab|].
    rewrite remove_comm.
    assert (Hb' : In b (remove Nat.eq_dec a live)) by (apply in_in_remove; [congruence|exact Hb]).
    apply IH.
    + constructor; [|apply remove_nodup, remove_nodup; exact ND].
      intros H. apply in_remove in H. destruct H as [H _]. apply in_remove in H. destruct H as [H _].
      specialize (LT _ H). lia.
    + intros x [<-|H]; [lia|]. apply in_remove in H. destruct H as [H _]. apply in_remove in H. destruct H as [H _].
      specialize (LT _ H). lia.
    + exact M'.
    + cbn [length] in *.
      pose proof (remove_length_in a live ND Ha) as L1.
      pose proof (remove_length_in b (remove Nat.eq_dec a live) (remove_nodup a live ND) Hb') as L2. lia.
Qed.

Theorem valid_rows_merge_order (n : nat) (rows : list row) : 1 <= n ->
  valid_rows n rows -> valid_merge_order n (pairs_of rows).
Proof.
  intros Hn [HL M]. unfold valid_merge_order. apply merges_merge_order.
  - apply seq_NoDup.
  - intros x Hx. apply in_seq in Hx. lia.
  - exact M.
  - rewrite seq_length. lia.
Qed.

(* the guide trees the library computes *)
Theorem upgma_tree_valid_merge_order (d : nat -> nat -> Q) (n : nat) : 1 <= n ->
  valid_merge_order n (pairs_of (upgma_rows n d)).
Proof. intros H. apply valid_rows_merge_order; [exact H|apply upgma_valid_rows; exact H]. Qed.

Theorem nj_tree_valid_merge_order (m : mat) : 1 <= length m ->
  valid_merge_order (length m) (pairs_of (nj_rows m)).
Proof. intros H. apply valid_rows_merge_order; [exact H|apply nj_valid_rows; exact H]. Qed.
