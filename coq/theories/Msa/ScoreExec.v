(* Direct correspondence cases for the score functions: the implementation's
   calign.score_profile, talign.score_profile and Multiple.sum_of_pairs against Msa/Score.v.
   The implementation divides in floating point, so values are compared within 2^-30
   (inputs are on the dyadic grid: integer scores, dyadic gap weights; the model is exact). *)
From Coq Require Import List Arith Bool ZArith QArith Qabs.
From LV Require Import Common.Cases Msa.Profile Msa.Merge Msa.Score.
Import ListNotations.

(* scorer[numA, numB] = scoredict[token of numA, token of numB] *)
Definition tok_of (classes : list (list Z)) (c : num) : Z := nth (snd c) (nth (fst c) classes []) 0%Z.

Definition table_scorer (classes : list (list Z)) (tab : list ((Z * Z) * Q)) : num -> num -> Q :=
  fun a b =>
    match find (fun e => Z.eqb (fst (fst e)) (tok_of classes a) && Z.eqb (snd (fst e)) (tok_of classes b)) tab with
    | Some e => snd e
    | None => 0
    end.

Definition closeb (x y : Q) : bool := Qle_bool (Qabs (x - y)) (1 # 1073741824).

(* [None] on the implementation side = it raised ZeroDivisionError *)
Definition oclose (model impl : option Q) : bool :=
  match model, impl with
  | Some x, Some y => closeb x y
  | None, None => true
  | _, _ => false
  end.

Record sop_case := {
  so_classes : list (list Z);
  so_table : list ((Z * Z) * Q);
  so_gop : Q;
  (* sum_of_pairs('other', mat, gap_weight, gop) on an object with / without sonority profiles *)
  so_mats : list (bool * Q * mat num * option Q);
  (* gap weight, two columns, calign.score_profile, talign.score_profile *)
  so_cols : list (Q * line num * line num * option Q * option Q)
}.

Definition sop_case_code (c : sop_case) : nat :=
  let sc := table_scorer (so_classes c) (so_table c) in
  bit 6 (forallb (fun e => let '(sonars, gw, m, impl) := e in
                           oclose (sum_of_pairs sc sonars (so_gop c) gw m) impl) (so_mats c)
         && forallb (fun e => let '(gw, a, b, ci, ti) := e in
                              oclose (cscore_profile sc gw a b) ci
                              && oclose (tscore_profile sc (so_gop c) gw a b) ti) (so_cols c)).
