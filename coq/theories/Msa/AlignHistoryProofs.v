(* Proofs about Msa/AlignHistory.v: along any history of add_alignments / align calls over
   any number of cognate-id columns, every entry of the alignment column de-gaps to its
   word's segments, and right after align(ref) the column satisfies the Alignments clause
   of C04 for THAT ref (members of a multi-member set share one length, words outside such
   sets equal their segments).  The registry model coincides with the functional model
   [align_wordlist] of Alignments.v on the partition of the ref of the call. *)
From Coq Require Import List Arith Bool Lia ZArith Permutation.
From LV Require Import Common.Cases Align.DP Msa.Profile Msa.Merge Msa.Refine Msa.MsaSpec Msa.MsaExec
  Msa.ProfileProofs Msa.MergeProofs Msa.UpdateProofs Msa.MsaExecProofs Msa.Alignments Msa.AlignmentsProofs
  Msa.AlignHistory.
Import ListNotations.

(* ------------------------------------------------------------------ *)
Lemma mapM_spec {X Y} (f : X -> option Y) : forall l ys, mapM f l = Some ys -> Forall2 (fun x y => f x = Some y) l ys.
Proof.
  induction l as [|x t IH]; intros ys H; cbn [mapM] in H.
  - inversion H. constructor.
  - destruct (f x) as [y|] eqn:E; [|discriminate]. destruct (mapM f t) as [ys'|]; [|discriminate].
    inversion H; subst. constructor; [exact E|apply IH; reflexivity].
Qed.

Lemma Forall2_map_l {X Y Z} (R : Y -> Z -> Prop) (f : X -> Y) : forall l1 l2,
  Forall2 (fun x z => R (f x) z) l1 l2 <-> Forall2 R (map f l1) l2.
Proof.
  induction l1 as [|x t IH]; intros [|z t2]; cbn [map]; split; intros H; inversion H; subst; constructor; auto;
    apply IH; assumption.
Qed.

Lemma Forall2_in_r_local {X Y} (R : X -> Y -> Prop) : forall l1 l2, Forall2 R l1 l2 ->
  forall y, In y l2 -> exists x, In x l1 /\ R x y.
Proof.
  induction 1 as [|x y0 t1 t2 Hxy F IH]; intros y Hy; [destruct Hy|].
  destruct Hy as [<-|Hy]; [exists x; split; [left; reflexivity|exact Hxy]|].
  destruct (IH y Hy) as [x' [Hx' Rx']]. exists x'. split; [right; exact Hx'|exact Rx'].
Qed.

Lemma Forall2_map_same {X Y Z} (R : Y -> Z -> Prop) (f : X -> Y) (g : X -> Z) : forall l,
  (forall x, In x l -> R (f x) (g x)) -> Forall2 R (map f l) (map g l).
Proof.
  induction l as [|x t IH]; intros H; cbn [map]; constructor.
  - apply H. left; reflexivity.
  - apply IH. intros y Hy. apply H. right; exact Hy.
Qed.

Lemma Forall2_flip_map {X Y} (R : Y -> X -> Prop) (f : X -> Y) : forall l,
  (forall x, In x l -> R (f x) x) -> Forall2 R (map f l) l.
Proof.
  induction l as [|x t IH]; intros H; cbn [map]; constructor.
  - apply H. left; reflexivity.
  - apply IH. intros y Hy. apply H. right; exact Hy.
Qed.

Lemma lookup_row_none : forall ids rows id, ~ In id ids -> lookup_row ids rows id = None.
Proof.
  induction ids as [|i t IH]; intros [|r rs] id H; cbn [lookup_row]; try reflexivity.
  rewrite IH by (intros Hin; apply H; right; exact Hin).
  destruct (i =? id) eqn:E; [|reflexivity]. apply Nat.eqb_eq in E. exfalso. apply H. left. exact E.
Qed.

Lemma lookup_row_in : forall ids rows id r, lookup_row ids rows id = Some r -> In id ids.
Proof.
  intros ids rows id r H. destruct (lookup_row_spec _ _ _ _ H) as [k [Hk _]]. eapply nth_error_In. exact Hk.
Qed.

Lemma lookup_row_some : forall ids rows id, rows_complete ids rows = true -> In id ids ->
  exists r, lookup_row ids rows id = Some r.
Proof.
  induction ids as [|i t IH]; intros rows id C Hin; [destruct Hin|].
  destruct rows as [|r rs]; cbn [rows_complete] in C; [discriminate|].
  cbn [lookup_row]. destruct (lookup_row t rs id) as [r'|] eqn:E; [eauto|].
  destruct Hin as [->|Hin].
  - rewrite Nat.eqb_refl. eauto.
  - destruct (IH rs id C Hin) as [r' E']. congruence.
Qed.

Lemma lookup_sets_some : forall sets id r, lookup_sets sets id = Some r ->
  exists s, In s sets /\ lookup_row (as_ids s) (as_alm s) id = Some r.
Proof.
  induction sets as [|s t IH]; intros id r H; cbn [lookup_sets] in H; [discriminate|].
  destruct (lookup_sets t id) as [r'|] eqn:E.
  - inversion H; subst. destruct (IH id r E) as [s2 [H1 H2]]. exists s2. split; [right; exact H1|exact H2].
  - exists s. split; [left; reflexivity|exact H].
Qed.

Lemma lookup_sets_none : forall sets id, lookup_sets sets id = None ->
  forall s, In s sets -> lookup_row (as_ids s) (as_alm s) id = None.
Proof.
  induction sets as [|s0 t IH]; intros id H s Hin; [destruct Hin|]. cbn [lookup_sets] in H.
  destruct (lookup_sets t id) as [r'|] eqn:E; [discriminate|].
  destruct Hin as [<-|Hin]; [exact H|apply IH; assumption].
Qed.

Lemma lookup_sets_unique : forall sets s id r,
  In s sets -> (forall s2, In s2 sets -> s2 = s \/ lookup_row (as_ids s2) (as_alm s2) id = None) ->
  lookup_row (as_ids s) (as_alm s) id = Some r -> lookup_sets sets id = Some r.
Proof.
  intros sets s id r Hin Hu Hr. destruct (lookup_sets sets id) as [r'|] eqn:E.
  - destruct (lookup_sets_some _ _ _ E) as [s2 [H2 L2]]. destruct (Hu s2 H2) as [->|N]; congruence.
  - pose proof (lookup_sets_none _ _ E s Hin). congruence.
Qed.

(* ------------------------------------------------------------------ *)
(* invariants *)
Definition mwords_ok (ws : list mword) : Prop := NoDup (map mw_id ws).

Definition col_inv (ws : list mword) (col : list (nat * erow)) : Prop :=
  Forall2 (fun w p => fst p = mw_id w /\ degap (snd p) = mw_segs w) ws col.

Definition set_inv (wl : wordlist) (s : aset) : Prop :=
  multi wl (as_key s) = true /\
  as_ids s = map w_id (set_of wl (as_key s)) /\
  as_seqs s = map w_segs (set_of wl (as_key s)).

Definition sets_inv (wl : wordlist) (sets : list aset) : Prop :=
  Forall (set_inv wl) sets /\ NoDup (map as_key sets) /\
  forall key, multi wl key = true -> In key (map as_key sets).

Definition ainv (ws : list mword) (st : astate) : Prop :=
  col_inv ws (a_col st) /\
  forall r sets, reg_get (a_reg st) r = Some sets -> sets_inv (view r ws) sets.

Lemma view_ids r ws : map w_id (view r ws) = map mw_id ws.
Proof. unfold view. rewrite map_map. reflexivity. Qed.

Lemma view_ok r ws : mwords_ok ws -> wordlist_ok (view r ws).
Proof. unfold mwords_ok, wordlist_ok. rewrite view_ids. auto. Qed.

Lemma losslessb_spec ws col : losslessb ws col = true <-> col_inv ws col.
Proof.
  unfold losslessb, col_inv. rewrite forall2b_spec. apply Forall2_iff. intros w p.
  rewrite andb_true_iff, Nat.eqb_eq, zlist_eqb_spec. tauto.
Qed.

Lemma lookup_col_inv ws : mwords_ok ws -> forall col, col_inv ws col ->
  forall w r, In w ws -> lookup_col col (mw_id w) = Some r -> degap r = mw_segs w.
Proof.
  intros ND col F. induction F as [|w0 [i r0] ws' col' [Hi Hd] F IH]; intros w r Hin H; [destruct Hin|].
  cbn [fst snd] in Hi, Hd. cbn [lookup_col] in H. destruct (i =? mw_id w) eqn:E.
  - apply Nat.eqb_eq in E. inversion H; subst r0.
    assert (w0 = w).
    { eapply (nodup_map_inj mw_id (w0 :: ws')); [exact ND|left; reflexivity|exact Hin|congruence]. }
    subst. exact Hd.
  - destruct Hin as [->|Hin]; [apply Nat.eqb_neq in E; congruence|].
    apply IH; [|exact Hin|exact H]. unfold mwords_ok in *. cbn [map] in ND. inversion ND; assumption.
Qed.

Lemma in_view r ws W : In W (view r ws) ->
  exists w, In w ws /\ w_id W = mw_id w /\ w_segs W = mw_segs w.
Proof.
  unfold view. intros H. apply in_map_iff in H. destruct H as [w [<- Hw]]. exists w. auto.
Qed.

(* registration *)
Lemma make_set_inv r ws col key s :
  mwords_ok ws -> col_inv ws col -> multi (view r ws) key = true ->
  make_set (view r ws) col key = Some s -> as_key s = key /\ set_inv (view r ws) s.
Proof.
  intros ND CI M H. unfold make_set in H.
  destruct (mapM _ (set_of (view r ws) key)) as [rows|] eqn:EM; [|discriminate].
  inversion H; subst s; clear H. cbn [as_key as_ids as_seqs]. split; [reflexivity|].
  split; [exact M|]. split; [reflexivity|]. cbn [as_key as_seqs].
  apply mapM_spec in EM.
  assert (Sub : forall W, In W (set_of (view r ws) key) -> In W (view r ws)) by (intros W HW; apply set_of_in in HW; tauto).
  revert Sub. induction EM as [|W row members rows' HW EM IH]; intros Sub; [reflexivity|].
  cbn [map]. f_equal; [|apply IH; intros W' HW'; apply Sub; right; exact HW'].
  destruct (in_view r ws W (Sub W (or_introl eq_refl))) as [w [Hw [Ei Es]]].
  rewrite Es. rewrite Ei in HW. eapply lookup_col_inv; eassumption.
Qed.

Lemma multi_key_in wl key : multi wl key = true -> In key (map w_cog wl).
Proof.
  unfold multi. intros H. apply andb_true_iff in H. destruct H as [_ H]. apply Nat.ltb_lt in H.
  destruct (set_of wl key) as [|W t] eqn:E; [cbn in H; lia|].
  assert (HW : In W (set_of wl key)) by (rewrite E; left; reflexivity).
  apply set_of_in in HW. destruct HW as [HW <-]. apply in_map. exact HW.
Qed.

Lemma register_inv r ws col sets :
  mwords_ok ws -> col_inv ws col -> register (view r ws) col = Some sets -> sets_inv (view r ws) sets.
Proof.
  intros ND CI H. unfold register in H. apply mapM_spec in H.
  set (wl := view r ws) in *. set (keys := filter (multi wl) (cog_keys wl)) in *.
  assert (K : map as_key sets = keys /\ Forall (set_inv wl) sets).
  { assert (Hk : forall k, In k keys -> multi wl k = true) by (intros k Hk; apply filter_In in Hk; tauto).
    revert Hk. induction H as [|k s ks ss Hs F IH]; intros Hk; [split; constructor|].
    destruct (make_set_inv r ws col k s ND CI (Hk k (or_introl eq_refl)) Hs) as [Ek SI].
    destruct IH as [IH1 IH2]; [intros k' Hk'; apply Hk; right; exact Hk'|].
    split; [cbn [map]; congruence|constructor; assumption]. }
  destruct K as [K1 K2]. split; [exact K2|]. rewrite K1. split.
  - unfold keys. apply NoDup_filter. apply NoDup_nodup.
  - intros key M. unfold keys. apply filter_In. split; [|exact M]. apply nodup_In. apply multi_key_in. exact M.
Qed.

Lemma reg_get_set reg r s r' : reg_get (reg_set reg r s) r' = if r =? r' then Some s else reg_get reg r'.
Proof.
  induction reg as [|[r0 s0] t IH]; cbn [reg_set reg_get].
  - reflexivity.
  - destruct (r0 =? r) eqn:E; cbn [reg_get].
    + apply Nat.eqb_eq in E. subst r0. destruct (r =? r'); reflexivity.
    + destruct (r0 =? r') eqn:E'; [|exact IH]. apply Nat.eqb_eq in E'. subst r0.
      rewrite Nat.eqb_sym in E. rewrite E. reflexivity.
Qed.

(* ------------------------------------------------------------------ *)
(* align(ref): the registry model coincides with the functional model on the ref's partition *)
Section AlignStep.
  Variable MSA : list (list Z) -> option (list erow).
  Variable wl : wordlist.
  Hypothesis wl_ok : wordlist_ok wl.
  Variable sets : list aset.
  Hypothesis SI : sets_inv wl sets.
  Hypothesis fresh : forall s, In s sets ->
    MSA (as_seqs s) = Some (as_alm s) /\ rows_complete (as_ids s) (as_alm s) = true.

  Lemma id_in_set s W : In s sets -> In W wl -> In (w_id W) (as_ids s) -> w_cog W = as_key s.
  Proof.
    intros Hs HW Hid. destruct SI as [F _]. rewrite Forall_forall in F. destruct (F s Hs) as [_ [Ei _]].
    rewrite Ei in Hid. apply in_map_iff in Hid. destruct Hid as [W' [Eid HW']].
    apply set_of_in in HW'. destruct HW' as [HW' Ec].
    assert (W' = W) by (eapply (nodup_map_inj w_id wl); eassumption). subst. exact Ec.
  Qed.

  Lemma stored_registry W : In W wl ->
    stored MSA wl W = Some (match lookup_sets sets (w_id W) with
                            | Some r => r
                            | None => map (@Some Z) (w_segs W)
                            end).
  Proof.
    intros HW. unfold stored. destruct SI as [F [NDk Cov]]. rewrite Forall_forall in F.
    destruct (multi wl (w_cog W)) eqn:EM.
    - apply Cov in EM. apply in_map_iff in EM. destruct EM as [s [Ek Hs]].
      destruct (F s Hs) as [_ [Ei Es]]. destruct (fresh s Hs) as [EA RC].
      rewrite <- Ek. rewrite <- Es, EA, <- Ei, RC.
      assert (Hid : In (w_id W) (as_ids s)).
      { rewrite Ei. apply in_map. apply set_of_in. split; [exact HW|congruence]. }
      destruct (lookup_row_some _ _ _ RC Hid) as [r Er]. rewrite Er.
      rewrite (lookup_sets_unique sets s (w_id W) r Hs); [reflexivity| |exact Er].
      intros s2 H2. destruct (lookup_row (as_ids s2) (as_alm s2) (w_id W)) as [r2|] eqn:E2; [left|right; reflexivity].
      apply lookup_row_in in E2. pose proof (id_in_set s2 W H2 HW E2) as K2.
      eapply (nodup_map_inj as_key sets); [exact NDk|exact H2|exact Hs|congruence].
    - destruct (lookup_sets sets (w_id W)) as [r|] eqn:EL; [|reflexivity].
      destruct (lookup_sets_some _ _ _ EL) as [s [Hs Er]]. apply lookup_row_in in Er.
      pose proof (id_in_set s W Hs HW Er) as K. destruct (F s Hs) as [M _]. congruence.
  Qed.
End AlignStep.

Lemma realign_sets_spec MSA : forall sets sets', mapM (realign_set MSA) sets = Some sets' ->
  map as_key sets' = map as_key sets /\
  Forall2 (fun s s' => as_key s' = as_key s /\ as_ids s' = as_ids s /\ as_seqs s' = as_seqs s /\
                       MSA (as_seqs s') = Some (as_alm s')) sets sets'.
Proof.
  intros sets sets' H. apply mapM_spec in H.
  induction H as [|s s' t t' Hs F [IH1 IH2]]; [split; constructor|].
  unfold realign_set in Hs. destruct (MSA (as_seqs s)) as [rows|] eqn:E; [|discriminate].
  inversion Hs; subst s'. cbn [map as_key]. split; [f_equal; exact IH1|].
  constructor; [cbn; auto|exact IH2].
Qed.

Lemma store_all_intro MSA wl : forall ws col,
  Forall2 (fun W p => fst p = w_id W /\ stored MSA wl W = Some (snd p)) ws col -> store_all MSA wl ws = Some col.
Proof.
  induction 1 as [|W [i r] ws col [Hi Hs] F IH]; [reflexivity|].
  cbn [store_all]. cbn [fst snd] in Hi, Hs. rewrite Hs, IH. subst i. reflexivity.
Qed.

(* ------------------------------------------------------------------ *)
Definition acall_ok (c : acall) : Prop :=
  match c with
  | AddAlignments _ _ => True
  | Align _ MSA => msa_contract MSA
  end.

(* one step: the invariant is kept, and after align(r) the Alignments clause holds for ref r *)
Theorem alm_step_inv (ws : list mword) (c : acall) (st st' : astate) :
  mwords_ok ws -> acall_ok c -> ainv ws st -> alm_step ws c st = Some st' ->
  ainv ws st' /\
  match c with
  | Align r _ => column_ok (view r ws) (a_col st')
  | AddAlignments _ _ => a_col st' = a_col st
  end.
Proof.
  intros ND CO [CI RI] H. destruct c as [r o|r MSA]; cbn [alm_step] in H.
  - (* add_alignments *)
    destruct (match reg_get (a_reg st) r with Some (_ :: _) => o | _ => true end).
    + destruct (register (view r ws) (a_col st)) as [sets|] eqn:ER; [|discriminate].
      inversion H; subst st'; clear H. unfold ainv. cbn [a_col a_reg]. split; [|reflexivity]. split; [exact CI|].
      intros r' sets' HG. rewrite reg_get_set in HG. destruct (r =? r') eqn:E.
      * apply Nat.eqb_eq in E. subst r'. inversion HG; subst sets'. eapply register_inv; eassumption.
      * apply RI. exact HG.
    + inversion H; subst st'. split; [split; assumption|reflexivity].
  - (* align *)
    cbn [acall_ok] in CO.
    destruct (reg_get (a_reg st) r) as [sets|] eqn:EG; [|discriminate].
    destruct (mapM (realign_set MSA) sets) as [sets'|] eqn:EM; [|discriminate].
    destruct (forallb _ sets') eqn:EC; [|discriminate]. inversion H; subst st'; clear H. unfold ainv. cbn [a_col a_reg].
    destruct (realign_sets_spec MSA sets sets' EM) as [EK F2].
    pose proof (RI r sets EG) as [SF [SN SC]].
    assert (SI' : sets_inv (view r ws) sets').
    { split; [|split; rewrite EK; assumption].
      rewrite Forall_forall in SF. apply Forall_forall. intros s' Hs'.
      destruct (Forall2_in_r_local _ _ _ F2 s' Hs') as [s [Hs [E1 [E2 [E3 _]]]]].
      destruct (SF s Hs) as [M [Ei Es]]. unfold set_inv. rewrite E1, E2, E3. auto. }
    assert (FR : forall s', In s' sets' ->
              MSA (as_seqs s') = Some (as_alm s') /\ rows_complete (as_ids s') (as_alm s') = true).
    { intros s' Hs'. rewrite forallb_forall in EC. split; [|apply EC; exact Hs'].
      destruct (Forall2_in_r_local _ _ _ F2 s' Hs') as [s [_ [_ [_ [_ E4]]]]]. exact E4. }
    assert (AW : align_wordlist MSA (view r ws) = Some (new_column ws sets')).
    { unfold align_wordlist. apply store_all_intro. unfold new_column. unfold view at 2.
      apply Forall2_map_same. intros w Hw. cbn [fst snd w_id]. split; [reflexivity|].
      rewrite (stored_registry MSA (view r ws) (view_ok r ws ND) sets' SI' FR); [reflexivity|].
      unfold view. apply in_map_iff. exists w. split; [reflexivity|exact Hw]. }
    pose proof (align_wordlist_ok MSA (view r ws) _ CO (view_ok r ws ND) AW) as COK.
    split; [|exact COK]. split.
    + destruct COK as [F _]. unfold col_inv. unfold view in F. apply Forall2_map_l in F.
      eapply Forall2_imp; [|exact F]. cbn. intros w p [H1 [H2 _]]. auto.
    + intros r' s'' HG. rewrite reg_get_set in HG. destruct (r =? r') eqn:E.
      * apply Nat.eqb_eq in E. subst r'. inversion HG; subst s''. exact SI'.
      * apply RI. exact HG.
Qed.

(* along any history *)
Theorem alm_history_inv (ws : list mword) : mwords_ok ws ->
  forall cs st st', Forall acall_ok cs -> ainv ws st -> alm_history ws cs st = Some st' -> ainv ws st'.
Proof.
  intros ND. induction cs as [|c t IH]; intros st st' F I H; cbn [alm_history] in H.
  - inversion H; subst. exact I.
  - inversion F; subst. destruct (alm_step ws c st) as [st1|] eqn:E; [|discriminate].
    eapply IH; [assumption| |exact H]. eapply alm_step_inv; eassumption.
Qed.

(* the object right after the constructor: a column that de-gaps to the segments, nothing registered *)
Lemma initial_ainv ws col : col_inv ws col -> ainv ws {| a_col := col; a_reg := [] |}.
Proof. intros H. split; [exact H|]. intros r sets HG. discriminate. Qed.

(* the Alignments clause with several cognate columns: after ANY history that ends with
   align(ref = r), the column satisfies the clause for the partition of column r *)
Theorem alm_history_column_ok (ws : list mword) (col0 : list (nat * erow)) (cs : list acall) (r : nat)
        (MSA : list (list Z) -> option (list erow)) (st : astate) :
  mwords_ok ws -> col_inv ws col0 -> Forall acall_ok cs -> msa_contract MSA ->
  alm_history ws (cs ++ [Align r MSA]) {| a_col := col0; a_reg := [] |} = Some st ->
  column_ok (view r ws) (a_col st) /\ col_inv ws (a_col st).
Proof.
  intros ND C0 F M H.
  assert (G : forall cs st0, Forall acall_ok cs -> ainv ws st0 ->
              alm_history ws (cs ++ [Align r MSA]) st0 = Some st ->
              column_ok (view r ws) (a_col st) /\ col_inv ws (a_col st)).
  { clear cs F H. induction cs as [|c t IH]; intros st0 F I H.
    - cbn [app alm_history] in H. destruct (alm_step ws (Align r MSA) st0) as [st1|] eqn:E; [|discriminate].
      inversion H; subst st1. destruct (alm_step_inv ws (Align r MSA) st0 st ND M I E) as [[CI _] COK]. auto.
    - cbn [app alm_history] in H. inversion F; subst.
      destruct (alm_step ws c st0) as [st1|] eqn:E; [|discriminate].
      eapply IH; [assumption| |exact H]. eapply alm_step_inv; eassumption. }
  eapply G; [exact F|apply initial_ainv; exact C0|exact H].
Qed.

(* ------------------------------------------------------------------ *)
(* a per-set aligner that meets the contract for every input (pads on the right), for the
   non-vacuity examples *)
Definition pad_msa (seqs : list (list Z)) : option (list erow) :=
  let L := list_max (map (@length Z) seqs) in
  Some (map (fun s => map (@Some Z) s ++ repeat None (L - length s)) seqs).

Lemma pad_msa_contract : msa_contract pad_msa.
Proof.
  intros seqs rows H. unfold pad_msa in H. inversion H; subst rows; clear H.
  set (L := list_max (map (@length Z) seqs)). split.
  - apply Forall2_flip_map. intros s _. rewrite degap_app_local, degap_map_some_z.
    assert (E : forall n, degap (repeat (@None Z) n) = []) by (induction n; cbn; auto).
    rewrite E, app_nil_r. reflexivity.
  - exists L. apply Forall_forall. intros r Hr. apply in_map_iff in Hr. destruct Hr as [s [<- Hs]].
    rewrite app_length, map_length, repeat_length.
    assert (length s <= L).
    { unfold L. pose proof (list_max_le (map (@length Z) seqs) (list_max (map (@length Z) seqs))) as [HL _].
      specialize (HL (le_n _)). rewrite Forall_forall in HL. apply HL. apply in_map. exact Hs. }
    lia.
Qed.
