(* Proofs about Msa/AlignFuzzy.v: in fuzzy (partial-cognate) mode, splitting every stored
   alignment at the morpheme separator gives one row per morpheme, and these rows satisfy the
   Alignments clause of C04 on the wordlist of morphemes: each row de-gaps to its morpheme, the
   rows of one multi-member set share one length, morphemes outside such sets are unchanged. *)
From Coq Require Import List Arith Bool Lia ZArith Permutation.
From LV Require Import Common.Cases Align.DP Msa.Profile Msa.Merge Msa.Refine Msa.MsaSpec Msa.MsaExec
  Msa.ProfileProofs Msa.MergeProofs Msa.UpdateProofs Msa.MsaExecProofs Msa.Alignments Msa.AlignmentsProofs
  Msa.AlignHistory Msa.AlignHistoryProofs Msa.AlignFuzzy.
Import ListNotations.

Definition fuzzy_ok (ws : list fword) (col : list (nat * erow)) : Prop :=
  exists pcol, ungroup ws col = Some pcol /\ column_ok (explode ws) pcol.

Theorem fuzzy_okb_spec ws col : fuzzy_okb ws col = true <-> fuzzy_ok ws col.
Proof.
  unfold fuzzy_okb, fuzzy_ok. destruct (ungroup ws col) as [pcol|].
  - rewrite alignments_okb_spec. split; [intros H; exists pcol; auto|intros [p [E H]]; inversion E; subst; exact H].
  - split; [discriminate|intros [p [E _]]; discriminate].
Qed.

(* ------------------------------------------------------------------ *)
Lemma mapM_map_some {X Y} (f : X -> option Y) (g : X -> Y) : forall l,
  (forall x, In x l -> f x = Some (g x)) -> mapM f l = Some (map g l).
Proof.
  induction l as [|x t IH]; intros H; [reflexivity|]. cbn [mapM map].
  rewrite (H x (or_introl eq_refl)), IH; [reflexivity|]. intros y Hy. apply H. right; exact Hy.
Qed.

Lemma lookup_col_in : forall col k r, NoDup (map fst col) -> In (k, r) col -> lookup_col col k = Some r.
Proof.
  induction col as [|[i r0] t IH]; intros k r ND Hin; [destruct Hin|].
  cbn [map fst] in ND. inversion ND as [|? ? Hn ND']; subst. cbn [lookup_col].
  destruct Hin as [E|Hin].
  - inversion E; subst. rewrite Nat.eqb_refl. reflexivity.
  - destruct (i =? k) eqn:Ei; [|apply IH; assumption].
    apply Nat.eqb_eq in Ei. subst i. exfalso. apply Hn. apply in_map_iff. exists (k, r). auto.
Qed.

Definition no_sep (r : erow) : Prop := forall z, In (Some z) r -> z <> sepZ.

Lemma split_app : forall r, no_sep r -> forall cur t, split_sep (r ++ t) cur = split_sep t (rev r ++ cur).
Proof.
  induction r as [|c r' IH]; intros NS cur t; [reflexivity|].
  assert (NS' : no_sep r') by (intros z Hz; apply NS; right; exact Hz).
  cbn [app split_sep rev]. rewrite <- app_assoc. cbn [app]. destruct c as [z|].
  - destruct (Z.eqb z sepZ) eqn:E; [apply Z.eqb_eq in E; exfalso; apply (NS z); [left; reflexivity|exact E]|].
    apply IH. exact NS'.
  - apply IH. exact NS'.
Qed.

Lemma split_one r : no_sep r -> split_sep r [] = [r].
Proof.
  intros NS. rewrite <- (app_nil_r r) at 1. rewrite (split_app r NS). cbn [split_sep].
  rewrite app_nil_r, rev_involutive. reflexivity.
Qed.

Lemma split_join : forall rows, rows <> [] -> Forall no_sep rows -> split_sep (join_sep rows) [] = rows.
Proof.
  induction rows as [|r t IH]; intros N F; [congruence|]. inversion F as [|? ? NS F']; subst.
  destruct t as [|r2 t'].
  - cbn [join_sep]. apply split_one. exact NS.
  - change (join_sep (r :: r2 :: t')) with (r ++ Some sepZ :: join_sep (r2 :: t')).
    rewrite (split_app r NS). cbn [split_sep]. rewrite (proj2 (Z.eqb_eq sepZ sepZ) eq_refl).
    rewrite app_nil_r, rev_involutive. f_equal. apply IH; [discriminate|exact F'].
Qed.

Lemma in_degap_z (z : Z) : forall l : erow, In (Some z) l -> In z (degap l).
Proof.
  induction l as [|[y|] t IH]; intros H; [destruct H| |]; cbn [degap].
  - destruct H as [E|H]; [inversion E; left; reflexivity|right; apply IH; exact H].
  - destruct H as [E|H]; [discriminate|apply IH; exact H].
Qed.

(* ------------------------------------------------------------------ *)
Definition fword_ok (w : fword) : Prop :=
  length (fw_cogs w) = length (fw_morphs w) /\ fw_morphs w <> [] /\ length (fw_morphs w) <= 64 /\
  Forall (fun m => ~ In sepZ m) (fw_morphs w).

Lemma fword_okb_ok w : fword_okb w = true -> fword_ok w.
Proof.
  unfold fword_okb. rewrite !andb_true_iff. intros [[[[H1 H2] H3] _] H5].
  apply Nat.eqb_eq in H1. apply Nat.leb_le in H2. apply negb_true_iff, Nat.eqb_neq in H3.
  split; [exact H1|]. split; [destruct (fw_morphs w); [cbn in H3; congruence|discriminate]|]. split; [exact H2|].
  apply Forall_forall. intros m Hm Hin. rewrite forallb_forall in H5. specialize (H5 m Hm).
  apply negb_true_iff in H5. assert (E : existsb (Z.eqb sepZ) m = true); [|congruence].
  apply existsb_exists. exists sepZ. split; [exact Hin|apply Z.eqb_refl].
Qed.

Lemma explode_word_ids w : length (fw_cogs w) = length (fw_morphs w) ->
  map w_id (explode_word w) = map (piece_id (fw_id w)) (seq 0 (length (fw_morphs w))) /\
  map w_segs (explode_word w) = fw_morphs w.
Proof.
  intros L. unfold explode_word. rewrite !map_map. cbn [w_id w_segs].
  set (n := length (fw_morphs w)).
  assert (Lc : length (combine (fw_cogs w) (fw_morphs w)) = n) by (rewrite combine_length; unfold n; lia).
  split.
  - rewrite <- (map_map fst (piece_id (fw_id w))). f_equal. apply map_fst_combine. rewrite seq_length. lia.
  - rewrite <- (map_map snd (fun cm => snd cm)). rewrite map_snd_combine by (rewrite seq_length; lia).
    apply map_snd_combine. exact L.
Qed.

Lemma NoDup_app_local {X} : forall l1 l2 : list X,
  NoDup l1 -> NoDup l2 -> (forall x, In x l1 -> In x l2 -> False) -> NoDup (l1 ++ l2).
Proof.
  induction l1 as [|x t IH]; intros l2 N1 N2 D; [exact N2|]. inversion N1 as [|? ? Hx Nt]; subst. cbn [app]. constructor.
  - intros Hin. apply in_app_or in Hin. destruct Hin as [Hin|Hin]; [contradiction|]. apply (D x); [left; reflexivity|exact Hin].
  - apply IH; [assumption|assumption|]. intros y Hy1 Hy2. apply (D y); [right; exact Hy1|exact Hy2].
Qed.

Lemma nodup_map_in {X Y} (f : X -> Y) : forall l,
  (forall x y, In x l -> In y l -> f x = f y -> x = y) -> NoDup l -> NoDup (map f l).
Proof.
  induction l as [|x t IH]; intros Inj ND; [constructor|]. inversion ND as [|? ? Hx Nt]; subst. cbn [map]. constructor.
  - intros Hin. apply in_map_iff in Hin. destruct Hin as [y [E Hy]].
    assert (y = x) by (apply Inj; [right; exact Hy|left; reflexivity|exact E]). subst. contradiction.
  - apply IH; [|assumption]. intros a b Ha Hb. apply Inj; right; assumption.
Qed.

(* piece ids are distinct *)
Lemma piece_id_inj a i b j : i < 64 -> j < 64 -> piece_id a i = piece_id b j -> a = b /\ i = j.
Proof. unfold piece_id. intros. lia. Qed.

Lemma explode_nodup : forall ws, NoDup (map fw_id ws) -> Forall fword_ok ws -> NoDup (map w_id (explode ws)).
Proof.
  induction ws as [|w t IH]; intros ND F; [constructor|].
  cbn [map] in ND. inversion ND as [|? ? Hn ND']; subst. inversion F as [|? ? [L [_ [L64 _]]] F']; subst.
  unfold explode. cbn [flat_map]. rewrite map_app. destruct (explode_word_ids w L) as [E _]. rewrite E.
  apply NoDup_app_local.
  - apply nodup_map_in; [|apply seq_NoDup].
    intros i j Hi Hj Ep. apply in_seq in Hi, Hj. apply piece_id_inj in Ep; [tauto|lia|lia].
  - apply IH; assumption.
  - intros k H1 H2. apply in_map_iff in H1. destruct H1 as [i [<- Hi]]. apply in_seq in Hi.
    change (flat_map explode_word t) with (explode t) in H2.
    apply in_map_iff in H2. destruct H2 as [W [EW HW]]. unfold explode in HW. apply in_flat_map in HW.
    destruct HW as [w2 [Hw2 HW]].
    rewrite Forall_forall in F'. destruct (F' w2 Hw2) as [L2 [_ [L642 _]]].
    assert (Hid : In (w_id W) (map w_id (explode_word w2))) by (apply in_map; exact HW).
    destruct (explode_word_ids w2 L2) as [E2 _]. rewrite E2 in Hid. apply in_map_iff in Hid.
    destruct Hid as [j [Ej Hj]]. apply in_seq in Hj. rewrite <- Ej in EW. apply piece_id_inj in EW; [|lia|lia].
    destruct EW as [Eid _]. apply Hn. rewrite <- Eid. apply in_map. exact Hw2.
Qed.

(* ------------------------------------------------------------------ *)
(* regrouping the morpheme rows of a word and splitting them again is the identity *)
Definition Pp (W : word) (p : nat * erow) : Prop := fst p = w_id W /\ degap (snd p) = w_segs W.

Lemma Forall2_Pp_maps : forall Ws pc, Forall2 Pp Ws pc ->
  map fst pc = map w_id Ws /\ Forall2 (fun p m => degap (snd p) = m) pc (map w_segs Ws).
Proof.
  induction 1 as [|W p Ws pc [H1 H2] F [IH1 IH2]]; [split; constructor|].
  cbn [map]. split; [f_equal; assumption|constructor; assumption].
Qed.

Lemma lookup_chunk (full : list (nat * erow)) (pid : nat -> nat) : NoDup (map fst full) ->
  forall chunk idxs, map fst chunk = map pid idxs -> (forall e, In e chunk -> In e full) ->
  mapM (fun i => lookup_col full (pid i)) idxs = Some (map snd chunk).
Proof.
  intros ND. induction chunk as [|[k r] t IH]; intros [|i is'] E Sub; try discriminate; [reflexivity|].
  cbn [map fst] in E. inversion E as [[Ek Et]]. cbn [mapM map snd].
  rewrite <- Ek. rewrite (lookup_col_in full k r ND (Sub _ (or_introl eq_refl))).
  rewrite (IH is' Et); [reflexivity|]. intros e He. apply Sub. right; exact He.
Qed.

Lemma rebuild_chunk (pid : nat -> nat) : forall chunk s,
  map fst chunk = map pid (seq s (length chunk)) ->
  map (fun ir : nat * erow => (pid (fst ir), snd ir)) (combine (seq s (length (map snd chunk))) (map snd chunk)) = chunk.
Proof.
  induction chunk as [|[k r] t IH]; intros s E; [reflexivity|].
  cbn [length map snd seq combine fst] in *. inversion E as [[Ek Et]]. f_equal.
  rewrite <- (map_length snd t) in Et. rewrite map_length in Et. apply IH. exact Et.
Qed.

Lemma rows_no_sep : forall (chunk : list (nat * erow)) (ms : list (list Z)),
  Forall2 (fun p m => degap (snd p) = m) chunk ms -> Forall (fun m => ~ In sepZ m) ms ->
  Forall no_sep (map snd chunk).
Proof.
  induction 1 as [|p m c ms' Hpm F2 IH]; intros NS; [constructor|].
  inversion NS as [|? ? Hm NS']; subst. cbn [map]. constructor; [|apply IH; exact NS'].
  intros z Hz E. subst z. apply in_degap_z in Hz. apply Hm. exact Hz.
Qed.

Section Regroup.
  Variable full : list (nat * erow).
  Hypothesis ND : NoDup (map fst full).

  Lemma regroup_ungroup : forall ws pc col,
    Forall fword_ok ws -> (forall e, In e pc -> In e full) ->
    Forall2 Pp (explode ws) pc ->
    mapM (regroup_word full) ws = Some col -> ungroup ws col = Some pc.
  Proof.
    induction ws as [|w t IH]; intros pc col F Sub FP H.
    - cbn in H. inversion H; subst. inversion FP; subst. reflexivity.
    - inversion F as [|? ? [L [NE [L64 NS]]] F']; subst.
      unfold explode in FP. cbn [flat_map] in FP. apply Forall2_app_inv_l in FP.
      destruct FP as [chunk [pc' [FC [FT ->]]]].
      cbn [mapM] in H. destruct (regroup_word full w) as [p|] eqn:ER; [|discriminate].
      destruct (mapM (regroup_word full) t) as [col'|] eqn:EM; [|discriminate]. inversion H; subst col; clear H.
      destruct (Forall2_Pp_maps _ _ FC) as [Ef Ed]. destruct (explode_word_ids w L) as [Ei Es].
      rewrite Ei in Ef. rewrite Es in Ed.
      set (n := length (fw_morphs w)) in *.
      assert (Lc : length chunk = n).
      { apply (f_equal (@length nat)) in Ef. rewrite !map_length, seq_length in Ef. exact Ef. }
      unfold regroup_word in ER. fold n in ER.
      rewrite (lookup_chunk full (piece_id (fw_id w)) ND chunk (seq 0 n) Ef) in ER
        by (intros e He; apply Sub; apply in_or_app; left; exact He).
      inversion ER; subst p; clear ER.
      cbn [ungroup]. unfold ungroup_word. cbn [fst snd].
      assert (NSr : Forall no_sep (map snd chunk)).
      { exact (rows_no_sep _ _ Ed NS). }
      rewrite split_join; [|destruct chunk; [cbn in Lc; destruct (fw_morphs w); [congruence|discriminate]|discriminate]|exact NSr].
      rewrite Nat.eqb_refl. rewrite map_length, Lc. fold n. rewrite Nat.eqb_refl. cbn [andb].
      rewrite (IH pc' col' F'); [| |exact FT|reflexivity].
      + f_equal. f_equal. rewrite <- Lc. rewrite <- (map_length snd chunk). apply rebuild_chunk.
        rewrite Lc. exact Ef.
      + intros e He. apply Sub. apply in_or_app. right; exact He.
  Qed.
End Regroup.

(* alignments_inv for partial cognates *)
Theorem align_fuzzy_ok (MSA : list (list Z) -> option (list erow)) (ws : list fword) (col : list (nat * erow)) :
  msa_contract MSA -> NoDup (map fw_id ws) ->
  align_fuzzy MSA ws = Some col -> fuzzy_ok ws col.
Proof.
  intros M ND H. unfold align_fuzzy in H. destruct (forallb fword_okb ws) eqn:EF; [|discriminate].
  destruct (align_wordlist MSA (explode ws)) as [pcol|] eqn:EA; [|discriminate].
  assert (F : Forall fword_ok ws).
  { rewrite forallb_forall in EF. apply Forall_forall. intros w Hw. apply fword_okb_ok, EF, Hw. }
  pose proof (explode_nodup ws ND F) as NDe.
  pose proof (align_wordlist_ok MSA (explode ws) pcol M NDe EA) as COK.
  exists pcol. split; [|exact COK].
  destruct COK as [FC _].
  assert (FP : Forall2 Pp (explode ws) pcol).
  { eapply Forall2_imp; [|exact FC]. intros W p [H1 [H2 _]]. split; assumption. }
  apply (regroup_ungroup pcol); [|exact F|auto|exact FP|exact H].
  destruct (Forall2_Pp_maps _ _ FP) as [E _]. rewrite E. exact NDe.
Qed.
