(* Proofs about Msa/Merge.v, part 1: _merge_alignments.
   merge_inv: with a valid profile aligner and a valid guide tree, the internal
   matrix is a gapped version of the numbered sequences, in input order. *)
From Coq Require Import List Arith Bool Lia Permutation Sorted.
From LV Require Import Align.DP Msa.Profile Msa.Merge Msa.Refine Msa.MsaSpec Msa.ProfileProofs.
Import ListNotations.

(* ------------------------------------------------------------------ *)
(* profile alignment of two aligned blocks *)
Section AlignBlocks.
  Variable A : Type.
  Variable PA : oracle A.
  Hypothesis PA_valid : oracle_valid PA.

  Theorem align_profile_aligned (sA sB : list (list A)) (RA RB ra rb : mat A) :
    aligned sA RA -> aligned sB RB ->
    align_profile PA RA RB = Some (ra, rb) ->
    aligned (sA ++ sB) (ra ++ rb).
  Proof.
    intros [FA [LA [RA_ GA]]] [FB [LB [RB_ GB]]] H.
    destruct (align_profile_spec A PA PA_valid LA LB RA RB ra rb RA_ RB_ H)
      as [a [b [V [-> [-> _]]]]].
    eapply regap_blocks_aligned; eassumption.
  Qed.
End AlignBlocks.

(* ------------------------------------------------------------------ *)
(* stable insertion sort by key *)
Section SortKeys.
  Variable X : Type.

  Lemma insert_key_perm (x : nat * X) l : Permutation (insert_key x l) (x :: l).
  Proof.
    induction l as [|y t IH]; cbn [insert_key]; [reflexivity|].
    destruct (fst x <=? fst y); [reflexivity|].
    rewrite IH. apply perm_swap.
  Qed.

  Lemma sort_keys_perm (l : list (nat * X)) : Permutation (sort_keys l) l.
  Proof.
    induction l as [|x t IH]; cbn [sort_keys fold_right]; [reflexivity|].
    fold (sort_keys t). rewrite insert_key_perm. constructor. exact IH.
  Qed.

  Definition key_le (p q : nat * X) : Prop := fst p <= fst q.

  Lemma insert_key_sorted (x : nat * X) l : Sorted key_le l -> Sorted key_le (insert_key x l).
  Proof.
    induction l as [|y t IH]; intros S; cbn [insert_key].
    - repeat constructor.
    - destruct (fst x <=? fst y) eqn:E.
      + constructor; [exact S|]. constructor. apply Nat.leb_le. exact E.
      + apply Nat.leb_gt in E. inversion S as [|? ? St Hd]; subst.
        constructor; [apply IH; exact St|].
        destruct t as [|z t']; cbn [insert_key].
        * constructor. unfold key_le. lia.
        * destruct (fst x <=? fst z); constructor; unfold key_le; [lia|].
          inversion Hd; assumption.
  Qed.

  Lemma sort_keys_sorted (l : list (nat * X)) : Sorted key_le (sort_keys l).
  Proof.
    induction l as [|x t IH]; cbn [sort_keys fold_right]; [constructor|].
    apply insert_key_sorted. exact IH.
  Qed.
End SortKeys.

(* two sorted lists of numbers with the same elements are equal *)
Lemma sorted_perm_eq : forall l1 l2 : list nat,
  StronglySorted le l1 -> StronglySorted le l2 -> Permutation l1 l2 -> l1 = l2.
Proof.
  induction l1 as [|x t1 IH]; intros l2 S1 S2 P.
  - apply Permutation_nil in P. congruence.
  - destruct l2 as [|y t2]; [apply Permutation_sym, Permutation_nil in P; discriminate|].
    inversion S1 as [|? ? S1' F1]; inversion S2 as [|? ? S2' F2]; subst.
    assert (x = y).
    { assert (Hx : In x (y :: t2)) by (eapply Permutation_in; [exact P|left; reflexivity]).
      assert (Hy : In y (x :: t1)) by (eapply Permutation_in; [apply Permutation_sym; exact P|left; reflexivity]).
      rewrite Forall_forall in F1, F2.
      destruct Hx as [->|Hx]; [reflexivity|]. destruct Hy as [->|Hy]; [reflexivity|].
      specialize (F1 _ Hy). specialize (F2 _ Hx). lia. }
    subst y. f_equal. apply IH; try assumption. eapply Permutation_cons_inv. exact P.
Qed.

Lemma seq_strongly_sorted : forall n s, StronglySorted le (seq s n).
Proof.
  induction n as [|n IH]; intros s; cbn [seq]; constructor; [apply IH|].
  apply Forall_forall. intros x Hx. apply in_seq in Hx. lia.
Qed.

Lemma map_fst_combine {X Y} : forall (l1 : list X) (l2 : list Y),
  length l1 = length l2 -> map fst (combine l1 l2) = l1.
Proof.
  induction l1 as [|x t IH]; intros [|y t2] H; try discriminate; [reflexivity|].
  cbn [combine map fst]. f_equal. apply IH. cbn [length] in H. lia.
Qed.

Lemma map_snd_combine {X Y} : forall (l1 : list X) (l2 : list Y),
  length l1 = length l2 -> map snd (combine l1 l2) = l2.
Proof.
  induction l1 as [|x t IH]; intros [|y t2] H; try discriminate; [reflexivity|].
  cbn [combine map snd]. f_equal. apply IH. cbn [length] in H. lia.
Qed.

Lemma sort_keys_of_perm {X} (keys : list nat) (rows : list X) h :
  Permutation keys (seq 0 h) -> length rows = length keys ->
  map fst (sort_keys (combine keys rows)) = seq 0 h.
Proof.
  intros P L. apply sorted_perm_eq.
  - apply Sorted_StronglySorted; [intros a b c; lia|].
    pose proof (sort_keys_sorted X (combine keys rows)) as S.
    induction S as [|p l Sl IH Hd]; cbn [map]; constructor; [exact IH|].
    destruct Hd as [|q l' Hq]; cbn [map]; constructor. exact Hq.
  - apply seq_strongly_sorted.
  - rewrite (sort_keys_perm X (combine keys rows)).
    rewrite map_fst_combine by lia. exact P.
Qed.

(* ------------------------------------------------------------------ *)
(* the guide tree: bookkeeping of seq_ord *)
Fixpoint seq_ord_loop (tree : list (nat * nat)) (so : list (list nat)) : option (list (list nat)) :=
  match tree with
  | [] => Some so
  | (m, n) :: t =>
      match nth_error so m, nth_error so n with
      | Some om, Some on => seq_ord_loop t (so ++ [om ++ on])
      | _, _ => None
      end
  end.

Lemma remove_perm : forall (l : list nat) x, NoDup l -> In x l ->
  Permutation l (x :: remove Nat.eq_dec x l).
Proof.
  induction l as [|y t IH]; intros x ND Hx; [destruct Hx|].
  inversion ND as [|? ? Hy ND']; subst. cbn [remove].
  destruct (Nat.eq_dec x y) as [->|Ne].
  - constructor. rewrite notin_remove; [reflexivity|exact Hy].
  - destruct Hx as [->|Hx]; [congruence|].
    rewrite (IH x ND' Hx) at 1. apply perm_swap.
Qed.

Lemma remove_nodup : forall (l : list nat) x, NoDup l -> NoDup (remove Nat.eq_dec x l).
Proof.
  induction l as [|y t IH]; intros x ND; [constructor|].
  inversion ND as [|? ? Hy ND']; subst. cbn [remove].
  destruct (Nat.eq_dec x y); [apply IH; exact ND'|].
  constructor; [|apply IH; exact ND'].
  intros Hin. apply in_remove in Hin. tauto.
Qed.

Lemma last_nth {X} (d : X) : forall l, last l d = nth (length l - 1) l d.
Proof.
  induction l as [|x t IH]; [reflexivity|].
  destruct t as [|y t']; [reflexivity|].
  change (last (x :: y :: t') d) with (last (y :: t') d). rewrite IH.
  cbn [length]. replace (S (S (length t')) - 1) with (S (length t')) by lia.
  cbn [nth]. replace (S (length t') - 1) with (length t') by lia. reflexivity.
Qed.

Lemma seq_ord_perm : forall tree so so' avail,
  NoDup avail -> (forall k, In k avail -> k < length so) ->
  0 < length so -> In (length so - 1) avail ->
  merge_order avail (length so) tree ->
  seq_ord_loop tree so = Some so' ->
  so' <> [] /\ Permutation (last so' []) (flat_map (fun k => nth k so []) avail).
Proof.
  induction tree as [|[m n] t IH]; intros so so' avail ND Hlt Hpos Hlast MO H.
  - cbn in H. inversion H; subst so'. cbn in MO.
    destruct avail as [|k [|k' rest]]; try discriminate.
    destruct Hlast as [->|[]]. split; [destruct so; [cbn in Hpos; lia|discriminate]|].
    cbn [flat_map]. rewrite app_nil_r, last_nth. reflexivity.
  - cbn [merge_order] in MO. destruct MO as [Hm [Hn [Hmn MO]]].
    cbn [seq_ord_loop] in H.
    destruct (nth_error so m) as [om|] eqn:Em; [|discriminate].
    destruct (nth_error so n) as [on|] eqn:En; [|discriminate].
    set (so1 := so ++ [om ++ on]) in *.
    assert (L1 : length so1 = S (length so)) by (unfold so1; rewrite app_length; cbn; lia).
    set (rest := remove Nat.eq_dec m (remove Nat.eq_dec n avail)) in *.
    assert (Hrest : forall k, In k rest -> In k avail /\ k <> m /\ k <> n).
    { intros k Hk. unfold rest in Hk. apply in_remove in Hk. destruct Hk as [Hk Hkm].
      apply in_remove in Hk. tauto. }
    destruct (IH so1 so' (length so :: rest)) as [Hne P].
    + constructor; [|unfold rest; apply remove_nodup, remove_nodup; exact ND].
      intros Hin. apply Hrest in Hin. destruct Hin as [Hin _]. apply Hlt in Hin. lia.
    + intros k [<-|Hk]; [lia|]. apply Hrest in Hk. destruct Hk as [Hk _]. apply Hlt in Hk. lia.
    + lia.
    + left. lia.
    + rewrite L1. exact MO.
    + exact H.
    + split; [exact Hne|]. rewrite P. cbn [flat_map].
      assert (E1 : nth (length so) so1 [] = om ++ on).
      { unfold so1. rewrite app_nth2 by lia. rewrite Nat.sub_diag. reflexivity. }
      rewrite E1.
      assert (E2 : flat_map (fun k => nth k so1 []) rest = flat_map (fun k => nth k so []) rest).
      { rewrite !flat_map_concat_map. f_equal. apply map_ext_in. intros k Hk.
        apply Hrest in Hk. destruct Hk as [Hk _]. apply Hlt in Hk. unfold so1. apply app_nth1. exact Hk. }
      rewrite E2.
      assert (Pa : Permutation avail (n :: m :: rest)).
      { rewrite (remove_perm avail n ND Hn) at 1. constructor.
        apply remove_perm; [apply remove_nodup; exact ND|].
        apply in_in_remove; [exact Hmn|exact Hm]. }
      rewrite (Permutation_flat_map (fun k => nth k so []) Pa). cbn [flat_map].
      rewrite (nth_error_nth so m [] Em), (nth_error_nth so n [] En).
      rewrite <- app_assoc. apply Permutation_app_swap_app.
Qed.

Lemma flat_map_singleton : forall l : list nat, flat_map (fun k => [k]) l = l.
Proof. induction l as [|x t IH]; cbn; congruence. Qed.

Lemma seq_ord_initial_perm h tree so' : valid_merge_order h tree ->
  seq_ord_loop tree (map (fun i => [i]) (seq 0 h)) = Some so' ->
  so' <> [] /\ Permutation (last so' []) (seq 0 h).
Proof.
  intros V H. unfold valid_merge_order in V.
  assert (Hh : 0 < h).
  { destruct h; [|lia]. destruct tree as [|[m n] t]; cbn in V; [discriminate|tauto]. }
  set (so := map (fun i => [i]) (seq 0 h)) in *.
  assert (Ls : length so = h) by (unfold so; rewrite map_length, seq_length; reflexivity).
  destruct (seq_ord_perm tree so so' (seq 0 h)) as [Hne P].
  - apply seq_NoDup.
  - intros k Hk. apply in_seq in Hk. lia.
  - lia.
  - apply in_seq. lia.
  - rewrite Ls. exact V.
  - exact H.
  - split; [exact Hne|]. rewrite P.
    replace (flat_map (fun k => nth k so []) (seq 0 h)) with (flat_map (fun k => [k]) (seq 0 h)).
    + rewrite flat_map_singleton. reflexivity.
    + rewrite !flat_map_concat_map. f_equal. apply map_ext_in. intros k Hk. apply in_seq in Hk.
      unfold so. rewrite (nth_indep _ [] [0]) by (rewrite map_length, seq_length; lia).
      change [0] with ((fun i => [i]) 0). rewrite map_nth. rewrite seq_nth by lia. reflexivity.
Qed.

(* ------------------------------------------------------------------ *)
(* _merge_alignments *)
Lemma Forall2_nth_error {X Y} (R : X -> Y -> Prop) : forall l1 l2 n x y,
  Forall2 R l1 l2 -> nth_error l1 n = Some x -> nth_error l2 n = Some y -> R x y.
Proof.
  induction l1 as [|a t IH]; intros l2 n x y F Hx Hy; [destruct n; discriminate|].
  inversion F; subst. destruct n as [|n]; cbn [nth_error] in *.
  - inversion Hx; inversion Hy; subst. assumption.
  - eapply IH; eassumption.
Qed.

Lemma Forall2_last {X Y} (R : X -> Y -> Prop) (dx : X) (dy : Y) : forall l1 l2,
  Forall2 R l1 l2 -> l1 <> [] -> R (last l1 dx) (last l2 dy).
Proof.
  induction 1 as [|x y t1 t2 Hxy F IH]; intros N; [congruence|].
  destruct F as [|x' y' t1' t2' Hxy' F']; [exact Hxy|].
  change (R (last (x' :: t1') dx) (last (y' :: t2') dy)). apply IH. discriminate.
Qed.

Section MergeInv.
  Variable PA : oracle num.
  Hypothesis PA_valid : oracle_valid PA.
  Variable nums : list (list num).

  Definition node_ok (ord : list nat) (rows : imat) : Prop :=
    aligned (map (fun k => nth k nums []) ord) rows.

  Lemma merge_loop_inv : forall tree so al so' al',
    Forall2 node_ok so al ->
    merge_loop PA tree so al = Some (so', al') ->
    Forall2 node_ok so' al' /\ seq_ord_loop tree so = Some so'.
  Proof.
    induction tree as [|[m n] t IH]; intros so al so' al' F H.
    - cbn in H. inversion H; subst. split; [exact F|reflexivity].
    - cbn [merge_loop] in H. cbn [seq_ord_loop].
      destruct (nth_error so m) as [om|] eqn:Em; [|discriminate].
      destruct (nth_error so n) as [on|] eqn:En; [|discriminate].
      destruct (nth_error al m) as [am|] eqn:Am; [|discriminate].
      destruct (nth_error al n) as [an|] eqn:An; [|discriminate].
      destruct (align_profile PA am an) as [[ra rb]|] eqn:EA; [|discriminate].
      apply IH in H; [exact H|].
      apply Forall2_app; [exact F|]. constructor; [|constructor].
      unfold node_ok. rewrite map_app.
      eapply align_profile_aligned; [exact PA_valid| | |exact EA].
      + exact (Forall2_nth_error node_ok so al m om am F Em Am).
      + exact (Forall2_nth_error node_ok so al n on an F En An).
  Qed.

  Lemma degap_map_some {X} (s : list X) : degap (map (@Some X) s) = s.
  Proof. induction s as [|x t IH]; cbn [map degap]; congruence. Qed.

  Lemma initial_nodes_ok :
    Forall2 node_ok (map (fun i => [i]) (seq 0 (length nums))) (map (fun s => [map (@Some num) s]) nums).
  Proof.
    assert (G : forall (l : list (list num)) s,
      (forall k, k < length l -> nth (s + k) nums [] = nth k l []) ->
      Forall2 node_ok (map (fun i => [i]) (seq s (length l))) (map (fun x => [map (@Some num) x]) l)).
    { induction l as [|x t IH]; intros s Hn; cbn [length seq map]; constructor.
      - unfold node_ok, aligned. cbn [map]. specialize (Hn 0 (Nat.lt_0_succ _)).
        rewrite Nat.add_0_r in Hn. cbn [nth] in Hn. rewrite Hn. split.
        + constructor; [apply degap_map_some|constructor].
        + exists (length x). split.
          * constructor; [apply map_length|constructor].
          * intros j Hj. exists (map (@Some num) x). split; [left; reflexivity|].
            rewrite (nth_indep _ None (Some (0, 0))) by (rewrite map_length; exact Hj).
            rewrite map_nth. discriminate.
      - apply IH. intros k Hk. specialize (Hn (S k)). cbn [length nth] in Hn.
        rewrite <- Hn by lia. f_equal. lia. }
    apply (G nums 0). intros k _. reflexivity.
  Qed.

  Lemma forall_pairs_split (l : list (nat * line num)) :
    Forall (fun p => degap (snd p) = nth (fst p) nums []) l ->
    Forall2 (fun r s => degap r = s) (map snd l) (map (fun k => nth k nums []) (map fst l)).
  Proof. induction 1; cbn [map]; constructor; assumption. Qed.

  (* merge_inv *)
  Theorem merge_alignments_aligned tree m :
    valid_merge_order (length nums) tree ->
    merge_alignments PA nums tree = Some m ->
    aligned nums m.
  Proof.
    intros V H. unfold merge_alignments in H.
    destruct (merge_loop PA tree _ _) as [[so al]|] eqn:EM; [|discriminate].
    destruct (merge_loop_inv _ _ _ _ _ initial_nodes_ok EM) as [F SO].
    destruct (seq_ord_initial_perm _ _ _ V SO) as [Hne P].
    destruct so as [|o1 so1]; [congruence|]. destruct al as [|a1 al1]; [discriminate|].
    set (keys := last (o1 :: so1) []) in *. set (rows := last (a1 :: al1) []) in *.
    assert (NK : node_ok keys rows) by (apply Forall2_last; [exact F|discriminate]).
    unfold restore_order in H. destruct (length rows <=? length keys); [|discriminate].
    inversion H; subst m; clear H.
    destruct NK as [FK [L [RK GK]]].
    assert (LK : length rows = length keys).
    { pose proof (aligned_rows_in _ _ _ FK) as E. rewrite map_length in E. exact E. }
    set (sorted := sort_keys (combine keys rows)).
    assert (PS : Permutation sorted (combine keys rows)) by apply sort_keys_perm.
    assert (PR : Permutation (map snd sorted) rows).
    { rewrite PS. rewrite map_snd_combine by lia. reflexivity. }
    split.
    - assert (FP : Forall (fun p => degap (snd p) = nth (fst p) nums []) (combine keys rows)).
      { clear - FK. revert FK. generalize rows. induction keys as [|k t IH]; intros rs FK.
        - constructor.
        - destruct rs as [|r rt]; [constructor|]. cbn [map] in FK. inversion FK; subst.
          cbn [combine]. constructor; [assumption|apply IH; assumption]. }
      apply Permutation_sym in PS. rewrite PS in FP. apply forall_pairs_split in FP.
      fold sorted in FP. unfold sorted in FP at 2.
      rewrite (sort_keys_of_perm keys rows (length nums) P LK) in FP.
      rewrite map_nth_seq in FP. exact FP.
    - exists L. split.
      + unfold rect in RK |- *. eapply Permutation_Forall; [apply Permutation_sym; exact PR|exact RK].
      + intros j Hj. destruct (GK j Hj) as [r [Hr Hn]]. exists r. split; [|exact Hn].
        eapply Permutation_in; [apply Permutation_sym; exact PR|exact Hr].
  Qed.
End MergeInv.
