(* The oracle contract of the multiple-alignment theorems (C04, C11) is met by the model of the
   REAL pairwise profile aligner.  calign.align_profile computes an averaged scorer from the two
   profiles and then runs globalign / semi_globalign / dialign (or the secondary twins) on the
   index lists [0..M-1], [0..N-1]; talign.align_profile does the same with the plain-token
   functions.  Whatever the numeric quantities derived from the profiles are (scorer, weights,
   prosodic strings, restricted characters - all arbitrary here), C01 makes the result a valid
   alignment of the two index lists, and the call always returns on non-empty profiles. *)
From Coq Require Import QArith ZArith List Bool Arith Lia.
From LV Require Import Align.DP Align.DPProofs Align.Calign Align.CalignProofs Msa.Profile Msa.MsaSpec Msa.Totality.
Import ListNotations.
Local Open Scope nat_scope.

Definition idxZ (n : nat) : list Z := map Z.of_nat (seq 0 n).
Definition unz (r : list (option Z)) : list (option nat) := map (option_map Z.to_nat) r.

Lemma degap_unz (r : list (option Z)) : degap (unz r) = map Z.to_nat (degap r).
Proof. induction r as [|[x|] t IH]; cbn; [reflexivity|f_equal; exact IH|exact IH]. Qed.

Lemma unz_idx (n : nat) : map Z.to_nat (idxZ n) = seq 0 n.
Proof.
  unfold idxZ. rewrite map_map. rewrite <- (map_id (seq 0 n)) at 2. apply map_ext. intros k. apply Nat2Z.id.
Qed.

Lemma no_double_gap_unz : forall a b, no_double_gap a b -> no_double_gap (unz a) (unz b).
Proof.
  induction a as [|x ta IH]; intros b H; destruct b as [|y tb]; cbn in *; try exact H.
  destruct H as [Hxy H]. split; [|apply IH; exact H].
  destruct x, y; cbn; try (left; discriminate); try (right; discriminate). destruct Hxy; congruence.
Qed.

Lemma valid_aln_unz a b M N : valid_aln a b (idxZ M) (idxZ N) -> valid_aln (unz a) (unz b) (seq 0 M) (seq 0 N).
Proof.
  intros [L [ND [DA DB]]]. unfold valid_aln. split; [unfold unz; rewrite !map_length; exact L|].
  split; [apply no_double_gap_unz; exact ND|]. rewrite !degap_unz, DA, DB, !unz_idx. split; reflexivity.
Qed.

Lemma align_empty_B p md sec : seqB p = [] -> align p md sec = RError.
Proof. intros H. unfold align, lenB. rewrite H. cbn [length Nat.eqb]. rewrite orb_true_r. reflexivity. Qed.

Section CalignOracle.
  Variable A : Type.
  (* everything numeric the library derives from the two profiles; only the numeric fields are read *)
  Variable params : mat A -> mat A -> cin.
  Variable gop : Q.
  Variable md : mode.
  Hypothesis not_local : md <> Local.     (* profile alignment modes: global, overlap, dialign *)

  Definition profile_cin (pA pB : mat A) : cin :=
    let q := params pA pB in
    {| seqA := idxZ (length pA); seqB := idxZ (length pB);
       gopA := gopA q; gopB := gopB q; proA := proA q; proB := proB q;
       scale := scale q; factor := factor q; scorer := scorer q; rchars := rchars q |}.

  (* calign.align_profile (sound-class scoring): weights * gop, dispatch to the secondary twin *)
  Definition calign_oracle : oracle A := fun pA pB =>
    match align_pair (profile_cin pA pB) gop md with
    | RGlobal a b _ => Some (unz a, unz b)
    | _ => None
    end.

  (* talign.align_profile (plain-token scoring): one gap penalty, no prosody *)
  Definition talign_oracle : oracle A := fun pA pB =>
    match talign (idxZ (length pA)) (idxZ (length pB)) gop (scale (params pA pB)) (scorer (params pA pB)) md with
    | RGlobal a b _ => Some (unz a, unz b)
    | _ => None
    end.

  Lemma idxZ_nonempty {X} (p : list X) : p <> [] -> idxZ (length p) <> [].
  Proof. destruct p; [congruence|]. intros _. cbn. discriminate. Qed.

  Theorem calign_oracle_valid : oracle_valid calign_oracle.
  Proof.
    intros pA pB a b E. unfold calign_oracle in E.
    destruct pA as [|ca pA']; [cbn in E; discriminate|]. destruct pB as [|cb pB'].
    { unfold align_pair in E. rewrite align_empty_B in E by reflexivity. discriminate. }
    pose proof (align_pair_valid (profile_cin (ca :: pA') (cb :: pB')) gop md
                  (idxZ_nonempty (ca :: pA') ltac:(discriminate)) (idxZ_nonempty (cb :: pB') ltac:(discriminate))) as V.
    destruct (align_pair _ _ _) as [a0 b0 s| |]; try discriminate. inversion E; subst.
    destruct V as [_ V]. apply valid_aln_unz. exact V.
  Qed.

  Theorem calign_oracle_total : oracle_total calign_oracle.
  Proof.
    intros pA pB NA NB. unfold calign_oracle.
    pose proof (align_pair_valid (profile_cin pA pB) gop md (idxZ_nonempty pA NA) (idxZ_nonempty pB NB)) as V.
    destruct (align_pair _ _ _) as [a0 b0 s|pa a0 sa pb b0 sb s|]; [eauto| |destruct V].
    destruct V as [E _]. congruence.
  Qed.

  Theorem talign_oracle_valid : oracle_valid talign_oracle.
  Proof.
    intros pA pB a b E. unfold talign_oracle in E.
    destruct pA as [|ca pA']; [cbn in E; discriminate|]. destruct pB as [|cb pB'].
    { unfold talign in E. rewrite align_empty_B in E by reflexivity. discriminate. }
    pose proof (talign_valid (idxZ (length (ca :: pA'))) (idxZ (length (cb :: pB'))) gop
                  (scale (params (ca :: pA') (cb :: pB'))) (scorer (params (ca :: pA') (cb :: pB'))) md
                  (idxZ_nonempty (ca :: pA') ltac:(discriminate)) (idxZ_nonempty (cb :: pB') ltac:(discriminate))) as V.
    destruct (talign _ _ _ _ _ _) as [a0 b0 s| |]; try discriminate. inversion E; subst.
    destruct V as [_ V]. apply valid_aln_unz. exact V.
  Qed.

  Theorem talign_oracle_total : oracle_total talign_oracle.
  Proof.
    intros pA pB NA NB. unfold talign_oracle.
    pose proof (talign_valid (idxZ (length pA)) (idxZ (length pB)) gop (scale (params pA pB)) (scorer (params pA pB)) md
                  (idxZ_nonempty pA NA) (idxZ_nonempty pB NB)) as V.
    destruct (talign _ _ _ _ _ _) as [a0 b0 s|pa a0 sa pb b0 sb s|]; [eauto| |destruct V].
    destruct V as [E _]. congruence.
  Qed.
End CalignOracle.
