(* Per-cognate-set alignment of a wordlist: model of lingpy.align.sca.Alignments
   (plain mode): add_alignments (sca.py:639-700: the etymological dictionary groups the
   word ids by cognate id; within a set the ids are ordered by language column, then by
   word id; only sets with more than one member become alignments), align
   (sca.py:926-1001: every set is aligned by a Multiple object and its alm_matrix is
   stored) and _msa2col (sca.py:752-803: the rows are written to the alignment column by
   word id, every other word gets its segments).

   The per-set aligner is an oracle [MSA] from the list of segment lists of a set to the
   alm_matrix; its contract is what C04_align_inv / C04_history_inv establish for
   Multiple.  Sets are independent, so the order in which align() visits them (sorted by
   cognate id) is not modelled.  Model and checker; proofs in AlignmentsProofs.v. *)
From Coq Require Import List Arith Bool ZArith.
From LV Require Import Common.Cases Align.DP Msa.Profile Msa.Merge Msa.Refine Msa.MsaExec.
Import ListNotations.

Record word := {
  w_id : nat;             (* row id in the wordlist *)
  w_doc : nat;            (* index of the language in wordlist.cols *)
  w_cog : nat;            (* cognate id; 0 = none *)
  w_segs : list Z         (* segments *)
}.
Definition wordlist := list word.      (* in the iteration order of the wordlist *)

(* etd[cog] = one list of ids per language column; seqids = the concatenation of the
   columns' lists, each in ascending word-id order (seqids += sorted(t)): the members of the
   set sorted by word id, then stably sorted by language column *)
Definition by_id (ws : list word) : list word :=
  map snd (sort_keys (map (fun w => (w_id w, w)) ws)).

Definition set_of (wl : wordlist) (cog : nat) : list word :=
  map snd (sort_keys (map (fun w => (w_doc w, w)) (by_id (filter (fun w => w_cog w =? cog) wl)))).

(* a set becomes an alignment iff its key is not 0 and it has more than one member *)
Definition multi (wl : wordlist) (cog : nat) : bool :=
  negb (cog =? 0) && (1 <? length (set_of wl cog)).

(* tmp[idx] = msa['alignment'][i] for i, idx in enumerate(msa['ID']) *)
Fixpoint lookup_row (ids : list nat) (rows : list erow) (id : nat) : option erow :=
  match ids, rows with
  | i :: is', r :: rs =>
      match lookup_row is' rs id with
      | Some r' => Some r'                       (* a later entry overwrites an earlier one *)
      | None => if i =? id then Some r else None
      end
  | _ :: _, [] => None                           (* msa['alignment'][i]: IndexError *)
  | [], _ => None
  end.

Fixpoint rows_complete (ids : list nat) (rows : list erow) : bool :=
  match ids, rows with
  | [], _ => true
  | _ :: is', _ :: rs => rows_complete is' rs
  | _ :: _, [] => false
  end.

Section Alignments.
  Variable MSA : list (list Z) -> option (list erow).

  (* what _msa2col writes for one word *)
  Definition stored (wl : wordlist) (w : word) : option erow :=
    if multi wl (w_cog w) then
      let members := set_of wl (w_cog w) in
      match MSA (map w_segs members) with
      | Some rows =>
          if rows_complete (map w_id members) rows then lookup_row (map w_id members) rows (w_id w) else None
      | None => None
      end
    else Some (map (@Some Z) (w_segs w)).

  Fixpoint store_all (wl : wordlist) (ws : list word) : option (list (nat * erow)) :=
    match ws with
    | [] => Some []
    | w :: t => match stored wl w, store_all wl t with
                | Some r, Some rest => Some ((w_id w, r) :: rest)
                | _, _ => None
                end
    end.

  (* Alignments(...).align(...): the alignment column, one entry per word in row order *)
  Definition align_wordlist (wl : wordlist) : option (list (nat * erow)) := store_all wl wl.
End Alignments.

(* ------------------------------------------------------------------ *)
(* predicates *)
Definition msa_contract (MSA : list (list Z) -> option (list erow)) : Prop :=
  forall seqs rows, MSA seqs = Some rows ->
    Forall2 (fun r s => degap r = s) rows seqs /\ exists L, Forall (fun r => length r = L) rows.

Definition wordlist_ok (wl : wordlist) : Prop := NoDup (map w_id wl).

(* the alignment column: one entry per word, in row order; each stored alignment de-gaps
   to the word's segments; members of one multi-member set share one length; words outside
   any multi-member set are unchanged *)
Definition column_ok (wl : wordlist) (col : list (nat * erow)) : Prop :=
  Forall2 (fun w p => fst p = w_id w /\ degap (snd p) = w_segs w /\
                      (multi wl (w_cog w) = false -> snd p = map (@Some Z) (w_segs w))) wl col /\
  forall w1 w2 p1 p2, In (w1, p1) (combine wl col) -> In (w2, p2) (combine wl col) ->
    w_cog w1 = w_cog w2 -> multi wl (w_cog w1) = true -> length (snd p1) = length (snd p2).

(* checker *)
Definition alignments_okb (wl : wordlist) (col : list (nat * erow)) : bool :=
  forall2b (fun w p => Nat.eqb (fst p) (w_id w) && zlist_eqb (degap (snd p)) (w_segs w)
                       && (multi wl (w_cog w) || erow_eqb (snd p) (map (@Some Z) (w_segs w)))) wl col
  && forallb (fun wp1 => forallb (fun wp2 =>
        negb (Nat.eqb (w_cog (fst wp1)) (w_cog (fst wp2)) && multi wl (w_cog (fst wp1)))
        || Nat.eqb (length (snd (snd wp1))) (length (snd (snd wp2))))
      (combine wl col)) (combine wl col).

(* table-driven oracle and correspondence case *)
Definition zmat_eqb : list (list Z) -> list (list Z) -> bool := list_eqb zlist_eqb.

Definition msa_table (tab : list (list (list Z) * list erow)) : list (list Z) -> option (list erow) :=
  fun seqs => match find (fun e => zmat_eqb seqs (fst e)) tab with
              | Some e => Some (snd e)
              | None => None
              end.

(* contract on a recorded per-set result: the C04 clauses for one Multiple object *)
Definition set_okb (e : list (list Z) * list erow) : bool :=
  forall2b (fun r s => zlist_eqb (degap r) s) (snd e) (fst e) && rectb (snd e) && no_gap_colb (snd e)
  && dup_consistentb (fst e) (snd e).

Record alm_case := {
  ac_wl : wordlist;
  ac_sets : list (list (list Z) * list erow);     (* implementation: seqs and alm_matrix of every set *)
  ac_col : list (nat * erow)                      (* implementation: the alignment column, row order *)
}.

Definition col_eqb : list (nat * erow) -> list (nat * erow) -> bool := list_eqb (pair_eqb Nat.eqb erow_eqb).

Definition alm_case_code (c : alm_case) : nat :=
  bit 0 (match align_wordlist (msa_table (ac_sets c)) (ac_wl c) with
         | Some col => col_eqb col (ac_col c)
         | None => false
         end)
  + bit 2 (alignments_okb (ac_wl c) (ac_col c) && forallb set_okb (ac_sets c)).
