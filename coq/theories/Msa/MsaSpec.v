(* Multiple alignment: the predicates the theorems are stated with (definitions
   only).  [aligned], [ext_ok], [state_ok] are the clauses of property C04;
   [oracle_valid] and [valid_merge_order] are the contracts of the two oracles. *)
From Coq Require Import List Arith Bool ZArith.
From LV Require Import Common.Cases Align.DP Msa.Profile Msa.Merge Msa.Refine.
Import ListNotations.

(* all lines have length L *)
Definition rect {A} (L : nat) (m : mat A) : Prop := Forall (fun r => length r = L) m.

(* no column (of the first L) consists of gaps only *)
Definition no_gap_col {A} (L : nat) (m : mat A) : Prop :=
  forall j, j < L -> exists r, In r m /\ nth j r None <> None.

(* [rows] is a gapped version of [seqs]: one line per sequence, in order; de-gapping
   line i gives exactly sequence i; rectangular; no all-gap column *)
Definition aligned {A} (seqs : list (list A)) (rows : mat A) : Prop :=
  Forall2 (fun r s => degap r = s) rows seqs /\
  exists L, rect L rows /\ no_gap_col L rows.

(* contract of the pairwise profile aligner: whenever it returns, the result is a valid
   alignment of the column indices [0..M-1] of the first profile with [0..N-1] of the second *)
Definition oracle_valid {A} (PA : oracle A) : Prop :=
  forall pA pB a b, PA pA pB = Some (a, b) ->
    valid_aln a b (seq 0 (length pA)) (seq 0 (length pB)).

(* contract of the guide tree (tree_matrix): every row joins two different nodes that
   exist and have not been consumed; the new node gets the next number; one node is left *)
Fixpoint merge_order (avail : list nat) (next : nat) (tree : list (nat * nat)) : Prop :=
  match tree with
  | [] => length avail = 1
  | (m, n) :: t =>
      In m avail /\ In n avail /\ m <> n /\
      merge_order (next :: remove Nat.eq_dec m (remove Nat.eq_dec n avail)) (S next) t
  end.
Definition valid_merge_order (h : nat) (tree : list (nat * nat)) : Prop := merge_order (seq 0 h) h tree.

(* the inputs: the class string of a sequence has the length of the sequence and is a
   function of the sequence (both hold for tokens2class and for plain-token mode) *)
Definition config_ok (cf : config) : Prop :=
  Forall2 (fun t c => length t = length c) (cf_tokens cf) (cf_classes cf) /\
  forall j k, j < length (cf_tokens cf) -> k < length (cf_tokens cf) ->
    nth j (cf_tokens cf) [] = nth k (cf_tokens cf) [] ->
    nth j (cf_classes cf) [] = nth k (cf_classes cf) [].

(* alm_matrix: one row per input in input order, de-gapping row k gives the tokens of
   input k, all rows have one length, no column is all gaps, identical inputs have
   identical rows, inputs with equal class strings have the same gap pattern *)
Definition ext_ok (cf : config) (e : emat) : Prop :=
  exists rows,
    e = map (@Some erow) rows /\
    aligned (cf_tokens cf) rows /\
    (forall j k, j < length (cf_tokens cf) -> k < length (cf_tokens cf) ->
       nth j (cf_tokens cf) [] = nth k (cf_tokens cf) [] -> nth j rows [] = nth k rows []) /\
    (forall j k, j < length (cf_tokens cf) -> k < length (cf_tokens cf) ->
       nth j (cf_classes cf) [] = nth k (cf_classes cf) [] ->
       gap_pattern (nth j rows []) = gap_pattern (nth k rows [])).

(* the state of a Multiple object after an alignment call: the internal matrix is a
   gapped version of the numbered unique class strings, the external matrix is its
   rendering for every input and satisfies [ext_ok] *)
Definition state_ok (cf : config) (st : state) : Prop :=
  aligned (numbers (cf_classes cf)) (st_int st) /\
  update_alignments (cf_tokens cf) (int2ext (cf_classes cf)) (st_int st) = Some (st_ext st) /\
  ext_ok cf (st_ext st).
