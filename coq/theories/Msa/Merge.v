(* Multiple alignment, part 2: progressive merging along the guide tree, the
   grouping of inputs by class string, and the external matrix.

   Model of lingpy.align.multiple.Multiple:
     _set_model          (the part that groups the inputs by class string:
                          indices / keys / _numbers / int2ext, multiple.py:196-221)
     _merge_alignments   (multiple.py:599-641: seq_ord / alm_lst bookkeeping along
                          the tree matrix, restoration of the input order)
     _update_alignments  (multiple.py:668-680)
     prog_align / lib_align  (the two differ only in the scoring function, which
                          lives inside the oracle)

   Internal symbols ("numbers", the strings 'i.j') are pairs (i, j) : nat * nat,
   0-based.  Tokens and sound classes are integers (the harness numbers them).
   Model only; proofs are in MergeProofs.v. *)
From Coq Require Import List Arith Bool ZArith.
From LV Require Import Common.Cases Msa.Profile.
Import ListNotations.

Definition num := (nat * nat)%type.
Definition imat := mat num.                       (* _alm_matrix *)
Definition erow := list (option Z).               (* a row of alm_matrix; None = '-' *)
Definition emat := list (option erow).            (* alm_matrix; None = the placeholder 0 *)

(* ------------------------------------------------------------------ *)
(* _set_model: indices[tuple(seq)].append(i) in input order (a dict keeps the
   order of first insertion) *)
Definition groups_t := list (list Z * list nat).

Fixpoint add_index (g : groups_t) (c : list Z) (i : nat) : groups_t :=
  match g with
  | [] => [(c, [i])]
  | (k, v) :: t => if list_eqb Z.eqb k c then (k, v ++ [i]) :: t else (k, v) :: add_index t c i
  end.

Fixpoint group_from (g : groups_t) (i : nat) (classes : list (list Z)) : groups_t :=
  match classes with
  | [] => g
  | c :: t => group_from (add_index g c i) (S i) t
  end.

Definition group_classes (classes : list (list Z)) : groups_t := group_from [] 0 classes.

(* int2ext[i] = indices[tuple(_classes[i])]: the i-th group *)
Definition int2ext (classes : list (list Z)) : list (list nat) := map snd (group_classes classes).

(* _numbers[i] = ['i+1.j+1' for j in range(len(_classes[i]))] *)
Definition numbers_of (len : nat) (i : nat) : list num := map (fun j => (i, j)) (seq 0 len).
Definition numbers (classes : list (list Z)) : list (list num) :=
  map (fun ic => numbers_of (length (fst (snd ic))) (fst ic))
      (combine (seq 0 (length (group_classes classes))) (group_classes classes)).

(* ------------------------------------------------------------------ *)
(* _merge_alignments *)
Section Merge.
  Variable PA : oracle num.

  (* for row in self.tree_matrix: m, n = row[0], row[1]
         seq_ord.append(seq_ord[m] + seq_ord[n])
         alm_lst.append(algorithm(alm_lst[m], alm_lst[n], ...))    (profileA + profileB) *)
  Fixpoint merge_loop (tree : list (nat * nat)) (seq_ord : list (list nat)) (alm_lst : list imat)
    : option (list (list nat) * list imat) :=
    match tree with
    | [] => Some (seq_ord, alm_lst)
    | (m, n) :: t =>
        match nth_error seq_ord m, nth_error seq_ord n, nth_error alm_lst m, nth_error alm_lst n with
        | Some om, Some on, Some am, Some an =>
            match align_profile PA am an with
            | Some (ra, rb) => merge_loop t (seq_ord ++ [om ++ on]) (alm_lst ++ [ra ++ rb])
            | None => None
            end
        | _, _, _, _ => None
        end
    end.

  (* sorted(alm_lst, key=lambda x: sorter.pop()) with sorter = reversed(seq_ord[-1]):
     the i-th row gets the key seq_ord[-1][i]; Python's sort is stable *)
  Fixpoint insert_key {X} (x : nat * X) (l : list (nat * X)) : list (nat * X) :=
    match l with
    | [] => [x]
    | y :: t => if fst x <=? fst y then x :: y :: t else y :: insert_key x t
    end.
  Definition sort_keys {X} (l : list (nat * X)) : list (nat * X) := fold_right insert_key [] l.

  Definition restore_order (keys : list nat) (rows : imat) : option imat :=
    if length rows <=? length keys            (* sorter.pop() from an empty list raises *)
    then Some (map snd (sort_keys (combine keys rows)))
    else None.

  Definition merge_alignments (nums : list (list num)) (tree : list (nat * nat)) : option imat :=
    let seq_ord := map (fun i => [i]) (seq 0 (length nums)) in
    let alm_lst := map (fun s => [map (@Some num) s]) nums in
    match merge_loop tree seq_ord alm_lst with
    | Some (so, al) =>
        match so, al with
        | _ :: _, _ :: _ => restore_order (last so []) (last al [])
        | _, _ => None                          (* alm_lst[-1] of an empty list *)
        end
    | None => None
    end.
End Merge.

(* ------------------------------------------------------------------ *)
(* _update_alignments *)
Fixpoint render (toks : list Z) (l : line num) : option erow :=
  match l with
  | [] => Some []
  | None :: t => match render toks t with Some r => Some (None :: r) | None => None end
  | Some (_, p) :: t =>
      match nth_error toks p, render toks t with          (* self.tokens[idxA][idxB] *)
      | Some x, Some r => Some (Some x :: r)
      | _, _ => None
      end
  end.

Definition set_nth {X} (j : nat) (x : X) (l : list X) : option (list X) :=
  if j <? length l then Some (firstn j l ++ x :: skipn (S j) l) else None.

(* for j in indices: self.alm_matrix[j] = [tokens of line, numbered as sequence j] *)
Fixpoint update_group (tokens : list (list Z)) (l : line num) (js : list nat) (out : emat) : option emat :=
  match js with
  | [] => Some out
  | j :: t =>
      match nth_error tokens j with
      | Some toks =>
          match render toks l with
          | Some r => match set_nth j (Some r) out with
                      | Some out' => update_group tokens l t out'
                      | None => None
                      end
          | None => None
          end
      | None => None
      end
  end.

(* for i, line in enumerate(self._alm_matrix): indices = self.int2ext[i]; ... *)
Fixpoint update_rows (tokens : list (list Z)) (i2e : list (list nat)) (i : nat) (m : imat) (out : emat)
  : option emat :=
  match m with
  | [] => Some out
  | l :: t =>
      match nth_error i2e i with
      | Some js => match update_group tokens l js out with
                   | Some out' => update_rows tokens i2e (S i) t out'
                   | None => None
                   end
      | None => None                                        (* KeyError *)
      end
  end.

Definition update_alignments (tokens : list (list Z)) (i2e : list (list nat)) (m : imat) : option emat :=
  update_rows tokens i2e 0 m (repeat None (length tokens)).

(* ------------------------------------------------------------------ *)
(* the object's state, and prog_align / lib_align *)
Record state := { st_int : imat; st_ext : emat }.

Record config := {
  cf_tokens : list (list Z);        (* self.tokens *)
  cf_classes : list (list Z)        (* self.classes (tokens2class output, or the tokens themselves) *)
}.

Definition align (PA : oracle num) (cf : config) (tree : list (nat * nat)) : option state :=
  match merge_alignments PA (numbers (cf_classes cf)) tree with
  | Some m =>
      match update_alignments (cf_tokens cf) (int2ext (cf_classes cf)) m with
      | Some e => Some {| st_int := m; st_ext := e |}
      | None => None
      end
  | None => None
  end.
