(* Histories of add_alignments / align calls on a wordlist with SEVERAL cognate-id
   columns: model of lingpy.align.sca.Alignments (plain mode) with the reference column
   as a parameter of every step.

   - add_alignments(ref, override) (sca.py:637-700) registers, once per ref (or again with
     override), the multi-member sets of column [ref]: their word ids, their sequences =
     the CURRENT entries of the alignment column without the gaps, their alignment;
   - align(ref, ...) (sca.py:926-1001) re-aligns every registered set of [ref] (KeyError if
     the ref was never registered) and then _msa2col(ref=ref) (sca.py:752-803) rewrites the
     whole alignment column: the rows of the registered sets of THAT ref by word id, the
     segments for every other word.

   The per-set aligner of a call is an oracle [MSA] (see Alignments.v).  The
   normalisation of the alignment stored at registration time is not modelled: align()
   overwrites it for every set before _msa2col reads it.  Model and checkers; proofs in
   AlignHistoryProofs.v. *)
From Coq Require Import List Arith Bool ZArith.
From LV Require Import Common.Cases Align.DP Msa.Profile Msa.Merge Msa.Refine Msa.MsaExec Msa.Alignments.
Import ListNotations.

Record mword := {
  mw_id : nat;
  mw_doc : nat;
  mw_cogs : list nat;        (* one cognate id per cognate column *)
  mw_segs : list Z
}.

(* the wordlist as seen through cognate column r *)
Definition view (r : nat) (ws : list mword) : wordlist :=
  map (fun w => {| w_id := mw_id w; w_doc := mw_doc w; w_cog := nth r (mw_cogs w) 0; w_segs := mw_segs w |}) ws.

Record aset := {
  as_key : nat;
  as_ids : list nat;              (* msa['ID'] *)
  as_seqs : list (list Z);        (* msa['seqs'] *)
  as_alm : list erow              (* msa['alignment'] *)
}.

Record astate := {
  a_col : list (nat * erow);              (* the alignment column, row order *)
  a_reg : list (nat * list aset)          (* self.msa: ref -> registered sets *)
}.

Fixpoint lookup_col (col : list (nat * erow)) (id : nat) : option erow :=
  match col with
  | [] => None
  | (i, r) :: t => if i =? id then Some r else lookup_col t id
  end.

Fixpoint mapM {X Y} (f : X -> option Y) (l : list X) : option (list Y) :=
  match l with
  | [] => Some []
  | x :: t => match f x, mapM f t with
              | Some y, Some ys => Some (y :: ys)
              | _, _ => None
              end
  end.

Definition cog_keys (wl : wordlist) : list nat := nodup Nat.eq_dec (map w_cog wl).

(* one registered set: this_string = self[seq][alignment]; seqs = this_string without '-' *)
Definition make_set (wl : wordlist) (col : list (nat * erow)) (key : nat) : option aset :=
  let members := set_of wl key in
  match mapM (fun w => lookup_col col (w_id w)) members with
  | Some rows => Some {| as_key := key; as_ids := map w_id members;
                         as_seqs := map (@degap Z) rows; as_alm := rows |}
  | None => None
  end.

Definition register (wl : wordlist) (col : list (nat * erow)) : option (list aset) :=
  mapM (make_set wl col) (filter (multi wl) (cog_keys wl)).

Fixpoint reg_get (reg : list (nat * list aset)) (r : nat) : option (list aset) :=
  match reg with
  | [] => None
  | (r', s) :: t => if r' =? r then Some s else reg_get t r
  end.

Fixpoint reg_set (reg : list (nat * list aset)) (r : nat) (s : list aset) : list (nat * list aset) :=
  match reg with
  | [] => [(r, s)]
  | (r', s') :: t => if r' =? r then (r, s) :: t else (r', s') :: reg_set t r s
  end.

(* tmp[idx] = msa['alignment'][i] over all registered sets (later entries overwrite) *)
Fixpoint lookup_sets (sets : list aset) (id : nat) : option erow :=
  match sets with
  | [] => None
  | s :: t => match lookup_sets t id with
              | Some r => Some r
              | None => lookup_row (as_ids s) (as_alm s) id
              end
  end.

Inductive acall :=
| AddAlignments (r : nat) (override : bool)
| Align (r : nat) (MSA : list (list Z) -> option (list erow)).

Definition realign_set (MSA : list (list Z) -> option (list erow)) (s : aset) : option aset :=
  match MSA (as_seqs s) with
  | Some rows => Some {| as_key := as_key s; as_ids := as_ids s; as_seqs := as_seqs s; as_alm := rows |}
  | None => None
  end.

Definition new_column (ws : list mword) (sets : list aset) : list (nat * erow) :=
  map (fun w => (mw_id w, match lookup_sets sets (mw_id w) with
                          | Some r => r
                          | None => map (@Some Z) (mw_segs w)
                          end)) ws.

Definition alm_step (ws : list mword) (c : acall) (st : astate) : option astate :=
  match c with
  | AddAlignments r override =>
      let rebuild := match reg_get (a_reg st) r with
                     | Some (_ :: _) => override          (* if not msa[ref] or override *)
                     | _ => true
                     end in
      if rebuild then
        match register (view r ws) (a_col st) with
        | Some sets => Some {| a_col := a_col st; a_reg := reg_set (a_reg st) r sets |}
        | None => None
        end
      else Some st
  | Align r MSA =>
      match reg_get (a_reg st) r with
      | Some sets =>
          match mapM (realign_set MSA) sets with
          | Some sets' =>
              if forallb (fun s => rows_complete (as_ids s) (as_alm s)) sets'
              then Some {| a_col := new_column ws sets'; a_reg := reg_set (a_reg st) r sets' |}
              else None
          | None => None
          end
      | None => None                                       (* self.msa[ref]: KeyError *)
      end
  end.

Fixpoint alm_history (ws : list mword) (cs : list acall) (st : astate) : option astate :=
  match cs with
  | [] => Some st
  | c :: t => match alm_step ws c st with
              | Some st' => alm_history ws t st'
              | None => None
              end
  end.

(* ------------------------------------------------------------------ *)
(* checkers and the correspondence case *)

(* every entry of the column belongs to the word in that row and de-gaps to its segments *)
Definition losslessb (ws : list mword) (col : list (nat * erow)) : bool :=
  forall2b (fun w p => Nat.eqb (fst p) (mw_id w) && zlist_eqb (degap (snd p)) (mw_segs w)) ws col.

Inductive astep_kind := KAdd (r : nat) (override : bool) | KAlign (r : nat).

Record astep := {
  sk : astep_kind;
  sk_sets : list (list (list Z) * list erow);   (* align: seqs and alm_matrix of every set of the ref *)
  sk_raised : bool;
  sk_col : list (nat * erow)                    (* implementation: the column after the call *)
}.

Record almh_case := {
  hc_words : list mword;
  hc_col0 : list (nat * erow);                  (* the column the object starts with *)
  hc_steps : list astep
}.

Definition step_acall (s : astep) : acall :=
  match sk s with
  | KAdd r o => AddAlignments r o
  | KAlign r => Align r (msa_table (sk_sets s))
  end.

Fixpoint asteps_code (ws : list mword) (ss : list astep) (model : astate) (before : list (nat * erow)) : nat :=
  match ss with
  | [] => 0
  | s :: t =>
      let res := alm_step ws (step_acall s) model in
      let model' := match res with Some st => st | None => model end in
      let corr := match res with
                  | Some st => negb (sk_raised s) && col_eqb (a_col st) (sk_col s)
                  | None => sk_raised s && col_eqb before (sk_col s)
                  end in
      let prop := losslessb ws (sk_col s) &&
                  match sk s with
                  | KAlign r => sk_raised s ||
                                (alignments_okb (view r ws) (sk_col s) && forallb set_okb (sk_sets s))
                  | KAdd _ _ => true
                  end in
      match bit 0 corr + bit 2 prop with
      | O => asteps_code ws t model' (sk_col s)
      | code => code
      end
  end.

Definition almh_case_code (c : almh_case) : nat :=
  match bit 2 (losslessb (hc_words c) (hc_col0 c)) with
  | O => asteps_code (hc_words c) (hc_steps c) {| a_col := hc_col0 c; a_reg := [] |} (hc_col0 c)
  | _ => 2                                             (* invalid generated input: reported as broken contract *)
  end.
