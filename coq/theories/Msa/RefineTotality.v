(* Totality of the refinement calls: with sonority profiles, a profile aligner that always
   answers (and validly), non-empty sequences and index sets that are non-empty proper subsets
   of the unique sequences, no exception (None) of the model is reachable from _iter and the
   iterate_* methods, and the result satisfies the C04 invariant.  Together with
   Totality.align_total the partial-correctness theorems of C04 are therefore not vacuous along
   refinement histories either. *)
From Coq Require Import List Arith Bool Lia Permutation ZArith.
From LV Require Import Common.Cases Align.DP Msa.Profile Msa.Merge Msa.Refine Msa.MsaSpec
  Msa.ProfileProofs Msa.MergeProofs Msa.UpdateProofs Msa.RefineProofs Msa.Totality Msa.MsaExec.
Import ListNotations.

(* a non-empty proper subset of [0..h-1] *)
Definition idx_ok (h : nat) (idx : list nat) : Prop :=
  idx <> [] /\ Forall (fun i => i < h) idx /\ exists k, k < h /\ ~ In k idx.

Lemma take_rows_total {A} (m : mat A) : forall idx, Forall (fun i => i < length m) idx ->
  take_rows m idx = Some (map (fun i => nth i m []) idx).
Proof.
  induction 1 as [|i t Hi F IH]; [reflexivity|]. cbn [take_rows map].
  rewrite (nth_error_nth' m [] Hi), IH. reflexivity.
Qed.

Lemma reduce_total {A} L (msa : mat A) : rect L msa -> msa <> [] -> exists r, reduce_gap_sites msa = Some r.
Proof.
  intros R N. destruct msa as [|r0 t]; [congruence|]. unfold reduce_gap_sites.
  replace (forallb (fun r => length r0 <=? length r) (r0 :: t)) with true; [eauto|].
  symmetry. apply forallb_forall. intros r Hr. apply Nat.leb_le. unfold rect in R. rewrite Forall_forall in R.
  rewrite (R r Hr), (R r0 (or_introl eq_refl)). lia.
Qed.

Lemma assign_rows_total {A} : forall (alm : mat A) idx out,
  length idx = length alm -> Forall (fun k => k < length out) idx ->
  exists out', assign_rows idx alm out = Some out' /\ length out' = length out.
Proof.
  induction alm as [|r rs IH]; intros idx out L F.
  - destruct idx; [|discriminate]. exists out. split; reflexivity.
  - destruct idx as [|k ks]; [discriminate|]. inversion F as [|? ? Hk F']; subst. cbn [assign_rows].
    unfold set_nth. apply Nat.ltb_lt in Hk. rewrite Hk. apply Nat.ltb_lt in Hk.
    set (out1 := firstn k out ++ r :: skipn (S k) out).
    assert (L1 : length out1 = length out).
    { unfold out1. rewrite app_length. change (length (r :: skipn (S k) out)) with (S (length (skipn (S k) out))).
      rewrite skipn_length, firstn_length_le by lia. lia. }
    destruct (IH ks out1) as [out' [E L']]; [cbn in L; lia|rewrite L1; exact F'|].
    exists out'. split; [exact E|congruence].
Qed.

Section RealignTotal.
  Variable PA : oracle num.
  Hypothesis PA_valid : oracle_valid PA.
  Hypothesis PA_total : oracle_total PA.
  Variable nums : list (list num).
  Hypothesis nums_nonempty : Forall (fun s => s <> []) nums.

  Lemma block_ready (m : imat) (idx : list nat) L :
    Forall2 (fun r s => degap r = s) m nums -> rect L m -> idx <> [] -> Forall (fun i => i < length nums) idx ->
    exists part LA,
      reduce_gap_sites (map (fun i => nth i m []) idx) = Some part /\
      aligned (map (fun i => nth i nums []) idx) part /\ rect LA part /\ part <> [] /\ 0 < LA /\
      length part = length idx.
  Proof.
    intros Fm Rm N In_. pose proof (Forall2_len _ _ _ Fm) as Lm. norm.
    assert (In' : Forall (fun i => i < length m) idx) by (rewrite Lm; exact In_).
    assert (Rr : rect L (map (fun i => nth i m []) idx)).
    { unfold rect in *. apply Forall_forall. intros r Hr. apply in_map_iff in Hr. destruct Hr as [i [<- Hi]].
      rewrite Forall_forall in Rm, In'. apply Rm. apply nth_In. apply In'. exact Hi. }
    destruct (reduce_total L _ Rr) as [part EP]; [destruct idx; [congruence|discriminate]|].
    destruct (reduce_aligned num L _ _ _ (Forall2_select _ [] [] _ _ Fm idx In') Rr EP) as [_ [EQ AA]].
    destruct (aligned_nonempty _ _ AA) as [NP [LA [RA PA_]]].
    - destruct idx; [congruence|discriminate].
    - apply (select_nonempty nums nums_nonempty). exact In_.
    - exists part, LA. split; [exact EP|]. split; [exact AA|]. split; [exact RA|]. split; [exact NP|]. split; [exact PA_|].
      apply (f_equal (@length _)) in EQ. rewrite !map_length in EQ. exact EQ.
  Qed.

  Theorem realign_total (m : imat) (idx : list nat) :
    aligned nums m -> idx_ok (length nums) idx ->
    exists m', realign PA (length nums) m idx = Some m' /\ aligned nums m'.
  Proof.
    intros AM [N [In_ [k [Hk Hnk]]]]. pose proof AM as [Fm [L [Rm Gm]]].
    pose proof (Forall2_len _ _ _ Fm) as Lm. norm.
    set (h := length nums) in *.
    set (idxB := filter (fun i => negb (mem i idx)) (seq 0 h)).
    assert (NB : idxB <> []).
    { assert (Hin : In k idxB).
      { unfold idxB. apply filter_In. split; [apply in_seq; lia|].
        destruct (mem k idx) eqn:E; [apply mem_true_iff in E; contradiction|reflexivity]. }
      destruct idxB; [destruct Hin|discriminate]. }
    assert (InB : Forall (fun i => i < h) idxB).
    { apply Forall_forall. intros i Hi. unfold idxB in Hi. apply filter_In in Hi. destruct Hi as [Hi _].
      apply in_seq in Hi. lia. }
    destruct (block_ready m idx L Fm Rm N In_) as [partA [LA [EA [AA [RA [NPA [PLA LpA]]]]]]].
    destruct (block_ready m idxB L Fm Rm NB InB) as [partB [LB [EB [AB [RB [NPB [PLB LpB]]]]]]].
    destruct (align_profile_total num PA PA_valid PA_total LA LB partA partB RA RB NPA NPB PLA PLB) as [ra [rb EP]].
    destruct (align_profile_spec num PA PA_valid LA LB partA partB ra rb RA RB EP) as [a [b [_ [Era [Erb _]]]]].
    assert (Lra : length idx = length ra) by (rewrite Era, map_length; symmetry; exact LpA).
    assert (Lrb : length idxB = length rb) by (rewrite Erb, map_length; symmetry; exact LpB).
    assert (InA' : Forall (fun i => i < length m) idx) by (rewrite Lm; exact In_).
    assert (InB' : Forall (fun i => i < length m) idxB) by (rewrite Lm; exact InB).
    assert (R : exists m', realign PA h m idx = Some m').
    { unfold realign, split. fold idxB.
      rewrite (take_rows_total m idx InA'). rewrite (take_rows_total m idxB InB').
      rewrite EA, EB, EP. unfold join.
      destruct ra as [|r0 ra']; [destruct idx; [congruence|discriminate]|].
      set (out0 := repeat (repeat (@None num) (length r0)) h).
      destruct (assign_rows_total (r0 :: ra') idx out0 Lra) as [out1 [E1 L1]].
      { unfold out0. rewrite repeat_length. exact In_. }
      rewrite E1.
      destruct (assign_rows_total rb idxB out1 Lrb) as [out2 [E2 _]].
      { rewrite L1. unfold out0. rewrite repeat_length. exact InB. }
      eauto. }
    destruct R as [m' E]. exists m'. split; [exact E|].
    eapply realign_aligned; [exact PA_valid|exact AM|exact E].
  Qed.
End RealignTotal.

Section IterTotal.
  Variable T : Type.
  Variable ltb : T -> T -> bool.
  Variable score score0 : imat -> T.
  Variable PA : oracle num.
  Hypothesis PA_valid : oracle_valid PA.
  Hypothesis PA_total : oracle_total PA.
  Variable nums : list (list num).
  Hypothesis nums_nonempty : Forall (fun s => s <> []) nums.

  Lemma iter_loop_total chk saved : forall idxs cur sop,
    Forall (idx_ok (length nums)) idxs -> aligned nums saved -> aligned nums cur ->
    exists cand, iter_loop T ltb score0 PA (length nums) chk saved idxs cur sop = Some cand.
  Proof.
    induction idxs as [|idx t IH]; intros cur sop F As Ac; cbn [iter_loop]; [eauto|].
    inversion F as [|? ? Hi F']; subst.
    destruct (realign_total PA PA_valid PA_total nums nums_nonempty cur idx Ac Hi) as [new [E An]].
    rewrite E. destruct chk; [apply IH; assumption| |apply IH; assumption].
    destruct (ltb (score0 new) sop); apply IH; assumption.
  Qed.

  Theorem iter_matrix_total chk idxs m :
    Forall (idx_ok (length nums)) idxs -> aligned nums m ->
    exists r, iter_matrix T ltb score score0 PA (length nums) chk idxs m = Some r.
  Proof.
    intros F Am. unfold iter_matrix. destruct (length idxs =? 1); [eauto|].
    destruct (iter_loop_total chk m idxs m (score m) F Am Am) as [cand E]. rewrite E.
    destruct chk; [destruct (ltb (score cand) (score m))| |]; eauto.
  Qed.
End IterTotal.

(* the object level *)
Definition env_total {T} (e : iter_env T) : Prop := oracle_total (ie_pa T e).

(* the index sets handed to _iter are non-empty proper subsets of the unique sequences.  For
   iterate_all_sequences and for the gap profiles of iterate_similar_gap_sites this is proved below;
   for the flat clusters / the orphans (inputs of the model, computed from float distances) it is a
   premise, checked at run time on the recorded lists *)
Definition call_idx_ok {T} (cf : config) (c : call T) (st : state) : Prop :=
  match c with
  | Clusters _ idxs _ | Orphans _ idxs _ => length idxs = 1 \/ Forall (idx_ok (height_of cf)) idxs
  | SimilarGapSites _ _ | AllSequences _ _ | SwapCheck _ => True
  end.

Definition call_env_ok {T} (c : call T) : Prop :=
  match c with
  | SimilarGapSites _ e | AllSequences _ e | Clusters _ _ e | Orphans _ _ e => env_ok T e /\ env_total e
  | SwapCheck _ => True
  end.

Lemma all_sequences_idx_ok h : 2 <= h -> Forall (idx_ok h) (map (fun i => [i]) (seq 0 h)).
Proof.
  intros H. apply Forall_forall. intros idx Hi. apply in_map_iff in Hi. destruct Hi as [i [<- Hi]].
  apply in_seq in Hi. split; [discriminate|]. split; [constructor; [lia|constructor]|].
  exists (if i =? 0 then 1 else 0). destruct (i =? 0) eqn:E.
  - apply Nat.eqb_eq in E. subst. split; [lia|]. intros [H1|[]]. discriminate.
  - apply Nat.eqb_neq in E. split; [lia|]. intros [H1|[]]. lia.
Qed.

(* ------------------------------------------------------------------ *)
(* the gap profiles of iterate_similar_gap_sites are a partition of the unique sequences into
   non-empty classes; with at least two classes each one is a proper subset *)
Definition pmembers (g : list (list bool * list nat)) : list nat := flat_map snd g.

Lemma add_pattern_members g p i : Permutation (pmembers (add_pattern g p i)) (i :: pmembers g).
Proof.
  unfold pmembers. induction g as [|[k v] t IH]; cbn [add_pattern flat_map snd app]; [reflexivity|].
  destruct (list_eqb Bool.eqb k p); cbn [flat_map snd].
  - rewrite <- app_assoc. cbn [app]. apply Permutation_sym, Permutation_middle.
  - rewrite IH. apply Permutation_sym, Permutation_middle.
Qed.

Lemma add_pattern_nonempty g p i : Forall (fun kv => snd kv <> []) g ->
  Forall (fun kv => snd kv <> []) (add_pattern g p i).
Proof.
  induction 1 as [|[k v] t Hv F IH]; cbn [add_pattern].
  - constructor; [discriminate|constructor].
  - destruct (list_eqb Bool.eqb k p); constructor; try assumption. cbn. destruct v; discriminate.
Qed.

Lemma gap_dict_from_inv {A} : forall (m : mat A) g i,
  Permutation (pmembers g) (seq 0 i) -> Forall (fun kv => snd kv <> []) g ->
  Permutation (pmembers (gap_dict_from g i m)) (seq 0 (i + length m)) /\
  Forall (fun kv => snd kv <> []) (gap_dict_from g i m).
Proof.
  induction m as [|r t IH]; intros g i P F; cbn [gap_dict_from length].
  - rewrite Nat.add_0_r. auto.
  - replace (i + S (length t)) with (S i + length t) by lia. apply IH.
    + rewrite add_pattern_members, P. rewrite seq_S. cbn [plus]. rewrite Permutation_app_comm. reflexivity.
    + apply add_pattern_nonempty. exact F.
Qed.

Lemma similar_gap_sites_idx_ok {A} (h : nat) (m : mat A) (gd : list (list nat)) :
  similar_gap_sites h m = Some gd -> (length gd =? 1) = false -> Forall (idx_ok h) gd.
Proof.
  unfold similar_gap_sites. destruct (h <=? length m) eqn:E; [|discriminate]. apply Nat.leb_le in E.
  intros H L1. inversion H; subst gd; clear H.
  set (g := gap_dict_from [] 0 (firstn h m)) in *.
  destruct (gap_dict_from_inv (firstn h m) [] 0) as [P F]; [reflexivity|constructor|]. fold g in P, F.
  rewrite firstn_length_le in P by exact E. cbn [plus] in P.
  assert (C : pmembers g = concat (map snd g)) by (unfold pmembers; apply flat_map_concat_map).
  assert (ND : NoDup (concat (map snd g))).
  { rewrite <- C. eapply Permutation_NoDup; [apply Permutation_sym; exact P|apply seq_NoDup]. }
  apply Forall_forall. intros idx Hidx. destruct (In_nth _ _ [] Hidx) as [a [Ha Ea]].
  assert (NE : forall b, b < length (map snd g) -> nth b (map snd g) [] <> []).
  { intros b Hb. rewrite map_length in Hb. change (@nil nat) with (snd (@nil bool, @nil nat)). rewrite map_nth.
    rewrite Forall_forall in F. apply F. apply nth_In. exact Hb. }
  assert (LT : forall b x, In x (nth b (map snd g) []) -> x < h).
  { intros b x Hx. apply in_nth_concat in Hx. rewrite <- C in Hx. eapply Permutation_in in Hx; [|exact P].
    apply in_seq in Hx. lia. }
  split; [rewrite <- Ea; apply NE; exact Ha|]. split.
  - apply Forall_forall. intros x Hx. apply (LT a). rewrite Ea. exact Hx.
  - (* another class exists and is non-empty; its members are not in this class *)
    apply Nat.eqb_neq in L1.
    assert (Hb : exists b, b < length (map snd g) /\ b <> a) by (exists (if a =? 0 then 1 else 0); destruct (a =? 0) eqn:E0; [apply Nat.eqb_eq in E0|apply Nat.eqb_neq in E0]; lia).
    destruct Hb as [b [Hb Hab]]. pose proof (NE b Hb) as Nb.
    destruct (nth b (map snd g) []) as [|x xs] eqn:Eb; [congruence|].
    exists x. split; [apply (LT b); rewrite Eb; left; reflexivity|].
    intros Hin. apply Hab. symmetry.
    eapply (concat_nodup_disjoint (map snd g) ND a b x); [rewrite Ea; exact Hin|rewrite Eb; left; reflexivity].
Qed.

Section CallTotal.
  Variable T : Type.
  Variable ltb : T -> T -> bool.
  Variable cf : config.
  Hypothesis cf_ok : config_ok cf.
  Hypothesis tokens_nonempty : Forall (fun t => t <> []) (cf_tokens cf).

  Lemma numbers_nonempty : Forall (fun s => s <> []) (numbers (cf_classes cf)).
  Proof.
    apply Forall_forall. intros s Hs. destruct (In_nth _ _ [] Hs) as [i [Hi <-]].
    rewrite numbers_length in Hi. rewrite numbers_nth by exact Hi.
    pose proof (groups_nonempty (cf_classes cf) i Hi) as Hne.
    destruct (nth i (int2ext (cf_classes cf)) []) as [|j js] eqn:Ei; [congruence|].
    assert (Hin : In j (nth i (int2ext (cf_classes cf)) [])) by (rewrite Ei; left; reflexivity).
    pose proof (groups_key _ i j Hin) as Ek. pose proof (groups_members_lt _ i j Hin) as Hj.
    destruct cf_ok as [CL _]. pose proof (Forall2_len _ _ _ CL) as Ln.
    pose proof (Forall2_nth _ [] [] _ _ CL j) as Lj. cbn beta in Lj.
    pose proof tokens_nonempty as NE. rewrite Forall_forall in NE.
    assert (Ht : nth j (cf_tokens cf) [] <> []) by (apply NE, nth_In; lia).
    rewrite (nth_error_nth _ _ [] Ek) in Lj. unfold numbers_of.
    destruct (length (fst (nth i (group_classes (cf_classes cf)) ([], [])))) eqn:E0.
    - specialize (Lj ltac:(lia)). destruct (nth j (cf_tokens cf) []); [congruence|cbn in Lj; lia].
    - cbn [seq map]. discriminate.
  Qed.

  Lemma run_iter_total e idxs st :
    env_ok T e -> env_total e -> state_ok cf st -> Forall (idx_ok (height_of cf)) idxs ->
    exists st', run_iter T ltb cf true e idxs st = Some st' /\ state_ok cf st'.
  Proof.
    intros EO ET SO F. pose proof SO as [Ai _]. unfold run_iter.
    rewrite height_numbers in *.
    destruct (iter_matrix_total T ltb (ie_score T e) (ie_score0 T e) (ie_pa T e) EO ET _ numbers_nonempty
                (ie_check T e) idxs (st_int st) F Ai) as [r E].
    cbn [negb]. rewrite E. destruct r as [m|].
    - assert (Am : aligned (numbers (cf_classes cf)) m) by (eapply iter_matrix_aligned; [exact EO|exact Ai|exact E]).
      destruct (update_alignments_total cf m cf_ok Am) as [x EU]. rewrite EU.
      eexists. split; [reflexivity|]. split; [exact Am|]. split; [exact EU|]. eapply update_alignments_ok; eassumption.
    - eauto.
  Qed.

  (* the refinement calls (sound-class mode) and swap_check return on every valid input *)
  Theorem call_total c st :
    call_env_ok c -> call_idx_ok cf c st -> state_ok cf st ->
    exists st', run_call T ltb cf true c st = Some st' /\ state_ok cf st'.
  Proof.
    intros CE CI SO. destruct c as [e|idxs e|idxs e|e|]; cbn [run_call call_env_ok call_idx_ok] in *.
    - destruct CE as [EO ET]. destruct SO as [Ai R]. pose proof (conj Ai R) as SO.
      assert (Lm : height_of cf <= length (st_int st)).
      { destruct Ai as [Fm _]. pose proof (Forall2_len _ _ _ Fm) as L. rewrite height_numbers. norm. lia. }
      destruct (similar_gap_sites (height_of cf) (st_int st)) as [gd|] eqn:EG.
      2:{ unfold similar_gap_sites in EG. apply Nat.leb_le in Lm. rewrite Lm in EG. discriminate. }
      destruct (length gd =? 1) eqn:L1; [eauto|].
      apply run_iter_total; auto. eapply similar_gap_sites_idx_ok; eassumption.
    - destruct CE as [EO ET]. destruct (length (cf_tokens cf) <? 3); [eauto|].
      destruct CI as [L1|F]; [rewrite (run_iter_one T ltb cf true e idxs st L1); eauto|apply run_iter_total; auto].
    - destruct CE as [EO ET].
      destruct CI as [L1|F]; [rewrite (run_iter_one T ltb cf true e idxs st L1); eauto|apply run_iter_total; auto].
    - destruct CE as [EO ET]. destruct (Nat.le_gt_cases 2 (height_of cf)) as [H2|H1].
      + apply run_iter_total; auto. apply all_sequences_idx_ok. exact H2.
      + (* one unique sequence: _iter returns at once *)
        assert (L1 : length (map (fun i => [i]) (seq 0 (height_of cf))) = 1 \/ height_of cf = 0).
        { rewrite map_length, seq_length. lia. }
        destruct L1 as [L1|H0].
        * rewrite (run_iter_one T ltb cf true e _ st L1). eauto.
        * rewrite H0. cbn [seq map]. apply run_iter_total; auto.
    - eauto.
  Qed.

  (* along any history *)
  Theorem history_total : forall cs st,
    Forall (fun c => call_env_ok c /\ forall s, call_idx_ok cf c s) cs -> state_ok cf st ->
    exists st', run_history T ltb cf true cs st = Some st' /\ state_ok cf st'.
  Proof.
    induction cs as [|c t IH]; intros st F SO; cbn [run_history]; [eauto|].
    inversion F as [|? ? [CE CI] F']; subst.
    destruct (call_total c st CE (CI st) SO) as [st1 [E S1]]. rewrite E. apply IH; assumption.
  Qed.
End CallTotal.

Lemma idx_okb_spec h idx : idx_okb h idx = true -> idx_ok h idx.
Proof.
  unfold idx_okb. rewrite !andb_true_iff. intros [[H1 H2] H3]. split; [|split].
  - destruct idx; [discriminate|discriminate].
  - apply Forall_forall. intros i Hi. rewrite forallb_forall in H2. apply Nat.ltb_lt. apply H2. exact Hi.
  - apply existsb_exists in H3. destruct H3 as [k [Hk Hm]]. apply in_seq in Hk. exists k. split; [lia|].
    intros Hin. apply mem_true_iff in Hin. rewrite Hin in Hm. discriminate.
Qed.

Lemma idxs_okb_spec h idxs : idxs_okb h idxs = true -> length idxs = 1 \/ Forall (idx_ok h) idxs.
Proof.
  unfold idxs_okb. rewrite orb_true_iff. intros [H|H]; [left; apply Nat.eqb_eq; exact H|right].
  apply Forall_forall. intros idx Hi. rewrite forallb_forall in H. apply idx_okb_spec. apply H. exact Hi.
Qed.


