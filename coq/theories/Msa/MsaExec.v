(* Multiple alignment: boolean checkers that run on the implementation's state
   (their specifications are in MsaExecProofs.v), table-driven instances of the
   oracles, and the correspondence cases evaluated by the harness. *)
From Coq Require Import List Arith Bool ZArith QArith.
From LV Require Import Common.Cases Align.DP Msa.Profile Msa.Merge Msa.Refine Msa.Score Msa.ScoreExec.
Import ListNotations.
Local Open Scope nat_scope.

(* ------------------------------------------------------------------ *)
(* equality tests *)
Definition num_eqb (x y : num) : bool := Nat.eqb (fst x) (fst y) && Nat.eqb (snd x) (snd y).
Definition iline_eqb : line num -> line num -> bool := list_eqb (option_eqb num_eqb).
Definition imat_eqb : imat -> imat -> bool := list_eqb iline_eqb.
Definition erow_eqb : erow -> erow -> bool := list_eqb (option_eqb Z.eqb).
Definition emat_eqb : emat -> emat -> bool := list_eqb (option_eqb erow_eqb).
Definition zlist_eqb : list Z -> list Z -> bool := list_eqb Z.eqb.

(* ------------------------------------------------------------------ *)
(* verified checkers (specifications: MsaExecProofs.v) *)

(* all lines have the length of the first *)
Definition rectb {A} (m : mat A) : bool :=
  match m with
  | [] => true
  | r0 :: _ => forallb (fun r => Nat.eqb (length r) (length r0)) m
  end.

Definition width {A} (m : mat A) : nat := length (hd [] m).

(* no column consists of gaps only *)
Definition no_gap_colb {A} (m : mat A) : bool :=
  forallb (fun j => existsb (fun r => negb (is_gap (nth j r None))) m) (seq 0 (width m)).

Fixpoint forall2b {X Y} (f : X -> Y -> bool) (l1 : list X) (l2 : list Y) : bool :=
  match l1, l2 with
  | [], [] => true
  | x :: t1, y :: t2 => f x y && forall2b f t1 t2
  | _, _ => false
  end.

(* internal matrix: one line per unique class string, in order; de-gapping line i gives numbers i *)
Definition int_okb (nums : list (list num)) (m : imat) : bool :=
  forall2b (fun r s => list_eqb num_eqb (degap r) s) m nums && rectb m && no_gap_colb m.

Fixpoint all_some {X} (l : list (option X)) : option (list X) :=
  match l with
  | [] => Some []
  | Some x :: t => match all_some t with Some r => Some (x :: r) | None => None end
  | None :: _ => None
  end.

(* rows j, k with equal inputs are equal *)
Definition dup_consistentb (tokens : list (list Z)) (rows : list erow) : bool :=
  forallb (fun jt => forallb (fun kt =>
      negb (zlist_eqb (fst jt) (fst kt)) || erow_eqb (snd jt) (snd kt))
    (combine tokens rows)) (combine tokens rows).

(* inputs with equal class strings get the same gap pattern *)
Definition class_consistentb (classes : list (list Z)) (rows : list erow) : bool :=
  forallb (fun jc => forallb (fun kc =>
      negb (zlist_eqb (fst jc) (fst kc)) || list_eqb Bool.eqb (gap_pattern (snd jc)) (gap_pattern (snd kc)))
    (combine classes rows)) (combine classes rows).

(* external matrix: one row per input in input order, rectangular, lossless and
   order-preserving, no all-gap column, duplicate-consistent *)
Definition ext_okb (cf : config) (e : emat) : bool :=
  match all_some e with
  | Some rows =>
      forall2b (fun r t => zlist_eqb (degap r) t) rows (cf_tokens cf)
      && rectb rows && no_gap_colb rows
      && dup_consistentb (cf_tokens cf) rows
      && class_consistentb (cf_classes cf) rows
  | None => false
  end.

(* the external matrix is the rendering of the internal one *)
Definition linkb (cf : config) (st : state) : bool :=
  match update_alignments (cf_tokens cf) (int2ext (cf_classes cf)) (st_int st) with
  | Some e => emat_eqb e (st_ext st)
  | None => false
  end.

Definition msa_okb (cf : config) (st : state) : bool :=
  int_okb (numbers (cf_classes cf)) (st_int st) && linkb cf st && ext_okb cf (st_ext st).

(* the inputs: tokens2class keeps the length and is a function of the tokens *)
Definition config_okb (cf : config) : bool :=
  forall2b (fun t c => Nat.eqb (length t) (length c)) (cf_tokens cf) (cf_classes cf)
  && forallb (fun tc1 => forallb (fun tc2 =>
        negb (zlist_eqb (fst tc1) (fst tc2)) || zlist_eqb (snd tc1) (snd tc2))
      (combine (cf_tokens cf) (cf_classes cf))) (combine (cf_tokens cf) (cf_classes cf)).

(* contract of the profile aligner: a valid alignment of [0..M-1] with [0..N-1] *)
Definition ialn_okb (M N : nat) (ab : ialn) : bool :=
  valid_alnb Nat.eqb (fst ab) (snd ab) (seq 0 M) (seq 0 N).

(* contract of the guide tree: every row joins two different nodes that exist
   and have not been used, until one node is left *)
Fixpoint merge_orderb (avail : list nat) (next : nat) (tree : list (nat * nat)) : bool :=
  match tree with
  | [] => Nat.eqb (length avail) 1
  | (m, n) :: t =>
      mem m avail && mem n avail && negb (Nat.eqb m n)
      && merge_orderb (next :: remove Nat.eq_dec m (remove Nat.eq_dec n avail)) (S next) t
  end.

Definition valid_merge_orderb (h : nat) (tree : list (nat * nat)) : bool :=
  merge_orderb (seq 0 h) h tree.

(* checker for the recorded index lists of iterate_clusters / iterate_orphans *)
Definition idx_okb (h : nat) (idx : list nat) : bool :=
  negb (Nat.eqb (length idx) 0) && forallb (fun i => i <? h) idx
  && existsb (fun k => negb (mem k idx)) (seq 0 h).

Definition idxs_okb (h : nat) (idxs : list (list nat)) : bool :=
  Nat.eqb (length idxs) 1 || forallb (idx_okb h) idxs.


(* ------------------------------------------------------------------ *)
(* table-driven oracles *)
Record pa_entry := { pe_A : mat num; pe_B : mat num; pe_a : list (option nat); pe_b : list (option nat) }.

Definition pa_table (tab : list pa_entry) : oracle num :=
  fun pA pB =>
    match find (fun e => imat_eqb pA (pe_A e) && imat_eqb pB (pe_B e)) tab with
    | Some e => Some (pe_a e, pe_b e)
    | None => None
    end.

Definition pa_table_okb (tab : list pa_entry) : bool :=
  forallb (fun e => ialn_okb (length (pe_A e)) (length (pe_B e)) (pe_a e, pe_b e)) tab.

(* recorded sum-of-pairs values: a finite part of the implementation's score function *)
Definition score_table (tab : list (imat * Q)) (m : imat) : option Q :=
  match find (fun e => imat_eqb m (fst e)) tab with
  | Some e => Some (snd e)
  | None => None
  end.

Definition oq_ltb (x y : option Q) : bool :=
  match x, y with
  | Some a, Some b => negb (Qle_bool b a)
  | _, _ => false
  end.

(* ------------------------------------------------------------------ *)
(* correspondence cases: an object, its first alignment call, and a history *)
Inductive call_kind := KSimilar | KClusters | KOrphans | KAll | KSwap.

Record step := {
  sp_kind : call_kind;
  sp_check : check_mode;
  sp_idxs : list (list nat);          (* recorded index sets handed to _iter (clusters, orphans) *)
  sp_pa : list pa_entry;              (* recorded profile alignments of this call *)
  sp_scores : list (imat * Q);        (* sum_of_pairs(gap_weight = that of the call) on the matrices met *)
  sp_scores0 : list (imat * Q);       (* sum_of_pairs(gap_weight = 0.0) on the same matrices *)
  sp_raised : bool;                   (* implementation: the call raised *)
  sp_int : imat;                      (* implementation: _alm_matrix after the call *)
  sp_ext : emat;                      (* implementation: alm_matrix after the call *)
  sp_before : Q;                      (* sum_of_pairs(gap_weight) measured by the harness before ... *)
  sp_after : Q;                       (* ... and after the call *)
  sp_cand : option imat;              (* the matrix of the end-of-pass measurement, if one happened *)
  sp_gw : Q;                          (* the gap weight of the call *)
  sp_scorer : option (list ((num * num) * Q))
                                      (* the scoring dictionary current during the call (None: too large) *)
}.

(* scorer[numA, numB] read off the recorded dictionary *)
Definition pair_scorer (tab : list ((num * num) * Q)) : num -> num -> Q :=
  fun a b => match find (fun e => num_eqb (fst (fst e)) a && num_eqb (snd (fst e)) b) tab with
             | Some e => snd e
             | None => 0%Q
             end.

(* C11 with the DOCUMENTED score (Msa/Score.v) instead of the implementation's own measurement: the
   values the harness read with the implementation's sum_of_pairs agree with the model's sum_of_pairs
   on the matrices before and after the call (within 2^-30: the implementation divides in floating
   point), and the model's score after an end-of-pass refinement call is not lower than before *)
Definition definitional_okb (sonars : bool) (s : step) (before_int : imat) : bool :=
  match sp_scorer s with
  | None => true
  | Some tab =>
      let sc := pair_scorer tab in
      let mb := sum_of_pairs sc sonars (-1 # 1)%Q (sp_gw s) before_int in
      let ma := sum_of_pairs sc sonars (-1 # 1)%Q (sp_gw s) (sp_int s) in
      oclose mb (Some (sp_before s)) && oclose ma (Some (sp_after s)) &&
      match mb, ma with
      | Some x, Some y => Qle_bool (x - (1 # 1073741824))%Q y
      | _, _ => false
      end
  end.

Record msa_case := {
  mc_tokens : list (list Z);
  mc_classes : list (list Z);
  mc_sonars : bool;                   (* sound-class mode *)
  mc_tree : list (nat * nat);         (* implementation: tree_matrix (or the guide_tree passed in) *)
  mc_pa : list pa_entry;              (* recorded profile alignments of prog_align / lib_align *)
  mc_int : imat;
  mc_ext : emat;
  mc_steps : list step
}.

Definition state_eqb (a b : state) : bool :=
  imat_eqb (st_int a) (st_int b) && emat_eqb (st_ext a) (st_ext b).

Definition step_call (s : step) : call (option Q) :=
  let e := {| ie_check := sp_check s; ie_score := score_table (sp_scores s);
              ie_score0 := score_table (sp_scores0 s); ie_pa := pa_table (sp_pa s) |} in
  match sp_kind s with
  | KSimilar => SimilarGapSites _ e
  | KClusters => Clusters _ (sp_idxs s) e
  | KOrphans => Orphans _ (sp_idxs s) e
  | KAll => AllSequences _ e
  | KSwap => SwapCheck _
  end.

(* does the call return before touching anything?  (C11, early exits) *)
Definition early_exitb (cf : config) (s : step) (before : state) : bool :=
  match sp_kind s with
  | KSimilar => match similar_gap_sites (height_of cf) (st_int before) with
                | Some gd => Nat.eqb (length gd) 1
                | None => false
                end
  | KClusters => (length (cf_tokens cf) <? 3) || Nat.eqb (length (sp_idxs s)) 1
  | KOrphans => Nat.eqb (length (sp_idxs s)) 1
  | KAll => Nat.eqb (height_of cf) 1
  | KSwap => true
  end.

Definition is_iter (k : call_kind) : bool := match k with KSwap => false | _ => true end.
Definition is_final (c : check_mode) : bool := match c with CheckFinal => true | _ => false end.

(* bits of one step, given the model state and the implementation state before it *)
Definition step_code (cf : config) (sonars : bool) (s : step) (model : state) (before : state) : nat * state :=
  let after := {| st_int := sp_int s; st_ext := sp_ext s |} in
  let res := run_call (option Q) oq_ltb cf sonars (step_call s) model in
  let model' := match res with Some st => st | None => model end in
  let corr :=
    match res with
    | Some st => negb (sp_raised s) && state_eqb st after
    | None => sp_raised s && state_eqb before after
    end in
  let monotone :=
    negb (is_iter (sp_kind s) && is_final (sp_check s)) || sp_raised s || Qle_bool (sp_before s) (sp_after s) in
  let rollback :=
    negb (is_iter (sp_kind s) && is_final (sp_check s)) || sp_raised s ||
    match sp_cand s with
    | None => true
    | Some c => match score_table (sp_scores s) c with
                | Some sc => Qle_bool (sp_before s) sc || state_eqb before after
                | None => false
                end
    end in
  let early := negb (early_exitb cf s before) || sp_raised s || state_eqb before after in
  let definitional :=
    negb (is_iter (sp_kind s) && is_final (sp_check s)) || sp_raised s || definitional_okb sonars s (st_int before) in
  let idx_contract :=
    match sp_kind s with
    | KClusters | KOrphans => sp_raised s || idxs_okb (height_of cf) (sp_idxs s) || (length (cf_tokens cf) <? 3)
    | _ => true
    end in
  (bit 0 corr + bit 1 (pa_table_okb (sp_pa s) && idx_contract) + bit 2 (msa_okb cf after)
   + bit 3 monotone + bit 4 rollback + bit 5 early + bit 6 definitional, model').

Fixpoint steps_code (cf : config) (sonars : bool) (ss : list step) (model before : state) : nat :=
  match ss with
  | [] => 0
  | s :: t =>
      let '(code, model') := step_code cf sonars s model before in
      let after := {| st_int := sp_int s; st_ext := sp_ext s |} in
      match code with
      | O => steps_code cf sonars t model' after
      | _ => code                                     (* report the first failing call *)
      end
  end.

Definition msa_case_code (c : msa_case) : nat :=
  let cf := {| cf_tokens := mc_tokens c; cf_classes := mc_classes c |} in
  let impl := {| st_int := mc_int c; st_ext := mc_ext c |} in
  let contract := config_okb cf && pa_table_okb (mc_pa c)
                  && valid_merge_orderb (height_of cf) (mc_tree c) in
  match align (pa_table (mc_pa c)) cf (mc_tree c) with
  | Some st =>
      let code := bit 0 (state_eqb st impl) + bit 1 contract + bit 2 (msa_okb cf impl) in
      match code with
      | O => steps_code cf (mc_sonars c) (mc_steps c) st impl
      | _ => code
      end
  | None => 1 + bit 1 contract + bit 2 (msa_okb cf impl)
  end.

(* several prog_align / lib_align calls on one object: every call starts a new epoch (new class
   strings, new unique sequences, new guide tree) that is computed from the inputs alone *)
Fixpoint msa_cases_code (l : list msa_case) : nat :=
  match l with
  | [] => 0
  | c :: t => match msa_case_code c with
              | O => msa_cases_code t
              | k => k
              end
  end.
