(* A concrete profile aligner that meets the oracle contract for every input (it
   puts all columns of the first profile before all columns of the second), and a
   small object to instantiate the theorems with (non-vacuity of the hypotheses). *)
From Coq Require Import List Arith Bool Lia ZArith.
From LV Require Import Common.Cases Align.DP Msa.Profile Msa.Merge Msa.Refine Msa.MsaSpec Msa.MsaExec
  Msa.ProfileProofs Msa.MsaExecProofs.
Import ListNotations.

Definition block_pa {A} : oracle A :=
  fun pA pB =>
    let M := length pA in
    let N := length pB in
    Some (map (@Some nat) (seq 0 M) ++ repeat None N, repeat None M ++ map (@Some nat) (seq 0 N)).

Lemma ndg_app {X} : forall (a1 b1 a2 b2 : list (option X)),
  no_double_gap a1 b1 -> no_double_gap a2 b2 -> no_double_gap (a1 ++ a2) (b1 ++ b2).
Proof.
  induction a1 as [|x t IH]; intros [|y t2] a2 b2 H1 H2; try destruct H1; [exact H2|].
  cbn [app no_double_gap]. split; [assumption|apply IH; assumption].
Qed.

Lemma ndg_some_none {X} : forall (l : list X), no_double_gap (map (@Some X) l) (repeat None (length l)).
Proof. induction l; cbn; [exact I|split; [left; discriminate|assumption]]. Qed.

Lemma ndg_none_some {X} : forall (l : list X), no_double_gap (repeat None (length l)) (map (@Some X) l).
Proof. induction l; cbn; [exact I|split; [right; discriminate|assumption]]. Qed.

Lemma degap_repeat_none {X} n : degap (repeat (@None X) n) = [].
Proof. induction n; cbn; auto. Qed.

Lemma degap_map_some_l {X} (l : list X) : degap (map (@Some X) l) = l.
Proof. induction l; cbn; congruence. Qed.

Theorem block_pa_valid {A} : oracle_valid (@block_pa A).
Proof.
  intros pA pB a b H. unfold block_pa in H. inversion H; subst; clear H.
  unfold valid_aln. repeat split.
  - rewrite !app_length, !map_length, !repeat_length, !seq_length. reflexivity.
  - apply ndg_app.
    + rewrite <- (seq_length (length pA) 0) at 2. apply ndg_some_none.
    + rewrite <- (seq_length (length pB) 0) at 1. apply ndg_none_some.
  - rewrite degap_app_local, degap_map_some_l, degap_repeat_none, app_nil_r. reflexivity.
  - rewrite degap_app_local, degap_map_some_l, degap_repeat_none. reflexivity.
Qed.

(* four inputs; the last two are identical, the second has the class string of the first *)
Definition ex_cf : config :=
  {| cf_tokens := [[1; 2]; [4; 2]; [1; 2; 3]; [2; 3]; [2; 3]]%Z;
     cf_classes := [[10; 20]; [10; 20]; [10; 20; 30]; [20; 30]; [20; 30]]%Z |}.
Definition ex_tree : list (nat * nat) := [(0, 2); (1, 3)].

Definition ex_state : state :=
  match align block_pa ex_cf ex_tree with Some st => st | None => {| st_int := []; st_ext := [] |} end.

(* two scores: the number of leading gaps of the first row counts against / for the alignment *)
Fixpoint leading_gaps {A} (r : line A) : nat :=
  match r with
  | None :: t => S (leading_gaps t)
  | _ => 0
  end.
Definition ex_score (m : imat) : nat := 100 - leading_gaps (hd [] m).
Definition ex_score_up (m : imat) : nat := 100 + leading_gaps (hd [] m).

Definition ex_env (chk : check_mode) (sc : imat -> nat) : iter_env nat :=
  {| ie_check := chk; ie_score := sc; ie_score0 := sc; ie_pa := block_pa |}.
