(* Executable side of the partial-cognate model: the aligner oracle as a
   recorded table, boolean checkers that run on the implementation's outputs
   (their specifications are proved in PartialProofs.v), the case records and
   the per-case comparison functions of the correspondence check. *)
From Coq Require Import QArith ZArith List Bool Arith.
From LV Require Import Common.Cases Cluster.Flat Cluster.FlatQ Cognates.Components Cognates.Partial.
From LV Require Wordlist.SerializeStr Wordlist.Serialize.
From LVGen Require PartialRc.
Import ListNotations.
Local Open Scope nat_scope.

(* ------------------------------------------------------------------ *)
(* the aligner as a table of recorded calls *)

Definition zlist_eqb : list Z -> list Z -> bool := list_eqb Z.eqb.

Definition table := list ((list Z * list Z) * ores).

Fixpoint table_dist (t : table) (a b : list Z) : ores :=
  match t with
  | [] => Missing
  | ((x, y), o) :: tl => if zlist_eqb a x && zlist_eqb b y then o else table_dist tl a b
  end.

(* ------------------------------------------------------------------ *)
(* checkers, run on implementation outputs *)

Definition pids := list (list (nat * list nat)).     (* per concept, per word: (key, partial ids) *)

Fixpoint forall2b {A B} (f : A -> B -> bool) (l1 : list A) (l2 : list B) : bool :=
  match l1, l2 with
  | [], [] => true
  | x :: t1, y :: t2 => f x y && forall2b f t1 t2
  | _, _ => false
  end.

(* every word of the wordlist is there, with as many ids as it has morphemes *)
Definition word_okb (w : word) (wo : nat * list nat) : bool :=
  Nat.eqb (fst w) (fst wo) && Nat.eqb (length (snd wo)) (nmorph (snd w)).

Definition one_idb (wl : list concept) (out : pids) : bool := forall2b (forall2b word_okb) wl out.

Definition ids_of (o : list (nat * list nat)) : list nat := flat_map snd o.

Definition disjb (a b : list nat) : bool := forallb (fun x => negb (memb x b)) a.

Fixpoint pairwiseb {A} (r : A -> A -> bool) (l : list A) : bool :=
  match l with
  | [] => true
  | a :: tl => forallb (r a) tl && pairwiseb r tl
  end.

(* no id is used by two concepts *)
Definition concept_disjointb (out : pids) : bool := pairwiseb disjb (map ids_of out).

Fixpoint nodupb (l : list nat) : bool :=
  match l with
  | [] => true
  | x :: tl => negb (memb x tl) && nodupb tl
  end.

(* no word has the same id twice *)
Definition unique_in_wordb (out : pids) : bool := forallb (forallb (fun wo => nodupb (snd wo))) out.

(* strict ids are equal exactly for equal id sequences *)
Definition strict_exactb (srcs : list (list nat)) (out : list nat) : bool :=
  Nat.eqb (length out) (length srcs) &&
  forallb (fun p => forallb (fun q =>
      Bool.eqb (Nat.eqb (nth p out 0) (nth q out 0)) (seq_eqb (nth p srcs []) (nth q srcs [])))
    (seq 0 (length srcs))) (seq 0 (length srcs)).

(* loose ids of one concept are equal exactly inside a connected component of "share an id" *)
Definition loose_conceptb (srcs : list (list nat)) (o : list nat) : bool :=
  let n := length srcs in
  let blocks := components (share_edge srcs) (seq 0 n) in
  Nat.eqb (length o) n &&
  forallb (fun p => forallb (fun q =>
      Bool.eqb (Nat.eqb (nth p o 0) (nth q o 0)) (Nat.eqb (block_index p blocks) (block_index q blocks)))
    (seq 0 n)) (seq 0 n).

Definition loose_exactb (cs : list (list (list nat))) (out : list (list nat)) : bool :=
  forall2b loose_conceptb cs out && pairwiseb disjb out.

(* ------------------------------------------------------------------ *)
(* comparison of id assignments *)

Definition pids_eqb : pids -> pids -> bool :=
  list_eqb (list_eqb (pair_eqb Nat.eqb seq_eqb)).

Definition shape_of (out : pids) : list (list (nat * nat)) :=
  map (map (fun wo => (fst wo, length (snd wo)))) out.

Definition shape_eqb (a b : pids) : bool :=
  list_eqb (list_eqb (pair_eqb Nat.eqb Nat.eqb)) (shape_of a) (shape_of b).

Fixpoint first_index (x : nat) (l : list nat) : nat :=
  match l with
  | [] => 0
  | y :: tl => if Nat.eqb x y then 0 else S (first_index x tl)
  end.

(* a partition of positions in canonical form: every id is replaced by the
   position of its first occurrence *)
Definition canon (l : list nat) : list nat := map (fun x => first_index x l) l.

Definition flat_ids (out : pids) : list nat := flat_map ids_of out.

Definition same_partitionb (a b : pids) : bool :=
  shape_eqb a b && seq_eqb (canon (flat_ids a)) (canon (flat_ids b)).

(* ------------------------------------------------------------------ *)
(* derivation of word-level ids: model vs implementation + checkers *)

Fixpoint assoc_src (k : nat) (l : list (nat * list nat)) : option (list nat) :=
  match l with
  | [] => None
  | (j, v) :: tl => if Nat.eqb k j then Some v else assoc_src k tl
  end.

Definition natmat_eqb : list (list nat) -> list (list nat) -> bool := list_eqb seq_eqb.

(* src: per concept the (key, source ids) of its words; order: the keys in the
   iteration order of the wordlist; strict/loose: what add_cognate_ids wrote *)
Definition derive_code (src : pids) (order : list nat) (strict : list nat) (loose : list (list nat)) : nat :=
  let cs := map (map snd) src in
  match sequence (map (fun k => assoc_src k (concat src)) order) with
  | None => 2 ^ 4
  | Some srcs =>
      bit 4 (seq_eqb (strict_ids srcs) strict && natmat_eqb (loose_ids cs) loose)
      + bit 5 (strict_exactb srcs strict)
      + bit 6 (loose_exactb cs loose)
  end.

(* a source cell read from a file: (word key, (the cell as written, the cell as the wordlist holds it
   after loading: Some l = a list of the integers l, None = anything else)) *)
Definition file_cell := (nat * (list Z * option (list Z)))%type.

(* the converter model (Wordlist/Serialize.parse_cell with the class that the current wordlist.rc,
   gen/PartialRc.v, gives the column) agrees with what was loaded *)
Definition cell_model_okb (header : list Z) (c : file_cell) : bool :=
  match Serialize.parse_cell (Serialize.class_of PartialRc.partial_rc header) (fst (snd c)), snd (snd c) with
  | Serialize.VInts l, Some l' => list_eqb Z.eqb l l'
  | Serialize.VInts _, None => false
  | _, Some _ => false
  | _, None => true
  end.

(* the loaded cell is the list of ids that was written *)
Definition cell_loaded_okb (src : pids) (c : file_cell) : bool :=
  match assoc_src (fst c) (concat src), snd (snd c) with
  | Some ids, Some l => list_eqb Z.eqb (map Z.of_nat ids) l
  | _, _ => false
  end.

Record derive_case := {
  dc_src : pids;               (* the source ids as the caller wrote them (dict cell or file cell) *)
  dc_order : list nat;
  dc_strict : list nat;
  dc_loose : list (list nat);
  dc_header : list Z;          (* file input: the (lower-cased) header of the source column *)
  dc_cells : list file_cell    (* file input: the source cells; [] for dictionary input *)
}.

Definition derive_case_code (c : derive_case) : nat :=
  derive_code (dc_src c) (dc_order c) (dc_strict c) (dc_loose c)
  + bit 7 (forallb (cell_model_okb (dc_header c)) (dc_cells c))
  + bit 9 (forallb (cell_loaded_okb (dc_src c)) (dc_cells c)).

(* ------------------------------------------------------------------ *)
(* partial_cluster: model vs implementation + checkers.  A case is a history of
   calls on ONE Partial object (every call writes its own column); every call is
   compared with the model for that call's own parameters. *)

(* a clustering routine as a table of recorded (matrix, dictionary) pairs *)
Definition mat_eqb : mat -> mat -> bool := list_eqb (list_eqb Qeq_bool).

Definition clus_table := list (mat * list (nat * nat)).

Fixpoint table_clus (t : clus_table) (m : mat) : list (nat * nat) :=
  match t with
  | [] => []
  | (m', rv) :: tl => if mat_eqb m m' then rv else table_clus tl m
  end.

(* the contract of a clustering routine, on one recorded dictionary: every position
   0..n-1 has a cluster id, and the id lies in 1..n *)
Definition clus_okb (n : nat) (rv : list (nat * nat)) : bool :=
  forallb (fun p => match assoc p (rev rv) with
                    | Some v => Nat.leb 1 v && Nat.leb v n
                    | None => false
                    end) (seq 0 n).

Record call := {
  k_cfg : config;
  k_cmp : nat;                 (* 0: ids not compared (float tie), 1: as partitions, 2: exactly *)
  k_status : nat;              (* implementation: 0 returned, 1 raised ZeroDivisionError, 2 AttributeError *)
  k_out : pids;                (* implementation: the partial-id column written by this call *)
  k_clus : clus_table;         (* [] : a flat linkage method (modelled); otherwise what the clustering
                                  routine (mcl, external_function) returned for each matrix it was given *)
  k_ranged : bool              (* the routine is expected to return ids in 1..n *)
}.

Definition call_code (wl : list concept) (t : table) (c : call) : nat :=
  let cf := k_cfg c in
  let model := match k_clus c with
               | [] => partial_cluster (table_dist t) cf wl
               | ct => partial_cluster_any (table_dist t) (c_imap cf) (c_post cf) (table_clus ct) wl
               end in
  bit 8 (negb (k_ranged c) || forallb (fun mr => clus_okb (length (fst mr)) (snd mr)) (k_clus c))
  + match k_status c with
  | 0 =>
      bit 0 (match model with
             | Ok mo => match k_cmp c with
                        | 0 => shape_eqb mo (k_out c)
                        | 1 => same_partitionb mo (k_out c)
                        | _ => pids_eqb mo (k_out c)
                        end
             | _ => false
             end)
      + bit 1 (one_idb wl (k_out c))
      + bit 2 (concept_disjointb (k_out c))
      + bit 3 (negb (c_post (k_cfg c)) || unique_in_wordb (k_out c))
  | st =>
      bit 0 (match model with Raised e => Nat.eqb e st | _ => false end)
  end.

Record partial_case := {
  pc_wl : list concept;
  pc_table : table;            (* the aligner calls that were made, with their results *)
  pc_pre : list call;          (* earlier calls on the same object, in order *)
  pc_main : call;              (* the last call *)
  pc_order : list nat;
  pc_strict : list nat;        (* implementation: add_cognate_ids(..., 'strict') from the last call's column *)
  pc_loose : list (list nat)   (* implementation: add_cognate_ids(..., 'loose') from the last call's column *)
}.

Definition partial_case_code (c : partial_case) : nat :=
  let main := pc_main c in
  fold_right Nat.lor
    (call_code (pc_wl c) (pc_table c) main
     + match k_status main with
       | 0 => derive_code (k_out main) (pc_order c) (pc_strict c) (pc_loose c)
       | _ => 0
       end)
    (map (call_code (pc_wl c) (pc_table c)) (pc_pre c)).
