(* Model of partial cognate detection, lingpy.compare.partial
   (src/lingpy/compare/partial.py):
     _get_slices                      (lines 28-48, split_on_tones=False)
     Partial._get_partial_matrices    (588-748; both matrix constructions, method 'sca'
                                       seen through the aligner oracle)
     Partial.partial_cluster          (750-903; flat linkage methods + 'ward',
                                       id offsets per concept, post-processing)
     Partial.add_cognate_ids          (905-961; 'strict' and 'loose')

   A wordlist is a list of concepts (in the order the code visits them:
   sorted(self.rows)), a concept is the list of its words in get_list(row=c,
   flat=True) order, a word is (wordlist key, tokens).  A token is a pair of
   integer codes (segment code, alignment code): the segment code says whether
   the token is the morpheme separator '+' (code 0); the alignment code stands
   for everything the aligner sees of that position (class string, weight,
   prosodic symbol).  The aligner is an oracle [dist] on two lists of alignment
   codes.  Model only; proofs are in PartialProofs.v. *)
From Coq Require Import QArith ZArith List Bool Arith.
From LV Require Import Common.Cases Cluster.Flat Cluster.FlatQ Cognates.Components.
Import ListNotations.
Local Open Scope nat_scope.

Definition tok := (Z * Z)%type.
Definition word := (nat * list tok)%type.
Definition concept := list word.

Definition sep_code : Z := 0%Z.

Definition is_nil {A} (l : list A) : bool := match l with [] => true | _ => false end.

(* lists(tokens).n : ' '.join(tokens).split(' + '), every piece split on blanks.
   A '+' token is a separator iff it has a predecessor that is not itself a
   separator (occurrences of ' + ' do not overlap) and a successor. *)
Fixpoint split_aux (can : bool) (cur : list tok) (l : list tok) : list (list tok) :=
  match l with
  | [] => [rev cur]
  | t :: rest =>
      if Z.eqb (fst t) sep_code && can && negb (is_nil rest)
      then rev cur :: split_aux false [] rest
      else split_aux true (t :: cur) rest
  end.

Definition morphemes (toks : list tok) : list (list tok) := split_aux false [] toks.

(* out += [(current, current+len(morpheme))]; current = current+len(morpheme)+1 *)
Fixpoint slices_from (cur : nat) (ms : list (list tok)) : list (nat * nat) :=
  match ms with
  | [] => []
  | m :: tl => (cur, cur + length m) :: slices_from (cur + length m + 1) tl
  end.

Definition get_slices (toks : list tok) : list (nat * nat) := slices_from 0 (morphemes toks).

Definition nmorph (toks : list tok) : nat := length (morphemes toks).

(* l[s:e] *)
Definition py_slice {A} (s e : nat) (l : list A) : list A := firstn (e - s) (skipn s l).

Fixpoint enum_from {A} (i : nat) (l : list A) : list (nat * A) :=
  match l with
  | [] => []
  | x :: tl => (i, x) :: enum_from (S i) tl
  end.

(* tracer entry (idx, i, slc): the word key, the morpheme number, and what the
   aligner is given for that slice *)
Record entry := { e_word : nat; e_pos : nat; e_key : list Z }.

Definition word_entries (w : word) : list entry :=
  map (fun ise => Build_entry (fst w) (fst ise)
                    (map snd (py_slice (fst (snd ise)) (snd (snd ise)) (snd w))))
      (enum_from 0 (get_slices (snd w))).

Definition tracer (c : concept) : list entry := flat_map word_entries c.

Definition dflt_entry : entry := Build_entry 0 0 [].

(* itertools.combinations(l, 2) *)
Fixpoint pairs_of {A} (l : list A) : list (A * A) :=
  match l with
  | [] => []
  | x :: tl => map (pair x) tl ++ pairs_of tl
  end.

(* what a call of the aligner gives *)
Inductive ores := Dist (q : Q) | ZeroDiv | Missing.
(* Missing: the call is not in the recorded table (replay only) *)

(* Raised 1: ZeroDivisionError out of the aligner (imap construction: not caught);
   Raised 2: AttributeError - the handler of ZeroDivisionError in the other
             construction reads self._tokens, which does not exist, so its
             "d = 100" is never reached;
   Raised 3: TypeError (None + k), a matrix position without cluster id *)
Inductive res (A : Type) := Ok (a : A) | Raised (code : nat) | OracleMiss.
Arguments Ok {A}.
Arguments Raised {A}.
Arguments OracleMiss {A}.

Definition is_missing (o : ores) : bool := match o with Missing => true | _ => false end.

(* the first call, in call order, that does not return a distance: 0 none, 1 ZeroDivisionError, 2 not recorded *)
Fixpoint first_bad (l : list ores) : nat :=
  match l with
  | [] => 0
  | Dist _ :: tl => first_bad tl
  | ZeroDiv :: _ => 1
  | Missing :: _ => 2
  end.

(* a distance as a number (except ZeroDivisionError: ...; d = 100 - unreachable, see [res]) *)
Definition oq (o : ores) : Q :=
  match o with Dist q => q | ZeroDiv => 100%Q | Missing => 0%Q end.

Definition build_matrix (n : nat) (f : nat -> nat -> Q) : mat :=
  map (fun x => map (fun y => f x y) (seq 0 n)) (seq 0 n).

Fixpoint remove_nth {A} (i : nat) (l : list A) : list A :=
  match l, i with
  | [], _ => []
  | _ :: tl, O => tl
  | x :: tl, S j => x :: remove_nth j tl
  end.

(* scores.index(min(scores)): the first position of the least value *)
Fixpoint argmin_from (i best : nat) (bv : Q) (l : list Q) : nat :=
  match l with
  | [] => best
  | v :: tl => if Qle_bool bv v then argmin_from (S i) best bv tl else argmin_from (S i) i v tl
  end.

Definition argmin (l : list Q) : option nat :=
  match l with
  | [] => None
  | v :: tl => Some (argmin_from 1 0 v tl)
  end.

(* the while-loop of the imap construction for one pair of words *)
Fixpoint greedy (fuel : nat) (scores : list (Q * (nat * nat))) (visited : list nat)
  : list ((nat * nat) * Q) :=
  match fuel with
  | O => []
  | S f =>
      match argmin (map fst scores) with
      | None => []
      | Some i =>
          let sc := nth i scores (0%Q, (0, 0)) in
          let a := fst (snd sc) in
          let b := snd (snd sc) in
          let rest := remove_nth i scores in
          if memb a visited || memb b visited
          then ((a, b), 1%Q) :: greedy f rest visited
          else ((a, b), fst sc) :: greedy f rest (a :: b :: visited)
      end
  end.

Fixpoint assoc2 (a b : nat) (l : list ((nat * nat) * Q)) : option Q :=
  match l with
  | [] => None
  | ((x, y), v) :: tl => if Nat.eqb a x && Nat.eqb b y then Some v else assoc2 a b tl
  end.

Section Oracle.
  Variable dist : list Z -> list Z -> ores.

  (* ---------------- imap_mode = False ---------------- *)
  (* for (idxA, posA, sliceA), (idxB, posB, sliceB) in combinations(tracer, r=2) *)
  Definition plain_call (a b : entry) : ores :=
    if Nat.eqb (e_word a) (e_word b) then Dist 1%Q else dist (e_key a) (e_key b).

  Definition plain_calls (tr : list entry) : list ores :=
    map (fun ab => plain_call (fst ab) (snd ab)) (pairs_of tr).

  (* upper triangle of calls, squareform *)
  Definition plain_matrix (tr : list entry) : mat :=
    let n := length tr in
    let up := map (fun x => map (fun y =>
                if Nat.ltb x y then oq (plain_call (nth x tr dflt_entry) (nth y tr dflt_entry)) else 0%Q)
                (seq 0 n)) (seq 0 n) in
    build_matrix n (fun x y =>
      if Nat.ltb x y then dm up x y else if Nat.ltb y x then dm up y x else 0%Q).

  (* ---------------- imap_mode = True ---------------- *)
  (* trace[idx]: the entries of a word with their matrix positions *)
  Definition entries_of (itr : list (nat * entry)) (idx : nat) : list (nat * entry) :=
    filter (fun pe => Nat.eqb (e_word (snd pe)) idx) itr.

  (* for i,sliceA,posA in trace[idxA]: for j,sliceB,posB in trace[idxB]: d = function(...) *)
  Definition pair_calls (itr : list (nat * entry)) (ab : nat * nat) : list (ores * (nat * nat)) :=
    flat_map (fun pa => map (fun pb => (dist (e_key (snd pa)) (e_key (snd pb)), (fst pa, fst pb)))
                            (entries_of itr (snd ab)))
             (entries_of itr (fst ab)).

  Definition imap_calls (c : concept) : list (list (ores * (nat * nat))) :=
    let itr := enum_from 0 (tracer c) in
    map (pair_calls itr) (pairs_of (map fst c)).

  Definition imap_matrix (c : concept) : mat :=
    let tr := tracer c in
    let n := length tr in
    let assigned := flat_map (fun calls =>
                      greedy (length calls) (map (fun oc => (oq (fst oc), snd oc)) calls) [])
                      (imap_calls c) in
    let words := map e_word tr in
    build_matrix n (fun x y =>
      if Nat.eqb x y then 0%Q
      else if Nat.eqb (nth x words 0) (nth y words 0) then 1%Q
      else match assoc2 (Nat.min x y) (Nat.max x y) assigned with
           | Some v => v
           | None => 0%Q
           end).

  (* the matrix of a concept, or the way the generator fails *)
  Definition concept_matrix (imap : bool) (c : concept) : res mat :=
    if imap then
      match first_bad (map fst (concat (imap_calls c))) with
      | 0 => Ok (imap_matrix c)
      | 1 => Raised 1
      | _ => OracleMiss
      end
    else
      match first_bad (plain_calls (tracer c)) with
      | 0 => Ok (plain_matrix (tracer c))
      | 1 => Raised 2
      | _ => OracleMiss
      end.
End Oracle.

(* ------------------------------------------------------------------ *)
(* clustering of one concept *)

Fixpoint assoc (i : nat) (l : list (nat * nat)) : option nat :=
  match l with
  | [] => None
  | (j, v) :: tl => if Nat.eqb i j then Some v else assoc i tl
  end.

Fixpoint sequence {A} (l : list (option A)) : option (list A) :=
  match l with
  | [] => Some []
  | None :: _ => None
  | Some x :: tl => match sequence tl with Some r => Some (x :: r) | None => None end
  end.

(* C[idx] += [c.get(str(i), c.get(i)) + k]; c is the dictionary built by
   out[i] = key + 1 (a later entry would overwrite an earlier one) *)
Definition ids_before (rv : list (nat * nat)) (n k : nat) : option (list nat) :=
  sequence (map (fun i => option_map (fun c => c + k) (assoc i (rev rv))) (seq 0 n)).

(* sn = sum_i matrix[i][x] / len(matrix) *)
Definition colmean (m : mat) (x : nat) : Q :=
  (qsum (map (fun row => nth x row 0%Q) m) / inject_Z (Z.of_nat (length m)))%Q.

Section Post.
  Variable le : nat -> nat -> bool.        (* sn_x <= sn_y *)
  Variable words : list nat.               (* word key of every matrix position *)
  Variable ids : list nat.                 (* id of every matrix position before post-processing *)

  Definition wordof (p : nat) : nat := nth p words 0.
  Definition idof (p : nat) : nat := nth p ids 0.

  (* same word and same id: the pair is a collision *)
  Definition collide (x y : nat) : bool := Nat.eqb (wordof x) (wordof y) && Nat.eqb (idof x) (idof y).

  (* x is put on remove_edges: for a collision (n1, n2), n1 before n2:
     if sn1 <= sn2 then n2 else n1 *)
  Definition removed (n x : nat) : bool :=
    existsb (fun y => collide x y &&
                      ((Nat.ltb y x && le y x) || (Nat.ltb x y && negb (le x y)))) (seq 0 n).

  (* the edges left in _g *)
  Definition pp_edge (rem : list bool) (x y : nat) : bool :=
    negb (Nat.eqb x y) && Nat.eqb (idof x) (idof y)
    && negb (nth x rem true) && negb (nth y rem true).

  (* for i, coms in enumerate(nx.connected_components(_g)): cogid = i + 1 + k *)
  Definition post_ids (n k : nat) : list nat :=
    let rem := map (removed n) (seq 0 n) in
    let blocks := components (pp_edge rem) (seq 0 n) in
    map (fun p => block_index p blocks + 1 + k) (seq 0 n).
End Post.

Definition le_mean (m : mat) : nat -> nat -> bool :=
  let means := map (colmean m) (seq 0 (length m)) in
  fun x y => Qle_bool (nth x means 0%Q) (nth y means 0%Q).

Record config := {
  c_imap : bool;       (* imap_mode *)
  c_ward : bool;       (* cluster_method = 'ward' (then c_meth = Upgma) *)
  c_meth : method;
  c_thr : Q;
  c_post : bool        (* post_processing *)
}.

(* ids of all matrix positions of a concept, given its matrix *)
Definition concept_ids (cf : config) (words : list nat) (m : mat) (k : nat) : option (list nat) :=
  let n := length m in
  let cl := flat_cluster (c_meth cf) (c_thr cf) (if c_ward cf then ward_matrix m else m) in
  match ids_before (revert cl) n k with
  | None => None
  | Some ids => Some (if c_post cf then post_ids (le_mean m) words ids n k else ids)
  end.

(* for i, (idx, pos, slc) in enumerate(trace): C[idx] += [...]  -  C[idx] is the
   list of the ids of the positions that belong to word idx, in order *)
Definition word_ids (words ids : list nat) (idx : nat) : list nat :=
  map (fun pw => nth (fst pw) ids 0)
      (filter (fun pw => Nat.eqb (snd pw) idx) (enum_from 0 words)).

Definition concept_out (c : concept) (words ids : list nat) : list (nat * list nat) :=
  map (fun w => (fst w, word_ids words ids (fst w))) c.

Section Cluster.
  Variable dist : list Z -> list Z -> ores.
  Variable cf : config.

  Definition cluster_concept (c : concept) (k : nat) : res (list (nat * list nat)) :=
    match concept_matrix dist (c_imap cf) c with
    | Ok m =>
        let words := map e_word (tracer c) in
        match concept_ids cf words m k with
        | Some ids => Ok (concept_out c words ids)
        | None => Raised 3
        end
    | Raised e => Raised e
    | OracleMiss => OracleMiss
    end.

  (* for concept, trace, matrix in matrices: ...; k += len(matrix) + 1 *)
  Fixpoint cluster_loop (cs : list concept) (k : nat) : res (list (list (nat * list nat))) :=
    match cs with
    | [] => Ok []
    | c :: tl =>
        match cluster_concept c k with
        | Ok o =>
            match cluster_loop tl (k + length (tracer c) + 1) with
            | Ok os => Ok (o :: os)
            | Raised e => Raised e
            | OracleMiss => OracleMiss
            end
        | Raised e => Raised e
        | OracleMiss => OracleMiss
        end
    end.

  (* the partial-id column, per concept and word *)
  Definition partial_cluster (wl : list concept) : res (list (list (nat * list nat))) :=
    cluster_loop wl 0.
End Cluster.

(* ------------------------------------------------------------------ *)
(* partial_cluster for ANY clustering routine (cluster_method = 'mcl', 'infomap',
   external_function, or the flat linkage methods): the routine is a function
   [clus] from the concept's matrix to the dictionary c it returns with
   revert=True (position -> cluster id).  Everything else is as above. *)

Definition ids_from (post : bool) (rv : list (nat * nat)) (words : list nat) (m : mat) (k : nat)
  : option (list nat) :=
  let n := length m in
  match ids_before rv n k with
  | None => None
  | Some ids => Some (if post then post_ids (le_mean m) words ids n k else ids)
  end.

(* the dictionary of the flat linkage methods *)
Definition flat_revert (cf : config) (m : mat) : list (nat * nat) :=
  revert (flat_cluster (c_meth cf) (c_thr cf) (if c_ward cf then ward_matrix m else m)).

Section ClusterAny.
  Variable dist : list Z -> list Z -> ores.
  Variable imap post : bool.
  Variable clus : mat -> list (nat * nat).

  Definition cluster_concept_any (c : concept) (k : nat) : res (list (nat * list nat)) :=
    match concept_matrix dist imap c with
    | Ok m =>
        let words := map e_word (tracer c) in
        match ids_from post (clus m) words m k with
        | Some ids => Ok (concept_out c words ids)
        | None => Raised 3
        end
    | Raised e => Raised e
    | OracleMiss => OracleMiss
    end.

  Fixpoint cluster_loop_any (cs : list concept) (k : nat) : res (list (list (nat * list nat))) :=
    match cs with
    | [] => Ok []
    | c :: tl =>
        match cluster_concept_any c k with
        | Ok o =>
            match cluster_loop_any tl (k + length (tracer c) + 1) with
            | Ok os => Ok (o :: os)
            | Raised e => Raised e
            | OracleMiss => OracleMiss
            end
        | Raised e => Raised e
        | OracleMiss => OracleMiss
        end
    end.

  Definition partial_cluster_any (wl : list concept) : res (list (list (nat * list nat))) :=
    cluster_loop_any wl 0.
End ClusterAny.

(* ------------------------------------------------------------------ *)
(* add_cognate_ids *)

Definition seq_eqb : list nat -> list nat -> bool := list_eqb Nat.eqb.

Fixpoint index_of (s : list nat) (l : list (list nat)) : nat :=
  match l with
  | [] => 0
  | t :: tl => if seq_eqb s t then 0 else S (index_of s tl)
  end.

(* the keys of tmp in insertion order *)
Fixpoint distinct_acc (acc l : list (list nat)) : list (list nat) :=
  match l with
  | [] => acc
  | s :: tl => if existsb (seq_eqb s) acc then distinct_acc acc tl else distinct_acc (acc ++ [s]) tl
  end.

(* idtype='strict': srcs are the source id lists in the order of self._data *)
Definition strict_ids (srcs : list (list nat)) : list nat :=
  let keys := distinct_acc [] srcs in
  map (fun s => S (index_of s keys)) srcs.

(* [x for x in cogsA if x in cogsB] is not empty *)
Definition share (a b : list nat) : bool := existsb (fun x => memb x b) a.

Definition share_edge (srcs : list (list nat)) (p q : nat) : bool :=
  share (nth p srcs []) (nth q srcs []).

(* idtype='loose', one concept: words are numbered by position *)
Definition loose_concept (srcs : list (list nat)) (idx : nat) : list nat * nat :=
  let n := length srcs in
  let blocks := components (share_edge srcs) (seq 0 n) in
  (map (fun p => idx + block_index p blocks) (seq 0 n), idx + length blocks).

Fixpoint loose_loop (cs : list (list (list nat))) (idx : nat) : list (list nat) :=
  match cs with
  | [] => []
  | c :: tl => let r := loose_concept c idx in fst r :: loose_loop tl (snd r)
  end.

Definition loose_ids (cs : list (list (list nat))) : list (list nat) := loose_loop cs 1.
