(* Executable instance of the LexStat.cluster model over exact rationals, the
   three distance instances (turchin, normalised edit distance, replayed
   oracle), boolean checkers that are run on the implementation's id column,
   and the per-case comparison function of the correspondence check. *)
From Coq Require Import QArith List Bool Arith.
From LV Require Import Common.Cases Cluster.Flat Cluster.FlatQ
  Cognates.EditDist Cognates.Turchin Cognates.LexCluster.
Import ListNotations.
Local Open Scope nat_scope.

(* ------------------------------------------------------------------ *)
(* distance instances *)

Fixpoint assoc {B} (i : nat) (l : list (nat * B)) : option B :=
  match l with
  | [] => None
  | (j, v) :: tl => if Nat.eqb i j then Some v else assoc i tl
  end.

Fixpoint assoc2 (a b : nat) (l : list ((nat * nat) * Q)) : option Q :=
  match l with
  | [] => None
  | ((x, y), v) :: tl => if Nat.eqb a x && Nat.eqb b y then Some v else assoc2 a b tl
  end.

Definition words := list (nat * list nat).       (* row key -> symbol string *)
Definition word_of (w : words) (i : nat) : list nat := match assoc i w with Some s => s | None => [] end.

(* turchin_align: int(keyA != keyB) *)
Definition turchin_dist (vowels : list nat) (h : nat) (w : words) (a b : nat) : option Q :=
  Some (if turchin_differ vowels h (word_of w a) (word_of w b) then 1%Q else 0%Q).

(* edit_align: float(sim) / max([M, N]); None = ZeroDivisionError *)
Definition edit_norm (sa sb : list nat) : option Q :=
  match Nat.max (length sa) (length sb) with
  | O => None
  | S m => Some (Z.of_nat (edit_dist nat Nat.eqb sa sb) # Pos.of_succ_nat m)%Q
  end.

Definition edit_dist_q (w : words) (a b : nat) : option Q := edit_norm (word_of w a) (word_of w b).

Inductive dspec :=
| DTurchin (vowels : list nat) (h : nat) (classes : words)
| DEdit (tokens : words)
| DOracle (tab : list ((nat * nat) * Q)).   (* recorded returns of function(idxA, idxB) *)

Definition dist_of (s : dspec) : nat -> nat -> option Q :=
  match s with
  | DTurchin v h w => turchin_dist v h w
  | DEdit w => edit_dist_q w
  | DOracle tab => fun a b => assoc2 a b tab
  end.

(* ------------------------------------------------------------------ *)
(* the rational instance *)

Definition hundred : Q := 100%Q.

Definition lexq (meth : method) (thr : Q) (s : dspec) (wl : list row) : option (list (nat * nat)) :=
  lex_cluster Q qleb (linkf meth) 0%Q hundred (dist_of s) thr wl.

(* the matrix of a concept as _get_matrices yields it *)
Definition concept_matrix (s : dspec) (idx : list nat) : mat :=
  squareform Q 0%Q (condensed Q hundred (dist_of s) idx).

(* ------------------------------------------------------------------ *)
(* checkers on an id column out = [(row key, cognate id)] *)

Definition cog (out : list (nat * nat)) (i : nat) : nat :=
  match dict_get i out with Some c => c | None => 0 end.

(* every row has exactly one entry, in data order, and a positive identifier *)
Definition totalb (wl : list row) (out : list (nat * nat)) : bool :=
  list_eqb Nat.eqb (map fst out) (map rid wl) && forallb (fun p => Nat.ltb 0 (snd p)) out.

(* words of different concepts never share an identifier *)
Definition concept_disjointb (wl : list row) (out : list (nat * nat)) : bool :=
  forallb (fun r1 => forallb (fun r2 =>
    Nat.eqb (rconcept r1) (rconcept r2) || negb (Nat.eqb (cog out (rid r1)) (cog out (rid r2)))) wl) wl.

Fixpoint nodupb (l : list nat) : list nat :=
  match l with
  | [] => []
  | x :: tl => if existsb (Nat.eqb x) tl then nodupb tl else x :: nodupb tl
  end.

(* the partition of the positions 0..n-1 of a concept induced by the id column *)
Definition induced (out : list (nat * nat)) (idx : list nat) : clusters :=
  let cs := map (cog out) idx in
  map (fun g => (g, filter (fun i => Nat.eqb (nth i cs 0) g) (seq 0 (length idx)))) (nodupb cs).

(* the induced partition of every concept is an outcome of threshold clustering of
   the concept's matrix: no two blocks are within the threshold, and the
   linkage-specific clause (single: connected components, complete: diameter).
   [avg_ok] = false skips the average-linkage comparison (float averages of
   non-grid numbers may differ from the exact averages in the last bit). *)
Definition flat_validb (avg_ok : bool) (meth : method) (thr : Q) (s : dspec) (wl : list row)
    (out : list (nat * nat)) : bool :=
  forallb (fun c =>
    let idx := indices wl c in
    let m := concept_matrix s idx in
    let cl := induced out idx in
    partitionb (length idx) cl &&
    match meth with
    | Upgma => negb avg_ok || terminalb Upgma thr m cl
    | _ => terminalb meth thr m cl && linkageb meth thr m cl
    end) (concepts wl).

(* Turchin: two words share an identifier iff same concept and same key *)
Definition turchin_classesb (vowels : list nat) (h : nat) (w : words) (wl : list row)
    (out : list (nat * nat)) : bool :=
  forallb (fun r1 => forallb (fun r2 =>
    Bool.eqb (Nat.eqb (cog out (rid r1)) (cog out (rid r2)))
             (Nat.eqb (rconcept r1) (rconcept r2) &&
              negb (turchin_differ vowels h (word_of w (rid r1)) (word_of w (rid r2))))) wl) wl.

Definition consequenceb (thr : Q) (s : dspec) (wl : list row) (out : list (nat * nat)) : bool :=
  match s with
  | DTurchin v h w => negb (Qle_bool 0 thr && negb (Qle_bool 1 thr)) || turchin_classesb v h w wl out
  | _ => true
  end.

(* C10: words sharing an identifier at t1 share one at t2 *)
Definition cog_refinesb (wl : list row) (o1 o2 : list (nat * nat)) : bool :=
  forallb (fun r1 => forallb (fun r2 =>
    negb (Nat.eqb (cog o1 (rid r1)) (cog o1 (rid r2))) || Nat.eqb (cog o2 (rid r1)) (cog o2 (rid r2))) wl) wl.

(* ------------------------------------------------------------------ *)
(* correspondence cases *)

Definition column_eqb : list (nat * nat) -> list (nat * nat) -> bool :=
  list_eqb (pair_eqb Nat.eqb Nat.eqb).

Record lex_case := {
  lc_meth : method;
  lc_thr : Q;
  lc_thr2 : Q;                       (* a second threshold >= lc_thr *)
  lc_exact : bool;                   (* exact and float decisions are certified to agree *)
  lc_oracle_ok : bool;               (* harness: the replayed sca distances meet the oracle's contract *)
  lc_wl : list row;
  lc_dist : dspec;
  lc_out : list (nat * nat);         (* implementation: id column at lc_thr *)
  lc_out2 : list (nat * nat)         (* implementation: id column at lc_thr2 *)
}.

Definition lex_case_code (c : lex_case) : nat :=
  let wl := lc_wl c in
  bit 0 (negb (lc_exact c) ||
         (option_eqb column_eqb (lexq (lc_meth c) (lc_thr c) (lc_dist c) wl) (Some (lc_out c)) &&
          option_eqb column_eqb (lexq (lc_meth c) (lc_thr2 c) (lc_dist c) wl) (Some (lc_out2 c))))
  + bit 1 (totalb wl (lc_out c) && totalb wl (lc_out2 c))
  + bit 2 (concept_disjointb wl (lc_out c) && concept_disjointb wl (lc_out2 c))
  + bit 3 (flat_validb (lc_exact c) (lc_meth c) (lc_thr c) (lc_dist c) wl (lc_out c) &&
           flat_validb (lc_exact c) (lc_meth c) (lc_thr2 c) (lc_dist c) wl (lc_out2 c))
  + bit 4 (consequenceb (lc_thr c) (lc_dist c) wl (lc_out c) &&
           consequenceb (lc_thr2 c) (lc_dist c) wl (lc_out2 c))
  + bit 5 (cog_refinesb wl (lc_out c) (lc_out2 c))
  + bit 6 (lc_oracle_ok c).

(* A call history on one LexStat object: the id column observed after each
   cluster() call, with that call's threshold.  The model is a function of the
   rows and the parameters of the call only, so every observed column is compared
   with the model run at its own threshold, whatever was called before. *)
Record lex_hist_case := {
  lh_meth : method;
  lh_exact : bool;
  lh_oracle_ok : bool;
  lh_wl : list row;
  lh_dist : dspec;
  lh_calls : list (Q * list (nat * nat))      (* (threshold of the call, column of its ref after the call) *)
}.

Definition lex_hist_code (c : lex_hist_case) : nat :=
  let wl := lh_wl c in
  let calls := lh_calls c in
  bit 0 (negb (lh_exact c) ||
         forallb (fun tc => option_eqb column_eqb (lexq (lh_meth c) (fst tc) (lh_dist c) wl) (Some (snd tc))) calls)
  + bit 1 (forallb (fun tc => totalb wl (snd tc)) calls)
  + bit 2 (forallb (fun tc => concept_disjointb wl (snd tc)) calls)
  + bit 3 (forallb (fun tc => flat_validb (lh_exact c) (lh_meth c) (fst tc) (lh_dist c) wl (snd tc)) calls)
  + bit 4 (forallb (fun tc => consequenceb (fst tc) (lh_dist c) wl (snd tc)) calls)
  + bit 5 (forallb (fun a => forallb (fun b =>
             negb (Qle_bool (fst a) (fst b)) || cog_refinesb wl (snd a) (snd b)) calls) calls)
  + bit 6 (lh_oracle_ok c).
