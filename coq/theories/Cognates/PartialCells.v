(* How the partial-id cells of a wordlist FILE become lists of integers
   (add_cognate_ids reads them): the converter classes of data/conf/wordlist.rc for the
   columns cogids / partial_ids / pcogsets, as translated from the current /repo into
   gen/PartialRc.v, with the converter semantics of Wordlist/Serialize.v
   (x.split() on runs of blanks, int()).  Read-only use of those files. *)
From Coq Require Import ZArith List Bool Lia.
From LV Require Import Wordlist.SerializeStr Wordlist.SerializeStrProofs Wordlist.SerializeNum
  Wordlist.Serialize Wordlist.SerializeProofs.
From LVGen Require Import PartialRc.
Import ListNotations.
Local Open Scope Z_scope.

(* an id cell as written in a file: blanks, then every id followed by blanks *)
Definition blank (p : str) : Prop := forallb is_space p = true.

Fixpoint id_cell (items : list (Z * str)) : str :=
  match items with
  | [] => []
  | (z, p) :: tl => show_int z ++ p ++ id_cell tl
  end.

(* every id but the last is followed by at least one blank; nothing but blanks otherwise *)
Fixpoint pads_ok (items : list (Z * str)) : Prop :=
  match items with
  | [] => True
  | (_, p) :: tl => blank p /\ (tl <> [] -> p <> []) /\ pads_ok tl
  end.

Lemma split_ws_space c r : is_space c = true -> split_ws (c :: r) = split_ws r.
Proof.
  intros H. unfold split_ws. cbn [words_aux]. destruct (words_aux r) as [w ws]. rewrite H. reflexivity.
Qed.

Lemma split_ws_blank p r : blank p -> split_ws (p ++ r) = split_ws r.
Proof.
  induction p as [|c p IH]; intros B; [reflexivity|].
  unfold blank in B. cbn [forallb] in B. apply andb_true_iff in B. destruct B as [Bc Bp].
  cbn [app]. rewrite split_ws_space by exact Bc. apply IH. exact Bp.
Qed.

Lemma split_ws_item_space x c r : item_ok x -> is_space c = true ->
  split_ws (x ++ c :: r) = x :: split_ws r.
Proof.
  intros [Hne Hns] Hc. unfold split_ws. rewrite words_aux_word by exact Hns.
  cbn [words_aux]. destruct (words_aux r) as [w ws]. rewrite Hc. cbn [fst snd]. rewrite app_nil_r.
  destruct x as [|a x']; [congruence|]. reflexivity.
Qed.

Lemma split_ws_item_end x : item_ok x -> split_ws x = [x].
Proof.
  intros [Hne Hns]. unfold split_ws. rewrite <- (app_nil_r x) at 1. rewrite words_aux_word by exact Hns.
  cbn [words_aux fst snd]. rewrite app_nil_r. destruct x; [congruence|reflexivity].
Qed.

Lemma split_ws_id_cell items : pads_ok items -> split_ws (id_cell items) = map (fun zp => show_int (fst zp)) items.
Proof.
  induction items as [|[z p] tl IH]; intros H; [reflexivity|].
  cbn [pads_ok] in H. destruct H as [Bp [Hne Htl]]. cbn [id_cell map fst].
  destruct p as [|c p'].
  - destruct tl as [|t tl']; [|exfalso; apply Hne; [discriminate|reflexivity]].
    cbn [app id_cell map]. rewrite app_nil_r. apply split_ws_item_end. apply show_int_item.
  - unfold blank in Bp. cbn [forallb] in Bp. apply andb_true_iff in Bp. destruct Bp as [Bc Bp'].
    cbn [app]. rewrite split_ws_item_space; [|apply show_int_item|exact Bc].
    rewrite split_ws_blank by exact Bp'. rewrite IH by exact Htl. reflexivity.
Qed.

(* x.split() + int(): blanks before, between and after the ids do not matter *)
Theorem ints_ws_cell k pad0 items : (k = KIntsWs \/ k = KBInts) -> blank pad0 -> pads_ok items ->
  parse_cell k (pad0 ++ id_cell items) = VInts (map fst items).
Proof.
  intros K B P.
  assert (E : conv_list (split_ws (pad0 ++ id_cell items)) parse_int VInts (pad0 ++ id_cell items)
              = VInts (map fst items)).
  { unfold conv_list. rewrite split_ws_blank by exact B. rewrite split_ws_id_cell by exact P.
    rewrite <- (map_map fst show_int).
    rewrite (all_some_map parse_int show_int (fun _ => True)).
    - reflexivity.
    - intros z _. apply parse_show_int.
    - apply Forall_forall. intros z _. exact I. }
  destruct K as [-> | ->]; exact E.
Qed.

(* the header names under which add_cognate_ids finds partial ids in a file *)
Definition s_of (l : list Z) : str := l.
Definition id_headers : list str := [
  s_of [99; 111; 103; 105; 100; 115];                                                   (* cogids *)
  s_of [112; 97; 114; 116; 105; 97; 108; 105; 100];                                     (* partialid *)
  s_of [112; 97; 114; 116; 105; 97; 108; 105; 100; 115];                                (* partialids *)
  s_of [112; 97; 114; 116; 105; 97; 108; 95; 105; 100; 115];                            (* partial_ids *)
  s_of [112; 97; 114; 116; 105; 97; 108; 95; 99; 111; 103; 110; 97; 116; 101; 95; 115; 101; 116; 115];   (* partial_cognate_sets *)
  s_of [112; 99; 111; 103; 115; 101; 116];                                              (* pcogset *)
  s_of [112; 99; 115];                                                                  (* pcs *)
  s_of [112; 99; 111; 103; 115; 101; 116; 115]                                          (* pcogsets *)
].

Definition ws_ints (k : conv) : bool := match k with KIntsWs | KBInts => true | _ => false end.

(* obligation about the CURRENT wordlist.rc (regenerated on every run) *)
Lemma id_headers_ws : forallb (fun h => ws_ints (class_of partial_rc h)) id_headers = true.
Proof. vm_compute. reflexivity. Qed.

Theorem id_column_cell h pad0 items : In h id_headers -> blank pad0 -> pads_ok items ->
  parse_cell (class_of partial_rc h) (pad0 ++ id_cell items) = VInts (map fst items).
Proof.
  intros Hh B P. pose proof id_headers_ws as W. rewrite forallb_forall in W. specialize (W h Hh).
  apply ints_ws_cell; [|exact B|exact P].
  destruct (class_of partial_rc h); try discriminate; [right|left]; reflexivity.
Qed.
