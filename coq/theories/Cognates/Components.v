(* Connected components of an undirected graph on a list of nat nodes, as
   networkx.connected_components yields them: one block per not-yet-seen node
   in node order (the block of the first node first).  The edge test may be
   asymmetric; the graph is its symmetrisation.  Model only; the specification
   is proved in ComponentsProofs.v. *)
From Coq Require Import List Arith Bool.
Import ListNotations.

Section Components.
  Variable edge : nat -> nat -> bool.

  Definition adj (x y : nat) : bool := edge x y || edge y x.

  (* y has a neighbour in blk *)
  Definition adj_to (blk : list nat) (y : nat) : bool := existsb (fun x => adj x y) blk.

  (* absorb, round by round, every remaining node adjacent to the block *)
  Fixpoint grow (fuel : nat) (blk rest : list nat) : list nat * list nat :=
    match fuel with
    | O => (blk, rest)
    | S f =>
        match filter (adj_to blk) rest with
        | [] => (blk, rest)
        | new => grow f (blk ++ new) (filter (fun y => negb (adj_to blk y)) rest)
        end
    end.

  Fixpoint comps (fuel : nat) (nodes : list nat) : list (list nat) :=
    match fuel with
    | O => []
    | S f =>
        match nodes with
        | [] => []
        | x :: rest =>
            let br := grow (length rest) [x] rest in
            fst br :: comps f (snd br)
        end
    end.

  Definition components (nodes : list nat) : list (list nat) := comps (length nodes) nodes.
End Components.

Definition memb (x : nat) (l : list nat) : bool := existsb (Nat.eqb x) l.

(* index of the first block that contains x (= number of blocks if none does) *)
Fixpoint block_index (x : nat) (blocks : list (list nat)) : nat :=
  match blocks with
  | [] => O
  | b :: tl => if memb x b then O else S (block_index x tl)
  end.
