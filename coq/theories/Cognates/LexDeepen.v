(* Further consequences of ids_are_flat_partition: the C05 clauses for complete
   linkage (diameter) and for every linkage (terminal separation), stated for the
   identifiers LexStat.cluster writes. *)
From Coq Require Import List Arith Bool Lia.
From LV Require Import Cluster.Flat Cluster.FlatProofs Cluster.FlatLinkage
  Cognates.LexCluster Cognates.LexIndexProofs Cognates.LexMatrixProofs Cognates.LexClusterProofs
  Cognates.LexTheorems Cognates.LexConsequences.
Import ListNotations.

Section Deepen.
  Variable V : Type.
  Variable leb : V -> V -> bool.
  Variable link : list V -> V.
  Variable zero : V.
  Variable err : V.
  Variable dist : nat -> nat -> option V.
  Variable thr : V.

  Notation LC := (lex_cluster V leb link zero err dist thr).
  Notation D := (D V err dist).
  Notation M := (cmat V zero err dist).
  Notation squareform := (squareform V zero).
  Notation dmv := (dmv V zero).

  (* squareform yields a symmetric matrix (as a function on all indices) *)
  Lemma dmv_squareform x a b :
    dmv (squareform x) a b =
      let s := S (Nat.sqrt (2 * length x)) in
      if (a <? s) && (b <? s) then sq_entry V zero (upper_rows V s (s - 1) x) a b else zero.
  Proof.
    unfold LexCluster.dmv, LexCluster.squareform. cbv zeta.
    set (s := S (Nat.sqrt (2 * length x))). set (up := upper_rows V s (s - 1) x).
    destruct (Nat.ltb_spec a s) as [La|La]; cbn [andb].
    - rewrite (nth_indep _ [] (map (fun j0 => sq_entry V zero up 0 j0) (seq 0 s)))
        by (rewrite map_length, seq_length; exact La).
      rewrite (map_nth (fun i0 => map (fun j0 => sq_entry V zero up i0 j0) (seq 0 s)) (seq 0 s) 0 a).
      rewrite seq_nth by exact La. cbn [Nat.add].
      destruct (Nat.ltb_spec b s) as [Lb|Lb].
      + rewrite (nth_indep _ zero (sq_entry V zero up a 0)) by (rewrite map_length, seq_length; exact Lb).
        rewrite (map_nth (fun j0 => sq_entry V zero up a j0) (seq 0 s) 0 b).
        rewrite seq_nth by exact Lb. reflexivity.
      + apply nth_overflow. rewrite map_length, seq_length. exact Lb.
    - rewrite (nth_overflow _ []) by (rewrite map_length, seq_length; exact La).
      destruct b; reflexivity.
  Qed.

  Lemma sq_entry_sym up a b : sq_entry V zero up a b = sq_entry V zero up b a.
  Proof.
    unfold sq_entry. destruct (Nat.ltb_spec a b), (Nat.ltb_spec b a); try reflexivity; lia.
  Qed.

  Lemma cmat_sym idx x y : M idx x y = M idx y x.
  Proof.
    unfold cmat. rewrite !dmv_squareform. cbv zeta. rewrite (andb_comm (y <? _)).
    destruct ((x <? _) && (y <? _)); [apply sq_entry_sym|reflexivity].
  Qed.

  (* ---------------------------------------------------------------- *)
  Section Complete.
    Hypothesis link_max : forall l t, leb (link l) t = true -> forall s, In s l -> leb s t = true.

    (* complete linkage: any two words of one cognate set are within the threshold
       of each other (the distance as it was passed to the distance function:
       earlier word of the concept's index list first) *)
    Theorem complete_linkage_diameter wl out : NoDup (map rid wl) -> LC wl = Some out ->
      forall c i j ci, In c (concepts wl) ->
        i < j -> j < length (indices wl c) ->
        In (nth i (indices wl c) 0, ci) out -> In (nth j (indices wl c) 0, ci) out ->
        leb (D (nth i (indices wl c) 0) (nth j (indices wl c) 0)) thr = true.
    Proof.
      intros ND E c i j ci Hc Lij Hj I1 I2. set (idx := indices wl c) in *.
      assert (Hi : i < length idx) by lia.
      pose proof (proj1 (ids_are_flat_partition V leb link zero err dist thr wl out ND E c i j ci ci Hc Hi Hj I1 I2)
                    eq_refl) as [k [v [Hk [Hx Hy]]]].
      unfold LexClusterProofs.concept_flat in Hk. fold idx in Hk.
      change (LexCluster.dmv V zero (LexCluster.squareform V zero (condensed V err dist idx))) with (M idx) in Hk.
      assert (N : i <> j) by lia.
      pose proof (complete_diameter V leb link (M idx) link_max (cmat_sym idx) (length idx) thr k v i j Hk Hx Hy N) as G.
      unfold cmat in G. rewrite (concept_matrix_entry V zero err dist idx i j Hi Hj) in G.
      destruct (Nat.ltb_spec i j); [exact G|lia].
    Qed.
  End Complete.

  (* ---------------------------------------------------------------- *)
  Section Terminal.
    Hypothesis leb_total : forall a b, leb a b = true \/ leb b a = true.
    Hypothesis leb_trans : forall a b c, leb a b = true -> leb b c = true -> leb a c = true.

    (* every linkage: the words of a concept that carry the identifier ci, as
       positions of the concept's index list *)
    Definition carries (out : list (nat * nat)) (idx : list nat) (ci : nat) (p : nat) : Prop :=
      p < length idx /\ In (nth p idx 0, ci) out.

    (* two different cognate sets of one concept are blocks of the clustering
       whose linkage exceeds the threshold: nothing that the chosen linkage would
       still merge is left apart *)
    Theorem sets_are_separated wl out : NoDup (map rid wl) -> LC wl = Some out ->
      forall c ci cj i j, In c (concepts wl) -> ci <> cj ->
        carries out (indices wl c) ci i -> carries out (indices wl c) cj j ->
        exists va vb,
          (forall p, In p va <-> carries out (indices wl c) ci p) /\
          (forall p, In p vb <-> carries out (indices wl c) cj p) /\
          leb (link (cross (M (indices wl c)) va vb)) thr = false.
    Proof.
      intros ND E c ci cj i j Hc N [Hi I1] [Hj I2]. set (idx := indices wl c) in *.
      set (cl := flat leb link (M idx) (length idx) thr).
      assert (P : forall p q cp cq, p < length idx -> q < length idx ->
                  In (nth p idx 0, cp) out -> In (nth q idx 0, cq) out -> (cp = cq <-> together cl p q)).
      { intros p q cp cq Hp Hq J1 J2.
        apply (ids_are_flat_partition V leb link zero err dist thr wl out ND E c p q cp cq Hc Hp Hq J1 J2). }
      assert (C1 : forall p, p < length idx -> count p cl = 1).
      { intros p Hp. unfold cl. rewrite flat_partition. destruct (Nat.ltb_spec p (length idx)); [reflexivity|lia]. }
      destruct (count_pos_in i cl) as [a [va [Ha Hia]]]; [rewrite C1; lia|].
      destruct (count_pos_in j cl) as [b [vb [Hb Hjb]]]; [rewrite C1; lia|].
      pose proof (flat_keys_nodup V leb link (M idx) (length idx) thr) as W. fold cl in W.
      (* every position of a block is below n and has an identifier *)
      assert (IL : forall k v p, In (k, v) cl -> In p v -> p < length idx).
      { intros k v p Hk Hp. destruct (Nat.lt_ge_cases p (length idx)) as [L|L]; [exact L|]. exfalso.
        pose proof (in_count_pos p cl k v Hk Hp) as Q. unfold cl in Q. rewrite flat_partition in Q.
        destruct (Nat.ltb_spec p (length idx)); lia. }
      destruct (ids_total V leb link zero err dist thr wl ND) as [out' [E' [F1 _]]].
      assert (out' = out) by congruence. subst out'.
      assert (HasId : forall p, p < length idx -> exists cp, In (nth p idx 0, cp) out).
      { intros p Hp. assert (In (nth p idx 0) (map fst out)).
        { rewrite F1. assert (Hin : In (nth p idx 0) idx) by (apply nth_In, Hp).
          apply indices_in in Hin. destruct Hin as [r [Hr [Er _]]]. rewrite <- Er. apply in_map, Hr. }
        rewrite in_map_iff in H. destruct H as [[x cp] [Ex Hx]]. cbn in Ex. subst x. eauto. }
      assert (Blk : forall k v q cq, In (k, v) cl -> In q v -> q < length idx -> In (nth q idx 0, cq) out ->
                forall p, In p v <-> carries out idx cq p).
      { intros k v q cq Hk Hq Lq Jq p. split.
        - intros Hp. pose proof (IL k v p Hk Hp) as Lp. split; [exact Lp|].
          destruct (HasId p Lp) as [cp Jp].
          assert (cp = cq); [|subst; exact Jp].
          apply (P p q cp cq Lp Lq Jp Jq). exists k, v. tauto.
        - intros [Lp Jp]. pose proof (proj1 (P p q cq cq Lp Lq Jp Jq) eq_refl) as [k' [v' [Hk' [Hp' Hq']]]].
          assert (Cq : count q cl <= 1) by (rewrite C1; [lia|exact Lq]).
          destruct (count_two q cl k' v' k v W Hk' Hk Hq' Hq Cq) as [_ ->]. exact Hp'. }
      exists va, vb. split; [apply (Blk a va i ci Ha Hia Hi I1)|]. split; [apply (Blk b vb j cj Hb Hjb Hj I2)|].
      assert (Nab : a <> b).
      { intros ->. assert (va = vb) as -> by
          (pose proof (in_lookup _ _ _ W Ha); pose proof (in_lookup _ _ _ W Hb); congruence).
        apply N. apply (P i j ci cj Hi Hj I1 I2). exists b, vb. tauto. }
      destruct (flat_terminal V leb link (M idx) leb_total leb_trans (length idx) thr) as [T|T]; fold cl in T.
      - exfalso. destruct cl as [|x [|y tl]]; [destruct Ha| |cbn in T; lia].
        destruct Ha as [Ea|[]], Hb as [Eb|[]]. rewrite Ea in Eb. inversion Eb. congruence.
      - apply (T a b va vb Ha Hb Nab).
    Qed.
  End Terminal.
End Deepen.
