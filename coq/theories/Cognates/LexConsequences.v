(* Consequences of ids_are_flat_partition for particular distances / linkages:
   a two-valued key distance (Turchin) and single linkage (connected components). *)
From Coq Require Import List Arith Bool Lia Relations.
From LV Require Import Cluster.Flat Cluster.FlatProofs Cluster.FlatLinkage
  Cognates.LexCluster Cognates.LexIndexProofs Cognates.LexMatrixProofs Cognates.LexClusterProofs
  Cognates.LexTheorems Cognates.TurchinProofs.
Import ListNotations.

(* the matrix of a concept as a function *)
Definition cmat (V : Type) (zero err : V) (dist : nat -> nat -> option V) (idx : list nat) : nat -> nat -> V :=
  dmv V zero (squareform V zero (condensed V err dist idx)).

Section Consequences.
  Variable V : Type.
  Variable leb : V -> V -> bool.
  Variable link : list V -> V.
  Variable zero : V.
  Variable err : V.
  Variable dist : nat -> nat -> option V.
  Variable thr : V.

  Hypothesis leb_total : forall a b, leb a b = true \/ leb b a = true.
  Hypothesis leb_trans : forall a b c, leb a b = true -> leb b c = true -> leb a c = true.

  Notation LC := (lex_cluster V leb link zero err dist thr).
  Notation D := (D V err dist).
  Notation concept_flat := (concept_flat V leb link zero err dist thr).
  Notation M := (cmat V zero err dist).

  (* both words of a row pair, located in the group of their common concept *)
  Lemma same_concept_positions wl r1 r2 : In r1 wl -> In r2 wl -> rconcept r1 = rconcept r2 ->
    exists i j, i < length (indices wl (rconcept r1)) /\ j < length (indices wl (rconcept r1)) /\
      nth i (indices wl (rconcept r1)) 0 = rid r1 /\ nth j (indices wl (rconcept r1)) 0 = rid r2.
  Proof.
    intros H1 H2 E.
    assert (I1 : In (rid r1) (indices wl (rconcept r1))) by (apply indices_in; eauto).
    assert (I2 : In (rid r2) (indices wl (rconcept r1))) by (apply indices_in; exists r2; auto).
    destruct (In_nth _ _ 0 I1) as [i [Hi Ei]]. destruct (In_nth _ _ 0 I2) as [j [Hj Ej]]. eauto 8.
  Qed.

  (* ---------------------------------------------------------------- *)
  Section KeyDistance.
    Variable K : Type.
    Variable K_dec : forall a b : K, {a = b} + {a <> b}.
    Variable wkey : nat -> K.          (* the key of a word, by row key *)
    Variable one : V.

    Hypothesis dist_key : forall a b, (wkey a = wkey b -> D a b = zero) /\ (wkey a <> wkey b -> D a b = one).
    Hypothesis zero_in : leb zero thr = true.
    Hypothesis one_out : leb one thr = false.
    Hypothesis link_const : forall l c, l <> [] -> (forall s, In s l -> s = c) -> leb (link l) thr = leb c thr.

    (* Turchin-like distance, threshold separating the two values: two words share
       an identifier iff they have the same concept and the same key *)
    Theorem key_classes wl out : NoDup (map rid wl) -> LC wl = Some out ->
      forall r1 r2 c1 c2, In r1 wl -> In r2 wl -> In (rid r1, c1) out -> In (rid r2, c2) out ->
        (c1 = c2 <-> rconcept r1 = rconcept r2 /\ wkey (rid r1) = wkey (rid r2)).
    Proof.
      intros ND E r1 r2 c1 c2 H1 H2 I1 I2.
      destruct (Nat.eq_dec (rconcept r1) (rconcept r2)) as [EC|NC].
      2:{ split; [|tauto]. intros EQ. exfalso.
          apply (ids_concept_disjoint V leb link zero err dist thr wl out ND E r1 r2 c1 c2 H1 H2 NC I1 I2 EQ). }
      destruct (same_concept_positions wl r1 r2 H1 H2 EC) as [i [j [Hi [Hj [Ei Ej]]]]].
      set (idx := indices wl (rconcept r1)) in *.
      assert (Hc : In (rconcept r1) (concepts wl)) by (apply concepts_in; eauto).
      rewrite <- Ei in I1. rewrite <- Ej in I2.
      rewrite (ids_are_flat_partition V leb link zero err dist thr wl out ND E _ i j c1 c2 Hc Hi Hj I1 I2).
      unfold LexClusterProofs.concept_flat. fold idx.
      change (dmv V zero (squareform V zero (condensed V err dist idx))) with (M idx).
      rewrite (classes_flat V leb link (M idx) K K_dec (fun p => wkey (nth p idx 0)) (length idx) thr zero one
                 leb_total leb_trans); try assumption.
      - rewrite Ei, Ej. tauto.
      - intros x y Hx Hy Nxy. unfold cmat. rewrite (concept_matrix_entry V zero err dist idx x y Hx Hy).
        destruct (Nat.ltb_spec x y) as [L|L]; [apply dist_key|].
        destruct (Nat.ltb_spec y x) as [L'|L']; [|lia].
        destruct (dist_key (nth y idx 0) (nth x idx 0)) as [A B]. split; intros H.
        + apply A. congruence.
        + apply B. congruence.
    Qed.
  End KeyDistance.

  (* ---------------------------------------------------------------- *)
  Section SingleLinkage.
    Hypothesis link_min : forall l t, l <> [] ->
      (leb (link l) t = true <-> exists s, In s l /\ leb s t = true).

    (* word a precedes word b in the index list of the concept and their distance
       (as passed to the distance function, in that order) is within the threshold *)
    Definition near (idx : list nat) (a b : nat) : Prop :=
      exists i j, i < j /\ j < length idx /\ nth i idx 0 = a /\ nth j idx 0 = b /\ leb (D a b) thr = true.

    Definition linked (idx : list nat) : nat -> nat -> Prop := clos_refl_sym_trans nat (near idx).

    Lemma edge_near idx i j : NoDup idx ->
      edge V leb (M idx) (length idx) thr i j ->
      i = j \/ near idx (nth i idx 0) (nth j idx 0) \/ near idx (nth j idx 0) (nth i idx 0).
    Proof.
      intros ND [Hi [Hj H]]. destruct (Nat.lt_total i j) as [L|[L|L]]; [|left; exact L|].
      - right. left. exists i, j. split; [exact L|]. split; [exact Hj|]. split; [reflexivity|]. split; [reflexivity|].
        unfold cmat in H. rewrite !(concept_matrix_entry V zero err dist idx) in H by assumption.
        destruct (Nat.ltb_spec i j); [|lia]. destruct (Nat.ltb_spec j i); [lia|]. tauto.
      - right. right. exists j, i. split; [exact L|]. split; [exact Hi|]. split; [reflexivity|]. split; [reflexivity|].
        unfold cmat in H. rewrite !(concept_matrix_entry V zero err dist idx) in H by assumption.
        destruct (Nat.ltb_spec i j); [lia|]. destruct (Nat.ltb_spec j i); [|lia]. tauto.
    Qed.

    Lemma conn_linked idx i j : NoDup idx -> conn V leb (M idx) (length idx) thr i j ->
      linked idx (nth i idx 0) (nth j idx 0).
    Proof.
      intros ND C. induction C as [x y E|x|x y C IH|x y z C1 IH1 C2 IH2].
      - destruct (edge_near idx x y ND E) as [->|[H|H]]; [apply rst_refl|apply rst_step, H|apply rst_sym, rst_step, H].
      - apply rst_refl.
      - apply rst_sym, IH.
      - eapply rst_trans; eauto.
    Qed.

    Lemma near_in idx a b : near idx a b -> In a idx /\ In b idx.
    Proof. intros [i [j [L [Hj [<- [<- _]]]]]]. split; apply nth_In; lia. Qed.

    Lemma linked_in idx a b : linked idx a b -> (In a idx <-> In b idx).
    Proof.
      intros C. induction C as [x y E|x|x y C IH|x y z C1 IH1 C2 IH2]; try tauto.
      apply near_in in E. tauto.
    Qed.

    Lemma linked_conn idx a b : NoDup idx -> linked idx a b ->
      forall i j, i < length idx -> j < length idx -> nth i idx 0 = a -> nth j idx 0 = b ->
        conn V leb (M idx) (length idx) thr i j.
    Proof.
      intros ND C. induction C as [x y E|x|x y C IH|x y z C1 IH1 C2 IH2]; intros i j Hi Hj Ei Ej.
      - destruct E as [i' [j' [L [Hj' [Ei' [Ej' H]]]]]].
        assert (i' = i) by (apply (proj1 (NoDup_nth idx 0) ND); [lia|exact Hi|congruence]).
        assert (j' = j) by (apply (proj1 (NoDup_nth idx 0) ND); [lia|exact Hj|congruence]).
        subst i' j'. apply rst_step. split; [exact Hi|]. split; [exact Hj|]. left. unfold cmat.
        rewrite (concept_matrix_entry V zero err dist idx i j Hi Hj).
        destruct (Nat.ltb_spec i j); [|lia]. rewrite Ei, Ej. exact H.
      - assert (i = j) by (apply (proj1 (NoDup_nth idx 0) ND); [exact Hi|exact Hj|congruence]).
        subst. apply rst_refl.
      - apply rst_sym. apply IH; assumption.
      - assert (Iy : In y idx).
        { apply (linked_in idx x y C1). rewrite <- Ei. apply nth_In, Hi. }
        destruct (In_nth _ _ 0 Iy) as [m [Hm Em]].
        eapply rst_trans; [apply (IH1 i m)|apply (IH2 m j)]; assumption.
    Qed.

    (* single linkage: two words share an identifier iff they have the same
       concept and are connected by a chain of words of that concept with
       consecutive distances within the threshold *)
    Theorem single_linkage_components wl out : NoDup (map rid wl) -> LC wl = Some out ->
      forall r1 r2 c1 c2, In r1 wl -> In r2 wl -> In (rid r1, c1) out -> In (rid r2, c2) out ->
        (c1 = c2 <-> rconcept r1 = rconcept r2 /\ linked (indices wl (rconcept r1)) (rid r1) (rid r2)).
    Proof.
      intros ND E r1 r2 c1 c2 H1 H2 I1 I2.
      destruct (Nat.eq_dec (rconcept r1) (rconcept r2)) as [EC|NC].
      2:{ split; [|tauto]. intros EQ. exfalso.
          apply (ids_concept_disjoint V leb link zero err dist thr wl out ND E r1 r2 c1 c2 H1 H2 NC I1 I2 EQ). }
      destruct (same_concept_positions wl r1 r2 H1 H2 EC) as [i [j [Hi [Hj [Ei Ej]]]]].
      set (idx := indices wl (rconcept r1)) in *.
      assert (Hc : In (rconcept r1) (concepts wl)) by (apply concepts_in; eauto).
      assert (NDi : NoDup idx) by (apply indices_nodup, ND).
      rewrite <- Ei in I1. rewrite <- Ej in I2.
      rewrite (ids_are_flat_partition V leb link zero err dist thr wl out ND E _ i j c1 c2 Hc Hi Hj I1 I2).
      unfold LexClusterProofs.concept_flat. fold idx.
      change (dmv V zero (squareform V zero (condensed V err dist idx))) with (M idx).
      rewrite (single_components V leb link (M idx) leb_total leb_trans link_min (length idx) thr i j Hi Hj).
      split.
      - intros C. split; [exact EC|]. rewrite <- Ei, <- Ej. apply conn_linked; assumption.
      - intros [_ C]. apply (linked_conn idx _ _ NDi C); assumption.
    Qed.
  End SingleLinkage.
End Consequences.
