(* Specification of Cognates/Components.v: the blocks are a partition of the
   node list (a permutation, no empty block) and two nodes lie in the same
   block iff they are related by the reflexive-symmetric-transitive closure of
   the edge test restricted to the node list. *)
From Coq Require Import List Arith Bool Lia Relations Permutation.
From LV Require Import Cognates.Components.
Import ListNotations.

Lemma memb_In x l : memb x l = true <-> In x l.
Proof.
  unfold memb. rewrite existsb_exists. split.
  - intros [y [Hy E]]. apply Nat.eqb_eq in E. subst y. exact Hy.
  - intros H. exists x. split; [exact H|apply Nat.eqb_refl].
Qed.

Lemma memb_false x l : memb x l = false <-> ~ In x l.
Proof.
  rewrite <- memb_In. destruct (memb x l); split; intros H; congruence.
Qed.

Lemma existsb_false {A} (f : A -> bool) l : existsb f l = false -> forall x, In x l -> f x = false.
Proof.
  intros H x Hx. destruct (f x) eqn:F; [|reflexivity].
  assert (T : existsb f l = true) by (apply existsb_exists; exists x; split; assumption).
  congruence.
Qed.

Lemma filter_split_perm {A} (f : A -> bool) l :
  Permutation (filter f l ++ filter (fun y => negb (f y)) l) l.
Proof.
  induction l as [|a l IH]; cbn [filter app].
  - constructor.
  - destruct (f a); cbn [negb app].
    + constructor. exact IH.
    + apply Permutation_sym. eapply Permutation_trans; [|apply Permutation_middle].
      constructor. apply Permutation_sym. exact IH.
Qed.

Lemma filter_length_le {A} (f : A -> bool) l : length (filter f l) <= length l.
Proof. induction l as [|a l IH]; cbn [filter length]; [lia|]. destruct (f a); cbn [length]; lia. Qed.

Lemma filter_split_length {A} (f : A -> bool) l :
  length (filter f l) + length (filter (fun y => negb (f y)) l) = length l.
Proof.
  rewrite <- app_length. apply Permutation_length. apply filter_split_perm.
Qed.

Lemma block_index_lt x blocks : In x (concat blocks) -> block_index x blocks < length blocks.
Proof.
  induction blocks as [|b tl IH]; cbn [concat block_index length]; intros H; [destruct H|].
  destruct (memb x b) eqn:M; [lia|].
  apply in_app_or in H. destruct H as [H|H].
  - apply memb_In in H. congruence.
  - apply IH in H. lia.
Qed.

Lemma block_index_in x blocks : In x (concat blocks) -> In x (nth (block_index x blocks) blocks []).
Proof.
  induction blocks as [|b tl IH]; cbn [concat block_index]; intros H; [destruct H|].
  destruct (memb x b) eqn:M.
  - cbn [nth]. apply memb_In. exact M.
  - cbn [nth]. apply IH. apply in_app_or in H. destruct H as [H|H]; [|exact H].
    apply memb_In in H. congruence.
Qed.

Lemma block_index_unique x blocks i :
  NoDup (concat blocks) -> i < length blocks -> In x (nth i blocks []) -> block_index x blocks = i.
Proof.
  revert i. induction blocks as [|b tl IH]; intros i N L H; cbn [length] in L; [lia|].
  cbn [block_index concat] in *. destruct i as [|i]; cbn [nth] in H.
  - apply memb_In in H. rewrite H. reflexivity.
  - assert (Hc : In x (concat tl)).
    { apply in_concat. exists (nth i tl []). split; [apply nth_In; lia|exact H]. }
    destruct (memb x b) eqn:M.
    + apply memb_In in M. exfalso. revert N M Hc. clear. induction b as [|a b IHb]; intros N M Hc; [destruct M|].
      cbn [app] in N. inversion N as [|? ? Hn N']; subst. destruct M as [->|M].
      * apply Hn. apply in_or_app. right. exact Hc.
      * apply IHb; assumption.
    + f_equal. apply IH; [|lia|exact H].
      revert N. clear. induction b as [|a b IHb]; cbn [app]; intros N; [exact N|].
      inversion N; subst. apply IHb. assumption.
Qed.

Section Proofs.
  Variable edge : nat -> nat -> bool.
  Variable U : list nat.                 (* the node list = the universe of the graph *)

  Definition E (x y : nat) : Prop := In x U /\ In y U /\ edge x y = true.
  Definition conn : nat -> nat -> Prop := clos_refl_sym_trans nat E.

  Lemma adj_sym x y : adj edge x y = adj edge y x.
  Proof. unfold adj. apply orb_comm. Qed.

  Lemma adj_conn x y : In x U -> In y U -> adj edge x y = true -> conn x y.
  Proof.
    intros Hx Hy A. unfold adj in A. apply orb_true_iff in A. destruct A as [A|A].
    - apply rst_step. repeat split; assumption.
    - apply rst_sym. apply rst_step. repeat split; assumption.
  Qed.

  Lemma grow_perm fuel : forall blk rest,
    Permutation (fst (grow edge fuel blk rest) ++ snd (grow edge fuel blk rest)) (blk ++ rest).
  Proof.
    induction fuel as [|f IH]; intros blk rest; cbn [grow].
    - reflexivity.
    - destruct (filter (adj_to edge blk) rest) as [|n l] eqn:F.
      + reflexivity.
      + rewrite <- F. eapply Permutation_trans; [apply IH|].
        rewrite <- app_assoc. apply Permutation_app_head. apply filter_split_perm.
  Qed.

  Lemma grow_snd_length fuel : forall blk rest, length (snd (grow edge fuel blk rest)) <= length rest.
  Proof.
    induction fuel as [|f IH]; intros blk rest; cbn [grow].
    - cbn [snd]. lia.
    - destruct (filter (adj_to edge blk) rest) as [|n l] eqn:F.
      + cbn [snd]. lia.
      + eapply Nat.le_trans; [apply IH|]. apply filter_length_le.
  Qed.

  Lemma grow_fst_prefix fuel : forall blk rest, exists l, fst (grow edge fuel blk rest) = blk ++ l.
  Proof.
    induction fuel as [|f IH]; intros blk rest; cbn [grow].
    - exists []. cbn [fst]. rewrite app_nil_r. reflexivity.
    - destruct (filter (adj_to edge blk) rest) as [|n l] eqn:F.
      + exists []. cbn [fst]. rewrite app_nil_r. reflexivity.
      + destruct (IH (blk ++ n :: l) (filter (fun y => negb (adj_to edge blk y)) rest)) as [l' El].
        exists ((n :: l) ++ l'). rewrite El. rewrite app_assoc. reflexivity.
  Qed.

  Lemma grow_closed fuel : forall blk rest, length rest <= fuel ->
    forall y, In y (snd (grow edge fuel blk rest)) -> adj_to edge (fst (grow edge fuel blk rest)) y = false.
  Proof.
    induction fuel as [|f IH]; intros blk rest L y Hy; cbn [grow] in *.
    - destruct rest as [|r rest]; [destruct Hy|cbn [length] in L; lia].
    - destruct (filter (adj_to edge blk) rest) as [|n l] eqn:F.
      + cbn [fst snd] in *. destruct (adj_to edge blk y) eqn:A; [|reflexivity].
        assert (H : In y (filter (adj_to edge blk) rest)) by (apply filter_In; split; assumption).
        rewrite F in H. destruct H.
      + apply IH; [|exact Hy].
        pose proof (filter_split_length (adj_to edge blk) rest) as S. rewrite F in S. cbn [length] in S. lia.
  Qed.

  Lemma grow_incl fuel blk rest : incl blk U -> incl rest U ->
    incl (fst (grow edge fuel blk rest)) U /\ incl (snd (grow edge fuel blk rest)) U.
  Proof.
    intros Hb Hr. pose proof (grow_perm fuel blk rest) as P.
    assert (H : forall a, In a (fst (grow edge fuel blk rest) ++ snd (grow edge fuel blk rest)) -> In a U).
    { intros a Ha. eapply Permutation_in in Ha; [|exact P]. apply in_app_or in Ha. destruct Ha as [Ha|Ha]; auto. }
    split; intros a Ha; apply H; apply in_or_app; [left|right]; exact Ha.
  Qed.

  Lemma grow_conn fuel : forall r blk rest, incl blk U -> incl rest U ->
    (forall a, In a blk -> conn r a) ->
    forall a, In a (fst (grow edge fuel blk rest)) -> conn r a.
  Proof.
    induction fuel as [|f IH]; intros r blk rest Hb Hr Hc a Ha; cbn [grow] in Ha.
    - apply Hc. exact Ha.
    - destruct (filter (adj_to edge blk) rest) as [|n l] eqn:F.
      + apply Hc. exact Ha.
      + rewrite <- F in Ha. eapply IH; [| |  |exact Ha].
        * apply incl_app; [exact Hb|]. intros z Hz. apply filter_In in Hz. apply Hr. apply Hz.
        * intros z Hz. apply filter_In in Hz. apply Hr. apply Hz.
        * intros z Hz. apply in_app_or in Hz. destruct Hz as [Hz|Hz]; [apply Hc; exact Hz|].
          apply filter_In in Hz. destruct Hz as [Hz A]. unfold adj_to in A. apply existsb_exists in A.
          destruct A as [x [Hx A]]. eapply rst_trans; [apply Hc; exact Hx|].
          apply adj_conn; auto.
  Qed.

  Fixpoint sepP (blocks : list (list nat)) : Prop :=
    match blocks with
    | [] => True
    | b :: tl => (forall x y, In x b -> In y (concat tl) -> adj edge x y = false) /\ sepP tl
    end.

  Definition connP (blocks : list (list nat)) : Prop :=
    Forall (fun b => forall x y, In x b -> In y b -> conn x y) blocks.

  Lemma comps_perm fuel : forall nodes, length nodes <= fuel ->
    Permutation (concat (comps edge fuel nodes)) nodes.
  Proof.
    induction fuel as [|f IH]; intros nodes L.
    - destruct nodes; cbn [length] in L; [constructor|lia].
    - cbn [comps]. destruct nodes as [|x rest]; [constructor|]. cbn [concat length] in *.
      eapply Permutation_trans.
      + apply Permutation_app_head. apply IH.
        pose proof (grow_snd_length (length rest) [x] rest). lia.
      + apply (grow_perm (length rest) [x] rest).
  Qed.

  Lemma comps_length fuel : forall nodes, length (comps edge fuel nodes) <= length nodes.
  Proof.
    induction fuel as [|f IH]; intros nodes; cbn [comps].
    - cbn [length]. lia.
    - destruct nodes as [|x rest]; cbn [length]; [lia|].
      pose proof (IH (snd (grow edge (length rest) [x] rest))).
      pose proof (grow_snd_length (length rest) [x] rest). lia.
  Qed.

  Lemma comps_nonempty fuel : forall nodes, Forall (fun b => b <> []) (comps edge fuel nodes).
  Proof.
    induction fuel as [|f IH]; intros nodes; cbn [comps]; [constructor|].
    destruct nodes as [|x rest]; [constructor|]. constructor; [|apply IH].
    destruct (grow_fst_prefix (length rest) [x] rest) as [l El]. rewrite El. discriminate.
  Qed.

  Lemma comps_conn fuel : forall nodes, incl nodes U -> connP (comps edge fuel nodes).
  Proof.
    induction fuel as [|f IH]; intros nodes HU; cbn [comps]; [constructor|].
    destruct nodes as [|x rest]; [constructor|].
    assert (Hx : incl [x] U) by (intros z [<-|[]]; apply HU; left; reflexivity).
    assert (Hr : incl rest U) by (intros z Hz; apply HU; right; exact Hz).
    constructor.
    - assert (R : forall a, In a (fst (grow edge (length rest) [x] rest)) -> conn x a).
      { apply grow_conn; [exact Hx|exact Hr|]. intros a [<-|[]]. apply rst_refl. }
      intros a b Ha Hb. eapply rst_trans; [apply rst_sym; apply R; exact Ha|apply R; exact Hb].
    - apply IH. apply (grow_incl (length rest) [x] rest Hx Hr).
  Qed.

  Lemma comps_sep fuel : forall nodes, length nodes <= fuel -> sepP (comps edge fuel nodes).
  Proof.
    induction fuel as [|f IH]; intros nodes L; cbn [comps]; [exact I|].
    destruct nodes as [|x rest]; [exact I|]. cbn [length] in L.
    assert (Ls : length (snd (grow edge (length rest) [x] rest)) <= f).
    { pose proof (grow_snd_length (length rest) [x] rest). lia. }
    split.
    - intros a y Ha Hy.
      eapply Permutation_in in Hy; [|apply comps_perm; exact Ls].
      pose proof (grow_closed (length rest) [x] rest (le_n _) y Hy) as C.
      unfold adj_to in C. apply (existsb_false _ _ C a Ha).
    - apply IH. exact Ls.
  Qed.

  Lemma sep_index blocks : sepP blocks -> forall x y,
    In x (concat blocks) -> In y (concat blocks) -> adj edge x y = true ->
    block_index x blocks = block_index y blocks.
  Proof.
    induction blocks as [|b tl IH]; intros S x y Hx Hy A; [destruct Hx|].
    cbn [sepP concat block_index] in *. destruct S as [S1 S2].
    destruct (memb x b) eqn:Mx; destruct (memb y b) eqn:My.
    - reflexivity.
    - apply memb_In in Mx. apply in_app_or in Hy. destruct Hy as [Hy|Hy].
      + apply memb_In in Hy. congruence.
      + rewrite (S1 x y Mx Hy) in A. discriminate.
    - apply memb_In in My. apply in_app_or in Hx. destruct Hx as [Hx|Hx].
      + apply memb_In in Hx. congruence.
      + rewrite adj_sym in A. rewrite (S1 y x My Hx) in A. discriminate.
    - f_equal. apply IH; [exact S2| | |exact A].
      + apply in_app_or in Hx. destruct Hx as [Hx|Hx]; [apply memb_In in Hx; congruence|exact Hx].
      + apply in_app_or in Hy. destruct Hy as [Hy|Hy]; [apply memb_In in Hy; congruence|exact Hy].
  Qed.

  Lemma conn_index blocks : connP blocks -> forall x y,
    In x (concat blocks) -> In y (concat blocks) ->
    block_index x blocks = block_index y blocks -> conn x y.
  Proof.
    induction blocks as [|b tl IH]; intros C x y Hx Hy Eq; [destruct Hx|].
    cbn [concat block_index] in *. inversion C as [|? ? Cb Ctl]; subst.
    destruct (memb x b) eqn:Mx; destruct (memb y b) eqn:My; try discriminate.
    - apply Cb; apply memb_In; assumption.
    - apply IH; [exact Ctl| | |congruence].
      + apply in_app_or in Hx. destruct Hx as [Hx|Hx]; [apply memb_In in Hx; congruence|exact Hx].
      + apply in_app_or in Hy. destruct Hy as [Hy|Hy]; [apply memb_In in Hy; congruence|exact Hy].
  Qed.

  (* ---------------------------------------------------------------- *)
  (* the specification of [components] on the node list U *)

  Theorem components_partition : Permutation (concat (components edge U)) U.
  Proof. apply comps_perm. apply le_n. Qed.

  Theorem components_nonempty : Forall (fun b => b <> []) (components edge U).
  Proof. apply comps_nonempty. Qed.

  Theorem components_length : length (components edge U) <= length U.
  Proof. apply comps_length. Qed.

  Lemma components_in x : In x U <-> In x (concat (components edge U)).
  Proof.
    split; intros H.
    - eapply Permutation_in; [apply Permutation_sym; apply components_partition|exact H].
    - eapply Permutation_in; [apply components_partition|exact H].
  Qed.

  Theorem components_index_lt x : In x U -> block_index x (components edge U) < length (components edge U).
  Proof. intros H. apply block_index_lt. apply components_in. exact H. Qed.

  Theorem components_spec x y : In x U -> In y U ->
    (block_index x (components edge U) = block_index y (components edge U) <-> conn x y).
  Proof.
    intros Hx Hy. split.
    - apply conn_index; [apply comps_conn; apply incl_refl|apply components_in; exact Hx|apply components_in; exact Hy].
    - intros C. clear Hx Hy. induction C as [a b Hab|a|a b _ IH|a b c _ IH1 _ IH2].
      + destruct Hab as [Ha [Hb Hab]]. apply sep_index.
        * apply comps_sep. apply le_n.
        * apply components_in. exact Ha.
        * apply components_in. exact Hb.
        * unfold adj. rewrite Hab. reflexivity.
      + reflexivity.
      + symmetry. exact IH.
      + congruence.
  Qed.
End Proofs.
