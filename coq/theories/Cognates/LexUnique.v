(* "Precisely the partition obtained by threshold clustering": when the matrix of
   a concept has no ties AMONG ITS OWN ITEMS, every run of the textbook
   specification of threshold-bounded agglomerative clustering (FlatTextbook.tb_run:
   merge some pair of minimal linkage while that minimum is <= threshold) from the
   singletons ends in the partition the identifiers of LexStat.cluster describe.

   FlatUnique.no_ties quantifies over partition states with arbitrary items and
   can therefore not hold for a matrix (all entries outside the matrix are the
   default value); here the hypothesis is restricted to states over the items
   0..n-1, which is what a concrete matrix can satisfy. *)
From Coq Require Import List Arith Bool Lia Permutation.
From LV Require Import Cluster.Flat Cluster.FlatProofs Cluster.FlatLinkage Cluster.FlatTextbook Cluster.FlatUnique
  Cognates.LexCluster Cognates.LexIndexProofs Cognates.LexMatrixProofs Cognates.LexClusterProofs
  Cognates.LexTheorems Cognates.LexConsequences.
Import ListNotations.

Section BoundedUnique.
  Variable V : Type.
  Variable leb : V -> V -> bool.
  Variable link : list V -> V.
  Variable d : nat -> nat -> V.
  Hypothesis leb_total : forall a b, leb a b = true \/ leb b a = true.
  Hypothesis leb_trans : forall a b c, leb a b = true -> leb b c = true -> leb a c = true.
  Hypothesis link_perm : forall l l', Permutation l l' -> link l = link l'.
  Variable n : nat.

  Notation L := (fun va vb => link (cross d va vb)).

  (* no two different unordered pairs of blocks have equal linkage, in every
     partition state over the items 0..n-1 *)
  Definition no_ties_below : Prop :=
    forall cl, good cl -> items_lt n cl -> tie_free V leb link d cl.

  Lemma items_lt_merge cl a b va vb : good cl -> In (a, va) cl -> In (b, vb) cl -> a <> b ->
    items_lt n cl -> items_lt n (merge a b cl).
  Proof.
    intros [W _] Ha Hb N IL k v x Hk Hx. rewrite (in_merge a b cl va vb) in Hk by assumption.
    destruct Hk as [[-> ->]|[_ [_ Hk]]]; [|eapply IL; eauto].
    rewrite in_app_iff in Hx. destruct Hx as [Hx|Hx]; [apply (IL a va x Ha Hx)|apply (IL b vb x Hb Hx)].
  Qed.

  Theorem tb_run_unique_below thr : no_ties_below -> forall c1 r1, tb_run V leb link d thr c1 r1 ->
    forall c2 r2, tb_run V leb link d thr c2 r2 -> good c1 -> good c2 -> items_lt n c2 ->
      same_part c1 c2 -> same_part r1 r2.
  Proof.
    intros NT c1 r1 R1. induction R1 as [c1 T1|c1 a b va vb r1 Ha Hb Nab Min1 Le1 R1 IH]; intros c2 r2 R2 G1 G2 IL2 S.
    - destruct R2 as [c2 T2|c2 c e vc ve r2 Hc He Nce Min2 Le2 R2]; [exact S|].
      exfalso. rewrite (terminal_transfer V leb link d link_perm thr c1 c2 G1 G2 S T1 c e vc ve Hc He Nce) in Le2. discriminate.
    - destruct R2 as [c2 T2|c2 c e vc ve r2 Hc He Nce Min2 Le2 R2].
      + exfalso.
        rewrite (terminal_transfer V leb link d link_perm thr c2 c1 G2 G1 (same_part_sym _ _ S) T2 a b va vb Ha Hb Nab) in Le1.
        discriminate.
      + destruct (block_corr c1 c2 a va G1 G2 S Ha) as [a' [va' [Ha' Pa]]].
        destruct (block_corr c1 c2 b vb G1 G2 S Hb) as [b' [vb' [Hb' Pb]]].
        pose proof (corr_distinct c1 c2 a b va vb a' b' va' vb' G1 G2 Ha Hb Nab Ha' Hb' Pa Pb) as Nab'.
        destruct (block_corr c2 c1 c vc G2 G1 (same_part_sym _ _ S) Hc) as [c' [vc' [Hc' Pc]]].
        destruct (block_corr c2 c1 e ve G2 G1 (same_part_sym _ _ S) He) as [e' [ve' [He' Pe]]].
        pose proof (corr_distinct c2 c1 c e vc ve c' e' vc' ve' G2 G1 Hc He Nce Hc' He' Pc Pe) as Nce'.
        assert (E1 : leb (L va' vb') (L vc ve) = true).
        { cbv beta. rewrite <- (L_perm V link d link_perm va va' vb vb' Pa Pb).
          rewrite (L_perm V link d link_perm vc vc' ve ve' Pc Pe).
          exact (Min1 c' e' vc' ve' Hc' He' Nce'). }
        assert (E2 : leb (L vc ve) (L va' vb') = true) by exact (Min2 a' b' va' vb' Ha' Hb' Nab').
        assert (SAME : forall x, (In x va \/ In x vb) <-> (In x vc \/ In x ve)).
        { destruct (NT c2 G2 IL2 a' b' c e va' vb' vc ve Ha' Hb' Nab' Hc He Nce E1 E2) as [[Ea Eb]|[Ea Eb]]; subst.
          - assert (va' = vc) by (destruct G2 as [W2 _]; pose proof (in_lookup c c2 va' W2 Ha'); pose proof (in_lookup c c2 vc W2 Hc); congruence).
            assert (vb' = ve) by (destruct G2 as [W2 _]; pose proof (in_lookup e c2 vb' W2 Hb'); pose proof (in_lookup e c2 ve W2 He); congruence).
            subst. intros x. split; intros [X|X].
            + left. exact (Permutation_in x Pa X).
            + right. exact (Permutation_in x Pb X).
            + left. exact (Permutation_in x (Permutation_sym Pa) X).
            + right. exact (Permutation_in x (Permutation_sym Pb) X).
          - assert (va' = ve) by (destruct G2 as [W2 _]; pose proof (in_lookup e c2 va' W2 Ha'); pose proof (in_lookup e c2 ve W2 He); congruence).
            assert (vb' = vc) by (destruct G2 as [W2 _]; pose proof (in_lookup c c2 vb' W2 Hb'); pose proof (in_lookup c c2 vc W2 Hc); congruence).
            subst. intros x. split; intros [X|X].
            + right. exact (Permutation_in x Pa X).
            + left. exact (Permutation_in x Pb X).
            + right. exact (Permutation_in x (Permutation_sym Pb) X).
            + left. exact (Permutation_in x (Permutation_sym Pa) X). }
        apply (IH (merge c e c2) r2 R2).
        * exact (good_merge c1 a b va vb G1 Ha Hb Nab).
        * exact (good_merge c2 c e vc ve G2 Hc He Nce).
        * exact (items_lt_merge c2 c e vc ve G2 Hc He Nce IL2).
        * intros x y. rewrite (together_merge c1 a b va vb x y G1 Ha Hb Nab).
          rewrite (together_merge c2 c e vc ve x y G2 Hc He Nce).
          rewrite (S x y), (SAME x), (SAME y). tauto.
  Qed.

  Lemma items_lt_init : items_lt n (init n).
  Proof.
    intros k v x H Hx. unfold init in H. rewrite in_map_iff in H. destruct H as [i [E Hi]].
    inversion E; subst. destruct Hx as [<-|[]]. apply in_seq in Hi. lia.
  Qed.

  (* every textbook run from the singletons ends in the partition the flat
     clusterer returns *)
  Theorem flat_is_the_textbook_partition thr : no_ties_below ->
    forall r, tb_run V leb link d thr (init n) r -> same_part r (flat leb link d n thr).
  Proof.
    intros NT r R.
    apply (tb_run_unique_below thr NT (init n) r R (init n) (flat leb link d n thr)
             (flat_is_textbook V leb link d leb_total leb_trans n thr) (good_init n) (good_init n) items_lt_init).
    intros x y. tauto.
  Qed.
End BoundedUnique.

Section LexUnique.
  Variable V : Type.
  Variable leb : V -> V -> bool.
  Variable link : list V -> V.
  Variable zero : V.
  Variable err : V.
  Variable dist : nat -> nat -> option V.
  Variable thr : V.
  Hypothesis leb_total : forall a b, leb a b = true \/ leb b a = true.
  Hypothesis leb_trans : forall a b c, leb a b = true -> leb b c = true -> leb a c = true.
  Hypothesis link_perm : forall l l', Permutation l l' -> link l = link l'.

  (* C06, clause 3 at full strength for tie-free concepts: the identifiers describe
     THE partition of threshold clustering - whatever order of merges a textbook
     implementation chooses *)
  Theorem ids_are_the_textbook_partition wl out : NoDup (map rid wl) ->
    lex_cluster V leb link zero err dist thr wl = Some out ->
    forall c, In c (concepts wl) ->
      no_ties_below V leb link (cmat V zero err dist (indices wl c)) (length (indices wl c)) ->
      forall r, tb_run V leb link (cmat V zero err dist (indices wl c)) thr (init (length (indices wl c))) r ->
      forall i j ci cj, i < length (indices wl c) -> j < length (indices wl c) ->
        In (nth i (indices wl c) 0, ci) out -> In (nth j (indices wl c) 0, cj) out ->
        (ci = cj <-> together r i j).
  Proof.
    intros ND E c Hc NT r R i j ci cj Hi Hj I1 I2.
    rewrite (ids_are_flat_partition V leb link zero err dist thr wl out ND E c i j ci cj Hc Hi Hj I1 I2).
    unfold LexClusterProofs.concept_flat.
    change (LexCluster.dmv V zero (LexCluster.squareform V zero (condensed V err dist (indices wl c))))
      with (cmat V zero err dist (indices wl c)).
    symmetry.
    apply (flat_is_the_textbook_partition V leb link (cmat V zero err dist (indices wl c)) leb_total leb_trans link_perm
             (length (indices wl c)) thr NT r R).
  Qed.
End LexUnique.

(* ------------------------------------------------------------------ *)
(* three blocks over three items are the three singletons *)
Lemma three_blocks cl k1 k2 k3 v1 v2 v3 : good cl -> items_lt 3 cl ->
  In (k1, v1) cl -> In (k2, v2) cl -> In (k3, v3) cl -> k1 <> k2 -> k1 <> k3 -> k2 <> k3 ->
  exists h1 h2 h3, v1 = [h1] /\ v2 = [h2] /\ v3 = [h3] /\ h1 < 3 /\ h2 < 3 /\ h3 < 3 /\
                   h1 <> h2 /\ h1 <> h3 /\ h2 <> h3.
Proof.
  intros [W [NE DJ]] IL H1 H2 H3 N12 N13 N23.
  destruct (NE k1 v1 H1) as [E1 D1]. destruct (NE k2 v2 H2) as [E2 D2]. destruct (NE k3 v3 H3) as [E3 D3].
  destruct v1 as [|h1 t1]; [congruence|]. destruct v2 as [|h2 t2]; [congruence|]. destruct v3 as [|h3 t3]; [congruence|].
  assert (L1 : h1 < 3) by (apply (IL k1 _ h1 H1); left; reflexivity).
  assert (L2 : h2 < 3) by (apply (IL k2 _ h2 H2); left; reflexivity).
  assert (L3 : h3 < 3) by (apply (IL k3 _ h3 H3); left; reflexivity).
  assert (A12 : h1 <> h2) by (intros ->; apply (DJ k1 _ k2 _ H1 H2 N12 h2); left; reflexivity).
  assert (A13 : h1 <> h3) by (intros ->; apply (DJ k1 _ k3 _ H1 H3 N13 h3); left; reflexivity).
  assert (A23 : h2 <> h3) by (intros ->; apply (DJ k2 _ k3 _ H2 H3 N23 h3); left; reflexivity).
  assert (Own : forall k v y kk vv, In (k, v) cl -> In (kk, vv) cl -> In y v -> In y vv -> k = kk).
  { intros k v y kk vv Hk Hkk Y1 Y2. destruct (Nat.eq_dec k kk) as [E|N]; [exact E|].
    exfalso. exact (DJ k v kk vv Hk Hkk N y Y1 Y2). }
  inversion D1 as [|? ? NI1 _]; inversion D2 as [|? ? NI2 _]; inversion D3 as [|? ? NI3 _]; subst.
  assert (t1 = []).
  { destruct t1 as [|y t]; [reflexivity|]. exfalso.
    assert (Ly : y < 3) by (apply (IL k1 _ y H1); right; left; reflexivity).
    assert (Yh : y <> h1) by (intros ->; apply NI1; left; reflexivity).
    assert (C : y = h2 \/ y = h3) by lia. destruct C as [C|C]; subst y.
    - apply N12. apply (Own k1 _ h2 k2 _ H1 H2); [right; left; reflexivity|left; reflexivity].
    - apply N13. apply (Own k1 _ h3 k3 _ H1 H3); [right; left; reflexivity|left; reflexivity]. }
  assert (t2 = []).
  { destruct t2 as [|y t]; [reflexivity|]. exfalso.
    assert (Ly : y < 3) by (apply (IL k2 _ y H2); right; left; reflexivity).
    assert (Yh : y <> h2) by (intros ->; apply NI2; left; reflexivity).
    assert (C : y = h1 \/ y = h3) by lia. destruct C as [C|C]; subst y.
    - apply N12. symmetry. apply (Own k2 _ h1 k1 _ H2 H1); [right; left; reflexivity|left; reflexivity].
    - apply N23. apply (Own k2 _ h3 k3 _ H2 H3); [right; left; reflexivity|left; reflexivity]. }
  assert (t3 = []).
  { destruct t3 as [|y t]; [reflexivity|]. exfalso.
    assert (Ly : y < 3) by (apply (IL k3 _ y H3); right; left; reflexivity).
    assert (Yh : y <> h3) by (intros ->; apply NI3; left; reflexivity).
    assert (C : y = h1 \/ y = h2) by lia. destruct C as [C|C]; subst y.
    - apply N13. symmetry. apply (Own k3 _ h1 k1 _ H3 H1); [right; left; reflexivity|left; reflexivity].
    - apply N23. symmetry. apply (Own k3 _ h2 k2 _ H3 H2); [right; left; reflexivity|left; reflexivity]. }
  subst. exists h1, h2, h3. repeat split; assumption.
Qed.

(* a matrix over three items whose three off-diagonal entries are pairwise
   different (in both orientations) has no ties, for a linkage that maps a
   one-element list to (something comparing like) its element *)
Section ThreeItems.
  Variable V : Type.
  Variable leb : V -> V -> bool.
  Variable link : list V -> V.
  Variable d : nat -> nat -> V.
  Hypothesis distinct : forall x y x' y', x < 3 -> y < 3 -> x' < 3 -> y' < 3 -> x <> y -> x' <> y' ->
    leb (link [d x y]) (link [d x' y']) = true -> leb (link [d x' y']) (link [d x y]) = true ->
    (x = x' /\ y = y') \/ (x = y' /\ y = x').

  Lemma no_ties_below_three : no_ties_below V leb link d 3.
  Proof.
    intros cl G IL a b c e va vb vc ve Ha Hb Nab Hc He Nce E1 E2.
    assert (W : wf cl) by (destruct G as [W _]; exact W).
    assert (Same : forall k v v', In (k, v) cl -> In (k, v') cl -> v = v').
    { intros k v v' H H'. pose proof (in_lookup k cl v W H). pose proof (in_lookup k cl v' W H'). congruence. }
    destruct (Nat.eq_dec a c) as [Eac|Nac]; destruct (Nat.eq_dec b e) as [Ebe|Nbe];
      destruct (Nat.eq_dec a e) as [Eae|Nae]; destruct (Nat.eq_dec b c) as [Ebc|Nbc];
      try (left; split; assumption); try (right; split; assumption); try (exfalso; congruence); exfalso.
    - (* a = c, b, e distinct *)
      subst c. assert (vc = va) by (apply (Same a); assumption). subst vc.
      destruct (three_blocks cl a b e va vb ve G IL Ha Hb He Nab Nae Nbe)
        as [h1 [h2 [h3 [-> [-> [-> [L1 [L2 [L3 [A12 [A13 A23]]]]]]]]]]].
      cbn [cross flat_map map app] in E1, E2.
      destruct (distinct h1 h2 h1 h3 L1 L2 L1 L3 A12 A13 E1 E2) as [[_ F]|[F _]]; congruence.
    - (* b = e; a, b, c distinct *)
      subst e. assert (ve = vb) by (apply (Same b); assumption). subst ve.
      destruct (three_blocks cl a b c va vb vc G IL Ha Hb Hc Nab Nac Nbc)
        as [h1 [h2 [h3 [-> [-> [-> [L1 [L2 [L3 [A12 [A13 A23]]]]]]]]]]].
      cbn [cross flat_map map app] in E1, E2.
      destruct (distinct h1 h2 h3 h2 L1 L2 L3 L2 A12 ltac:(congruence) E1 E2) as [[F _]|[F _]]; congruence.
    - (* a = e; a, b, c distinct *)
      subst e. assert (ve = va) by (apply (Same a); assumption). subst ve.
      destruct (three_blocks cl a b c va vb vc G IL Ha Hb Hc Nab Nac Nbc)
        as [h1 [h2 [h3 [-> [-> [-> [L1 [L2 [L3 [A12 [A13 A23]]]]]]]]]]].
      cbn [cross flat_map map app] in E1, E2.
      destruct (distinct h1 h2 h3 h1 L1 L2 L3 L1 A12 ltac:(congruence) E1 E2) as [[F _]|[_ F]]; congruence.
    - (* b = c; a, b, e distinct *)
      subst c. assert (vc = vb) by (apply (Same b); assumption). subst vc.
      destruct (three_blocks cl a b e va vb ve G IL Ha Hb He Nab Nae Nbe)
        as [h1 [h2 [h3 [-> [-> [-> [L1 [L2 [L3 [A12 [A13 A23]]]]]]]]]]].
      cbn [cross flat_map map app] in E1, E2.
      destruct (distinct h1 h2 h2 h3 L1 L2 L2 L3 A12 A23 E1 E2) as [[F _]|[F _]]; congruence.
    - (* four different keys: impossible over three items *)
      destruct (three_blocks cl a b c va vb vc G IL Ha Hb Hc Nab Nac Nbc)
        as [h1 [h2 [h3 [-> [-> [-> [L1 [L2 [L3 [A12 [A13 A23]]]]]]]]]]].
      destruct G as [_ [NE DJ]]. destruct (NE e ve He) as [Ne _]. destruct ve as [|y t]; [congruence|].
      assert (Ly : y < 3) by (apply (IL e _ y He); left; reflexivity).
      assert (C : y = h1 \/ y = h2 \/ y = h3) by lia.
      destruct C as [C|[C|C]]; subst y.
      + apply (DJ e _ a _ He Ha ltac:(congruence) h1); left; reflexivity.
      + apply (DJ e _ b _ He Hb ltac:(congruence) h2); left; reflexivity.
      + apply (DJ e _ c _ He Hc ltac:(congruence) h3); left; reflexivity.
  Qed.
End ThreeItems.
